(* Driver of the extracted compiled-runtime model. stdin: <ninst> then per instance the integers written by
   harness/compiled_worker.py:export_instance.  Output per instance: INST i / CHECK b / NMONO n / TTMATCH b / CHECKMONO b / TMPLOK b / SUPCOV b / TTCHECK b / CHECKSYM b / CHECKSYM_SMALLER b /
   NEED c v / WIN c k n (seq sent recv)* / ROW node seq ts state out nwins (len (seq sent recv pay)* )* *)
open Cmodel
let rec nat_of_int n = if n <= 0 then O else S (nat_of_int (n-1))
let rec int_of_nat = function O -> 0 | S n -> 1 + int_of_nat n
let rec pos_of_int n = if n = 1 then XH else if n land 1 = 0 then XO (pos_of_int (n/2)) else XI (pos_of_int (n/2))
let z_of_int n = if n = 0 then Z0 else if n > 0 then Zpos (pos_of_int n) else Zneg (pos_of_int (-n))
let rec int_of_pos = function XH -> 1 | XO p -> 2 * int_of_pos p | XI p -> 2 * int_of_pos p + 1
let int_of_z = function Z0 -> 0 | Zpos p -> int_of_pos p | Zneg p -> - (int_of_pos p)
let toks = ref []
let read_all () =
  let buf = Buffer.create 65536 in
  (try while true do Buffer.add_channel buf stdin 1 done with End_of_file -> ());
  let s = Buffer.contents buf in
  let l = String.split_on_char ' ' (String.map (fun c -> if c = '\n' || c = '\t' || c = '\r' then ' ' else c) s) in
  toks := List.filter_map (fun t -> if t = "" then None else Some (int_of_string t)) l
let next () = match !toks with x :: r -> toks := r; x | [] -> failwith "eof"
let z () = z_of_int (next ())

let instance idx =
  let nn = next () in let nc = next () in let sup = next () in let ngen = next () in let nparts = next () in let nslots = next () in
  let nodes = List.init nn (fun _ -> z ()) in
  let conns = List.init nc (fun _ -> let o = next () in let i = next () in let w = next () in
                 { k_out = nat_of_int o; k_in = nat_of_int i; k_win = nat_of_int w }) in
  let conns_a = Array.of_list conns in
  let verts = List.init nn (fun _ -> let k = next () in List.init k (fun _ -> let a = z () in let b = z () in let c = z () in { v_seq = a; v_start = b; v_end = c })) in
  let edges = List.init nc (fun _ -> let k = next () in List.init k (fun _ -> let a = z () in let b = z () in let c = z () in { e_out = a; e_in = b; e_recv = c })) in
  let ins_of n = List.filter (fun c -> int_of_nat conns_a.(c).k_in = n) (List.init nc (fun c -> c)) in
  let slots = List.init nslots (fun _ ->
    let kind = next () in let gen = next () in
    let cells = List.init nparts (fun _ ->
      let run = next () in let sq = z () in let st = z () in let en = z () in
      let wins = List.map (fun c -> List.init (int_of_nat conns_a.(c).k_win) (fun _ -> let a = z () in let b = z () in let d = z () in ((a, b), d))) (ins_of kind) in
      { c_run = (run = 1); c_seq = sq; c_start = st; c_end = en; c_wins = wins }) in
    { s_kind = nat_of_int kind; s_gen = nat_of_int gen; s_cells = cells }) in
  let sizes = List.init nn (fun _ -> z ()) in
  let p0 = next () in let n = next () in
  let nm = next () in
  let mono = List.init nm (fun _ -> let k = next () in let sq = z () in let pt = next () in let sl = next () in
                 { m_kind = nat_of_int k; m_seq = sq; m_part = nat_of_int pt; m_slot = nat_of_int sl }) in
  let i = { i_nodes = nodes; i_conns = conns; i_sup = nat_of_int sup; i_verts = verts; i_edges = edges;
            i_slots = slots; i_ngen = nat_of_int ngen; i_nparts = nat_of_int nparts } in
  Printf.printf "INST %d\n" idx;
  Printf.printf "CHECK %d\n" (if check_schedule i then 1 else 0);
  Printf.printf "CHECKSYM %d\n" (if check_sym i sizes (nat_of_int p0) (nat_of_int n) then 1 else 0);
  Printf.printf "CHECKREPLAY %d\n" (if check_replay i sizes (nat_of_int p0) (nat_of_int n) then 1 else 0);
  Printf.printf "EXTRAOK %d\n" (if extra_ok i then 1 else 0);
  Printf.printf "SCHEDOK %d\n" (if sched_ok i (nat_of_int p0) (nat_of_int n) then 1 else 0);
  (* to_timings: the model's schedule built from the partitioner's monomorphism vs the Timings rex built; the partitioner contract;
     check_schedule of the MODEL's schedule (to_timings_valid says CHECKMONO 1 implies TTCHECK 1) *)
  Printf.printf "NMONO %d\n" nm;
  Printf.printf "TTMATCH %d\n" (if to_timings_matches i mono then 1 else 0);
  Printf.printf "CHECKMONO %d\n" (if check_mono i (tmpl_of i) mono then 1 else 0);
  Printf.printf "TMPLOK %d\n" (if tmpl_ok i (tmpl_of i) then 1 else 0);
  Printf.printf "SUPCOV %d\n" (if sup_covered i mono then 1 else 0);
  Printf.printf "TTCHECK %d\n" (if check_schedule (set_slots i (to_timings i (tmpl_of i) mono)) then 1 else 0);
  let small = List.map (fun z -> z_of_int (max 1 (int_of_z z - 1))) sizes in
  Printf.printf "CHECKSYM_SMALLER %d\n" (if check_sym i small (nat_of_int p0) (nat_of_int n) then 1 else 0);
  for c = 0 to nc - 1 do Printf.printf "NEED %d %d\n" c (int_of_z (buffer_need i (nat_of_int c))) done;
  for c = 0 to nc - 1 do
    List.iteri (fun k w -> Printf.printf "WIN %d %d %d" c k (List.length w);
       List.iter (fun ((a, b), d) -> Printf.printf " %d %d %d" (int_of_z a) (int_of_z b) (int_of_z d)) w; print_newline ())
      (win_model i (nat_of_int c))
  done;
  let s = rollout_probe i sizes (nat_of_int p0) (nat_of_int n) in
  List.iter (fun r ->
     Printf.printf "ROW %d %d %d %d %d %d" (int_of_nat r.w_node) (int_of_z r.w_seq) (int_of_z r.w_ts) (int_of_z r.w_st) (int_of_z r.w_out) (List.length r.w_in);
     List.iter (fun w -> Printf.printf " %d" (List.length w);
        List.iter (fun (((a, b), c), d) -> Printf.printf " %d %d %d %d" (int_of_z a) (int_of_z b) (int_of_z c) (int_of_z d)) w) r.w_in;
     print_newline ()) s.r_log

let () = read_all (); let n = next () in for i = 0 to n - 1 do instance i done
