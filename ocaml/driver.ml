(* Driver of the extracted models. Reads whitespace-separated integers from stdin.
   rexmodel async : <ncases> then per case: nn nc, nodes, conns, limits, seed  -> CASE i / ROW / MSG lines *)
open Model
let rec nat_of_int n = if n <= 0 then O else S (nat_of_int (n-1))
let rec int_of_nat = function O -> 0 | S n -> 1 + int_of_nat n
let rec pos_of_int n = if n = 1 then XH else if n land 1 = 0 then XO (pos_of_int (n/2)) else XI (pos_of_int (n/2))
let z_of_int n = if n = 0 then Z0 else if n > 0 then Zpos (pos_of_int n) else Zneg (pos_of_int (-n))
let rec int_of_pos = function XH -> 1 | XO p -> 2 * int_of_pos p | XI p -> 2 * int_of_pos p + 1
let int_of_z = function Z0 -> 0 | Zpos p -> int_of_pos p | Zneg p -> - (int_of_pos p)

let toks = ref []
let read_all () =
  let buf = Buffer.create 65536 in
  (try while true do Buffer.add_channel buf stdin 1 done with End_of_file -> ());
  let s = Buffer.contents buf in
  let l = String.split_on_char ' ' (String.map (fun c -> if c = '\n' || c = '\t' || c = '\r' then ' ' else c) s) in
  toks := List.filter_map (fun t -> if t = "" then None else Some (int_of_string t)) l
let next () = match !toks with x :: r -> toks := r; x | [] -> failwith "eof"

let async_case idx =
  let nn = next () in let nc = next () in
  let rd_list () = let k = next () in List.init k (fun _ -> z_of_int (next ())) in
  let nodes = List.init nn (fun _ ->
    let p = next () in let ph = next () in let adv = next () in let fr = next () in let nid = next () in
    let ds = rd_list () in
    { n_period = z_of_int p; n_phase = z_of_int ph; n_advance = (adv = 1); n_freq = (fr = 1); n_delays = ds; n_nid = z_of_int nid }) in
  let conns = List.init nc (fun _ ->
    let o = next () in let i = next () in let bl = next () in let sk = next () in let bf = next () in
    let w = next () in let ph = next () in let ds = rd_list () in
    { c_out = nat_of_int o; c_in = nat_of_int i; c_blocking = (bl = 1); c_skip = (sk = 1); c_buffer = (bf = 1);
      c_window = nat_of_int w; c_phase = z_of_int ph; c_delays = ds }) in
  let limits = Array.init nn (fun _ -> next ()) in
  let seed = next () in
  let g = { nodes = nodes; conns = conns } in
  let nact = int_of_nat (nACT g) in
  Random.init seed;
  let arr = Array.init nact (fun i -> i) in
  for i = nact - 1 downto 1 do let j = Random.int (i+1) in let t = arr.(i) in arr.(i) <- arr.(j); arr.(j) <- t done;
  let sched = List.map nat_of_int (Array.to_list arr) in
  let limit n = nat_of_int (let i = int_of_nat n in if i < nn then limits.(i) else 0) in
  let s = run g (nat_of_int 100000) sched limit (init g) in
  Printf.printf "CASE %d\n" idx;
  for n = 0 to nn - 1 do
    List.iter (fun r ->
      Printf.printf "ROW %d %d %d %d %d %d" n (int_of_nat r.r_seq) (int_of_z r.r_start) (int_of_z r.r_end) (int_of_z r.r_state) (int_of_z r.r_out);
      List.iter (fun w -> Printf.printf " W %d" (List.length w);
        List.iter (fun (((a, b), c), d) -> Printf.printf " %d %d %d %d" (int_of_z a) (int_of_z b) (int_of_z c) (int_of_z d)) w) r.r_wins;
      print_newline ())
      (rows_of s (nat_of_int n))
  done;
  for c = 0 to nc - 1 do
    List.iter (fun m -> Printf.printf "MSG %d %d %d %d %d\n" c (int_of_nat m.m_out) (int_of_nat m.m_in) (int_of_z m.m_sent) (int_of_z m.m_recv))
      (msgs_of g s (nat_of_int c))
  done

let () =
  read_all ();
  match Sys.argv.(1) with
  | "async" -> let n = next () in for i = 0 to n - 1 do async_case i done
  | _ -> failwith "unknown command"
