(* C03: the counting loop of push_expected_blocking = number of sender ticks scheduled in the receiver's interval *)
From Coq Require Import List Arith ZArith Bool Lia.
From Rex Require Import KahnL AsyncModel2.
Import ListNotations.
Open Scope Z_scope.

Section Count.
Variables (P phm t_low t_high : Z) (N0 skip : bool).
Hypothesis HP : 0 < P.
Definition tick (i : Z) := i * P + phm.
Definition jmax := (t_high - phm) / P.            (* last sender tick scheduled at or before t_high *)

Lemma tick_le_iff i t : tick i <= t <-> i <= (t - phm) / P.
Proof.
  unfold tick. split; intros H.
  - apply Z.div_le_lower_bound; [exact HP|]. lia.
  - assert (H1 : P * ((t - phm) / P) <= t - phm) by (apply Z.mul_div_le; exact HP). nia.
Qed.
Lemma tick_lt_iff i t : tick i < t <-> i <= (t - 1 - phm) / P.
Proof. rewrite <- tick_le_iff. lia. Qed.

(* the flag added at tick i, exactly as the loop body computes it *)
Definition flag (i : Z) : nat :=
  let t := tick i in
  let b0 := N0 && ((negb skip && (t <=? t_low)) || (skip && (t <? t_low))) in
  let b1 := (negb skip && (t_low <? t) && (t <=? t_high)) || (skip && (t_low <=? t) && (t <? t_high)) in
  if t <? phm then 0%nat else ((if b0 then 1 else 0) + (if b1 then 1 else 0))%nat.

(* sum of flags over the index range [i, i + len) *)
Fixpoint flags (len : nat) (i : Z) : nat :=
  match len with O => 0%nat | S len => (flag i + flags len (i + 1))%nat end.

Lemma cnt_loop_flags : forall fuel i acc, i <= jmax + 1 -> jmax + 1 - i < Z.of_nat fuel ->
  cnt_loop fuel i P phm t_low t_high N0 skip acc = (acc + flags (Z.to_nat (jmax + 1 - i)) i)%nat.
Proof.
  induction fuel as [|fuel IH]; intros i acc Hi Hf; [lia|].
  simpl cnt_loop. fold (tick i).
  destruct (Z.ltb_spec t_high (tick i)) as [Hgt|Hle].
  - (* past the end: i = jmax + 1 *)
    assert (i = jmax + 1). { destruct (Z.eq_dec i (jmax + 1)); [assumption|]. exfalso.
      assert (i <= jmax) by lia. apply tick_le_iff in H. lia. }
    subst. replace (jmax + 1 - (jmax + 1)) with 0 by lia. simpl. lia.
  - assert (Hij : i <= jmax) by (apply tick_le_iff; exact Hle).
    replace (Z.to_nat (jmax + 1 - i)) with (S (Z.to_nat (jmax + 1 - (i + 1)))) by lia.
    simpl flags. rewrite IH by lia. unfold flag. fold (tick i). lia.
Qed.

(* closed form of a flag sum when the flag is the indicator of an index interval [a, b] *)
Lemma flags_interval a b : forall len i, (forall j, i <= j < i + Z.of_nat len -> flag j = if (a <=? j) && (j <=? b) then 1%nat else 0%nat) ->
  flags len i = Z.to_nat (Z.max 0 (Z.min b (i + Z.of_nat len - 1) - Z.max a i + 1)).
Proof.
  induction len as [|len IH]; intros i H; simpl flags; [lia|].
  rewrite H by lia. rewrite IH by (intros; apply H; lia).
  destruct (Z.leb_spec a i); destruct (Z.leb_spec i b); simpl; lia.
Qed.
End Count.
Print Assumptions cnt_loop_flags.

(* ---- the four cases: the count is the number of sender ticks i >= 0 scheduled in the receiver's interval ---- *)
Section Cases.
Variables (P phm t_low t_high : Z).
Hypothesis HP : 0 < P.
Hypothesis Hlh : t_low <= t_high.

(* cumulative number of sender ticks (i >= 0) scheduled at or before t / strictly before t *)
Definition cum_le (t : Z) : Z := Z.max 0 ((t - phm) / P + 1).
Definition cum_lt (t : Z) : Z := Z.max 0 ((t - 1 - phm) / P + 1).

Lemma tick_ge_phm i : phm <= tick P phm i <-> 0 <= i.
Proof. unfold tick. nia. Qed.

Ltac flag_case :=
  unfold flag; cbv zeta;
  repeat match goal with |- context [?a <? ?b] => destruct (Z.ltb_spec a b) | |- context [?a <=? ?b] => destruct (Z.leb_spec a b) end;
  simpl; try reflexivity; try lia.

(* non-skip, N > 0: ticks in (t_low, t_high] *)
Lemma flag_ns j : flag P phm t_low t_high false false j =
  if (Z.max 0 ((t_low - phm) / P + 1) <=? j) && (j <=? (t_high - phm) / P) then 1%nat else 0%nat.
Proof.
  pose proof (tick_le_iff P phm HP j t_low) as A. pose proof (tick_le_iff P phm HP j t_high) as B.
  pose proof (tick_ge_phm j) as C.
  unfold flag; cbv zeta. simpl andb. simpl orb.
  destruct (Z.ltb_spec (tick P phm j) phm); destruct (Z.ltb_spec t_low (tick P phm j)); destruct (Z.leb_spec (tick P phm j) t_high);
  destruct (Z.leb_spec (Z.max 0 ((t_low - phm) / P + 1)) j); destruct (Z.leb_spec j ((t_high - phm) / P)); simpl; try reflexivity; exfalso; lia.
Qed.

Theorem blocking_count_nonskip fuel : let i0 := (t_low - phm) / P in let jm := (t_high - phm) / P in
  jm + 1 - i0 < Z.of_nat fuel ->
  Z.of_nat (cnt_loop fuel i0 P phm t_low t_high false false 0) = cum_le t_high - cum_le t_low.
Proof.
  intros i0 jm Hf.
  assert (Hi : i0 <= jm) by (apply Z.div_le_mono; lia).
  rewrite (cnt_loop_flags P phm t_low t_high false false HP fuel i0 0%nat) by (fold jm; unfold jmax; lia).
  rewrite (flags_interval P phm t_low t_high false false (Z.max 0 (i0 + 1)) jm) by (intros; apply flag_ns).
  unfold cum_le, jmax. fold i0 jm. lia.
Qed.
End Cases.
Print Assumptions blocking_count_nonskip.
