(* C16 model, part 2: node / connection configuration.  rex/node.py: BaseNode.__init__, Connection.__init__, connect,
   both set_delay methods, Connection.info, BaseNode.info, from_info, connect_from_info.
   Names are integers, times integer ticks, delay distributions opaque.  Proofs are in NodeCfgLaws.v. *)
From Coq Require Import List ZArith Bool.
From Rex Require Import Phase.
Import ListNotations.
Open Scope Z_scope.

(* which variant of the source is modelled: all false = the code as the property describes it; a true switch is one
   historic defect (DESIGN 7: F3 at its two call sites, F11).  The kernel translator decides which variant /repo is. *)
Record variant := { v_sd_node : bool; v_sd_conn : bool; v_cfi_key : bool }.
Definition v_ok : variant := {| v_sd_node := false; v_sd_conn := false; v_cfi_key := false |}.

Section Cfg.
Variable D : Type.           (* delay distributions *)
Variable q99 : D -> Z.       (* float(dist.quantile(0.99)): the default expected delay *)
Variable d0 : D.             (* the default distribution StaticDist(Normal(0, 0)) *)

Record conn := { c_key : Z (* input name = key of node.inputs *); c_out : Z (* sender *); c_blocking : bool; c_delay : Z;
                 c_dist : D; c_window : Z; c_skip : bool; c_jitter : Z }.
Record node := { n_name : Z; n_rate : Z; n_delay : Z; n_dist : D; n_advance : bool; n_sched : Z; n_inputs : list conn }.
Definition graph := list node.

(* ---- kernels ---- *)
(* __init__:  self.delay_dist = delay_dist if delay_dist is not None else <default>
              self.delay = delay if delay is not None else float(self.delay_dist.quantile(0.99)) *)
Definition init_dist (arg : option D) : D := match arg with Some d => d | None => d0 end.
Definition init_delay (dist : D) (arg : option Z) : Z := match arg with Some v => v | None => q99 dist end.
(* set_delay:  self.delay_dist = <delay_dist> if delay_dist is not None else self.delay_dist   (defect switch: <self.delay_dist>)
               self.delay = delay if delay is not None else self.delay *)
Definition sd_dist (bug : bool) (cur : D) (arg : option D) : D :=
  match arg with Some v => if bug then cur else v | None => cur end.
Definition sd_delay (cur : Z) (arg : option Z) : Z := match arg with Some v => v | None => cur end.
(* connect_from_info:  name=<info.name>   (defect switch: the dict key, which is the sender's name) *)
Definition cfi_name (bug : bool) (key info_name : Z) : Z := if bug then key else info_name.

(* ---- construction ---- *)
Definition mk_node (name rate : Z) (delay : option Z) (dist : option D) (advance : bool) (sched : Z) : node :=
  let d := init_dist dist in
  {| n_name := name; n_rate := rate; n_delay := init_delay d delay; n_dist := d; n_advance := advance; n_sched := sched;
     n_inputs := [] |}.
Definition set_inputs (n : node) (l : list conn) : node :=
  {| n_name := n_name n; n_rate := n_rate n; n_delay := n_delay n; n_dist := n_dist n; n_advance := n_advance n;
     n_sched := n_sched n; n_inputs := l |}.
(* Python dict assignment d[k] = v: replace in place when the key exists, append otherwise *)
Fixpoint dict_set (c : conn) (l : list conn) : list conn :=
  match l with [] => [c] | x :: l => if c_key x =? c_key c then c :: l else x :: dict_set c l end.
(* BaseNode.connect (the receiver's side: self.inputs[name] = Connection(...)) *)
Definition connect_node (n : node) (sender : Z) (blocking : bool) (delay : option Z) (dist : option D) (window : Z)
           (skip : bool) (jitter : Z) (name : option Z) : node :=
  let d := init_dist dist in
  set_inputs n (dict_set {| c_key := match name with Some k => k | None => sender end; c_out := sender;
                            c_blocking := blocking; c_delay := init_delay d delay; c_dist := d; c_window := window;
                            c_skip := skip; c_jitter := jitter |} (n_inputs n)).

Definition upd_node (g : graph) (x : Z) (f : node -> node) : graph := map (fun n => if n_name n =? x then f n else n) g.
Definition find_node (g : graph) (x : Z) : option node := find (fun n => n_name n =? x) g.

Definition set_delay_node1 (v : variant) (n : node) (dist : option D) (delay : option Z) : node :=
  {| n_name := n_name n; n_rate := n_rate n; n_delay := sd_delay (n_delay n) delay; n_dist := sd_dist (v_sd_node v) (n_dist n) dist;
     n_advance := n_advance n; n_sched := n_sched n; n_inputs := n_inputs n |}.
Definition set_delay_conn1 (v : variant) (c : conn) (dist : option D) (delay : option Z) : conn :=
  {| c_key := c_key c; c_out := c_out c; c_blocking := c_blocking c; c_delay := sd_delay (c_delay c) delay;
     c_dist := sd_dist (v_sd_conn v) (c_dist c) dist; c_window := c_window c; c_skip := c_skip c; c_jitter := c_jitter c |}.

(* ---- the operations a user performs on a set of nodes ---- *)
Inductive op :=
| OConnect (recv sender : Z) (blocking : bool) (delay : option Z) (dist : option D) (window : Z) (skip : bool) (jitter : Z)
           (name : option Z)                                             (* nodes[recv].connect(nodes[sender], ...) *)
| OSetNode (x : Z) (dist : option D) (delay : option Z)                  (* nodes[x].set_delay(dist, delay) *)
| OSetConn (recv key : Z) (dist : option D) (delay : option Z).          (* nodes[recv].inputs[key].set_delay(dist, delay) *)

Definition apply_op (v : variant) (g : graph) (o : op) : graph :=
  match o with
  | OConnect r s b de di w sk j nm => upd_node g r (fun n => connect_node n s b de di w sk j nm)
  | OSetNode x di de => upd_node g x (fun n => set_delay_node1 v n di de)
  | OSetConn r k di de => upd_node g r (fun n => set_inputs n (map (fun c => if c_key c =? k then set_delay_conn1 v c di de else c)
                                                                   (n_inputs n)))
  end.
Definition apply_ops (v : variant) (g : graph) (os : list op) : graph := fold_left (apply_op v) os g.

(* ---- phases of a configuration ---- *)
Definition inp_of_conn (c : conn) : inp := {| i_out := c_out c; i_delay := c_delay c; i_skip := c_skip c |}.
Definition g_inputs (g : graph) (x : Z) : list inp :=
  match find_node g x with Some n => map inp_of_conn (n_inputs n) | None => [] end.
Definition g_ndelay (g : graph) (x : Z) : Z := match find_node g x with Some n => n_delay n | None => 0 end.
Definition g_rate (g : graph) (x : Z) : Z := match find_node g x with Some n => n_rate n | None => 0 end.
(* node.phase, None = RecursionError("Algebraic loop detected ...").  More fuel than nodes: PhaseLaws.phase_none_iff_loops *)
Definition gphase (g : graph) (x : Z) : option Z := phase (g_inputs g) (g_ndelay g) (S (length g)) x.

(* ---- infos ---- *)
Record inputinfo := { ii_rate : Z; ii_window : Z; ii_blocking : bool; ii_skip : bool; ii_jitter : Z; ii_phase : Z; ii_dist : D;
                      ii_delay : Z; ii_name : Z; ii_output : Z }.
Record nodeinfo := { ni_rate : Z; ni_advance : bool; ni_sched : Z; ni_phase : Z; ni_dist : D; ni_delay : Z;
                     ni_inputs : list (Z * inputinfo) (* a dict keyed by the SENDER's name *); ni_name : Z }.

(* Connection.info; None = Connection.phase raised *)
Definition conn_info (g : graph) (c : conn) : option inputinfo :=
  match gphase g (c_out c) with
  | None => None
  | Some p => Some {| ii_rate := g_rate g (c_out c); ii_window := c_window c; ii_blocking := c_blocking c; ii_skip := c_skip c;
                      ii_jitter := c_jitter c; ii_phase := conn_phase (phase_output p (g_ndelay g (c_out c))) (c_delay c);
                      ii_dist := c_dist c; ii_delay := c_delay c; ii_name := c_key c; ii_output := c_out c |}
  end.
Fixpoint all_some {X} (l : list (option X)) : option (list X) :=
  match l with [] => Some [] | None :: _ => None
  | Some x :: l => match all_some l with Some r => Some (x :: r) | None => None end end.
Fixpoint kv_set {V} (k : Z) (v : V) (l : list (Z * V)) : list (Z * V) :=
  match l with [] => [(k, v)] | (k', v') :: l => if k' =? k then (k, v) :: l else (k', v') :: kv_set k v l end.
(* the dict comprehension {c.output_node.name: c.info for i, c in self.inputs.items()} *)
Definition kv_of_list {V} (l : list (Z * V)) : list (Z * V) := fold_left (fun d kv => kv_set (fst kv) (snd kv) d) l [].
(* BaseNode.info; None = it raised (its own phase or the phase of one of its connections) *)
Definition node_info (g : graph) (n : node) : option nodeinfo :=
  match gphase g (n_name n), all_some (map (conn_info g) (n_inputs n)) with
  | Some p, Some iis =>
      Some {| ni_rate := n_rate n; ni_advance := n_advance n; ni_sched := n_sched n; ni_phase := p; ni_dist := n_dist n;
              ni_delay := n_delay n; ni_inputs := kv_of_list (map (fun ii => (ii_output ii, ii)) iis); ni_name := n_name n |}
  | _, _ => None
  end.
Definition infos (g : graph) : option (list nodeinfo) := all_some (map (node_info g) g).

(* ---- rebuilding from infos ---- *)
(* cls.from_info(info) *)
Definition node_of_info (i : nodeinfo) : node :=
  mk_node (ni_name i) (ni_rate i) (Some (ni_delay i)) (Some (ni_dist i)) (ni_advance i) (ni_sched i).
(* new.connect_from_info(info.inputs, nodes): one connect per dict item *)
Definition rebuild_node (v : variant) (i : nodeinfo) : node :=
  fold_left (fun n kv => let ii := snd kv in
               connect_node n (ii_output ii) (ii_blocking ii) (Some (ii_delay ii)) (Some (ii_dist ii)) (ii_window ii)
                            (ii_skip ii) (ii_jitter ii) (Some (cfi_name (v_cfi_key v) (fst kv) (ii_name ii))))
            (ni_inputs i) (node_of_info i).
Definition rebuild (v : variant) (is : list nodeinfo) : graph := map (rebuild_node v) is.

(* ---- what a simulated episode draws: the k-th computation delay of node x / communication delay of connection (x, key) ---- *)
Section Sim.
Variable draw : D -> nat -> Z.       (* the sample stream of a distribution after reset *)
Definition step_delay (g : graph) (x : Z) (k : nat) : option Z := option_map (fun n => draw (n_dist n) k) (find_node g x).
Definition find_conn (n : node) (key : Z) : option conn := find (fun c => c_key c =? key) (n_inputs n).
Definition msg_delay (g : graph) (x key : Z) (k : nat) : option Z :=
  match find_node g x with Some n => option_map (fun c => draw (c_dist c) k) (find_conn n key) | None => None end.
End Sim.

(* ---- well-formed configurations: unique node names, unique input names and at most one connection per sender at
   every node, every sender is a node ---- *)
Definition wf_node (g : graph) (n : node) : Prop :=
  NoDup (map c_key (n_inputs n)) /\ NoDup (map c_out (n_inputs n)) /\
  forall c, In c (n_inputs n) -> In (c_out c) (map n_name g).
Definition wf (g : graph) : Prop := NoDup (map n_name g) /\ forall n, In n g -> wf_node g n.
End Cfg.

Arguments mk_node {D}. Arguments apply_ops {D}. Arguments gphase {D}. Arguments infos {D}. Arguments rebuild {D}.
Arguments node_info {D}. Arguments rebuild_node {D}.
