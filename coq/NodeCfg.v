(* C16: set_delay and the info round trip, on an abstract record model of nodes and connections *)
From Coq Require Import List Arith ZArith Bool String Lia.
Import ListNotations.
Open Scope Z_scope.

Section Cfg.
Variable dist : Type.      (* delay distributions, opaque *)

Record connection := { c_out : string; c_blocking : bool; c_delay : Z; c_dist : dist; c_window : nat;
                       c_skip : bool; c_jitter : bool; c_name : string (* input (shadow) name *) }.
Record nodecfg := { n_name : string; n_rate : Z; n_delay : Z; n_dist : dist; n_advance : bool; n_sched : bool;
                    n_inputs : list connection }.

(* the repaired set_delay:  x = arg if arg is not None else x *)
Definition set_delay_node (n : nodecfg) (d : option dist) (e : option Z) : nodecfg :=
  {| n_name := n_name n; n_rate := n_rate n; n_delay := match e with Some v => v | None => n_delay n end;
     n_dist := match d with Some v => v | None => n_dist n end; n_advance := n_advance n; n_sched := n_sched n;
     n_inputs := n_inputs n |}.
(* the pinned code:  self.delay_dist = self.delay_dist if delay_dist is not None else self.delay_dist *)
Definition set_delay_node_pinned (n : nodecfg) (d : option dist) (e : option Z) : nodecfg :=
  {| n_name := n_name n; n_rate := n_rate n; n_delay := match e with Some v => v | None => n_delay n end;
     n_dist := match d with Some _ => n_dist n | None => n_dist n end; n_advance := n_advance n; n_sched := n_sched n;
     n_inputs := n_inputs n |}.

Theorem set_delay_takes_effect n d e : n_dist (set_delay_node n (Some d) e) = d /\
  (forall v, e = Some v -> n_delay (set_delay_node n (Some d) e) = v).
Proof. split; [reflexivity|intros v ->; reflexivity]. Qed.
Theorem set_delay_none_keeps n : set_delay_node n None None = n.
Proof. destruct n; reflexivity. Qed.
(* the pinned code ignores the distribution argument: a witness whenever two distributions differ *)
Theorem set_delay_pinned_refuted n d : d <> n_dist n -> n_dist (set_delay_node_pinned n (Some d) None) <> d.
Proof. simpl. congruence. Qed.

(* ---- info / from_info / connect_from_info ---- *)
Record inputinfo := { ii_window : nat; ii_blocking : bool; ii_skip : bool; ii_jitter : bool; ii_dist : dist;
                      ii_delay : Z; ii_name : string; ii_output : string }.
Record nodeinfo := { ni_name : string; ni_rate : Z; ni_delay : Z; ni_dist : dist; ni_advance : bool; ni_sched : bool;
                     ni_inputs : list (string * inputinfo) (* keyed by the sender's name *) }.
Definition info_of_conn (c : connection) : inputinfo :=
  {| ii_window := c_window c; ii_blocking := c_blocking c; ii_skip := c_skip c; ii_jitter := c_jitter c;
     ii_dist := c_dist c; ii_delay := c_delay c; ii_name := c_name c; ii_output := c_out c |}.
Definition info (n : nodecfg) : nodeinfo :=
  {| ni_name := n_name n; ni_rate := n_rate n; ni_delay := n_delay n; ni_dist := n_dist n; ni_advance := n_advance n;
     ni_sched := n_sched n; ni_inputs := map (fun c => (c_out c, info_of_conn c)) (n_inputs n) |}.
(* connect(..., name=X): the repaired code passes info.name, the pinned code passes the dict key (= sender's name) *)
Definition conn_of_info (fixed : bool) (key : string) (i : inputinfo) : connection :=
  {| c_out := ii_output i; c_blocking := ii_blocking i; c_delay := ii_delay i; c_dist := ii_dist i; c_window := ii_window i;
     c_skip := ii_skip i; c_jitter := ii_jitter i; c_name := if fixed then ii_name i else key |}.
Definition rebuild (fixed : bool) (i : nodeinfo) : nodecfg :=
  {| n_name := ni_name i; n_rate := ni_rate i; n_delay := ni_delay i; n_dist := ni_dist i; n_advance := ni_advance i;
     n_sched := ni_sched i; n_inputs := map (fun ki => conn_of_info fixed (fst ki) (snd ki)) (ni_inputs i) |}.

Theorem info_roundtrip n : rebuild true (info n) = n.
Proof.
  destruct n as [nm r d ds a s ins]. unfold rebuild, info; simpl. f_equal.
  rewrite map_map. rewrite <- (map_id ins) at 2. apply map_ext. intros []; reflexivity.
Qed.
(* pinned: the shadow name is lost whenever it differs from the sender's name *)
Theorem info_roundtrip_pinned_refuted n c : In c (n_inputs n) -> c_name c <> c_out c -> rebuild false (info n) <> n.
Proof.
  intros Hin Hne Heq. assert (H : n_inputs (rebuild false (info n)) = n_inputs n) by (rewrite Heq; reflexivity).
  unfold rebuild, info in H; simpl in H. rewrite map_map in H.
  assert (Hc : In c (map (fun x => conn_of_info false (fst (c_out x, info_of_conn x)) (snd (c_out x, info_of_conn x))) (n_inputs n)))
    by (rewrite H; exact Hin).
  apply in_map_iff in Hc. destruct Hc as [x [Hx _]]. subst c. simpl in Hne. congruence.
Qed.
End Cfg.
Print Assumptions info_roundtrip.
