(* C01/C08: the certified symbolic-run checker and what a passed check means for the real run *)
From Coq Require Import List Arith ZArith Bool Lia.
From Rex Require Import CompiledModel RunnerSym.
Import ListNotations.
Open Scope Z_scope.

Definition tag_eqb (a b : tag) : bool :=
  match a, b with
  | TInit n, TInit m => Nat.eqb n m | TDef n, TDef m => Nat.eqb n m
  | TOut n k, TOut m j => Nat.eqb n m && (k =? j) | _, _ => false end.
Lemma tag_eqb_eq a b : tag_eqb a b = true -> a = b.
Proof.
  destruct a, b; simpl; intros H; try discriminate.
  - apply Nat.eqb_eq in H. now subst.
  - apply Nat.eqb_eq in H. now subst.
  - apply andb_prop in H. destruct H as [H1 H2]. apply Nat.eqb_eq in H1. apply Z.eqb_eq in H2. now subst.
Qed.

Section Check.
Variable I : inst.
Variable sizes : list Z.

(* senders of the windows handed to node n, in the order inputs_of delivers them (sorted by sender index) *)
Definition expected_state (n : nat) (k : Z) : tag := if k =? 0 then TInit n else TOut n (k - 1).
Definition entry_ok (m : nat) (e : Z * Z * Z * tag) : bool :=
  match e with (s, _, _, t) => tag_eqb t (if s <? 0 then TDef m else TOut m s) end.
(* every window of the row consists of entries of ONE sender m, tagged as the schedule says *)
Definition window_ok (w : list (Z * Z * Z * tag)) : bool :=
  existsb (fun m => forallb (entry_ok m) w) (seq 0 (length (i_nodes I))).
Definition row_check (r : row tag) : bool :=
  tag_eqb (w_st tag r) (expected_state (w_node tag r) (w_seq tag r)) && forallb window_ok (w_in tag r).

Definition sym_log (p0 n : nat) : list (row tag) := r_log tag (rollout I tag ftag TInit TDef sizes p0 n).
Definition check_sym (p0 n : nat) : bool := forallb row_check (sym_log p0 n).

(* What a passed check means, for ANY payload type and step function: the i-th real row took as state the initial
   state (k = 0) or the output of an executed row (node, k-1), and every window entry with seq s >= 0 carries the output
   of an executed row (m, s), every entry with s < 0 the default output of m -- and the row's output is f of those. *)
Variable Val : Type.
Variable f : nat -> Z -> Z -> Val -> list (list (Z * Z * Z * Val)) -> Val.
Variables (vi vd : nat -> Val).
Definition real_log (p0 n : nat) : list (row Val) := r_log Val (rollout I Val f vi vd sizes p0 n).

Definition produced (log : list (row Val)) (m : nat) (s : Z) (x : Val) : Prop :=
  exists r, In r log /\ w_node Val r = m /\ w_seq Val r = s /\ w_out Val r = x.

Theorem runner_dataflow p0 n : check_sym p0 n = true ->
  forall r, In r (real_log p0 n) ->
    w_out Val r = f (w_node Val r) (w_seq Val r) (w_ts Val r) (w_st Val r) (w_in Val r) /\
    (if w_seq Val r =? 0 then w_st Val r = vi (w_node Val r)
     else produced (real_log p0 n) (w_node Val r) (w_seq Val r - 1) (w_st Val r)) /\
    (forall w, In w (w_in Val r) -> exists m, forall s a b x, In (s, a, b, x) w ->
        if s <? 0 then x = vd m else produced (real_log p0 n) m s x).
Proof.
  intros Hc r Hr.
  pose proof (runner_coherent I sizes Val f vi vd p0 n) as (_ & _ & J3).
  pose proof (paired_fst I sizes Val f vi vd p0 n) as Pf. pose proof (paired_snd I sizes Val f vi vd p0 n) as Ps.
  set (P := prun I sizes Val f vi vd p0 n) in *.
  assert (Lf : real_log p0 n = map (hrow (PV Val) Val fst) (r_log _ P)) by (unfold real_log; rewrite <- Pf; reflexivity).
  assert (Ls : sym_log p0 n = map (hrow (PV Val) tag snd) (r_log _ P)) by (unfold sym_log; rewrite <- Ps; reflexivity).
  rewrite Lf in Hr. apply in_map_iff in Hr. destruct Hr as [pr [<- Hpr]].
  destruct (J3 pr Hpr) as (A & B & C & D).
  assert (Hrc : row_check (hrow (PV Val) tag snd pr) = true).
  { unfold check_sym in Hc. rewrite Ls in Hc. rewrite forallb_forall in Hc. apply Hc. apply in_map. exact Hpr. }
  unfold row_check in Hrc. apply andb_prop in Hrc. destruct Hrc as [Hst Hwin]. apply tag_eqb_eq in Hst. simpl in Hst.
  assert (Hprod : forall x m s, coh Val vi vd (r_log _ P) x -> snd x = TOut m s -> produced (real_log p0 n) m s (fst x)).
  { intros x m s Hx Ht. unfold coh in Hx. rewrite Ht in Hx. destruct Hx as (r0 & Hr0 & Hn & Hs & Ho).
    exists (hrow (PV Val) Val fst r0). rewrite Lf. repeat split; auto. apply in_map. exact Hr0. }
  split; [exact B|]. split.
  - simpl. unfold expected_state in Hst. destruct (w_seq (PV Val) pr =? 0).
    + unfold coh in C. rewrite Hst in C. exact C.
    + apply Hprod; auto.
  - intros w Hw. simpl in Hw. unfold hins in Hw. apply in_map_iff in Hw. destruct Hw as [pw [<- Hpw]].
    rewrite forallb_forall in Hwin.
    assert (Hwo : window_ok (map (hent (PV Val) tag snd) pw) = true).
    { apply Hwin. simpl. unfold hins. apply in_map. exact Hpw. }
    unfold window_ok in Hwo. apply existsb_exists in Hwo. destruct Hwo as (m & _ & Hall). exists m.
    intros s a b x Hin. apply in_map_iff in Hin. destruct Hin as [[[[s' a'] b'] px] [Heq Hpx]].
    simpl in Heq. injection Heq as -> -> -> <-.
    rewrite forallb_forall in Hall.
    assert (He : entry_ok m (hent (PV Val) tag snd (s, a, b, px)) = true) by (apply Hall; apply in_map; exact Hpx).
    simpl in He. apply tag_eqb_eq in He.
    specialize (D pw Hpw _ Hpx). simpl in D.
    destruct (s <? 0).
    + unfold coh in D. rewrite He in D. exact D.
    + apply Hprod; auto.
Qed.
End Check.
Print Assumptions runner_dataflow.
