(* C02, instance half: the rex actors satisfy the hypotheses of the generic Kahn theorem *)
From Coq Require Import List Arith ZArith Bool Lia.
From Rex Require Import KahnL AsyncModel2.
Import ListNotations.

From Coq Require Import ZifyNat ZifyBool.
Ltac Zify.zify_post_hook ::= Z.div_mod_to_equations.

(* ---- list-level stability lemmas ---- *)
Lemma hd_opt_app l t x : hd_opt l = Some x -> hd_opt (l ++ t) = Some x.
Proof. destruct l; simpl; congruence. Qed.

Lemma take_recv_app n : forall l t rs, take_recv n l = Some rs -> take_recv n (l ++ t) = Some rs.
Proof.
  induction n as [|n IH]; intros l t rs H; simpl in *; [exact H|].
  destruct l as [|x l]; [discriminate|]. destruct x; try discriminate. simpl.
  destruct (take_recv n l) eqn:E; [|discriminate]. rewrite (IH _ t _ E). exact H.
Qed.

Lemma take_msgs_app n : forall l t rs, take_msgs n l = Some rs -> take_msgs n (l ++ t) = Some rs.
Proof.
  induction n as [|n IH]; intros l t rs H; simpl in *; [exact H|].
  destruct l as [|x l]; [discriminate|]. destruct x; try discriminate. simpl.
  destruct (take_msgs n l) eqn:E; [|discriminate]. rewrite (IH _ t _ E). exact H.
Qed.

Lemma has_future_app t l x : has_future t l = true -> has_future t (l ++ x) = true.
Proof. unfold has_future. rewrite existsb_app. intros ->. reflexivity. Qed.

Lemma count_latest_app skip t l x : has_future t l = true ->
  count_latest skip t (l ++ x) = count_latest skip t l.
Proof.
  unfold has_future. induction l as [|y l IH]; simpl; intros H; [discriminate|].
  destruct y; try reflexivity.
  destruct ((t <? r)%Z) eqn:E; simpl; [reflexivity|].
  destruct (skip && (r =? t)%Z); [reflexivity|].
  f_equal. apply IH. simpl in H. exact H.
Qed.

Lemma count_buffer_app skip Pm phc t l x : has_future t l = true ->
  count_buffer skip Pm phc t (l ++ x) = count_buffer skip Pm phc t l.
Proof.
  unfold has_future. induction l as [|y l IH]; simpl; intros H; [discriminate|].
  destruct y; try reflexivity.
  destruct ((t <? r)%Z) eqn:E; simpl.
  - rewrite orb_true_r. reflexivity.
  - destruct ((t <? Z.of_nat k * Pm + phc)%Z); [reflexivity|]. simpl.
    destruct (skip && (r =? t)%Z); [reflexivity|].
    f_equal. apply IH. simpl in H. exact H.
Qed.

Section Inst.
Variable G : cfg.
Notation NCH := (NCH G). Notation NACT := (NACT G). Notation NN := (NN G). Notation NCn := (NCn G).
Notation reader := (reader G). Notation writer := (writer G).

Definition ext (a : nat) (u u' : nat -> list tok) := ext_le tok NCH reader a u u'.

Lemma in_idxs_from p : forall l i c, In c (idxs_from i l p) ->
  (i <= c < i + length l)%nat /\ p (nth (c - i) l dconn) = true.
Proof.
  induction l as [|x l IH]; simpl; intros i c H; [contradiction|].
  apply in_app_or in H. destruct H as [H|H].
  - destruct (p x) eqn:E; [|contradiction]. destruct H as [<-|[]]. rewrite Nat.sub_diag. split; [lia|exact E].
  - apply IH in H. destruct H as [H1 H2]. split; [lia|].
    replace (c - i)%nat with (S (c - S i)) by lia. exact H2.
Qed.

Lemma in_ins n c : In c (ins G n) -> (c < NCn)%nat /\ c_in (conn G c) = n.
Proof.
  intros H. apply in_idxs_from in H. destruct H as [H1 H2]. rewrite Nat.sub_0_r in H2.
  split; [unfold AsyncModel2.NCn; lia|]. apply Nat.eqb_eq. exact H2.
Qed.
Lemma in_outs n c : In c (outs G n) -> (c < NCn)%nat /\ c_out (conn G c) = n.
Proof.
  intros H. apply in_idxs_from in H. destruct H as [H1 H2]. rewrite Nat.sub_0_r in H2.
  split; [unfold AsyncModel2.NCn; lia|]. apply Nat.eqb_eq. exact H2.
Qed.

(* decode facts, all linear because strides are literals *)
Lemma reader_node n k : (n < NN)%nat -> (k < 4)%nat ->
  reader (4 * n + k) = match k with 0%nat => ASched n | 1%nat => AShift n | 2%nat => AShift n | _ => AStep n end.
Proof.
  intros Hn Hk. unfold AsyncModel2.reader.
  destruct (Nat.ltb_spec (4 * n + k) (4 * NN)) as [Hlt|Hge]; [|exfalso; lia].
  replace ((4 * n + k) / 4)%nat with n by lia.
  replace ((4 * n + k) mod 4)%nat with k by lia.
  reflexivity.
Qed.
Lemma decode_conn c k : (k < 11)%nat ->
  ((cch G k c - 4 * NN) / 11 = c)%nat /\ ((cch G k c - 4 * NN) mod 11 = k)%nat /\ (cch G k c <? 4 * NN)%nat = false.
Proof.
  intros Hk. unfold cch. replace (4 * NN + 11 * c + k - 4 * NN)%nat with (11 * c + k)%nat by lia.
  repeat split.
  - lia.
  - lia.
  - apply Nat.ltb_ge. lia.
Qed.
Lemma cch_lt c k : (c < NCn)%nat -> (k < 11)%nat -> (cch G k c < NCH)%nat.
Proof. unfold cch, AsyncModel2.NCH. lia. Qed.
Lemma node_lt n k : (n < NN)%nat -> (k < 4)%nat -> (4 * n + k < NCH)%nat.
Proof. unfold AsyncModel2.NCH. lia. Qed.

Ltac rd_conn k :=
  unfold AsyncModel2.reader;
  match goal with |- context [cch G k ?c] =>
    destruct (decode_conn c k) as (-> & -> & ->); [lia|] end.

Lemma reader_TsOut c : reader (TsOut G c) = cact G 0 c. Proof. unfold TsOut. rd_conn 0%nat. reflexivity. Qed.
Lemma reader_MsgOut c : reader (MsgOut G c) = cact G 1 c. Proof. unfold MsgOut. rd_conn 1%nat. reflexivity. Qed.
Lemma reader_TsIn c : reader (TsIn G c) = if c_blocking (conn G c) then cact G 4 c else cact G 5 c.
Proof. unfold TsIn. rd_conn 2%nat. reflexivity. Qed.
Lemma reader_ZipD c : reader (ZipD G c) = cact G 2 c. Proof. unfold ZipD. rd_conn 3%nat. reflexivity. Qed.
Lemma reader_ZipM c : reader (ZipM G c) = cact G 2 c. Proof. unfold ZipM. rd_conn 4%nat. reflexivity. Qed.
Lemma reader_Msgs c : reader (Msgs G c) = cact G 6 c. Proof. unfold Msgs. rd_conn 5%nat. reflexivity. Qed.
Lemma reader_Next c : reader (Next G c) = if c_blocking (conn G c) then cact G 3 c else cact G 5 c.
Proof. unfold Next. rd_conn 6%nat. reflexivity. Qed.
Lemma reader_ExpMax c : reader (ExpMax G c) = cact G 4 c. Proof. unfold ExpMax. rd_conn 7%nat. reflexivity. Qed.
Lemma reader_ExpSel c : reader (ExpSel G c) = cact G 6 c. Proof. unfold ExpSel. rd_conn 8%nat. reflexivity. Qed.
Lemma reader_TsMax c : reader (TsMax G c) = AShift (c_in (conn G c)). Proof. unfold TsMax. rd_conn 9%nat. reflexivity. Qed.
Lemma reader_Grouped c : reader (Grouped G c) = AStep (c_in (conn G c)). Proof. unfold Grouped. rd_conn 10%nat. reflexivity. Qed.

(* extension facts for the channels an actor reads *)
Lemma ext_at a u u' c : ext a u u' -> (c < NCH)%nat -> reader c = a -> exists t, u' c = u c ++ t.
Proof. intros H H1 H2. exact (H c H1 H2). Qed.

Lemma heads_max_ext cs : forall u u' n m, ext (AShift n) u u' ->
  (forall c, In c cs -> (c < NCn)%nat /\ c_in (conn G c) = n) ->
  heads_max G cs u = Some m -> heads_max G cs u' = Some m.
Proof.
  induction cs as [|c cs IH]; simpl; intros u u' n m He Hin H; [exact H|].
  destruct (hd_opt (u (TsMax G c))) eqn:E; [|discriminate]. destruct t; try discriminate.
  destruct (heads_max G cs u) eqn:E2; [|discriminate].
  destruct (Hin c (or_introl eq_refl)) as [Hc Hci].
  destruct (ext_at _ _ _ (TsMax G c) He) as [t Ht]; [apply cch_lt; lia | rewrite reader_TsMax, Hci; reflexivity|].
  rewrite Ht, (hd_opt_app _ t _ E). erewrite IH; eauto.
Qed.

Lemma heads_grp_ext cs : forall u u' n g, ext (AStep n) u u' ->
  (forall c, In c cs -> (c < NCn)%nat /\ c_in (conn G c) = n) ->
  heads_grp G cs u = Some g -> heads_grp G cs u' = Some g.
Proof.
  induction cs as [|c cs IH]; simpl; intros u u' n g He Hin H; [exact H|].
  destruct (hd_opt (u (Grouped G c))) eqn:E; [|discriminate]. destruct t; try discriminate.
  destruct (heads_grp G cs u) eqn:E2; [|discriminate].
  destruct (Hin c (or_introl eq_refl)) as [Hc Hci].
  destruct (ext_at _ _ _ (Grouped G c) He) as [t Ht]; [apply cch_lt; lia | rewrite reader_Grouped, Hci; reflexivity|].
  rewrite Ht, (hd_opt_app _ t _ E). erewrite IH; eauto.
Qed.

Lemma in_filter_ins n p c : In c (filter p (ins G n)) -> (c < NCn)%nat /\ c_in (conn G c) = n.
Proof. intros H. apply filter_In in H. apply in_ins. tauto. Qed.

(* ---- per-actor stability ---- *)
Lemma stable_sched n l u u' r : (n < NN)%nat -> ext (ASched n) u u' ->
  fire_sched G n l u = Some r -> fire_sched G n l u' = Some r.
Proof.
  intros Hn He. unfold fire_sched.
  destruct (hd_opt (u (QTick n))) eqn:E; [|discriminate]. destruct t; try discriminate.
  destruct (ext_at _ _ _ (QTick n) He) as [t Ht];
    [unfold QTick; apply node_lt; lia | unfold QTick; rewrite reader_node by lia; reflexivity|].
  rewrite Ht, (hd_opt_app _ t _ E). auto.
Qed.

Lemma stable_shift n l u u' r : (n < NN)%nat -> ext (AShift n) u u' ->
  fire_shift G n l u = Some r -> fire_shift G n l u' = Some r.
Proof.
  intros Hn He. unfold fire_shift.
  destruct (hd_opt (u (QSched n))) eqn:E1; [|discriminate]. destruct t; try discriminate.
  destruct (hd_opt (u (QEndPrev n))) eqn:E2; [|discriminate]. destruct t; try discriminate.
  destruct (heads_max G _ u) eqn:E3; [|discriminate].
  destruct (ext_at _ _ _ (QSched n) He) as [t1 Ht1];
    [unfold QSched; apply node_lt; lia | unfold QSched; rewrite reader_node by lia; reflexivity|].
  destruct (ext_at _ _ _ (QEndPrev n) He) as [t2 Ht2];
    [unfold QEndPrev; apply node_lt; lia | unfold QEndPrev; rewrite reader_node by lia; reflexivity|].
  rewrite Ht1, (hd_opt_app _ t1 _ E1), Ht2, (hd_opt_app _ t2 _ E2).
  erewrite heads_max_ext; eauto. intros c Hc. eapply in_filter_ins; eauto.
Qed.

Lemma stable_step n l u u' r : (n < NN)%nat -> ext (AStep n) u u' ->
  fire_step G n l u = Some r -> fire_step G n l u' = Some r.
Proof.
  intros Hn He. unfold fire_step.
  destruct (hd_opt (u (QStart n))) eqn:E1; [|discriminate]. destruct t; try discriminate.
  destruct (heads_grp G _ u) eqn:E3; [|discriminate].
  destruct (ext_at _ _ _ (QStart n) He) as [t1 Ht1];
    [unfold QStart; apply node_lt; lia | unfold QStart; rewrite reader_node by lia; reflexivity|].
  rewrite Ht1, (hd_opt_app _ t1 _ E1).
  erewrite heads_grp_ext; eauto. intros c Hc. apply in_ins; exact Hc.
Qed.

Lemma stable_ts_in c l u u' r : (c < NCn)%nat -> ext (cact G 0 c) u u' ->
  fire_ts_in G c l u = Some r -> fire_ts_in G c l u' = Some r.
Proof.
  intros Hc He. unfold fire_ts_in.
  destruct (hd_opt (u (TsOut G c))) eqn:E; [|discriminate]. destruct t; try discriminate.
  destruct (ext_at _ _ _ (TsOut G c) He) as [t Ht]; [apply cch_lt; lia | apply reader_TsOut|].
  rewrite Ht, (hd_opt_app _ t _ E). auto.
Qed.

Lemma stable_msg_in c l u u' r : (c < NCn)%nat -> ext (cact G 1 c) u u' ->
  fire_msg_in G c l u = Some r -> fire_msg_in G c l u' = Some r.
Proof.
  intros Hc He. unfold fire_msg_in.
  destruct (hd_opt (u (MsgOut G c))) eqn:E; [|discriminate]. destruct t; try discriminate.
  destruct (ext_at _ _ _ (MsgOut G c) He) as [t Ht]; [apply cch_lt; lia | apply reader_MsgOut|].
  rewrite Ht, (hd_opt_app _ t _ E). auto.
Qed.

Lemma stable_zip c l u u' r : (c < NCn)%nat -> ext (cact G 2 c) u u' ->
  fire_zip G c l u = Some r -> fire_zip G c l u' = Some r.
Proof.
  intros Hc He. unfold fire_zip.
  destruct (hd_opt (u (ZipD G c))) eqn:E1; [|discriminate]. destruct t; try discriminate.
  destruct (hd_opt (u (ZipM G c))) eqn:E2; [|discriminate]. destruct t; try discriminate.
  destruct (ext_at _ _ _ (ZipD G c) He) as [t1 Ht1]; [apply cch_lt; lia | apply reader_ZipD|].
  destruct (ext_at _ _ _ (ZipM G c) He) as [t2 Ht2]; [apply cch_lt; lia | apply reader_ZipM|].
  rewrite Ht1, (hd_opt_app _ t1 _ E1), Ht2, (hd_opt_app _ t2 _ E2). auto.
Qed.

Lemma stable_exp_b c l u u' r : (c < NCn)%nat -> ext (cact G 3 c) u u' ->
  fire_exp_b G c l u = Some r -> fire_exp_b G c l u' = Some r.
Proof.
  intros Hc He. unfold fire_exp_b.
  destruct (c_blocking (conn G c)) eqn:Eb; simpl; [|discriminate].
  destruct (hd_opt (u (Next G c))) eqn:E; [|discriminate]. destruct t; try discriminate.
  destruct (ext_at _ _ _ (Next G c) He) as [t Ht]; [apply cch_lt; lia | rewrite reader_Next, Eb; reflexivity|].
  rewrite Ht, (hd_opt_app _ t _ E). auto.
Qed.

Lemma stable_ts_max c l u u' r : (c < NCn)%nat -> ext (cact G 4 c) u u' ->
  fire_ts_max G c l u = Some r -> fire_ts_max G c l u' = Some r.
Proof.
  intros Hc He. unfold fire_ts_max.
  destruct (c_blocking (conn G c)) eqn:Eb; simpl; [|discriminate].
  destruct (hd_opt (u (ExpMax G c))) eqn:E; [|discriminate]. destruct t; try discriminate.
  destruct (take_recv c0 (u (TsIn G c))) eqn:E2; [|discriminate].
  destruct (ext_at _ _ _ (ExpMax G c) He) as [t Ht]; [apply cch_lt; lia | apply reader_ExpMax|].
  destruct (ext_at _ _ _ (TsIn G c) He) as [t2 Ht2]; [apply cch_lt; lia | rewrite reader_TsIn, Eb; reflexivity|].
  rewrite Ht, (hd_opt_app _ t _ E), Ht2, (take_recv_app _ _ t2 _ E2). auto.
Qed.

Lemma stable_exp_nb c l u u' r : (c < NCn)%nat -> ext (cact G 5 c) u u' ->
  fire_exp_nb G c l u = Some r -> fire_exp_nb G c l u' = Some r.
Proof.
  intros Hc He. unfold fire_exp_nb.
  destruct (c_blocking (conn G c)) eqn:Eb; [discriminate|].
  destruct (hd_opt (u (Next G c))) eqn:E; [|discriminate]. destruct t; try discriminate.
  destruct (has_future s (u (TsIn G c))) eqn:Ef; [|discriminate].
  destruct (ext_at _ _ _ (Next G c) He) as [t Ht]; [apply cch_lt; lia | rewrite reader_Next, Eb; reflexivity|].
  destruct (ext_at _ _ _ (TsIn G c) He) as [t2 Ht2]; [apply cch_lt; lia | rewrite reader_TsIn, Eb; reflexivity|].
  rewrite Ht, (hd_opt_app _ t _ E), Ht2, (has_future_app _ _ t2 Ef).
  rewrite (count_buffer_app _ _ _ _ _ t2 Ef), (count_latest_app _ _ _ t2 Ef). auto.
Qed.

Lemma stable_select c l u u' r : (c < NCn)%nat -> ext (cact G 6 c) u u' ->
  fire_select G c l u = Some r -> fire_select G c l u' = Some r.
Proof.
  intros Hc He. unfold fire_select.
  destruct (hd_opt (u (ExpSel G c))) eqn:E; [|discriminate]. destruct t; try discriminate.
  destruct (take_msgs c0 (u (Msgs G c))) eqn:E2; [|discriminate].
  destruct (ext_at _ _ _ (ExpSel G c) He) as [t1 Ht1]; [apply cch_lt; lia | apply reader_ExpSel|].
  destruct (ext_at _ _ _ (Msgs G c) He) as [t2 Ht2]; [apply cch_lt; lia | apply reader_Msgs|].
  rewrite Ht1, (hd_opt_app _ t1 _ E), Ht2, (take_msgs_app _ _ t2 _ E2). auto.
Qed.

Theorem fire_stable a l u u' r : fire G a l u = Some r -> ext a u u' -> fire G a l u' = Some r.
Proof.
  unfold fire. intros H He.
  destruct (Nat.leb_spec NACT a) as [|Ha]; [discriminate|].
  destruct (Nat.ltb_spec a (3 * NN)) as [Hn|Hn].
  - assert (Hd : a = (3 * (a / 3) + a mod 3)%nat) by (apply Nat.div_mod; lia).
    assert (Hm : (a mod 3 < 3)%nat) by (apply Nat.mod_upper_bound; lia).
    assert (Hq : (a / 3 < NN)%nat) by lia.
    destruct (a mod 3)%nat as [|[|[|k]]] eqn:Ek; try lia.
    + apply stable_sched with u; auto. unfold ASched. rewrite <- Hd. exact He.
    + apply stable_shift with u; auto. unfold AShift. rewrite <- Hd. exact He.
    + apply stable_step with u; auto. unfold AStep. rewrite <- Hd. exact He.
  - set (b := (a - 3 * NN)%nat) in *.
    assert (Hd : b = (7 * (b / 7) + b mod 7)%nat) by (apply Nat.div_mod; lia).
    assert (Hm : (b mod 7 < 7)%nat) by (apply Nat.mod_upper_bound; lia).
    assert (Hq : (b / 7 < NCn)%nat) by (unfold AsyncModel2.NACT in Ha; lia).
    assert (Hact : forall k, (b mod 7 = k)%nat -> a = cact G k (b / 7)) by (intros k Hk; unfold cact; lia).
    destruct (b mod 7)%nat as [|[|[|[|[|[|[|k]]]]]]] eqn:Ek; try lia.
    + apply stable_ts_in with u; auto. rewrite <- (Hact 0%nat eq_refl). exact He.
    + apply stable_msg_in with u; auto. rewrite <- (Hact 1%nat eq_refl). exact He.
    + apply stable_zip with u; auto. rewrite <- (Hact 2%nat eq_refl). exact He.
    + apply stable_exp_b with u; auto. rewrite <- (Hact 3%nat eq_refl). exact He.
    + apply stable_ts_max with u; auto. rewrite <- (Hact 4%nat eq_refl). exact He.
    + apply stable_exp_nb with u; auto. rewrite <- (Hact 5%nat eq_refl). exact He.
    + apply stable_select with u; auto. rewrite <- (Hact 6%nat eq_refl). exact He.
Qed.

(* ---- an actor consumes only from channels it reads, produces only on channels it writes ---- *)
Lemma put_own {X} (own : nat -> nat) c0 (v : X) f c a : own c0 = a -> own c <> a -> put c0 v f c = f c.
Proof. intros H1 H2. unfold put. destruct (Nat.eqb_spec c c0); [subst; congruence|reflexivity]. Qed.
Lemma put_all_own {X} (own : nat -> nat) cs (v : X) f c a :
  (forall x, In x cs -> own x = a) -> own c <> a -> put_all cs v f c = f c.
Proof.
  intros H1 H2. unfold put_all. destruct (existsb (Nat.eqb c) cs) eqn:E; [|reflexivity].
  apply existsb_exists in E. destruct E as [x [Hx Hxc]]. apply Nat.eqb_eq in Hxc. subst. exfalso. apply H2. auto.
Qed.

Lemma writer_node n k : (n < NN)%nat -> (k < 4)%nat ->
  writer (4 * n + k) = match k with 0%nat => AStep n | 1%nat => ASched n | 2%nat => AShift n | _ => AShift n end.
Proof.
  intros Hn Hk. unfold AsyncModel2.writer.
  destruct (Nat.ltb_spec (4 * n + k) (4 * NN)) as [Hlt|Hge]; [|exfalso; lia].
  replace ((4 * n + k) / 4)%nat with n by lia.
  replace ((4 * n + k) mod 4)%nat with k by lia.
  reflexivity.
Qed.
Ltac wr_conn k :=
  unfold AsyncModel2.writer;
  match goal with |- context [cch G k ?c] =>
    destruct (decode_conn c k) as (-> & -> & ->); [lia|] end.
Lemma writer_TsOut c : writer (TsOut G c) = AShift (c_out (conn G c)). Proof. unfold TsOut. wr_conn 0%nat. reflexivity. Qed.
Lemma writer_MsgOut c : writer (MsgOut G c) = AStep (c_out (conn G c)). Proof. unfold MsgOut. wr_conn 1%nat. reflexivity. Qed.
Lemma writer_TsIn c : writer (TsIn G c) = cact G 0 c. Proof. unfold TsIn. wr_conn 2%nat. reflexivity. Qed.
Lemma writer_ZipD c : writer (ZipD G c) = cact G 0 c. Proof. unfold ZipD. wr_conn 3%nat. reflexivity. Qed.
Lemma writer_ZipM c : writer (ZipM G c) = cact G 1 c. Proof. unfold ZipM. wr_conn 4%nat. reflexivity. Qed.
Lemma writer_Msgs c : writer (Msgs G c) = cact G 2 c. Proof. unfold Msgs. wr_conn 5%nat. reflexivity. Qed.
Lemma writer_Next c : writer (Next G c) = if c_blocking (conn G c) then ASched (c_in (conn G c)) else AShift (c_in (conn G c)).
Proof. unfold Next. wr_conn 6%nat. reflexivity. Qed.
Lemma writer_ExpMax c : writer (ExpMax G c) = cact G 3 c. Proof. unfold ExpMax. wr_conn 7%nat. reflexivity. Qed.
Lemma writer_ExpSel c : writer (ExpSel G c) = if c_blocking (conn G c) then cact G 3 c else cact G 5 c.
Proof. unfold ExpSel. wr_conn 8%nat. reflexivity. Qed.
Lemma writer_TsMax c : writer (TsMax G c) = cact G 4 c. Proof. unfold TsMax. wr_conn 9%nat. reflexivity. Qed.
Lemma writer_Grouped c : writer (Grouped G c) = cact G 6 c. Proof. unfold Grouped. wr_conn 10%nat. reflexivity. Qed.

Lemma in_map_filter_ins (f : nat -> nat) p n x :
  In x (map f (filter p (ins G n))) -> exists c, x = f c /\ (c < NCn)%nat /\ c_in (conn G c) = n /\ p c = true.
Proof.
  intros H. apply in_map_iff in H. destruct H as [c [<- Hc]]. apply filter_In in Hc. destruct Hc as [Hc Hp].
  apply in_ins in Hc. exists c. tauto.
Qed.
Lemma in_map_ins (f : nat -> nat) n x : In x (map f (ins G n)) -> exists c, x = f c /\ (c < NCn)%nat /\ c_in (conn G c) = n.
Proof. intros H. apply in_map_iff in H. destruct H as [c [<- Hc]]. apply in_ins in Hc. exists c. tauto. Qed.
Lemma in_map_outs (f : nat -> nat) n x : In x (map f (outs G n)) -> exists c, x = f c /\ (c < NCn)%nat /\ c_out (conn G c) = n.
Proof. intros H. apply in_map_iff in H. destruct H as [c [<- Hc]]. apply in_outs in Hc. exists c. tauto. Qed.

Ltac inv_some := match goal with H : Some _ = Some _ |- _ => injection H as <- end.

Theorem fire_cons_own a l u r c : fire G a l u = Some r -> reader c <> a -> cons _ _ r c = 0%nat.
Proof.
  unfold fire. intros H Hr.
  destruct (Nat.leb_spec NACT a) as [|Ha]; [discriminate|].
  destruct (Nat.ltb_spec a (3 * NN)) as [Hn|Hn].
  - assert (Hd : a = (3 * (a / 3) + a mod 3)%nat) by (apply Nat.div_mod; lia).
    assert (Hm : (a mod 3 < 3)%nat) by (apply Nat.mod_upper_bound; lia).
    assert (Hq : (a / 3 < NN)%nat) by lia.
    set (n := (a / 3)%nat) in *.
    destruct (a mod 3)%nat as [|[|[|k]]] eqn:Ek; try lia.
    + unfold fire_sched in H. destruct (hd_opt (u (QTick n))); [|discriminate]. destruct t; try discriminate.
      inv_some. simpl. rewrite (put_own reader _ _ _ _ a); [reflexivity| |exact Hr].
      unfold QTick. rewrite reader_node by lia. unfold ASched. lia.
    + unfold fire_shift in H. destruct (hd_opt (u (QSched n))); [|discriminate]. destruct t; try discriminate.
      destruct (hd_opt (u (QEndPrev n))); [|discriminate]. destruct t; try discriminate.
      destruct (heads_max G _ u); [|discriminate]. inv_some. simpl.
      rewrite (put_own reader _ _ _ _ a); [| unfold QSched; rewrite reader_node by lia; unfold AShift; lia | exact Hr].
      rewrite (put_own reader _ _ _ _ a); [| unfold QEndPrev; rewrite reader_node by lia; unfold AShift; lia | exact Hr].
      rewrite (put_all_own reader _ _ _ _ a); [reflexivity| |exact Hr].
      intros x Hx. apply in_map_filter_ins in Hx. destruct Hx as (c0 & -> & Hc0 & Hci & _).
      rewrite reader_TsMax, Hci. unfold AShift. lia.
    + unfold fire_step in H. destruct (hd_opt (u (QStart n))); [|discriminate]. destruct t; try discriminate.
      destruct (heads_grp G _ u); [|discriminate]. inv_some. simpl.
      rewrite (put_own reader _ _ _ _ a); [| unfold QStart; rewrite reader_node by lia; unfold AStep; lia | exact Hr].
      rewrite (put_all_own reader _ _ _ _ a); [reflexivity| |exact Hr].
      intros x Hx. apply in_map_ins in Hx. destruct Hx as (c0 & -> & Hc0 & Hci).
      rewrite reader_Grouped, Hci. unfold AStep. lia.
  - set (b := (a - 3 * NN)%nat) in *.
    assert (Hd : b = (7 * (b / 7) + b mod 7)%nat) by (apply Nat.div_mod; lia).
    assert (Hm : (b mod 7 < 7)%nat) by (apply Nat.mod_upper_bound; lia).
    assert (Hq : (b / 7 < NCn)%nat) by (unfold AsyncModel2.NACT in Ha; lia).
    assert (Hact : forall k, (b mod 7 = k)%nat -> a = cact G k (b / 7)) by (intros k Hk; unfold cact; lia).
    set (i := (b / 7)%nat) in *.
    destruct (b mod 7)%nat as [|[|[|[|[|[|[|k]]]]]]] eqn:Ek; try lia.
    + unfold fire_ts_in in H. destruct (hd_opt (u (TsOut G i))); [|discriminate]. destruct t; try discriminate.
      inv_some. simpl. rewrite (put_own reader _ _ _ _ a); [reflexivity| rewrite reader_TsOut; symmetry; auto |exact Hr].
    + unfold fire_msg_in in H. destruct (hd_opt (u (MsgOut G i))); [|discriminate]. destruct t; try discriminate.
      inv_some. simpl. rewrite (put_own reader _ _ _ _ a); [reflexivity| rewrite reader_MsgOut; symmetry; auto |exact Hr].
    + unfold fire_zip in H. destruct (hd_opt (u (ZipD G i))); [|discriminate]. destruct t; try discriminate.
      destruct (hd_opt (u (ZipM G i))); [|discriminate]. destruct t; try discriminate.
      inv_some. simpl.
      rewrite (put_own reader _ _ _ _ a); [| rewrite reader_ZipD; symmetry; auto |exact Hr].
      rewrite (put_own reader _ _ _ _ a); [reflexivity| rewrite reader_ZipM; symmetry; auto |exact Hr].
    + unfold fire_exp_b in H. destruct (c_blocking (conn G i)) eqn:Eb; simpl in H; [|discriminate].
      destruct (hd_opt (u (Next G i))); [|discriminate]. destruct t; try discriminate.
      inv_some. simpl. rewrite (put_own reader _ _ _ _ a); [reflexivity| rewrite reader_Next, Eb; symmetry; auto |exact Hr].
    + unfold fire_ts_max in H. destruct (c_blocking (conn G i)) eqn:Eb; simpl in H; [|discriminate].
      destruct (hd_opt (u (ExpMax G i))); [|discriminate]. destruct t; try discriminate.
      destruct (take_recv c0 (u (TsIn G i))); [|discriminate]. inv_some. simpl.
      rewrite (put_own reader _ _ _ _ a); [| rewrite reader_ExpMax; symmetry; auto |exact Hr].
      rewrite (put_own reader _ _ _ _ a); [reflexivity| rewrite reader_TsIn, Eb; symmetry; auto |exact Hr].
    + unfold fire_exp_nb in H. destruct (c_blocking (conn G i)) eqn:Eb; [discriminate|].
      destruct (hd_opt (u (Next G i))); [|discriminate]. destruct t; try discriminate.
      destruct (has_future s (u (TsIn G i))); [|discriminate]. inv_some. simpl.
      rewrite (put_own reader _ _ _ _ a); [| rewrite reader_Next, Eb; symmetry; auto |exact Hr].
      rewrite (put_own reader _ _ _ _ a); [reflexivity| rewrite reader_TsIn, Eb; symmetry; auto |exact Hr].
    + unfold fire_select in H. destruct (hd_opt (u (ExpSel G i))); [|discriminate]. destruct t; try discriminate.
      destruct (take_msgs c0 (u (Msgs G i))); [|discriminate]. inv_some. simpl.
      rewrite (put_own reader _ _ _ _ a); [| rewrite reader_ExpSel; symmetry; auto |exact Hr].
      rewrite (put_own reader _ _ _ _ a); [reflexivity| rewrite reader_Msgs; symmetry; auto |exact Hr].
Qed.

Theorem fire_prod_own a l u r c : fire G a l u = Some r -> writer c <> a -> prod _ _ r c = [].
Proof.
  unfold fire. intros H Hr.
  destruct (Nat.leb_spec NACT a) as [|Ha]; [discriminate|].
  destruct (Nat.ltb_spec a (3 * NN)) as [Hn|Hn].
  - assert (Hd : a = (3 * (a / 3) + a mod 3)%nat) by (apply Nat.div_mod; lia).
    assert (Hm : (a mod 3 < 3)%nat) by (apply Nat.mod_upper_bound; lia).
    assert (Hq : (a / 3 < NN)%nat) by lia.
    set (n := (a / 3)%nat) in *.
    destruct (a mod 3)%nat as [|[|[|k]]] eqn:Ek; try lia.
    + unfold fire_sched in H. destruct (hd_opt (u (QTick n))); [|discriminate]. destruct t; try discriminate.
      inv_some. simpl.
      rewrite (put_own writer _ _ _ _ a); [| unfold QSched; rewrite writer_node by lia; unfold ASched; lia | exact Hr].
      rewrite (put_all_own writer _ _ _ _ a); [reflexivity| |exact Hr].
      intros x Hx. apply in_map_filter_ins in Hx. destruct Hx as (c0 & -> & Hc0 & Hci & Hb).
      rewrite writer_Next, Hb, Hci. unfold ASched. lia.
    + unfold fire_shift in H. destruct (hd_opt (u (QSched n))); [|discriminate]. destruct t; try discriminate.
      destruct (hd_opt (u (QEndPrev n))); [|discriminate]. destruct t; try discriminate.
      destruct (heads_max G _ u); [|discriminate]. inv_some. simpl.
      rewrite (put_own writer _ _ _ _ a); [| unfold QStart; rewrite writer_node by lia; unfold AShift; lia | exact Hr].
      rewrite (put_own writer _ _ _ _ a); [| unfold QEndPrev; rewrite writer_node by lia; unfold AShift; lia | exact Hr].
      rewrite (put_all_own writer _ _ _ _ a);
        [| intros x Hx; apply in_map_outs in Hx; destruct Hx as (c0 & -> & Hc0 & Hco);
           rewrite writer_TsOut, Hco; unfold AShift; lia | exact Hr].
      rewrite (put_all_own writer _ _ _ _ a); [reflexivity| |exact Hr].
      intros x Hx. apply in_map_filter_ins in Hx. destruct Hx as (c0 & -> & Hc0 & Hci & Hb).
      apply negb_true_iff in Hb. rewrite writer_Next, Hb, Hci. unfold AShift. lia.
    + unfold fire_step in H. destruct (hd_opt (u (QStart n))); [|discriminate]. destruct t; try discriminate.
      destruct (heads_grp G _ u); [|discriminate]. inv_some. simpl.
      rewrite (put_own writer _ _ _ _ a); [| unfold QTick; rewrite writer_node by lia; unfold AStep; lia | exact Hr].
      rewrite (put_all_own writer _ _ _ _ a); [reflexivity| |exact Hr].
      intros x Hx. apply in_map_outs in Hx. destruct Hx as (c0 & -> & Hc0 & Hco).
      rewrite writer_MsgOut, Hco. unfold AStep. lia.
  - set (b := (a - 3 * NN)%nat) in *.
    assert (Hd : b = (7 * (b / 7) + b mod 7)%nat) by (apply Nat.div_mod; lia).
    assert (Hm : (b mod 7 < 7)%nat) by (apply Nat.mod_upper_bound; lia).
    assert (Hq : (b / 7 < NCn)%nat) by (unfold AsyncModel2.NACT in Ha; lia).
    assert (Hact : forall k, (b mod 7 = k)%nat -> a = cact G k (b / 7)) by (intros k Hk; unfold cact; lia).
    set (i := (b / 7)%nat) in *.
    destruct (b mod 7)%nat as [|[|[|[|[|[|[|k]]]]]]] eqn:Ek; try lia.
    + unfold fire_ts_in in H. destruct (hd_opt (u (TsOut G i))); [|discriminate]. destruct t; try discriminate.
      inv_some. simpl.
      rewrite (put_own writer _ _ _ _ a); [| rewrite writer_ZipD; symmetry; auto |exact Hr].
      rewrite (put_own writer _ _ _ _ a); [reflexivity| rewrite writer_TsIn; symmetry; auto |exact Hr].
    + unfold fire_msg_in in H. destruct (hd_opt (u (MsgOut G i))); [|discriminate]. destruct t; try discriminate.
      inv_some. simpl. rewrite (put_own writer _ _ _ _ a); [reflexivity| rewrite writer_ZipM; symmetry; auto |exact Hr].
    + unfold fire_zip in H. destruct (hd_opt (u (ZipD G i))); [|discriminate]. destruct t; try discriminate.
      destruct (hd_opt (u (ZipM G i))); [|discriminate]. destruct t; try discriminate.
      inv_some. simpl. rewrite (put_own writer _ _ _ _ a); [reflexivity| rewrite writer_Msgs; symmetry; auto |exact Hr].
    + unfold fire_exp_b in H. destruct (c_blocking (conn G i)) eqn:Eb; simpl in H; [|discriminate].
      destruct (hd_opt (u (Next G i))); [|discriminate]. destruct t; try discriminate.
      inv_some. simpl.
      rewrite (put_own writer _ _ _ _ a); [| rewrite writer_ExpMax; symmetry; auto |exact Hr].
      rewrite (put_own writer _ _ _ _ a); [reflexivity| rewrite writer_ExpSel, Eb; symmetry; auto |exact Hr].
    + unfold fire_ts_max in H. destruct (c_blocking (conn G i)) eqn:Eb; simpl in H; [|discriminate].
      destruct (hd_opt (u (ExpMax G i))); [|discriminate]. destruct t; try discriminate.
      destruct (take_recv c0 (u (TsIn G i))); [|discriminate]. inv_some. simpl.
      rewrite (put_own writer _ _ _ _ a); [reflexivity| rewrite writer_TsMax; symmetry; auto |exact Hr].
    + unfold fire_exp_nb in H. destruct (c_blocking (conn G i)) eqn:Eb; [discriminate|].
      destruct (hd_opt (u (Next G i))); [|discriminate]. destruct t; try discriminate.
      destruct (has_future s (u (TsIn G i))); [|discriminate]. inv_some. simpl.
      rewrite (put_own writer _ _ _ _ a); [reflexivity| rewrite writer_ExpSel, Eb; symmetry; auto |exact Hr].
    + unfold fire_select in H. destruct (hd_opt (u (ExpSel G i))); [|discriminate]. destruct t; try discriminate.
      destruct (take_msgs c0 (u (Msgs G i))); [|discriminate]. inv_some. simpl.
      rewrite (put_own writer _ _ _ _ a); [reflexivity| rewrite writer_Grouped; symmetry; auto |exact Hr].
Qed.

(* ---- C02 for the rex net: instantiate the generic theorem ---- *)
Definition rex_step := KahnL.step tok local l0 NACT (fire G).
Definition rex_wf := KahnL.wf tok local NACT NCH.

Theorem rex_diamond a b s s1 s2 :
  rex_wf s -> a <> b -> rex_step a s s1 -> rex_step b s s2 -> exists s3, rex_step b s1 s3 /\ rex_step a s2 s3.
Proof.
  apply (KahnL.diamond tok local l0 NACT NCH reader writer (fire G)).
  - intros a0 l u u' r H He. eapply fire_stable; eauto.
  - intros a0 l u r c H. eapply fire_cons_own; eauto.
  - intros a0 l u r c H. eapply fire_prod_own; eauto.
Qed.
End Inst.
Print Assumptions rex_diamond.
