(* C03/C04 corollaries: non-overlap, never early, FREQUENCY drift law, PHASE re-gridding *)
From Coq Require Import List Arith ZArith Bool Lia.
From Coq Require Import ZifyNat ZifyBool.
From Rex Require Import KahnL AsyncModel2 AsyncStable ConflInv RexDet AsyncLaws.
Import ListNotations.
Ltac Zify.zify_post_hook ::= Z.div_mod_to_equations.

Section Laws5.
Variable G : cfg.
Notation NN := (NN G).
Notation HH s := (hfun tok local s).
Notation QS s n := (nth (QStart n) (hist _ _ s) []).

Lemma phase_of_ge_last n M s e ps : (e - s <= phase_of G n M s e ps)%Z.
Proof. unfold phase_of. destruct (only_b G n); lia. Qed.
Lemma phase_of_ge_inputs n M s e ps : (M - s <= phase_of G n M s e ps)%Z.
Proof. unfold phase_of. destruct (only_b G n); lia. Qed.
Lemma phase_of_ge_drift n M s e ps : only_b G n = false -> (ps <= phase_of G n M s e ps)%Z.
Proof. unfold phase_of. intros ->. lia. Qed.
Lemma phase_of_is_max n M s e ps :
  (s + phase_of G n M s e ps = if only_b G n then Z.max M e else Z.max (Z.max M e) (s + ps))%Z.
Proof. unfold phase_of. destruct (only_b G n); lia. Qed.

Lemma drift_nonneg h n k : (0 <= drift_at G h n k)%Z.
Proof.
  induction k as [|k IH]; simpl; [lia|].
  destruct (nth_error (h (QSched n)) k) as [t|]; [|lia]. destruct t; try lia.
  destruct (nth_error (h (QEndPrev n)) k) as [t|]; [|lia]. destruct t; try lia.
  unfold drift_next. destruct (n_freq (node G n)); lia.
Qed.

(* the end of step k is the k+1-th "previous end" token *)
Lemma end_token s n k kk st d : reach G s -> (n < NN)%nat ->
  nth_error (QS s n) k = Some (TStart kk st d) ->
  (S k < length (nth (QEndPrev n) (hist _ _ s) []))%nat ->
  nth_error (nth (QEndPrev n) (hist _ _ s) []) (S k) = Some (TEnd (st + d)).
Proof.
  intros Hr Hn Hk Hl. rewrite (end_prev_law G s n (S k) Hr Hn Hl). unfold end_of.
  assert (Hlt : (k < length (QS s n))%nat) by (apply nth_error_Some; congruence).
  rewrite <- (start_law G s n k Hr Hn Hlt), Hk. reflexivity.
Qed.

(* C03: consecutive steps of a node never overlap in time *)
Theorem steps_disjoint s n k kk st d kk' st' d' : reach G s -> (n < NN)%nat ->
  nth_error (QS s n) k = Some (TStart kk st d) ->
  nth_error (QS s n) (S k) = Some (TStart kk' st' d') -> (st + d <= st')%Z.
Proof.
  intros Hr Hn H1 H2.
  destruct (start_recurrence G s n (S k) _ _ _ Hr Hn H2) as (e & M & _ & _ & He & _ & ->).
  assert (Hl : (S k < length (nth (QEndPrev n) (hist _ _ s) []))%nat) by (apply nth_error_Some; congruence).
  rewrite (end_token s n k _ _ _ Hr Hn H1 Hl) in He. injection He as <-.
  pose proof (phase_of_ge_last n M (sched_ts G n (S k)) (st + d) (drift_at G (HH s) n (S k))). lia.
Qed.

(* C04: the closed form of the start time *)
Theorem start_is_max s n k kk st d : reach G s -> (n < NN)%nat ->
  nth_error (QS s n) k = Some (TStart kk st d) ->
  exists e M, nth_error (nth (QEndPrev n) (hist _ _ s) []) k = Some (TEnd e) /\
    tsmax_at G (HH s) n k = Some M /\
    st = (if only_b G n then Z.max M e else Z.max (Z.max M e) (sched_ts G n k + drift_at G (HH s) n k))%Z.
Proof.
  intros Hr Hn Hk.
  destruct (start_recurrence G s n k _ _ _ Hr Hn Hk) as (e & M & _ & _ & He & HM & ->).
  exists e, M. repeat split; auto. apply phase_of_is_max.
Qed.

(* C04: a step never starts before its scheduled time (plus accumulated drift) unless advance-only-blocking *)
Theorem never_early s n k kk st d : reach G s -> (n < NN)%nat -> only_b G n = false ->
  nth_error (QS s n) k = Some (TStart kk st d) ->
  (sched_ts G n k + drift_at G (HH s) n k <= st)%Z /\ (sched_ts G n k <= st)%Z.
Proof.
  intros Hr Hn Hb Hk.
  destruct (start_recurrence G s n k _ _ _ Hr Hn Hk) as (e & M & _ & _ & _ & _ & ->).
  pose proof (phase_of_ge_drift n M (sched_ts G n k) e (drift_at G (HH s) n k) Hb).
  pose proof (drift_nonneg (HH s) n k). lia.
Qed.

(* C04, FREQUENCY: the schedule line S_k = sched_k + drift_k obeys S_{k+1} = max(S_k, end_{k-1}) + P;
   PHASE: drift is identically zero *)
Theorem frequency_drift s n k : reach G s -> (n < NN)%nat -> n_freq (node G n) = true ->
  forall e, nth_error (nth (QEndPrev n) (hist _ _ s) []) k = Some (TEnd e) ->
  (k < length (nth (QSched n) (hist _ _ s) []))%nat ->
  (sched_ts G n (S k) + drift_at G (HH s) n (S k) =
   Z.max (sched_ts G n k + drift_at G (HH s) n k) e + n_period (node G n))%Z.
Proof.
  intros Hr Hn Hf e He Hl. simpl drift_at.
  destruct (nth_error (HH s (QSched n)) k) as [t|] eqn:E1.
  2:{ apply nth_error_None in E1. unfold hfun in E1. lia. }
  pose proof (schedule_law G s n k _ Hr Hn E1) as ->.
  unfold hfun at 1. rewrite He. unfold drift_next. rewrite Hf. unfold sched_ts.
  replace (Z.of_nat (S k)) with (Z.of_nat k + 1)%Z by lia. lia.
Qed.
Theorem phase_no_drift h n k : n_freq (node G n) = false -> drift_at G h n k = 0%Z.
Proof.
  intros Hf. destruct k as [|k]; simpl; [reflexivity|].
  destruct (nth_error (h (QSched n)) k) as [t|]; [|reflexivity]. destruct t; try reflexivity.
  destruct (nth_error (h (QEndPrev n)) k) as [t|]; [|reflexivity]. destruct t; try reflexivity.
  unfold drift_next. now rewrite Hf.
Qed.
End Laws5.
Print Assumptions steps_disjoint.
Print Assumptions frequency_drift.
