(* C02 — simulated-clock episodes are deterministic across thread schedules.  Statements only.
   rsteps G (init G) t: t is reachable from the initial state by firing actors in ANY order (a schedule is any finite list of actor ids; no
   fairness assumption; a firing of a disabled actor is a no-op).  The real-time factor and host load do not occur in the model: throttle only sleeps. *)
From Coq Require Import List Arith ZArith Bool.
From Rex Require Import KahnL AsyncModel2 AsyncStable ConflInv RexDet.

(* any two executions from the same configuration and initial graph state agree on the common prefix of every node's step record (seq, start, end, state, output, windows) and of every connection's message record (seq_out, seq_in, ts_sent, ts_recv) *)
Theorem C02_sim_episode_deterministic : forall (G : cfg) (t1 t2 : state), rsteps G (init G) t1 -> rsteps G (init G) t2 -> (forall n : nat, prefix row (rows_of t1 n) (rows_of t2 n) \/ prefix row (rows_of t2 n) (rows_of t1 n)) /\ (forall c : nat, prefix mrec (msgs_of G t1 c) (msgs_of G t2 c) \/ prefix mrec (msgs_of G t2 c) (msgs_of G t1 c)).
Proof. exact @sim_episode_deterministic. Qed.
Print Assumptions C02_sim_episode_deterministic.

(* firings of two different actors commute exactly *)
Theorem C02_diamond : forall (G : cfg) (a b : nat) (s s1 s2 : KahnL.state tok local), rex_wf G s -> a <> b -> rex_step G a s s1 -> rex_step G b s s2 -> exists s3 : KahnL.state tok local, rex_step G b s1 s3 /\ rex_step G a s2 s3.
Proof. exact @rex_diamond. Qed.
Print Assumptions C02_diamond.

(* generic: diamond + per-actor determinism give confluence of the step relation *)
Theorem C02_confluence : forall (S Lbl : Type) (step : Lbl -> S -> S -> Prop), (forall a b : Lbl, {a = b} + {a <> b}) -> forall Inv : S -> Prop, (forall (a : Lbl) (s s' : S), Inv s -> step a s s' -> Inv s') -> (forall (a : Lbl) (s s1 s2 : S), step a s s1 -> step a s s2 -> s1 = s2) -> (forall (a b : Lbl) (s s1 s2 : S), Inv s -> a <> b -> step a s s1 -> step b s s2 -> exists s3 : S, step b s1 s3 /\ step a s2 s3) -> forall s t1 t2 : S, Inv s -> steps S Lbl step s t1 -> steps S Lbl step s t2 -> exists u : S, steps S Lbl step t1 u /\ steps S Lbl step t2 u.
Proof. exact @confluence. Qed.
Print Assumptions C02_confluence.

