(* C18 - Search solvers keep the best candidate, respect bounds and ignore NaN losses.
   Statements only; the model is Cem.v (rex/cem.py and the wrapper of rex/evo.py), proofs are in CemLaws.v.
   Quantification: every theorem holds for all loss functions f (per evaluation: iteration, sample index = the loss's own
   rng, candidate; values -inf / finite / +inf / NaN), all noise streams (= seeds), bounds, population sizes N, elite
   counts ne >= 1 (rex raises IndexError for ne = 0), smoothing factors s, square-root functions and iteration counts n. *)
From Coq Require Import List Arith ZArith QArith Bool.
From Rex Require Import Ops Cem CemLaws.
Import ListNotations.

(* ---- clause 1: every sampled candidate lies within the bounds *)
Theorem C18_sample_in_bounds (d : nat) (m sd lo hi z : cand) :
  (forall k, (k < d)%nat -> at_ lo k <= at_ hi k) -> boxed d lo hi (gauss_sample d m sd lo hi z).
Proof. exact (gauss_sample_boxed d m sd lo hi z). Qed.
Theorem C18_cem_all_evaluated_in_bounds sqrtq sm d N ne s lo hi noise f n st x l :
  (forall k, (k < d)%nat -> at_ lo k <= at_ hi k) -> In (x, l) (evals sqrtq sm d N ne s lo hi noise f n st) -> boxed d lo hi x.
Proof. exact (run_in_bounds sqrtq sm d N ne s lo hi noise f n st x l). Qed.
Print Assumptions C18_cem_all_evaluated_in_bounds.

(* ---- clause 2: the reported best-so-far loss never increases ... *)
Theorem C18_cem_best_nonincreasing sqrtq sm d N ne s lo hi : (1 <= ne)%nat -> forall noise f n m st, (n <= m)%nat ->
  leb (best_loss (run sqrtq sm d N ne s lo hi noise f m st)) (best_loss (run sqrtq sm d N ne s lo hi noise f n st)) = true.
Proof. exact (run_nonincreasing sqrtq sm d N ne s lo hi). Qed.
(* ... and equals the least (NaN -> +inf) loss evaluated so far: one update, any run, a run from init_state *)
Theorem C18_update_best_loss sqrtq sm d ne s : (1 <= ne)%nat -> forall st xs ls,
  best_loss (update sqrtq sm d ne s st xs ls) = emin (best_loss st) (lmin (map clean ls)).
Proof. exact (update_best_loss sqrtq sm d ne s). Qed.
Theorem C18_cem_best_is_min sqrtq sm d N ne s lo hi : (1 <= ne)%nat -> forall noise f n m sd,
  best_loss (run sqrtq sm d N ne s lo hi noise f n (init_state m sd)) =
  lmin (cleaned (evals sqrtq sm d N ne s lo hi noise f n (init_state m sd))).
Proof. exact (run_best_loss_init sqrtq sm d N ne s lo hi). Qed.
(* lmin is the minimum: a lower bound that is a member *)
Theorem C18_lmin_is_minimum (l : list ext) (m : ext) : In m l -> (forall x, In x l -> leb m x = true) -> lmin l = m.
Proof. exact (lmin_unique l m). Qed.
(* spelled out: the smallest finite loss when one exists (no -inf evaluated), +inf when none does *)
Theorem C18_cem_best_is_least_finite sqrtq sm d N ne s lo hi : (1 <= ne)%nat -> forall noise f n m sd x v,
  (forall p, In p (evals sqrtq sm d N ne s lo hi noise f n (init_state m sd)) -> snd p <> Num NInf) ->
  In (x, Num (Val v)) (evals sqrtq sm d N ne s lo hi noise f n (init_state m sd)) ->
  exists w, best_loss (run sqrtq sm d N ne s lo hi noise f n (init_state m sd)) = Val w /\ (w <= v)%Z /\
    (exists y, In (y, Num (Val w)) (evals sqrtq sm d N ne s lo hi noise f n (init_state m sd))) /\
    (forall y u, In (y, Num (Val u)) (evals sqrtq sm d N ne s lo hi noise f n (init_state m sd)) -> (w <= u)%Z).
Proof. exact (run_best_is_least_finite sqrtq sm d N ne s lo hi). Qed.
Theorem C18_cem_best_none_finite sqrtq sm d N ne s lo hi : (1 <= ne)%nat -> forall noise f n m sd,
  (forall p, In p (evals sqrtq sm d N ne s lo hi noise f n (init_state m sd)) -> clean (snd p) = PInf) ->
  best_loss (run sqrtq sm d N ne s lo hi noise f n (init_state m sd)) = PInf.
Proof. exact (run_best_none_finite sqrtq sm d N ne s lo hi). Qed.
Print Assumptions C18_cem_best_is_least_finite.

(* ---- clause 3: the reported best candidate is an evaluated candidate that attained the reported loss *)
Theorem C18_cem_best_attained sqrtq sm d N ne s lo hi : (1 <= ne)%nat -> forall noise f n m sd, (1 <= N)%nat -> (1 <= n)%nat ->
  exists x l, In (x, l) (evals sqrtq sm d N ne s lo hi noise f n (init_state m sd)) /\
    best (run sqrtq sm d N ne s lo hi noise f n (init_state m sd)) = x /\
    clean l = best_loss (run sqrtq sm d N ne s lo hi noise f n (init_state m sd)).
Proof. exact (run_best_attained_init sqrtq sm d N ne s lo hi). Qed.
(* from an arbitrary state: unchanged (nothing beat or tied it) or attained *)
Theorem C18_cem_best_attained_any sqrtq sm d N ne s lo hi : (1 <= ne)%nat -> forall noise f n st, (1 <= N)%nat ->
  (best (run sqrtq sm d N ne s lo hi noise f n st) = best st /\ best_loss (run sqrtq sm d N ne s lo hi noise f n st) = best_loss st /\
   (n = 0%nat \/ best_loss st <> PInf)) \/
  (exists x l, In (x, l) (evals sqrtq sm d N ne s lo hi noise f n st) /\ best (run sqrtq sm d N ne s lo hi noise f n st) = x /\
               clean l = best_loss (run sqrtq sm d N ne s lo hi noise f n st)).
Proof. exact (run_best_attained sqrtq sm d N ne s lo hi). Qed.
Print Assumptions C18_cem_best_attained.

(* ---- clause 4: NaN losses.  Elites are downward closed (whoever has a strictly smaller cleaned loss than an elite is an
   elite), hence a NaN candidate is an elite only if every finite-loss candidate of the iteration is; there are exactly
   min(ne, N) distinct elites; and NaN is never the reported best while a finite loss has been evaluated. *)
Theorem C18_elites_downward_closed ne cl j k : In j (elites ne cl) -> (k < length cl)%nat ->
  ltb (nth k cl PInf) (nth j cl PInf) = true -> In k (elites ne cl).
Proof. exact (elites_downward ne cl j k). Qed.
Theorem C18_nan_ranks_last ne ls j k : In j (elites ne (map clean ls)) -> nth j ls NaN = NaN -> (k < length ls)%nat ->
  ltb (clean (nth k ls NaN)) PInf = true -> In k (elites ne (map clean ls)).
Proof. exact (nan_ranks_last ne ls j k). Qed.
Theorem C18_elite_count ne cl : length (elites ne cl) = Nat.min ne (length cl) /\ NoDup (elites ne cl) /\
  forall i, In i (elites ne cl) -> (i < length cl)%nat.
Proof. exact (conj (elites_length ne cl) (conj (elites_NoDup ne cl) (elites_range ne cl))). Qed.
(* counted form: while at least ne candidates of the iteration have a loss below +inf, no NaN candidate is an elite *)
Theorem C18_no_nan_elite_when_enough_finite ne ls j :
  (ne <= length (below_inf (map clean ls)))%nat -> In j (elites ne (map clean ls)) -> nth j ls NaN <> NaN.
Proof. exact (enough_finite_no_nan_elite_losses ne ls j). Qed.
(* the literal reading "a NaN candidate is never an elite while some finite-loss candidate exists" is not satisfiable with a
   fixed elite count (and is not what rex does): 2 elites, losses [1; NaN] *)
Theorem C18_nan_elite_literal_refuted : exists ne ls j k, In j (elites ne (map clean ls)) /\ nth j ls NaN = NaN /\
  (k < length ls)%nat /\ finite (clean (nth k ls NaN)) = true.
Proof. exact nan_elite_literal_refuted. Qed.
(* argsort is the stable sort: the (index, loss) pairs come out strictly increasing in (loss, index) *)
Theorem C18_argsort_stable cl : Sorted.StronglySorted plt (sort_pairs (index cl)) /\
  Permutation.Permutation (argsort cl) (seq 0 (length cl)).
Proof. exact (conj (argsort_stable cl) (argsort_perm cl)). Qed.
Theorem C18_cem_nan_never_best sqrtq sm d N ne s lo hi : (1 <= ne)%nat -> forall noise f n m sd x v, (1 <= N)%nat -> (1 <= n)%nat ->
  In (x, Num (Val v)) (evals sqrtq sm d N ne s lo hi noise f n (init_state m sd)) ->
  exists y l, In (y, l) (evals sqrtq sm d N ne s lo hi noise f n (init_state m sd)) /\
    best (run sqrtq sm d N ne s lo hi noise f n (init_state m sd)) = y /\ l <> NaN /\
    clean l = best_loss (run sqrtq sm d N ne s lo hi noise f n (init_state m sd)).
Proof. exact (run_best_not_nan sqrtq sm d N ne s lo hi). Qed.
Theorem C18_cem_finite_bounds_best sqrtq sm d N ne s lo hi : (1 <= ne)%nat -> forall noise f n st x v,
  In (x, Num (Val v)) (evals sqrtq sm d N ne s lo hi noise f n st) ->
  leb (best_loss (run sqrtq sm d N ne s lo hi noise f n st)) (Val v) = true.
Proof. exact (run_finite_bounds_best sqrtq sm d N ne s lo hi). Qed.
Print Assumptions C18_cem_nan_never_best.

(* ---- evolutionary optimisation: rex's wrapper (ask; loss; NaN -> inf; tell) under the contract of evosax's ask / tell *)
Theorem C18_evo_in_bounds ES ask tell best_fitness best_member f d lo hi :
  evo_contract ES ask tell best_fitness best_member d lo hi ->
  forall n st x l, In (x, l) (evo_evals ES ask tell f n st) -> boxed d lo hi x.
Proof. exact (evoc_in_bounds ES ask tell best_fitness best_member f d lo hi). Qed.
Theorem C18_evo_best_is_min ES ask tell best_fitness best_member f d lo hi :
  evo_contract ES ask tell best_fitness best_member d lo hi -> forall n st,
  best_fitness (evo_run ES ask tell f n st) = emin (best_fitness st) (lmin (cleaned (evo_evals ES ask tell f n st))).
Proof. exact (evoc_best_is_min ES ask tell best_fitness best_member f d lo hi). Qed.
Theorem C18_evo_best_nonincreasing ES ask tell best_fitness best_member f d lo hi :
  evo_contract ES ask tell best_fitness best_member d lo hi -> forall n m st, (n <= m)%nat ->
  leb (best_fitness (evo_run ES ask tell f m st)) (best_fitness (evo_run ES ask tell f n st)) = true.
Proof. exact (evoc_nonincreasing ES ask tell best_fitness best_member f d lo hi). Qed.
Theorem C18_evo_best_attained ES ask tell best_fitness best_member f d lo hi :
  evo_contract ES ask tell best_fitness best_member d lo hi -> forall n st,
  (best_member (evo_run ES ask tell f n st) = best_member st /\ best_fitness (evo_run ES ask tell f n st) = best_fitness st) \/
  (exists x l, In (x, l) (evo_evals ES ask tell f n st) /\ best_member (evo_run ES ask tell f n st) = x /\
               clean l = best_fitness (evo_run ES ask tell f n st)).
Proof. exact (evoc_best_attained ES ask tell best_fitness best_member f d lo hi). Qed.
Theorem C18_evo_nan_never_best ES ask tell best_fitness best_member f d lo hi :
  evo_contract ES ask tell best_fitness best_member d lo hi -> forall n st x v,
  In (x, Num (Val v)) (evo_evals ES ask tell f n st) ->
  leb (best_fitness (evo_run ES ask tell f n st)) (Val v) = true /\
  ((best_member (evo_run ES ask tell f n st) = best_member st /\ best_fitness (evo_run ES ask tell f n st) = best_fitness st) \/
   (exists y l, In (y, l) (evo_evals ES ask tell f n st) /\ best_member (evo_run ES ask tell f n st) = y /\ l <> NaN /\
                clean l = best_fitness (evo_run ES ask tell f n st))).
Proof.
  exact (fun C n st x v H => conj (evoc_finite_bounds_best ES ask tell best_fitness best_member f d lo hi C n st x v H)
                                  (evoc_best_not_nan ES ask tell best_fitness best_member f d lo hi C n st x v H)).
Qed.
Print Assumptions C18_evo_best_attained.

(* ---- the checker run on implementation histories is sound *)
Theorem C18_check_history_sound lo hi h pb prev : check_history lo hi pb prev h = true -> history_ok lo hi pb prev h.
Proof. exact (check_history_sound lo hi h pb prev). Qed.
Theorem C18_in_box_spec lo hi x : in_box lo hi x = true -> length x = length lo /\ length x = length hi /\
  forall k, (k < length x)%nat -> at_ lo k <= at_ x k /\ at_ x k <= at_ hi k.
Proof. exact (in_box_spec lo hi x). Qed.
Print Assumptions C18_check_history_sound.

(* ---- non-vacuity *)
(* the evosax contract is satisfiable: the reference strategy of Cem.v meets all four hypotheses *)
Example C18_evo_contract_satisfiable :
  let d := 2%nat in let lo := [-1; 0] in let hi := [1; 3] in let proposal := fun i : nat => [[5; 1]; [-7; -2]; [1 # 2; 2]] in
  evo_contract ref_state (ref_ask d lo hi proposal) ref_tell snd fst d lo hi.
Proof.
  intros d lo hi proposal. apply ref_evo_contract.
  intros [|[|k]] Hk; [discriminate | discriminate | inversion Hk as [|? H1]; inversion H1 as [|? H2]; inversion H2].
Qed.
(* a concrete iteration with NaN, +inf and tied losses: 2 elites out of 8 (indices 7 and 2: the tie at loss 1 goes to the
   lower index), the NaN candidates are not elite, the best is candidate 7 *)
Example C18_update_concrete :
  let ls := [Num (Val 6); NaN; Num (Val 2); Num (Val 2); Num PInf; Num (Val 10); NaN; Num (Val 1)] in
  let xs := map (fun i => [inject_Z (Z.of_nat i)]) (seq 0 8) in
  let st := update (fun q => q) (smooth Qops) 1 2 (1 # 4) (init_state [0] [1]) xs ls in
  elites 2 (map clean ls) = [7; 2]%nat /\ best_loss st = Val 1 /\ best st = [7] /\
  Qeq_bool (at_ (mean st) 0) (27 # 8) = true /\ elites 8 (map clean ls) = [7; 2; 3; 0; 5; 1; 4; 6]%nat.
Proof. vm_compute. repeat split. Qed.
(* all losses NaN: the reported best loss stays +inf *)
Example C18_all_nan : best_loss (update (fun q => q) (smooth Qops) 1 1 0 (init_state [0] [1]) [[1]; [2]] [NaN; NaN]) = PInf.
Proof. reflexivity. Qed.
