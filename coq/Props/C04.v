(* C04 — step start times obey the rate / phase / delay / scheduling law.  Statements only (copied from the lemmas they are closed by); proofs in AsyncLaws*.v.
   All statements hold in every reachable state of the actor net: every thread schedule and every prefix of an episode.
   Reading guide: hist s (QStart n) !! k = TStart k start d is the k-th start token of node n (start time and sampled computation delay);
   QEndPrev holds end_{k-1} (0 for k = 0); sched_ts n k = k*P + phase; drift_at = accumulated FREQUENCY drift; tsmax_at = latest arrival among the
   blocking messages step k must wait for; TsIn c holds the arrival stamps of connection c. *)
From Coq Require Import List Arith ZArith Bool.
From Rex Require Import KahnL AsyncModel2 AsyncStable ConflInv RexDet AsyncLaws AsyncLaws2 AsyncLaws3 AsyncLaws4 AsyncLaws5 AsyncLaws6.
Open Scope Z_scope.

(* the k-th scheduled time of node n is k*P + phase *)
Theorem C04_schedule_law : forall (G : cfg) (s : state) (n k : nat) (tk : tok), reach G s -> (n < NN G)%nat -> nth_error (nth (QSched n) (hist tok local s) nil) k = Some tk -> tk = TSched k (sched_ts G n k).
Proof. exact @schedule_law. Qed.
Print Assumptions C04_schedule_law.

(* start_k = max(ts_max_k, end_{k-1}, sched_k + drift_k); the third term is absent for advance nodes with only blocking inputs *)
Theorem C04_start_is_max : forall (G : cfg) (s : state) (n k kk : nat) (st d : Z), reach G s -> (n < NN G)%nat -> nth_error (nth (QStart n) (hist tok local s) nil) k = Some (TStart kk st d) -> exists e M : Z, nth_error (nth (QEndPrev n) (hist tok local s) nil) k = Some (TEnd e) /\ tsmax_at G (hfun tok local s) n k = Some M /\ st = (if only_b G n then Z.max M e else Z.max (Z.max M e) (sched_ts G n k + drift_at G (hfun tok local s) n k)).
Proof. exact @start_is_max. Qed.
Print Assumptions C04_start_is_max.

(* the same law with the delay sample: d_k is the k-th sample of the node's computation-delay stream *)
Theorem C04_start_recurrence : forall (G : cfg) (s : state) (n k kk : nat) (start d : Z), reach G s -> (n < NN G)%nat -> nth_error (nth (QStart n) (hist tok local s) nil) k = Some (TStart kk start d) -> exists e M : Z, kk = k /\ d = stream (n_delays (node G n)) k /\ nth_error (nth (QEndPrev n) (hist tok local s) nil) k = Some (TEnd e) /\ tsmax_at G (hfun tok local s) n k = Some M /\ start = sched_ts G n k + phase_of G n M (sched_ts G n k) e (drift_at G (hfun tok local s) n k).
Proof. exact @start_recurrence. Qed.
Print Assumptions C04_start_recurrence.

(* end_k = start_k + d_k is what the next step waits for (end_{-1} = 0) *)
Theorem C04_end_prev_law : forall (G : cfg) (s : state) (n k : nat), reach G s -> (n < NN G)%nat -> (k < length (nth (QEndPrev n) (hist tok local s) nil))%nat -> nth_error (nth (QEndPrev n) (hist tok local s) nil) k = match k with | 0%nat => Some (TEnd 0) | S k' => end_of G (hfun tok local s) n k' end.
Proof. exact @end_prev_law. Qed.
Print Assumptions C04_end_prev_law.

(* start_{k+1} >= end_k *)
Theorem C04_steps_disjoint : forall (G : cfg) (s : state) (n k kk : nat) (st d : Z) (kk' : nat) (st' d' : Z), reach G s -> (n < NN G)%nat -> nth_error (nth (QStart n) (hist tok local s) nil) k = Some (TStart kk st d) -> nth_error (nth (QStart n) (hist tok local s) nil) (S k) = Some (TStart kk' st' d') -> st + d <= st'.
Proof. exact @steps_disjoint. Qed.
Print Assumptions C04_steps_disjoint.

(* a step never starts before its scheduled time (plus drift) unless advance-only-blocking *)
Theorem C04_never_early : forall (G : cfg) (s : state) (n k kk : nat) (st d : Z), reach G s -> (n < NN G)%nat -> only_b G n = false -> nth_error (nth (QStart n) (hist tok local s) nil) k = Some (TStart kk st d) -> sched_ts G n k + drift_at G (hfun tok local s) n k <= st /\ sched_ts G n k <= st.
Proof. exact @never_early. Qed.
Print Assumptions C04_never_early.

(* FREQUENCY: the schedule line S_k = sched_k + drift_k obeys S_{k+1} = max(S_k, end_{k-1}) + P: an overrun shifts all later scheduled times and consecutive starts stay >= P apart *)
Theorem C04_frequency_drift : forall (G : cfg) (s : state) (n k : nat), reach G s -> (n < NN G)%nat -> n_freq (node G n) = true -> forall e : Z, nth_error (nth (QEndPrev n) (hist tok local s) nil) k = Some (TEnd e) -> (k < length (nth (QSched n) (hist tok local s) nil))%nat -> sched_ts G n (S k) + drift_at G (hfun tok local s) n (S k) = Z.max (sched_ts G n k + drift_at G (hfun tok local s) n k) e + n_period (node G n).
Proof. exact @frequency_drift. Qed.
Print Assumptions C04_frequency_drift.

(* PHASE: no drift is accumulated: the node is back on the k*P + phase grid as soon as it has caught up *)
Theorem C04_phase_no_drift : forall (G : cfg) (h : nat -> list tok) (n k : nat), n_freq (node G n) = false -> drift_at G h n k = 0.
Proof. exact @phase_no_drift. Qed.
Print Assumptions C04_phase_no_drift.

(* arrival of message j on connection c = max(end_j + c_j, previous arrival) with c_j the j-th communication-delay sample *)
Theorem C04_arrival_law : forall (G : cfg) (s : state) (c j : nat), reach G s -> (c < NCn G)%nat -> (j < length (nth (TsIn G c) (hist tok local s) nil))%nat -> nth_error (nth (TsIn G c) (hist tok local s) nil) j = tsin_of G (hfun tok local s) c j.
Proof. exact @tsin_law. Qed.
Print Assumptions C04_arrival_law.

(* arrival is never before the send time when the sampled delay is non-negative *)
Theorem C04_recv_ge_sent : forall (G : cfg) (h : nat -> list tok) (c j k : nat) (out : Z), nth_error (h (TsOut G c)) j = Some (TTsOut k out) -> 0 <= stream (c_delays (conn G c)) j -> out <= recv_at G h c j.
Proof. exact @recv_ge_sent. Qed.
Print Assumptions C04_recv_ge_sent.
From Coq Require Import QArith.
From Rex Require Import Lattice.
(* the 1/64 s lattice the models live on: a lattice time has at most six decimals (k/64 * 10^6 is the integer 15625 k), so round(x, 6) - which the runtime applies to every timestamp - returns x itself there *)
Theorem C04_lattice_six_decimals : forall k : Z, tick k * 1000000 == inject_Z (k * 15625).
Proof. exact @lattice_six_decimals. Qed.
Print Assumptions C04_lattice_six_decimals.

(* scheduled times k * period + phase of lattice quantities are lattice times *)
Theorem C04_lattice_schedule : forall k P ph : Z, inject_Z k * tick P + tick ph == tick (k * P + ph).
Proof. exact @lattice_schedule. Qed.
Print Assumptions C04_lattice_schedule.

(* and so is the maximum the start law takes *)
Theorem C04_lattice_max : forall a b : Z, qmax (tick a) (tick b) == tick (Z.max a b).
Proof. exact @lattice_max. Qed.
Print Assumptions C04_lattice_max.
