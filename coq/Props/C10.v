(* C10 — a trainable delay set to d behaves exactly like a static delay of d.  Statements only.
   zoh w d t input models TrainableDist.apply_delay (zero-order hold) on the extended window (window w + extension ext entries, oldest first);
   static_window w d t input is the window of the system whose connection has the fixed delay d: the last w entries that have arrived by the step start t.
   Hypotheses of zoh_eq_static: entries ordered by arrival (defaults first, messages in send order) and at most ext messages still in flight under d.
   The two refutation witnesses show that both side conditions are necessary on the code as it is (findings F7 and F5). *)
From Coq Require Import List Arith ZArith Bool Reals.
From Rex Require Import Ops Zoh Trainable.
Import ListNotations.

(* same window as the static-delay-d system, and exactly `window` entries *)
Theorem C10_zoh_eq_static : forall (w ext : nat) (d t : Z) (input : list ent), length input = (w + ext)%nat -> arrivals_sorted d input -> (length (filter (fun e : ent => negb (visible d t e)) input) <= ext)%nat -> zoh w d t input = static_window w d t input /\ length (zoh w d t input) = w.
Proof. exact @zoh_eq_static. Qed.
Print Assumptions C10_zoh_eq_static.

(* with V visible and F in-flight entries, |F| <= ext, the slice is the last w visible entries *)
Theorem C10_zoh_slice_spec : forall (w ext : nat) (d t : Z) (V F : list ent), (length V + length F)%nat = (w + ext)%nat -> (length F <= ext)%nat -> (forall e : ent, In e V -> (e_recv (redelay d e) <= t)%Z) -> (forall e : ent, In e F -> (t < e_recv (redelay d e))%Z) -> zoh w d t (V ++ F) = map (redelay d) (lastn w V).
Proof. exact @zoh_slice_spec. Qed.
Print Assumptions C10_zoh_slice_spec.

(* the step receives exactly `window` entries *)
Theorem C10_zoh_exact_window_size : forall (w ext : nat) (d t : Z) (V F : list ent), (length V + length F)%nat = (w + ext)%nat -> (length F <= ext)%nat -> (forall e : ent, In e V -> (e_recv (redelay d e) <= t)%Z) -> (forall e : ent, In e F -> (t < e_recv (redelay d e))%Z) -> length (zoh w d t (V ++ F)) = w.
Proof. exact @zoh_exact_window_size. Qed.
Print Assumptions C10_zoh_exact_window_size.

(* setting the delay through alpha yields clip(d, min, max): values outside [min, max] saturate at the bounds *)
Theorem C10_alpha_saturates : forall d mn mx : R, mn < mx -> t_sample Rops (t_get_alpha Rops d mn mx) mn mx = Rmin (Rmax d mn) mx.
Proof. exact @alpha_saturates. Qed.
Print Assumptions C10_alpha_saturates.

(* inside [min, max] the delay is exactly d *)
Theorem C10_alpha_inside : forall d mn mx : R, mn <= d <= mx -> mn < mx -> t_sample Rops (t_get_alpha Rops d mn mx) mn mx = d.
Proof. exact @alpha_inside. Qed.
Print Assumptions C10_alpha_inside.

(* F7 witness: more than ext messages in flight -> a message that has not arrived under d is handed to the step *)
Theorem C10_zoh_overflow_refuted : let mk := fun s t : Z => {| e_seq := s; e_sent := t; e_recv := t; e_pay := s |} in let input := [mk 1%Z 7%Z; mk 2%Z 8%Z] in map e_seq (zoh 1 3 9 input) = [2%Z] /\ map e_seq (static_window 1 3 9 input) = [].
Proof. exact @zoh_overflow_refuted. Qed.
Print Assumptions C10_zoh_overflow_refuted.

(* F5 witness: on a skipped connection an exact tie is visible to the zero-order hold but not consumed in the static graph *)
Theorem C10_zoh_skip_tie_refuted : let dflt := {| e_seq := -1; e_sent := 0; e_recv := 0; e_pay := 9 |} in let m0 := {| e_seq := 0; e_sent := 4; e_recv := 4; e_pay := 5 |} in map e_seq (zoh 1 3 7 [dflt; m0]) = [0%Z] /\ (7 <? e_recv (redelay 3 m0)) = false /\ (e_recv (redelay 3 m0) <? 7) = false.
Proof. exact @zoh_skip_tie_refuted. Qed.
Print Assumptions C10_zoh_skip_tie_refuted.

