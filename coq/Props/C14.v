(* C14 — Records and graphs convert, stack, pad and filter without loss.  Statements only; proofs live in ConvertLaws.v.
   Model: Convert.v (names are integers, a dict is an association list in canonical key order, a rank-1 array is a list Z). *)
From Coq Require Import List Arith ZArith Bool.
From Rex Require Import Convert ConvertLaws.
Import ListNotations.
Open Scope Z_scope.

(* ---- converting an episode record to a graph: exactly the executed vertices with their times, and the recorded
   sent/consumed relation of every connection, keyed (sender, receiver) *)
Theorem C14_to_graph_vertices (L : Type) (ep : episode L) n v :
  In (n, v) (g_v (to_graph ep)) <-> exists r, In (n, r) ep /\ v = T3 (s_seq (r_steps r)) (s_start (r_steps r)) (s_end (r_steps r)).
Proof. exact (to_graph_vertices ep n v). Qed.
Theorem C14_to_graph_vertex_order (L : Type) (ep : episode L) : map fst (g_v (to_graph ep)) = map fst ep.
Proof. exact (to_graph_vertex_names ep). Qed.
Theorem C14_to_graph_edges (L : Type) (ep : episode L) n1 n2 e :
  In ((n1, n2), e) (g_e (to_graph ep)) <->
  exists r m, In (n2, r) ep /\ In (n1, m) (r_inputs r) /\ e = T3 (m_out m) (m_in m) (m_recv m).
Proof. exact (to_graph_edges ep n1 n2 e). Qed.
(* to_graph commutes with every leaf-wise operation (indexing a stacked record, padding, stacking): converting a
   stacked record = stacking the converted records, leaf by leaf *)
Theorem C14_to_graph_natural (L M : Type) (f : L -> M) (ep : episode L) : to_graph (epmap f ep) = gmap f (to_graph ep).
Proof. exact (to_graph_natural f ep). Qed.
Print Assumptions C14_to_graph_edges.

(* ---- stacking one leaf (Graph.stack and ExperimentRecord._padded_stack, any rank: X is the row type, d the fill row) *)
Theorem C14_stack_leaf_row (X : Type) (d : X) ls i l : nth_error ls i = Some l ->
  nth_error (stack_leaf d ls) i = Some (l ++ repeat d (maxlen ls - length l)).
Proof. exact (stack_rows d ls i l). Qed.
Theorem C14_stack_leaf_prefix (X : Type) (d : X) ls i l : nth_error ls i = Some l ->
  exists r, nth_error (stack_leaf d ls) i = Some r /\ firstn (length l) r = l /\ skipn (length l) r = repeat d (maxlen ls - length l).
Proof. exact (stack_rows_prefix d ls i l). Qed.
Theorem C14_stack_leaf_rectangular (X : Type) (d : X) ls r : In r (stack_leaf d ls) -> length r = maxlen ls.
Proof. exact (stack_rectangular d ls r). Qed.
Theorem C14_stack_leaf_episodes (X : Type) (d : X) (ls : list (list X)) : length (stack_leaf d ls) = length ls.
Proof. exact (stack_leaf_length d ls). Qed.
Theorem C14_stack_leaf_uniform (X : Type) (d : X) ls n : Forall (fun l => length l = n) ls -> stack_leaf d ls = ls.
Proof. exact (stack_uniform d ls n). Qed.
Print Assumptions C14_stack_leaf_prefix.

(* ---- stacking graphs: defined exactly for a non-empty list of graphs with one dict structure; len = number of
   episodes; an episode extracted from the stack is the original episode (same vertices and connections), every array
   followed by -1 padding only *)
Theorem C14_stack_defined gs : (exists bg, stack gs = Some bg) <-> exists g0 r, gs = g0 :: r /\ Forall (fun g => keys g = keys g0) r.
Proof. exact (stack_defined gs). Qed.
Theorem C14_len_stack gs bg : stack gs = Some bg -> (forall g0, hd_error gs = Some g0 -> g_v g0 <> []) -> blen bg = length gs.
Proof. exact (len_stack gs bg). Qed.
Theorem C14_get_stack gs bg i gi : stack gs = Some bg -> nth_error gs i = Some gi -> padded_of (get i bg) gi.
Proof. exact (get_stack_padded gs bg i gi). Qed.
Theorem C14_get_stack_keys gs bg i gi : stack gs = Some bg -> nth_error gs i = Some gi -> keys (get i bg) = keys gi.
Proof. intros H Hi. exact (padded_keys _ _ (get_stack_padded gs bg i gi H Hi)). Qed.
Print Assumptions C14_get_stack.

(* ---- padded entries never create or alter a vertex or an edge: to_networkx_graph makes the very same add_node /
   add_edge calls for a padded graph and for the original; in particular for an episode taken out of a stack *)
Theorem C14_padding_invisible g' g : padded_of g' g -> gwf g -> nx g' = nx g.
Proof. exact (padded_nx g' g). Qed.
Theorem C14_nx_get_stack gs bg i gi : stack gs = Some bg -> nth_error gs i = Some gi -> gwf gi -> nx (get i bg) = nx gi.
Proof. exact (nx_get_stack gs bg i gi). Qed.
Theorem C14_nx_skips_minus_one n a b k so si tr :
  nx_vertex_row n (-1, (a, b)) = [] /\ nx_edge_row k (-1, (si, tr)) = [] /\ nx_edge_row k (so, (-1, tr)) = [].
Proof. exact (nx_skips_minus_one n a b k so si tr). Qed.
(* and what is emitted for a real row: the vertex with its times (+ the stateful edge from its predecessor), the
   message edge with its receive time *)
Theorem C14_nx_vertex_calls n x c : In c (nx_vertex_row n x) <->
  fst x <> -1 /\ (c = AddNode n (fst x) (fst (snd x)) (snd (snd x)) \/ (0 < fst x /\ c = AddEdge n (fst x - 1) n (fst x) None)).
Proof. exact (nx_vertex_calls n x c). Qed.
Theorem C14_nx_edge_calls k x c : In c (nx_edge_row k x) <->
  fst x <> -1 /\ fst (snd x) <> -1 /\ c = AddEdge (fst k) (fst x) (snd k) (fst (snd x)) (Some (snd (snd x))).
Proof. exact (nx_edge_calls k x c). Qed.
Print Assumptions C14_nx_get_stack.

(* ---- Graph.filter: precisely the selected nodes and the connections among them (lookup by the sender's name) *)
Theorem C14_graph_filter_vertices (L : Type) key flag nodes (g : graph L) nv :
  In nv (g_v (graph_filter key flag nodes g)) <-> In nv (g_v g) /\ In (fst nv) (names nodes).
Proof. exact (graph_filter_vertices key flag nodes g nv). Qed.
Theorem C14_graph_filter_edges (L : Type) nodes (g : graph L) k e :
  In (k, e) (g_e (graph_filter key_sender true nodes g)) <->
  In (k, e) (g_e g) /\ In (fst k) (names nodes) /\ In (snd k) (names nodes) /\ connected nodes (fst k) (snd k).
Proof. exact (graph_filter_edges_true nodes g k e). Qed.
Theorem C14_graph_filter_edges_recorded (L : Type) key nodes (g : graph L) k e :
  In (k, e) (g_e (graph_filter key false nodes g)) <->
  In (k, e) (g_e g) /\ In (fst k) (names nodes) /\ In (snd k) (names nodes) /\ In (snd k) (map fst (g_v g)).
Proof. exact (graph_filter_edges_false key nodes g k e). Qed.
(* the pinned code looks the connection up by its input name: refuted with a shadow-named connection (DESIGN F10);
   without shadow names the pinned lookup is correct *)
Theorem C14_graph_filter_pinned_refuted : exists nodes (g : graph arr) k e,
  In (k, e) (g_e g) /\ In (fst k) (names nodes) /\ In (snd k) (names nodes) /\ connected nodes (fst k) (snd k) /\
  ~ In (k, e) (g_e (graph_filter key_pinned true nodes g)).
Proof. exact graph_filter_pinned_refuted. Qed.
Theorem C14_graph_filter_pinned_no_shadow (L : Type) flag nodes (g : graph L) :
  no_shadow nodes -> graph_filter key_pinned flag nodes g = graph_filter key_sender flag nodes g.
Proof. exact (graph_filter_no_shadow flag nodes g). Qed.
Print Assumptions C14_graph_filter_edges.

(* ---- EpisodeRecord.filter: defined iff every selected name is recorded; the result holds exactly the selected nodes,
   steps untouched, connections and info.inputs cut down to the kept connections *)
Theorem C14_record_filter_defined (L : Type) key flag nodes (ep : episode L) :
  (forall n, In n (names nodes) -> exists r, lookup n ep = Some r) <-> exists ep', rec_filter key flag nodes ep = Some ep'.
Proof. exact (rec_filter_defined key flag nodes ep). Qed.
Theorem C14_record_filter (L : Type) key flag nodes (ep ep' : episode L) : rec_filter key flag nodes ep = Some ep' ->
  map fst ep' = names nodes /\
  forall n r', In (n, r') ep' -> exists r, In (n, r) ep /\ r_steps r' = r_steps r /\ r_info_inputs r' = map fst (r_inputs r') /\
    forall im, In im (r_inputs r') <-> In im (r_inputs r) /\ In (fst im, n) (rec_conns key flag nodes ep).
Proof. exact (rec_filter_spec key flag nodes ep ep'). Qed.
Theorem C14_record_filter_connections (L : Type) nodes (ep : episode L) n1 n2 :
  In (n1, n2) (rec_conns key_sender true nodes ep) <-> connected nodes n1 n2 /\ In n1 (names nodes).
Proof. exact (rec_conns_true nodes ep n1 n2). Qed.
Theorem C14_record_filter_connections_recorded (L : Type) key nodes (ep : episode L) n1 n2 :
  In (n1, n2) (rec_conns key false nodes ep) <->
  In n1 (names nodes) /\ In n2 (names nodes) /\ exists r, lookup n2 ep = Some r /\ In n1 (map fst (r_inputs r)).
Proof. exact (rec_conns_false key nodes ep n1 n2). Qed.
Theorem C14_record_filter_pinned_refuted : exists nodes (ep ep' : episode arr) n1 n2 r r' m,
  rec_filter key_pinned true nodes ep = Some ep' /\ In (n2, r) ep /\ In (n1, m) (r_inputs r) /\ In n1 (names nodes) /\
  connected nodes n1 n2 /\ In (n2, r') ep' /\ ~ In (n1, m) (r_inputs r').
Proof. exact rec_filter_pinned_refuted. Qed.
Theorem C14_record_filter_pinned_no_shadow (L : Type) flag nodes (ep : episode L) :
  no_shadow nodes -> rec_filter key_pinned flag nodes ep = rec_filter key_sender flag nodes ep.
Proof. exact (rec_filter_no_shadow flag nodes ep). Qed.
Print Assumptions C14_record_filter.
Print Assumptions C14_record_filter_pinned_refuted.

(* ---- non-vacuity: two ragged episodes with one dict structure stack; episode 0 comes back padded; its networkx calls
   are those of the original; the shadow-named connection is kept by the sender lookup and lost by the pinned one *)
Definition ex_g0 : graph arr := G [(1, T3 [0; 1] [0; 16] [4; 20]); (2, T3 [0] [32] [40])] [((1, 2), T3 [0; 1] [0; -1] [8; 24])].
Definition ex_g1 : graph arr := G [(1, T3 [0; 1; 2] [0; 16; 32] [4; 20; 36]); (2, T3 [] [] [])] [((1, 2), T3 [0] [-1] [8])].
Example C14_stack_nonvacuous :
  exists bg, stack [ex_g0; ex_g1] = Some bg /\ blen bg = 2%nat /\ gwf ex_g0 /\ gwf ex_g1 /\
    get 0 bg = G [(1, T3 [0; 1; -1] [0; 16; -1] [4; 20; -1]); (2, T3 [0] [32] [40])] [((1, 2), T3 [0; 1] [0; -1] [8; 24])] /\
    nx (get 0 bg) = nx ex_g0 /\
    nx ex_g0 = [AddNode 1 0 0 4; AddNode 1 1 16 20; AddEdge 1 0 1 1 None; AddNode 2 0 32 40; AddEdge 1 0 2 0 (Some 8)].
Proof. eexists. split; [reflexivity|]. repeat split; repeat constructor. Qed.
Example C14_filter_nonvacuous :
  connected shadow_nodes 1 2 /\ ~ no_shadow shadow_nodes /\
  g_e (graph_filter key_sender true shadow_nodes shadow_graph) = g_e shadow_graph /\
  g_e (graph_filter key_pinned true shadow_nodes shadow_graph) = [] /\
  option_map (map (fun nr => (fst nr, map fst (r_inputs (snd nr))))) (rec_filter key_sender true shadow_nodes shadow_episode) = Some [(1, []); (2, [1])] /\
  option_map (map (fun nr => (fst nr, map fst (r_inputs (snd nr))))) (rec_filter key_pinned true shadow_nodes shadow_episode) = Some [(1, []); (2, [])].
Proof.
  split; [exists [(7, 1)], (7, 1); simpl; auto|]. split; [|repeat split].
  intros H. specialize (H (2, [(7, 1)]) (7, 1)). simpl in H. assert (7 = 1) by (apply H; auto). discriminate.
Qed.
