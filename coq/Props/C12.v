(* C12 — Generated and augmented graphs are well-formed and match the node configuration.
   Statements only; the model is Generate.v (times in lattice ticks, Z), proofs live in GenerateLaws.v. *)
From Coq Require Import List ZArith Bool Lia.
From Rex Require Import Generate GenerateLaws.
Import ListNotations.
Open Scope Z_scope.

(* --- vertices: start at the phase, last one sampled computation delay, seq = position or -1, -1 iff it ends after the horizon *)
Theorem C12_vertex_law P hor phase ds k v : nth_error (gen_vertices P hor phase 0 ds) k = Some v ->
  v_end v = v_start v + nth k ds 0 /\ (v_seq v = Z.of_nat k \/ v_seq v = -1) /\ (v_seq v = -1 <-> hor < v_end v) /\
  (k = 0%nat -> v_start v = phase).
Proof. exact (gen_vertices_nth P hor ds phase 0 k v). Qed.
Theorem C12_vertex_next P hor phase ds k v v' :
  nth_error (gen_vertices P hor phase 0 ds) k = Some v -> nth_error (gen_vertices P hor phase 0 ds) (S k) = Some v' ->
  v_start v' = Z.max (v_end v) (v_start v + P).
Proof. exact (gen_vertices_step P hor ds phase 0 k v v'). Qed.
(* never overlap, at least one period apart — for any two vertices of a node, not only neighbours *)
Theorem C12_no_overlap_spacing P hor phase ds j m v v' : 0 <= P ->
  nth_error (gen_vertices P hor phase 0 ds) j = Some v -> nth_error (gen_vertices P hor phase 0 ds) (j + S m) = Some v' ->
  v_end v <= v_start v' /\ v_start v + Z.of_nat (S m) * P <= v_start v'.
Proof. intros H. exact (gen_far P hor ds phase 0 H m j v v'). Qed.
(* nothing valid ends after the horizon; valid vertices are numbered by position and form a prefix *)
Theorem C12_horizon P hor phase ds k v : nth_error (gen_vertices P hor phase 0 ds) k = Some v -> v_seq v <> -1 ->
  v_seq v = Z.of_nat k /\ v_end v <= hor.
Proof. exact (gen_valid P hor ds phase k v). Qed.
Theorem C12_valid_prefix P hor phase ds : 0 <= P -> (forall d, In d ds -> 0 <= d) -> prefix_numbered (gen_vertices P hor phase 0 ds).
Proof. exact (gen_prefix_numbered P hor ds phase). Qed.
(* the padded length ceil(horizon/period)+1 loses nothing: every further vertex would be masked *)
Theorem C12_padding_complete T P ds phase k v : 0 < P -> 0 <= phase -> (forall d, In d ds -> 0 <= d) ->
  nth_error (gen_vertices P T phase 0 ds) k = Some v -> num_steps T P <= Z.of_nat k -> v_seq v = -1.
Proof. exact (gen_complete T P ds phase k v). Qed.
Print Assumptions C12_padding_complete.

(* --- messages: received one sampled delay after the sender finished; unsent messages are fully masked *)
Theorem C12_recv skip hor outs cs ins k v c e : length cs = length outs ->
  nth_error outs k = Some v -> nth_error cs k = Some c -> nth_error (gen_edges skip hor outs cs ins) k = Some e ->
  (v_seq v <> -1 -> e_recv e = v_end v + c) /\
  (v_seq v = -1 -> e_recv e = -1 /\ e_out e = -1 /\ e_in e = -1) /\
  (e_out e = v_seq v \/ e_out e = -1) /\ (e_out e <> -1 -> v_end v <= hor) /\ (e_in e <> -1 -> e_out e <> -1).
Proof. exact (gen_edges_recv skip hor outs cs ins k v c e). Qed.
(* always: a received message is consumed by a valid receiver step starting at/after (strictly after with skip) its arrival *)
Theorem C12_assigned_step_fits skip hor outs cs ins k v c e : length cs = length outs -> ins <> [] ->
  nth_error outs k = Some v -> nth_error cs k = Some c -> nth_error (gen_edges skip hor outs cs ins) k = Some e ->
  e_in e <> -1 ->
  exists s, e_in e = Z.of_nat s /\ (s < length ins)%nat /\ fits skip (v_start (nth s ins dv)) (v_end v + c) = true /\
            Z.of_nat s <= list_max (map v_seq ins) /\ v_seq v <> -1 /\ v_end v <= hor.
Proof. exact (gen_edges_fits skip hor outs cs ins k v c e). Qed.
(* the FIRST such step — for every message that no earlier message of the connection overtakes.
   Full statement (without the last hypothesis) is refuted on the pinned code: C12_first_step_refuted, DESIGN F6. *)
Theorem C12_first_step_partial skip hor outs cs ins k v c e : length cs = length outs -> ins <> [] -> prefix_numbered ins ->
  nth_error outs k = Some v -> nth_error cs k = Some c -> nth_error (gen_edges skip hor outs cs ins) k = Some e ->
  (forall m vm cm, (m < k)%nat -> nth_error outs m = Some vm -> nth_error cs m = Some cm -> ole (recv_of (vm, cm)) (recv_of (v, c))) ->
  e_in e = spec_seq_in skip hor ins v c.
Proof. exact (gen_edges_first_step skip hor outs cs ins k v c e). Qed.
Theorem C12_first_step_refuted :
  exists skip hor outs cs ins k v c e, length cs = length outs /\ ins <> [] /\ prefix_numbered ins /\
    nth_error outs k = Some v /\ nth_error cs k = Some c /\ nth_error (gen_edges skip hor outs cs ins) k = Some e /\
    (forall x, In x cs -> 0 <= x) /\ e_in e <> spec_seq_in skip hor ins v c.
Proof. exact first_step_overtaken_refuted. Qed.
(* what spec_seq_in means: the least receiver position whose start fits *)
Theorem C12_first_fit_meaning skip r starts :
  match first_fit skip starts 0 r with
  | Some s => (0 <= s < 0 + length starts)%nat /\ fits skip (nth (s - 0) starts 0) r = true /\
              forall j, (j < s - 0)%nat -> fits skip (nth j starts 0) r = false
  | None => forall j, (j < length starts)%nat -> fits skip (nth j starts 0) r = false end.
Proof. exact (first_fit_spec skip r starts 0). Qed.
Print Assumptions C12_first_step_partial.
Print Assumptions C12_first_step_refuted.

(* --- augmentation keeps every existing vertex / edge array and adds exactly the missing ones *)
Theorem C12_augment_keeps hor g nodes conns :
  (forall k l, lookupV k (fst g) = Some l -> lookupV k (fst (augment hor g nodes conns)) = Some l) /\
  (forall k l, lookupE k (snd g) = Some l -> lookupE k (snd (augment hor g nodes conns)) = Some l).
Proof. exact (augment_keeps hor g nodes conns). Qed.
Theorem C12_augment_adds_exactly_missing hor g nodes conns :
  let g' := augment hor g nodes conns in
  (forall c, In c conns -> new_edges hor (fst g') c <> None) ->
  (forall k, lookupV k (fst g') = match lookupV k (fst g) with Some l => Some l
                                  | None => option_map (new_vertices hor) (find_node k nodes) end) /\
  (forall k, lookupE k (snd g') = match lookupE k (snd g) with Some l => Some l
                                  | None => match find_conn k conns with Some c => new_edges hor (fst g') c | None => None end end).
Proof. exact (augment_adds_exactly_missing hor g nodes conns). Qed.
Print Assumptions C12_augment_adds_exactly_missing.

(* --- acyclicity of the graph to_networkx_graph builds (stateful edges + one edge per received message) *)
Theorem C12_generate_acyclic rank hor nodes conns :
  (forall n, In n nodes -> 0 < n_P n /\ forall d, In d (n_ds n) -> 0 <= d) ->
  (forall c, In c conns -> (forall x, In x (c_cs c) -> 0 <= x) /\ (c_skip c = false -> rank (c_out c) < rank (c_in c))) ->
  (forall c outs ins, In c conns -> lookupV (c_out c) (fst (generate hor nodes conns)) = Some outs ->
     lookupV (c_in c) (fst (generate hor nodes conns)) = Some ins -> length (c_cs c) = length outs /\ ins <> []) ->
  (forall c, In c conns -> new_edges hor (fst (generate hor nodes conns)) c <> None) ->
  forall v, ~ tc vx (gedge (generate hor nodes conns)) v v.
Proof. exact (generate_acyclic rank hor nodes conns). Qed.
Theorem C12_augment_acyclic rank hor g nodes conns :
  wf_graph rank g ->
  (forall n, In n nodes -> 0 < n_P n /\ forall d, In d (n_ds n) -> 0 <= d) ->
  (forall c, In c conns -> (forall x, In x (c_cs c) -> 0 <= x) /\ (c_skip c = false -> rank (c_out c) < rank (c_in c))) ->
  (forall c outs ins, In c conns -> lookupV (c_out c) (fst (augment hor g nodes conns)) = Some outs ->
     lookupV (c_in c) (fst (augment hor g nodes conns)) = Some ins -> length (c_cs c) = length outs /\ ins <> []) ->
  (forall c, In c conns -> new_edges hor (fst (augment hor g nodes conns)) c <> None) ->
  forall v, ~ tc vx (gedge (augment hor g nodes conns)) v v.
Proof. exact (augment_acyclic rank hor g nodes conns). Qed.
Print Assumptions C12_augment_acyclic.

(* --- non-vacuity: a concrete two-node cyclic configuration (one skipped connection, an overrun, exact ties) meets every
   hypothesis of C12_generate_acyclic, and its graph is the expected one (message 1 of connection 1->0 arrives at 12, before
   message 0 which arrives at 16: it is overtaken and lands on step 2 instead of step 1 — the F6 behaviour) *)
Definition ex_nodes := [ {| n_id := 0; n_P := 16; n_phase := 0; n_ds := [1; 20; 1; 1; 1] |};
                         {| n_id := 1; n_P := 8; n_phase := 3; n_ds := [0; 1; 3; 0; 1; 3; 0; 1; 3] |} ].
Definition ex_conns := [ {| c_out := 0; c_in := 1; c_skip := false; c_cs := [2; 2; 2; 2; 2] |};
                         {| c_out := 1; c_in := 0; c_skip := true; c_cs := [13; 0; 2; 0; 2; 0; 2; 0; 2] |} ].
Example C12_hypotheses_nonvacuous :
  let rank := fun n : Z => n in
  (forall n, In n ex_nodes -> 0 < n_P n /\ forall d, In d (n_ds n) -> 0 <= d) /\
  (forall c, In c ex_conns -> (forall x, In x (c_cs c) -> 0 <= x) /\ (c_skip c = false -> rank (c_out c) < rank (c_in c))) /\
  (forall c outs ins, In c ex_conns -> lookupV (c_out c) (fst (generate 64 ex_nodes ex_conns)) = Some outs ->
     lookupV (c_in c) (fst (generate 64 ex_nodes ex_conns)) = Some ins -> length (c_cs c) = length outs /\ ins <> []) /\
  (forall c, In c ex_conns -> new_edges 64 (fst (generate 64 ex_nodes ex_conns)) c <> None).
Proof.
  simpl. repeat split; intros; repeat match goal with H : _ \/ _ |- _ => destruct H | H : False |- _ => contradiction end;
    subst; simpl in *; try lia; try discriminate;
    repeat match goal with H : Some _ = Some _ |- _ => injection H as <- end; try reflexivity; try discriminate.
Qed.
Example C12_example_graph :
  map (fun kv => (fst kv, map (fun e => (e_out e, e_in e, e_recv e)) (snd kv))) (snd (generate 64 ex_nodes ex_conns)) =
  [ ((0, 1), [(0, 0, 3); (1, 5, 38); (2, 5, 39); (3, 7, 55); (-1, -1, -1)]);
    ((1, 0), [(0, 2, 16); (1, 2, 12); (2, 2, 24); (3, 2, 27); (4, 3, 38); (5, 3, 46); (6, -1, 53); (7, -1, 60); (-1, -1, -1)]) ].
Proof. vm_compute. reflexivity. Qed.
