(* C19 — RL environment wrappers account episodes, actions and statistics correctly.  Statements only; proofs in RlLaws.v.
   The wrapped environment, the graph, the user's get_* methods and the PRNG split are arbitrary (Section variables of the
   model, universally quantified here). *)
From Coq Require Import Reals Lra List ZArith Bool.
From Rex Require Import Ops RlKernels RlEnv RlLaws RlVecLaws.
Import ListNotations.
Open Scope R_scope.

(* ---- clause 1: the environment's step is the graph's step with the supervisor's output set from the action ---- *)
Theorem C19_env_step_is_graph_step (GS SS Out Act Obs Rw Flag Info : Type)
  (graph_step : GS -> SS -> Out -> GS * SS) (get_step_state : GS -> SS) (get_output : GS -> Act -> Out)
  (pre_step : GS -> Act -> GS) (post_step : GS -> option Act -> GS) (get_reward : GS -> Act -> Rw)
  (get_truncated get_terminated : GS -> Flag) (get_info : GS -> option Act -> Info) (get_observation : GS -> Obs) gs a :
  let gs_pre := pre_step gs a in
  let gs_step := fst (graph_step gs_pre (get_step_state gs_pre) (get_output gs a)) in
  let gs_post := post_step gs_step (Some a) in
  env_step GS SS Out Act Obs Rw Flag Info graph_step get_step_state get_output pre_step post_step get_reward get_truncated
           get_terminated get_info get_observation gs a =
  (gs_post, get_observation gs_post, get_reward gs_step a, get_terminated gs_step, get_truncated gs_step, get_info gs_post (Some a)).
Proof. exact (env_step_is_graph_step GS SS Out Act Obs Rw Flag Info graph_step get_step_state get_output pre_step post_step
               get_reward get_truncated get_terminated get_info get_observation gs a). Qed.
Print Assumptions C19_env_step_is_graph_step.

(* ---- clause 2: auto-reset ---- *)
Theorem C19_auto_fixed_flags (A C IB Rng : Type) (e : env (A:=A) C IB Rng) g a :
  let r := e_step (auto_fixed e) g a in let r0 := e_step e g a in r_rew r = r_rew r0 /\ r_te r = r_te r0 /\ r_tr r = r_tr r0.
Proof. exact (auto_fixed_flags C IB Rng e g a). Qed.
Theorem C19_auto_fixed_not_done (A C IB Rng : Type) (e : env (A:=A) C IB Rng) g a g1 o r i :
  e_step e g a = (g1, o, r, false, false, i) -> e_step (auto_fixed e) g a = (g1, o, r, false, false, i).
Proof. exact (auto_fixed_not_done C IB Rng e g a g1 o r i). Qed.
Theorem C19_auto_fixed_done (A C IB Rng : Type) (e : env (A:=A) C IB Rng) g a g1 o r te tr i c0 o0 i0 :
  e_step e g a = (g1, o, r, te, tr, i) -> te || tr = true -> a_init g1 = Some (c0, o0, i0) ->
  e_step (auto_fixed e) g a =
    ({| g_core := c0; g_rng := g_rng g1; a_init := a_init g1; a_log := a_log g1; a_sq := a_sq g1 |}, o0, r, te, tr, i0).
Proof. exact (auto_fixed_done C IB Rng e g a g1 o r te tr i c0 o0 i0). Qed.
Theorem C19_auto_fixed_reset_stores (A C IB Rng : Type) (e : env (A:=A) C IB Rng) k :
  let '(g, o, i) := e_reset (auto_fixed e) k in
  let '(g0, o0, i0) := e_reset e k in a_init g = Some (g_core g0, o0, i0) /\ g_core g = g_core g0 /\ o = o0 /\ i = i0.
Proof. exact (auto_fixed_reset_stores C IB Rng e k). Qed.
(* over every action history: each step at which an episode ends returns the stored initial state / observation / info *)
Theorem C19_auto_fixed_history (A C IB Rng : Type) (e : env (A:=A) C IB Rng) c0 o0 i0 :
  keeps_init C IB Rng e -> forall acts g, a_init g = Some (c0, o0, i0) ->
  Forall (fun r => a_init (r_gs r) = Some (c0, o0, i0) /\
                   (r_te r || r_tr r = true -> g_core (r_gs r) = c0 /\ r_obs r = o0 /\ r_info r = i0))
         (run_from (auto_fixed e) g acts).
Proof. exact (auto_fixed_history C IB Rng e c0 o0 i0). Qed.
Theorem C19_auto_fresh_flags (A C IB Rng : Type) split (e : env (A:=A) C IB Rng) g a :
  let r := e_step (auto_fresh split e) g a in let r0 := e_step e g a in r_rew r = r_rew r0 /\ r_te r = r_te r0 /\ r_tr r = r_tr r0.
Proof. exact (auto_fresh_flags C IB Rng split e g a). Qed.
Theorem C19_auto_fresh_not_done (A C IB Rng : Type) split (e : env (A:=A) C IB Rng) g a g1 o r i :
  e_step e g a = (g1, o, r, false, false, i) ->
  e_step (auto_fresh split e) g a = (set_rng g1 (fst (split (g_rng g1))), o, r, false, false, i).
Proof. exact (auto_fresh_not_done C IB Rng split e g a g1 o r i). Qed.
Theorem C19_auto_fresh_done (A C IB Rng : Type) split (e : env (A:=A) C IB Rng) g a g1 o r te tr i :
  e_step e g a = (g1, o, r, te, tr, i) -> te || tr = true ->
  let '(ig, io, ii) := e_reset e (snd (split (g_rng g1))) in
  e_step (auto_fresh split e) g a =
    ({| g_core := g_core ig; g_rng := g_rng ig; a_init := a_init g1; a_log := a_log g1; a_sq := a_sq g1 |}, io, r, te, tr, ii).
Proof. exact (auto_fresh_done C IB Rng split e g a g1 o r te tr i). Qed.
Print Assumptions C19_auto_fixed_history.
Print Assumptions C19_auto_fresh_done.

(* ---- clause 3: the log wrapper ---- *)
(* the wrapper threads log_step over exactly the rewards and flags it returns, reports the state after each step ... *)
Theorem C19_log_wrap_scan (A : Type) (O : ops A) (C IB Rng : Type) (e : env (A:=A) C IB Rng) :
  keeps_log C IB Rng e -> forall acts g s, a_log g = Some s ->
  let rs := run_from (log_wrap O e) g acts in
  map (fun r => (a_log (r_gs r), i_log (r_info r))) rs =
  map (fun sr => (Some (fst sr), Some (l_rret (fst sr), l_rlen (fst sr), l_t (fst sr), r_te (snd sr) || r_tr (snd sr))))
      (combine (log_scan O s (hist C IB Rng rs)) rs).
Proof. exact (log_wrap_scan O C IB Rng e). Qed.
Theorem C19_log_wrap_passthrough (A : Type) (O : ops A) (C IB Rng : Type) (e : env (A:=A) C IB Rng) g a :
  let r := e_step (log_wrap O e) g a in let r0 := e_step e g a in
  r_obs r = r_obs r0 /\ r_rew r = r_rew r0 /\ r_te r = r_te r0 /\ r_tr r = r_tr r0 /\ g_core (r_gs r) = g_core (r_gs r0) /\
  i_base (r_info r) = i_base (r_info r0).
Proof. exact (log_wrap_passthrough O C IB Rng e g a). Qed.
(* ... and for every reward/termination history that state reports, at each episode end, exactly the sum of rewards and
   the number of steps since the previous end (and restarts the running totals; timestep counts all steps) *)
Theorem C19_log_reports_at_done h r te tr : te || tr = true ->
  let s := lrun (log0 Rops) (h ++ [(r, te, tr)]) in
  l_rret s = rsum (current h []) + r /\ l_rlen s = INR (length (current h [])) + 1 /\ l_ret s = 0 /\ l_len s = 0 /\
  l_t s = INR (length h) + 1.
Proof. exact (log_reports_at_done h r te tr). Qed.
Theorem C19_log_reports_kept h r :
  let s := lrun (log0 Rops) h in let s' := lrun (log0 Rops) (h ++ [(r, false, false)]) in
  l_rret s' = l_rret s /\ l_rlen s' = l_rlen s /\ l_ret s' = l_ret s + r /\ l_len s' = l_len s + 1.
Proof. exact (log_reports_kept h r). Qed.
Theorem C19_log_scan_last h s : last (log_scan Rops s h) s = lrun s h.
Proof. exact (log_scan_last h s). Qed.
Print Assumptions C19_log_wrap_scan.
Print Assumptions C19_log_reports_at_done.

(* ---- clause 4: squashed / clipped actions land inside the bounds; scale and unsquash are mutual inverses ---- *)
Theorem C19_unsquash_in_bounds lo hi x : lo < hi -> lo < sq_unsquash Rops tanh true lo hi x < hi.
Proof. exact (unsquash_in_bounds lo hi x). Qed.
Theorem C19_unsquash_in_closed_bounds sq lo hi x : lo < hi -> lo <= sq_unsquash Rops tanh sq lo hi x <= hi.
Proof. exact (unsquash_in_closed_bounds sq lo hi x). Qed.
Theorem C19_clip_in_bounds x lo hi : lo <= hi -> lo <= clip Rops x lo hi <= hi.
Proof. exact (clip_in_bounds x lo hi). Qed.
Theorem C19_scale_unsquash_inverse lo hi x : lo <> hi -> sq_scale Rops atanh true lo hi (sq_unsquash Rops tanh true lo hi x) = x.
Proof. exact (scale_unsquash_inverse lo hi x). Qed.
Theorem C19_unsquash_scale_inverse lo hi y : lo < y < hi -> sq_unsquash Rops tanh true lo hi (sq_scale Rops atanh true lo hi y) = y.
Proof. exact (unsquash_scale_inverse lo hi y). Qed.
Theorem C19_noscale_inverse lo hi y : lo <= y <= hi -> sq_unsquash Rops tanh false lo hi (sq_scale Rops atanh false lo hi y) = y.
Proof. exact (noscale_inverse lo hi y). Qed.
(* the wrappers hand the wrapped environment an action inside the bounds, whatever raw action they are given *)
Theorem C19_squash_wrap_in_bounds (C IB Rng : Type) sq (e : env (A:=R) C IB Rng) g a lo hi :
  a_sq g = Some {| s_lo := lo; s_hi := hi; s_on := sq |} -> ordered lo hi ->
  exists a', within a' lo hi /\ e_step (squash_wrap Rops tanh sq e) g a = e_step e g a'.
Proof. exact (squash_wrap_in_bounds C IB Rng sq e g a lo hi). Qed.
Theorem C19_clip_wrap_in_bounds (C IB Rng : Type) (e : env (A:=R) C IB Rng) g a lo hi : e_space e g = (lo, hi) -> ordered lo hi ->
  exists a', within a' lo hi /\ e_step (clip_wrap Rops e) g a = e_step e g a'.
Proof. exact (clip_wrap_in_bounds C IB Rng e g a lo hi). Qed.
Theorem C19_squash_wrap_reset_bounds (C IB Rng : Type) sq (e : env (A:=R) C IB Rng) k :
  let '(g, _, _) := e_reset (squash_wrap Rops tanh sq e) k in let '(g0, _, _) := e_reset e k in
  a_sq g = Some {| s_lo := fst (e_space e g0); s_hi := snd (e_space e g0); s_on := sq |}.
Proof. exact (squash_wrap_reset_bounds C IB Rng sq e k). Qed.
Print Assumptions C19_unsquash_scale_inverse.
Print Assumptions C19_squash_wrap_in_bounds.

(* ---- clause 5: running normalisation = mean and variance of everything seen (with the 1e-4-weight prior the code has) ---- *)
Theorem C19_mom_update_adds s bm bv bc : m_count s + bc <> 0 ->
  let s' := mom_update Rops s bm bv bc in
  S0 s' = S0 s + bc /\ S1 s' = S1 s + bc * bm /\ S2 s' = S2 s + bc * (bv + bm * bm).
Proof. exact (mom_update_adds s bm bv bc). Qed.
Theorem C19_moments_all_seen bs s : 0 < m_count s -> (forall b, In b bs -> b <> []) ->
  let all := concat bs in
  S0 (mrun s bs) = S0 s + len all /\ S1 (mrun s bs) = S1 s + rsum all /\ S2 (mrun s bs) = S2 s + sumsq all.
Proof. exact (moments_all_seen bs s). Qed.
Theorem C19_moments_from_prior bs : (forall b, In b bs -> b <> []) ->
  let all := concat bs in let s := mrun (mom0 Rops) bs in let n := / 10000 + len all in
  m_count s = n /\ m_mean s = rsum all / n /\ m_var s = (/ 10000 + sumsq all) / n - m_mean s * m_mean s.
Proof. exact (moments_from_prior bs). Qed.
(* the wrappers apply that update to the batch the wrapped (vectorised) environment returns, and normalise with the new state *)
Theorem C19_norm_obs_wrap_step (A : Type) (O : ops A) (C IB Rng : Type) (sq : A -> A) clipv (e : venv (A:=A) C IB Rng)
  v acts ms0 v1 ob r te tr i : a_nobs v = Some ms0 -> ve_step e (set_nobs v None) acts = (v1, ob, r, te, tr, i) ->
  let ms := map2 (fun m col => mom_batch O m col) ms0 (columns O ob) in
  ve_step (norm_obs_wrap O sq clipv e) v acts = (set_nobs v1 (Some ms), map (norm_obs_row O sq clipv ms) ob, r, te, tr, i).
Proof. exact (norm_obs_wrap_step O C IB Rng sq clipv e v acts ms0 v1 ob r te tr i). Qed.
Theorem C19_norm_rew_wrap_step (A : Type) (O : ops A) (C IB Rng : Type) (sq : A -> A) gamma clipv (e : venv (A:=A) C IB Rng)
  v acts s v1 ob r te tr i : a_nrew v = Some s -> ve_step e (set_nrew v None) acts = (v1, ob, r, te, tr, i) ->
  let rv := map3 (fun x rw d => ret_update O gamma x rw (fst d) (snd d)) (n_ret s) r (combine te tr) in
  let m := mom_batch O (n_mom s) rv in
  ve_step (norm_rew_wrap O sq gamma clipv e) v acts =
    (set_nrew v1 (Some {| n_mom := m; n_ret := rv |}), ob, map (nv_normalize O sq (m_mean m) (m_var m) clipv true false) r, te, tr, i).
Proof. exact (norm_rew_wrap_step O C IB Rng sq gamma clipv e v acts s v1 ob r te tr i). Qed.
(* over whole histories: the normaliser state after any run is the update folded over every batch the wrapped
   environment returned ... *)
Theorem C19_norm_obs_history (A : Type) (O : ops A) (C IB Rng : Type) (sq : A -> A) clipv (e : venv (A:=A) C IB Rng) acts v ms0 :
  a_nobs v = Some ms0 ->
  a_nobs (final C IB Rng (vrun_from (norm_obs_wrap O sq clipv e) v acts) v) =
  Some (nobs_fold O ms0 (nobs_raw O C IB Rng sq clipv e v acts)).
Proof. exact (norm_obs_history O C IB Rng sq clipv e acts v ms0). Qed.
Theorem C19_norm_obs_reset_state (A : Type) (O : ops A) (C IB Rng : Type) (sq : A -> A) clipv (e : venv (A:=A) C IB Rng) ks :
  a_nobs (fst (fst (ve_reset (norm_obs_wrap O sq clipv e) ks))) =
  Some (nobs_fold O (map (fun _ => mom0 O) (columns O (snd (fst (ve_reset e ks))))) [snd (fst (ve_reset e ks))]).
Proof. exact (norm_obs_reset_state O C IB Rng sq clipv e ks). Qed.
Theorem C19_norm_rew_history (A : Type) (O : ops A) (C IB Rng : Type) (sq : A -> A) gamma clipv (e : venv (A:=A) C IB Rng) acts v s :
  a_nrew v = Some s ->
  let rvs := nrew_raw O C IB Rng sq gamma clipv e v (n_ret s) acts in
  a_nrew (final C IB Rng (vrun_from (norm_rew_wrap O sq gamma clipv e) v acts) v) =
  Some {| n_mom := fold_left (fun m rv => mom_batch O m rv) rvs (n_mom s); n_ret := last rvs (n_ret s) |}.
Proof. exact (norm_rew_history O C IB Rng sq gamma clipv e acts v s). Qed.
(* ... hence coordinate j of the observation normaliser = count, mean and variance of coordinate j of every observation
   seen so far (reset batch included), with the prior *)
Theorem C19_nobs_all_seen j d (batches : list (list (obs (A:=R)))) : batches <> [] ->
  (forall ob, In ob batches -> ob <> [] /\ obs_dim ob = obs_dim (hd [] batches)) -> (j < obs_dim (hd [] batches))%nat ->
  let ms := nobs_fold Rops (map (fun _ => mom0 Rops) (columns Rops (hd [] batches))) batches in
  let all := concat (map (column Rops j) batches) in let n := / 10000 + len all in
  m_count (nth j ms d) = n /\ m_mean (nth j ms d) = rsum all / n /\
  m_var (nth j ms d) = (/ 10000 + sumsq all) / n - m_mean (nth j ms d) * m_mean (nth j ms d).
Proof. exact (nobs_all_seen j d batches). Qed.
Print Assumptions C19_norm_obs_history.
Print Assumptions C19_nobs_all_seen.

Theorem C19_ret_update_done gamma rv r te tr : te || tr = true -> ret_update Rops gamma rv r te tr = r.
Proof. exact (ret_update_done gamma rv r te tr). Qed.
Theorem C19_ret_horner gamma rs rv : fold_left (fun v r => ret_update Rops gamma v r false false) rs rv = horner gamma rv rs.
Proof. exact (ret_horner gamma rs rv). Qed.
Theorem C19_normalize_clipped mean var c sm x : 0 <= c -> - c <= nv_normalize Rops sqrt mean var c true sm x <= c.
Proof. exact (nv_normalize_clipped mean var c sm x). Qed.
Theorem C19_denormalize_normalize mean var c b x : 0 <= var ->
  nv_denormalize Rops sqrt mean var b (nv_normalize Rops sqrt mean var c false b x) = x.
Proof. exact (nv_denormalize_normalize mean var c b x). Qed.
Theorem C19_vec_step_pointwise (A C IB Rng : Type) (e : env (A:=A) C IB Rng) v acts :
  let '(v1, ob, r, te, tr, i) := ve_step (vec e) v acts in
  let rs := map2 (e_step e) (v_envs v) acts in
  v_envs v1 = map r_gs rs /\ ob = map r_obs rs /\ r = map r_rew rs /\ te = map r_te rs /\ tr = map r_tr rs /\ i = map r_info rs.
Proof. exact (vec_step_pointwise C IB Rng e v acts). Qed.
Print Assumptions C19_moments_from_prior.
Print Assumptions C19_norm_rew_wrap_step.

(* ---- non-vacuity ---- *)
(* the hypotheses keeps_init / keeps_log hold of the wrapped environment itself and are preserved by every wrapper *)
Theorem C19_stack_keeps (A : Type) (O : ops A) (C IB Rng : Type) th split base_reset base_step base_space ws :
  keeps_init C IB Rng (stack O C IB Rng th split base_reset base_step base_space ws) /\
  (~ In WLog ws -> keeps_log C IB Rng (stack O C IB Rng th split base_reset base_step base_space ws)).
Proof. exact (stack_keeps O C IB Rng th split base_reset base_step base_space ws). Qed.
Example C19_log_nonvacuous :
  let h := [(1, false, false); (2, false, true); (4, false, false)] in
  current h [] = [4] /\ l_rret (lrun (log0 Rops) (h ++ [(8, true, false)])) = 12.
Proof. simpl. split; [reflexivity|]. unfold lrun, log_step; simpl. lra. Qed.
Example C19_bounds_nonvacuous : ordered [-1; 0] [1; 4] /\ within [0; 4] [-1; 0] [1; 4].
Proof. split; repeat constructor; lra. Qed.
Example C19_moments_nonvacuous : forall b, In b [[1; 2]; [3]] -> b <> [].
Proof. intros b [<-|[<-|[]]]; discriminate. Qed.
