(* C17 — Parameter transforms are invertible and compose in order.  Statements only; proofs live in TreeLaws.v. *)
From Coq Require Import Reals List ZArith Bool.
From Rex Require Import Ops Kernels Tree TreeLaws.
Import ListNotations.
Open Scope R_scope.

(* inv(apply(x)) = x on the domain rt_ok, for every transform including arbitrarily nested chains *)
Theorem C17_inv_apply (A : Type) (T : transform A) (t : tree A) : rt_ok T t -> inv T (app T t) = t.
Proof. exact (inv_apply T t). Qed.
Print Assumptions C17_inv_apply.

(* Denormalize on whole trees with per-leaf bounds (min <> max at every leaf) *)
Theorem C17_denormalize_roundtrip (t mn mx : tree R) :
  let o := tmap2 (denorm_offset Rops) mn mx in let s := tmap2 (denorm_scale Rops) mn mx in
  same_shape t o = true -> same_shape t s = true -> tall3 (fun _ _ z => z <> 0) t o s ->
  inv (TDenorm (denormalize Rops) (normalize Rops) o s) (app (TDenorm (denormalize Rops) (normalize Rops) o s) t) = t.
Proof. exact (denormalize_tree_roundtrip t mn mx). Qed.
Print Assumptions C17_denormalize_roundtrip.

Theorem C17_denorm_scale_nonzero mn mx : mn <> mx -> denorm_scale Rops mn mx <> 0.
Proof. exact (denorm_scale_nonzero mn mx). Qed.

Theorem C17_apply_inv_leaf (x y z : R) : z <> 0 -> denormalize Rops (normalize Rops x y z) y z = x.
Proof. exact (norm_leaf_roundtrip x y z). Qed.

(* -1 |-> min, +1 |-> max, monotone in between *)
Theorem C17_denorm_endpoints mn mx :
  denormalize Rops (-1) (denorm_offset Rops mn mx) (denorm_scale Rops mn mx) = mn /\
  denormalize Rops 1 (denorm_offset Rops mn mx) (denorm_scale Rops mn mx) = mx.
Proof. exact (denorm_endpoints mn mx). Qed.
Theorem C17_denorm_mono mn mx x y : mn < mx -> x < y ->
  denormalize Rops x (denorm_offset Rops mn mx) (denorm_scale Rops mn mx) <
  denormalize Rops y (denorm_offset Rops mn mx) (denorm_scale Rops mn mx).
Proof. exact (denorm_mono mn mx x y). Qed.
Print Assumptions C17_denorm_mono.

(* Exponential: all reals one way, positive reals the other *)
Theorem C17_exponential_roundtrip (t : tree R) : inv (TLeafwise exp ln) (app (TLeafwise exp ln) t) = t.
Proof. exact (exponential_tree_roundtrip t). Qed.
Theorem C17_exp_apply_inv x : 0 < x -> exp (ln x) = x.
Proof. exact (exp_apply_inv x). Qed.
Print Assumptions C17_exponential_roundtrip.

(* a chain applies first-to-last and inverts last-to-first *)
Theorem C17_chain_apply_order (A : Type) (ts1 ts2 : list (transform A)) t :
  app (TChain (ts1 ++ ts2)) t = app (TChain ts2) (app (TChain ts1) t).
Proof. exact (chain_apply_order ts1 ts2 t). Qed.
Theorem C17_chain_inv_order (A : Type) (ts1 ts2 : list (transform A)) t :
  inv (TChain (ts1 ++ ts2)) t = inv (TChain ts1) (inv (TChain ts2) t).
Proof. exact (chain_inv_order ts1 ts2 t). Qed.
Theorem C17_chain_apply_cons (A : Type) (T : transform A) ts t : app (TChain (T :: ts)) t = app (TChain ts) (app T t).
Proof. exact (chain_apply_cons T ts t). Qed.
Theorem C17_chain_inv_cons (A : Type) (T : transform A) ts t : inv (TChain (T :: ts)) t = inv T (inv (TChain ts) t).
Proof. exact (chain_inv_cons T ts t). Qed.
Print Assumptions C17_chain_inv_order.

(* Extend fills exactly the missing leaves from the base tree, leaves supplied leaves untouched, keeps base's structure *)
Theorem C17_extend_spec (A : Type) (p b : tree A) path : prefix_ok b p = true -> nodup_keys b ->
  leaf_at path (textend b p) =
    match leaf_at path b with
    | Some (Some bv) => match cover path p with Some (Some v) => Some (Some v) | _ => Some (Some bv) end
    | r => r end.
Proof. exact (extend_spec p b path). Qed.
Print Assumptions C17_extend_spec.

(* non-vacuity: a concrete nested tree with a None leaf and a nested chain meets rt_ok *)
Example C17_rt_ok_nonvacuous :
  let t := Node [(0%Z, Leaf None); (1%Z, Node [(0%Z, Leaf (Some 3)); (5%Z, Leaf (Some (-2)))])] in
  let o := Node [(0%Z, Leaf None); (1%Z, Node [(0%Z, Leaf (Some 1)); (5%Z, Leaf (Some 0))])] in
  let s := Node [(0%Z, Leaf None); (1%Z, Node [(0%Z, Leaf (Some 2)); (5%Z, Leaf (Some 4))])] in
  rt_ok (TChain [TDenorm (denormalize Rops) (normalize Rops) o s; TChain [TIdentity; TShared [0%Z] [1%Z; 5%Z]]]) t.
Proof.
  simpl. repeat split; try reflexivity; unfold normalize, denormalize; simpl; field; apply not_eq_sym, Rlt_not_eq;
    try apply Rlt_0_2; apply Rmult_lt_0_compat; apply Rlt_0_2.
Qed.
Example C17_extend_nonvacuous :
  let b := Node [(0%Z, Node [(1%Z, Leaf (Some 10%Z)); (2%Z, Leaf (Some 20%Z))]); (3%Z, Leaf (Some 30%Z))] in
  let p := Node [(0%Z, Leaf None); (3%Z, Leaf (Some 99%Z))] in
  prefix_ok b p = true /\ nodup_keys b /\
  textend b p = Node [(0%Z, Node [(1%Z, Leaf (Some 10%Z)); (2%Z, Leaf (Some 20%Z))]); (3%Z, Leaf (Some 99%Z))].
Proof. simpl. repeat split; repeat constructor; simpl; intuition discriminate. Qed.
