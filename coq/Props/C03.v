(* C03 — recorded episodes are causal and loss-free on every connection.  Statements only (copied from the lemmas they are closed by).
   Net-level statements hold in every reachable state of the actor net (every schedule, every prefix).
   msgs_of s c is the message record of connection c; all_recs h c m = the messages of selection groups 0..m-1, each stamped seq_in = its group
   number, in the order they were sent (seq_out = 0,1,2,... without gap or repeat: AsyncLaws3).  *)
From Coq Require Import List Arith ZArith Bool Sorted.
From Rex Require Import KahnL AsyncModel2 AsyncStable ConflInv RexDet AsyncLaws AsyncLaws2 AsyncLaws3 AsyncLaws4 AsyncLaws5 AsyncLaws6 Consume ConsumeB NetConsume BlockCount BlockCount2 WindowPush.
Open Scope Z_scope.

(* the record of a connection is exactly the concatenation of its selection groups: every message once, in order, seq_in = the step (group) that consumed it *)
Theorem C03_msgs_law : forall (G : cfg) (s : state) (c : nat), reach G s -> (c < NCn G)%nat -> exists m : nat, msgs_of G s c = all_recs G (hfun tok local s) c m.
Proof. exact @msgs_law. Qed.
Print Assumptions C03_msgs_law.

(* received no earlier than sent (sampled delay >= 0: C15) *)
Theorem C03_recv_ge_sent : forall (G : cfg) (h : nat -> list tok) (c j k : nat) (out : Z), nth_error (h (TsOut G c)) j = Some (TTsOut k out) -> 0 <= stream (c_delays (conn G c)) j -> out <= recv_at G h c j.
Proof. exact @recv_ge_sent. Qed.
Print Assumptions C03_recv_ge_sent.

(* arrivals are FIFO: recv_j >= recv_{j-1} *)
Theorem C03_recv_monotone : forall (G : cfg) (h : nat -> list tok) (c j : nat), prev_recv G h c j <= recv_at G h c j \/ nth_error (h (TsOut G c)) j = None \/ (exists t : tok, nth_error (h (TsOut G c)) j = Some t /\ (forall (k : nat) (o : Z), t <> TTsOut k o)).
Proof. exact @recv_monotone. Qed.
Print Assumptions C03_recv_monotone.

(* non-blocking LATEST selection: after step i the number of consumed messages is the length of the leading run of arrivals the step may take (recv <= start_i, < with skip) *)
Theorem C03_consumed_closed_form : forall (skip : bool) (starts : nat -> Z) (l : list Z), (forall i : nat, starts i <= starts (S i)) -> forall i : nat, consumed skip starts l (S i) = lead skip (starts i) l.
Proof. exact @consumed_closed_form. Qed.
Print Assumptions C03_consumed_closed_form.

(* hence message j is consumed by step i iff step i is the first step starting at or after its arrival (strictly after for skipped connections); never by a step that started before it arrived *)
Theorem C03_consumed_by_first_fitting_step : forall (skip : bool) (starts : nat -> Z) (l : list Z), StronglySorted Z.le l -> (forall i : nat, starts i <= starts (S i)) -> forall i j : nat, (j < length l)%nat -> (consumed skip starts l i <= j < consumed skip starts l (S i))%nat <-> takes skip (starts i) (nth j l 0) = true /\ (i = 0%nat \/ takes skip (starts (i - 1)%nat) (nth j l 0) = false).
Proof. exact @consumed_by_first_fitting_step. Qed.
Print Assumptions C03_consumed_by_first_fitting_step.

(* blocking connections: the counting loop assigns to receiver step N exactly the sender ticks scheduled in (sched(N-1), sched(N)] (the phase-determined step) *)
Theorem C03_blocking_count_nonskip : forall P phm t_low t_high : Z, 0 < P -> t_low <= t_high -> forall fuel : nat, let i0 := (t_low - phm) / P in let jm := (t_high - phm) / P in jm + 1 - i0 < Z.of_nat fuel -> Z.of_nat (cnt_loop fuel i0 P phm t_low t_high false false 0) = cum_le P phm t_high - cum_le P phm t_low.
Proof. exact @blocking_count_nonskip. Qed.
Print Assumptions C03_blocking_count_nonskip.

(* steps of one node never overlap in time *)
Theorem C03_steps_disjoint : forall (G : cfg) (s : state) (n k kk : nat) (st d : Z) (kk' : nat) (st' d' : Z), reach G s -> (n < NN G)%nat -> nth_error (nth (QStart n) (hist tok local s) nil) k = Some (TStart kk st d) -> nth_error (nth (QStart n) (hist tok local s) nil) (S k) = Some (TStart kk' st' d') -> st + d <= st'.
Proof. exact @steps_disjoint. Qed.
Print Assumptions C03_steps_disjoint.

(* rows of a node are gap-free from 0: row k is tick k, built from the k-th start token and the k-th groups *)
Theorem C03_rows_law : forall (G : cfg) (s : state) (n k : nat), reach G s -> (n < NN G)%nat -> (k < length (rows_of s n))%nat -> nth_error (rows_of s n) k = row_of G (hfun tok local s) n k.
Proof. exact @rows_law. Qed.
Print Assumptions C03_rows_law.

(* the input window after the pushes of all groups up to step k holds the most recent `window` consumed messages, oldest first *)
Theorem C03_window_is_lastn : forall (X : Type) (w0 : list X) (gs : list (list X)), fold_left push_all gs w0 = CompiledModel.lastn (length w0) (w0 ++ concat gs).
Proof. exact @window_is_lastn. Qed.
Print Assumptions C03_window_is_lastn.

(* also when a step consumes more than `window` messages (the group is truncated to its last `window` first) *)
Theorem C03_push_truncated : forall (X : Type) (w g : list X), push_all w (CompiledModel.lastn (length w) g) = push_all w g.
Proof. exact @push_truncated. Qed.
Print Assumptions C03_push_truncated.

(* skipped blocking connections: receiver step N > 0 takes the sender ticks scheduled in [sched(N-1), sched(N)) *)
Theorem C03_blocking_count_skip : forall P phm t_low t_high : Z, 0 < P -> t_low <= t_high -> forall fuel : nat, let i0 := (t_low - phm) / P in let jm := (t_high - phm) / P in jm + 1 - i0 < Z.of_nat fuel -> Z.of_nat (cnt_loop fuel i0 P phm t_low t_high false true 0) = cum_lt P phm t_high - cum_lt P phm t_low.
Proof. exact @blocking_count_skip. Qed.
Print Assumptions C03_blocking_count_skip.

(* first receiver step (N = 0), non-skip: every sender tick scheduled at or before sched(0) *)
Theorem C03_blocking_count_first_nonskip : forall P phm t_low t_high : Z, 0 < P -> t_low <= t_high -> forall fuel : nat, let jm := (t_high - phm) / P in -1 <= jm -> jm + 1 < Z.of_nat fuel -> Z.of_nat (cnt_loop fuel 0 P phm t_low t_high true false 0) = cum_le P phm t_high.
Proof. exact @blocking_count_first_nonskip. Qed.
Print Assumptions C03_blocking_count_first_nonskip.

(* first receiver step (N = 0), skip: every sender tick scheduled strictly before sched(0) *)
Theorem C03_blocking_count_first_skip : forall P phm t_low t_high : Z, 0 < P -> t_low <= t_high -> forall fuel : nat, let jm := (t_high - phm) / P in -1 <= jm -> jm + 1 < Z.of_nat fuel -> Z.of_nat (cnt_loop fuel 0 P phm t_low t_high true true 0) = cum_lt P phm t_high.
Proof. exact @blocking_count_first_skip. Qed.
Print Assumptions C03_blocking_count_first_skip.

(* the count the model's blocking expectation computes (with its own fuel expression), for every receiver step, skip flag and phases: the phase-determined step *)
Theorem C03_blk_cnt_closed_form : forall (G : cfg) (c N : nat), let nn := node G (c_in (conn G c)) in let nm := node G (c_out (conn G c)) in 0 < n_period nn -> 0 < n_period nm -> let sched := fun k : Z => n_period nn * k + n_phase nn in let P := n_period nm in let phm := n_phase nm in Z.of_nat (blk_cnt G c N) = (if (N =? 0)%nat then if c_skip (conn G c) then cum_lt P phm (sched 0) else cum_le P phm (sched 0) else if c_skip (conn G c) then cum_lt P phm (sched (Z.of_nat N)) - cum_lt P phm (sched (Z.of_nat N - 1)) else cum_le P phm (sched (Z.of_nat N)) - cum_le P phm (sched (Z.of_nat N - 1))).
Proof. exact @blk_cnt_closed_form. Qed.
Print Assumptions C03_blk_cnt_closed_form.
(* consumption clause, BUFFER jitter (now a theorem, no longer correspondence-only): with the counts computed exactly as push_expected_nonblocking computes them (count_buffer on the not yet consumed suffix), message j with sequence number k is consumed by step i iff step i may take it - it starts at/after the arrival (strictly after on a skipped connection) and not before the expected arrival k * period_sender + phase - and step i-1 may not *)
Theorem C03_buffer_first_fitting : forall (skip : bool) (Pm phc : Z) (starts : nat -> Z) (l : list stamp), 0 <= Pm -> (forall i : nat, starts i <= starts (S i)) -> arrivals_sorted l -> seqs_sorted l -> forall i j : nat, (j < length l)%nat -> (nb_taken (count_buffer skip Pm phc) starts l i <= j < nb_taken (count_buffer skip Pm phc) starts l (S i))%nat <-> takesB skip Pm phc (starts i) (nth j l dstamp) = true /\ (i = 0%nat \/ takesB skip Pm phc (starts (i - 1)%nat) (nth j l dstamp) = false).
Proof. exact @buffer_first_fitting. Qed.
Print Assumptions C03_buffer_first_fitting.

(* the same for LATEST, stated on the model's own counting function count_latest *)
Theorem C03_latest_first_fitting : forall (skip : bool) (starts : nat -> Z) (l : list stamp), (forall i : nat, starts i <= starts (S i)) -> arrivals_sorted l -> forall i j : nat, (j < length l)%nat -> (nb_taken (count_latest skip) starts l i <= j < nb_taken (count_latest skip) starts l (S i))%nat <-> takes skip (starts i) (snd (nth j l dstamp)) = true /\ (i = 0%nat \/ takes skip (starts (i - 1)%nat) (snd (nth j l dstamp)) = false).
Proof. exact @latest_first_fitting. Qed.
Print Assumptions C03_latest_first_fitting.

(* never consumed by a step that started before it arrived, nor before its expected arrival *)
Theorem C03_buffer_never_early : forall (skip : bool) (Pm phc : Z) (starts : nat -> Z) (l : list stamp), 0 <= Pm -> (forall i : nat, starts i <= starts (S i)) -> arrivals_sorted l -> seqs_sorted l -> forall i j : nat, (j < length l)%nat -> (nb_taken (count_buffer skip Pm phc) starts l i <= j < nb_taken (count_buffer skip Pm phc) starts l (S i))%nat -> Z.of_nat (fst (nth j l dstamp)) * Pm + phc <= starts i /\ snd (nth j l dstamp) <= starts i /\ (skip = true -> snd (nth j l dstamp) < starts i).
Proof. exact @buffer_never_early. Qed.
Print Assumptions C03_buffer_never_early.

(* bridge: the cumulative count of the expectation actor over the channel histories of the net is nb_taken over the arrival stamps and announced step times *)
Theorem C03_nb_consumed_is_nb_taken : forall (G : cfg) (h : nat -> list tok) (c : nat) (l : list stamp) (starts : nat -> Z) (n : nat), h (TsIn G c) = map tsin l -> (forall i : nat, (i < n)%nat -> exists k : nat, nth_error (h (Next G c)) i = Some (TSched k (starts i))) -> forall i : nat, (i <= n)%nat -> nb_consumed G h c i = nb_taken (cnt_fn G c) starts l i.
Proof. exact @nb_consumed_taken. Qed.
Print Assumptions C03_nb_consumed_is_nb_taken.

(* non-vacuity: BUFFER holds an early message back until its expected arrival; LATEST does not *)
Theorem C03_buffer_example : map (nb_taken (count_buffer false 8 2) (fun i : nat => 10 * Z.of_nat i) ex_stamps) (0%nat :: 1%nat :: 2%nat :: 3%nat :: 4%nat :: nil) = 0%nat :: 0%nat :: 2%nat :: 2%nat :: 4%nat :: nil /\ map (nb_taken (count_latest false) (fun i : nat => 10 * Z.of_nat i) ex_stamps) (0%nat :: 1%nat :: 2%nat :: 3%nat :: 4%nat :: nil) = 0%nat :: 0%nat :: 2%nat :: 2%nat :: 4%nat :: nil /\ map (nb_taken (count_buffer false 8 12) (fun i : nat => 10 * Z.of_nat i) ex_stamps) (0%nat :: 1%nat :: 2%nat :: 3%nat :: 4%nat :: nil) = 0%nat :: 0%nat :: 0%nat :: 2%nat :: 3%nat :: nil.
Proof. exact @ex_buffer. Qed.
Print Assumptions C03_buffer_example.
(* the consumption clause composed at the level of the actor net, for EVERY reachable state (recorded prefix, any thread schedule) and every non-blocking connection: each recorded message (m_out = j, m_in = i) arrived at recv_at j, step i - whose announced time is the start time of the receiver's step i - may take it (arrival <= start, < on a skipped connection, and for buffered jitter expected arrival j * period_sender + phase <= start), and NO earlier step may: it is consumed by the first step the policy allows *)
Theorem C03_net_consumed_by_first_fitting : forall (G : cfg) (s : state) (c : nat), reach G s -> (c < NCn G)%nat -> c_blocking (conn G c) = false -> consume_ok G c = true -> forall r : mrec, In r (msgs_of G s c) -> let h := hfun tok local s in let j := m_out r in let i := m_in r in exists (kk : nat) (t_i : Z), nth_error (h (Next G c)) i = Some (TSched kk t_i) /\ m_recv r = recv_at G h c j /\ may_take G c t_i j (m_recv r) = true /\ (forall (i' kp : nat) (t' : Z), (i' < i)%nat -> nth_error (h (Next G c)) i' = Some (TSched kp t') -> may_take G c t' j (m_recv r) = false) /\ (i = 0%nat \/ (exists (kp : nat) (t_prev : Z), nth_error (h (Next G c)) (i - 1) = Some (TSched kp t_prev) /\ may_take G c t_prev j (m_recv r) = false)).
Proof. exact @net_consumed_by_first_fitting. Qed.
Print Assumptions C03_net_consumed_by_first_fitting.

(* never consumed by a step that started before it arrived, nor (BUFFER) before its expected arrival *)
Theorem C03_net_never_early : forall (G : cfg) (s : state) (c : nat), reach G s -> (c < NCn G)%nat -> c_blocking (conn G c) = false -> consume_ok G c = true -> forall r : mrec, In r (msgs_of G s c) -> exists (kk : nat) (t_i : Z), nth_error (hfun tok local s (Next G c)) (m_in r) = Some (TSched kk t_i) /\ m_recv r <= t_i /\ (c_skip (conn G c) = true -> m_recv r < t_i) /\ (c_buffer (conn G c) = true -> Z.of_nat (m_out r) * n_period (node G (c_out (conn G c))) + c_phase (conn G c) <= t_i).
Proof. exact @net_never_early. Qed.
Print Assumptions C03_net_never_early.

(* the time announced to the connection for receiver step i is the start time of that step *)
Theorem C03_next_is_start : forall (G : cfg) (s : state) (c i : nat) (t : tok), reach G s -> (c < NCn G)%nat -> c_blocking (conn G c) = false -> nth_error (hfun tok local s (Next G c)) i = Some t -> (c_in (conn G c) < NN G)%nat /\ (exists (kk : nat) (st d : Z), t = TSched kk st /\ nth_error (hfun tok local s (QStart (c_in (conn G c)))) i = Some (TStart kk st d)).
Proof. exact @next_is_start. Qed.
Print Assumptions C03_next_is_start.

(* non-vacuity on the two-node example execution *)
Theorem C03_net_consume_example : (0 < NCn AsyncDataflow.exG)%nat /\ c_blocking (conn AsyncDataflow.exG 0) = false /\ consume_ok AsyncDataflow.exG 0 = true /\ msgs_of AsyncDataflow.exG AsyncDataflow.exS 0 = {| m_out := 0; m_in := 0; m_sent := 2; m_recv := 3 |} :: {| m_out := 1; m_in := 1; m_sent := 12; m_recv := 13 |} :: {| m_out := 2; m_in := 2; m_sent := 22; m_recv := 23 |} :: {| m_out := 3; m_in := 3; m_sent := 32; m_recv := 33 |} :: nil /\ firstn 4 (hfun tok local AsyncDataflow.exS (Next AsyncDataflow.exG 0)) = TSched 0 5 :: TSched 1 15 :: TSched 2 25 :: TSched 3 35 :: nil /\ may_take AsyncDataflow.exG 0 25 2 23 = true /\ may_take AsyncDataflow.exG 0 15 2 23 = false.
Proof. exact @ex_consume_hyps. Qed.
Print Assumptions C03_net_consume_example.
