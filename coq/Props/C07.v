(* C07 — the compiled schedule runs every vertex once, in dependency order.  Statements only.
   The supergraph search is outside the repository: its result enters through Graph.timings and is validated on every instance by the extracted
   boolean checker check_schedule (per running slot: it carries a vertex of its own kind with that vertex's seq / times / window as apply_window
   computes it; no vertex twice; stateful predecessor and every window producer strictly earlier in (partition, generation) order; supervisor
   vertex p closes partition p; at most one slot of a kind per generation).  apply_window itself is specified for every graph. *)
From Coq Require Import List Arith ZArith Bool.
From Rex Require Import CompiledModel WindowSpec WindowPush.
Open Scope Z_scope.

(* the window of receiver step k computed by apply_window = the last `window` of (defaults ++ messages with valid seq_in <= k), oldest first, provided seq_in is non-decreasing along the edge array (invalid entries last) *)
Theorem C07_apply_window_spec : forall (I : inst) (c : nat), Sorted.StronglySorted Z.le (map si_of (nth c (i_edges I) nil)) -> win_model I c = map (fun v : vertex => lastn (k_win (conn I c)) (repeat (-1, 0, 0) (k_win (conn I c)) ++ map (entry_of I c) (filter (good (v_seq v)) (nth c (i_edges I) nil)))) (verts I (k_in (conn I c))).
Proof. exact @apply_window_spec. Qed.
Print Assumptions C07_apply_window_spec.

(* iterated pushes keep the most recent `window` entries *)
Theorem C07_window_is_lastn : forall (X : Type) (w0 : list X) (gs : list (list X)), fold_left push_all gs w0 = lastn (length w0) (w0 ++ concat gs).
Proof. exact @window_is_lastn. Qed.
Print Assumptions C07_window_is_lastn.

