(* C07 — the compiled schedule runs every vertex once, in dependency order.  Statements only.
   The supergraph search is outside the repository: its result enters through Graph.timings and is validated on every instance by the extracted
   boolean checker check_schedule (per running slot: it carries a vertex of its own kind with that vertex's seq / times / window as apply_window
   computes it; no vertex twice; stateful predecessor and every window producer strictly earlier in (partition, generation) order; supervisor
   vertex p closes partition p; at most one slot of a kind per generation).  apply_window itself is specified for every graph.
   rex.utils.to_timings is inside the model (ToTimings.v): under the decidable contract check_mono of the partitioner's monomorphism the schedule it builds
   is accepted by check_schedule (to_timings_valid); the model's schedule is compared with rex's Timings on every instance (TTMATCH), check_mono is evaluated
   on every instance (CHECKMONO). *)
From Coq Require Import List Arith ZArith Bool.
From Rex Require Import CompiledModel WindowSpec WindowPush ScheduleSpec ScheduleCover BufferSufficient ToTimings ToTimingsLaws ToTimingsExtra ExportReplay SchedOk.
Open Scope Z_scope.

(* soundness of the extracted validator: an accepted schedule satisfies ValidSchedule (every running slot carries a vertex of its own kind with that vertex's seq, times and window; no vertex twice; predecessor step and every window producer strictly earlier; supervisor step p closes partition p; one slot per kind and generation) *)
Theorem C07_check_schedule_sound : forall I : inst, check_schedule I = true -> ValidSchedule I.
Proof. exact @check_schedule_sound. Qed.
Print Assumptions C07_check_schedule_sound.

(* every message producer in a step's window runs strictly before that step *)
Theorem C07_producer_before_consumer : forall I : inst, ValidSchedule I -> forall (n : nat) (k : Z) (p g : nat) (c : cell) (cw : nat * list wentry) (so a b : Z), In (n, k, p, g, c) (run_cells I) -> In cw (combine (ins_of I n) (c_wins c)) -> In (so, a, b) (snd cw) -> 0 <= so -> exists q : nat * nat, find_cell I (k_out (conn I (fst cw))) so = Some q /\ lex_lt q (p, g) = true.
Proof. exact @producer_before_consumer. Qed.
Print Assumptions C07_producer_before_consumer.

(* consecutive steps of a node run in sequence order *)
Theorem C07_node_steps_in_seq_order : forall I : inst, ValidSchedule I -> forall (n : nat) (k : Z) (p g : nat) (c : cell), In (n, k, p, g, c) (run_cells I) -> 0 < k -> exists q : nat * nat, find_cell I n (k - 1) = Some q /\ lex_lt q (p, g) = true.
Proof. exact @node_steps_in_seq_order. Qed.
Print Assumptions C07_node_steps_in_seq_order.

(* supervisor step p closes partition p *)
Theorem C07_supervisor_closes_partition : forall I : inst, ValidSchedule I -> forall (k : Z) (p g : nat) (c : cell), In (i_sup I, k, p, g, c) (run_cells I) -> Z.of_nat p = k /\ g = (i_ngen I - 1)%nat.
Proof. exact @supervisor_closes_partition. Qed.
Print Assumptions C07_supervisor_closes_partition.

(* in a valid schedule every ancestor (previous steps, window producers, transitively) of a scheduled vertex is scheduled *)
Theorem C07_ancestors_scheduled : forall I : inst, ValidSchedule I -> forall v w : nat * Z, scheduled I v -> Relation_Operators.clos_refl_trans (nat * Z) (dep I) v w -> scheduled I w.
Proof. exact @ancestors_scheduled. Qed.
Print Assumptions C07_ancestors_scheduled.

(* no vertex is scheduled twice *)
Theorem C07_scheduled_once : forall I : inst, ValidSchedule I -> forall (n : nat) (k : Z) (p g : nat) (c : cell) (p' g' : nat) (c' : cell), In (n, k, p, g, c) (run_cells I) -> In (n, k, p', g', c') (run_cells I) -> (p, g, c) = (p', g', c').
Proof. exact @scheduled_once. Qed.
Print Assumptions C07_scheduled_once.

(* if the validators accept the schedule, every vertex a supervisor step inside the horizon depends on is scheduled *)
Theorem C07_horizon_covered : forall I : inst, check_schedule I = true -> check_sup_present I = true -> forall (p : nat) (w : nat * Z), (p < i_nparts I)%nat -> Relation_Operators.clos_refl_trans (nat * Z) (dep I) (i_sup I, Z.of_nat p) w -> scheduled I w.
Proof. exact @horizon_covered. Qed.
Print Assumptions C07_horizon_covered.

(* the window of receiver step k computed by apply_window = the last `window` of (defaults ++ messages with valid seq_in <= k), oldest first, provided seq_in is non-decreasing along the edge array (invalid entries last) *)
Theorem C07_apply_window_spec : forall (I : inst) (c : nat), Sorted.StronglySorted Z.le (map si_of (nth c (i_edges I) nil)) -> win_model I c = map (fun v : vertex => lastn (k_win (conn I c)) (repeat (-1, 0, 0) (k_win (conn I c)) ++ map (entry_of I c) (filter (good (v_seq v)) (nth c (i_edges I) nil)))) (verts I (k_in (conn I c))).
Proof. exact @apply_window_spec. Qed.
Print Assumptions C07_apply_window_spec.

(* iterated pushes keep the most recent `window` entries *)
Theorem C07_window_is_lastn : forall (X : Type) (w0 : list X) (gs : list (list X)), fold_left push_all gs w0 = lastn (length w0) (w0 ++ concat gs).
Proof. exact @window_is_lastn. Qed.
Print Assumptions C07_window_is_lastn.

(* rex.utils.to_timings (model): if the partitioner's monomorphism satisfies the decidable contract check_mono (slot of the vertex's kind, vertex exists, (slot, partition) and vertex injective, previous step and every window producer mapped strictly earlier in (partition, generation) order, supervisor step k in partition k / last generation, one slot per kind and generation) then the schedule to_timings builds passes check_schedule - for every graph, window size, number of partitions and monomorphism *)
Theorem C07_to_timings_valid : forall (I : inst) (tmpl : list (nat * nat)) (M : list mentry), check_mono I tmpl M = true -> check_schedule (set_slots I (to_timings I tmpl M)) = true.
Proof. exact @to_timings_valid. Qed.
Print Assumptions C07_to_timings_valid.

(* ... and therefore satisfies ValidSchedule (every vertex once, in dependency order) *)
Theorem C07_to_timings_ValidSchedule : forall (I : inst) (tmpl : list (nat * nat)) (M : list mentry), check_mono I tmpl M = true -> ValidSchedule (set_slots I (to_timings I tmpl M)).
Proof. exact @to_timings_ValidSchedule. Qed.
Print Assumptions C07_to_timings_ValidSchedule.

(* exactly the mapped vertices inside the horizon run, each in the partition / generation it was mapped to, with its own seq, times and windows *)
Theorem C07_to_timings_run_cells : forall (I : inst) (tmpl : list (nat * nat)) (M : list mentry), check_mono I tmpl M = true -> forall (n : nat) (k : Z) (p g : nat) (c : cell), In (n, k, p, g, c) (run_cells (set_slots I (to_timings I tmpl M))) <-> (exists m : mentry, In m (MH I M) /\ n = m_kind m /\ k = m_seq m /\ p = m_part m /\ g = tgen tmpl (m_slot m) /\ c = filled_cell I n k).
Proof. exact @to_timings_run_cells. Qed.
Print Assumptions C07_to_timings_run_cells.

(* the cell of a mapped vertex carries that vertex (needs only injectivity on (slot, partition)) *)
Theorem C07_to_timings_mapped : forall (I : inst) (tmpl : list (nat * nat)) (M : list mentry) (m : mentry) (kind : nat), nodupb ps_eqb (MH I M) = true -> In m M -> inh I m = true -> (m_slot m < length tmpl)%nat -> tt_cell I M (m_slot m) kind (m_part m) = filled_cell I kind (m_seq m).
Proof. exact @to_timings_mapped. Qed.
Print Assumptions C07_to_timings_mapped.

(* a (slot, partition) no vertex is mapped to does not run and carries default windows *)
Theorem C07_to_timings_unmapped : forall (I : inst) (M : list mentry) (s kind p : nat), (forall m : mentry, In m M -> hits I s p m = false) -> tt_cell I M s kind p = empty_cell I kind.
Proof. exact @to_timings_unmapped. Qed.
Print Assumptions C07_to_timings_unmapped.

(* non-vacuity: a concrete two-node instance (sensor at twice the supervisor's rate, window 2, 3 partitions) whose monomorphism satisfies check_mono *)
Theorem C07_to_timings_example_contract : check_mono exI exT exM = true.
Proof. exact @ex_mono. Qed.
Print Assumptions C07_to_timings_example_contract.

(* ... and the theorem instantiated on it *)
Theorem C07_to_timings_example_valid : ValidSchedule (set_slots exI (to_timings exI exT exM)).
Proof. exact @ex_schedule_by_theorem. Qed.
Print Assumptions C07_to_timings_example_valid.

(* a monomorphism that maps a producer after its consumer is rejected by check_schedule (and by check_mono: ex_bad_mono) *)
Theorem C07_to_timings_example_bad : check_schedule (set_slots exI (to_timings exI exT exM')) = false.
Proof. exact @ex_bad_schedule. Qed.
Print Assumptions C07_to_timings_example_bad.

(* the remaining well-formedness facts the runner relies on (extra_ok: slot generations in range, the last generation holds supervisor slots only, the supervisor cell of every partition runs, kinds are nodes) follow for the schedule to_timings builds from decidable facts about the partitioner's template (tmpl_ok) and monomorphism (check_mono, sup_covered: a supervisor vertex mapped into every partition) *)
Theorem C07_to_timings_extra_ok : forall (I : inst) (tmpl : list (nat * nat)) (M : list mentry), check_mono I tmpl M = true -> tmpl_ok I tmpl = true -> sup_covered I M = true -> extra_ok (set_slots I (to_timings I tmpl M)) = true.
Proof. exact @to_timings_extra_ok. Qed.
Print Assumptions C07_to_timings_extra_ok.

(* both validators accept the schedule to_timings builds *)
Theorem C07_to_timings_schedule_and_extra : forall (I : inst) (tmpl : list (nat * nat)) (M : list mentry), check_mono I tmpl M = true -> tmpl_ok I tmpl = true -> sup_covered I M = true -> check_schedule (set_slots I (to_timings I tmpl M)) = true /\ extra_ok (set_slots I (to_timings I tmpl M)) = true.
Proof. exact @to_timings_schedule_and_extra. Qed.
Print Assumptions C07_to_timings_schedule_and_extra.

(* non-vacuity: the three hypotheses hold together on the two-node instance *)
Theorem C07_to_timings_extra_example : check_schedule (set_slots exI (to_timings exI exT exM)) = true /\ extra_ok (set_slots exI (to_timings exI exT exM)) = true.
Proof. exact @ex_extra_by_theorem. Qed.
Print Assumptions C07_to_timings_extra_example.

(* check_mono alone does not give extra_ok: with the supervisor vertex of the last partition unmapped check_mono and check_schedule still accept, sup_covered and extra_ok reject *)
Theorem C07_to_timings_extra_needs_sup_covered : check_mono exI exT exM_nosup = true /\ sup_covered exI exM_nosup = false /\ check_schedule (set_slots exI (to_timings exI exT exM_nosup)) = true /\ extra_ok (set_slots exI (to_timings exI exT exM_nosup)) = false.
Proof. exact @ex_nosup. Qed.
Print Assumptions C07_to_timings_extra_needs_sup_covered.

(* every window apply_window (win_model) computes is non-empty and canonical (an entry with a negative seq is exactly the default entry) when the connection's window is >= 1 and the recorded messages carry non-negative sequence numbers *)
Theorem C07_win_model_wcanon : forall (I : inst) (c : nat), (1 <= k_win (conn I c))%nat -> (forall e : edge, In e (nth c (i_edges I) nil) -> 0 <= e_out e) -> forall w : list wentry, In w (win_model I c) -> wcanon w = true.
Proof. exact @win_model_wcanon. Qed.
Print Assumptions C07_win_model_wcanon.

(* every cell the runner executes in the schedule to_timings builds runs and carries canonical windows (sched_ok), from check_mono, extra_ok and the window hypothesis *)
Theorem C07_to_timings_sched_ok : forall (I : inst) (tmpl : list (nat * nat)) (M : list mentry), check_mono I tmpl M = true -> (forall c : nat, In c (seq 0 (length (i_conns I))) -> (1 <= k_win (conn I c))%nat /\ (forall e : edge, In e (nth c (i_edges I) nil) -> 0 <= e_out e)) -> forall n : nat, extra_ok (set_slots I (to_timings I tmpl M)) = true -> (n <= i_nparts I)%nat -> sched_ok (set_slots I (to_timings I tmpl M)) 0 n = true.
Proof. exact @to_timings_sched_ok. Qed.
Print Assumptions C07_to_timings_sched_ok.

