(* C01 — compiled replay reproduces the recorded asynchronous execution step for step.  Statements only.
   Proof architecture: (1) the async trace satisfies the dataflow equations (AsyncLaws: rows_law, record_state_chain, msgs_law, window_is_lastn);
   (2) apply_window on the recorded graph yields the windows the async steps saw (apply_window_spec, under non-decreasing seq_in, which msgs_law provides);
   (3) the compiled run satisfies the dataflow equations whenever check_sym accepts the instance (runner_dataflow) - validated on every instance;
   (4) two traces that satisfy the dataflow equations for the same windowed graph, step function and initial rng/state agree on every vertex all of whose
   ancestors are covered (dataflow_unique).  (1)-(4) are composed into the closed statement C01_replay_reproduces_async (ReplayAsync.v): asynchronous half AsyncDataflow.async_solves_dataflow
   (every reachable state of the actor net), compiled half Replay.compiled_solves_dataflow + rank, uniqueness dataflow_unique_two.  Its hypotheses are decidable and are
   discharged per instance: check_replay by the extracted checker on every instance of the harness, same_graph ("to_graph + apply_window + partitioning deliver the
   recorded graph") by the replay comparison on the implementation (windows incl. seq/ts_sent/ts_recv of every executed row), supported by apply_window_spec,
   window_is_lastn and check_schedule_sound.  What stays outside Coq: that rex's own Python to_graph/apply_window/supergraph code establishes same_graph for EVERY record
   (it is validated, not proved), jit/XLA, floats off the lattice. *)
From Coq Require Import List Arith ZArith Bool.
From Rex Require Import KahnL AsyncModel2 AsyncStable ConflInv RexDet AsyncLaws AsyncLaws2 AsyncLaws3 AsyncLaws4 CompiledModel WindowSpec WindowPush RunnerSym CheckSym Dataflow Replay AsyncDataflow ReplayAsync ExportWindows ExportReplay BufferSufficient Capstone ToTimings ToTimingsLaws ToTimingsExtra Capstone2 Capstone3 SchedOk.
Open Scope Z_scope.

(* uniqueness of solutions of the dataflow equations: two traces over the same windowed graph, step function and initial values agree wherever both are defined *)
Theorem C01_dataflow_unique : forall (Val : Type) (f : nat -> Z -> Z -> Val -> list (list (Z * Z * Z * Val)) -> Val) (vinit vdef : nat -> Val) (ts_of : nat -> Z -> Z) (wins_of : nat -> Z -> list (nat * list (Z * Z * Z))) (rank : nat -> Z -> nat), (forall (n : nat) (k : Z), 0 < k -> (rank n (k - 1)%Z < rank n k)%nat) -> (forall (n : nat) (k : Z) (m : nat) (w : list (Z * Z * Z)) (s a b : Z), In (m, w) (wins_of n k) -> In (s, a, b) w -> 0 <= s -> (rank m s < rank n k)%nat) -> forall T1 T2 : trace Val, (forall (n : nat) (k : Z), eq_at Val f vinit vdef ts_of wins_of T1 n k) -> (forall (n : nat) (k : Z), eq_at Val f vinit vdef ts_of wins_of T2 n k) -> (forall (n : nat) (k : Z) (x : Val * Val), T1 n k = Some x -> 0 <= k) -> forall (n : nat) (k : Z) (x1 x2 : Val * Val), T1 n k = Some x1 -> T2 n k = Some x2 -> x1 = x2.
Proof. exact @dataflow_unique. Qed.
Print Assumptions C01_dataflow_unique.

(* the compiled run satisfies the dataflow equations when check_sym accepts the instance *)
Theorem C01_runner_dataflow : forall (I : inst) (sizes : list Z) (Val : Type) (f : nat -> Z -> Z -> Val -> list (list (Z * Z * Z * Val)) -> Val) (vi vd : nat -> Val) (p0 n : nat), check_sym I sizes p0 n = true -> forall r : row Val, In r (real_log I sizes Val f vi vd p0 n) -> w_out Val r = f (w_node Val r) (w_seq Val r) (w_ts Val r) (w_st Val r) (w_in Val r) /\ (if w_seq Val r =? 0 then w_st Val r = vi (w_node Val r) else produced Val (real_log I sizes Val f vi vd p0 n) (w_node Val r) (w_seq Val r - 1) (w_st Val r)) /\ (forall w : list (Z * Z * Z * Val), In w (w_in Val r) -> exists m : nat, forall (s a b : Z) (x : Val), In (s, a, b, x) w -> if s <? 0 then x = vd m else produced Val (real_log I sizes Val f vi vd p0 n) m s x).
Proof. exact @runner_dataflow. Qed.
Print Assumptions C01_runner_dataflow.

(* apply_window yields the last `window` consumed messages up to each step *)
Theorem C01_apply_window_spec : forall (I : inst) (c : nat), Sorted.StronglySorted Z.le (map si_of (nth c (i_edges I) nil)) -> win_model I c = map (fun v : vertex => lastn (k_win (conn I c)) (repeat (-1, 0, 0) (k_win (conn I c)) ++ map (entry_of I c) (filter (good (v_seq v)) (nth c (i_edges I) nil)))) (verts I (k_in (conn I c))).
Proof. exact @apply_window_spec. Qed.
Print Assumptions C01_apply_window_spec.

(* async row k is built from the k-th start token, the state before and the windows after the k-th groups *)
Theorem C01_async_rows_law : forall (G : cfg) (s : state) (n k : nat), reach G s -> (n < NN G)%nat -> (k < length (rows_of s n))%nat -> nth_error (rows_of s n) k = row_of G (hfun tok local s) n k.
Proof. exact @rows_law. Qed.
Print Assumptions C01_async_rows_law.

(* async state chain *)
Theorem C01_async_state_chain : forall (G : cfg) (s : state) (n k : nat) (r r' : AsyncModel2.row), reach G s -> (n < NN G)%nat -> nth_error (rows_of s n) k = Some r -> nth_error (rows_of s n) (S k) = Some r' -> r_state r' = r_out r.
Proof. exact @record_state_chain. Qed.
Print Assumptions C01_async_state_chain.

(* async windows = last n consumed *)
Theorem C01_async_window_is_lastn : forall (X : Type) (w0 : list X) (gs : list (list X)), fold_left push_all gs w0 = lastn (length w0) (w0 ++ concat gs).
Proof. exact @window_is_lastn. Qed.
Print Assumptions C01_async_window_is_lastn.
(* CLOSED composition of (3)+(4): when check_replay accepts the instance and ring sizes (check_sym + no vertex executed twice), ANY execution T of the windowed graph the compiled run executes (timestamps ts_c, windows wins_c read off the value-independent symbolic log) with the same step function, initial states and default outputs - the recorded asynchronous execution is one by (1)+(2) - has, on every vertex both define, the same state-before and the same output as the compiled replay T_c *)
Theorem C01_replay_unique : forall (I : inst) (sizes : list Z) (Val : Type) (f : nat -> Z -> Z -> Val -> list (list (Z * Z * Z * Val)) -> Val) (vi vd : nat -> Val) (p0 np : nat), check_replay I sizes p0 np = true -> forall T : trace Val, (forall (n : nat) (k : Z), eq_at Val f vi vd (ts_c I sizes p0 np) (wins_c I sizes p0 np) T n k) -> (forall (n : nat) (k : Z) (x : Val * Val), T n k = Some x -> 0 <= k) -> forall (n : nat) (k : Z) (x1 x2 : Val * Val), T n k = Some x1 -> T_c I sizes Val f vi vd p0 np n k = Some x2 -> x1 = x2.
Proof. exact @replay_unique. Qed.
Print Assumptions C01_replay_unique.

(* the compiled trace satisfies the dataflow equations of the graph it executes (every row's state is the initial state or the previous step's output, every window entry is the scheduled producer's output or the default) *)
Theorem C01_compiled_solves_dataflow : forall (I : inst) (sizes : list Z) (Val : Type) (f : nat -> Z -> Z -> Val -> list (list (Z * Z * Z * Val)) -> Val) (vi vd : nat -> Val) (p0 np : nat), check_replay I sizes p0 np = true -> forall (n : nat) (k : Z), eq_at Val f vi vd (ts_c I sizes p0 np) (wins_c I sizes p0 np) (T_c I sizes Val f vi vd p0 np) n k.
Proof. exact @compiled_solves_dataflow. Qed.
Print Assumptions C01_compiled_solves_dataflow.

(* non-vacuity: a concrete two-node, three-partition instance passes check_replay and check_schedule *)
Theorem C01_check_replay_satisfiable : check_replay ex_inst (2 :: 1 :: nil) 0 3 = true /\ check_schedule ex_inst = true.
Proof. exact @ex_check_replay. Qed.
Print Assumptions C01_check_replay_satisfiable.

(* non-vacuity: on that instance the probe replay defines supervisor vertex 2 and its window holds producer outputs 1 and 2 *)
Theorem C01_replay_defined_somewhere : T_c ex_inst (2 :: 1 :: nil) Z probe (fun n : nat => 1 + nid ex_inst n) (fun n : nat => 3 + nid ex_inst n) 0 3 1%nat 2 <> None /\ wins_c ex_inst (2 :: 1 :: nil) 0 3 1 2 = (0%nat, (1, 74, 76) :: (2, 138, 140) :: nil) :: nil.
Proof. exact @ex_replay_defined. Qed.
Print Assumptions C01_replay_defined_somewhere.
(* C01 CLOSED END TO END on the models: for every asynchronous system G, every reachable state s of its actor net (every recorded prefix, under every thread schedule), every compiled instance I, ring sizes and partition range: if check_replay accepts (i), the compiled graph is the recorded graph on the vertices the replay executes (ii: same_graph, decidable by same_graphb) and the node ids agree (iii), then on every vertex both executed the compiled replay has the same state-before and the same output as the recorded asynchronous step *)
Theorem C01_replay_reproduces_async : forall (G : cfg) (s : state) (I : inst) (sizes : list Z) (p0 np : nat), reach G s -> check_replay I sizes p0 np = true -> same_graph G s I sizes p0 np -> (forall n : nat, n_nid (node G n) = nid I n) -> forall (n : nat) (k : Z) (x1 x2 : Z * Z), T_a G s n k = Some x1 -> Tc I sizes p0 np n k = Some x2 -> x1 = x2.
Proof. exact @replay_reproduces_async. Qed.
Print Assumptions C01_replay_reproduces_async.

(* the asynchronous half: in every reachable state the recorded rows satisfy the dataflow equations of the windowed graph read off the record (state chain; output = step function of seq, start, state, windows; every window entry is the default or the output of the sender's recorded row of that seq) *)
Theorem C01_async_solves_dataflow : forall (G : cfg) (s : state), reach G s -> forall (n : nat) (k : Z), (n < NN G)%nat -> eq_at Z fA (viA G) (vdA G) (ts_a G s) (wins_a G s) (T_a G s) n k.
Proof. exact @async_solves_dataflow. Qed.
Print Assumptions C01_async_solves_dataflow.

(* hypothesis (ii) is decidable *)
Theorem C01_same_graph_decidable : forall (G : cfg) (s : state) (I : inst) (sizes : list Z) (p0 np : nat), same_graphb G s I sizes p0 np = true -> same_graph G s I sizes p0 np.
Proof. exact @same_graphb_sound. Qed.
Print Assumptions C01_same_graph_decidable.

(* non-vacuity: the compiled instance of the recorded two-node execution satisfies (i), (ii) and check_schedule *)
Theorem C01_end_to_end_hypotheses_satisfiable : check_replay e2_inst (2 :: 1 :: nil) 0 3 = true /\ same_graphb exG exS e2_inst (2 :: 1 :: nil) 0 3 = true /\ check_schedule e2_inst = true.
Proof. exact @e2_hyps. Qed.
Print Assumptions C01_end_to_end_hypotheses_satisfiable.

(* the theorem applied to that instance *)
Theorem C01_end_to_end_instance : forall x1 x2 : Z * Z, T_a exG exS 1%nat 2 = Some x1 -> Tc e2_inst (2 :: 1 :: nil) 0 3 1%nat 2 = Some x2 -> x1 = x2.
Proof. exact @e2_agree. Qed.
Print Assumptions C01_end_to_end_instance.

(* both executions define the vertex (node 1, seq 2) there *)
Theorem C01_end_to_end_defined : T_a exG exS 1%nat 2 = Some (1943, 17693) /\ Tc e2_inst (2 :: 1 :: nil) 0 3 1%nat 2 = Some (1943, 17693).
Proof. exact @e2_defined. Qed.
Print Assumptions C01_end_to_end_defined.
(* C01 with the record->graph conversion and apply_window INSIDE the theorem: for every asynchronous system G, every reachable state s (recorded prefix, any schedule), the compiled instance I := export G s slots .. (vertices/edges = the record, windows = win_model = apply_window) and ANY slots (the external partitioner's output) that pass the three decidable checks check_schedule, check_replay, sched_ok: the compiled replay and the recorded asynchronous execution agree (state before, output) on every vertex both executed *)
Theorem C01_replay_reproduces_async_export : forall (G : cfg) (s : state) (slots : list slot) (ngen nparts sup : nat) (sizes : list Z) (p0 np : nat), let I := export G s slots ngen nparts sup in reach G s -> check_schedule I = true -> check_replay I sizes p0 np = true -> sched_ok I p0 np = true -> forall (n : nat) (k : Z) (x1 x2 : Z * Z), T_a G s n k = Some x1 -> Tc I sizes p0 np n k = Some x2 -> x1 = x2.
Proof. exact @replay_reproduces_async_export. Qed.
Print Assumptions C01_replay_reproduces_async_export.

(* apply_window of the exported record yields, for receiver step k, exactly the window (seq, ts_sent, ts_recv per entry) the asynchronous step k saw on that connection *)
Theorem C01_export_same_windows : forall (G : cfg) (s : state) (slots : list slot) (ngen nparts sup c n i k : nat) (r : AsyncModel2.row), reach G s -> nth_error (ins G n) i = Some c -> nth_error (rows_of s n) k = Some r -> nth k (win_model (export G s slots ngen nparts sup) c) nil = strip3 (nth i (r_wins r) nil).
Proof. exact @export_same_windows. Qed.
Print Assumptions C01_export_same_windows.

(* hypothesis (ii) of C01_replay_reproduces_async discharged for the exported record from checks on the schedule only *)
Theorem C01_export_same_graph : forall (G : cfg) (s : state) (slots : list slot) (ngen nparts sup : nat) (sizes : list Z) (p0 np : nat), let I := export G s slots ngen nparts sup in reach G s -> check_schedule I = true -> check_replay I sizes p0 np = true -> sched_ok I p0 np = true -> same_graph G s I sizes p0 np.
Proof. exact @export_same_graph. Qed.
Print Assumptions C01_export_same_graph.

(* non-vacuity *)
Theorem C01_export_hypotheses_satisfiable : check_schedule ex_I = true /\ check_replay ex_I (2 :: 1 :: nil) 0 3 = true /\ sched_ok ex_I 0 3 = true.
Proof. exact @ex_export_hyps. Qed.
Print Assumptions C01_export_hypotheses_satisfiable.

(* the theorem applied to the exported two-node execution *)
Theorem C01_export_instance : forall x1 x2 : Z * Z, T_a exG exS 1%nat 2 = Some x1 -> Tc ex_I (2 :: 1 :: nil) 0 3 1%nat 2 = Some x2 -> x1 = x2.
Proof. exact @ex_export_agree. Qed.
Print Assumptions C01_export_instance.

(* both executions define the vertex (1,2) there and the compiled window holds producer outputs 1 and 2 *)
Theorem C01_export_defined : T_a exG exS 1%nat 2 = Some (1943, 17693) /\ Tc ex_I (2 :: 1 :: nil) 0 3 1%nat 2 = Some (1943, 17693) /\ wins_c ex_I (2 :: 1 :: nil) 0 3 1 2 = (0%nat, (1, 12, 13) :: (2, 22, 23) :: nil) :: nil.
Proof. exact @ex_export_defined. Qed.
Print Assumptions C01_export_defined.
(* CAPSTONE (C01 + C07 + C08 in one closed statement on the models): for every asynchronous system G, every recorded prefix s (any thread schedule), EVERY schedule (slots) of the exported graph that passes the three decidable schedule checks check_schedule / extra_ok / sched_ok - this is what the external supergraph partitioner must deliver and what the extracted checkers validate on rex's Timings per instance - and ring buffers of at least the computed sizes buffer_need (= Timings.get_buffer_sizes), a compiled rollout from step 0 over any horizon n <= nparts reproduces the recorded execution: same state before and same output on every vertex both executed *)
Theorem C01_compiled_replay_reproduces_recording : forall (G : cfg) (s : state) (slots : list slot) (ngen nparts sup : nat) (sizes : list Z) (n : nat), let I := export G s slots ngen nparts sup in reach G s -> check_schedule I = true -> extra_ok I = true -> sched_ok I 0 n = true -> (forall c : nat, (c < length (i_conns I))%nat -> buffer_need I c <= size_of sizes (k_out (conn I c))) -> (n <= nparts)%nat -> forall (m : nat) (k : Z) (x1 x2 : Z * Z), T_a G s m k = Some x1 -> Tc I sizes 0 n m k = Some x2 -> x1 = x2.
Proof. exact @compiled_replay_reproduces_recording. Qed.
Print Assumptions C01_compiled_replay_reproduces_recording.

(* under a valid schedule and sufficient rings the certified checker check_replay always accepts (no vertex executed twice; every read returns the scheduled producer's payload) *)
Theorem C01_valid_schedule_check_replay : forall (I : inst) (sizes : list Z) (n : nat), check_schedule I = true -> extra_ok I = true -> (forall c : nat, (c < length (i_conns I))%nat -> buffer_need I c <= size_of sizes (k_out (conn I c))) -> (n <= i_nparts I)%nat -> check_replay I sizes 0 n = true.
Proof. exact @valid_schedule_check_replay. Qed.
Print Assumptions C01_valid_schedule_check_replay.

(* non-vacuity *)
Theorem C01_capstone_hypotheses_satisfiable : check_schedule ex_I = true /\ extra_ok ex_I = true /\ sched_ok ex_I 0 3 = true /\ buffer_need ex_I 0 = 2 /\ size_of (2 :: 1 :: nil) (k_out (conn ex_I 0)) = 2 /\ length (i_conns ex_I) = 1%nat.
Proof. exact @ex_capstone_hyps. Qed.
Print Assumptions C01_capstone_hypotheses_satisfiable.

(* the capstone applied to the exported two-node execution *)
Theorem C01_capstone_instance : forall x1 x2 : Z * Z, T_a exG exS 1%nat 2 = Some x1 -> Tc ex_I (2 :: 1 :: nil) 0 3 1%nat 2 = Some x2 -> x1 = x2.
Proof. exact @ex_capstone. Qed.
Print Assumptions C01_capstone_instance.

(* CAPSTONE, one step further (C01 + C07 + C08): the schedule is what rex.utils.to_timings (model ToTimings.v) builds from the partitioner's monomorphism M; check_schedule is no longer a hypothesis but derived from the decidable partitioner contract check_mono (ToTimingsLaws.to_timings_valid). Remaining hypotheses: reach (any recorded prefix under any thread schedule), check_mono, extra_ok, sched_ok, ring sizes >= buffer_need, n <= nparts *)
Theorem C01_compiled_replay_from_partitioner : forall (G : cfg) (s : state) (tmpl : list (nat * nat)) (M : list mentry) (ngen nparts sup : nat) (sizes : list Z) (n : nat), let I0 := export G s nil ngen nparts sup in let I := export G s (to_timings I0 tmpl M) ngen nparts sup in reach G s -> check_mono I0 tmpl M = true -> extra_ok I = true -> sched_ok I 0 n = true -> (forall c : nat, (c < length (i_conns I))%nat -> buffer_need I c <= size_of sizes (k_out (conn I c))) -> (n <= nparts)%nat -> forall (m : nat) (k : Z) (x1 x2 : Z * Z), T_a G s m k = Some x1 -> Tc I sizes 0 n m k = Some x2 -> x1 = x2.
Proof. exact @compiled_replay_from_partitioner. Qed.
Print Assumptions C01_compiled_replay_from_partitioner.

(* non-vacuity: the monomorphism read back from the two-node example's schedule satisfies check_mono, to_timings rebuilds that schedule (slots_eqb) and the other hypotheses hold *)
Theorem C01_compiled_replay_from_partitioner_hyps : check_mono ex_I0 ex_tmpl ex_M = true /\ length ex_M = 6%nat /\ (let I := export exG exS (to_timings ex_I0 ex_tmpl ex_M) 2 3 1 in extra_ok I = true /\ sched_ok I 0 3 = true /\ buffer_need I 0 = 2 /\ length (i_conns I) = 1%nat /\ slots_eqb (i_slots I) (i_slots ex_I) = true).
Proof. exact @ex2_hyps. Qed.
Print Assumptions C01_compiled_replay_from_partitioner_hyps.

(* ... and the theorem instantiated on it *)
Theorem C01_compiled_replay_from_partitioner_example : forall x1 x2 : Z * Z, T_a exG exS 1%nat 2 = Some x1 -> Tc (export exG exS (to_timings ex_I0 ex_tmpl ex_M) 2 3 1) (2 :: 1 :: nil) 0 3 1%nat 2 = Some x2 -> x1 = x2.
Proof. exact @ex2_capstone. Qed.
Print Assumptions C01_compiled_replay_from_partitioner_example.

(* the same with extra_ok derived too (ToTimingsExtra.to_timings_extra_ok): what is assumed about the partitioner is the decidable contract check_mono + tmpl_ok + sup_covered (evaluated on every instance: CHECKMONO / TMPLOK / SUPCOV), plus canonical windows of the executed cells (sched_ok) and ring sizes >= buffer_need *)
Theorem C01_compiled_replay_from_partitioner_contract : forall (G : cfg) (s : state) (tmpl : list (nat * nat)) (M : list mentry) (ngen nparts sup : nat) (sizes : list Z) (n : nat), let I0 := export G s nil ngen nparts sup in let I := export G s (to_timings I0 tmpl M) ngen nparts sup in reach G s -> check_mono I0 tmpl M = true -> tmpl_ok I0 tmpl = true -> sup_covered I0 M = true -> sched_ok I 0 n = true -> (forall c : nat, (c < length (i_conns I))%nat -> buffer_need I c <= size_of sizes (k_out (conn I c))) -> (n <= nparts)%nat -> forall (m : nat) (k : Z) (x1 x2 : Z * Z), T_a G s m k = Some x1 -> Tc I sizes 0 n m k = Some x2 -> x1 = x2.
Proof. exact @compiled_replay_from_partitioner_contract. Qed.
Print Assumptions C01_compiled_replay_from_partitioner_contract.

(* non-vacuity of the partitioner contract on the two-node example *)
Theorem C01_compiled_replay_from_partitioner_contract_hyps : check_mono ex_I0 ex_tmpl ex_M = true /\ tmpl_ok ex_I0 ex_tmpl = true /\ sup_covered ex_I0 ex_M = true.
Proof. exact @ex3_hyps. Qed.
Print Assumptions C01_compiled_replay_from_partitioner_contract_hyps.

(* FINAL CAPSTONE (C01 + C07 + C08 on the models): for every asynchronous system G whose connections have window >= 1, every recorded prefix s (any thread schedule), every partitioner template and monomorphism satisfying the decidable contract check_mono /\ tmpl_ok /\ sup_covered, ring sizes >= buffer_need and n <= nparts: the compiled rollout of the schedule rex.utils.to_timings builds (model) and the recorded asynchronous execution agree (state before, output) on every vertex both executed. check_schedule, extra_ok, sched_ok and check_replay are all DERIVED *)
Theorem C01_compiled_replay_closed : forall (G : cfg) (s : state) (tmpl : list (nat * nat)) (M : list mentry) (ngen nparts sup : nat) (sizes : list Z) (n : nat), let I0 := export G s nil ngen nparts sup in let I := export G s (to_timings I0 tmpl M) ngen nparts sup in reach G s -> check_mono I0 tmpl M = true -> tmpl_ok I0 tmpl = true -> sup_covered I0 M = true -> (forall cn : conn_cfg, In cn (conns G) -> (1 <= c_window cn)%nat) -> (forall c : nat, (c < length (i_conns I))%nat -> buffer_need I c <= size_of sizes (k_out (conn I c))) -> (n <= nparts)%nat -> forall (m : nat) (k : Z) (x1 x2 : Z * Z), T_a G s m k = Some x1 -> Tc I sizes 0 n m k = Some x2 -> x1 = x2.
Proof. exact @compiled_replay_closed. Qed.
Print Assumptions C01_compiled_replay_closed.

(* non-vacuity: the theorem instantiated on the recorded two-node execution (all hypotheses jointly satisfiable) *)
Theorem C01_compiled_replay_closed_example : forall x1 x2 : Z * Z, T_a exG exS 1%nat 2 = Some x1 -> Tc (export exG exS (to_timings ex_I0 ex_tmpl ex_M) 2 3 1) (2 :: 1 :: nil) 0 3 1%nat 2 = Some x2 -> x1 = x2.
Proof. exact @ex4_capstone. Qed.
Print Assumptions C01_compiled_replay_closed_example.

