(* C20 — The exported policy computes the same action as the trained actor.  Statements only; proofs live in PolicyLaws.v.
   Carrier-generic: A is any type with an operation record (R for the laws, Q in the correspondence runs); the scalar
   activations sigma, tanh, sqrt, exp and the normal draw of the PRNG are arbitrary. *)
From Coq Require Import Reals List ZArith QArith Qminmax Bool Permutation Lia.
From Rex Require Import Ops Policy PolicyLaws.
Import ListNotations.

Section Generic.
Context {A : Type} (O : ops A) (sigma : afn -> A -> A) (ftanh fsqrt fexp : A -> A) (Rng : Type) (normal : Rng -> nat -> list A).

(* clause 1a: the activation table of Policy.apply_actor is the Actor's if/elif chain, for every name (also the unknown ones) *)
Theorem C20_tables_agree n : policy_table n = actor_table n.
Proof. exact (tables_agree n). Qed.

(* clause 1b: for every depth `hidden`, all widths and weights, every activation name and every input, apply_actor without an
   rng returns the mean of the Gaussian the flax Actor defines (and fails exactly when the Actor fails); the parameter dict may
   be in any order *)
Theorem C20_policy_mean_eq_actor_mean (p : @params A) hidden n x :
  wf_params p hidden -> policy_mean O sigma p n x = actor_mean O sigma hidden p n x.
Proof. exact (policy_mean_eq_actor_mean O sigma p hidden n x). Qed.

Theorem C20_num_layers (p : @params A) hidden : wf_params p hidden -> num_layers p = S hidden.
Proof. exact (wf_num_layers p hidden). Qed.

Theorem C20_layer_order (p p' : @params A) n x : NoDup (map fst p) -> Permutation p p' ->
  policy_mean O sigma p' n x = policy_mean O sigma p n x /\ get_logstd p' = get_logstd p.
Proof. exact (layer_order O sigma p p' n x). Qed.

(* clause 3: with an rng the policy samples from the Gaussian of the actor: same location, same exp(log_std) scale, hence the
   same sample for the same key *)
Theorem C20_sample_same_gaussian (p : @params A) hidden n x :
  wf_params p hidden -> policy_dist O sigma fexp p n x = actor_dist O sigma fexp hidden p n x.
Proof. exact (policy_dist_eq_actor_dist O sigma fexp p hidden n x). Qed.
Theorem C20_gaussian_scale (p : @params A) hidden n x g ls :
  actor_dist O sigma fexp hidden p n x = Some g -> get_logstd p = Some ls ->
  scale g = map fexp ls /\ actor_mean O sigma hidden p n x = Some (loc g).
Proof. exact (dist_scale_is_exp_log_std O sigma fexp p hidden n x g ls). Qed.

(* clause 2 (and 3, rng = Some k): for every raw observation, get_action of the policy exported from a training result is the
   action the trainer hands to its environments for that observation: normalisation with clip and mean subtraction by the
   final statistics (absent iff NORMALIZE_ENV is off), the actor network, then squash-and-rescale or clip *)
Theorem C20_get_action_eq_train (r : @result A) e obs rng :
  wf_params (r_params r) (r_hidden r) ->
  (forall v, r_act_scaling r = Some v -> uniform_rows v /\ e < length (v_low v) /\ e < length (v_high v))%nat ->
  get_action O sigma ftanh fsqrt fexp Rng normal (export r) obs rng = train_action O sigma ftanh fsqrt fexp Rng normal r e obs rng.
Proof. exact (get_action_eq_train_all_envs O sigma ftanh fsqrt fexp Rng normal r e obs rng). Qed.
Theorem C20_get_action_eq_train_env0 (r : @result A) obs rng :
  wf_params (r_params r) (r_hidden r) ->
  get_action O sigma ftanh fsqrt fexp Rng normal (export r) obs rng = train_action O sigma ftanh fsqrt fexp Rng normal r 0 obs rng.
Proof. exact (get_action_eq_train_env0 O sigma ftanh fsqrt fexp Rng normal r obs rng). Qed.
End Generic.
Print Assumptions C20_policy_mean_eq_actor_mean.
Print Assumptions C20_layer_order.
Print Assumptions C20_sample_same_gaussian.
Print Assumptions C20_get_action_eq_train.

(* observations far outside the training range: the network input stays in [-clip, clip], the action in the action space *)
Open Scope R_scope.
Theorem C20_normalized_obs_bounded (fsqrt : R -> R) sm c m v x : 0 <= c -> - c <= normalize1 Rops fsqrt true sm c m v x <= c.
Proof. exact (normalize1_bounded fsqrt sm c m v x). Qed.
Theorem C20_squashed_action_in_range lo hi x : lo < hi -> lo < unsquash1 Rops tanh true lo hi x < hi.
Proof. exact (unsquash1_squash_in_range lo hi x). Qed.
Theorem C20_clipped_action_in_range (ft : R -> R) lo hi x : lo <= hi -> lo <= unsquash1 Rops ft false lo hi x <= hi.
Proof. exact (unsquash1_clip_in_range ft lo hi x). Qed.
Theorem C20_clip_identity_on_legal_actions (ft : R -> R) lo hi x : lo <= x <= hi -> unsquash1 Rops ft false lo hi x = x.
Proof. exact (unsquash1_clip_id ft lo hi x). Qed.
Print Assumptions C20_normalized_obs_bounded.
Print Assumptions C20_squashed_action_in_range.
Close Scope R_scope.

(* non-vacuity: a depth-2 relu network over Q whose parameter dict is out of order (log_std first, Dense_2 before Dense_0),
   with observation normalisation and clipping: well-formed, and the exported policy / the trainer's path both evaluate to the
   same concrete action *)
Definition ex_sigma (f : afn) (x : Q) : Q := match f with FRelu => Qmax 0 x | _ => x end.
Definition ex_params : @params Q :=
  [ (KLogStd, EVec [0; 0]);
    (KDense 2, ELayer {| kernel := [[1; -1]; [1 # 2; 2]]; bias := [1 # 4; 0] |});
    (KDense 0, ELayer {| kernel := [[1; -1]; [2; 1 # 2]; [0; 1]]; bias := [0; 1] |});
    (KDense 1, ELayer {| kernel := [[1; 1]; [-1; 1]]; bias := [1 # 2; -3] |}) ].
Definition ex_result : @result Q :=
  {| r_hidden := 2; r_actname := NRelu; r_params := ex_params;
     r_norm_obs := Some {| n_mean := [1; 0; -1]; n_var := [4; 4; 4]; n_clip := 10 |};
     r_act_scaling := Some {| v_low := [[-2; 0]; [-2; 0]]; v_high := [[3; 1]; [3; 1]]; v_squash := false |} |}.
Example C20_wf_nonvacuous : wf_params ex_params 2.
Proof.
  split.
  - simpl. repeat constructor; simpl; intuition discriminate.
  - intros i. simpl. split.
    + intros [<-|[<-|[<-|[]]]]; repeat constructor.
    + intros H. destruct i as [|[|[|i]]]; auto. lia.
Qed.
Example C20_uniform_nonvacuous : forall v, r_act_scaling ex_result = Some v -> uniform_rows v /\ (1 < length (v_low v))%nat /\ (1 < length (v_high v))%nat.
Proof.
  intros v H. injection H as <-. simpl. repeat split; auto; intros [|[|e]] He; try reflexivity; simpl in He; lia.
Qed.
Example C20_concrete_action :
  let ga := get_action Qops ex_sigma (fun x => x) (fun _ => 2) (fun x => x) unit (fun _ _ => []) (export ex_result) [3; 100; -1] None in
  let ta := train_action Qops ex_sigma (fun x => x) (fun _ => 2) (fun x => x) unit (fun _ _ => []) ex_result 1 [3; 100; -1] None in
  option_map (map Qred) ga = Some [3; 1] /\ option_map (map Qred) ta = Some [3; 1].
Proof. vm_compute. split; reflexivity. Qed.
