(* C06 — every scheduled step executes the step function exactly once.  Statements only. *)
From Coq Require Import List Arith ZArith Bool.
From Rex Require Import KahnL AsyncModel2 AsyncStable ConflInv RexDet AsyncLaws AsyncLaws2 AsyncLaws3 AsyncLaws4.
Import ListNotations.

(* threaded runtime: in every reachable state of the actor net (every schedule, every prefix of an episode) the ghost log
   of step-function applications of node n is exactly the list of recorded ticks, and row k is tick k: each recorded
   tick was executed exactly once, with its own sequence number, and nothing else was executed *)
Theorem C06_async_once : forall (G : cfg) (s : state) (n : nat), reach G s -> (n < NN G)%nat ->
  l_calls (nth (AStep n) (loc tok local s) l0) = map r_seq (rows_of s n) /\
  (forall (k : nat) (r : row), nth_error (rows_of s n) k = Some r -> r_seq r = k).
Proof. exact async_once. Qed.
Print Assumptions C06_async_once.
