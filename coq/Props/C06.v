(* C06 — every scheduled step executes the step function exactly once.  Statements only.
   Threaded runtime: ghost log of step-function applications on the actor net.  Compiled runtime: the log of the generation-ordered runner. *)
From Coq Require Import List Arith ZArith Bool.
From Rex Require Import KahnL AsyncModel2 AsyncStable ConflInv RexDet AsyncLaws AsyncLaws2 AsyncLaws3 AsyncLaws4 CompiledModel ScheduleSpec ScheduleCover CompiledOnce.
Import ListNotations.

(* threaded runtime: in every reachable state (every schedule, every prefix of an episode) the log of step-function applications of node n is exactly the list of recorded ticks, and row k is tick k *)
Theorem C06_async_once : forall (G : cfg) (s : state) (n : nat), reach G s -> (n < NN G)%nat -> l_calls (nth (AStep n) (loc tok local s) l0) = map r_seq (rows_of s n) /\ (forall (k : nat) (r : AsyncModel2.row), nth_error (rows_of s n) k = Some r -> r_seq r = k).
Proof. exact @async_once. Qed.
Print Assumptions C06_async_once.

(* compiled runtime: the applications of the step function during a rollout over partitions p0..p0+n-1 are, in order, exactly the scheduled (unmasked) cells of those partitions, each with its own sequence number *)
Theorem C06_compiled_once : forall (I : inst) (Val : Type) (f : nat -> Z -> Z -> Val -> list (list (Z * Z * Z * Val)) -> Val) (vi vd : nat -> Val) (sizes : list Z) (p0 n : nat), map (row_key Val) (r_log Val (rollout I Val f vi vd sizes p0 n)) = map todo_key (concat (flat_map (phases_of I) (seq p0 n))).
Proof. exact @compiled_once. Qed.
Print Assumptions C06_compiled_once.

(* a masked slot (run = false) contributes no application *)
Theorem C06_masked_slots_execute_nothing : forall (I : inst) (p g : nat) (nc : nat * cell), In nc (gen_todo I p g) -> c_run (snd nc) = true.
Proof. exact @masked_slots_execute_nothing. Qed.
Print Assumptions C06_masked_slots_execute_nothing.

(* and in a valid schedule no (node, seq) occurs twice, so every scheduled vertex is executed exactly once *)
Theorem C06_scheduled_once : forall I : inst, ValidSchedule I -> forall (n : nat) (k : Z) (p g : nat) (c : cell) (p' g' : nat) (c' : cell), In (n, k, p, g, c) (run_cells I) -> In (n, k, p', g', c') (run_cells I) -> (p, g, c) = (p', g', c').
Proof. exact @scheduled_once. Qed.
Print Assumptions C06_scheduled_once.

