(* C16 — Node phases and node infos stay consistent with the configured delays.
   Statements only; proofs live in PhaseLaws.v and NodeCfgLaws.v.  Times are integer ticks, node names integers,
   delay distributions an arbitrary type D.  `v_ok` is the source variant without the known defects; which variant the
   current source is, is decided on every run by Ties/NodeKernelsTie.v (src_variant). *)
From Coq Require Import List ZArith Bool.
From Rex Require Import Phase PhaseLaws NodeCfg NodeCfgLaws.
Import ListNotations.
Open Scope Z_scope.

(* ---- clause 1: phase = longest expected-delay path over non-skipped connections; 0 for sources ---- *)
(* whenever the phase computation returns p (at any recursion depth): every path into n weighs <= p, and p is a path *)
Theorem C16_phase_longest_path (inputs : Z -> list inp) (ndelay : Z -> Z) fuel n p : phase inputs ndelay fuel n = Some p ->
  (forall w, path inputs ndelay n w -> w <= p) /\ path inputs ndelay n p.
Proof. exact (phase_longest_path inputs ndelay fuel n p). Qed.
Print Assumptions C16_phase_longest_path.
Theorem C16_phase_fuel_irrelevant (inputs : Z -> list inp) (ndelay : Z -> Z) f1 f2 n p1 p2 :
  phase inputs ndelay f1 n = Some p1 -> phase inputs ndelay f2 n = Some p2 -> p1 = p2.
Proof. exact (phase_fuel_irrelevant inputs ndelay f1 f2 n p1 p2). Qed.
Theorem C16_phase_source (inputs : Z -> list inp) (ndelay : Z -> Z) fuel n :
  (forall i, In i (inputs n) -> i_skip i = true) -> phase inputs ndelay (S fuel) n = Some 0.
Proof. exact (phase_source inputs ndelay fuel n). Qed.
Theorem C16_phase_ge_pred (inputs : Z -> list inp) (ndelay : Z -> Z) fuel n p i :
  phase inputs ndelay (S fuel) n = Some p -> In i (inputs n) -> i_skip i = false ->
  exists q, phase inputs ndelay fuel (i_out i) = Some q /\ q + ndelay (i_out i) + i_delay i <= p.
Proof. exact (phase_ge_pred inputs ndelay fuel n p i). Qed.
(* the same for the phases of a configuration (node.phase of every node of a graph) *)
Theorem C16_gphase_longest_path D (g : graph D) n p : gphase g n = Some p ->
  (forall w, path (g_inputs D g) (g_ndelay D g) n w -> w <= p) /\ path (g_inputs D g) (g_ndelay D g) n p.
Proof. exact (gphase_longest_path D g n p). Qed.

(* ---- clause 2: an un-skipped cycle (on or upstream of the node) is reported, and nothing else is ---- *)
Theorem C16_phase_loop_detected (inputs : Z -> list inp) (ndelay : Z -> Z) fuel n :
  loops inputs n -> phase inputs ndelay fuel n = None.
Proof. exact (phase_loop_detected inputs ndelay fuel n). Qed.
Theorem C16_phase_none_iff_loops (inputs : Z -> list inp) (ndelay : Z -> Z) (nodes : list Z) fuel n :
  (forall x i, In i (inputs x) -> In (i_out i) nodes) -> (length nodes < fuel)%nat ->
  (phase inputs ndelay fuel n = None <-> loops inputs n).
Proof. exact (phase_none_iff_loops inputs ndelay nodes fuel n). Qed.
Theorem C16_phase_defined_of_rank (inputs : Z -> list inp) (ndelay : Z -> Z) (rank : Z -> nat) :
  (forall n i, In i (inputs n) -> i_skip i = false -> (rank (i_out i) < rank n)%nat) ->
  forall fuel n, (rank n < fuel)%nat -> exists p, phase inputs ndelay fuel n = Some p.
Proof. exact (phase_defined_of_rank inputs ndelay rank). Qed.
Print Assumptions C16_phase_none_iff_loops.

(* ---- clause 3: set_delay takes effect: fields, infos, phases, and the delay streams a simulation draws ---- *)
Theorem C16_set_delay_node_takes_effect D q99 d0 (g : graph D) x n dist delay : find_node D g x = Some n ->
  exists n', find_node D (apply_op D q99 d0 v_ok g (OSetNode D x dist delay)) x = Some n' /\
    n_dist D n' = new_dist D (n_dist D n) dist /\ n_delay D n' = new_delay (n_delay D n) delay /\
    n_name D n' = n_name D n /\ n_rate D n' = n_rate D n /\ n_advance D n' = n_advance D n /\ n_sched D n' = n_sched D n /\
    n_inputs D n' = n_inputs D n.
Proof. exact (set_delay_node_takes_effect D q99 d0 g x n dist delay). Qed.
Theorem C16_set_delay_node_frame D q99 d0 v (g : graph D) x y dist delay : y <> x ->
  find_node D (apply_op D q99 d0 v g (OSetNode D x dist delay)) y = find_node D g y.
Proof. exact (set_delay_node_frame D q99 d0 v g x y dist delay). Qed.
Theorem C16_set_delay_none_keeps D q99 d0 v (g : graph D) x : apply_op D q99 d0 v g (OSetNode D x None None) = g.
Proof. exact (set_delay_node_none_keeps D q99 d0 v g x). Qed.
Theorem C16_set_delay_conn_takes_effect D q99 d0 (g : graph D) r k n c dist delay :
  find_node D g r = Some n -> find_conn D n k = Some c ->
  exists n' c', find_node D (apply_op D q99 d0 v_ok g (OSetConn D r k dist delay)) r = Some n' /\ find_conn D n' k = Some c' /\
    c_dist D c' = new_dist D (c_dist D c) dist /\ c_delay D c' = new_delay (c_delay D c) delay /\
    c_key D c' = c_key D c /\ c_out D c' = c_out D c /\ c_blocking D c' = c_blocking D c /\ c_window D c' = c_window D c /\
    c_skip D c' = c_skip D c /\ c_jitter D c' = c_jitter D c /\
    n_dist D n' = n_dist D n /\ n_delay D n' = n_delay D n /\ n_name D n' = n_name D n /\ n_rate D n' = n_rate D n /\
    (forall k', k' <> k -> find_conn D n' k' = find_conn D n k').
Proof. exact (set_delay_conn_takes_effect D q99 d0 g r k n c dist delay). Qed.
Theorem C16_set_delay_conn_frame D q99 d0 v (g : graph D) r k y dist delay : y <> r ->
  find_node D (apply_op D q99 d0 v g (OSetConn D r k dist delay)) y = find_node D g y.
Proof. exact (set_delay_conn_frame D q99 d0 v g r k y dist delay). Qed.
(* infos report the configured values (hence the values that were set) *)
Theorem C16_node_info_fields D (g : graph D) n i : node_info g n = Some i ->
  ni_dist D i = n_dist D n /\ ni_delay D i = n_delay D n /\ gphase g (n_name D n) = Some (ni_phase D i) /\
  ni_rate D i = n_rate D n /\ ni_name D i = n_name D n /\ ni_advance D i = n_advance D n /\ ni_sched D i = n_sched D n.
Proof. exact (node_info_fields D g n i). Qed.
Theorem C16_conn_info_fields D (g : graph D) c ii : conn_info D g c = Some ii ->
  ii_dist D ii = c_dist D c /\ ii_delay D ii = c_delay D c /\ ii_name D ii = c_key D c /\ ii_output D ii = c_out D c /\
  ii_window D ii = c_window D c /\ ii_blocking D ii = c_blocking D c /\ ii_skip D ii = c_skip D c /\ ii_jitter D ii = c_jitter D c /\
  ii_rate D ii = g_rate D g (c_out D c) /\
  exists p, gphase g (c_out D c) = Some p /\ ii_phase D ii = p + g_ndelay D g (c_out D c) + c_delay D c.
Proof. exact (conn_info_fields D g c ii). Qed.
Theorem C16_set_delay_node_in_info D q99 d0 (g : graph D) x n d e i n' :
  find_node D g x = Some n -> find_node D (apply_op D q99 d0 v_ok g (OSetNode D x (Some d) (Some e))) x = Some n' ->
  node_info (apply_op D q99 d0 v_ok g (OSetNode D x (Some d) (Some e))) n' = Some i -> ni_dist D i = d /\ ni_delay D i = e.
Proof. exact (set_delay_node_in_info D q99 d0 g x n d e i n'). Qed.
(* phases afterwards are the longest paths for the new expected delays *)
Theorem C16_phase_after_set_delay_node D q99 d0 (g : graph D) x n dist delay y p : find_node D g x = Some n ->
  gphase (apply_op D q99 d0 v_ok g (OSetNode D x dist delay)) y = Some p ->
  let nd := fun z => if z =? x then new_delay (n_delay D n) delay else g_ndelay D g z in
  (forall w, path (g_inputs D g) nd y w -> w <= p) /\ path (g_inputs D g) nd y p.
Proof. exact (phase_after_set_delay_node D q99 d0 g x n dist delay y p). Qed.
Theorem C16_phase_after_set_delay_conn D q99 d0 (g : graph D) r k dist delay y p :
  gphase (apply_op D q99 d0 v_ok g (OSetConn D r k dist delay)) y = Some p ->
  let ins := fun z => g_inputs D (apply_op D q99 d0 v_ok g (OSetConn D r k dist delay)) z in
  (forall z, ins z = if z =? r then map (fun i => if fst i =? k then {| i_out := i_out (snd i); i_delay := new_delay (i_delay (snd i)) delay; i_skip := i_skip (snd i) |} else snd i)
                     (match find_node D g r with Some n => map (fun c => (c_key D c, inp_of_conn D c)) (n_inputs D n) | None => [] end)
                   else g_inputs D g z) /\
  (forall w, path ins (g_ndelay D g) y w -> w <= p) /\ path ins (g_ndelay D g) y p.
Proof. exact (phase_after_set_delay_conn D q99 d0 g r k dist delay y p). Qed.
(* subsequent simulation: the k-th delay drawn is the k-th sample of the distribution that was set (draw = the sample
   stream of a distribution after reset, arbitrary) *)
Theorem C16_step_delay_after_set_delay D q99 d0 (draw : D -> nat -> Z) (g : graph D) x n d delay k : find_node D g x = Some n ->
  step_delay D draw (apply_op D q99 d0 v_ok g (OSetNode D x (Some d) delay)) x k = Some (draw d k).
Proof. exact (step_delay_after_set_delay D q99 d0 draw g x n d delay k). Qed.
Theorem C16_msg_delay_after_set_delay D q99 d0 (draw : D -> nat -> Z) (g : graph D) r key n c d delay k :
  find_node D g r = Some n -> find_conn D n key = Some c ->
  msg_delay D draw (apply_op D q99 d0 v_ok g (OSetConn D r key (Some d) delay)) r key k = Some (draw d k).
Proof. exact (msg_delay_after_set_delay D q99 d0 draw g r key n c d delay k). Qed.
Print Assumptions C16_phase_after_set_delay_conn.
Print Assumptions C16_msg_delay_after_set_delay.

(* ---- clause 4: from_info + connect_from_info give the configuration back: equal infos, phases, connections ---- *)
Theorem C16_info_roundtrip D q99 d0 (g : graph D) is : wf D g -> infos g = Some is -> rebuild q99 d0 v_ok is = g.
Proof. exact (info_roundtrip D q99 d0 g is). Qed.
Theorem C16_info_roundtrip_observables D q99 d0 (g : graph D) is : wf D g -> infos g = Some is ->
  let g' := rebuild q99 d0 v_ok is in
  infos g' = Some is /\ (forall x, gphase g' x = gphase g x) /\ map (n_inputs D) g' = map (n_inputs D) g.
Proof. exact (info_roundtrip_observables D q99 d0 g is). Qed.
Print Assumptions C16_info_roundtrip_observables.

(* ---- the source variants with a defect switched on are refuted (DESIGN 7: F3 at both call sites, F11) ---- *)
Theorem C16_set_delay_node_ignoring_refuted D q99 d0 (g : graph D) x n d delay : find_node D g x = Some n -> n_dist D n <> d ->
  exists n', find_node D (apply_op D q99 d0 {| v_sd_node := true; v_sd_conn := false; v_cfi_key := false |} g (OSetNode D x (Some d) delay)) x = Some n' /\
             n_dist D n' <> d.
Proof. exact (set_delay_node_ignoring_refuted D q99 d0 g x n d delay). Qed.
Theorem C16_set_delay_conn_ignoring_refuted D q99 d0 (g : graph D) r k n c d delay :
  find_node D g r = Some n -> find_conn D n k = Some c -> c_dist D c <> d ->
  exists n' c', find_node D (apply_op D q99 d0 {| v_sd_node := false; v_sd_conn := true; v_cfi_key := false |} g (OSetConn D r k (Some d) delay)) r = Some n' /\
                find_conn D n' k = Some c' /\ c_dist D c' <> d.
Proof. exact (set_delay_conn_ignoring_refuted D q99 d0 g r k n c d delay). Qed.
Theorem C16_info_roundtrip_keyname_refuted D q99 d0 (g : graph D) is n c : wf D g -> infos g = Some is ->
  In n g -> In c (n_inputs D n) -> c_key D c <> c_out D c ->
  rebuild q99 d0 {| v_sd_node := false; v_sd_conn := false; v_cfi_key := true |} is <> g.
Proof. exact (info_roundtrip_keyname_refuted D q99 d0 g is n c). Qed.
Print Assumptions C16_info_roundtrip_keyname_refuted.

(* ---- non-vacuity: a concrete configuration (3 nodes, a shadow input name, a skipped back edge, a tie in the max)
   is well-formed, has infos, phases 0 / 4 / 7, and satisfies the hypotheses of the round-trip and refutation theorems ---- *)
Definition ex_g : graph Z :=
  apply_ops (fun d => d) 0 v_ok
    [mk_node (fun d => d) 0 0 4 (Some 1) (Some 5) false 2; mk_node (fun d => d) 0 1 8 None (Some 3) false 1; mk_node (fun d => d) 0 2 8 (Some 2) None true 2]
    [OConnect Z 1 0 true (Some 3) None 1 false 1 (Some 100); OConnect Z 2 1 false (Some 0) (Some 6) 2 false 1 None;
     OConnect Z 2 0 false None (Some 6) 1 false 2 None; OConnect Z 0 2 false (Some 1) None 1 true 1 None;
     OSetNode Z 1 (Some 7) None; OSetConn Z 1 100 (Some 9) (Some 3)].
Example C16_ex_phases : map (gphase ex_g) [0; 1; 2] = [Some 0; Some 4; Some 7].
Proof. vm_compute. reflexivity. Qed.
Example C16_ex_infos : exists is, infos ex_g = Some is /\ rebuild (fun d => d) 0 v_ok is = ex_g /\
  rebuild (fun d => d) 0 {| v_sd_node := false; v_sd_conn := false; v_cfi_key := true |} is <> ex_g.
Proof. destruct (infos ex_g) as [is|] eqn:E; [|vm_compute in E; discriminate]. exists is. vm_compute in E. injection E as <-.
  split; [reflexivity|]. split; [vm_compute; reflexivity|vm_compute; discriminate]. Qed.
Example C16_ex_wf : wf Z ex_g.
Proof.
  vm_compute. split; [repeat constructor; simpl; intuition discriminate|].
  intros n [<-|[<-|[<-|[]]]]; (split; [|split]); simpl; try (repeat constructor; simpl; intuition discriminate);
    intros c Hc; repeat (destruct Hc as [<-|Hc]; [simpl; tauto|]); destruct Hc.
Qed.
Example C16_ex_loop : let ins := fun x => if x =? 0 then [{| i_out := 1; i_delay := 1; i_skip := false |}]
                                          else if x =? 1 then [{| i_out := 0; i_delay := 0; i_skip := false |}] else
                                          [{| i_out := 1; i_delay := 2; i_skip := false |}] in
  loops ins 2 /\ phase ins (fun _ => 0) 4 2 = None /\ phase (fun x => if x =? 0 then [] else ins x) (fun _ => 0) 4 2 = Some 2.
Proof.
  split; [|split; vm_compute; reflexivity]. right. exists 1. split.
  - apply (b_one _ 2 {| i_out := 1; i_delay := 2; i_skip := false |}); simpl; auto.
  - apply (b_more _ 1 {| i_out := 0; i_delay := 0; i_skip := false |} 1); simpl; auto.
    apply (b_one _ 0 {| i_out := 1; i_delay := 1; i_skip := false |}); simpl; auto.
Qed.
