(* C13 — recording is faithful and never changes the execution.  Statements only.  Threaded runtime: row k of a node's record is built from
   exactly what the k-th application of the step function received and returned (row_of: the k-th start token and the windows after the k-th groups),
   and the state recorded before step k+1 is the state returned by step k.  Compiled runtime: Props in RunnerSym / Api (rows are written at the
   scheduled sequence number; masked slots write nothing).  That recording has no feedback into the execution holds by construction in a functional
   model; for the code it is decided by the relational runs of the harness (every record-setting combination gives the same execution). *)
From Coq Require Import List Arith ZArith Bool.
From Rex Require Import KahnL AsyncModel2 AsyncStable ConflInv RexDet AsyncLaws AsyncLaws2 AsyncLaws3 AsyncLaws4.

(* row k of node n = the record assembled from the k-th start token (seq, ts_start, delay), the state before the k-th application and the windows it received *)
Theorem C13_rows_law : forall (G : cfg) (s : state) (n k : nat), reach G s -> (n < NN G)%nat -> (k < length (rows_of s n))%nat -> nth_error (rows_of s n) k = row_of G (hfun tok local s) n k.
Proof. exact @rows_law. Qed.
Print Assumptions C13_rows_law.

(* the state recorded before step k+1 is the state returned by step k *)
Theorem C13_record_state_chain : forall (G : cfg) (s : state) (n k : nat) (r r' : row), reach G s -> (n < NN G)%nat -> nth_error (rows_of s n) k = Some r -> nth_error (rows_of s n) (S k) = Some r' -> r_state r' = r_out r.
Proof. exact @record_state_chain. Qed.
Print Assumptions C13_record_state_chain.

(* the record has exactly one row per application of the step function, in order (nothing unexecuted is recorded, nothing executed is missing) *)
Theorem C13_async_once : forall (G : cfg) (s : state) (n : nat), reach G s -> (n < NN G)%nat -> l_calls (nth (AStep n) (loc tok local s) l0) = map r_seq (rows_of s n) /\ (forall (k : nat) (r : row), nth_error (rows_of s n) k = Some r -> r_seq r = k).
Proof. exact @async_once. Qed.
Print Assumptions C13_async_once.

