(* C13 — recording is faithful and never changes the execution.  Statements only.  Threaded runtime: row k of a node's record is built from
   exactly what the k-th application of the step function received and returned (row_of: the k-th start token and the windows after the k-th groups),
   and the state recorded before step k+1 is the state returned by step k.  Compiled runtime: Props in RunnerSym / Api (rows are written at the
   scheduled sequence number; masked slots write nothing).  That recording has no feedback into the execution holds by construction in a functional
   model; for the code it is decided by the relational runs of the harness (every record-setting combination gives the same execution). *)
From Coq Require Import List Arith ZArith Bool.
From Rex Require Import KahnL AsyncModel2 AsyncStable ConflInv RexDet AsyncLaws AsyncLaws2 AsyncLaws3 AsyncLaws4 CompiledModel CompiledOnce.

(* row k of node n = the record assembled from the k-th start token (seq, ts_start, delay), the state before the k-th application and the windows it received *)
Theorem C13_rows_law : forall (G : cfg) (s : state) (n k : nat), reach G s -> (n < NN G)%nat -> (k < length (rows_of s n))%nat -> nth_error (rows_of s n) k = row_of G (hfun tok local s) n k.
Proof. exact @rows_law. Qed.
Print Assumptions C13_rows_law.

(* the state recorded before step k+1 is the state returned by step k *)
Theorem C13_record_state_chain : forall (G : cfg) (s : state) (n k : nat) (r r' : AsyncModel2.row), reach G s -> (n < NN G)%nat -> nth_error (rows_of s n) k = Some r -> nth_error (rows_of s n) (S k) = Some r' -> r_state r' = r_out r.
Proof. exact @record_state_chain. Qed.
Print Assumptions C13_record_state_chain.

(* the record has exactly one row per application of the step function, in order (nothing unexecuted is recorded, nothing executed is missing) *)
Theorem C13_async_once : forall (G : cfg) (s : state) (n : nat), reach G s -> (n < NN G)%nat -> l_calls (nth (AStep n) (loc tok local s) l0) = map r_seq (rows_of s n) /\ (forall (k : nat) (r : AsyncModel2.row), nth_error (rows_of s n) k = Some r -> r_seq r = k).
Proof. exact @async_once. Qed.
Print Assumptions C13_async_once.

(* compiled runtime: the record is an array indexed by the sequence number, pre-filled with 'never executed' (-1); row k holds the logged row of (node, k) if that step was executed and stays -1 otherwise *)
Theorem C13_compiled_record_row : forall (Val : Type) (node len : nat) (log : list (row Val)) (k : nat), (k < len)%nat -> (forall r : row Val, In r log -> 0 <= w_seq Val r) -> nth_error (record_of Val node len log) k = Some (find (fun r : row Val => (w_node Val r =? node)%nat && (w_seq Val r =? Z.of_nat k)) (rev log)).
Proof. exact @record_row. Qed.
Print Assumptions C13_compiled_record_row.

(* and the logged rows are exactly the scheduled cells that were run *)
Theorem C13_compiled_log_is_schedule : forall (I : inst) (Val : Type) (f : nat -> Z -> Z -> Val -> list (list (Z * Z * Z * Val)) -> Val) (vi vd : nat -> Val) (sizes : list Z) (p0 n : nat), map (row_key Val) (r_log Val (rollout I Val f vi vd sizes p0 n)) = map todo_key (concat (flat_map (phases_of I) (seq p0 n))).
Proof. exact @compiled_once. Qed.
Print Assumptions C13_compiled_log_is_schedule.

