(* C15 — Delay distributions give non-negative, replayable samples and true quantiles.
   Statements only; the model is Dist.v, the proofs are in DistLaws.v.  The PRNG (split, draw) and the standard normal
   CDF / quantile function (Phi, Phinv with contract std_normal_pair) are universally quantified. *)
From Coq Require Import Reals List ZArith QArith Bool.
From Rex Require Import Ops Dist DistLaws.
Import ListNotations.
Open Scope R_scope.

(* ---- sampling: every sampled delay is non-negative, for every PRNG, distribution, key and shape *)
Theorem C15_sample_nonneg (K D : Type) (split : K -> K * K) (draw : D -> K -> nat -> list R) (st : D * K) (n : nat) :
  Forall (fun x => 0 <= x) (snd (static_sample Rops split draw st n)).
Proof. exact (sample_nonneg split draw st n). Qed.
Theorem C15_stream_nonneg (K D : Type) (split : K -> K * K) (draw : D -> K -> nat -> list R) (st : D * K) (ns : list nat) :
  Forall (Forall (fun x => 0 <= x)) (snd (sample_stream Rops split draw st ns)).
Proof. exact (stream_nonneg split draw st ns). Qed.
Theorem C15_clip_keeps_nonneg_draws x : 0 <= x -> clip0 Rops x = x.
Proof. exact (clip0_id x). Qed.
(* sampling returns the same distribution with the first half of the split key and draws with the second half *)
Theorem C15_sample_advances_key (K D A : Type) (O : ops A) (split : K -> K * K) (draw : D -> K -> nat -> list A) (st : D * K) n :
  fst (static_sample O split draw st n) = (fst st, fst (split (snd st))) /\
  snd (static_sample O split draw st n) = map (clip0 O) (draw (fst st) (snd (split (snd st))) n).
Proof. exact (sample_advances_key O split draw st n). Qed.
(* the rng state after m draws does not depend on the shapes drawn *)
Theorem C15_stream_key (K D A : Type) (O : ops A) (split : K -> K * K) (draw : D -> K -> nat -> list A) (st : D * K) ns :
  fst (sample_stream O split draw st ns) = (fst st, Nat.iter (length ns) (fun k => fst (split k)) (snd st)).
Proof. exact (stream_key O split draw st ns). Qed.
(* resetting to the same rng replays the same delays (whatever was sampled before) *)
Theorem C15_reset_replays (K D A : Type) (O : ops A) (split : K -> K * K) (draw : D -> K -> nat -> list A) (st st' : D * K) k ns :
  fst st = fst st' -> sample_stream O split draw (static_reset st k) ns = sample_stream O split draw (static_reset st' k) ns.
Proof. exact (reset_replays O split draw st st' k ns). Qed.
Print Assumptions C15_stream_nonneg.
Print Assumptions C15_reset_replays.

(* ---- quantiles agree with the CDF: exactly for Deterministic and Normal *)
Theorem C15_det_quantile_exact Phi Phinv loc q : 0 < q <= 1 ->
  static_quantile Phi Phinv (Det loc) q = Some loc /\ q <= cdf Phi (Det loc) loc /\ forall y, y < loc -> cdf Phi (Det loc) y < q.
Proof. exact (det_quantile_exact Phi Phinv loc q). Qed.
Theorem C15_normal_quantile_exact Phi Phinv : std_normal_pair Phi Phinv -> forall loc scale q, 0 < scale -> 0 < q < 1 ->
  exists x, static_quantile Phi Phinv (Norm loc scale) q = Some x /\ cdf Phi (Norm loc scale) x = q /\
            forall y, cdf Phi (Norm loc scale) y = q -> y = x.
Proof. exact (u_normal_quantile_cdf Phi Phinv). Qed.
Theorem C15_normal_scale0 Phinv loc q : normal_quantile Phinv q loc 0 = loc.
Proof. exact (normal_quantile_scale0 Phinv loc q). Qed.
Print Assumptions C15_normal_quantile_exact.

(* ---- mixtures: within grid resolution.  Whenever some grid point has CDF above q, the result x is a grid point with
   F(x - step) <= q < F(x); hence within one grid step of the true quantile *)
Theorem C15_mix_quantile_bracket Phi Phinv : std_normal_pair Phi Phinv -> forall comps q x, mix_wf Phinv comps ->
  static_quantile Phi Phinv (Mix comps) q = Some x -> (exists g, In g (mix_grid Phinv comps) /\ q < cdf Phi (Mix comps) g) ->
  In x (mix_grid Phinv comps) /\ q < cdf Phi (Mix comps) x /\ cdf Phi (Mix comps) (x - mix_step Phinv comps) <= q.
Proof. exact (u_mix_bracket Phi Phinv). Qed.
Theorem C15_mix_quantile_within_step Phi Phinv : std_normal_pair Phi Phinv -> forall comps q x xs, mix_wf Phinv comps -> comps_pos comps ->
  static_quantile Phi Phinv (Mix comps) q = Some x -> (exists g, In g (mix_grid Phinv comps) /\ q < cdf Phi (Mix comps) g) ->
  cdf Phi (Mix comps) xs = q -> x - mix_step Phinv comps <= xs < x.
Proof. exact (u_mix_within_step Phi Phinv). Qed.
Theorem C15_mix_wf_for_delays Phi Phinv : std_normal_pair Phi Phinv -> forall comps,
  Forall (fun c => 0 <= fst c /\ 0 < snd (snd c)) comps -> Forall (fun c => 0 <= comp_q Phinv (1 / 1000) c) comps -> mix_wf Phinv comps.
Proof. exact (u_mix_wf_delays Phi Phinv). Qed.
Print Assumptions C15_mix_quantile_within_step.

(* ---- quantile(q) is non-decreasing in q.
   Full statement (all three families, no side condition):
     forall d q q' x x', dist_wf Phinv d -> 0 < q -> q <= q' -> q' < 1 ->
       static_quantile Phi Phinv d q = Some x -> static_quantile Phi Phinv d q' = Some x' -> x <= x'.
   It FAILS for the pinned mixture routine (C15_grid_quantile_mono_refuted, C15_mix_quantile_corner): proved with the
   side condition "some grid point has CDF above q'" for the pinned code, and in full for the repaired code. *)
Theorem C15_quantile_mono_partial Phi Phinv : std_normal_pair Phi Phinv -> forall d q q' x x', dist_wf Phinv d ->
  0 < q -> q <= q' -> q' < 1 ->
  (forall comps, d = Mix comps -> exists g, In g (mix_grid Phinv comps) /\ q' < cdf Phi d g) ->
  static_quantile Phi Phinv d q = Some x -> static_quantile Phi Phinv d q' = Some x' -> x <= x'.
Proof. exact (u_quantile_mono_partial Phi Phinv). Qed.
(* pinned code: two levels that both pass the guard of mixture_distribution_quantiles, the larger one gets the smaller point *)
Theorem C15_grid_quantile_mono_refuted : exists (gs cs : list Z) (p p' x x' : Z),
  (p <= p')%Z /\ grid_quantiles Z.ltb 0%Z (grid_index Z.ltb) [p] gs cs = Some [x] /\
  grid_quantiles Z.ltb 0%Z (grid_index Z.ltb) [p'] gs cs = Some [x'] /\ (x' < x)%Z.
Proof. exact grid_quantile_mono_refuted. Qed.
(* pinned code: a level that no grid CDF value exceeds (q = largest grid CDF value) gets the smallest grid point *)
Theorem C15_mix_quantile_corner Phi Phinv comps q x : static_quantile Phi Phinv (Mix comps) q = Some x ->
  (forall g, In g (mix_grid Phinv comps) -> mix_cdf Phi comps g <= q) -> x = mix_grid_min Phinv comps.
Proof. exact (mix_quantile_corner Phi Phinv comps q x). Qed.
(* repaired code (fall back to the last grid point): the full statement, and the bracket without side condition *)
Theorem C15_quantile_mono_repaired Phi Phinv : std_normal_pair Phi Phinv -> forall d q q' x x', dist_wf Phinv d ->
  0 < q -> q <= q' -> q' < 1 ->
  static_quantile_fix Phi Phinv d q = Some x -> static_quantile_fix Phi Phinv d q' = Some x' -> x <= x'.
Proof. exact (u_quantile_fix_mono Phi Phinv). Qed.
Theorem C15_mix_quantile_bracket_repaired Phi Phinv : std_normal_pair Phi Phinv -> forall comps q x, mix_wf Phinv comps ->
  static_quantile_fix Phi Phinv (Mix comps) q = Some x ->
  In x (mix_grid Phinv comps) /\
  ((q < cdf Phi (Mix comps) x /\ cdf Phi (Mix comps) (x - mix_step Phinv comps) <= q) \/
   (x = mix_grid_max Phinv comps /\ cdf Phi (Mix comps) x = q)).
Proof. exact (u_mix_fix_bracket Phi Phinv). Qed.
(* the order-theoretic core, for any strict weak order (instantiated at Z ranks in the correspondence run) *)
Theorem C15_grid_index_mono_Z p p' cs : (p <= p')%Z -> (exists c, In c cs /\ (p' < c)%Z) ->
  (grid_index Z.ltb p cs <= grid_index Z.ltb p' cs)%nat.
Proof.
  exact (fun H Hex => grid_index_mono Z.ltb 0%Z Zltb_negtrans p p' cs
           (proj2 (negb_true_iff _) (proj2 (Z.ltb_ge p' p) H))
           (match Hex with ex_intro _ c (conj Hc Hl) => ex_intro _ c (conj Hc (proj2 (Z.ltb_lt p' c) Hl)) end)).
Qed.
Print Assumptions C15_quantile_mono_partial.
Print Assumptions C15_quantile_mono_repaired.
Print Assumptions C15_grid_quantile_mono_refuted.

(* ---- the default expected delay of a node / connection is the 99th percentile and never negative *)
Theorem C15_node_delay delay quant v : node_delay Rops Rnonneg delay quant = Some v ->
  0 <= v /\ v = match delay with Some d => d | None => quant (99 / 100) end.
Proof. exact (node_delay_spec delay quant v). Qed.
Theorem C15_node_delay_rejects_negative delay quant :
  match delay with Some d => d | None => quant (99 / 100) end < 0 -> node_delay Rops Rnonneg delay quant = None.
Proof. exact (node_delay_rejects delay quant). Qed.
Theorem C15_default_delay_is_q99 Phi Phinv d v :
  node_delay Rops Rnonneg None (fun q => match static_quantile Phi Phinv d q with Some x => x | None => -1 end) = Some v ->
  0 <= v /\ static_quantile Phi Phinv d (99 / 100) = Some v.
Proof. exact (u_default_delay Phi Phinv d v). Qed.

(* ---- TrainableDist: a point mass inside [min, max] *)
Theorem C15_trainable_const mn mx alpha n :
  length (trainable_sample Rops mn mx alpha n) = n /\
  Forall (fun x => x = trainable_value Rops mn mx alpha) (trainable_sample Rops mn mx alpha n) /\
  (forall q, trainable_quantile Rops mn mx alpha q = trainable_value Rops mn mx alpha) /\
  trainable_mean Rops mn mx alpha = trainable_value Rops mn mx alpha.
Proof. exact (trainable_sample_const mn mx alpha n). Qed.
Theorem C15_trainable_bounds mn mx alpha : 0 <= mn -> mn <= mx -> 0 <= alpha <= 1 ->
  mn <= trainable_value Rops mn mx alpha <= mx /\ 0 <= trainable_value Rops mn mx alpha.
Proof. exact (trainable_bounds mn mx alpha). Qed.
Theorem C15_trainable_create_roundtrip delay mn mx : mn < mx -> trainable_value Rops mn mx (get_alpha_raw Rops delay mn mx) = delay.
Proof. exact (trainable_create_roundtrip delay mn mx). Qed.
Theorem C15_get_alpha_range delay mn mx : 0 <= get_alpha Rops delay mn mx <= 1.
Proof. exact (get_alpha_range delay mn mx). Qed.

(* ---- the delay estimator returns a proper distribution in the units of the data *)
Theorem C15_gmm_proper threshold percentile data fitted : threshold <= rstd data -> 0 < rstd data -> 0 <= percentile ->
  fitted <> [] -> Forall (fun c => 0 < fst c) fitted ->
  exists comps, gmm_get_dist threshold percentile data fitted = Mix comps /\ comps <> [] /\
    osum Rops (map fst comps) = 1 /\ Forall (fun c => 0 < fst c /\ 0 < snd (snd c)) comps /\ (length comps <= length fitted)%nat.
Proof. exact (gmm_get_dist_proper threshold percentile data fitted). Qed.
Theorem C15_gmm_prune_mass thr ws cum : let k := prune_count Rops Rltb thr cum ws in
  (k <= length ws)%nat /\ ((0 < k)%nat -> cum + osum Rops (firstn k ws) < thr) /\
  ((k < length ws)%nat -> thr <= cum + osum Rops (firstn (S k) ws)).
Proof. exact (prune_mass thr ws cum). Qed.
Theorem C15_gmm_units Phi mean sd comps x : 0 < sd ->
  mix_cdf Phi (map (rescale_comp mean sd) comps) x =
  mix_cdf Phi (map (fun c => (fst c, (fst (snd c), exp (snd (snd c))))) comps) ((x - mean) / sd).
Proof. exact (rescale_mix_cdf Phi mean sd comps x). Qed.
Theorem C15_gmm_constant_is_deterministic threshold percentile c n fitted : (0 < n)%nat -> 0 < threshold ->
  gmm_get_dist threshold percentile (repeat c n) fitted = Det c.
Proof. exact (gmm_constant_is_deterministic threshold percentile c n fitted). Qed.
Print Assumptions C15_gmm_proper.
Print Assumptions C15_gmm_constant_is_deterministic.

(* ---- non-vacuity *)
Example C15_std_normal_pair_satisfiable : exists Phi Phinv, std_normal_pair Phi Phinv.
Proof. destruct phi_hyps_satisfiable as (P & Q & H). exists P, Q. exact H. Qed.
Example C15_grid_bracket_nonvacuous :
  grid_quantiles Z.ltb 0%Z (grid_index Z.ltb) [4; 5; 8]%Z [10; 20; 30; 40]%Z [1; 5; 5; 9]%Z = Some [20; 40; 40]%Z.
Proof. reflexivity. Qed.
Example C15_grid_guard_rejects : grid_quantiles Z.ltb 0%Z (grid_index Z.ltb) [0; 5]%Z [10; 20; 30]%Z [1; 5; 9]%Z = None.
Proof. reflexivity. Qed.
Example C15_gmm_prune_nonvacuous :
  map (fun c => (Qred (fst c), snd c)) (get_dist_comps Qops Qltb (9 # 10) [((5 # 1)%Q, 1%nat); ((1 # 2)%Q, 2%nat); ((9 # 2)%Q, 3%nat)])
  = [((9 # 19)%Q, 3%nat); ((10 # 19)%Q, 1%nat)].
Proof. vm_compute. reflexivity. Qed.
