(* C08 — input windows read exactly the scheduled messages from the output buffers.  Statements only.
   The runner is generic in the payload type and step function.  Running it on (value, tag) pairs gives the real run (first projection) and a
   value-independent symbolic run (second projection); runner_coherent: every pair anywhere in the state is coherent.  Hence, if the extracted
   boolean checker check_sym accepts an instance (for the ring sizes actually allocated: computed, user-supplied or padded), then in the REAL run with
   ANY step function every executed row (n,k) took as state the output of row (n,k-1) (the initial state for k = 0), every window entry with seq s >= 0
   carries the output the producer emitted at s, negative entries carry the default output, and the row's output is f of exactly those: no output was
   overwritten before its last scheduled reader. *)
From Coq Require Import List Arith ZArith Bool.
From Rex Require Import CompiledModel RunnerSym CheckSym BufferSpec Replay BufferSufficient ToTimings ToTimingsLaws ToTimingsExtra BufferFromMono.
Open Scope Z_scope.

(* a passed symbolic check implies the dataflow equations for the real run, for every step function and payload type *)
Theorem C08_runner_dataflow : forall (I : inst) (sizes : list Z) (Val : Type) (f : nat -> Z -> Z -> Val -> list (list (Z * Z * Z * Val)) -> Val) (vi vd : nat -> Val) (p0 n : nat), check_sym I sizes p0 n = true -> forall r : row Val, In r (real_log I sizes Val f vi vd p0 n) -> w_out Val r = f (w_node Val r) (w_seq Val r) (w_ts Val r) (w_st Val r) (w_in Val r) /\ (if w_seq Val r =? 0 then w_st Val r = vi (w_node Val r) else produced Val (real_log I sizes Val f vi vd p0 n) (w_node Val r) (w_seq Val r - 1) (w_st Val r)) /\ (forall w : list (Z * Z * Z * Val), In w (w_in Val r) -> exists m : nat, forall (s a b : Z) (x : Val), In (s, a, b, x) w -> if s <? 0 then x = vd m else produced Val (real_log I sizes Val f vi vd p0 n) m s x).
Proof. exact @runner_dataflow. Qed.
Print Assumptions C08_runner_dataflow.

(* coherence invariant of the paired run *)
Theorem C08_runner_coherent : forall (I : inst) (sizes : list Z) (Val : Type) (f : nat -> Z -> Z -> Val -> list (list (Z * Z * Z * Val)) -> Val) (vi vd : nat -> Val) (p0 n : nat), J Val f vi vd (prun I sizes Val f vi vd p0 n).
Proof. exact @runner_coherent. Qed.
Print Assumptions C08_runner_coherent.

(* the runner commutes with any map of payloads that commutes with the step function (naturality) *)
Theorem C08_rollout_natural : forall (I : inst) (sizes : list Z) (A B : Type) (h : A -> B) (fA : nat -> Z -> Z -> A -> list (list (Z * Z * Z * A)) -> A) (fB : nat -> Z -> Z -> B -> list (list (Z * Z * Z * B)) -> B) (iA dA : nat -> A) (iB dB : nat -> B), (forall (n : nat) (k t : Z) (st : A) (ins : list (list (Z * Z * Z * A))), h (fA n k t st ins) = fB n k t (h st) (hins A B h ins)) -> (forall n : nat, h (iA n) = iB n) -> (forall n : nat, h (dA n) = dB n) -> forall p0 n : nat, hstate A B h (rollout I A fA iA dA sizes p0 n) = rollout I B fB iB dB sizes p0 n.
Proof. exact @rollout_natural. Qed.
Print Assumptions C08_rollout_natural.

(* the value projection of the paired run is the real run *)
Theorem C08_paired_fst : forall (I : inst) (sizes : list Z) (Val : Type) (f : nat -> Z -> Z -> Val -> list (list (Z * Z * Z * Val)) -> Val) (vi vd : nat -> Val) (p0 n : nat), hstate (PV Val) Val fst (prun I sizes Val f vi vd p0 n) = rollout I Val f vi vd sizes p0 n.
Proof. exact @paired_fst. Qed.
Print Assumptions C08_paired_fst.

(* the tag projection of the paired run is the symbolic run *)
Theorem C08_paired_snd : forall (I : inst) (sizes : list Z) (Val : Type) (f : nat -> Z -> Z -> Val -> list (list (Z * Z * Z * Val)) -> Val) (vi vd : nat -> Val) (p0 n : nat), hstate (PV Val) tag snd (prun I sizes Val f vi vd p0 n) = rollout I tag ftag TInit TDef sizes p0 n.
Proof. exact @paired_snd. Qed.
Print Assumptions C08_paired_snd.

(* two sequence numbers closer than the ring size occupy different ring slots *)
Theorem C08_ring_distinct : forall size s w : Z, 0 < size -> s < w -> w - s < size -> w mod size <> s mod size.
Proof. exact @ring_distinct. Qed.
Print Assumptions C08_ring_distinct.

(* suffix-min of reads is a lower bound of every later read *)
Theorem C08_suffix_min_le : forall (l : list Z) (i j : nat) (d : Z), (i <= j < length l)%nat -> nth i (suffix_min l) d <= nth j l d.
Proof. exact @suffix_min_le. Qed.
Print Assumptions C08_suffix_min_le.

(* prefix-max of writes is an upper bound of every earlier write *)
Theorem C08_prefix_max_from_ge : forall (l : list Z) (acc : Z) (i j : nat) (d : Z), (j <= i < length l)%nat -> nth j l d <= nth i (prefix_max_from acc l) d /\ acc <= nth i (prefix_max_from acc l) d.
Proof. exact @prefix_max_from_ge. Qed.
Print Assumptions C08_prefix_max_from_ge.
(* C08 clause 'an output is never overwritten before its last scheduled reader has run', closed: for EVERY instance whose schedule passes check_schedule and the five structural facts extra_ok (slot generations in range; only supervisor slots in the last generation; the supervisor's cells run; slot kinds and senders are nodes), ring buffers at least as large as buffer_need (the model of Timings.get_buffer_sizes) make the symbolic run pass check_sym for every horizon - hence, by C08_runner_dataflow, every window read in the real run returns the scheduled producer's payload *)
Theorem C08_buffer_sufficient : forall (I : inst) (sizes : list Z) (n : nat), check_schedule I = true -> extra_ok I = true -> (forall c : nat, (c < length (i_conns I))%nat -> buffer_need I c <= size_of sizes (k_out (conn I c))) -> (n <= i_nparts I)%nat -> check_sym I sizes 0 n = true.
Proof. exact @buffer_sufficient. Qed.
Print Assumptions C08_buffer_sufficient.

(* non-vacuity: ex_inst satisfies the hypotheses; one slot less fails *)
Theorem C08_buffer_sufficient_hyps_satisfiable : check_schedule ex_inst = true /\ extra_ok ex_inst = true /\ buffer_need ex_inst 0 = 2 /\ size_of (2 :: 1 :: nil) (k_out (conn ex_inst 0)) = 2 /\ check_sym ex_inst (1 :: 1 :: nil) 0 3 = false.
Proof. exact @ex_hyps. Qed.
Print Assumptions C08_buffer_sufficient_hyps_satisfiable.

(* the theorem applied to ex_inst *)
Theorem C08_buffer_sufficient_instance : check_sym ex_inst (2 :: 1 :: nil) 0 3 = true.
Proof. exact @ex_buffer_sufficient. Qed.
Print Assumptions C08_buffer_sufficient_instance.

(* extra_ok's 'supervisor alone in the last generation' is necessary: a sender sharing the supervisor's generation makes buffer_need one too small for the runner (check_schedule accepts, check_sym rejects) *)
Theorem C08_last_generation_needed : check_schedule cx_inst = true /\ buffer_need cx_inst 0 = 1 /\ extra_ok cx_inst = false /\ check_sym cx_inst (1 :: 1 :: nil) 0 3 = false /\ check_sym cx_inst (2 :: 1 :: nil) 0 3 = true.
Proof. exact @cx_last_generation. Qed.
Print Assumptions C08_last_generation_needed.

(* for the schedule rex.utils.to_timings (model) builds from the partitioner's monomorphism, check_schedule and extra_ok are derived from the decidable partitioner contract (check_mono, tmpl_ok, sup_covered): with ring sizes >= buffer_need no output is overwritten before its last scheduled reader (check_sym; with runner_dataflow: for every step function) *)
Theorem C08_buffer_sufficient_from_partitioner : forall (I : inst) (tmpl : list (nat * nat)) (M : list mentry) (sizes : list Z) (n : nat), let J := set_slots I (to_timings I tmpl M) in check_mono I tmpl M = true -> tmpl_ok I tmpl = true -> sup_covered I M = true -> (forall c : nat, (c < length (i_conns J))%nat -> buffer_need J c <= size_of sizes (k_out (conn J c))) -> (n <= i_nparts J)%nat -> check_sym J sizes 0 n = true.
Proof. exact @buffer_sufficient_from_partitioner. Qed.
Print Assumptions C08_buffer_sufficient_from_partitioner.

(* non-vacuity on the two-node instance *)
Theorem C08_buffer_sufficient_from_partitioner_example : check_sym (set_slots exI (to_timings exI exT exM)) (2 :: 1 :: nil) 0 3 = true.
Proof. exact @ex_buffer_from_partitioner. Qed.
Print Assumptions C08_buffer_sufficient_from_partitioner_example.

