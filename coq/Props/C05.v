(* C05 — lifecycle calls return and episodes are isolated.  Statements only; proofs in Lifecycle.v *)
From Coq Require Import List Arith Bool.
From Rex Require Import Lifecycle.
From Rex Require Handshake EventLoop.
Import ListNotations.

(* stop() of the (repaired) protocol: from every state satisfying the invariant — any number of queued tasks, any
   position of the supervisor thread, any pending/answered/cancelled action — every interleaving is finite, never raises
   IndexError and can only end with the user out of stop(). *)
Theorem C05_stop_returns s : Inv s ->
  (forall s', steps true s s' -> Inv s' /\ mu s' <= mu s) /\
  (forall s', steps true s s' -> ~ enabled true s' -> up s' = UDone).
Proof. exact (stop_returns s). Qed.
Print Assumptions C05_stop_returns.
Theorem C05_measure_decreases s s' : Inv s -> step true s s' -> mu s' < mu s.
Proof. exact (mu_decreases s s'). Qed.
Theorem C05_progress s : Inv s -> up s <> UDone -> enabled true s.
Proof. exact (progress s). Qed.
(* the hypotheses are met by the state "run() has returned, a step task is still queued, user calls stop()" *)
Example C05_inv_nonvacuous : Inv s_run_returned.
Proof. exact inv_run_returned. Qed.

(* the protocol as pinned (len()>0 test, no flag write) deadlocks and can raise IndexError: machine-checked witnesses,
   kept as the replay the harness forces on the code whenever the tie to the repaired protocol breaks *)
Theorem C05_pinned_deadlock_witness : steps false s_run_returned s_dead /\ ~ enabled false s_dead /\ up s_dead <> UDone.
Proof. exact stop_after_run_refuted. Qed.
Theorem C05_pinned_index_error_witness : exists s, steps false s_answered s /\ up s = UErr.
Proof. exact stop_index_error_refuted. Qed.
Print Assumptions C05_pinned_deadlock_witness.

(* episode isolation at a connection *)
Theorem C05_stale_dropped (M : Type) eps (arrivals : list (nat * M)) m : In m (received eps arrivals) -> fst m = eps.
Proof. exact (stale_dropped eps arrivals m). Qed.
Theorem C05_none_lost (M : Type) eps (arrivals : list (nat * M)) m : In m arrivals -> fst m = eps -> In m (received eps arrivals).
Proof. exact (none_lost eps arrivals m). Qed.
Print Assumptions C05_stale_dropped.

(* the observation / action handshake of reset() / step() / run(): in every interleaving of the supervisor thread and the user thread, for any
   number of steps, the user's `action[-1].set_result` never meets an empty deque (IndexError) nor an already answered future *)
Theorem C05_handshake_never_raises s : Handshake.steps true Handshake.init s ->
  Handshake.Inv s /\ Handshake.up s <> Handshake.UIndexError /\ Handshake.up s <> Handshake.UInvalidState.
Proof. exact (Handshake.handshake_never_raises s). Qed.
Print Assumptions C05_handshake_never_raises.
Example C05_handshake_nonvacuous : exists s, Handshake.steps true Handshake.init s /\ Handshake.app s = 2 /\ Handshake.ans s = 2 /\ Handshake.popd s = 2 /\ Handshake.got s = 2.
Proof. exact Handshake.two_steps_run. Qed.
(* publishing the observation before queuing the action future (the reordered variant) can raise IndexError: machine-checked witness *)
Theorem C05_publish_first_witness : exists s, Handshake.steps false Handshake.init s /\ Handshake.up s = Handshake.UIndexError.
Proof. exact Handshake.publish_first_refuted. Qed.

(* liveness of the event-triggered connection handlers: with the re-check after each processed entry no enabled entry is left behind when the
   events stop, whatever the sequence of events - the code then fires exactly when the guard-based actor model M1 would; nothing is lost or reordered *)
Theorem C05_recheck_leaves_nothing_enabled es : EventLoop.enabled (EventLoop.run true es) = false.
Proof. exact (EventLoop.recheck_leaves_nothing_enabled es). Qed.
Theorem C05_recheck_preserves_order es : EventLoop.done_ (EventLoop.run true es) ++ EventLoop.pending (EventLoop.run true es) = EventLoop.expectations es.
Proof. exact (EventLoop.recheck_preserves_order es). Qed.
Print Assumptions C05_recheck_leaves_nothing_enabled.
(* one entry per event (the code as pinned) leaves an enabled entry behind: [expect 2; expect 0; message; message] *)
Theorem C05_one_per_event_witness : exists es, EventLoop.enabled (EventLoop.run false es) = true.
Proof. exact EventLoop.one_per_event_refuted. Qed.
