(* C09 — compiled execution is a pure function of the graph state, whatever the API.  Statements only.
   The API layer is modelled over an abstract graph-state type with until_sup = run_until_supervisor and run_sup = run_supervisor as arbitrary functions
   (their definitions are the runner of CompiledModel.v); the compositions run / reset / step are regenerated from rex/graph.py and tied (ApiTie.v).
   jit and vmap have no Gallina counterpart; that they preserve the function is decided by the harness comparisons only. *)
From Coq Require Import List Arith ZArith Bool.
From Rex Require Import Api.
Open Scope Z_scope.

(* run repeated n+1 times = reset, n steps, then the supervisor's own step *)
Theorem C09_run_n_eq_reset_steps : forall (GS : Type) (until_sup run_sup : GS -> GS) (n : nat) (g : GS), iter GS (run GS until_sup run_sup) (S n) g = run_sup (iter GS (step GS until_sup run_sup) n (reset GS until_sup g)).
Proof. exact @run_n_eq_reset_steps. Qed.
Print Assumptions C09_run_n_eq_reset_steps.

(* rollout (carry) = run iterated *)
Theorem C09_rollout_eq_iter_run : forall (GS : Type) (until_sup run_sup : GS -> GS) (n : nat) (g : GS), rollout GS until_sup run_sup n g = iter GS (run GS until_sup run_sup) n g.
Proof. exact @rollout_eq_iter_run. Qed.
Print Assumptions C09_rollout_eq_iter_run.

(* the last state of the full trajectory is the carry-only result *)
Theorem C09_rollout_traj_last : forall (GS : Type) (until_sup run_sup : GS -> GS) (n : nat) (g d : GS), last (rollout_traj GS until_sup run_sup (S n) g) d = rollout GS until_sup run_sup (S n) g.
Proof. exact @rollout_traj_last. Qed.
Print Assumptions C09_rollout_traj_last.

(* passing the supervisor's own step result to step() equals letting step() run it *)
Theorem C09_step_override_eq : forall (GS : Type) (until_sup run_sup : GS -> GS) (override : GS -> GS -> GS), (forall g : GS, override g (run_sup g) = run_sup g) -> forall g : GS, until_sup (override g (run_sup g)) = step GS until_sup run_sup g.
Proof. exact @step_override_eq. Qed.
Print Assumptions C09_step_override_eq.

(* replace_eps / replace_step saturate: below 0 -> 0, above n-1 -> n-1, inside unchanged (never modular) *)
Theorem C09_clip_spec : forall x n : Z, 0 < n -> (x < 0 -> clip x n = 0) /\ (0 <= x < n -> clip x n = x) /\ (n <= x -> clip x n = n - 1) /\ 0 <= clip x n < n.
Proof. exact @clip_spec. Qed.
Print Assumptions C09_clip_spec.

(* witness that clipping differs from wrapping *)
Theorem C09_clip_is_not_wrap : clip 7 5 = 4 /\ 7 mod 5 = 2 /\ clip (-3) 5 = 0 /\ -3 mod 5 = 2.
Proof. exact @clip_is_not_wrap. Qed.
Print Assumptions C09_clip_is_not_wrap.

