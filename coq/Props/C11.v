(* C11 — Interpolated delays sample the sender's signal at step time minus delay.
   Statements only; the model is Interp.v (TrainableDist.apply_delay, linear branches, over Q), proofs in InterpLaws.v. *)
From Coq Require Import QArith Qminmax ZArith List Bool Lia.
From Rex Require Import Ops Interp InterpLaws.
Import ListNotations.
Open Scope Q_scope.

Definition e0 : ent := {| e_seq := 0; e_sent := 0; e_recv := 0 |}.

(* (1) query times: entry j of the window is evaluated at the delayed arrival of the j-th sliced entry, shifted so that
   the newest one is the step's start time; exactly `window` entries *)
Theorem C11_query_times ro d t w es j : (1 <= w)%nat -> (w <= length es)%nat -> (j < w)%nat ->
  let s := start d t w es in let xs := map (mask ro d) es in
  nth j (queries ro d t w es) 0 = nth (s + j) xs 0 + (t - nth (s + (w - 1)) xs 0).
Proof. exact (fun H1 H2 => queries_nth ro d t w es H1 H2 j). Qed.
Theorem C11_newest_query_is_step_start ro d t w es : (1 <= w)%nat -> (w <= length es)%nat ->
  nth (w - 1) (queries ro d t w es) 0 == t.
Proof. exact (queries_newest ro d t w es). Qed.
Theorem C11_window_size ro d t w es fp : (1 <= w)%nat -> (w <= length es)%nat -> length (apply_linear ro d t w es fp) = w.
Proof. exact (fun _ => apply_length ro d t w es fp). Qed.

(* (2) the newest entry a step sees is the delayed signal at the step's start time -- for every slice, clamped or not,
   both variants, dummies present or not ... *)
Theorem C11_newest_value ro d t w es fp : (1 <= w)%nat -> (w <= length es)%nat ->
  nth (w - 1) (apply_linear ro d t w es fp) 0 == interp t (knots ro d es fp).
Proof. exact (apply_newest ro d t w es fp). Qed.
(* ... which, when all entries are real messages, is the sender's piecewise-linear signal at (ts_start - delay) *)
Theorem C11_newest_is_signal_at_start_minus_delay ro t w es fp d : (1 <= w)%nat -> (w <= length es)%nat ->
  length fp = length es -> (forall e, In e es -> (0 <= e_seq e)%Z) ->
  nth (w - 1) (apply_linear ro d t w es fp) 0 == interp (t - d) (signal es fp).
Proof. exact (fun H1 H2 _ H4 => newest_is_signal ro t w es fp H1 H2 H4 d). Qed.
(* older entries: the same signal, moved back by the distance (in send time) to the newest sliced message ... *)
Theorem C11_older_entries ro d t w es fp j : (1 <= w)%nat -> (w <= length es)%nat -> length fp = length es ->
  (forall e, In e es -> (0 <= e_seq e)%Z) -> (j < w)%nat ->
  let s := start d t w es in let sent i := e_sent (nth i es e0) in
  nth j (apply_linear ro d t w es fp) 0 == interp (t - d - (sent (s + (w - 1))%nat - sent (s + j)%nat)) (signal es fp).
Proof. exact (fun H1 H2 H3 H4 H5 => apply_all_real ro d t w es fp H1 H2 H3 j H4 H5). Qed.
(* ... i.e. one sender period apart for a periodic sender *)
Theorem C11_older_entries_one_period_apart ro d t w es fp s0 P j : (1 <= w)%nat -> (w <= length es)%nat ->
  length fp = length es -> (forall e, In e es -> (0 <= e_seq e)%Z) -> (j < w)%nat ->
  (forall i, (i < length es)%nat -> e_sent (nth i es e0) == s0 + inject_Z (Z.of_nat i) * P) ->
  nth j (apply_linear ro d t w es fp) 0 == interp (t - d - inject_Z (Z.of_nat (w - 1 - j)) * P) (signal es fp).
Proof. exact (fun H1 H2 H3 H4 H5 H6 => apply_periodic ro d t w es fp H1 H2 H3 s0 P j H4 H5 H6). Qed.
Print Assumptions C11_older_entries_one_period_apart.

(* (3) every seen value lies between two neighbouring messages (any query, any knots with at least two points) *)
Theorem C11_between_neighbours x pts : (2 <= length pts)%nat ->
  exists p q, adj p q pts /\ Qmin (snd p) (snd q) <= interp x pts <= Qmax (snd p) (snd q).
Proof. exact (interp_between x pts). Qed.
(* and the integer dtype restoration (round toward zero) keeps integer leaves between their integer neighbours *)
Theorem C11_int_leaf_between (a b : Z) (q : Q) : inject_Z a <= q <= inject_Z b -> (a <= trunc q <= b)%Z.
Proof. exact (trunc_between a b q). Qed.
Print Assumptions C11_between_neighbours.

(* (4) coincidence with the zero-order hold: when the newest sliced entry arrives exactly at the step's start, the
   interpolated window is the zero-order-hold window (strictly increasing knots) *)
Theorem C11_knot_eq_zoh ro d t w es fp j : (1 <= w)%nat -> (w <= length es)%nat -> length fp = length es ->
  incr (knots ro d es fp) -> (2 <= length es)%nat -> (j < w)%nat ->
  t == nth (start d t w es + (w - 1)) (map (mask ro d) es) 0 ->
  nth j (apply_linear ro d t w es fp) 0 == nth j (zoh d t w es fp) 0.
Proof. exact (fun H1 H2 H3 => apply_knot_eq_zoh ro d t w es fp H1 H2 H3 j). Qed.
(* the hypothesis above is what "the delayed arrival coincides with a message" gives: if the step starts exactly when
   entry k arrives (strictly increasing arrivals, window <= k + 1), entry k is the newest sliced entry *)
Theorem C11_coincidence_selects_that_message d t w es k : sincr (map (recv_d d) es) -> (k < length es)%nat ->
  nth k (map (recv_d d) es) 0 == t -> (1 <= w)%nat -> (w <= S k)%nat -> (start d t w es + (w - 1))%nat = k.
Proof. exact (coincidence_slice d t w es k). Qed.
Theorem C11_value_at_knot x xk yk pre post : incr (pre ++ (xk, yk) :: post) -> pre ++ post <> [] -> x == xk ->
  interp x (pre ++ (xk, yk) :: post) == yk.
Proof. exact (interp_at_knot x xk yk pre post). Qed.
(* without strictly increasing knots the clause FAILS on the pinned code: "linear", one dummy (ts_recv = 0) followed by
   message 0 sent at 0 with delay 0, step at 0: the message has arrived (zero-order hold returns it), the
   interpolation returns the dummy (jnp.interp never takes the final knot as left neighbour and dx = 0 returns fp[i-1]) *)
Theorem C11_knot_eq_zoh_duplicate_last_knot_refuted :
  exists d t w es fp, (1 <= w)%nat /\ (w <= length es)%nat /\ length fp = length es /\ nondec (knots false d es fp) /\
    t == nth (start d t w es + (w - 1)) (map (mask false d) es) 0 /\
    ~ nth 0 (apply_linear false d t w es fp) 0 == nth 0 (zoh d t w es fp) 0.
Proof. exact dup_last_knot_witness. Qed.
Theorem C11_knot_eq_zoh_dummy_slot_refuted :
  exists d t w es fp, (1 <= w)%nat /\ (w <= length es)%nat /\ length fp = length es /\ nondec (knots false d es fp) /\
    t == nth (start d t w es + (w - 1)) (map (mask false d) es) 0 /\
    nth 1 (apply_linear false d t w es fp) 0 == nth 1 (zoh d t w es fp) 0 /\
    ~ nth 0 (apply_linear false d t w es fp) 0 == nth 0 (zoh d t w es fp) 0.
Proof. exact dup_knot_dummy_slot_witness. Qed.
Print Assumptions C11_knot_eq_zoh.

(* (5) continuity in the delay: Lipschitz with any bound L on the finite-difference slopes of the signal *)
Theorem C11_interp_lipschitz L pts x x' : 0 <= L -> lip L pts -> x <= x' ->
  - (L * (x' - x)) <= interp x' pts - interp x pts <= L * (x' - x).
Proof. exact (fun H1 H2 => interp_lipschitz L pts H1 H2 x x'). Qed.
Theorem C11_continuous_in_delay ro t w es fp L d d' : (1 <= w)%nat -> (w <= length es)%nat -> length fp = length es ->
  (forall e, In e es -> (0 <= e_seq e)%Z) -> 0 <= L -> lip L (signal es fp) -> d <= d' ->
  - (L * (d' - d)) <= newest ro t w es fp d - newest ro t w es fp d' <= L * (d' - d).
Proof. exact (fun H1 H2 _ H4 => newest_lipschitz ro t w es fp H1 H2 H4 L d d'). Qed.
Theorem C11_every_entry_continuous_in_delay ro t w es fp s0 P j L d d' :
  (1 <= w)%nat -> (w <= length es)%nat -> length fp = length es -> (forall e, In e es -> (0 <= e_seq e)%Z) ->
  (forall i, (i < length es)%nat -> e_sent (nth i es e0) == s0 + inject_Z (Z.of_nat i) * P) ->
  (j < w)%nat -> 0 <= L -> lip L (signal es fp) -> d <= d' ->
  - (L * (d' - d)) <= nth j (apply_linear ro d t w es fp) 0 - nth j (apply_linear ro d' t w es fp) 0 <= L * (d' - d).
Proof. exact (entry_lipschitz ro t w es fp s0 P j L d d'). Qed.
Print Assumptions C11_every_entry_continuous_in_delay.

(* (6) derivative w.r.t. the delay: while ts_start - d stays in one segment [x0, x1] of the signal, every difference
   quotient of the seen value equals minus the finite-difference slope (y1 - y0) / (x1 - x0) *)
Theorem C11_derivative_is_minus_slope ro t w es fp d d' x0 y0 x1 y1 pre post :
  (1 <= w)%nat -> (w <= length es)%nat -> length fp = length es -> (forall e, In e es -> (0 <= e_seq e)%Z) ->
  signal es fp = pre ++ (x0, y0) :: (x1, y1) :: post -> incr (signal es fp) ->
  x0 <= t - d <= x1 -> x0 <= t - d' <= x1 ->
  newest ro t w es fp d' - newest ro t w es fp d == - ((d' - d) * ((y1 - y0) / (x1 - x0))).
Proof. exact (fun H1 H2 _ H4 => newest_affine ro t w es fp H1 H2 H4 d d' x0 y0 x1 y1 pre post). Qed.
Theorem C11_affine_on_segment x x' x0 y0 x1 y1 pre post : incr (pre ++ (x0, y0) :: (x1, y1) :: post) ->
  x0 <= x <= x1 -> x0 <= x' <= x1 ->
  interp x' (pre ++ (x0, y0) :: (x1, y1) :: post) - interp x (pre ++ (x0, y0) :: (x1, y1) :: post)
  == (x' - x) * ((y1 - y0) / (x1 - x0)).
Proof. exact (interp_affine x x' x0 y0 x1 y1 pre post). Qed.
Print Assumptions C11_derivative_is_minus_slope.

(* (7) linear_real_only: dummies are moved to -1e9; between the last dummy and the first real message (r0 >= 0) the
   value is the first real message up to (r0 - x)/1e9 of the jump, and a dummy's own slot (x = -1e9 + delta) is the
   dummy up to delta/1e9 of the jump *)
Theorem C11_real_only_mask d e :
  mask true d e = (if (e_seq e <? 0)%Z then - BIG else e_sent e + d) /\ mask false d e = recv_d d e.
Proof. exact (mask_real_only d e). Qed.
Theorem C11_real_only_masks_dummies yd r0 y0 x : 0 <= r0 -> - BIG <= x <= r0 ->
  exists c, 0 <= c /\ c <= (r0 - x) / BIG /\ c <= 1 /\ seg (- BIG) yd r0 y0 x == y0 - c * (y0 - yd) /\
            seg (- BIG) yd r0 y0 x == yd + (1 - c) * (y0 - yd) /\ 1 - c <= (x + BIG) / BIG.
Proof. exact (real_only_segment yd r0 y0 x). Qed.
Print Assumptions C11_real_only_masks_dummies.

(* ---- the hypotheses are satisfiable by a non-trivial instance: window 2 of 4 (extension 2), periodic sender (period
   1/2, first send at 1/4), delay 3/8, step at 15/8: the two entries are the signal at 1 and at 3/2 ---- *)
Definition ex_es : list ent := [ {| e_seq := 0; e_sent := 1 # 4; e_recv := 1 # 4 |}; {| e_seq := 1; e_sent := 3 # 4; e_recv := 3 # 4 |};
                                {| e_seq := 2; e_sent := 5 # 4; e_recv := 5 # 4 |}; {| e_seq := 3; e_sent := 7 # 4; e_recv := 7 # 4 |} ].
Definition ex_fp : list Q := [10; 20; 16; 40].
Example C11_instance :
  (forall e, In e ex_es -> (0 <= e_seq e)%Z) /\ incr (signal ex_es ex_fp) /\ lip 48 (signal ex_es ex_fp) /\
  (forall i, (i < length ex_es)%nat -> e_sent (nth i ex_es e0) == (1 # 4) + inject_Z (Z.of_nat i) * (1 # 2)) /\
  start (3 # 8) (15 # 8) 2 ex_es = 1%nat /\
  map Qred (apply_linear false (3 # 8) (15 # 8) 2 ex_es ex_fp) = [18; 28] /\
  map Qred (apply_linear true (3 # 8) (15 # 8) 2 ex_es ex_fp) = [18; 28] /\
  Qred (interp ((15 # 8) - (3 # 8)) (signal ex_es ex_fp)) = 28 /\
  Qred (interp ((15 # 8) - (3 # 8) - (1 # 2)) (signal ex_es ex_fp)) = 18.
Proof.
  split; [intros e [<-|[<-|[<-|[<-|[]]]]]; simpl; discriminate|].
  split; [simpl; repeat split; reflexivity|].
  split; [simpl; repeat split; discriminate|].
  split; [intros [|[|[|[|i]]]] H; [reflexivity..|simpl in H; lia]|].
  vm_compute. repeat split; reflexivity.
Qed.
(* a warm-up window with dummies, both variants (the values the real code returns for the same input) *)
Example C11_instance_dummies :
  let es := [ {| e_seq := -1; e_sent := 0; e_recv := 0 |}; {| e_seq := -1; e_sent := 0; e_recv := 0 |};
              {| e_seq := 0; e_sent := 1 # 2; e_recv := 3 # 5 |}; {| e_seq := 1; e_sent := 1; e_recv := 11 # 10 |} ] in
  map Qred (apply_linear false (1 # 4) 1 2 es [10; 10; 20; 30]) = [40 # 3; 25] /\
  map trunc (apply_linear false (1 # 4) 1 2 es [-1; -1; 0; 1]) = [0; 0]%Z /\
  map Qred (apply_linear true (1 # 4) 1 2 es [10; 10; 20; 30]) = [40000000040 # 4000000003; 25].
Proof. vm_compute. repeat split; reflexivity. Qed.
(* fewer than `window` entries have arrived (idx_max < window): dynamic_slice takes the negative start relative to the end,
   so the LAST `window` entries are sliced (start = extension), and the newest value is still the signal at ts_start - d *)
Example C11_instance_few_arrived :
  start (3 # 8) (3 # 4) 3 ex_es = 1%nat /\
  map Qred (apply_linear false (3 # 8) (3 # 4) 3 ex_es ex_fp) = [10; 10; 25 # 2] /\
  Qred (interp ((3 # 4) - (3 # 8)) (signal ex_es ex_fp)) = 25 # 2.
Proof. vm_compute. repeat split; reflexivity. Qed.
(* coincidence instance: the step starts exactly when message 2 arrives (5/4 + 3/8): the interpolated window is the
   zero-order-hold window [message 1; message 2] *)
Example C11_instance_coincidence :
  sincr (map (recv_d (3 # 8)) ex_es) /\ incr (knots false (3 # 8) ex_es ex_fp) /\
  nth 2 (map (recv_d (3 # 8)) ex_es) 0 == 13 # 8 /\ (start (3 # 8) (13 # 8) 2 ex_es + (2 - 1))%nat = 2%nat /\
  map Qred (apply_linear false (3 # 8) (13 # 8) 2 ex_es ex_fp) = [20; 16] /\ zoh (3 # 8) (13 # 8) 2 ex_es ex_fp = [20; 16].
Proof. split; [simpl; repeat split; reflexivity|]. split; [simpl; repeat split; reflexivity|]. vm_compute. repeat split; reflexivity. Qed.
