(* C15 laws about the model Dist.v *)
From Coq Require Import List ZArith QArith Bool Lia Reals Lra Permutation.
From Rex Require Import Ops Dist.
Import ListNotations.

(* ============================================================ numpy argmax of a boolean array *)
Lemma first_true_some bs i : first_true bs = Some i ->
  (i < length bs)%nat /\ nth i bs false = true /\ forall j, (j < i)%nat -> nth j bs false = false.
Proof.
  revert i. induction bs as [|b bs IH]; intros i H; [discriminate|]. simpl in H. destruct b.
  - injection H as <-. simpl. repeat split; [lia|intros; lia].
  - destruct (first_true bs) as [k|]; [|discriminate]. injection H as <-.
    destruct (IH k eq_refl) as (L & B & C). simpl. repeat split; [lia|exact B|].
    intros [|j] Hj; [reflexivity|]. apply C. lia.
Qed.
Lemma first_true_none bs : first_true bs = None -> forall b, In b bs -> b = false.
Proof.
  induction bs as [|b bs IH]; intros H x Hx; [contradiction|]. simpl in H. destruct b; [discriminate|].
  destruct (first_true bs); [discriminate|]. destruct Hx as [<-|Hx]; [reflexivity|apply IH; auto].
Qed.

(* ============================================================ the grid routine over any strict weak order *)
Section GridLaws.
Context {A : Type} (ltb : A -> A -> bool) (d : A).
Hypothesis ltb_irrefl : forall a, ltb a a = false.
Hypothesis ltb_trans : forall a b c, ltb a b = true -> ltb b c = true -> ltb a c = true.
Hypothesis ltb_negtrans : forall a b c, ltb a c = true -> ltb a b = true \/ ltb b c = true.
Local Notation leb := (leb ltb).
Local Notation lmin := (lmin ltb).
Local Notation lmax := (lmax ltb).

Lemma leb_refl a : leb a a = true.
Proof. unfold Dist.leb. now rewrite ltb_irrefl. Qed.
Lemma ltb_leb a b : ltb a b = true -> leb a b = true.
Proof.
  intros H. unfold Dist.leb. destruct (ltb b a) eqn:E; [|reflexivity].
  pose proof (ltb_trans _ _ _ H E) as F. now rewrite ltb_irrefl in F.
Qed.
Lemma leb_total a b : leb a b = true \/ leb b a = true.
Proof. unfold Dist.leb. destruct (ltb b a) eqn:E; [right|left; reflexivity]. apply ltb_leb in E. exact E. Qed.
Lemma le_lt_trans a b c : leb a b = true -> ltb b c = true -> ltb a c = true.
Proof.
  unfold Dist.leb. intros H1 H2. destruct (ltb_negtrans b a c H2) as [H|H]; [|exact H].
  rewrite H in H1. discriminate.
Qed.
Lemma lt_le_trans a b c : ltb a b = true -> leb b c = true -> ltb a c = true.
Proof.
  unfold Dist.leb. intros H1 H2. destruct (ltb_negtrans a c b H1) as [H|H]; [exact H|].
  rewrite H in H2. discriminate.
Qed.
Lemma leb_trans a b c : leb a b = true -> leb b c = true -> leb a c = true.
Proof.
  intros H1 H2. unfold Dist.leb. destruct (ltb c a) eqn:E; [|reflexivity].
  pose proof (lt_le_trans _ _ _ E H1) as F. unfold Dist.leb in H2. rewrite F in H2. discriminate.
Qed.

Lemma lmin_spec x xs : leb (lmin x xs) x = true /\ (forall y, In y xs -> leb (lmin x xs) y = true) /\ In (lmin x xs) (x :: xs).
Proof.
  revert x. induction xs as [|y xs IH]; intros x.
  - simpl. repeat split; [apply leb_refl|intros ? []|left; reflexivity].
  - unfold Dist.lmin. simpl. fold (lmin (if ltb y x then y else x) xs).
    destruct (IH (if ltb y x then y else x)) as (I1 & I2 & I3).
    assert (Hx : leb (if ltb y x then y else x) x = true) by (destruct (ltb y x) eqn:E; [apply ltb_leb; exact E|apply leb_refl]).
    assert (Hy : leb (if ltb y x then y else x) y = true).
    { destruct (ltb y x) eqn:E; [apply leb_refl|]. unfold Dist.leb. now rewrite E. }
    repeat split.
    + eapply leb_trans; eauto.
    + intros z [<-|Hz]; [eapply leb_trans; eauto|apply I2; exact Hz].
    + destruct I3 as [I3|I3]; [|right; right; exact I3]. rewrite <- I3. destruct (ltb y x); [right; left|left]; reflexivity.
Qed.
Lemma lmax_spec x xs : leb x (lmax x xs) = true /\ (forall y, In y xs -> leb y (lmax x xs) = true) /\ In (lmax x xs) (x :: xs).
Proof.
  revert x. induction xs as [|y xs IH]; intros x.
  - simpl. repeat split; [apply leb_refl|intros ? []|left; reflexivity].
  - unfold Dist.lmax. simpl. fold (lmax (if ltb x y then y else x) xs).
    destruct (IH (if ltb x y then y else x)) as (I1 & I2 & I3).
    assert (Hx : leb x (if ltb x y then y else x) = true) by (destruct (ltb x y) eqn:E; [apply ltb_leb; exact E|apply leb_refl]).
    assert (Hy : leb y (if ltb x y then y else x) = true).
    { destruct (ltb x y) eqn:E; [apply leb_refl|]. unfold Dist.leb. now rewrite E. }
    repeat split.
    + eapply leb_trans; eauto.
    + intros z [<-|Hz]; [eapply leb_trans; eauto|apply I2; exact Hz].
    + destruct I3 as [I3|I3]; [|right; right; exact I3]. rewrite <- I3. destruct (ltb x y); [right; left|left]; reflexivity.
Qed.

(* what the guard of the code establishes for every requested level *)
Lemma grid_check_bounds probs cs p : grid_check ltb probs cs = true -> In p probs ->
  (exists c, In c cs /\ leb c p = true) /\ (exists c, In c cs /\ leb p c = true).
Proof.
  unfold grid_check. destruct probs as [|p0 ps]; [discriminate|]. destruct cs as [|c0 cs]; [discriminate|].
  intros H Hp. apply andb_prop in H. destruct H as [H1 H2].
  destruct (lmin_spec c0 cs) as (_ & _ & M3). destruct (lmax_spec c0 cs) as (_ & _ & X3).
  destruct (lmin_spec p0 ps) as (P1 & P2 & _). destruct (lmax_spec p0 ps) as (Q1 & Q2 & _).
  split.
  - exists (lmin c0 cs). split; [exact M3|]. eapply leb_trans; [exact H1|]. destruct Hp as [<-|Hp]; [exact P1|apply P2; exact Hp].
  - exists (lmax c0 cs). split; [exact X3|]. eapply leb_trans; [|exact H2]. destruct Hp as [<-|Hp]; [exact Q1|apply Q2; exact Hp].
Qed.

Lemma first_above_some p cs i : first_true (above ltb p cs) = Some i ->
  (i < length cs)%nat /\ ltb p (nth i cs d) = true /\ forall j, (j < i)%nat -> ltb p (nth j cs d) = false.
Proof.
  revert i. induction cs as [|c cs IH]; intros i H; [discriminate|]. simpl in H. destruct (ltb p c) eqn:E.
  - injection H as <-. simpl. repeat split; [lia|exact E|intros; lia].
  - destruct (first_true (above ltb p cs)) as [k|] eqn:F; [|discriminate]. injection H as <-.
    destruct (IH k eq_refl) as (L & B & C). simpl. repeat split; [lia|exact B|].
    intros [|j] Hj; [exact E|]. apply C. lia.
Qed.
Lemma first_above_none p cs : first_true (above ltb p cs) = None -> forall c, In c cs -> ltb p c = false.
Proof.
  intros H c Hc. apply (first_true_none _ H). unfold above. apply in_map_iff. exists c. split; [reflexivity|exact Hc].
Qed.
Lemma first_above_exists p cs : (exists c, In c cs /\ ltb p c = true) -> exists i, first_true (above ltb p cs) = Some i.
Proof.
  intros (c & Hc & Hp). destruct (first_true (above ltb p cs)) as [i|] eqn:E; [eauto|].
  rewrite (first_above_none _ _ E c Hc) in Hp. discriminate.
Qed.

(* the returned index brackets the level: value(previous points) <= p < value(returned point) *)
Theorem grid_index_spec p cs : (exists c, In c cs /\ ltb p c = true) ->
  let i := grid_index ltb p cs in
  (i < length cs)%nat /\ ltb p (nth i cs d) = true /\ forall j, (j < i)%nat -> ltb p (nth j cs d) = false.
Proof.
  intros Hex. destruct (first_above_exists _ _ Hex) as (i & E). unfold grid_index, np_argmax_bool. rewrite E.
  exact (first_above_some _ _ _ E).
Qed.

(* non-decreasing in the level, as long as some grid value exceeds the larger level *)
Theorem grid_index_mono p p' cs : leb p p' = true -> (exists c, In c cs /\ ltb p' c = true) ->
  (grid_index ltb p cs <= grid_index ltb p' cs)%nat.
Proof.
  intros Hle Hex.
  assert (Hex' : exists c, In c cs /\ ltb p c = true).
  { destruct Hex as (c & Hc & Hp). exists c. split; [exact Hc|]. eapply le_lt_trans; eauto. }
  destruct (grid_index_spec p cs Hex') as (_ & _ & B). destruct (grid_index_spec p' cs Hex) as (_ & A' & _).
  destruct (le_lt_dec (grid_index ltb p cs) (grid_index ltb p' cs)) as [|l]; [assumption|].
  specialize (B _ l). rewrite (le_lt_trans _ _ _ Hle A') in B. discriminate.
Qed.

(* the corner the guard lets through: no grid value exceeds p (p = max grid value): index 0 *)
Lemma grid_index_none_above p cs : (forall c, In c cs -> ltb p c = false) -> grid_index ltb p cs = 0%nat.
Proof.
  intros H. unfold grid_index, np_argmax_bool. destruct (first_true (above ltb p cs)) as [i|] eqn:E; [|reflexivity].
  destruct (first_above_some _ _ _ E) as (L & B & _). rewrite (H _ (nth_In cs d L)) in B. discriminate.
Qed.

(* ---- the repaired index *)
Theorem grid_index_fix_spec p cs : cs <> [] ->
  let i := grid_index_fix ltb p cs in
  (i < length cs)%nat /\ (forall j, (j < i)%nat -> ltb p (nth j cs d) = false) /\
  ((ltb p (nth i cs d) = true) \/ (i = (length cs - 1)%nat /\ forall c, In c cs -> ltb p c = false)).
Proof.
  intros Hne. unfold grid_index_fix, argmax_or_last. destruct (first_true (above ltb p cs)) as [i|] eqn:E.
  - destruct (first_above_some _ _ _ E) as (L & B & C). auto.
  - unfold above. rewrite map_length. pose proof (first_above_none _ _ E) as N.
    assert (length cs <> 0)%nat by (destruct cs; [congruence|simpl; lia]).
    repeat split; [lia| |right; split; [reflexivity|exact N]].
    intros j Hj. apply N. apply nth_In. lia.
Qed.
Lemma grid_index_fix_agrees p cs : (exists c, In c cs /\ ltb p c = true) -> grid_index_fix ltb p cs = grid_index ltb p cs.
Proof.
  intros Hex. destruct (first_above_exists _ _ Hex) as (i & E). unfold grid_index_fix, grid_index, argmax_or_last, np_argmax_bool.
  now rewrite E.
Qed.
Theorem grid_index_fix_mono p p' cs : leb p p' = true -> cs <> [] ->
  (grid_index_fix ltb p cs <= grid_index_fix ltb p' cs)%nat.
Proof.
  intros Hle Hne. destruct (grid_index_fix_spec p cs Hne) as (L & B & _).
  destruct (grid_index_fix_spec p' cs Hne) as (L' & _ & [A'|[A' _]]); [|lia].
  destruct (le_lt_dec (grid_index_fix ltb p cs) (grid_index_fix ltb p' cs)) as [|l]; [assumption|].
  specialize (B _ l). rewrite (le_lt_trans _ _ _ Hle A') in B. discriminate.
Qed.
End GridLaws.

(* instances of the order hypotheses *)
Lemma Zltb_irrefl a : Z.ltb a a = false. Proof. apply Z.ltb_irrefl. Qed.
Lemma Zltb_trans a b c : Z.ltb a b = true -> Z.ltb b c = true -> Z.ltb a c = true. Proof. lia. Qed.
Lemma Zltb_negtrans a b c : Z.ltb a c = true -> Z.ltb a b = true \/ Z.ltb b c = true. Proof. lia. Qed.

(* pinned code, abstract grid: both levels pass the guard, the larger level gets the smaller grid point *)
Lemma grid_quantile_mono_refuted_Z :
  grid_quantiles Z.ltb 0%Z (grid_index Z.ltb) [5%Z] [10; 20; 30]%Z [1; 5; 9]%Z = Some [30%Z] /\
  grid_quantiles Z.ltb 0%Z (grid_index Z.ltb) [9%Z] [10; 20; 30]%Z [1; 5; 9]%Z = Some [10%Z].
Proof. split; reflexivity. Qed.
Lemma grid_quantile_fix_example_Z :
  grid_quantiles Z.ltb 0%Z (grid_index_fix Z.ltb) [5%Z; 9%Z] [10; 20; 30]%Z [1; 5; 9]%Z = Some [30%Z; 30%Z].
Proof. reflexivity. Qed.

(* ============================================================ real-valued layer *)
Open Scope R_scope.
Lemma Rltb_true a b : Rltb a b = true <-> a < b.
Proof. unfold Rltb. destruct (Rlt_dec a b); split; intros; try assumption; try reflexivity; [discriminate|contradiction]. Qed.
Lemma Rltb_false a b : Rltb a b = false <-> b <= a.
Proof. unfold Rltb. destruct (Rlt_dec a b); split; intros; try reflexivity; try discriminate; lra. Qed.
Lemma Rleb_true a b : leb Rltb a b = true <-> a <= b.
Proof. unfold leb. rewrite negb_true_iff. apply Rltb_false. Qed.
Lemma Rltb_irrefl a : Rltb a a = false. Proof. apply Rltb_false. lra. Qed.
Lemma Rltb_trans a b c : Rltb a b = true -> Rltb b c = true -> Rltb a c = true.
Proof. rewrite !Rltb_true. lra. Qed.
Lemma Rltb_negtrans a b c : Rltb a c = true -> Rltb a b = true \/ Rltb b c = true.
Proof. rewrite !Rltb_true. intros. destruct (Rlt_dec a b); [left; assumption|right; lra]. Qed.

Lemma nth_map_lt {X Y} (f : X -> Y) l i dx dy : (i < length l)%nat -> nth i (map f l) dy = f (nth i l dx).
Proof. intros H. rewrite (nth_indep _ dy (f dx)); [apply map_nth|now rewrite map_length]. Qed.

(* ---- linspace *)
Lemma linspace_length a b n : length (linspace a b n) = n.
Proof. unfold linspace. now rewrite map_length, seq_length. Qed.
Lemma linspace_nth a b n i : (i < n)%nat -> nth i (linspace a b n) 0 = a + INR i * ((b - a) / INR (n - 1)).
Proof.
  intros H. unfold linspace. rewrite (nth_map_lt _ _ _ 0%nat 0); [|now rewrite seq_length]. now rewrite seq_nth.
Qed.
Lemma linspace_sorted a b n i j : a <= b -> (i <= j)%nat -> (j < n)%nat -> nth i (linspace a b n) 0 <= nth j (linspace a b n) 0.
Proof.
  intros Hab Hij Hj. rewrite !linspace_nth by lia.
  assert (0 <= (b - a) / INR (n - 1)).
  { destruct (Nat.eq_dec (n - 1) 0) as [->|Hn]; [simpl; unfold Rdiv; rewrite Rinv_0; lra|].
    apply Rmult_le_pos; [lra|]. left. apply Rinv_0_lt_compat. apply lt_0_INR. lia. }
  apply le_INR in Hij. nra.
Qed.
Lemma linspace_last a b n : (2 <= n)%nat -> nth (n - 1) (linspace a b n) 0 = b.
Proof.
  intros H. rewrite linspace_nth by lia. assert (0 < INR (n - 1)) by (apply lt_0_INR; lia). field. lra.
Qed.

Section RealLaws.
Variables Phi Phinv : R -> R.
Hypothesis Phi_incr : forall x y, x < y -> Phi x < Phi y.
Hypothesis Phi_inv_r : forall q, 0 < q < 1 -> Phi (Phinv q) = q.

Lemma Phi_mono x y : x <= y -> Phi x <= Phi y.
Proof. intros [H| ->]; [left; apply Phi_incr; exact H|lra]. Qed.
Lemma Phi_inj_lt x y : Phi x < Phi y -> x < y.
Proof. intros H. destruct (Rlt_dec x y); [assumption|]. assert (y <= x) by lra. pose proof (Phi_mono _ _ H0). lra. Qed.
Lemma Phinv_incr q q' : 0 < q -> q < q' -> q' < 1 -> Phinv q < Phinv q'.
Proof. intros. apply Phi_inj_lt. rewrite !Phi_inv_r; lra. Qed.
Lemma Phinv_mono q q' : 0 < q -> q <= q' -> q' < 1 -> Phinv q <= Phinv q'.
Proof. intros H0 [H| ->] H1; [left; apply Phinv_incr; assumption|lra]. Qed.

(* ---- Deterministic *)
Theorem det_quantile_exact loc q : 0 < q <= 1 ->
  static_quantile Phi Phinv (Det loc) q = Some loc /\ q <= det_cdf loc loc /\ forall y, y < loc -> det_cdf loc y < q.
Proof.
  intros Hq. unfold static_quantile, det_cdf. repeat split.
  - f_equal. ring.
  - destruct (Rle_dec loc loc); lra.
  - intros y Hy. destruct (Rle_dec loc y); lra.
Qed.

(* ---- Normal *)
Theorem normal_quantile_cdf loc scale q : 0 < scale -> 0 < q < 1 ->
  normal_cdf Phi loc scale (normal_quantile Phinv q loc scale) = q.
Proof.
  intros Hs Hq. unfold normal_cdf, normal_quantile. replace ((Phinv q * scale + loc - loc) / scale) with (Phinv q) by (field; lra).
  apply Phi_inv_r. exact Hq.
Qed.
Lemma normal_cdf_incr loc scale x y : 0 < scale -> x < y -> normal_cdf Phi loc scale x < normal_cdf Phi loc scale y.
Proof.
  intros Hs H. unfold normal_cdf. apply Phi_incr. unfold Rdiv. apply Rmult_lt_compat_r; [apply Rinv_0_lt_compat; exact Hs|lra].
Qed.
Lemma normal_cdf_mono loc scale x y : 0 < scale -> x <= y -> normal_cdf Phi loc scale x <= normal_cdf Phi loc scale y.
Proof. intros Hs [H| ->]; [left; apply normal_cdf_incr; assumption|lra]. Qed.
(* the value returned is the only point whose CDF is q *)
Theorem normal_quantile_unique loc scale q x : 0 < scale -> 0 < q < 1 ->
  normal_cdf Phi loc scale x = q -> x = normal_quantile Phinv q loc scale.
Proof.
  intros Hs Hq Hx. pose proof (normal_quantile_cdf loc scale q Hs Hq) as H.
  destruct (Rtotal_order x (normal_quantile Phinv q loc scale)) as [L|[E|G]]; [|exact E|].
  - pose proof (normal_cdf_incr loc scale _ _ Hs L). lra.
  - pose proof (normal_cdf_incr loc scale _ _ Hs G). lra.
Qed.
Theorem normal_quantile_mono loc scale q q' : 0 <= scale -> 0 < q -> q <= q' -> q' < 1 ->
  normal_quantile Phinv q loc scale <= normal_quantile Phinv q' loc scale.
Proof. intros Hs H0 H H1. unfold normal_quantile. pose proof (Phinv_mono q q' H0 H H1). nra. Qed.
Theorem normal_quantile_scale0 loc q : normal_quantile Phinv q loc 0 = loc.
Proof. unfold normal_quantile. ring. Qed.

(* ---- mixtures *)
Definition comps_ok (comps : list (R * (R * R))) : Prop := Forall (fun c => 0 <= fst c /\ 0 < snd (snd c)) comps.
Definition comps_pos (comps : list (R * (R * R))) : Prop := comps <> [] /\ Forall (fun c => 0 < fst c /\ 0 < snd (snd c)) comps.
Lemma comps_pos_ok comps : comps_pos comps -> comps_ok comps.
Proof. intros [_ H]. eapply Forall_impl; [|exact H]. simpl. intros ? []. split; lra. Qed.
Lemma mix_cdf_mono comps x y : comps_ok comps -> x <= y -> mix_cdf Phi comps x <= mix_cdf Phi comps y.
Proof.
  intros H Hxy. induction H as [|c l [Hw Hs] _ IH]; simpl; [lra|].
  pose proof (normal_cdf_mono (fst (snd c)) (snd (snd c)) x y Hs Hxy). nra.
Qed.
Lemma mix_cdf_incr comps x y : comps_pos comps -> x < y -> mix_cdf Phi comps x < mix_cdf Phi comps y.
Proof.
  intros [Hne H] Hxy. induction H as [|c l [Hw Hs] Hl IH]; [congruence|]. simpl.
  pose proof (normal_cdf_incr (fst (snd c)) (snd (snd c)) x y Hs Hxy).
  assert (mix_cdf Phi l x <= mix_cdf Phi l y).
  { destruct l as [|c' l']; [simpl; lra|]. left. apply IH. congruence. }
  nra.
Qed.

Lemma mix_n_ge2 : (2 <= mix_n)%nat. Proof. unfold mix_n. lia. Qed.
Global Opaque mix_n.

Section MixGrid.
Variable comps : list (R * (R * R)).
Let F := mix_cdf Phi comps.
Let gs := mix_grid Phinv comps.
Let a := mix_grid_min Phinv comps.
Let b := mix_grid_max Phinv comps.
Let h := (b - a) / INR (mix_n - 1).
Hypothesis Hok : comps_ok comps.
Hypothesis Hab : a <= b.

Lemma gs_length : length gs = mix_n. Proof. apply linspace_length. Qed.
Lemma gs_nth i : (i < mix_n)%nat -> nth i gs 0 = a + INR i * h.
Proof. intros H. unfold gs, mix_grid. rewrite linspace_nth by exact H. reflexivity. Qed.
Lemma gs_sorted i j : (i <= j)%nat -> (j < mix_n)%nat -> nth i gs 0 <= nth j gs 0.
Proof. intros. apply linspace_sorted; assumption. Qed.
Lemma cs_nth i : (i < mix_n)%nat -> nth i (map F gs) 0 = F (nth i gs 0).
Proof. intros. apply nth_map_lt. now rewrite gs_length. Qed.

Lemma mix_quantile_inv idx q x : mix_quantile_with Phi Phinv idx comps q = Some x ->
  grid_check Rltb [q] (map F gs) = true /\ x = nth (idx q (map F gs)) gs 0.
Proof.
  unfold mix_quantile_with, grid_quantiles. fold gs. fold F. destruct (grid_check Rltb [q] (map F gs)); [|discriminate].
  simpl. intros H. injection H as <-. split; reflexivity.
Qed.
Lemma guard_low q : grid_check Rltb [q] (map F gs) = true -> F (nth 0 gs 0) <= q.
Proof.
  intros H. destruct (grid_check_bounds Rltb Rltb_irrefl Rltb_trans Rltb_negtrans [q] _ q H (or_introl eq_refl)) as [(c & Hc & Hle) _].
  apply Rleb_true in Hle. apply (In_nth _ _ 0) in Hc. destruct Hc as (j & Hj & <-). rewrite map_length, gs_length in Hj.
  rewrite cs_nth in Hle by exact Hj. eapply Rle_trans; [|exact Hle]. apply mix_cdf_mono; [exact Hok|]. apply gs_sorted; lia.
Qed.
Lemma guard_high q : grid_check Rltb [q] (map F gs) = true -> q <= F (nth (mix_n - 1) gs 0).
Proof.
  intros H. destruct (grid_check_bounds Rltb Rltb_irrefl Rltb_trans Rltb_negtrans [q] _ q H (or_introl eq_refl)) as [_ (c & Hc & Hle)].
  apply Rleb_true in Hle. apply (In_nth _ _ 0) in Hc. destruct Hc as (j & Hj & <-). rewrite map_length, gs_length in Hj.
  rewrite cs_nth in Hle by exact Hj. eapply Rle_trans; [exact Hle|]. apply mix_cdf_mono; [exact Hok|]. apply gs_sorted; lia.
Qed.
Lemma above_iff q : (exists g, In g gs /\ q < F g) <-> exists c, In c (map F gs) /\ Rltb q c = true.
Proof.
  split.
  - intros (g & Hg & Hq). exists (F g). split; [apply in_map; exact Hg|apply Rltb_true; exact Hq].
  - intros (c & Hc & Hq). apply in_map_iff in Hc. destruct Hc as (g & <- & Hg). exists g. split; [exact Hg|apply Rltb_true; exact Hq].
Qed.

(* pinned code: whenever some grid point has CDF above q, the result x is a grid point with
   F(x - h) <= q < F(x), h the grid step *)
Theorem mix_quantile_bracket q x : static_quantile Phi Phinv (Mix comps) q = Some x -> (exists g, In g gs /\ q < F g) ->
  In x gs /\ q < F x /\ F (x - h) <= q.
Proof.
  unfold static_quantile. intros H Hex. destruct (mix_quantile_inv _ _ _ H) as (G & ->). apply above_iff in Hex.
  destruct (grid_index_spec Rltb 0 q _ Hex) as (L & A & B).
  rewrite map_length, gs_length in L. set (i := grid_index Rltb q (map F gs)) in *.
  rewrite cs_nth in A by exact L. apply Rltb_true in A.
  assert (i <> 0)%nat. { intros E. rewrite E in A. pose proof (guard_low q G). lra. }
  repeat split; [apply nth_In; rewrite gs_length; exact L|exact A|].
  assert (Hp : (i - 1 < i)%nat) by lia. specialize (B _ Hp). rewrite cs_nth in B by lia. apply Rltb_false in B.
  replace (nth i gs 0 - h) with (nth (i - 1) gs 0); [exact B|].
  rewrite !gs_nth by lia. rewrite minus_INR by lia. simpl. ring.
Qed.
(* hence within one grid step of the true quantile *)
Corollary mix_quantile_within_step q x xs : comps_pos comps -> static_quantile Phi Phinv (Mix comps) q = Some x ->
  (exists g, In g gs /\ q < F g) -> F xs = q -> x - h <= xs < x.
Proof.
  intros Hpos H Hex Hxs. destruct (mix_quantile_bracket q x H Hex) as (_ & A & B). split.
  - destruct (Rle_dec (x - h) xs); [assumption|]. assert (xs < x - h) by lra.
    pose proof (mix_cdf_incr comps _ _ Hpos H0). fold F in H1. lra.
  - destruct (Rlt_dec xs x); [assumption|]. assert (x <= xs) by lra.
    pose proof (mix_cdf_mono comps _ _ Hok H0). fold F in H1. lra.
Qed.
(* pinned code: monotone in q as long as some grid point has CDF above the larger level *)
Theorem mix_quantile_mono_partial q q' x x' : q <= q' ->
  static_quantile Phi Phinv (Mix comps) q = Some x -> static_quantile Phi Phinv (Mix comps) q' = Some x' ->
  (exists g, In g gs /\ q' < F g) -> x <= x'.
Proof.
  unfold static_quantile. intros Hq H H' Hex. destruct (mix_quantile_inv _ _ _ H) as (_ & ->). destruct (mix_quantile_inv _ _ _ H') as (_ & ->).
  apply above_iff in Hex.
  pose proof (grid_index_mono Rltb 0 Rltb_negtrans q q' _ (proj2 (Rleb_true _ _) Hq) Hex) as M.
  destruct (grid_index_spec Rltb 0 q' _ Hex) as (L & _ & _).
  rewrite map_length, gs_length in L. apply gs_sorted; [exact M|exact L].
Qed.
(* repaired code: monotone in q without side condition, and exact at the corner *)
Theorem mix_quantile_fix_mono q q' x x' : q <= q' ->
  static_quantile_fix Phi Phinv (Mix comps) q = Some x -> static_quantile_fix Phi Phinv (Mix comps) q' = Some x' -> x <= x'.
Proof.
  unfold static_quantile_fix. intros Hq H H'. destruct (mix_quantile_inv _ _ _ H) as (_ & ->). destruct (mix_quantile_inv _ _ _ H') as (_ & ->).
  assert (Hne : map F gs <> []). { intros E. apply (f_equal (@length R)) in E. rewrite map_length, gs_length in E. discriminate. }
  pose proof (grid_index_fix_mono Rltb 0 Rltb_negtrans q q' _ (proj2 (Rleb_true _ _) Hq) Hne) as M.
  destruct (grid_index_fix_spec Rltb 0 q' _ Hne) as (L & _ & _).
  rewrite map_length, gs_length in L. apply gs_sorted; [exact M|exact L].
Qed.
Theorem mix_quantile_fix_bracket q x : static_quantile_fix Phi Phinv (Mix comps) q = Some x ->
  In x gs /\ ((q < F x /\ F (x - h) <= q) \/ (x = b /\ F x = q)).
Proof.
  unfold static_quantile_fix. intros H. destruct (mix_quantile_inv _ _ _ H) as (G & ->).
  assert (Hne : map F gs <> []). { intros E. apply (f_equal (@length R)) in E. rewrite map_length, gs_length in E. discriminate. }
  destruct (grid_index_fix_spec Rltb 0 q _ Hne) as (L & B & C). rewrite map_length, gs_length in L.
  set (i := grid_index_fix Rltb q (map F gs)) in *. split; [apply nth_In; rewrite gs_length; exact L|].
  destruct C as [A|[E N]].
  - left. rewrite cs_nth in A by exact L. apply Rltb_true in A.
    assert (i <> 0)%nat. { intros E. rewrite E in A. pose proof (guard_low q G). lra. }
    split; [exact A|]. assert (Hp : (i - 1 < i)%nat) by lia. specialize (B _ Hp). rewrite cs_nth in B by lia. apply Rltb_false in B.
    replace (nth i gs 0 - h) with (nth (i - 1) gs 0); [exact B|]. rewrite !gs_nth by lia. rewrite minus_INR by lia. simpl. ring.
  - right. rewrite map_length, gs_length in E. simpl in E. rewrite E. split.
    + unfold gs, mix_grid. apply (linspace_last a b mix_n). exact mix_n_ge2.
    + apply Rle_antisym; [|apply guard_high; exact G]. apply Rltb_false. apply N. apply in_map. apply nth_In. rewrite gs_length. lia.
Qed.
End MixGrid.

(* the grid is well oriented whenever every component's 0.001-quantile is non-negative (delays) *)
Lemma lmin_le_lmax x xs y ys : (exists u, In u (x :: xs) /\ exists v, In v (y :: ys) /\ u <= v) -> lmin Rltb x xs <= lmax Rltb y ys.
Proof.
  intros (u & Hu & v & Hv & Huv).
  destruct (lmin_spec Rltb Rltb_irrefl Rltb_trans Rltb_negtrans x xs) as (A1 & A2 & _).
  destruct (lmax_spec Rltb Rltb_irrefl Rltb_trans Rltb_negtrans y ys) as (B1 & B2 & _).
  assert (lmin Rltb x xs <= u) by (destruct Hu as [<-|Hu]; apply Rleb_true; auto).
  assert (v <= lmax Rltb y ys) by (destruct Hv as [<-|Hv]; apply Rleb_true; auto). lra.
Qed.
Theorem mix_grid_oriented comps : comps_ok comps ->
  Forall (fun c => 0 <= comp_q Phinv (1 / 1000) c) comps -> mix_grid_min Phinv comps <= mix_grid_max Phinv comps.
Proof.
  intros Hok Hnn. assert (Hz : Phinv (1 / 1000) <= Phinv (999 / 1000)) by (apply Phinv_mono; lra).
  unfold mix_grid_min, mix_grid_max. destruct comps as [|c cs]; [simpl; lra|].
  change (lmin Rltb (comp_q Phinv (1 / 1000) c) (map (comp_q Phinv (1 / 1000)) cs) * (9 / 10) <=
          lmax Rltb (comp_q Phinv (999 / 1000) c) (map (comp_q Phinv (999 / 1000)) cs) * (11 / 10)).
  set (lo := lmin Rltb _ _). set (hi := lmax Rltb _ _).
  assert (Hlh : lo <= hi).
  { apply lmin_le_lmax. exists (comp_q Phinv (1 / 1000) c). split; [left; reflexivity|].
    exists (comp_q Phinv (999 / 1000) c). split; [left; reflexivity|]. unfold comp_q.
    inversion Hok as [|? ? [_ Hs] _]; subst. apply Rplus_le_compat_r, Rmult_le_compat_r; lra. }
  assert (0 <= lo).
  { destruct (lmin_spec Rltb Rltb_irrefl Rltb_trans Rltb_negtrans (comp_q Phinv (1 / 1000) c) (map (comp_q Phinv (1 / 1000)) cs)) as (_ & _ & Hin).
    fold lo in Hin. change (In lo (map (comp_q Phinv (1 / 1000)) (c :: cs))) in Hin. apply in_map_iff in Hin.
    destruct Hin as (c' & <- & Hc'). rewrite Forall_forall in Hnn. apply Hnn. exact Hc'. }
  lra.
Qed.

(* ---- all three families: monotone in the level (pinned code: mixtures need the side condition) *)
Theorem static_quantile_mono_partial d q q' x x' : 0 < q -> q <= q' -> q' < 1 ->
  match d with Det _ => True | Norm _ s => 0 <= s
  | Mix comps => comps_ok comps /\ mix_grid_min Phinv comps <= mix_grid_max Phinv comps /\
                 exists g, In g (mix_grid Phinv comps) /\ q' < mix_cdf Phi comps g end ->
  static_quantile Phi Phinv d q = Some x -> static_quantile Phi Phinv d q' = Some x' -> x <= x'.
Proof.
  intros H0 Hq H1 Hd H H'. destruct d as [l|l s|comps].
  - simpl in *. injection H as <-. injection H' as <-. lra.
  - simpl in *. injection H as <-. injection H' as <-. apply normal_quantile_mono; assumption.
  - destruct Hd as (Hok & Hab & Hex). exact (mix_quantile_mono_partial comps Hab q q' x x' Hq H H' Hex).
Qed.
Theorem static_quantile_fix_mono d q q' x x' : 0 < q -> q <= q' -> q' < 1 ->
  match d with Det _ => True | Norm _ s => 0 <= s
  | Mix comps => comps_ok comps /\ mix_grid_min Phinv comps <= mix_grid_max Phinv comps end ->
  static_quantile_fix Phi Phinv d q = Some x -> static_quantile_fix Phi Phinv d q' = Some x' -> x <= x'.
Proof.
  intros H0 Hq H1 Hd H H'. destruct d as [l|l s|comps].
  - simpl in *. injection H as <-. injection H' as <-. lra.
  - simpl in *. injection H as <-. injection H' as <-. apply normal_quantile_mono; assumption.
  - destruct Hd as (Hok & Hab). exact (mix_quantile_fix_mono comps Hab q q' x x' Hq H H').
Qed.
End RealLaws.

(* ============================================================ sampling *)
Section SampleLawsGen.
Context {K D A : Type} (O : ops A) (split : K -> K * K) (draw : D -> K -> nat -> list A).
Local Notation sample := (static_sample O split draw).
Local Notation stream := (sample_stream O split draw).
(* the new state carries the first half of the split key, the draw uses the second half; the distribution is unchanged *)
Theorem sample_advances_key st n :
  fst (sample st n) = (fst st, fst (split (snd st))) /\
  snd (sample st n) = map (clip0 O) (draw (fst st) (snd (split (snd st))) n).
Proof. unfold static_sample. destruct (split (snd st)) as [k1 k2]. split; reflexivity. Qed.
(* the key chain does not depend on the shapes drawn *)
Theorem stream_key st ns : fst (stream st ns) = (fst st, Nat.iter (length ns) (fun k => fst (split k)) (snd st)).
Proof.
  revert st. induction ns as [|n ns IH]; intros st; [destruct st; reflexivity|]. simpl.
  destruct (sample st n) as [st1 xs] eqn:E. specialize (IH st1). destruct (stream st1 ns) as [st2 r]. simpl in *. rewrite IH.
  pose proof (proj1 (sample_advances_key st n)) as Hk. rewrite E in Hk. simpl in Hk. rewrite Hk. simpl. f_equal.
  clear. induction (length ns); simpl; [reflexivity|]. now rewrite IHn.
Qed.
(* replay: what is drawn after reset(k) depends only on the distribution and k *)
Theorem reset_replays (st st' : D * K) k ns : fst st = fst st' ->
  stream (static_reset st k) ns = stream (static_reset st' k) ns.
Proof. intros H. unfold static_reset. now rewrite H. Qed.
Theorem reset_keeps_dist (st : D * K) (k : K) : fst (static_reset st k) = fst st /\ snd (static_reset st k) = k.
Proof. split; reflexivity. Qed.
End SampleLawsGen.

Section SampleLawsR.
Context {K D : Type} (split : K -> K * K) (draw : D -> K -> nat -> list R).
Lemma clip0_nonneg x : 0 <= clip0 Rops x.
Proof. unfold clip0. simpl. apply Rmax_r. Qed.
Lemma clip0_id x : 0 <= x -> clip0 Rops x = x.
Proof. intros H. unfold clip0. simpl. apply Rmax_left. exact H. Qed.
Theorem sample_nonneg st n : Forall (fun x => 0 <= x) (snd (static_sample Rops split draw st n)).
Proof.
  rewrite (proj2 (sample_advances_key Rops split draw st n)). apply Forall_forall. intros x Hx.
  apply in_map_iff in Hx. destruct Hx as (y & <- & _). apply clip0_nonneg.
Qed.
Theorem stream_nonneg st ns : Forall (Forall (fun x => 0 <= x)) (snd (sample_stream Rops split draw st ns)).
Proof.
  revert st. induction ns as [|n ns IH]; intros st; [constructor|]. simpl.
  pose proof (sample_nonneg st n) as H. destruct (static_sample Rops split draw st n) as [st1 xs].
  specialize (IH st1). destruct (sample_stream Rops split draw st1 ns) as [st2 r]. simpl in *. constructor; assumption.
Qed.
End SampleLawsR.

(* ============================================================ TrainableDist and the default expected delay *)
Theorem trainable_sample_const mn mx alpha n :
  length (trainable_sample Rops mn mx alpha n) = n /\
  Forall (fun x => x = trainable_value Rops mn mx alpha) (trainable_sample Rops mn mx alpha n) /\
  (forall q, trainable_quantile Rops mn mx alpha q = trainable_value Rops mn mx alpha) /\
  trainable_mean Rops mn mx alpha = trainable_value Rops mn mx alpha.
Proof.
  unfold trainable_sample. repeat split; [apply repeat_length|].
  apply Forall_forall. intros x Hx. apply repeat_spec in Hx. exact Hx.
Qed.
Theorem trainable_bounds mn mx alpha : 0 <= mn -> mn <= mx -> 0 <= alpha <= 1 ->
  mn <= trainable_value Rops mn mx alpha <= mx /\ 0 <= trainable_value Rops mn mx alpha.
Proof. unfold trainable_value. simpl. intros. nra. Qed.
Theorem trainable_create_roundtrip delay mn mx : mn < mx ->
  trainable_value Rops mn mx (get_alpha_raw Rops delay mn mx) = delay.
Proof. unfold trainable_value, get_alpha_raw. simpl. intros. field. lra. Qed.
Theorem get_alpha_range delay mn mx : 0 <= get_alpha Rops delay mn mx <= 1.
Proof.
  unfold get_alpha. simpl. set (r := get_alpha_raw Rops delay mn mx). split.
  - apply Rmin_glb; [apply Rmax_r|lra].
  - apply Rmin_r.
Qed.
Theorem get_alpha_mono delay delay' mn mx : mn < mx -> delay <= delay' -> get_alpha Rops delay mn mx <= get_alpha Rops delay' mn mx.
Proof.
  intros Hm Hd. unfold get_alpha, get_alpha_raw. simpl.
  assert (0 < / (mx - mn)) by (apply Rinv_0_lt_compat; lra).
  assert ((delay - mn) / (mx - mn) <= (delay' - mn) / (mx - mn)) by (unfold Rdiv; nra).
  apply Rle_min_compat_r. apply Rle_max_compat_r. exact H0.
Qed.

Lemma Rnonneg_true a : Rnonneg a = true <-> 0 <= a.
Proof. unfold Rnonneg. destruct (Rle_dec 0 a); split; intros; try reflexivity; try assumption; [discriminate|contradiction]. Qed.
(* constructor of BaseNode / Connection: the stored delay is the given one, else quantile(0.99); never negative *)
Theorem node_delay_spec delay quant v : node_delay Rops Rnonneg delay quant = Some v ->
  0 <= v /\ v = match delay with Some d => d | None => quant (99 / 100) end.
Proof.
  unfold node_delay. set (w := match delay with Some d => d | None => quant (q99 Rops) end).
  destruct (Rnonneg w) eqn:E; [|discriminate]. intros H. injection H as <-. apply Rnonneg_true in E. split; [exact E|].
  unfold w. destruct delay; reflexivity.
Qed.
Theorem node_delay_rejects delay quant :
  match delay with Some d => d | None => quant (99 / 100) end < 0 -> node_delay Rops Rnonneg delay quant = None.
Proof.
  intros H. unfold node_delay. change (q99 Rops) with (99 / 100).
  destruct (Rnonneg _) eqn:E; [|reflexivity]. apply Rnonneg_true in E. lra.
Qed.
Theorem node_delay_default_accepts quant : 0 <= quant (99 / 100) -> node_delay Rops Rnonneg None quant = Some (quant (99 / 100)).
Proof.
  intros H. unfold node_delay. change (q99 Rops) with (99 / 100). apply Rnonneg_true in H. now rewrite H.
Qed.

(* ============================================================ GMMEstimator.get_dist *)
Local Notation rsum := (osum Rops).
Lemma rsum_app l l' : rsum (l ++ l') = rsum l + rsum l'.
Proof. induction l; simpl in *; [lra|]. rewrite IHl. lra. Qed.
Lemma rsum_perm l l' : Permutation l l' -> rsum l = rsum l'.
Proof. induction 1; simpl in *; lra. Qed.
Lemma rsum_div l t : rsum (map (fun w => w / t) l) = rsum l / t.
Proof. induction l; simpl in *; [unfold Rdiv; lra|]. rewrite IHl. unfold Rdiv. lra. Qed.
Lemma rsum_pos l : l <> [] -> Forall (fun w => 0 < w) l -> 0 < rsum l.
Proof.
  intros Hne H. induction H as [|w l Hw Hl IH]; [congruence|]. simpl. destruct l as [|w' l']; [simpl; lra|].
  assert (0 < rsum (w' :: l')) by (apply IH; congruence). simpl in *. lra.
Qed.
Theorem normalize_sum_one ws : rsum ws <> 0 -> rsum (normalize_weights Rops ws) = 1.
Proof. intros H. unfold normalize_weights. simpl odiv. rewrite rsum_div. field. exact H. Qed.
Theorem normalize_pos ws : ws <> [] -> Forall (fun w => 0 < w) ws -> Forall (fun w => 0 < w) (normalize_weights Rops ws).
Proof.
  intros Hne H. pose proof (rsum_pos ws Hne H) as Hs. unfold normalize_weights. simpl odiv.
  apply Forall_forall. intros x Hx. apply in_map_iff in Hx. destruct Hx as (w & <- & Hw).
  rewrite Forall_forall in H. apply Rdiv_lt_0_compat; [apply H; exact Hw|exact Hs].
Qed.
Lemma normalize_length ws : length (normalize_weights Rops ws) = length ws.
Proof. unfold normalize_weights. apply map_length. Qed.

(* the pruned prefix has mass below the threshold, and is maximal *)
Theorem prune_mass thr ws cum : let k := prune_count Rops Rltb thr cum ws in
  (k <= length ws)%nat /\ ((0 < k)%nat -> cum + rsum (firstn k ws) < thr) /\
  ((k < length ws)%nat -> thr <= cum + rsum (firstn (S k) ws)).
Proof.
  revert cum. induction ws as [|w ws IH]; intros cum; simpl; [repeat split; try lia|].
  simpl oadd. destruct (Rltb (cum + w) thr) eqn:E.
  - destruct (IH (cum + w)) as (L & A & B). simpl. repeat split; [lia| |].
    + intros _. destruct (prune_count Rops Rltb thr (cum + w) ws) eqn:Ek.
      * simpl. apply Rltb_true in E. lra.
      * specialize (A ltac:(lia)). simpl firstn in *. simpl rsum in *. lra.
    + intros Hk. specialize (B ltac:(lia)). simpl firstn in *. simpl rsum in *. lra.
  - simpl. repeat split; [lia|lia|]. intros _. apply Rltb_false in E. lra.
Qed.
Lemma prune_keeps thr ws : thr <= rsum ws -> ws <> [] -> (prune_count Rops Rltb thr 0%R ws < length ws)%nat.
Proof.
  intros H Hne. destruct (prune_mass thr ws 0) as (L & A & _).
  destruct (Nat.eq_dec (prune_count Rops Rltb thr 0 ws) (length ws)) as [E|]; [|lia].
  assert (0 < length ws)%nat by (destruct ws; [congruence|simpl; lia]).
  specialize (A ltac:(lia)). rewrite E, firstn_all in A. lra.
Qed.

Section Sort.
Context {B : Type}.
Lemma insert_by_perm (x : R * B) l : Permutation (insert_by Rltb x l) (x :: l).
Proof.
  induction l as [|y l IH]; simpl; [reflexivity|]. destruct (Rltb (fst x) (fst y)); [reflexivity|].
  rewrite IH. apply perm_swap.
Qed.
Lemma isort_perm (l : list (R * B)) : Permutation (isort Rltb l) l.
Proof. induction l as [|x l IH]; simpl; [reflexivity|]. rewrite insert_by_perm. now constructor. Qed.
End Sort.

Lemma map_fst_combine {X Y} (l : list X) (l' : list Y) : length l = length l' -> map fst (combine l l') = l.
Proof. revert l'. induction l; destruct l'; simpl; intros H; try discriminate; [reflexivity|]. f_equal. apply IHl. lia. Qed.
Lemma map_snd_combine {X Y} (l : list X) (l' : list Y) : length l = length l' -> map snd (combine l l') = l'.
Proof. revert l'. induction l; destruct l'; simpl; intros H; try discriminate; [reflexivity|]. f_equal. apply IHl. lia. Qed.
Lemma Forall_skipn {X} (P : X -> Prop) n l : Forall P l -> Forall P (skipn n l).
Proof. revert l. induction n; intros l H; [exact H|]. destruct l; [constructor|]. inversion H; subst. simpl. auto. Qed.

Lemma in_skipn' {X} (x : X) n l : In x (skipn n l) -> In x l.
Proof. intros H. rewrite <- (firstn_skipn n l). apply in_or_app. right. exact H. Qed.

(* the exported mixture is a proper distribution over a non-empty subset of the fitted components:
   positive weights that sum to one; the discarded mass is below 1 - percentile *)
Theorem get_dist_proper {B} percentile (raw : list (R * B)) : raw <> [] -> Forall (fun c => 0 < fst c) raw -> 0 <= percentile ->
  let out := get_dist_comps Rops Rltb percentile raw in
  out <> [] /\ rsum (map fst out) = 1 /\ Forall (fun c => 0 < fst c) out /\ incl (map snd out) (map snd raw) /\
  (length out <= length raw)%nat.
Proof.
  intros Hne Hpos Hp. unfold get_dist_comps.
  set (w := normalize_weights Rops (map fst raw)).
  assert (Hraw : map fst raw <> []) by (destruct raw; [congruence|discriminate]).
  assert (Hfp : Forall (fun x => 0 < x) (map fst raw)).
  { apply Forall_forall. intros x Hx. apply in_map_iff in Hx. destruct Hx as (c & <- & Hc). rewrite Forall_forall in Hpos. auto. }
  assert (Hw1 : rsum w = 1) by (apply normalize_sum_one; apply Rgt_not_eq, Rlt_gt, rsum_pos; assumption).
  assert (Hwp : Forall (fun x => 0 < x) w) by (apply normalize_pos; assumption).
  assert (Hlen : length w = length (map snd raw)) by (unfold w; now rewrite normalize_length, !map_length).
  set (sorted := isort Rltb (combine w (map snd raw))).
  assert (Hperm : Permutation sorted (combine w (map snd raw))) by apply isort_perm.
  assert (Hsw : Permutation (map fst sorted) w) by (rewrite <- (map_fst_combine w (map snd raw) Hlen); apply Permutation_map; exact Hperm).
  assert (Hs1 : rsum (map fst sorted) = 1) by (rewrite (rsum_perm _ _ Hsw); exact Hw1).
  assert (Hsp : Forall (fun x => 0 < x) (map fst sorted)) by (eapply Permutation_Forall; [symmetry; exact Hsw|exact Hwp]).
  assert (Hsne : map fst sorted <> []).
  { intros E. apply Permutation_length in Hsw. rewrite E in Hsw. unfold w in Hsw. rewrite normalize_length in Hsw.
    destruct (map fst raw); [congruence|discriminate]. }
  set (k := prune_count Rops Rltb (prune_thr Rops percentile) (oz Rops 0) (map fst sorted)).
  assert (Hk : (k < length (map fst sorted))%nat).
  { apply prune_keeps; [|exact Hsne]. rewrite Hs1. unfold prune_thr. simpl. lra. }
  set (kept := skipn k sorted).
  assert (Hkf : map fst kept = skipn k (map fst sorted)) by (unfold kept; now rewrite skipn_map).
  assert (Hkne : map fst kept <> []).
  { rewrite Hkf. intros E. apply (f_equal (@length R)) in E. rewrite skipn_length in E. simpl in E. lia. }
  assert (Hkp : Forall (fun x => 0 < x) (map fst kept)) by (rewrite Hkf; apply Forall_skipn; exact Hsp).
  assert (Hl2 : length (normalize_weights Rops (map fst kept)) = length (map snd kept)) by now rewrite normalize_length, !map_length.
  repeat split.
  - intros E. apply (f_equal (@length _)) in E. rewrite combine_length, Hl2, Nat.min_id, map_length in E.
    destruct kept; [simpl in Hkne; congruence|discriminate].
  - rewrite map_fst_combine by exact Hl2. apply normalize_sum_one. apply Rgt_not_eq, Rlt_gt, rsum_pos; assumption.
  - assert (H : Forall (fun x => 0 < x) (map fst (combine (normalize_weights Rops (map fst kept)) (map snd kept)))).
    { rewrite map_fst_combine by exact Hl2. apply normalize_pos; assumption. }
    rewrite Forall_forall in *. intros c Hc. apply H. apply in_map. exact Hc.
  - rewrite map_snd_combine by exact Hl2. intros y Hy. apply in_map_iff in Hy. destruct Hy as (c & <- & Hc).
    unfold kept in Hc. apply in_skipn' in Hc.
    assert (Hc' : In c (combine w (map snd raw))) by (eapply Permutation_in; [exact Hperm|exact Hc]).
    destruct c as [cw cb]. apply in_combine_r in Hc'. exact Hc'.
  - rewrite combine_length, Hl2, Nat.min_id, map_length. unfold kept. rewrite skipn_length.
    apply Permutation_length in Hperm. rewrite Hperm, combine_length, Hlen, Nat.min_id, map_length. lia.
Qed.

(* ---- _rescale: the exported components are in the units of the data *)
Theorem rescale_scale sd ls : 0 < sd -> exp (ls + ln sd) = exp ls * sd /\ 0 < exp (ls + ln sd).
Proof. intros H. split; [rewrite exp_plus, exp_ln by exact H; reflexivity|apply exp_pos]. Qed.
Theorem rescale_cdf (Phi : R -> R) mean sd m ls x : 0 < sd ->
  normal_cdf Phi (rescale_mu Rops mean sd m) (exp (ls + ln sd)) x = normal_cdf Phi m (exp ls) ((x - mean) / sd).
Proof.
  intros H. unfold normal_cdf, rescale_mu. simpl. rewrite (proj1 (rescale_scale sd ls H)). f_equal.
  pose proof (exp_pos ls). field. split; lra.
Qed.
Theorem rescale_mix_cdf (Phi : R -> R) mean sd comps x : 0 < sd ->
  mix_cdf Phi (map (rescale_comp mean sd) comps) x =
  mix_cdf Phi (map (fun c => (fst c, (fst (snd c), exp (snd (snd c))))) comps) ((x - mean) / sd).
Proof.
  intros H. induction comps as [|c l IH]; [reflexivity|]. simpl. rewrite IH. f_equal. f_equal. apply rescale_cdf. exact H.
Qed.
Theorem rescale_scales_pos mean sd comps : Forall (fun c => 0 < snd (snd c)) (map (rescale_comp mean sd) comps).
Proof. apply Forall_forall. intros c Hc. apply in_map_iff in Hc. destruct Hc as (c' & <- & _). simpl. apply exp_pos. Qed.

(* ---- constant data: a deterministic distribution at the common value *)
Lemma rsum_repeat c n : fold_right Rplus 0 (repeat c n) = INR n * c.
Proof. induction n; [simpl; lra|]. rewrite S_INR. simpl repeat. simpl fold_right. rewrite IHn. lra. Qed.
Lemma rmean_repeat c n : (0 < n)%nat -> rmean (repeat c n) = c.
Proof. intros H. unfold rmean. rewrite rsum_repeat, repeat_length. field. apply not_0_INR. lia. Qed.
Lemma map_repeat' {X Y} (f : X -> Y) c n : map f (repeat c n) = repeat (f c) n.
Proof. induction n; simpl; congruence. Qed.
Lemma rstd_repeat c n : (0 < n)%nat -> rstd (repeat c n) = 0.
Proof.
  intros H. unfold rstd. rewrite (rmean_repeat c n H), map_repeat', rmean_repeat by exact H.
  replace ((c - c) * (c - c)) with 0 by ring. apply sqrt_0.
Qed.
Theorem gmm_constant_is_deterministic threshold percentile c n fitted : (0 < n)%nat -> 0 < threshold ->
  gmm_get_dist threshold percentile (repeat c n) fitted = Det c.
Proof.
  intros Hn Ht. unfold gmm_get_dist. rewrite rstd_repeat, rmean_repeat by exact Hn.
  rewrite (proj2 (Rltb_true 0 threshold) Ht). reflexivity.
Qed.
(* otherwise: a mixture with positive weights summing to one and positive scales *)
Theorem gmm_get_dist_proper threshold percentile data fitted : threshold <= rstd data -> 0 < rstd data -> 0 <= percentile ->
  fitted <> [] -> Forall (fun c => 0 < fst c) fitted ->
  exists comps, gmm_get_dist threshold percentile data fitted = Mix comps /\ comps <> [] /\
    rsum (map fst comps) = 1 /\ Forall (fun c => 0 < fst c /\ 0 < snd (snd c)) comps /\ (length comps <= length fitted)%nat.
Proof.
  intros Ht Hs Hp Hne Hpos. unfold gmm_get_dist. rewrite (proj2 (Rltb_false (rstd data) threshold) Ht).
  set (raw := map (rescale_comp (rmean data) (rstd data)) fitted).
  assert (Hrne : raw <> []) by (unfold raw; destruct fitted; [congruence|discriminate]).
  assert (Hrpos : Forall (fun c => 0 < fst c) raw).
  { apply Forall_forall. intros c Hc. apply in_map_iff in Hc. destruct Hc as (c' & <- & Hc'). simpl. rewrite Forall_forall in Hpos. auto. }
  destruct (get_dist_proper percentile raw Hrne Hrpos Hp) as (A & B & C & D & E).
  eexists. split; [reflexivity|]. repeat split; [exact A|exact B| |unfold raw in E; rewrite map_length in E; exact E].
  apply Forall_forall. intros c Hc. split; [rewrite Forall_forall in C; auto|].
  assert (Hin : In (snd c) (map snd raw)) by (apply D; apply in_map; exact Hc).
  apply in_map_iff in Hin. destruct Hin as (r & Hr & Hrin). pose proof (rescale_scales_pos (rmean data) (rstd data) fitted) as Hsp.
  rewrite Forall_forall in Hsp. rewrite <- Hr. apply Hsp. exact Hrin.
Qed.

(* pinned code, abstract grid: both levels pass the guard, the larger level gets the smaller grid point *)
Lemma grid_quantile_mono_refuted : exists (gs cs : list Z) (p p' x x' : Z),
  (p <= p')%Z /\ grid_quantiles Z.ltb 0%Z (grid_index Z.ltb) [p] gs cs = Some [x] /\
  grid_quantiles Z.ltb 0%Z (grid_index Z.ltb) [p'] gs cs = Some [x'] /\ (x' < x)%Z.
Proof. exists [10; 20; 30]%Z, [1; 5; 9]%Z, 5%Z, 9%Z, 30%Z, 10%Z. repeat split; try reflexivity; lia. Qed.
(* the hypotheses on Phi / Phinv are consistent *)
Lemma phi_hyps_satisfiable : exists Phi Phinv : R -> R,
  (forall x y, x < y -> Phi x < Phi y) /\ (forall q, 0 < q < 1 -> Phi (Phinv q) = q).
Proof. exists (fun x => x), (fun q => q). split; intros; [assumption|reflexivity]. Qed.

(* ============================================================ uniform statements used by Props/C15.v *)
Section Uniform.
Variables Phi Phinv : R -> R.
Hypothesis HP : std_normal_pair Phi Phinv.
Let Hi := proj1 HP. Let Hr := proj2 HP.
Lemma u_normal_quantile_cdf loc scale q : 0 < scale -> 0 < q < 1 ->
  exists x, static_quantile Phi Phinv (Norm loc scale) q = Some x /\ cdf Phi (Norm loc scale) x = q /\
            forall y, cdf Phi (Norm loc scale) y = q -> y = x.
Proof.
  intros Hs Hq. exists (normal_quantile Phinv q loc scale). repeat split.
  - apply (normal_quantile_cdf Phi Phinv Hr); assumption.
  - intros y Hy. apply (normal_quantile_unique Phi Phinv Hi Hr); assumption.
Qed.
Lemma u_mix_bracket comps q x : mix_wf Phinv comps -> static_quantile Phi Phinv (Mix comps) q = Some x ->
  (exists g, In g (mix_grid Phinv comps) /\ q < cdf Phi (Mix comps) g) ->
  In x (mix_grid Phinv comps) /\ q < cdf Phi (Mix comps) x /\ cdf Phi (Mix comps) (x - mix_step Phinv comps) <= q.
Proof. intros [Hok Hab]. exact (mix_quantile_bracket Phi Phinv Hi comps Hok Hab q x). Qed.
Lemma u_mix_within_step comps q x xs : mix_wf Phinv comps -> comps_pos comps -> static_quantile Phi Phinv (Mix comps) q = Some x ->
  (exists g, In g (mix_grid Phinv comps) /\ q < cdf Phi (Mix comps) g) -> cdf Phi (Mix comps) xs = q ->
  x - mix_step Phinv comps <= xs < x.
Proof. intros [Hok Hab] Hpos. exact (mix_quantile_within_step Phi Phinv Hi comps Hok Hab q x xs Hpos). Qed.
Lemma u_mix_fix_bracket comps q x : mix_wf Phinv comps -> static_quantile_fix Phi Phinv (Mix comps) q = Some x ->
  In x (mix_grid Phinv comps) /\
  ((q < cdf Phi (Mix comps) x /\ cdf Phi (Mix comps) (x - mix_step Phinv comps) <= q) \/
   (x = mix_grid_max Phinv comps /\ cdf Phi (Mix comps) x = q)).
Proof. intros [Hok Hab]. exact (mix_quantile_fix_bracket Phi Phinv Hi comps Hok Hab q x). Qed.
Definition dist_wf (d : sdist) : Prop :=
  match d with Det _ => True | Norm _ s => 0 <= s | Mix comps => mix_wf Phinv comps end.
Lemma u_quantile_mono_partial d q q' x x' : dist_wf d -> 0 < q -> q <= q' -> q' < 1 ->
  (forall comps, d = Mix comps -> exists g, In g (mix_grid Phinv comps) /\ q' < cdf Phi d g) ->
  static_quantile Phi Phinv d q = Some x -> static_quantile Phi Phinv d q' = Some x' -> x <= x'.
Proof.
  intros Hd H0 Hq H1 Hex. apply (static_quantile_mono_partial Phi Phinv Hi Hr d q q' x x' H0 Hq H1).
  destruct d as [l|l s|comps]; [exact I|exact Hd|]. destruct Hd as [Hok Hab]. repeat split; try assumption.
  destruct (Hex comps eq_refl) as (g & Hg & Hgq). exists g. split; assumption.
Qed.
Lemma u_quantile_fix_mono d q q' x x' : dist_wf d -> 0 < q -> q <= q' -> q' < 1 ->
  static_quantile_fix Phi Phinv d q = Some x -> static_quantile_fix Phi Phinv d q' = Some x' -> x <= x'.
Proof.
  intros Hd H0 Hq H1. apply (static_quantile_fix_mono Phi Phinv Hi Hr d q q' x x' H0 Hq H1).
  destruct d as [l|l s|comps]; [exact I|exact Hd|]. destruct Hd as [Hok Hab]. split; assumption.
Qed.
Lemma u_mix_wf_delays comps : Forall (fun c => 0 <= fst c /\ 0 < snd (snd c)) comps ->
  Forall (fun c => 0 <= comp_q Phinv (1 / 1000) c) comps -> mix_wf Phinv comps.
Proof. intros Hok Hnn. split; [exact Hok|]. exact (mix_grid_oriented Phi Phinv Hi Hr comps Hok Hnn). Qed.
(* the default expected delay of a node: quantile(0.99), accepted iff non-negative *)
Lemma u_default_delay d v : node_delay Rops Rnonneg None (fun q => match static_quantile Phi Phinv d q with Some x => x | None => -1 end) = Some v ->
  0 <= v /\ static_quantile Phi Phinv d (99 / 100) = Some v.
Proof.
  intros H. destruct (node_delay_spec _ _ _ H) as [Hv E]. split; [exact Hv|].
  destruct (static_quantile Phi Phinv d (99 / 100)) as [x|]; [now subst|]. lra.
Qed.
End Uniform.

(* the pinned grid index at the corner, in the real-valued model: if no grid CDF value exceeds q the smallest grid
   point is returned although larger levels... (the abstract witness is grid_quantile_mono_refuted) *)
Lemma mix_quantile_corner Phi Phinv comps q x : static_quantile Phi Phinv (Mix comps) q = Some x ->
  (forall g, In g (mix_grid Phinv comps) -> mix_cdf Phi comps g <= q) -> x = mix_grid_min Phinv comps.
Proof.
  unfold static_quantile, mix_quantile_with, grid_quantiles.
  destruct (grid_check Rltb [q] (map (mix_cdf Phi comps) (mix_grid Phinv comps))); [|discriminate].
  cbn [map]. intros H Hall. injection H as <-.
  rewrite (grid_index_none_above Rltb 0).
  - unfold mix_grid. rewrite linspace_nth by (pose proof mix_n_ge2; lia). simpl. lra.
  - intros c Hc. apply in_map_iff in Hc. destruct Hc as (g & <- & Hg). apply Rltb_false. apply Hall. exact Hg.
Qed.
