(* C01, closed end to end on the models: the recorded asynchronous execution (M1, any reachable state of the actor net) and the compiled
   replay (M3, the generation-ordered runner with ring buffers) of the SAME windowed graph agree on every vertex both executed:
   same state before the step, same output.  The hypotheses are (i) check_replay accepts the compiled instance and the ring sizes
   (decidable; evaluated by the extracted checker on every instance the harness runs), (ii) "the compiled graph is the recorded graph":
   on every vertex the compiled run executes, its timestamp and its input windows (sender, seq, ts_sent, ts_recv per entry) are those of
   the recorded asynchronous row (decidable per instance; it is what ExperimentRecord.to_graph + apply_window + the partitioning must
   deliver, cf. apply_window_spec / window_is_lastn / check_schedule), (iii) the node ids (which seed the initial states / default outputs). *)
From Coq Require Import List Arith ZArith Bool Lia.
From Rex Require Import KahnL AsyncModel2 AsyncLaws Dataflow CompiledModel RunnerSym CheckSym Replay AsyncDataflow.
Import ListNotations.
Open Scope Z_scope.

(* the equations depend on the initial / default values only pointwise *)
Section Ext.
Variable Val : Type.
Variable f : nat -> Z -> Z -> Val -> list (list (Z * Z * Z * Val)) -> Val.
Lemma fill_ext_vdef (vd1 vd2 : nat -> Val) (T : trace Val) m w : vd1 m = vd2 m -> fill Val vd1 T m w = fill Val vd2 T m w.
Proof. intros H. induction w as [|[[s a] b] w IH]; simpl; [reflexivity|]. unfold payload. rewrite H, IH. reflexivity. Qed.
Lemma fill_all_ext_vdef (vd1 vd2 : nat -> Val) (T : trace Val) ws : (forall m, vd1 m = vd2 m) -> fill_all Val vd1 T ws = fill_all Val vd2 T ws.
Proof. intros H. induction ws as [|[m w] ws IH]; simpl; [reflexivity|]. rewrite (fill_ext_vdef vd1 vd2 T m w (H m)), IH. reflexivity. Qed.
Lemma eq_at_ext (vi1 vi2 vd1 vd2 : nat -> Val) ts wins T n k :
  (forall m, vi1 m = vi2 m) -> (forall m, vd1 m = vd2 m) -> eq_at Val f vi1 vd1 ts wins T n k -> eq_at Val f vi2 vd2 ts wins T n k.
Proof.
  intros Hi Hd E st out HT. destruct (E st out HT) as (S1 & ins & F & O). split.
  - destruct (k =? 0); [rewrite <- Hi; exact S1|exact S1].
  - exists ins. split; [rewrite <- (fill_all_ext_vdef vd1 vd2 T _ Hd); exact F|exact O].
Qed.
End Ext.

(* uniqueness across two descriptions of the graph that agree wherever the second trace is defined *)
Section UniqTwo.
Variable Val : Type.
Variable f : nat -> Z -> Z -> Val -> list (list (Z * Z * Z * Val)) -> Val.
Variables (vinit vdef : nat -> Val).
Variables (ts1 ts2 : nat -> Z -> Z).
Variables (wins1 wins2 : nat -> Z -> list (nat * list (Z * Z * Z))).
Variable rank : nat -> Z -> nat.

Theorem dataflow_unique_two (T1 T2 : trace Val) :
  (forall n k x, T2 n k = Some x -> eq_at Val f vinit vdef ts1 wins1 T1 n k) ->
  (forall n k, eq_at Val f vinit vdef ts2 wins2 T2 n k) ->
  (forall n k x, T2 n k = Some x -> ts1 n k = ts2 n k /\ wins1 n k = wins2 n k) ->
  (forall n k x, T1 n k = Some x -> 0 <= k) ->
  (forall n k x, T2 n k = Some x -> 0 < k -> (rank n (k - 1) < rank n k)%nat) ->
  (forall n k x m w s a b, T2 n k = Some x -> In (m, w) (wins2 n k) -> In (s, a, b) w -> 0 <= s -> (rank m s < rank n k)%nat) ->
  forall n k x1 x2, T1 n k = Some x1 -> T2 n k = Some x2 -> x1 = x2.
Proof.
  intros E1 E2 Hg Hpos Rs Rm.
  assert (H : forall r n k, (rank n k < r)%nat -> forall x1 x2, T1 n k = Some x1 -> T2 n k = Some x2 -> x1 = x2).
  { induction r as [|r IH]; intros n k Hr [st1 o1] [st2 o2] H1 H2; [lia|].
    destruct (E1 n k _ H2 st1 o1 H1) as (S1 & ins1 & F1 & O1). destruct (E2 n k st2 o2 H2) as (S2 & ins2 & F2 & O2).
    destruct (Hg n k _ H2) as [Hts Hw]. rewrite Hts in O1. rewrite Hw in F1.
    assert (Hk : 0 <= k) by (eapply Hpos; eauto).
    assert (Hst : st1 = st2).
    { destruct (Z.eqb_spec k 0); [congruence|].
      destruct S1 as (a1 & A1). destruct S2 as (a2 & A2).
      assert (Hr' : (rank n (k - 1) < r)%nat) by (pose proof (Rs n k _ H2 ltac:(lia)); lia).
      pose proof (IH n (k - 1) Hr' _ _ A1 A2) as Heq. congruence. }
    assert (Hins : ins1 = ins2).
    { eapply fill_all_agree; eauto. intros m w s a b Hmw Hs Hs0 y1 y2 Y1 Y2.
      assert (Hr' : (rank m s < r)%nat) by (pose proof (Rm n k _ m w s a b H2 Hmw Hs Hs0); lia).
      rewrite (IH m s Hr' _ _ Y1 Y2). reflexivity. }
    subst. reflexivity. }
  intros n k x1 x2. apply (H (S (rank n k))). lia.
Qed.
End UniqTwo.

Section EndToEnd.
Variable G : cfg.                    (* the asynchronous system *)
Variable s : state.                  (* any reachable state of its actor net (= any recorded prefix) *)
Variable I : inst.                   (* the compiled instance: graph, schedule (slots), partitions *)
Variable sizes : list Z.             (* ring-buffer sizes *)
Variables (p0 np : nat).             (* the partitions the replay runs *)
Definition vi_c (n : nat) : Z := 1 + nid I n.
Definition vd_c (n : nat) : Z := 3 + nid I n.
Definition Tc := T_c I sizes Z probe vi_c vd_c p0 np.

(* (ii) the compiled graph is the recorded graph, on the vertices the compiled run executes *)
Definition same_graph : Prop :=
  forall n k x, Tc n k = Some x ->
    (n < NN G)%nat /\ ts_a G s n k = ts_c I sizes p0 np n k /\ wins_a G s n k = wins_c I sizes p0 np n k.

Theorem replay_reproduces_async :
  reach G s ->
  check_replay I sizes p0 np = true ->
  same_graph ->
  (forall n, n_nid (node G n) = nid I n) ->
  forall n k x1 x2, T_a G s n k = Some x1 -> Tc n k = Some x2 -> x1 = x2.
Proof.
  intros Hr Hc Hg Hid.
  apply (dataflow_unique_two Z probe vi_c vd_c (ts_a G s) (ts_c I sizes p0 np) (wins_a G s) (wins_c I sizes p0 np) (rank_c I sizes p0 np)).
  - intros n k x HT. destruct (Hg n k x HT) as (Hn & _ & _).
    apply (eq_at_ext Z probe (viA G) vi_c (vdA G) vd_c).
    + intros m. unfold viA, vi_c. now rewrite Hid.
    + intros m. unfold vdA, vd_c. now rewrite Hid.
    + apply async_solves_dataflow_c; assumption.
  - apply compiled_solves_dataflow. exact Hc.
  - intros n k x HT. destruct (Hg n k x HT) as (_ & H1 & H2). split; assumption.
  - intros n k x. apply T_a_nonneg.
  - intros n k x. apply compiled_rank_state. exact Hc.
  - intros n k x m w s0 a b. apply compiled_rank_msg. exact Hc.
Qed.

(* (ii) is decidable: the compiled run executes finitely many vertices (the keys of the symbolic log) *)
Fixpoint w3_eqb (a b : list (Z * Z * Z)) : bool :=
  match a, b with [], [] => true
  | (s1, x, y) :: a, (s', x', y') :: b => (s1 =? s') && (x =? x') && (y =? y') && w3_eqb a b
  | _, _ => false end.
Fixpoint wins_eqb (a b : list (nat * list (Z * Z * Z))) : bool :=
  match a, b with [], [] => true
  | (m, w) :: a, (m', w') :: b => Nat.eqb m m' && w3_eqb w w' && wins_eqb a b
  | _, _ => false end.
Lemma w3_eqb_sound a : forall b, w3_eqb a b = true -> a = b.
Proof.
  induction a as [|[[s1 x] y] a IH]; intros [|[[s' x'] y'] b] H; simpl in H; try discriminate; [reflexivity|].
  apply andb_prop in H. destruct H as [H H4]. apply andb_prop in H. destruct H as [H H3]. apply andb_prop in H. destruct H as [H1 H2].
  apply Z.eqb_eq in H1, H2, H3. subst. f_equal. auto.
Qed.
Lemma wins_eqb_sound a : forall b, wins_eqb a b = true -> a = b.
Proof.
  induction a as [|[m w] a IH]; intros [|[m' w'] b] H; simpl in H; try discriminate; [reflexivity|].
  apply andb_prop in H. destruct H as [H H3]. apply andb_prop in H. destruct H as [H1 H2].
  apply Nat.eqb_eq in H1. apply w3_eqb_sound in H2. subst. f_equal. auto.
Qed.
Definition same_graphb : bool :=
  forallb (fun key => let n := fst key in let k := snd key in
             Nat.ltb n (NN G) && (ts_a G s n k =? ts_c I sizes p0 np n k) && wins_eqb (wins_a G s n k) (wins_c I sizes p0 np n k))
          (map (rkey tag) (slog I sizes p0 np)).

Lemma Tc_key n k x : Tc n k = Some x -> In (n, k) (map (rkey tag) (slog I sizes p0 np)).
Proof.
  unfold Tc, T_c. intros H.
  destruct (lookup Z (rlog I sizes Z probe vi_c vd_c p0 np) n k) as [r|] eqn:El; [|discriminate].
  rewrite (lookup_r I sizes Z probe vi_c vd_c p0 np) in El.
  destruct (lookup (PV Z) (plog I sizes Z probe vi_c vd_c p0 np) n k) as [pr|] eqn:Ep; [|discriminate].
  destruct (lookup_idx _ _ _ _ _ Ep) as [Hn Hk]. apply keyb_true in Hk. destruct Hk as [H1 H2].
  rewrite (keys_s I sizes Z probe vi_c vd_c p0 np). apply in_map_iff. exists pr. split.
  - unfold rkey. now rewrite H1, H2.
  - eapply nth_error_In; eauto.
Qed.

Lemma same_graphb_sound : same_graphb = true -> same_graph.
Proof.
  unfold same_graphb, same_graph. intros H n k x HT. rewrite forallb_forall in H.
  specialize (H (n, k) (Tc_key n k x HT)). simpl in H.
  apply andb_prop in H. destruct H as [H H3]. apply andb_prop in H. destruct H as [H1 H2].
  apply Nat.ltb_lt in H1. apply Z.eqb_eq in H2. apply wins_eqb_sound in H3. auto.
Qed.
End EndToEnd.
Print Assumptions replay_reproduces_async.

(* ---------- non-vacuity: the compiled instance of the recorded two-node execution exS of AsyncDataflow.exG ---------- *)
Definition e2_cell0 (p : Z) := {| c_run := true; c_seq := p; c_start := 10 * p; c_end := 10 * p + 2; c_wins := [] |}.
Definition e2_cell1 (p : Z) (w : list wentry) := {| c_run := true; c_seq := p; c_start := 10 * p + 5; c_end := 10 * p + 8; c_wins := [w] |}.
Definition e2_inst : inst :=
  {| i_nodes := [{| k_nid := 0 |}; {| k_nid := 1 |}]; i_conns := [{| k_out := 0; k_in := 1; k_win := 2 |}]; i_sup := 1%nat;
     i_verts := [[{| v_seq := 0; v_start := 0; v_end := 2 |}; {| v_seq := 1; v_start := 10; v_end := 12 |}; {| v_seq := 2; v_start := 20; v_end := 22 |}];
                 [{| v_seq := 0; v_start := 5; v_end := 8 |}; {| v_seq := 1; v_start := 15; v_end := 18 |}; {| v_seq := 2; v_start := 25; v_end := 28 |}]];
     i_edges := [[{| e_out := 0; e_in := 0; e_recv := 3 |}; {| e_out := 1; e_in := 1; e_recv := 13 |}; {| e_out := 2; e_in := 2; e_recv := 23 |}]];
     i_slots := [{| s_kind := 0; s_gen := 0; s_cells := [e2_cell0 0; e2_cell0 1; e2_cell0 2] |};
                 {| s_kind := 1; s_gen := 1; s_cells := [e2_cell1 0 [(-1, 0, 0); (0, 2, 3)]; e2_cell1 1 [(0, 2, 3); (1, 12, 13)];
                                                        e2_cell1 2 [(1, 12, 13); (2, 22, 23)]] |}];
     i_ngen := 2; i_nparts := 3 |}.
Example e2_hyps : check_replay e2_inst [2; 1] 0 3 = true /\ same_graphb exG exS e2_inst [2; 1] 0 3 = true /\ check_schedule e2_inst = true.
Proof. vm_compute. repeat split; reflexivity. Qed.
(* both executions define (node 1, seq 2), and the theorem - not a computation - says they agree there; the computed values confirm it *)
Example e2_agree : forall x1 x2, T_a exG exS 1%nat 2 = Some x1 -> Tc e2_inst [2; 1] 0 3 1%nat 2 = Some x2 -> x1 = x2.
Proof.
  apply (replay_reproduces_async exG exS e2_inst [2; 1] 0 3 exS_reach).
  - apply e2_hyps.
  - apply same_graphb_sound. apply e2_hyps.
  - intros [|[|n]]; reflexivity || (destruct n; reflexivity).
Qed.
Example e2_defined : T_a exG exS 1%nat 2 = Some (1943, 17693) /\ Tc e2_inst [2; 1] 0 3 1%nat 2 = Some (1943, 17693).
Proof. vm_compute. split; reflexivity. Qed.
