(* C07: apply_window computes, for receiver step k, the last `win` messages with seq_in <= k, oldest first *)
From Coq Require Import List Arith ZArith Bool Lia Sorted.
From Rex Require Import CompiledModel.
Import ListNotations.
Open Scope Z_scope.

(* ---- lastn ---- *)
Lemma lastn_length {X} n (l : list X) : (n <= length l)%nat -> length (lastn n l) = n.
Proof. intros H. unfold lastn. rewrite skipn_length. lia. Qed.

Lemma lastn_app_ge {X} n (l t : list X) : (n <= length t)%nat -> lastn n (l ++ t) = lastn n t.
Proof.
  intros H. unfold lastn. rewrite app_length.
  replace (length l + length t - n)%nat with (length l + (length t - n))%nat by lia.
  rewrite skipn_app. rewrite skipn_all2 by lia. simpl.
  replace (length l + (length t - n) - length l)%nat with (length t - n)%nat by lia. reflexivity.
Qed.

(* pushing into a full window and keeping its size = keeping the last n of everything seen *)
Lemma lastn_lastn_app {X} n (l t : list X) : (n <= length l)%nat ->
  lastn n (lastn n l ++ t) = lastn n (l ++ t).
Proof.
  intros H.
  assert (Hb : length (lastn n l) = n) by (apply lastn_length; exact H).
  rewrite <- (firstn_skipn (length l - n) l) at 2.
  change (skipn (length l - n) l) with (lastn n l).
  rewrite <- app_assoc. symmetry. apply lastn_app_ge. rewrite app_length. lia.
Qed.

Section Spec.
Variable I : inst.
Variable c : nat.
Let win := k_win (conn I c).
Let vm := verts I (k_out (conn I c)).
Let w0 : list wentry := repeat (-1, 0, 0) win.

Definition entry_of (e : edge) : wentry := (e_out e, v_end (pynth (e_out e) vm dv), e_recv e).
Definition si_of (e : edge) : Z := if (e_out e =? -1) || (e_in e =? -1) then INF else e_in e.

Definition W (l : list edge) : list wentry := lastn win (w0 ++ map entry_of l).

Fixpoint snaps_from (pre es : list edge) : list (Z * list wentry) :=
  match es with [] => [] | e :: es => (si_of e, W (pre ++ [e])) :: snaps_from (pre ++ [e]) es end.

Lemma W_length l : length (W l) = win.
Proof. unfold W. apply lastn_length. rewrite app_length. unfold w0. rewrite repeat_length. lia. Qed.

Lemma scan_edges_spec es : forall pre, scan_edges vm (W pre) es = snaps_from pre es.
Proof.
  induction es as [|e es IH]; intros pre; [reflexivity|].
  simpl. rewrite W_length.
  assert (Hnew : lastn win (W pre ++ [(e_out e, v_end (pynth (e_out e) vm dv), e_recv e)]) = W (pre ++ [e])).
  { unfold W at 1. rewrite lastn_lastn_app by (rewrite app_length; unfold w0; rewrite repeat_length; lia).
    unfold W. rewrite map_app, app_assoc. reflexivity. }
  rewrite Hnew, IH. f_equal. f_equal.
  unfold si_of. destruct (e_out e =? -1); simpl; [reflexivity|]. destruct (e_in e =? -1); reflexivity.
Qed.

Definition good k (e : edge) : bool := si_of e <=? k.

Lemma last_le_none_selected k es : forall pre acc,
  (forall e, In e es -> k < si_of e) -> last_le k (snaps_from pre es) acc = acc.
Proof.
  induction es as [|e es IH]; intros pre acc H; [reflexivity|].
  simpl. rewrite IH by (intros; apply H; now right).
  destruct (Z.leb_spec (si_of e) k); [|reflexivity]. specialize (H e (or_introl eq_refl)). lia.
Qed.

Lemma filter_none k es : (forall e, In e es -> k < si_of e) -> filter (good k) es = [].
Proof.
  induction es as [|e es IH]; intros H; [reflexivity|]. simpl. unfold good at 1.
  destruct (Z.leb_spec (si_of e) k); [specialize (H e (or_introl eq_refl)); lia|]. apply IH. intros; apply H; now right.
Qed.

Lemma last_le_sorted k es : forall pre acc,
  StronglySorted Z.le (map si_of es) ->
  last_le k (snaps_from pre es) acc =
  match filter (good k) es with [] => acc | g => Some (W (pre ++ g)) end.
Proof.
  induction es as [|e es IH]; intros pre acc Hs; [reflexivity|].
  simpl in Hs. apply StronglySorted_inv in Hs. destruct Hs as [Hs Hall].
  simpl. unfold good at 1. destruct (Z.leb_spec (si_of e) k) as [Hle|Hgt].
  - rewrite IH by exact Hs. destruct (filter (good k) es) as [|g gs] eqn:E.
    + reflexivity.
    + rewrite <- app_assoc. reflexivity.
  - assert (Hlater : forall e', In e' es -> k < si_of e').
    { intros e' Hin. rewrite Forall_forall in Hall. specialize (Hall (si_of e') (in_map si_of _ _ Hin)). lia. }
    rewrite last_le_none_selected by exact Hlater. rewrite filter_none by exact Hlater. reflexivity.
Qed.

(* C07, window clause: the window handed to receiver step k is the last `win` messages whose (valid) seq_in is <= k,
   oldest first, padded at the front with default entries -- provided seq_in is non-decreasing along the edge array
   (true of recorded and generated graphs; checked on user graphs) *)
Theorem apply_window_spec :
  StronglySorted Z.le (map si_of (nth c (i_edges I) [])) ->
  win_model I c =
  map (fun v => lastn win (w0 ++ map entry_of (filter (good (v_seq v)) (nth c (i_edges I) []))))
      (verts I (k_in (conn I c))).
Proof.
  intros Hs. unfold win_model. apply map_ext. intros v.
  fold win. fold w0. fold vm.
  assert (HW0 : w0 = W []) by (unfold W; simpl; rewrite app_nil_r; unfold lastn, w0; rewrite repeat_length, Nat.sub_diag; reflexivity).
  rewrite HW0 at 1. rewrite scan_edges_spec, last_le_sorted by exact Hs.
  destruct (filter (good (v_seq v)) (nth c (i_edges I) [])) as [|g gs]; [|reflexivity].
  simpl. rewrite app_nil_r. unfold lastn, w0. rewrite repeat_length, Nat.sub_diag. reflexivity.
Qed.
End Spec.
Print Assumptions apply_window_spec.
