(* C19 — proofs about the model of rex/rl.py (RlKernels.v, RlEnv.v). *)
From Coq Require Import Reals Lra Lia List Bool ZArith Psatz.
From Rex Require Import Ops RlKernels RlEnv.
Import ListNotations.
Open Scope R_scope.

Ltac rsimp := cbv [oadd osub omul odiv oz oopp omax omin o0 o1 Rops b2a] in *.

(* ================================================================== Environment.step *)
Section EnvLaws.
Variables (GS SS Out Act Obs Rw Flag Info Rng : Type).
Variable graph_init : Rng -> Z -> GS.
Variable graph_reset : GS -> GS * SS.
Variable graph_step : GS -> SS -> Out -> GS * SS.
Variable get_step_state : GS -> SS.
Variable get_output : GS -> Act -> Out.
Variable pre_step : GS -> Act -> GS.
Variable post_step : GS -> option Act -> GS.
Variable get_reward : GS -> Act -> Rw.
Variables get_truncated get_terminated : GS -> Flag.
Variable get_info : GS -> option Act -> Info.
Variable get_observation : GS -> Obs.
Local Notation step := (env_step GS SS Out Act Obs Rw Flag Info graph_step get_step_state get_output pre_step post_step
                                 get_reward get_truncated get_terminated get_info get_observation).

(* the environment's step is one graph step from the pre-step state, with the supervisor's step state and with the
   supervisor's output set from the action; everything returned is read off that graph step's result *)
Theorem env_step_is_graph_step gs a :
  let gs_pre := pre_step gs a in
  let gs_step := fst (graph_step gs_pre (get_step_state gs_pre) (get_output gs a)) in
  let gs_post := post_step gs_step (Some a) in
  step gs a = (gs_post, get_observation gs_post, get_reward gs_step a, get_terminated gs_step, get_truncated gs_step,
               get_info gs_post (Some a)).
Proof. reflexivity. Qed.

(* with the default (identity) pre/post hooks the new graph state *is* the graph step's state *)
Corollary env_step_default_hooks gs a :
  (forall g x, pre_step g x = g) -> (forall g x, post_step g x = g) ->
  fst (fst (fst (fst (fst (step gs a))))) = fst (graph_step gs (get_step_state gs) (get_output gs a)).
Proof. intros Hpre Hpost. rewrite env_step_is_graph_step. simpl. rewrite Hpost, Hpre. reflexivity. Qed.
End EnvLaws.

(* ================================================================== wrappers over an abstract wrapped environment *)
Section WrapLaws.
Context {A : Type} (O : ops A).
Variables (C IB Rng : Type).
Variable th : A -> A.
Variable split : Rng -> Rng * Rng.
Local Notation env := (env (A:=A) C IB Rng).
Local Notation gstate := (gstate (A:=A) C IB Rng).
Local Notation ret := (ret (A:=A) C IB Rng).
Implicit Types (e : env) (g : gstate).

Lemma ret_eta (r : ret) : r = (r_gs r, r_obs r, r_rew r, r_te r, r_tr r, r_info r).
Proof. destruct r as [[[[[? ?] ?] ?] ?] ?]. reflexivity. Qed.

(* ---------------- AutoResetWrapper, stored initial state *)
(* reward and done flags always describe the step that was just taken *)
Theorem auto_fixed_flags e g a :
  let r := e_step (auto_fixed e) g a in let r0 := e_step e g a in
  r_rew r = r_rew r0 /\ r_te r = r_te r0 /\ r_tr r = r_tr r0.
Proof.
  simpl. destruct (e_step e g a) as [[[[[g1 o] r] te] tr] i]. destruct (a_init g1) as [[[c0 o0] i0]|]; [|auto].
  destruct (te || tr); auto.
Qed.
Theorem auto_fixed_not_done e g a g1 o r i : e_step e g a = (g1, o, r, false, false, i) ->
  e_step (auto_fixed e) g a = (g1, o, r, false, false, i).
Proof. intros H. simpl. rewrite H. destruct (a_init g1) as [[[? ?] ?]|]; reflexivity. Qed.
(* at an episode end: the stored initial core state, observation and info; rng carried over from the stepped state,
   aux (the state of all wrappers) kept *)
Theorem auto_fixed_done e g a g1 o r te tr i c0 o0 i0 : e_step e g a = (g1, o, r, te, tr, i) -> te || tr = true ->
  a_init g1 = Some (c0, o0, i0) ->
  e_step (auto_fixed e) g a =
    ({| g_core := c0; g_rng := g_rng g1; a_init := a_init g1; a_log := a_log g1; a_sq := a_sq g1 |}, o0, r, te, tr, i0).
Proof. intros H Hd Hi. simpl. rewrite H, Hi, Hd. unfold set_core. rewrite Hi. reflexivity. Qed.
Theorem auto_fixed_reset_stores e k : let '(g, o, i) := e_reset (auto_fixed e) k in
  let '(g0, o0, i0) := e_reset e k in a_init g = Some (g_core g0, o0, i0) /\ g_core g = g_core g0 /\ o = o0 /\ i = i0.
Proof. simpl. destruct (e_reset e k) as [[g0 o0] i0]. simpl. auto. Qed.

(* an environment leaves the stored initial state / the log state alone (true of Environment and of every wrapper) *)
Definition keeps_init e := forall g a, a_init (r_gs (e_step e g a)) = a_init g.
Definition keeps_log e := forall g a, a_log (r_gs (e_step e g a)) = a_log g.

Lemma keeps_init_auto_fixed e : keeps_init e -> keeps_init (auto_fixed e).
Proof.
  intros H g a. specialize (H g a). simpl. destruct (e_step e g a) as [[[[[g1 o] r] te] tr] i]. unfold r_gs in *; simpl in *.
  destruct (a_init g1) as [[[c0 o0] i0]|] eqn:E; [|simpl; congruence]. destruct (te || tr); simpl; congruence.
Qed.

(* over any action history: every step after an episode end starts from the stored initial state *)
Theorem auto_fixed_history e c0 o0 i0 : keeps_init e -> forall acts g, a_init g = Some (c0, o0, i0) ->
  Forall (fun r => a_init (r_gs r) = Some (c0, o0, i0) /\
                   (r_te r || r_tr r = true -> g_core (r_gs r) = c0 /\ r_obs r = o0 /\ r_info r = i0))
         (run_from (auto_fixed e) g acts).
Proof.
  intros K. induction acts as [|a acts IH]; intros g Hg; [constructor|].
  simpl run_from. set (r := e_step (auto_fixed e) g a).
  assert (Hi : a_init (r_gs r) = Some (c0, o0, i0)).
  { unfold r. rewrite (keeps_init_auto_fixed e K g a). exact Hg. }
  constructor; [|apply IH; exact Hi].
  split; [exact Hi|]. intros Hd. unfold r in *. clear IH Hi r. pose proof (K g a) as Kg. simpl in *.
  destruct (e_step e g a) as [[[[[g1 o] rw] te] tr] i]. unfold r_gs in Kg; simpl in Kg. rewrite Kg, Hg in *.
  unfold r_te, r_tr, r_gs, r_obs, r_info in *. destruct (te || tr) eqn:E; simpl in *; [auto|].
  rewrite E in Hd. discriminate.
Qed.

(* ---------------- AutoResetWrapper, freshly drawn initial state *)
Theorem auto_fresh_flags e g a :
  let r := e_step (auto_fresh split e) g a in let r0 := e_step e g a in
  r_rew r = r_rew r0 /\ r_te r = r_te r0 /\ r_tr r = r_tr r0.
Proof.
  simpl. destruct (e_step e g a) as [[[[[g1 o] r] te] tr] i]. destruct (split (g_rng g1)) as [n ri].
  destruct (e_reset e ri) as [[ig io] ii]. destruct (te || tr); auto.
Qed.
(* not done: unchanged except that the node's rng has been advanced by the split *)
Theorem auto_fresh_not_done e g a g1 o r i : e_step e g a = (g1, o, r, false, false, i) ->
  e_step (auto_fresh split e) g a = (set_rng g1 (fst (split (g_rng g1))), o, r, false, false, i).
Proof.
  intros H. simpl. rewrite H. destruct (split (g_rng g1)) as [n ri]. destruct (e_reset e ri) as [[ig io] ii]. reflexivity.
Qed.
(* done: the state, observation and info of a reset of the wrapped environment with the second half of the split key;
   aux kept from the stepped state *)
Theorem auto_fresh_done e g a g1 o r te tr i : e_step e g a = (g1, o, r, te, tr, i) -> te || tr = true ->
  let '(ig, io, ii) := e_reset e (snd (split (g_rng g1))) in
  e_step (auto_fresh split e) g a =
    ({| g_core := g_core ig; g_rng := g_rng ig; a_init := a_init g1; a_log := a_log g1; a_sq := a_sq g1 |}, io, r, te, tr, ii).
Proof.
  intros H Hd. simpl. rewrite H. destruct (split (g_rng g1)) as [n ri]. simpl. destruct (e_reset e ri) as [[ig io] ii].
  rewrite Hd. reflexivity.
Qed.

(* ---------------- LogWrapper: the wrapper threads log_step over the rewards and flags it returns *)
Definition hist (rs : list ret) : list (A * bool * bool) := map (fun r => (r_rew r, r_te r, r_tr r)) rs.
Fixpoint log_scan (s : logst) (h : list (A * bool * bool)) : list (logst (A:=A)) :=
  match h with [] => [] | (r, te, tr) :: h => let s' := log_step O s r te tr in s' :: log_scan s' h end.

Theorem log_wrap_passthrough e g a :
  let r := e_step (log_wrap O e) g a in let r0 := e_step e g a in
  r_obs r = r_obs r0 /\ r_rew r = r_rew r0 /\ r_te r = r_te r0 /\ r_tr r = r_tr r0 /\ g_core (r_gs r) = g_core (r_gs r0) /\
  i_base (r_info r) = i_base (r_info r0).
Proof.
  simpl. destruct (e_step e g a) as [[[[[g1 o] r] te] tr] i]. destruct (a_log g1); simpl; auto 10.
Qed.

Theorem log_wrap_scan e : keeps_log e -> forall acts g s, a_log g = Some s ->
  let rs := run_from (log_wrap O e) g acts in
  map (fun r => (a_log (r_gs r), i_log (r_info r))) rs =
  map (fun sr => (Some (fst sr), Some (l_rret (fst sr), l_rlen (fst sr), l_t (fst sr), r_te (snd sr) || r_tr (snd sr))))
      (combine (log_scan s (hist rs)) rs).
Proof.
  intros K. induction acts as [|a acts IH]; intros g s Hg; [reflexivity|].
  cbn [run_from]. remember (e_step (log_wrap O e) g a) as r eqn:Er.
  assert (Hr : a_log (r_gs r) = Some (log_step O s (r_rew r) (r_te r) (r_tr r)) /\
               i_log (r_info r) = Some (l_rret (log_step O s (r_rew r) (r_te r) (r_tr r)),
                                        l_rlen (log_step O s (r_rew r) (r_te r) (r_tr r)),
                                        l_t (log_step O s (r_rew r) (r_te r) (r_tr r)), r_te r || r_tr r)).
  { rewrite Er. pose proof (K g a) as Kg. simpl. destruct (e_step e g a) as [[[[[g1 o] rw] te] tr] i].
    unfold r_gs in Kg; simpl in Kg. rewrite Kg, Hg. simpl. auto. }
  destruct Hr as [H1 H2]. cbv zeta. change (fst (fst (fst (fst (fst r))))) with (r_gs r).
  cbn [hist map log_scan combine fst snd]. cbv zeta. cbn [combine map fst snd].
  change (map (fun r0 => (r_rew r0, r_te r0, r_tr r0)) ?l) with (hist l).
  specialize (IH _ _ H1). cbv zeta in IH. rewrite IH, H1, H2. reflexivity.
Qed.
End WrapLaws.

(* ================================================================== LogWrapper accounting over R *)
Section LogLaws.
Definition lrun (s : logst) (h : list (R * bool * bool)) : logst :=
  fold_left (fun s x => log_step Rops s (fst (fst x)) (snd (fst x)) (snd x)) h s.
(* rewards of the episode in progress: everything after the last done *)
Fixpoint current (h : list (R * bool * bool)) (acc : list R) : list R :=
  match h with [] => acc | (r, te, tr) :: h => current h (if te || tr then [] else acc ++ [r]) end.
Fixpoint rsum (l : list R) : R := match l with [] => 0 | x :: l => x + rsum l end.
Lemma rsum_app a b : rsum (a ++ b) = rsum a + rsum b. Proof. induction a; simpl; lra. Qed.

Lemma last_cons {X} (l : list X) : forall x d, last (x :: l) d = last l x.
Proof.
  induction l as [|a l IH]; intros x d; [reflexivity|].
  change (last (x :: a :: l) d) with (last (a :: l) d). rewrite (IH a d), (IH a x). reflexivity.
Qed.
(* the state after the whole history is the last state of the scan *)
Lemma log_scan_last h : forall s, last (log_scan Rops s h) s = lrun s h.
Proof.
  induction h as [|[[r te] tr] h IH]; intros s; [reflexivity|]. unfold lrun in *. cbn [log_scan fold_left fst snd]. cbv zeta.
  rewrite last_cons. apply IH.
Qed.

Lemma lrun_inv h : forall s acc, l_ret s = rsum acc -> l_len s = INR (length acc) ->
  l_ret (lrun s h) = rsum (current h acc) /\ l_len (lrun s h) = INR (length (current h acc)).
Proof.
  induction h as [|[[r te] tr] h IH]; intros s acc H1 H2; [simpl; auto|].
  unfold lrun in *. cbn [fold_left current fst snd]. apply IH.
  - unfold log_step; cbn [l_ret]. rsimp. rewrite H1. destruct (te || tr); simpl; rewrite ?rsum_app; simpl; lra.
  - unfold log_step; cbn [l_len]. rsimp. rewrite H2. destruct (te || tr); simpl length; rewrite ?app_length, ?plus_INR; simpl; lra.
Qed.

Theorem log_running_totals h :
  l_ret (lrun (log0 Rops) h) = rsum (current h []) /\ l_len (lrun (log0 Rops) h) = INR (length (current h [])).
Proof. apply lrun_inv; reflexivity. Qed.

(* at an episode end: exactly the sum of rewards and the number of steps since the previous end; totals restart *)
Theorem log_reports_at_done h r te tr : te || tr = true ->
  let s := lrun (log0 Rops) (h ++ [(r, te, tr)]) in
  l_rret s = rsum (current h []) + r /\ l_rlen s = INR (length (current h [])) + 1 /\ l_ret s = 0 /\ l_len s = 0 /\
  l_t s = INR (length h) + 1.
Proof.
  intros Hd. unfold lrun. rewrite fold_left_app. cbn [fold_left fst snd]. destruct (log_running_totals h) as [B1 B2].
  unfold lrun in B1, B2.
  assert (Ht : forall h s, l_t (fold_left (fun s x => log_step Rops s (fst (fst x)) (snd (fst x)) (snd x)) h s) = l_t s + INR (length h)).
  { clear. induction h as [|x h IH]; intros s; [simpl; lra|]. cbn [fold_left]. rewrite IH. unfold log_step; cbn [l_t]. rsimp.
    change (length (x :: h)) with (S (length h)). rewrite S_INR. lra. }
  specialize (Ht h (log0 Rops)).
  set (s0 := fold_left _ h (log0 Rops)) in *.
  unfold log_step. cbn [l_ret l_len l_rret l_rlen l_t]. rewrite Hd, B1, B2, Ht. simpl. rsimp. repeat split; lra.
Qed.
(* between ends the reported values do not change *)
Theorem log_reports_kept h r :
  let s := lrun (log0 Rops) h in let s' := lrun (log0 Rops) (h ++ [(r, false, false)]) in
  l_rret s' = l_rret s /\ l_rlen s' = l_rlen s /\ l_ret s' = l_ret s + r /\ l_len s' = l_len s + 1.
Proof. unfold lrun. rewrite fold_left_app. cbn [fold_left fst snd]. unfold log_step. simpl. rsimp. repeat split; lra. Qed.
End LogLaws.

(* ================================================================== squash / clip over R *)
Section SquashLaws.
Lemma tanh_bounds x : -1 < tanh x < 1.
Proof.
  unfold tanh, sinh, cosh.
  assert (0 < exp x) by apply exp_pos. assert (0 < exp (- x)) by apply exp_pos.
  split.
  - apply Rmult_lt_reg_r with ((exp x + exp (- x)) / 2); [lra|].
    replace ((exp x - exp (- x)) / 2 / ((exp x + exp (- x)) / 2) * ((exp x + exp (- x)) / 2)) with ((exp x - exp (- x)) / 2) by (field; lra). lra.
  - apply Rmult_lt_reg_r with ((exp x + exp (- x)) / 2); [lra|].
    replace ((exp x - exp (- x)) / 2 / ((exp x + exp (- x)) / 2) * ((exp x + exp (- x)) / 2)) with ((exp x - exp (- x)) / 2) by (field; lra). lra.
Qed.

Lemma tanh_exp2 x : tanh x = (exp (2 * x) - 1) / (exp (2 * x) + 1).
Proof.
  unfold tanh, sinh, cosh. replace (2 * x) with (x + x) by ring. rewrite exp_plus, exp_Ropp.
  assert (0 < exp x) by apply exp_pos. field. split; nra.
Qed.

Theorem atanh_tanh x : atanh (tanh x) = x.
Proof.
  unfold atanh. rewrite tanh_exp2. assert (H : 0 < exp (2 * x)) by apply exp_pos.
  replace ((1 + (exp (2 * x) - 1) / (exp (2 * x) + 1)) / (1 - (exp (2 * x) - 1) / (exp (2 * x) + 1))) with (exp (2 * x))
    by (field; split; lra).
  rewrite ln_exp. field.
Qed.
Theorem tanh_atanh y : -1 < y < 1 -> tanh (atanh y) = y.
Proof.
  intros Hy. rewrite tanh_exp2. unfold atanh.
  replace (2 * (ln ((1 + y) / (1 - y)) / 2)) with (ln ((1 + y) / (1 - y))) by field.
  rewrite exp_ln; [field; lra|]. apply Rdiv_lt_0_compat; lra.
Qed.

Theorem clip_in_bounds x lo hi : lo <= hi -> lo <= clip Rops x lo hi <= hi.
Proof. intros H. unfold clip; rsimp. unfold Rmin, Rmax. repeat destruct Rle_dec; lra. Qed.
Theorem clip_inside x lo hi : lo <= x <= hi -> clip Rops x lo hi = x.
Proof. intros H. unfold clip; rsimp. unfold Rmin, Rmax. repeat destruct Rle_dec; lra. Qed.

(* squashed actions land strictly inside the bounds, whatever the raw action *)
Theorem unsquash_in_bounds lo hi x : lo < hi -> lo < sq_unsquash Rops tanh true lo hi x < hi.
Proof. intros H. pose proof (tanh_bounds x). unfold sq_unsquash; rsimp. split; nra. Qed.
(* both modes *)
Theorem unsquash_in_closed_bounds sq lo hi x : lo < hi -> lo <= sq_unsquash Rops tanh sq lo hi x <= hi.
Proof.
  intros H. destruct sq; [pose proof (unsquash_in_bounds lo hi x H); lra|].
  unfold sq_unsquash. apply clip_in_bounds. lra.
Qed.
(* scale and unsquash are mutual inverses *)
Theorem scale_unsquash_inverse lo hi x : lo <> hi -> sq_scale Rops atanh true lo hi (sq_unsquash Rops tanh true lo hi x) = x.
Proof.
  intros H. unfold sq_scale, sq_unsquash; rsimp.
  replace (2 * (1 / 2 * (tanh x + 1) * (hi - lo) + lo - lo) / (hi - lo) - 1) with (tanh x) by (field; lra).
  apply atanh_tanh.
Qed.
Theorem unsquash_scale_inverse lo hi y : lo < y < hi -> sq_unsquash Rops tanh true lo hi (sq_scale Rops atanh true lo hi y) = y.
Proof.
  intros H. unfold sq_scale, sq_unsquash; rsimp. rewrite tanh_atanh; [field; lra|].
  assert (0 < hi - lo) by lra. split.
  - apply Rmult_lt_reg_r with (hi - lo); [assumption|].
    replace ((2 * (y - lo) / (hi - lo) - 1) * (hi - lo)) with (2 * (y - lo) - (hi - lo)) by (field; lra). lra.
  - apply Rmult_lt_reg_r with (hi - lo); [assumption|].
    replace ((2 * (y - lo) / (hi - lo) - 1) * (hi - lo)) with (2 * (y - lo) - (hi - lo)) by (field; lra). lra.
Qed.
(* squash = False: scale is the identity and unsquash clips, so they are inverse on the closed box *)
Theorem noscale_inverse lo hi y : lo <= y <= hi -> sq_unsquash Rops tanh false lo hi (sq_scale Rops atanh false lo hi y) = y.
Proof. intros H. unfold sq_unsquash, sq_scale. apply clip_inside. exact H. Qed.
End SquashLaws.

(* the wrappers hand the wrapped environment an in-bounds action *)
Section ActionLaws.
Variables (C IB Rng : Type).
Local Notation env := (env (A:=R) C IB Rng).
Inductive within : list R -> list R -> list R -> Prop :=
| within_nil lo hi : within [] lo hi
| within_cons x a l lo h hi : l <= x <= h -> within a lo hi -> within (x :: a) (l :: lo) (h :: hi).
Inductive ordered : list R -> list R -> Prop :=
| ord_nil : ordered [] [] | ord_cons l lo h hi : l < h -> ordered lo hi -> ordered (l :: lo) (h :: hi).

Lemma squash_map_within sq lo hi : ordered lo hi -> forall a,
  within (map3 (fun l h x => sq_unsquash Rops tanh sq l h x) lo hi a) lo hi.
Proof.
  induction 1 as [|l lo h hi Hlh Hord IH]; intros a; [destruct a; constructor|].
  destruct a as [|x a]; simpl; [constructor|]. constructor; [apply unsquash_in_closed_bounds; exact Hlh|apply IH].
Qed.
Lemma clip_map_within lo hi : ordered lo hi -> forall a, within (map3 (fun x l h => clip Rops x l h) a lo hi) lo hi.
Proof.
  induction 1 as [|l lo h hi Hlh Hord IH]; intros a; [destruct a; constructor|].
  destruct a as [|x a]; simpl; [constructor|]. constructor; [apply clip_in_bounds; lra|apply IH].
Qed.

Theorem squash_wrap_in_bounds sq (e : env) g a lo hi : a_sq g = Some {| s_lo := lo; s_hi := hi; s_on := sq |} -> ordered lo hi ->
  exists a', within a' lo hi /\ e_step (squash_wrap Rops tanh sq e) g a = e_step e g a'.
Proof.
  intros Hs Hord. eexists. split; [|simpl; rewrite Hs; reflexivity]. simpl. apply squash_map_within. exact Hord.
Qed.
Theorem clip_wrap_in_bounds (e : env) g a lo hi : e_space e g = (lo, hi) -> ordered lo hi ->
  exists a', within a' lo hi /\ e_step (clip_wrap Rops e) g a = e_step e g a'.
Proof.
  intros Hs Hord. eexists. split; [|simpl; rewrite Hs; reflexivity]. apply clip_map_within. exact Hord.
Qed.
(* the squash wrapper records the wrapped environment's bounds at reset *)
Theorem squash_wrap_reset_bounds sq (e : env) k :
  let '(g, _, _) := e_reset (squash_wrap Rops tanh sq e) k in let '(g0, _, _) := e_reset e k in
  a_sq g = Some {| s_lo := fst (e_space e g0); s_hi := snd (e_space e g0); s_on := sq |}.
Proof. simpl. destruct (e_reset e k) as [[g0 o] i]. destruct (e_space e g0). reflexivity. Qed.
End ActionLaws.

(* ================================================================== running moments over R *)
Section MomentLaws.
Local Notation mom := (mom (A:=R)).
(* raw power sums represented by a (mean, var, count) triple *)
Definition S0 (s : mom) := m_count s.
Definition S1 (s : mom) := m_count s * m_mean s.
Definition S2 (s : mom) := m_count s * (m_var s + m_mean s * m_mean s).

(* Chan's parallel update is exact: the power sums add *)
Theorem mom_update_adds s bm bv bc : m_count s + bc <> 0 ->
  let s' := mom_update Rops s bm bv bc in
  S0 s' = S0 s + bc /\ S1 s' = S1 s + bc * bm /\ S2 s' = S2 s + bc * (bv + bm * bm).
Proof. intros H. unfold mom_update, S0, S1, S2; simpl; rsimp. repeat split; field; exact H. Qed.

Definition sumsq (l : list R) := rsum (map (fun x => x * x) l).
Definition len (l : list R) : R := INR (length l).
Lemma lsum_rsum l : lsum Rops l = rsum l. Proof. induction l; simpl; rsimp; [reflexivity|rewrite IHl; reflexivity]. Qed.
Lemma llen_len l : llen Rops l = len l. Proof. unfold llen, len; rsimp. rewrite <- INR_IZR_INZ. reflexivity. Qed.

Lemma rsum_map_add (f g : R -> R) l : rsum (map (fun x => f x + g x) l) = rsum (map f l) + rsum (map g l).
Proof. induction l; simpl; lra. Qed.
Lemma rsum_map_scale c (f : R -> R) l : rsum (map (fun x => c * f x) l) = c * rsum (map f l).
Proof. induction l; simpl; lra. Qed.
Lemma rsum_map_const c (l : list R) : rsum (map (fun _ => c) l) = c * len l.
Proof. unfold len. induction l; [simpl; lra|]. change (length (a :: l)) with (S (length l)). rewrite S_INR. simpl. lra. Qed.
Lemma rsum_map_id l : rsum (map (fun x => x) l) = rsum l.
Proof. induction l; simpl; lra. Qed.

(* jnp.mean / jnp.var of a batch carry its power sums *)
Lemma batch_power_sums l : len l <> 0 ->
  len l * bmean Rops l = rsum l /\ len l * (bvar Rops l + bmean Rops l * bmean Rops l) = sumsq l.
Proof.
  intros H. unfold bvar, bmean. cbv zeta. rewrite (llen_len l), (lsum_rsum l). rewrite (lsum_rsum (map _ l)). rsimp. split; [field; exact H|].
  set (m := rsum l / len l).
  assert (E : rsum (map (fun x => (x - m) * (x - m)) l) = sumsq l - 2 * m * rsum l + m * m * len l).
  { unfold sumsq.
    rewrite (map_ext (fun x => (x - m) * (x - m)) (fun x => (x * x + (-2 * m) * x) + m * m)) by (intros; ring).
    rewrite (rsum_map_add (fun x => x * x + -2 * m * x) (fun _ => m * m)).
    rewrite (rsum_map_add (fun x => x * x) (fun x => -2 * m * x)).
    rewrite (rsum_map_scale (-2 * m) (fun x => x)), rsum_map_id, rsum_map_const. ring. }
  rewrite E. replace (rsum l) with (len l * m) by (unfold m; field; exact H). field. exact H.
Qed.

Fixpoint mrun (s : mom) (bs : list (list R)) : mom :=
  match bs with [] => s | b :: bs => mrun (mom_batch Rops s b) bs end.

(* after any sequence of non-empty batches the state carries the power sums of the prior plus everything seen *)
Theorem moments_all_seen bs : forall s, 0 < m_count s -> (forall b, In b bs -> b <> []) ->
  let all := concat bs in
  S0 (mrun s bs) = S0 s + len all /\ S1 (mrun s bs) = S1 s + rsum all /\ S2 (mrun s bs) = S2 s + sumsq all.
Proof.
  induction bs as [|b bs IH]; intros s Hc Hne.
  - simpl. unfold len, sumsq; simpl. repeat split; lra.
  - cbn [mrun concat]. cbv zeta.
    assert (Hb : b <> []) by (apply Hne; now left).
    assert (Hl : 0 < len b). { unfold len. destruct b; [congruence|]. apply lt_0_INR. simpl. apply PeanoNat.Nat.lt_0_succ. }
    assert (Hn0 : m_count s + len b <> 0) by lra.
    destruct (mom_update_adds s (bmean Rops b) (bvar Rops b) (len b) Hn0) as (A0 & A1 & A2).
    destruct (batch_power_sums b) as (B1 & B2); [lra|].
    assert (Hmb : mom_batch Rops s b = mom_update Rops s (bmean Rops b) (bvar Rops b) (len b))
      by (unfold mom_batch; rewrite llen_len; reflexivity).
    destruct (IH (mom_batch Rops s b)) as (I0 & I1 & I2).
    { rewrite Hmb. unfold mom_update; simpl. rsimp. lra. }
    { intros; apply Hne; now right. }
    rewrite Hmb in *.
    unfold len, sumsq in *. rewrite app_length, plus_INR, map_app, !rsum_app.
    repeat split; [rewrite I0, A0|rewrite I1, A1, B1|rewrite I2, A2, B2]; lra.
Qed.

(* from the prior of the wrappers (mean 0, var 1, weight 1e-4): mean and variance of everything seen, with that prior *)
Corollary moments_from_prior bs : (forall b, In b bs -> b <> []) ->
  let all := concat bs in let s := mrun (mom0 Rops) bs in let n := / 10000 + len all in
  m_count s = n /\ m_mean s = rsum all / n /\ m_var s = (/ 10000 + sumsq all) / n - m_mean s * m_mean s.
Proof.
  intros Hne. cbv zeta.
  pose proof (moments_all_seen bs (mom0 Rops)) as M. cbv zeta in M.
  set (s := mrun (mom0 Rops) bs) in *.
  destruct M as (A0 & A1 & A2); [simpl; rsimp; lra|exact Hne|].
  unfold S0, S1, S2 in *. simpl in A0, A1, A2. rsimp.
  assert (Hl : 0 <= len (concat bs)) by (unfold len; apply pos_INR).
  assert (Hc : m_count s = / 10000 + len (concat bs)) by lra.
  assert (Hn : / 10000 + len (concat bs) <> 0) by lra.
  rewrite Hc in A1, A2.
  assert (Hm : m_mean s = rsum (concat bs) / (/ 10000 + len (concat bs))).
  { apply Rmult_eq_reg_l with (/ 10000 + len (concat bs)); [|exact Hn]. rewrite A1. field. lra. }
  split; [exact Hc|]. split; [exact Hm|].
  apply Rmult_eq_reg_l with (/ 10000 + len (concat bs)); [|exact Hn].
  replace ((/ 10000 + len (concat bs)) * ((/ 10000 + sumsq (concat bs)) / (/ 10000 + len (concat bs)) - m_mean s * m_mean s))
    with (/ 10000 + sumsq (concat bs) - (/ 10000 + len (concat bs)) * (m_mean s * m_mean s)) by (field; lra).
  lra.
Qed.

(* NormalizeVecReward's discounted return: restarts at a done step, otherwise Horner's rule *)
Theorem ret_update_done gamma rv r te tr : te || tr = true -> ret_update Rops gamma rv r te tr = r.
Proof. intros H. unfold ret_update. rewrite H. rsimp. ring. Qed.
Theorem ret_update_running gamma rv r : ret_update Rops gamma rv r false false = rv * gamma + r.
Proof. unfold ret_update. simpl. rsimp. ring. Qed.
Fixpoint horner (gamma rv : R) (rs : list R) : R := match rs with [] => rv | r :: rs => horner gamma (rv * gamma + r) rs end.
Theorem ret_horner gamma rs : forall rv,
  fold_left (fun v r => ret_update Rops gamma v r false false) rs rv = horner gamma rv rs.
Proof. induction rs as [|r rs IH]; intros rv; [reflexivity|]. cbn [fold_left horner]. rewrite IH, ret_update_running. reflexivity. Qed.

(* normalize: bounded by the clip value; inverse of denormalize when no clipping happens *)
Theorem nv_normalize_clipped mean var c sm x : 0 <= c -> - c <= nv_normalize Rops sqrt mean var c true sm x <= c.
Proof. intros H. unfold nv_normalize. apply clip_in_bounds. rsimp. lra. Qed.
Theorem nv_denormalize_normalize mean var c b x : 0 <= var ->
  nv_denormalize Rops sqrt mean var b (nv_normalize Rops sqrt mean var c false b x) = x.
Proof.
  intros H. unfold nv_denormalize, nv_normalize, nv_eps. rsimp.
  assert (0 < sqrt (var + 1 / 100000000)) by (apply sqrt_lt_R0; lra).
  destruct b; field; lra.
Qed.
End MomentLaws.

(* the vectorised wrappers thread the moment update over the batches the wrapped environment returns *)
Section VecLaws.
Context {A : Type} (O : ops A).
Variables (C IB Rng : Type) (sq : A -> A).
Local Notation venv := (venv (A:=A) C IB Rng).

Theorem norm_obs_wrap_step clipv (e : venv) v acts ms0 v1 ob r te tr i : a_nobs v = Some ms0 ->
  ve_step e (set_nobs v None) acts = (v1, ob, r, te, tr, i) ->
  let ms := map2 (fun m col => mom_batch O m col) ms0 (columns O ob) in
  ve_step (norm_obs_wrap O sq clipv e) v acts =
    (set_nobs v1 (Some ms), map (norm_obs_row O sq clipv ms) ob, r, te, tr, i).
Proof. intros H1 H2. simpl. rewrite H2, H1. reflexivity. Qed.

Theorem norm_rew_wrap_step gamma clipv (e : venv) v acts s v1 ob r te tr i : a_nrew v = Some s ->
  ve_step e (set_nrew v None) acts = (v1, ob, r, te, tr, i) ->
  let rv := map3 (fun x rw d => ret_update O gamma x rw (fst d) (snd d)) (n_ret s) r (combine te tr) in
  let m := mom_batch O (n_mom s) rv in
  ve_step (norm_rew_wrap O sq gamma clipv e) v acts =
    (set_nrew v1 (Some {| n_mom := m; n_ret := rv |}), ob,
     map (nv_normalize O sq (m_mean m) (m_var m) clipv true false) r, te, tr, i).
Proof. intros H1 H2. simpl. rewrite H2, H1. reflexivity. Qed.

(* VecEnvWrapper is the wrapped environment applied to each member of the batch *)
Theorem vec_step_pointwise (e : env (A:=A) C IB Rng) v acts :
  let '(v1, ob, r, te, tr, i) := ve_step (vec e) v acts in
  let rs := map2 (e_step e) (v_envs v) acts in
  v_envs v1 = map r_gs rs /\ ob = map r_obs rs /\ r = map r_rew rs /\
  te = map r_te rs /\ tr = map r_tr rs /\ i = map r_info rs.
Proof. simpl. auto 10. Qed.
End VecLaws.

(* forms of the squash formulas that Coq-Interval can enclose (used by the correspondence check) *)
Definition unsquash_exp (lo hi x : R) : R := 1 / 2 * ((1 - 2 / (exp (2 * x) + 1)) + 1) * (hi - lo) + lo.
Lemma unsquash_exp_eq lo hi x : sq_unsquash Rops tanh true lo hi x = unsquash_exp lo hi x.
Proof.
  unfold sq_unsquash, unsquash_exp; rsimp. rewrite tanh_exp2. assert (0 < exp (2 * x)) by apply exp_pos. field. lra.
Qed.
Definition scale_ln (lo hi y : R) : R := ln ((1 + (2 * (y - lo) / (hi - lo) - 1)) / (1 - (2 * (y - lo) / (hi - lo) - 1))) / 2.
Lemma scale_ln_eq lo hi y : sq_scale Rops atanh true lo hi y = scale_ln lo hi y.
Proof. reflexivity. Qed.

(* keeps_init / keeps_log hold of the wrapped environment and are preserved by the wrappers: the hypotheses of
   auto_fixed_history / log_wrap_scan are met by every stack *)
Section StackLaws.
Context {A : Type} (O : ops A).
Variables (C IB Rng : Type) (th : A -> A) (split : Rng -> Rng * Rng).
Variable base_reset : Rng -> C * Rng * obs (A:=A) * IB.
Variable base_step : C -> Rng -> act (A:=A) -> C * Rng * obs (A:=A) * A * bool * bool * IB.
Variable base_space : C -> list A * list A.
Local Notation stack := (stack O C IB Rng th split base_reset base_step base_space).
Local Notation base := (base C IB Rng base_reset base_step base_space).
Local Notation env := (env (A:=A) C IB Rng).
Implicit Types e : env.

Lemma keeps_base : keeps_init C IB Rng base /\ keeps_log C IB Rng base.
Proof. split; intros g a; simpl; destruct (base_step (g_core g) (g_rng g) a) as [[[[[[c r] o] rw] te] tr] i]; reflexivity. Qed.
Lemma keeps_auto_fixed e : keeps_log C IB Rng e -> keeps_log C IB Rng (auto_fixed e).
Proof.
  intros H g a. specialize (H g a). simpl. destruct (e_step e g a) as [[[[[g1 o] r] te] tr] i]. unfold r_gs in *; simpl in *.
  destruct (a_init g1) as [[[c0 o0] i0]|]; [|exact H]. destruct (te || tr); exact H.
Qed.
Lemma keeps_auto_fresh e : (keeps_init C IB Rng e -> keeps_init C IB Rng (auto_fresh split e)) /\
                           (keeps_log C IB Rng e -> keeps_log C IB Rng (auto_fresh split e)).
Proof.
  split; intros H g a; specialize (H g a); simpl; destruct (e_step e g a) as [[[[[g1 o] r] te] tr] i]; unfold r_gs in *; simpl in *;
    destruct (split (g_rng g1)) as [n ri]; destruct (e_reset e ri) as [[ig io] ii]; destruct (te || tr); exact H.
Qed.
Lemma keeps_log_wrap e : keeps_init C IB Rng e -> keeps_init C IB Rng (log_wrap O e).
Proof.
  intros H g a; specialize (H g a); simpl; destruct (e_step e g a) as [[[[[g1 o] r] te] tr] i]; unfold r_gs in *; simpl in *.
  destruct (a_log g1); exact H.
Qed.
Lemma keeps_squash_wrap sq e : (keeps_init C IB Rng e -> keeps_init C IB Rng (squash_wrap O th sq e)) /\
                               (keeps_log C IB Rng e -> keeps_log C IB Rng (squash_wrap O th sq e)).
Proof. split; intros H g a; simpl; destruct (a_sq g); apply H. Qed.
Lemma keeps_clip_wrap e : (keeps_init C IB Rng e -> keeps_init C IB Rng (clip_wrap O e)) /\
                          (keeps_log C IB Rng e -> keeps_log C IB Rng (clip_wrap O e)).
Proof. split; intros H g a; simpl; destruct (e_space e g); apply H. Qed.

Theorem stack_keeps ws : keeps_init C IB Rng (stack ws) /\ (~ In WLog ws -> keeps_log C IB Rng (stack ws)).
Proof.
  induction ws as [|w ws IH] using rev_ind; [split; [|intros _]; apply keeps_base|].
  unfold RlEnv.stack in *. rewrite fold_left_app. cbn [fold_left]. destruct IH as [I1 I2].
  set (e := fold_left _ ws _) in *. split.
  - destruct w; simpl; [apply keeps_init_auto_fixed|apply keeps_auto_fresh|apply keeps_log_wrap|apply keeps_squash_wrap|apply keeps_clip_wrap]; exact I1.
  - intros Hn. assert (Hws : ~ In WLog ws) by (intros X; apply Hn, in_or_app; now left). specialize (I2 Hws).
    destruct w; simpl; [apply keeps_auto_fixed|apply keeps_auto_fresh| |apply keeps_squash_wrap|apply keeps_clip_wrap]; try exact I2.
    exfalso. apply Hn, in_or_app. right. now left.
Qed.
End StackLaws.
