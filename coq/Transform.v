(* C17: parameter transforms on pytrees: leaf-wise maps, chains, extend *)
From Coq Require Import Reals Lra List String.
Import ListNotations.
Open Scope R_scope.

(* pytrees: a leaf is an optional real (None = Python None, skipped by tree_map), a node is a keyed list *)
Inductive tree := Leaf (v : option R) | Node (kids : list (string * tree)).

Fixpoint tmap (f : R -> R) (t : tree) : tree :=
  match t with
  | Leaf v => Leaf (option_map f v)
  | Node kids => Node ((fix go (l : list (string * tree)) := match l with [] => [] | (k, c) :: l => (k, tmap f c) :: go l end) kids)
  end.

(* a transform is a pair of tree functions *)
Record transform := { app : tree -> tree; inv : tree -> tree }.
Definition roundtrip (D : tree -> Prop) (T : transform) := forall t, D t -> inv T (app T t) = t.

(* Chain.apply folds first-to-last, Chain.inv folds over the reversed list *)
Definition chain_app (ts : list transform) (t : tree) : tree := fold_left (fun acc T => app T acc) ts t.
Definition chain_inv (ts : list transform) (t : tree) : tree := fold_left (fun acc T => inv T acc) (rev ts) t.

Lemma chain_app_cons T ts t : chain_app (T :: ts) t = chain_app ts (app T t).
Proof. reflexivity. Qed.
Lemma chain_inv_cons T ts t : chain_inv (T :: ts) t = inv T (chain_inv ts t).
Proof. unfold chain_inv. simpl. rewrite fold_left_app. reflexivity. Qed.

(* members applied first-to-last *)
Theorem chain_apply_order ts1 ts2 t : chain_app (ts1 ++ ts2) t = chain_app ts2 (chain_app ts1 t).
Proof. unfold chain_app. apply fold_left_app. Qed.
(* inverted last-to-first *)
Theorem chain_inv_order ts1 ts2 t : chain_inv (ts1 ++ ts2) t = chain_inv ts1 (chain_inv ts2 t).
Proof. unfold chain_inv. rewrite rev_app_distr. apply fold_left_app. Qed.

(* if every member round-trips on everything, so does the chain *)
Theorem chain_inv_apply ts : (forall T, In T ts -> forall t, inv T (app T t) = t) ->
  forall t, chain_inv ts (chain_app ts t) = t.
Proof.
  induction ts as [|T ts IH]; intros H t; [reflexivity|].
  rewrite chain_app_cons, chain_inv_cons, IH by (intros; apply H; now right). apply H. now left.
Qed.

(* leaf-wise transforms: a round trip of the scalar map lifts to trees (None leaves are left alone) *)
Fixpoint tall (P : R -> Prop) (t : tree) : Prop :=
  match t with
  | Leaf None => True | Leaf (Some v) => P v
  | Node kids => (fix go (l : list (string * tree)) := match l with [] => True | (_, c) :: l => tall P c /\ go l end) kids
  end.

Lemma tmap_roundtrip (f g : R -> R) (P : R -> Prop) : (forall x, P x -> g (f x) = x) ->
  forall t, tall P t -> tmap g (tmap f t) = t.
Proof.
  intros H. fix IH 1. intros [v|kids] Ht.
  - destruct v as [v|]; simpl in *; [rewrite H by exact Ht|]; reflexivity.
  - simpl. f_equal. induction kids as [|[k c] kids IHk]; [reflexivity|]. simpl in Ht. destruct Ht as [Hc Hk].
    f_equal; [f_equal; apply IH; exact Hc|apply IHk; exact Hk].
Qed.

(* Denormalize with scalar bounds (per-leaf bounds are the same law leaf by leaf), Exponential *)
Definition denorm (mn mx x : R) := x * ((mx - mn) / 2) + (mn + mx) / 2.
Definition norm (mn mx y : R) := (y - (mn + mx) / 2) / ((mx - mn) / 2).
Theorem denormalize_roundtrip mn mx t : mn <> mx -> tmap (norm mn mx) (tmap (denorm mn mx) t) = t.
Proof.
  intros H. apply (tmap_roundtrip _ _ (fun _ => True)); [|clear; revert t; fix IH 1; intros [[v|]|kids]; simpl; auto;
    induction kids as [|[k c] kids IHk]; simpl; auto].
  intros x _. unfold norm, denorm. field. lra.
Qed.
Theorem exponential_roundtrip t : tmap ln (tmap exp t) = t.
Proof.
  apply (tmap_roundtrip _ _ (fun _ => True)); [intros; apply ln_exp|].
  revert t; fix IH 1; intros [[v|]|kids]; simpl; auto. induction kids as [|[k c] kids IHk]; simpl; auto.
Qed.
Print Assumptions chain_inv_apply.
Print Assumptions denormalize_roundtrip.
