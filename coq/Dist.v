(* C15 model: delay distributions of rex/base.py (StaticDist, TrainableDist), the grid quantile of
   rex/utils.py mixture_distribution_quantiles, the default expected delay of rex/node.py and the export step
   GMMEstimator.get_dist/_rescale of rex/gmm_estimator.py.
   External behaviour enters as Section variables: the PRNG (split, draw), the standard normal CDF Phi and its
   quantile function Phinv (jax.scipy.special.ndtri).  Carrier-generic where the code is executed against the
   implementation (Z ranks for the order-theoretic grid routine, Q for arithmetic); R for the statements about CDFs.
   Proofs are in DistLaws.v. *)
From Coq Require Import List ZArith QArith Bool Reals.
From Rex Require Import Ops.
Import ListNotations.

(* ------------------------------------------------------------------------------------------------------------
   numpy's argmax on a boolean array: index of the first True, and 0 when there is none (argmax of all-False). *)
Fixpoint first_true (bs : list bool) : option nat :=
  match bs with [] => None | b :: bs => if b then Some 0%nat else option_map S (first_true bs) end.
Definition np_argmax_bool (bs : list bool) : nat := match first_true bs with Some i => i | None => 0%nat end.
(* the proposed repair: fall back to the last grid point when nothing exceeds the level *)
Definition argmax_or_last (bs : list bool) : nat := match first_true bs with Some i => i | None => (length bs - 1)%nat end.

Section Grid.
Context {A : Type} (ltb : A -> A -> bool) (dflt : A).
Definition leb (a b : A) : bool := negb (ltb b a).
Definition lmin (x : A) (xs : list A) : A := fold_left (fun m y => if ltb y m then y else m) xs x.
Definition lmax (x : A) (xs : list A) : A := fold_left (fun m y => if ltb m y then y else m) xs x.
(* onp.greater(cdf_grid_one_obs, p) *)
Definition above (p : A) (cs : list A) : list bool := map (fun c => ltb p c) cs.
Definition grid_index (p : A) (cs : list A) : nat := np_argmax_bool (above p cs).         (* pinned code *)
Definition grid_index_fix (p : A) (cs : list A) : nat := argmax_or_last (above p cs).     (* repaired code *)
(* grid_check = (cdf_grid.min() <= min(probs)) & (max(probs) <= cdf_grid.max()); RuntimeError otherwise (None) *)
Definition grid_check (probs cs : list A) : bool :=
  match probs, cs with
  | p0 :: ps, c0 :: cs' => leb (lmin c0 cs') (lmin p0 ps) && leb (lmax p0 ps) (lmax c0 cs')
  | _, _ => false
  end.
(* mixture_distribution_quantiles for a distribution with scalar batch shape: gs = base_grid, cs = cdf_grid *)
Definition grid_quantiles (idx : A -> list A -> nat) (probs gs cs : list A) : option (list A) :=
  if grid_check probs cs then Some (map (fun p => nth (idx p cs) gs dflt) probs) else None.
End Grid.

(* ------------------------------------------------------------------------------------------------------------
   StaticDist.sample / reset: the state is (distribution, key). *)
Section Sample.
Context {K D A : Type} (O : ops A) (split : K -> K * K) (draw : D -> K -> nat -> list A).
Definition clip0 (x : A) : A := omax O x (oz O 0).
Definition static_sample (st : D * K) (n : nat) : (D * K) * list A :=
  let (new_rng, rng_sample) := split (snd st) in
  ((fst st, new_rng), map clip0 (draw (fst st) rng_sample n)).
Definition static_reset (st : D * K) (k : K) : D * K := (fst st, k).
(* consecutive draws of the given sizes (rex draws the delays of a node in batches) *)
Fixpoint sample_stream (st : D * K) (ns : list nat) : (D * K) * list (list A) :=
  match ns with
  | [] => (st, [])
  | n :: ns => let (st1, xs) := static_sample st n in let (st2, r) := sample_stream st1 ns in (st2, xs :: r)
  end.
End Sample.

(* ------------------------------------------------------------------------------------------------------------
   TrainableDist: a point mass at min + alpha (max - min). *)
Section Trainable.
Context {A : Type} (O : ops A).
Definition trainable_value (mn mx alpha : A) : A := oadd O mn (omul O alpha (osub O mx mn)).
Definition trainable_sample (mn mx alpha : A) (n : nat) : list A := repeat (trainable_value mn mx alpha) n.
Definition trainable_quantile (mn mx alpha q : A) : A := trainable_value mn mx alpha.
Definition trainable_mean (mn mx alpha : A) : A := trainable_value mn mx alpha.
Definition get_alpha_raw (delay mn mx : A) : A := odiv O (osub O delay mn) (osub O mx mn).
Definition get_alpha (delay mn mx : A) : A := omin O (omax O (get_alpha_raw delay mn mx) (oz O 0)) (oz O 1).

(* rex/node.py: self.delay = delay if delay is not None else float(delay_dist.quantile(0.99)); assert self.delay >= 0 *)
Definition q99 : A := odiv O (oz O 99) (oz O 100).
Definition node_delay (nonneg : A -> bool) (delay : option A) (quant : A -> A) : option A :=
  let v := match delay with Some d => d | None => quant q99 end in
  if nonneg v then Some v else None.
End Trainable.

(* ------------------------------------------------------------------------------------------------------------
   GMMEstimator.get_dist: normalise, sort ascending by weight, prune the lightest components while their total
   mass stays below 1 - percentile, renormalise.  Input: (exp log_w, (mu, scale)) per component, already in the
   units of the data (see rescale below). *)
Section Gmm.
Context {A B : Type} (O : ops A) (ltb : A -> A -> bool).
Definition osum (xs : list A) : A := fold_right (oadd O) (oz O 0) xs.
Definition normalize_weights (ws : list A) : list A := let t := osum ws in map (fun w => odiv O w t) ws.
Fixpoint prune_count (thr cum : A) (ws : list A) : nat :=
  match ws with
  | [] => 0%nat
  | w :: ws => if ltb (oadd O cum w) thr then S (prune_count thr (oadd O cum w) ws) else 0%nat
  end.
Fixpoint insert_by (x : A * B) (l : list (A * B)) : list (A * B) :=
  match l with [] => [x] | y :: l' => if ltb (fst x) (fst y) then x :: l else y :: insert_by x l' end.
Fixpoint isort (l : list (A * B)) : list (A * B) := match l with [] => [] | x :: l => insert_by x (isort l) end.
Definition prune_thr (percentile : A) : A := osub O (oz O 1) percentile.
Definition get_dist_comps (percentile : A) (raw : list (A * B)) : list (A * B) :=
  let w := normalize_weights (map fst raw) in
  let sorted := isort (combine w (map snd raw)) in
  let k := prune_count (prune_thr percentile) (oz O 0) (map fst sorted) in
  let kept := skipn k sorted in
  combine (normalize_weights (map fst kept)) (map snd kept).
(* _rescale: component means back to the units of the data *)
Definition rescale_mu (mean sd m : A) : A := oadd O (omul O m sd) mean.
End Gmm.

(* executable instances *)
Definition Qltb (a b : Q) : bool := match Qcompare a b with Lt => true | _ => false end.

(* ------------------------------------------------------------------------------------------------------------
   Real-valued layer: CDFs and StaticDist.quantile. *)
Definition Rltb (a b : R) : bool := if Rlt_dec a b then true else false.
Definition Rnonneg (a : R) : bool := if Rle_dec 0 a then true else false.

Inductive sdist := Det (loc : R) | Norm (loc scale : R) | Mix (comps : list (R * (R * R))) (* weight, (loc, scale) *).

Definition mix_n : nat := 1000.   (* N_grid_points=int(1e3) *)

Section Real.
Variables Phi Phinv : R -> R.
Open Scope R_scope.
Definition det_cdf (loc x : R) : R := if Rle_dec loc x then 1 else 0.
Definition normal_cdf (loc scale x : R) : R := Phi ((x - loc) / scale).
Definition mix_cdf (comps : list (R * (R * R))) (x : R) : R :=
  fold_right (fun c acc => fst c * normal_cdf (fst (snd c)) (snd (snd c)) x + acc) 0 comps.
Definition cdf (d : sdist) (x : R) : R :=
  match d with Det l => det_cdf l x | Norm l s => normal_cdf l s x | Mix cs => mix_cdf cs x end.

Definition normal_quantile (q loc scale : R) : R := Phinv q * scale + loc.
(* onp.linspace(a, b, num=n) *)
Definition linspace (a b : R) (n : nat) : list R := map (fun i => a + INR i * ((b - a) / INR (n - 1))) (seq 0 n).
Definition comp_q (z : R) (c : R * (R * R)) : R := Phinv z * snd (snd c) + fst (snd c).
Definition mix_grid_min (comps : list (R * (R * R))) : R :=
  match map (comp_q (1 / 1000)) comps with [] => 0 | x :: xs => lmin Rltb x xs * (9 / 10) end.
Definition mix_grid_max (comps : list (R * (R * R))) : R :=
  match map (comp_q (999 / 1000)) comps with [] => 0 | x :: xs => lmax Rltb x xs * (11 / 10) end.
Definition mix_grid (comps : list (R * (R * R))) : list R := linspace (mix_grid_min comps) (mix_grid_max comps) mix_n.
Definition mix_quantile_with (idx : R -> list R -> nat) (comps : list (R * (R * R))) (q : R) : option R :=
  let gs := mix_grid comps in
  match grid_quantiles Rltb 0 idx [q] gs (map (mix_cdf comps) gs) with Some (x :: _) => Some x | _ => None end.
(* StaticDist.quantile for a scalar level; None = raises *)
Definition static_quantile (d : sdist) (q : R) : option R :=
  match d with
  | Det loc => Some (1 * loc)
  | Norm loc scale => Some (normal_quantile q loc scale)
  | Mix comps => mix_quantile_with (grid_index Rltb) comps q
  end.
Definition static_quantile_fix (d : sdist) (q : R) : option R :=
  match d with Mix comps => mix_quantile_with (grid_index_fix Rltb) comps q | _ => static_quantile d q end.

(* GMMEstimator: data statistics and the deterministic shortcut *)
Definition rmean (xs : list R) : R := fold_right Rplus 0 xs / INR (length xs).
Definition rstd (xs : list R) : R := sqrt (rmean (map (fun x => (x - rmean xs) * (x - rmean xs)) xs)).
Definition rescale_comp (mean sd : R) (c : R * (R * R)) : R * (R * R) :=   (* (w, (mu, log scale)) -> (w, (mu', scale')) *)
  (fst c, (rescale_mu Rops mean sd (fst (snd c)), exp (snd (snd c) + ln sd))).
Definition gmm_get_dist (threshold percentile : R) (data : list R) (fitted : list (R * (R * R))) : sdist :=
  if Rltb (rstd data) threshold then Det (rmean data)
  else Mix (get_dist_comps Rops Rltb percentile (map (rescale_comp (rmean data) (rstd data)) fitted)).
End Real.

(* the assumed contract of the standard normal CDF and its quantile function (jax.scipy.special.ndtri) *)
Definition std_normal_pair (Phi Phinv : R -> R) : Prop :=
  (forall x y, (x < y)%R -> (Phi x < Phi y)%R) /\ (forall q, (0 < q < 1)%R -> Phi (Phinv q) = q).
(* a mixture of delays: non-negative weights, positive scales, grid oriented (holds when every component's
   0.001-quantile is non-negative, DistLaws.mix_grid_oriented) *)
Definition mix_wf (Phinv : R -> R) (comps : list (R * (R * R))) : Prop :=
  Forall (fun c => (0 <= fst c)%R /\ (0 < snd (snd c))%R) comps /\ (mix_grid_min Phinv comps <= mix_grid_max Phinv comps)%R.
Definition mix_step (Phinv : R -> R) (comps : list (R * (R * R))) : R :=
  ((mix_grid_max Phinv comps - mix_grid_min Phinv comps) / INR (mix_n - 1))%R.
