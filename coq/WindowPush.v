(* C03: the InputState after the pushes of a step holds the most recent `window` consumed messages, oldest first *)
From Coq Require Import List Arith Lia.
From Rex Require Import CompiledModel WindowSpec.
Import ListNotations.

Section Push.
Context {X : Type}.
Definition push_all (w g : list X) : list X := lastn (length w) (w ++ g).

Lemma lastn_all (n : nat) (l : list X) : (length l <= n)%nat -> lastn n l = l.
Proof. intros H. unfold lastn. replace (length l - n)%nat with 0%nat by lia. reflexivity. Qed.

(* truncating a group to its last n entries before pushing changes nothing (push_selection keeps grouped[-window:]) *)
Lemma push_truncated (w g : list X) : push_all w (lastn (length w) g) = push_all w g.
Proof.
  unfold push_all. set (n := length w).
  destruct (le_lt_dec (length g) n) as [Hle|Hgt].
  - now rewrite (lastn_all n g) by exact Hle.
  - rewrite (lastn_app_ge n w (lastn n g)) by (rewrite lastn_length; lia).
    rewrite (lastn_app_ge n w g) by lia.
    unfold lastn at 1. rewrite lastn_length by lia. rewrite Nat.sub_diag. reflexivity.
Qed.

(* pushing group after group = keeping the last n of everything seen so far *)
Theorem window_is_lastn (w0 : list X) (gs : list (list X)) :
  fold_left push_all gs w0 = lastn (length w0) (w0 ++ concat gs).
Proof.
  assert (H : forall gs w pre, w = lastn (length w0) (w0 ++ pre) ->
            fold_left push_all gs w = lastn (length w0) (w0 ++ pre ++ concat gs)).
  { induction gs0 as [|g gs0 IH]; intros w pre Hw; simpl.
    - now rewrite app_nil_r.
    - rewrite (IH (push_all w g) (pre ++ g)).
      + now rewrite <- app_assoc.
      + unfold push_all. assert (Hl : length w = length w0) by (subst w; apply lastn_length; rewrite app_length; lia).
        rewrite Hl, Hw, lastn_lastn_app by (rewrite app_length; lia). now rewrite <- app_assoc. }
  rewrite (H gs w0 []); [reflexivity|]. rewrite app_nil_r. symmetry. apply lastn_all. lia.
Qed.
End Push.
Print Assumptions window_is_lastn.
