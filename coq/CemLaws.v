(* C18: laws of the CEM / evosax-wrapper model of Cem.v *)
From Coq Require Import List Arith ZArith QArith Qminmax Bool Lia Permutation Sorted.
From Rex Require Import Ops Cem.
Import ListNotations.

Ltac solve_ord :=
  unfold pick, emin, leb, ltb, finite in *;
  repeat match goal with H : @eq bool _ _ |- _ => revert H | H : @eq ext _ _ |- _ => revert H end;
  repeat match goal with x : ext |- _ => destruct x end; simpl;
  repeat match goal with |- context [(?a <? ?b)%Z] => destruct (Z.ltb_spec a b); simpl end;
  intros; try discriminate; try reflexivity; try congruence; try (f_equal; lia); try lia.

(* ------------------------------------------------------------------ the order on cleaned losses *)
Lemma leb_refl a : leb a a = true. Proof. solve_ord. Qed.
Lemma leb_trans a b c : leb a b = true -> leb b c = true -> leb a c = true. Proof. solve_ord. Qed.
Lemma leb_total a b : leb a b = false -> leb b a = true. Proof. solve_ord. Qed.
Lemma leb_antisym a b : leb a b = true -> leb b a = true -> a = b. Proof. solve_ord. Qed.
Lemma ltb_not_leb a b : ltb a b = true -> leb b a = false. Proof. solve_ord. Qed.
Lemma ltb_PInf a : ltb PInf a = false. Proof. reflexivity. Qed.
Lemma leb_PInf a : leb a PInf = true. Proof. solve_ord. Qed.
Lemma emin_assoc a b c : emin a (emin b c) = emin (emin a b) c. Proof. solve_ord. Qed.
Lemma emin_PInf_r a : emin a PInf = a. Proof. solve_ord. Qed.
Lemma emin_PInf_l a : emin PInf a = a. Proof. solve_ord. Qed.
Lemma emin_le_l a b : leb (emin a b) a = true. Proof. solve_ord. Qed.
Lemma emin_le_r a b : leb (emin a b) b = true. Proof. solve_ord. Qed.
Lemma emin_cases a b : (emin a b = a /\ leb a b = true) \/ (emin a b = b /\ ltb b a = true). Proof. solve_ord; auto. Qed.
Lemma pick_loss_emin a b : pick a b a b = emin a b. Proof. solve_ord. Qed.
Lemma clean_nan : clean NaN = PInf. Proof. reflexivity. Qed.
Lemma clean_num e : clean (Num e) = e. Proof. reflexivity. Qed.
Lemma clean_finite_not_nan l : finite (clean l) = true -> l <> NaN. Proof. intros H ->. discriminate. Qed.

Lemma lmin_le l x : In x l -> leb (lmin l) x = true.
Proof.
  induction l as [|y l IH]; [contradiction|]. intros [->|Hin]; simpl.
  - apply emin_le_l.
  - eapply leb_trans; [apply emin_le_r | apply IH, Hin].
Qed.
Lemma lmin_in l : l <> [] -> In (lmin l) l.
Proof.
  induction l as [|y l IH]; [congruence|]. intros _. simpl.
  destruct (emin_cases y (lmin l)) as [[-> _]|[-> Hlt]]; [now left|].
  right. apply IH. intros ->. simpl in Hlt. discriminate.
Qed.
Lemma lmin_app a b : lmin (a ++ b) = emin (lmin a) (lmin b).
Proof. induction a as [|x a IH]; simpl; [now rewrite emin_PInf_l|]. now rewrite IH, emin_assoc. Qed.
(* characterisation: the minimum is a lower bound that is attained *)
Lemma lmin_unique l m : In m l -> (forall x, In x l -> leb m x = true) -> lmin l = m.
Proof.
  intros Hin Hlb. apply leb_antisym; [apply lmin_le, Hin|].
  apply Hlb, lmin_in. intros ->. contradiction.
Qed.
(* "the smallest finite loss, +inf if none" *)
Lemma lmin_no_finite l : (forall x, In x l -> x = PInf) -> lmin l = PInf.
Proof.
  intros H. destruct l as [|y l]; [reflexivity|]. apply H, lmin_in. discriminate.
Qed.
Lemma lmin_least_finite l v : (forall x, In x l -> x <> NInf) -> In (Val v) l ->
  exists w, lmin l = Val w /\ In (Val w) l /\ (w <= v)%Z /\ forall u, In (Val u) l -> (w <= u)%Z.
Proof.
  intros Hn Hin. assert (Hne : l <> []) by (intros ->; contradiction).
  pose proof (lmin_in l Hne) as Hm. pose proof (lmin_le l _ Hin) as Hle.
  destruct (lmin l) as [|w|] eqn:E; [exfalso; now apply (Hn _ Hm)| |solve_ord].
  exists w. split; [reflexivity|]. split; [exact Hm|]. split; [solve_ord|].
  intros u Hu. pose proof (lmin_le l _ Hu) as H. rewrite E in H. solve_ord.
Qed.

(* ------------------------------------------------------------------ stable argsort *)
Definition ple (p q : nat * ext) : Prop := leb (snd p) (snd q) = true.

Lemma ins_perm x l : Permutation (ins x l) (x :: l).
Proof.
  induction l as [|y l IH]; simpl; [reflexivity|]. destruct (leb (snd x) (snd y)); [reflexivity|].
  rewrite IH. apply perm_swap.
Qed.
Lemma sort_perm l : Permutation (sort_pairs l) l.
Proof. induction l as [|x l IH]; simpl; [reflexivity|]. rewrite ins_perm. now constructor. Qed.
Lemma ins_sorted x l : StronglySorted ple l -> StronglySorted ple (ins x l).
Proof.
  induction 1 as [|y l Hs IH Hall]; simpl; [repeat constructor|].
  destruct (leb (snd x) (snd y)) eqn:E.
  - constructor; [now constructor|]. constructor; [exact E|].
    eapply Forall_impl; [|exact Hall]. intros q Hq. unfold ple in *. eapply leb_trans; eauto.
  - constructor; [exact IH|]. eapply Permutation_Forall; [symmetry; apply ins_perm|].
    constructor; [apply leb_total, E | exact Hall].
Qed.
Lemma sort_sorted l : StronglySorted ple (sort_pairs l).
Proof. induction l; simpl; [constructor | now apply ins_sorted]. Qed.
Lemma sorted_app_le (a b : list (nat * ext)) : StronglySorted ple (a ++ b) -> forall p q, In p a -> In q b -> ple p q.
Proof.
  induction a as [|x a IH]; simpl; [contradiction|]. intros Hs p q [->|Hp] Hq.
  - inversion Hs as [|? ? _ Hall]; subst. rewrite Forall_forall in Hall. apply Hall, in_or_app. now right.
  - inversion Hs; subst. eapply IH; eauto.
Qed.

Lemma map_fst_combine' {A B} (a : list A) : forall b : list B, length a = length b -> map fst (combine a b) = a.
Proof. induction a as [|x a IH]; intros [|y b] H; simpl in *; try discriminate; [reflexivity|]. f_equal. apply IH. lia. Qed.
Lemma map_snd_combine' {A B} (a : list A) : forall b : list B, length a = length b -> map snd (combine a b) = b.
Proof. induction a as [|x a IH]; intros [|y b] H; simpl in *; try discriminate; [reflexivity|]. f_equal. apply IH. lia. Qed.
Lemma in_index_gen (l : list ext) : forall s i e, In (i, e) (combine (seq s (length l)) l) ->
  (s <= i < s + length l)%nat /\ nth (i - s) l PInf = e.
Proof.
  induction l as [|x l IH]; simpl; [contradiction|]. intros s i e [H|H].
  - inversion H; subst. rewrite Nat.sub_diag. split; [lia | reflexivity].
  - destruct (IH _ _ _ H) as [Hr He]. split; [lia|]. replace (i - s)%nat with (S (i - S s)) by lia. exact He.
Qed.
Lemma in_index l i e : In (i, e) (index l) -> (i < length l)%nat /\ nth i l PInf = e.
Proof. intros H. destruct (in_index_gen l 0 i e H) as [Hr He]. rewrite Nat.sub_0_r in He. split; [lia | exact He]. Qed.
Lemma index_in_gen (l : list ext) : forall s k, (k < length l)%nat -> In ((s + k)%nat, nth k l PInf) (combine (seq s (length l)) l).
Proof.
  induction l as [|x l IH]; simpl; [lia|]. intros s [|k] H.
  - left. now rewrite Nat.add_0_r.
  - right. replace (s + S k)%nat with (S s + k)%nat by lia. apply IH. lia.
Qed.
Lemma index_in l k : (k < length l)%nat -> In (k, nth k l PInf) (index l).
Proof. intros H. apply (index_in_gen l 0 k H). Qed.

Lemma argsort_perm cl : Permutation (argsort cl) (seq 0 (length cl)).
Proof.
  unfold argsort. rewrite (Permutation_map fst (sort_perm (index cl))). unfold index.
  rewrite map_fst_combine'; [reflexivity | now rewrite seq_length].
Qed.
Lemma argsort_length cl : length (argsort cl) = length cl.
Proof. rewrite (Permutation_length (argsort_perm cl)). apply seq_length. Qed.
Lemma argsort_NoDup cl : NoDup (argsort cl).
Proof. eapply Permutation_NoDup; [symmetry; apply argsort_perm | apply seq_NoDup]. Qed.
Lemma argsort_in cl i : In i (argsort cl) <-> (i < length cl)%nat.
Proof.
  split; intros H.
  - apply (Permutation_in _ (argsort_perm cl)) in H. apply in_seq in H. lia.
  - apply (Permutation_in _ (Permutation_sym (argsort_perm cl))). apply in_seq. lia.
Qed.
Lemma sorted_pairs_in cl p : In p (sort_pairs (index cl)) -> (fst p < length cl)%nat /\ nth (fst p) cl PInf = snd p.
Proof. intros H. apply (Permutation_in _ (sort_perm _)) in H. destruct p. now apply in_index. Qed.

(* elite_indices: count, distinctness, range *)
Lemma elites_length ne cl : length (elites ne cl) = Nat.min ne (length cl).
Proof. unfold elites. now rewrite firstn_length, argsort_length. Qed.
Lemma NoDup_firstn {A} n (l : list A) : NoDup l -> NoDup (firstn n l).
Proof.
  revert l. induction n as [|n IH]; intros [|x l] H; simpl; try constructor.
  - inversion H; subst. intros Hin. apply H2. rewrite <- (firstn_skipn n l). apply in_or_app. now left.
  - inversion H; subst. now apply IH.
Qed.
Lemma elites_NoDup ne cl : NoDup (elites ne cl).
Proof. apply NoDup_firstn, argsort_NoDup. Qed.
Lemma In_firstn {A} n (l : list A) x : In x (firstn n l) -> In x l.
Proof. intros H. rewrite <- (firstn_skipn n l). apply in_or_app. now left. Qed.
Lemma elites_range ne cl i : In i (elites ne cl) -> (i < length cl)%nat.
Proof. intros H. apply argsort_in. eapply In_firstn, H. Qed.

(* the elites are downward closed: whoever has a strictly smaller (cleaned) loss than an elite is an elite *)
Theorem elites_downward ne cl j k : In j (elites ne cl) -> (k < length cl)%nat ->
  ltb (nth k cl PInf) (nth j cl PInf) = true -> In k (elites ne cl).
Proof.
  unfold elites, argsort. rewrite firstn_map. intros Hj Hk Hlt.
  apply in_map_iff in Hj. destruct Hj as (p & <- & Hp).
  pose proof (index_in cl k Hk) as Hkin.
  apply (Permutation_in _ (Permutation_sym (sort_perm _))) in Hkin.
  rewrite <- (firstn_skipn ne (sort_pairs (index cl))) in Hkin. apply in_app_or in Hkin. destruct Hkin as [Hin|Hin].
  - apply in_map_iff. exists (k, nth k cl PInf). now split.
  - exfalso. pose proof (sort_sorted (index cl)) as Hs. rewrite <- (firstn_skipn ne (sort_pairs (index cl))) in Hs.
    pose proof (sorted_app_le _ _ Hs _ _ Hp Hin) as Hle. unfold ple in Hle. simpl in Hle.
    destruct (sorted_pairs_in cl p (In_firstn _ _ _ Hp)) as [_ He]. rewrite <- He in Hle.
    apply ltb_not_leb in Hlt. congruence.
Qed.

(* the first elite has the least loss *)
Lemma head_is_min ne cl : (1 <= ne)%nat -> let bi := hd 0%nat (elites ne cl) in nth bi cl PInf = lmin cl /\ (cl <> [] -> (bi < length cl)%nat).
Proof.
  intros Hne. unfold elites, argsort. destruct cl as [|c0 cl']; [simpl; destruct ne; simpl; (split; [reflexivity|congruence]) |].
  assert (Hlen : (1 <= length (c0 :: cl'))%nat) by (simpl; lia). remember (c0 :: cl') as cl eqn:Hcl. clear Hcl c0 cl'.
  pose proof (sort_sorted (index cl)) as Hs.
  destruct (sort_pairs (index cl)) as [|p rest] eqn:E.
  - exfalso. pose proof (Permutation_length (sort_perm (index cl))) as Hl. rewrite E in Hl. unfold index in Hl.
    rewrite combine_length, seq_length, Nat.min_id in Hl. simpl in Hl. lia.
  - destruct ne as [|ne]; [lia|]. simpl.
    assert (Hp : In p (sort_pairs (index cl))) by (rewrite E; now left).
    destruct (sorted_pairs_in cl p Hp) as [Hr He]. split; [|intros _; exact Hr].
    rewrite He. symmetry. apply lmin_unique.
    + rewrite <- He. apply nth_In. exact Hr.
    + intros x Hx. destruct (In_nth _ _ PInf Hx) as (k & Hk & <-).
      pose proof (index_in cl k Hk) as Hkin. apply (Permutation_in _ (Permutation_sym (sort_perm _))) in Hkin.
      rewrite E in Hkin. destruct Hkin as [Heq|Hin]; [rewrite Heq; simpl; apply leb_refl|].
      inversion Hs as [|? ? _ Hall]; subst. rewrite Forall_forall in Hall. apply (Hall _ Hin).
Qed.

(* ------------------------------------------------------------------ bounds *)
Lemma gauss_in_bounds m sd lo hi z : lo <= hi -> lo <= gauss Qops m sd lo hi z /\ gauss Qops m sd lo hi z <= hi.
Proof.
  intros H. unfold gauss. simpl. split.
  - apply Q.min_glb; [apply Q.le_max_r | exact H].
  - apply Q.le_min_r.
Qed.
Lemma vec_length d f : length (vec d f) = d.
Proof. unfold vec. now rewrite map_length, seq_length. Qed.
Lemma vec_nth d f k : (k < d)%nat -> at_ (vec d f) k = f k.
Proof.
  intros H. unfold at_, vec. rewrite (nth_indep _ 0 (f 0%nat)) by (now rewrite map_length, seq_length).
  rewrite map_nth. now rewrite seq_nth.
Qed.
Definition boxed (d : nat) (lo hi x : cand) : Prop := length x = d /\ forall k, (k < d)%nat -> at_ lo k <= at_ x k /\ at_ x k <= at_ hi k.
Lemma gauss_sample_boxed d m sd lo hi z : (forall k, (k < d)%nat -> at_ lo k <= at_ hi k) -> boxed d lo hi (gauss_sample d m sd lo hi z).
Proof.
  intros H. split; [apply vec_length|]. intros k Hk. unfold gauss_sample. rewrite vec_nth by exact Hk.
  apply gauss_in_bounds, H, Hk.
Qed.

(* ------------------------------------------------------------------ one update *)
Section CemLaws.
Variable sqrtq : Q -> Q.
Variable sm : Q -> Q -> Q -> Q.
Variables (d N ne : nat) (s : Q) (lo hi : cand).
Hypothesis Hne : (1 <= ne)%nat.
Notation update := (update sqrtq sm d ne s).

Theorem update_best_loss st xs ls : best_loss (update st xs ls) = emin (best_loss st) (lmin (map clean ls)).
Proof.
  unfold update, Cem.update. simpl. destruct (head_is_min ne (map clean ls) Hne) as [-> _]. apply pick_loss_emin.
Qed.
Corollary update_nonincreasing st xs ls : leb (best_loss (update st xs ls)) (best_loss st) = true.
Proof. rewrite update_best_loss. apply emin_le_l. Qed.

(* the reported candidate: either the old one (then the old loss is strictly smaller than every new one) or a candidate of
   this population whose cleaned loss is the reported best loss *)
Theorem update_best st xs ls : ls <> [] ->
  (best (update st xs ls) = best st /\ best_loss (update st xs ls) = best_loss st /\
   ltb (best_loss st) (lmin (map clean ls)) = true) \/
  (exists j, (j < length ls)%nat /\ best (update st xs ls) = nth j xs [] /\ clean (nth j ls NaN) = best_loss (update st xs ls)).
Proof.
  intros Hnil. unfold update, Cem.update. simpl.
  destruct (head_is_min ne (map clean ls) Hne) as [Hmin Hr]. rewrite Hmin.
  unfold pick. destruct (ltb (best_loss st) (lmin (map clean ls))) eqn:E; [left; auto|].
  right. exists (hd 0%nat (elites ne (map clean ls))). split; [|split; [reflexivity|]].
  - rewrite <- (map_length clean). apply Hr. destruct ls; [congruence | discriminate].
  - rewrite <- Hmin. change PInf with (clean NaN). now rewrite map_nth.
Qed.

(* a NaN candidate is an elite only if every candidate with a smaller cleaned loss - in particular every finite-loss
   candidate - of this iteration is one *)
Theorem nan_ranks_last ls j k : In j (elites ne (map clean ls)) -> nth j ls NaN = NaN -> (k < length ls)%nat ->
  ltb (clean (nth k ls NaN)) PInf = true -> In k (elites ne (map clean ls)).
Proof.
  intros Hj Hnan Hk Hfin. eapply elites_downward; [exact Hj | now rewrite map_length |].
  change PInf with (clean NaN). rewrite !map_nth, Hnan. exact Hfin.
Qed.

(* a finite loss in this iteration bounds the reported best loss: NaN (= +inf) is not the best *)
Theorem finite_bounds_best st xs ls v : In (Num (Val v)) ls -> leb (best_loss (update st xs ls)) (Val v) = true.
Proof.
  intros Hin. rewrite update_best_loss. eapply leb_trans; [apply emin_le_r|]. apply lmin_le.
  change (Val v) with (clean (Num (Val v))). now apply in_map.
Qed.

(* ------------------------------------------------------------------ runs *)
Variable noise : nat -> nat -> cand.
Variable f : nat -> nat -> cand -> loss.
Notation step := (step sqrtq sm d N ne s lo hi noise f).
Notation run := (run sqrtq sm d N ne s lo hi noise f).
Notation evals := (evals sqrtq sm d N ne s lo hi noise f).
Notation sample_all := (sample_all d N lo hi noise).
Notation losses_of := (losses_of N f).

Lemma sample_all_length i st : length (sample_all i st) = N.
Proof. unfold Cem.sample_all. now rewrite map_length, seq_length. Qed.
Lemma losses_of_length i xs : length (losses_of i xs) = N.
Proof. unfold Cem.losses_of. now rewrite map_length, seq_length. Qed.

Lemma step_eq i st : step i st = update st (sample_all i st) (losses_of i (sample_all i st)).
Proof. reflexivity. Qed.
Lemma run_S n st : run (S n) st = step n (run n st).
Proof. reflexivity. Qed.
Lemma evals_S n st : evals (S n) st = evals n st ++ combine (sample_all n (run n st)) (losses_of n (sample_all n (run n st))).
Proof. reflexivity. Qed.

Definition cleaned (ev : list (cand * loss)) : list ext := map (fun p => clean (snd p)) ev.

Lemma cleaned_combine xs ls : length xs = length ls -> cleaned (combine xs ls) = map clean ls.
Proof. intros H. unfold cleaned. rewrite <- (map_map snd clean). now rewrite map_snd_combine'. Qed.

(* the reported best loss is the least cleaned loss evaluated so far (and the initial one) *)
Theorem run_best_loss n st : best_loss (run n st) = emin (best_loss st) (lmin (cleaned (evals n st))).
Proof.
  induction n as [|n IH]; [simpl; now rewrite emin_PInf_r|].
  rewrite run_S, evals_S, step_eq, update_best_loss, IH. unfold cleaned. rewrite map_app, lmin_app, emin_assoc. f_equal. f_equal.
  fold (cleaned (combine (sample_all n (run n st)) (losses_of n (sample_all n (run n st))))).
  rewrite cleaned_combine; [reflexivity | now rewrite sample_all_length, losses_of_length].
Qed.
Theorem run_nonincreasing n m st : (n <= m)%nat -> leb (best_loss (run m st)) (best_loss (run n st)) = true.
Proof.
  induction 1 as [|m Hle IH]; [apply leb_refl|]. rewrite run_S, step_eq. eapply leb_trans; [|exact IH]. apply update_nonincreasing.
Qed.
Lemma evals_mono n st p : In p (evals n st) -> In p (evals (S n) st).
Proof. intros H. simpl. apply in_or_app. now left. Qed.

(* every evaluated candidate lies in the box *)
Theorem run_in_bounds n st x l : (forall k, (k < d)%nat -> at_ lo k <= at_ hi k) -> In (x, l) (evals n st) -> boxed d lo hi x.
Proof.
  intros Hb. induction n as [|n IH]; simpl; [contradiction|]. intros H. apply in_app_or in H. destruct H as [H|H]; [now apply IH|].
  apply in_combine_l in H. unfold Cem.sample_all in H. apply in_map_iff in H. destruct H as (j & <- & _).
  now apply gauss_sample_boxed.
Qed.

(* the reported candidate is an evaluated candidate that attained the reported loss - unless nothing ever beat or tied the
   initial state *)
Theorem run_best_attained n st : (1 <= N)%nat ->
  (best (run n st) = best st /\ best_loss (run n st) = best_loss st /\ (n = 0%nat \/ best_loss st <> PInf)) \/
  (exists x l, In (x, l) (evals n st) /\ best (run n st) = x /\ clean l = best_loss (run n st)).
Proof.
  intros HN. induction n as [|n IH]; [left; simpl; auto|].
  set (xs := sample_all n (run n st)). set (ls := losses_of n xs).
  assert (Hls : ls <> []). { intros E. pose proof (losses_of_length n xs) as Hl. fold ls in Hl. rewrite E in Hl. simpl in Hl. lia. }
  assert (Hlen : length xs = length ls) by (unfold xs, ls; now rewrite sample_all_length, losses_of_length).
  destruct (update_best (run n st) xs ls Hls) as [(Hb & Hl & Hlt)|(j & Hj & Hb & Hl)].
  - change (run (S n) st) with (update (run n st) xs ls). rewrite Hb, Hl.
    destruct IH as [(Hb0 & Hl0 & _)|(x & l & Hin & Hx & Hc)].
    + left. rewrite Hb0, Hl0. repeat split; auto. right. intros E. rewrite Hl0, E in Hlt. discriminate.
    + right. exists x, l. split; [now apply evals_mono | auto].
  - right. exists (nth j xs []), (nth j ls NaN). change (run (S n) st) with (update (run n st) xs ls).
    split; [|split; [exact Hb | exact Hl]]. simpl. apply in_or_app. right. fold xs. fold ls.
    rewrite <- (combine_nth xs ls j [] NaN Hlen). apply nth_In. rewrite combine_length, <- Hlen, Nat.min_id. lia.
Qed.
Corollary run_best_attained_init n m sd : (1 <= N)%nat -> (1 <= n)%nat ->
  exists x l, In (x, l) (evals n (init_state m sd)) /\ best (run n (init_state m sd)) = x /\
              clean l = best_loss (run n (init_state m sd)).
Proof.
  intros HN Hn. destruct (run_best_attained n (init_state m sd) HN) as [(_ & _ & [->|H])|H]; [lia | now elim H | exact H].
Qed.

(* from init_state: the reported best loss is the least cleaned loss evaluated so far *)
Corollary run_best_loss_init n m sd : best_loss (run n (init_state m sd)) = lmin (cleaned (evals n (init_state m sd))).
Proof. rewrite run_best_loss. apply emin_PInf_l. Qed.

(* ... i.e. the smallest finite loss when one has been evaluated (and no loss was -inf), +inf when none *)
Corollary run_best_is_least_finite n m sd x v :
  (forall p, In p (evals n (init_state m sd)) -> snd p <> Num NInf) -> In (x, Num (Val v)) (evals n (init_state m sd)) ->
  exists w, best_loss (run n (init_state m sd)) = Val w /\ (w <= v)%Z /\
            (exists y, In (y, Num (Val w)) (evals n (init_state m sd))) /\
            forall y u, In (y, Num (Val u)) (evals n (init_state m sd)) -> (w <= u)%Z.
Proof.
  intros Hn Hin. rewrite run_best_loss_init. set (st := init_state m sd) in *.
  destruct (lmin_least_finite (cleaned (evals n st)) v) as (w & Hw & Hmem & Hle & Hall).
  - intros e He. apply in_map_iff in He. destruct He as (p & <- & Hp). specialize (Hn p Hp).
    destruct (snd p) as [[| |]|]; cbn; congruence.
  - apply in_map_iff. exists (x, Num (Val v)). now split.
  - exists w. split; [exact Hw|]. split; [exact Hle|]. split.
    + apply in_map_iff in Hmem. destruct Hmem as ([y l] & Hc & Hp). exists y. simpl in Hc.
      destruct l as [[| |]|]; simpl in Hc; try discriminate. now inversion Hc; subst.
    + intros y u Hy. apply Hall. apply in_map_iff. exists (y, Num (Val u)). now split.
Qed.
Corollary run_best_none_finite n m sd :
  (forall p, In p (evals n (init_state m sd)) -> clean (snd p) = PInf) -> best_loss (run n (init_state m sd)) = PInf.
Proof.
  intros H. rewrite run_best_loss_init. apply lmin_no_finite. intros e He. apply in_map_iff in He.
  destruct He as (p & <- & Hp). now apply H.
Qed.

(* a NaN-loss candidate is never the reported best while some finite-loss candidate has been evaluated *)
Theorem run_finite_bounds_best n st x v : In (x, Num (Val v)) (evals n st) -> leb (best_loss (run n st)) (Val v) = true.
Proof.
  intros Hin. rewrite run_best_loss. eapply leb_trans; [apply emin_le_r|]. apply lmin_le.
  apply in_map_iff. exists (x, Num (Val v)). now split.
Qed.
Corollary run_best_not_nan n m sd x v : (1 <= N)%nat -> (1 <= n)%nat ->
  In (x, Num (Val v)) (evals n (init_state m sd)) ->
  exists y l, In (y, l) (evals n (init_state m sd)) /\ best (run n (init_state m sd)) = y /\ l <> NaN /\
              clean l = best_loss (run n (init_state m sd)).
Proof.
  intros HN Hn Hin. destruct (run_best_attained_init n m sd HN Hn) as (y & l & Hy & Hb & Hc).
  exists y, l. repeat split; auto. intros ->. pose proof (run_finite_bounds_best n _ x v Hin) as H. rewrite <- Hc in H.
  discriminate.
Qed.
End CemLaws.

(* ------------------------------------------------------------------ the wrapper around evosax *)
Section EvoLaws.
Variable ES : Type.
Variable ask : nat -> ES -> list cand * ES.
Variable tell : list cand -> list ext -> ES -> ES.
Variable best_fitness : ES -> ext.
Variable best_member : ES -> cand.
Variable f : nat -> nat -> cand -> loss.
Variables (d : nat) (lo hi : cand).
(* the contract of evosax's Strategy.ask / Strategy.tell (validated by the harness on every run) *)
Hypothesis ask_clipped : forall i st x, In x (fst (ask i st)) -> boxed d lo hi x.
Hypothesis ask_keeps_best : forall i st, best_fitness (snd (ask i st)) = best_fitness st /\ best_member (snd (ask i st)) = best_member st.
Hypothesis tell_best_fitness : forall xs fit st, best_fitness (tell xs fit st) = emin (best_fitness st) (lmin fit).
Hypothesis tell_best_member : forall xs fit st, length xs = length fit ->
  best_member (tell xs fit st) = if ltb (lmin fit) (best_fitness st) then nth (argmin fit) xs [] else best_member st.
Notation evo_step := (evo_step ES ask tell f).
Notation evo_run := (evo_run ES ask tell f).
Notation evo_evals := (evo_evals ES ask tell f).

Lemma evo_losses_length i xs : length (evo_losses f i xs) = length xs.
Proof. unfold evo_losses. now rewrite map_length, seq_length. Qed.

Theorem evo_step_best_fitness i st :
  best_fitness (evo_step i st) = emin (best_fitness st) (lmin (map clean (evo_losses f i (fst (ask i st))))).
Proof.
  unfold Cem.evo_step. destruct (ask i st) as [xs st1] eqn:E. simpl. rewrite tell_best_fitness.
  pose proof (ask_keeps_best i st) as [H _]. rewrite E in H. simpl in H. now rewrite H.
Qed.
Theorem evo_best_fitness n st : best_fitness (evo_run n st) = emin (best_fitness st) (lmin (cleaned (evo_evals n st))).
Proof.
  induction n as [|n IH]; simpl; [now rewrite emin_PInf_r|].
  rewrite evo_step_best_fitness, IH. unfold cleaned. rewrite map_app, lmin_app, emin_assoc. f_equal. f_equal.
  set (xs := fst (ask n (evo_run n st))). fold (cleaned (combine xs (evo_losses f n xs))).
  rewrite cleaned_combine; [reflexivity | now rewrite evo_losses_length].
Qed.
Theorem evo_nonincreasing n m st : (n <= m)%nat -> leb (best_fitness (evo_run m st)) (best_fitness (evo_run n st)) = true.
Proof.
  induction 1 as [|m Hle IH]; [apply leb_refl|]. simpl. eapply leb_trans; [|exact IH].
  rewrite evo_step_best_fitness. apply emin_le_l.
Qed.
Theorem evo_in_bounds n st x l : In (x, l) (evo_evals n st) -> boxed d lo hi x.
Proof.
  induction n as [|n IH]; simpl; [contradiction|]. intros H. apply in_app_or in H. destruct H as [H|H]; [now apply IH|].
  apply in_combine_l in H. eapply ask_clipped, H.
Qed.
Theorem evo_finite_bounds_best n st x v : In (x, Num (Val v)) (evo_evals n st) -> leb (best_fitness (evo_run n st)) (Val v) = true.
Proof.
  intros Hin. rewrite evo_best_fitness. eapply leb_trans; [apply emin_le_r|]. apply lmin_le.
  apply in_map_iff. exists (x, Num (Val v)). now split.
Qed.

Lemma argmin_spec fit : fit <> [] -> (argmin fit < length fit)%nat /\ nth (argmin fit) fit PInf = lmin fit.
Proof.
  intros H. unfold argmin. assert (E : argsort fit = elites (length fit) fit).
  { unfold elites. rewrite <- (argsort_length fit). now rewrite firstn_all. }
  rewrite E. assert (H1 : (1 <= length fit)%nat) by (destruct fit; [congruence | simpl; lia]).
  destruct (head_is_min (length fit) fit H1) as [Hm Hr]. split; [now apply Hr | exact Hm].
Qed.

(* the reported member: unchanged, or a member of an evaluated population whose cleaned loss is the reported fitness *)
Theorem evo_best_attained n st :
  (best_member (evo_run n st) = best_member st /\ best_fitness (evo_run n st) = best_fitness st) \/
  (exists x l, In (x, l) (evo_evals n st) /\ best_member (evo_run n st) = x /\ clean l = best_fitness (evo_run n st)).
Proof.
  induction n as [|n IH]; [left; simpl; auto|].
  simpl. unfold Cem.evo_step at 1 2 3. destruct (ask n (evo_run n st)) as [xs st1] eqn:E.
  pose proof (ask_keeps_best n (evo_run n st)) as [Hf Hm]. rewrite E in Hf, Hm. simpl in Hf, Hm.
  set (ls := evo_losses f n xs). assert (Hlen : length xs = length (map clean ls)) by (unfold ls; now rewrite map_length, evo_losses_length).
  rewrite tell_best_fitness, (tell_best_member _ _ _ Hlen), Hf, Hm.
  unfold Cem.evo_step. rewrite E. simpl fst. fold ls. rewrite tell_best_fitness, Hf.
  destruct (ltb (lmin (map clean ls)) (best_fitness (evo_run n st))) eqn:Elt.
  - right. assert (Hne : map clean ls <> []). { intros E0. rewrite E0 in Elt. simpl in Elt. discriminate. }
    destruct (argmin_spec _ Hne) as [Hr Hv]. set (j := argmin (map clean ls)) in *.
    exists (nth j xs []), (nth j ls NaN). rewrite map_length in Hr. split; [|split; [reflexivity|]].
    + apply in_or_app. right. simpl. fold ls. rewrite map_length in Hlen.
      rewrite <- (combine_nth xs ls j [] NaN Hlen). apply nth_In. rewrite combine_length, <- Hlen, Nat.min_id. lia.
    + change PInf with (clean NaN) in Hv. rewrite map_nth in Hv. rewrite Hv. unfold emin. now rewrite Elt.
  - assert (Hk : emin (best_fitness (evo_run n st)) (lmin (map clean ls)) = best_fitness (evo_run n st)) by (unfold emin; now rewrite Elt).
    rewrite Hk. destruct IH as [[Hb Hl]|(x & l & Hin & Hx & Hc)]; [left; auto|].
    right. exists x, l. split; [apply in_or_app; now left | auto].
Qed.
End EvoLaws.

(* ------------------------------------------------------------------ the checker on implementation histories *)
Lemma ext_eqb_eq a b : ext_eqb a b = true -> a = b.
Proof. destruct a, b; simpl; try discriminate; try reflexivity. intros H. apply Z.eqb_eq in H. now subst. Qed.

Definition iter_ok (lo hi pb : cand) (prev : ext) (it : iter) : Prop :=
  length (pop it) = length (raw it) /\
  (forall x, In x (pop it) -> in_box lo hi x = true) /\
  rep_loss it = emin prev (lmin (map clean (raw it))) /\
  leb (rep_loss it) prev = true /\
  ((qeqb_list (rep_best it) pb = true /\ rep_loss it = prev) \/
   exists x l, In (x, l) (combine (pop it) (raw it)) /\ qeqb_list x (rep_best it) = true /\ clean l = rep_loss it).
Fixpoint history_ok (lo hi pb : cand) (prev : ext) (h : list iter) : Prop :=
  match h with [] => True | it :: h => iter_ok lo hi pb prev it /\ history_ok lo hi (rep_best it) (rep_loss it) h end.

Lemma check_iter_sound lo hi pb prev it : check_iter lo hi pb prev it = true -> iter_ok lo hi pb prev it.
Proof.
  unfold check_iter, iter_ok. intros H. repeat (apply andb_true_iff in H; destruct H as [H ?]).
  split; [now apply Nat.eqb_eq|]. split; [now apply forallb_forall|]. split; [now apply ext_eqb_eq|]. split; [assumption|].
  match goal with H : (_ || _)%bool = true |- _ => apply orb_true_iff in H; destruct H as [H'|H'] end.
  - left. apply andb_true_iff in H'. destruct H' as [Ha Hb]. split; [exact Ha | now apply ext_eqb_eq].
  - right. apply existsb_exists in H'. destruct H' as ([x l] & Hin & Hc). apply andb_true_iff in Hc. destruct Hc as [Ha Hb].
    exists x, l. split; [exact Hin|]. split; [exact Ha | now apply ext_eqb_eq].
Qed.
Theorem check_history_sound lo hi h : forall pb prev, check_history lo hi pb prev h = true -> history_ok lo hi pb prev h.
Proof.
  induction h as [|it h IH]; intros pb prev H; simpl in *; [exact I|].
  apply andb_true_iff in H. destruct H as [H1 H2]. split; [now apply check_iter_sound | now apply IH].
Qed.
(* what in_box decides *)
Lemma in_box_spec lo hi x : in_box lo hi x = true -> length x = length lo /\ length x = length hi /\
  forall k, (k < length x)%nat -> at_ lo k <= at_ x k /\ at_ x k <= at_ hi k.
Proof.
  unfold in_box. intros H. apply andb_true_iff in H. destruct H as [H H3]. apply andb_true_iff in H. destruct H as [H1 H2].
  apply Nat.eqb_eq in H1, H2. split; [exact H1|]. split; [exact H2|]. intros k Hk.
  rewrite forallb_forall in H3. specialize (H3 (nth k lo 0, nth k hi 0, nth k x 0)).
  assert (Hin : In (nth k lo 0, nth k hi 0, nth k x 0) (combine (combine lo hi) x)).
  { rewrite <- !combine_nth by (rewrite ?combine_length; lia). apply nth_In. rewrite !combine_length. lia. }
  specialize (H3 Hin). simpl in H3. apply andb_true_iff in H3. destruct H3 as [Ha Hb].
  unfold at_. split; now apply Qle_bool_iff.
Qed.

(* the reference strategy satisfies the contract assumed of evosax *)
Lemma ref_contract d lo hi proposal : (forall k, (k < d)%nat -> at_ lo k <= at_ hi k) ->
  (forall i st x, In x (fst (ref_ask d lo hi proposal i st)) -> boxed d lo hi x) /\
  (forall i st, snd (snd (ref_ask d lo hi proposal i st)) = snd st /\ fst (snd (ref_ask d lo hi proposal i st)) = fst st) /\
  (forall xs fit st, snd (ref_tell xs fit st) = emin (snd st) (lmin fit)) /\
  (forall xs fit st, length xs = length fit ->
     fst (ref_tell xs fit st) = if ltb (lmin fit) (snd st) then nth (argmin fit) xs [] else fst st).
Proof.
  intros Hb. repeat split; try reflexivity.
  - simpl in H. apply in_map_iff in H. destruct H as (y & <- & _). apply vec_length.
  - simpl in H. apply in_map_iff in H. destruct H as (y & <- & _). unfold clip_box. rewrite vec_nth by assumption.
    apply Q.min_glb; [apply Q.le_max_r | now apply Hb].
  - simpl in H. apply in_map_iff in H. destruct H as (y & <- & _). unfold clip_box. rewrite vec_nth by assumption.
    apply Q.le_min_r.
Qed.

(* ------------------------------------------------------------------ the evosax contract as one predicate *)
Definition evo_contract (ES : Type) (ask : nat -> ES -> list cand * ES) (tell : list cand -> list ext -> ES -> ES)
  (best_fitness : ES -> ext) (best_member : ES -> cand) (d : nat) (lo hi : cand) : Prop :=
  (forall i st x, In x (fst (ask i st)) -> boxed d lo hi x) /\
  (forall i st, best_fitness (snd (ask i st)) = best_fitness st /\ best_member (snd (ask i st)) = best_member st) /\
  (forall xs fit st, best_fitness (tell xs fit st) = emin (best_fitness st) (lmin fit)) /\
  (forall xs fit st, length xs = length fit ->
     best_member (tell xs fit st) = if ltb (lmin fit) (best_fitness st) then nth (argmin fit) xs [] else best_member st).

Section EvoPacked.
Variable ES : Type.
Variable ask : nat -> ES -> list cand * ES.
Variable tell : list cand -> list ext -> ES -> ES.
Variable best_fitness : ES -> ext.
Variable best_member : ES -> cand.
Variable f : nat -> nat -> cand -> loss.
Variables (d : nat) (lo hi : cand).
Hypothesis C : evo_contract ES ask tell best_fitness best_member d lo hi.
Lemma evoc_in_bounds n st x l : In (x, l) (evo_evals ES ask tell f n st) -> boxed d lo hi x.
Proof. destruct C as (H1 & _). exact (evo_in_bounds ES ask tell f d lo hi H1 n st x l). Qed.
Lemma evoc_best_is_min n st :
  best_fitness (evo_run ES ask tell f n st) = emin (best_fitness st) (lmin (cleaned (evo_evals ES ask tell f n st))).
Proof. destruct C as (_ & H2 & H3 & _). exact (evo_best_fitness ES ask tell best_fitness best_member f H2 H3 n st). Qed.
Lemma evoc_nonincreasing n m st : (n <= m)%nat ->
  leb (best_fitness (evo_run ES ask tell f m st)) (best_fitness (evo_run ES ask tell f n st)) = true.
Proof. destruct C as (_ & H2 & H3 & _). exact (evo_nonincreasing ES ask tell best_fitness best_member f H2 H3 n m st). Qed.
Lemma evoc_best_attained n st :
  (best_member (evo_run ES ask tell f n st) = best_member st /\ best_fitness (evo_run ES ask tell f n st) = best_fitness st) \/
  (exists x l, In (x, l) (evo_evals ES ask tell f n st) /\ best_member (evo_run ES ask tell f n st) = x /\
               clean l = best_fitness (evo_run ES ask tell f n st)).
Proof. destruct C as (_ & H2 & H3 & H4). exact (evo_best_attained ES ask tell best_fitness best_member f H2 H3 H4 n st). Qed.
Lemma evoc_finite_bounds_best n st x v : In (x, Num (Val v)) (evo_evals ES ask tell f n st) ->
  leb (best_fitness (evo_run ES ask tell f n st)) (Val v) = true.
Proof. destruct C as (_ & H2 & H3 & _). exact (evo_finite_bounds_best ES ask tell best_fitness best_member f H2 H3 n st x v). Qed.
(* a NaN-loss member is not the reported best once a finite loss was evaluated and the reported member changed *)
Lemma evoc_best_not_nan n st x v : In (x, Num (Val v)) (evo_evals ES ask tell f n st) ->
  (best_member (evo_run ES ask tell f n st) = best_member st /\ best_fitness (evo_run ES ask tell f n st) = best_fitness st) \/
  (exists y l, In (y, l) (evo_evals ES ask tell f n st) /\ best_member (evo_run ES ask tell f n st) = y /\ l <> NaN /\
               clean l = best_fitness (evo_run ES ask tell f n st)).
Proof.
  intros Hin. destruct (evoc_best_attained n st) as [H|(y & l & Hy & Hb & Hc)]; [now left|]. right.
  exists y, l. repeat split; auto. intros ->. pose proof (evoc_finite_bounds_best n st x v Hin) as H. rewrite <- Hc in H.
  discriminate.
Qed.
End EvoPacked.

Lemma ref_evo_contract d lo hi proposal : (forall k, (k < d)%nat -> at_ lo k <= at_ hi k) ->
  evo_contract ref_state (ref_ask d lo hi proposal) ref_tell snd fst d lo hi.
Proof. intros H. exact (ref_contract d lo hi proposal H). Qed.

(* ------------------------------------------------------------------ NaN candidates and the elite set, counted *)
(* the candidates whose cleaned loss is below +inf (finite or -inf; never NaN) *)
Definition below_inf (cl : list ext) : list nat := filter (fun k => ltb (nth k cl PInf) PInf) (seq 0 (length cl)).

(* when at least ne candidates have a loss below +inf, every elite has one: no NaN (or +inf) candidate is an elite *)
Theorem enough_finite_no_nan_elite ne cl j : (ne <= length (below_inf cl))%nat -> In j (elites ne cl) ->
  ltb (nth j cl PInf) PInf = true.
Proof.
  intros Hcnt Hj. destruct (ltb (nth j cl PInf) PInf) eqn:E; [reflexivity|exfalso].
  assert (Hinf : nth j cl PInf = PInf) by (destruct (nth j cl PInf); simpl in E; try discriminate; reflexivity).
  assert (Hincl : incl (j :: below_inf cl) (elites ne cl)).
  { intros k [<-|Hk]; [exact Hj|]. unfold below_inf in Hk. apply filter_In in Hk. destruct Hk as [Hr Hlt].
    apply in_seq in Hr. eapply elites_downward; [exact Hj | lia | now rewrite Hinf]. }
  assert (Hnd : NoDup (j :: below_inf cl)).
  { constructor; [|apply NoDup_filter, seq_NoDup]. unfold below_inf. intros Hk. apply filter_In in Hk. destruct Hk as [_ Hlt].
    rewrite E in Hlt. discriminate. }
  pose proof (NoDup_incl_length Hnd Hincl) as Hlen. rewrite elites_length in Hlen. simpl in Hlen. lia.
Qed.
Corollary enough_finite_no_nan_elite_losses ne ls j :
  (ne <= length (below_inf (map clean ls)))%nat -> In j (elites ne (map clean ls)) -> nth j ls NaN <> NaN.
Proof.
  intros Hc Hj E. pose proof (enough_finite_no_nan_elite ne _ j Hc Hj) as H.
  change PInf with (clean NaN) in H at 1. rewrite map_nth, E in H. discriminate.
Qed.
(* the literal reading "a NaN candidate is never an elite while a finite-loss candidate exists" cannot hold for a fixed elite
   count: with 2 elites, one finite loss and one NaN, the NaN candidate is an elite *)
Lemma nan_elite_literal_refuted : exists ne ls j k, In j (elites ne (map clean ls)) /\ nth j ls NaN = NaN /\
  (k < length ls)%nat /\ finite (clean (nth k ls NaN)) = true.
Proof. exists 2%nat, [Num (Val 1); NaN], 1%nat, 0%nat. vm_compute. repeat split; auto. Qed.

(* ------------------------------------------------------------------ stability: ties go to the lower index *)
Definition plt (p q : nat * ext) : Prop := ltb (snd p) (snd q) = true \/ (snd p = snd q /\ (fst p < fst q)%nat).
Lemma leb_cases a b : leb a b = true -> ltb a b = true \/ a = b. Proof. solve_ord; auto; right; f_equal; lia. Qed.
Lemma ltb_leb_trans a b c : ltb a b = true -> leb b c = true -> ltb a c = true. Proof. solve_ord. Qed.
Lemma leb_ltb_trans a b c : leb a b = true -> ltb b c = true -> ltb a c = true. Proof. solve_ord. Qed.
Lemma plt_leb p q : plt p q -> leb (snd p) (snd q) = true.
Proof. intros [H|[H _]]; [|rewrite H; apply leb_refl]. revert H. generalize (snd p) (snd q). intros a b H. solve_ord. Qed.
Lemma ins_sorted_lex x l : StronglySorted plt l -> (forall q, In q l -> (fst x < fst q)%nat) -> StronglySorted plt (ins x l).
Proof.
  induction 1 as [|y l Hs IH Hall]; intros Hidx; simpl; [repeat constructor|].
  destruct (leb (snd x) (snd y)) eqn:E.
  - constructor; [now constructor|]. rewrite Forall_forall in Hall. apply Forall_forall. intros q [<-|Hq].
    + destruct (leb_cases _ _ E) as [H|H]; [now left | right; split; [exact H | apply Hidx; now left]].
    + pose proof (plt_leb _ _ (Hall q Hq)) as Hyq. destruct (leb_cases _ _ E) as [H|H].
      * left. eapply ltb_leb_trans; eauto.
      * destruct (leb_cases _ _ Hyq) as [H'|H']; [left; now rewrite H | right; split; [congruence | apply Hidx; now right]].
  - constructor; [apply IH; intros q Hq; apply Hidx; now right|].
    eapply Permutation_Forall; [symmetry; apply ins_perm|]. constructor; [|exact Hall].
    left. revert E. generalize (snd x) (snd y). intros a b E. solve_ord.
Qed.
Lemma sort_index_lex (l : list ext) : forall s, StronglySorted plt (sort_pairs (combine (seq s (length l)) l)).
Proof.
  induction l as [|x l IH]; intros s; simpl; [constructor|]. apply ins_sorted_lex; [apply IH|].
  intros [i e] Hq. apply (Permutation_in _ (sort_perm _)) in Hq. apply in_index_gen in Hq. simpl. lia.
Qed.
(* the sorted (index, loss) pairs are strictly increasing in (loss, index): argsort is the stable sort *)
Theorem argsort_stable cl : StronglySorted plt (sort_pairs (index cl)).
Proof. apply sort_index_lex. Qed.
