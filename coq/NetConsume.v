(* C03, consumption clause, composed at the level of the actor net: in ANY reachable state, every message recorded on a non-blocking
   connection was consumed by the FIRST receiver step that may take it - the first step starting at/after its arrival (strictly after on
   a skipped connection) and, for buffered jitter, not before its expected arrival seq * period_sender + phase - and never by a step
   that started before it arrived.  Composition of the per-actor laws (shift, ts_in, zip, exp_nb, select, step) through the Kahn
   principle with the list-level theorems of ConsumeB. *)
From Coq Require Import List Arith ZArith Bool Lia.
From Coq Require Import ZifyNat ZifyBool.
From Rex Require Import KahnL AsyncModel2 AsyncStable ConflInv RexDet AsyncLaws AsyncLaws2 AsyncLaws3 AsyncLaws4 AsyncLaws5 Consume ConsumeB
  Dataflow AsyncDataflow ExportWindows.
Import ListNotations.
Open Scope Z_scope.

(* ---------- the policy predicate and the side condition ---------- *)
(* may a step starting at t take message number j that arrived at recv?  (skip, sender period, phase read off conn G c exactly as cnt_fn does) *)
Definition may_take (G : cfg) (c : nat) (t : Z) (j : nat) (recv : Z) : bool :=
  if c_buffer (conn G c)
  then takesB (c_skip (conn G c)) (n_period (node G (c_out (conn G c)))) (c_phase (conn G c)) t (j, recv)
  else takesL (c_skip (conn G c)) t (j, recv).
(* the only side condition: for BUFFER the SENDER's period is non-negative (so that expected arrivals seq * period + phase are
   non-decreasing along the stream); nothing is required for LATEST.  In particular NO monotonicity of the receiver's step times is
   needed for this direction (see the end of the file for what is not claimed) *)
Definition consume_ok (G : cfg) (c : nat) : bool :=
  negb (c_buffer (conn G c)) || (0 <=? n_period (node G (c_out (conn G c)))).

(* ---------- list level: consumed by the first step that may take it, WITHOUT assuming that later steps may take more ---------- *)
Section GenFirst.
Variable X : Type.
Variable p : nat -> X -> bool.
Variable d : X.
Lemma leadP_true i l : forall q, (q < leadP X p i l)%nat -> p i (nth q l d) = true.
Proof.
  induction l as [|x l IH]; intros q Hq; simpl in Hq; [lia|].
  destruct (p i x) eqn:E; [|lia]. destruct q as [|q]; simpl; [exact E|apply IH; lia].
Qed.
Lemma closed_skipn a : forall l, closed X p d l -> closed X p d (skipn a l).
Proof. induction a as [|a IH]; intros [|x l] H; simpl; auto. apply IH. eapply closed_tl; eauto. Qed.
Lemma consumedP_mono l i1 i2 : (i1 <= i2)%nat -> (consumedP X p l i1 <= consumedP X p l i2)%nat.
Proof. induction 1; [lia|]. simpl. lia. Qed.
Lemma nth_skipn' a : forall (l : list X) q, nth q (skipn a l) d = nth (a + q) l d.
Proof. induction a as [|a IH]; intros [|x l] q; simpl; try reflexivity; [destruct q; reflexivity|apply IH]. Qed.

Theorem consumedP_first l : closed X p d l -> forall i j, (j < length l)%nat ->
  (consumedP X p l i <= j < consumedP X p l (S i))%nat ->
  p i (nth j l d) = true /\ forall i', (i' < i)%nat -> p i' (nth j l d) = false.
Proof.
  intros Hc i j Hj [H1 H2]. split.
  - simpl in H2. replace j with (consumedP X p l i + (j - consumedP X p l i))%nat by lia.
    rewrite <- nth_skipn'. apply leadP_true. lia.
  - intros i' Hi'. destruct (p i' (nth j l d)) eqn:E; [|reflexivity]. exfalso.
    pose proof (consumedP_mono l i' i ltac:(lia)) as Hm1. pose proof (consumedP_mono l (S i') i ltac:(lia)) as Hm2.
    set (a := consumedP X p l i') in *.
    assert (Hq : (j - a < length (skipn a l))%nat) by (rewrite skipn_length; lia).
    pose proof (leadP_spec X p d i' (skipn a l) (closed_skipn a l Hc) (j - a)%nat Hq) as [_ Hs].
    rewrite nth_skipn' in Hs. replace (a + (j - a))%nat with j in Hs by lia. specialize (Hs E).
    simpl in Hm2. fold a in Hm2. lia.
Qed.
End GenFirst.

(* ---------- list facts ---------- *)
Lemma nth_error_skipn' {X} : forall a (l : list X) q, nth_error (skipn a l) q = nth_error l (a + q).
Proof. induction a as [|a IH]; intros [|x l] q; simpl; try reflexivity; [destruct q; reflexivity|apply IH]. Qed.

Lemma list_is_map_seq {X} (f : nat -> X) : forall (L : list X) a,
  (forall j t, nth_error L j = Some t -> t = f (a + j)%nat) -> L = map f (seq a (length L)).
Proof.
  induction L as [|x L IH]; intros a H; [reflexivity|]. simpl. f_equal.
  - rewrite (H O x eq_refl). f_equal. lia.
  - apply IH. intros j t Hj. rewrite (H (S j) t Hj). f_equal. lia.
Qed.

Lemma take_msgs_nth n : forall l ms, take_msgs n l = Some ms ->
  length ms = n /\ forall q k sn r p, nth_error ms q = Some (k, sn, r, p) -> nth_error l q = Some (TMsg k sn r p).
Proof.
  induction n as [|n IH]; intros l ms H; simpl in H.
  - injection H as <-. split; [reflexivity|]. intros [|q]; discriminate.
  - destruct l as [|t l]; [discriminate|]. destruct t; try discriminate.
    destruct (take_msgs n l) as [x|] eqn:E; simpl in H; [|discriminate]. injection H as <-.
    destruct (IH _ _ E) as [Hl Hn]. split; [simpl; now rewrite Hl|].
    intros [|q] k0 sn r0 p0 Hq; simpl in *; [injection Hq as <- <- <- <-; reflexivity|eauto].
Qed.

Lemma leadP_le' {X} (p : nat -> X -> bool) i l : (leadP X p i l <= length l)%nat.
Proof. induction l as [|x l IH]; simpl; [lia|]. destruct (p i x); simpl; lia. Qed.
Lemma consumedP_le {X} (p : nat -> X -> bool) l i : (consumedP X p l i <= length l)%nat.
Proof.
  induction i as [|i IH]; simpl; [lia|].
  pose proof (leadP_le' p i (skipn (consumedP X p l i) l)) as H. rewrite skipn_length in H. lia.
Qed.

Lemma in_all_recs G hh c m r : In r (all_recs G hh c m) ->
  exists i ms, (i < m)%nat /\ group_of G hh c i = Some ms /\ In r (recs_of i ms).
Proof.
  induction m as [|m IH]; simpl; [contradiction|]. intros H. apply in_app_or in H. destruct H as [H|H].
  - destruct (IH H) as (i & ms & Hi & Hg & Hr). exists i, ms. split; [lia|auto].
  - destruct (group_of G hh c m) as [ms|] eqn:E; [|contradiction]. exists m, ms. auto.
Qed.

(* step times read off a Next channel *)
Definition starts_of (l : list tok) (i : nat) : Z := match nth_error l i with Some (TSched _ t) => t | _ => 0 end.
Lemma starts_of_tok l i k t : nth_error l i = Some (TSched k t) -> starts_of l i = t.
Proof. intros H. unfold starts_of. now rewrite H. Qed.

(* ---------- connection actors never write TsOut / MsgOut / Next channels ---------- *)
Ltac inv_some := match goal with H : Some _ = Some _ |- _ => injection H as <- end.
Ltac crunch H :=
  repeat match type of H with
  | context [match hd_opt ?x with _ => _ end] => destruct (hd_opt x); [|discriminate H]
  | context [match ?t with TTick => _ | _ => _ end] => destruct t; try discriminate H
  | context [match heads_max ?a ?b ?c with _ => _ end] => destruct (heads_max a b c); [|discriminate H]
  | context [match take_recv ?a ?b with _ => _ end] => destruct (take_recv a b); [|discriminate H]
  | context [match take_msgs ?a ?b with _ => _ end] => destruct (take_msgs a b); [|discriminate H]
  | context [if has_future ?a ?b then _ else _] => destruct (has_future a b); [|discriminate H]
  | context [if negb (c_blocking ?c) then _ else _] => destruct (c_blocking c); simpl in H; try discriminate H
  | context [if c_blocking ?c then _ else _] => destruct (c_blocking c); simpl in H; try discriminate H
  end.

Lemma conn_prod_node_side G a l u r k c : fire G a l u = Some r -> (3 * NN G <= a)%nat -> (k = 0 \/ k = 1 \/ k = 6)%nat ->
  prod _ _ r (cch G k c) = [].
Proof.
  unfold fire. intros H Ha Hk.
  destruct (NACT G <=? a)%nat; [discriminate|].
  destruct (Nat.ltb_spec a (3 * NN G)); [lia|].
  set (c' := ((a - 3 * NN G) / 7)%nat) in *.
  destruct ((a - 3 * NN G) mod 7)%nat as [|[|[|[|[|[|k0]]]]]].
  - unfold fire_ts_in in H. crunch H. inv_some. simpl. rewrite !put_ne by (unfold ZipD, TsIn, cch; lia). reflexivity.
  - unfold fire_msg_in in H. crunch H. inv_some. simpl. rewrite !put_ne by (unfold ZipM, cch; lia). reflexivity.
  - unfold fire_zip in H. crunch H. inv_some. simpl. rewrite !put_ne by (unfold Msgs, cch; lia). reflexivity.
  - unfold fire_exp_b in H. crunch H. inv_some. simpl. rewrite !put_ne by (unfold ExpMax, ExpSel, cch; lia). reflexivity.
  - unfold fire_ts_max in H. crunch H. inv_some. simpl. rewrite !put_ne by (unfold TsMax, cch; lia). reflexivity.
  - unfold fire_exp_nb in H. crunch H. inv_some. simpl. rewrite !put_ne by (unfold ExpSel, cch; lia). reflexivity.
  - unfold fire_select in H. crunch H. inv_some. simpl. rewrite !put_ne by (unfold Grouped, cch; lia). reflexivity.
Qed.

Lemma solo_conn_node_side G a li hh m l cu out k c : (3 * NN G <= a)%nat -> (k = 0 \/ k = 1 \/ k = 6)%nat ->
  rsolo G a li hh m l cu out -> out (cch G k c) = [].
Proof.
  intros Ha Hk H. induction H as [|m l cu out r H IH Hf]; [reflexivity|].
  rewrite IH. simpl. eapply conn_prod_node_side; eauto.
Qed.

(* the shift actor announces on Next c (non-blocking input c) exactly the start times it puts on QStart *)
Definition s2s (t : tok) : tok := match t with TStart k st _ => TSched k st | _ => t end.
Lemma shift_next G n hh m l cu out c : (n < NN G)%nat -> In c (nb_of G n) ->
  rsolo G (AShift n) l0 hh m l cu out -> out (Next G c) = map s2s (out (QStart n)).
Proof.
  intros Hn Hc H. induction H as [|m l cu out r H IH Hf]; [reflexivity|].
  apply fire_is_shift in Hf; [|exact Hn]. unfold fire_shift in Hf. crunch Hf. inv_some. cbn [KahnL.prod].
  rewrite put_eq.
  rewrite put_ne by (unfold Next, cch, QStart; lia). rewrite put_ne by (unfold Next, cch, QEndPrev; lia).
  rewrite put_all_nin.
  - rewrite put_all_in by (apply in_map; exact Hc). rewrite IH, map_app. reflexivity.
  - intros Hin. apply in_map_iff in Hin. destruct Hin as (c0 & Heq & _). unfold TsOut, Next, cch in Heq. lia.
Qed.

Lemma in_ins_conv G c : (c < NCn G)%nat -> In c (ins G (c_in (conn G c))).
Proof.
  intros Hc. unfold ins. change c with (0 + c)%nat at 1. apply in_idxs_from_conv; [exact Hc|].
  unfold conn. apply Nat.eqb_refl.
Qed.

Section NetConsume.
Variable G : cfg.
Variable s : state.
Hypothesis Hr : reach G s.
Notation h := (hfun tok local s).
Variable c : nat.
Hypothesis Hc : (c < NCn G)%nat.
Notation n := (c_in (conn G c)).
Notation m' := (c_out (conn G c)).

(* a channel TsOut / MsgOut / Next of c whose writer is not a node actor stays empty *)
Lemma node_side_empty k a : (k = 0 \/ k = 1 \/ k = 6)%nat -> writer G (cch G k c) = a -> (3 * NN G <= a)%nat -> h (cch G k c) = [].
Proof.
  intros Hk Hw Ha.
  destruct (reach_proj G s a Hr) as (m & cu & out & Hsolo & _ & Hout).
  assert (Hq : (cch G k c < NCH G)%nat) by (apply cch_lt; auto; lia).
  unfold hfun. rewrite (Hout _ Hq Hw), (init_hist_conn G k c Hc) by lia. simpl.
  eapply solo_conn_node_side; eauto.
Qed.

(* ---------- TsOut c: token j carries seq j and the end time of the sender's step j ---------- *)
Lemma tsout_tok j t : nth_error (h (TsOut G c)) j = Some t ->
  (m' < NN G)%nat /\ exists st d, start_of G h m' j = Some (TStart j st d) /\ t = TTsOut j (st + d).
Proof.
  intros Hj.
  assert (Hm : (m' < NN G)%nat).
  { destruct (Nat.lt_ge_cases m' (NN G)) as [H|H]; [exact H|]. exfalso.
    unfold TsOut in Hj. rewrite (node_side_empty 0 _ (or_introl eq_refl) (writer_TsOut G c)) in Hj by (unfold AShift; lia).
    destruct j; discriminate. }
  split; [exact Hm|].
  destruct (reach_proj G s (AShift m') Hr) as (m & cu & out & Hsolo & _ & Hout).
  rewrite init_loc_shift in Hsolo by exact Hm.
  destruct (solo_shift G m' _ m _ _ _ Hm Hsolo) as (_ & _ & _ & _ & _ & _ & _ & _ & IT).
  destruct (IT c (in_outs_conv G c Hc)) as [Lt St].
  assert (Hq : (TsOut G c < NCH G)%nat) by (apply cch_lt; auto; lia).
  assert (H0 : nth (TsOut G c) (hist _ _ (init G)) [] = []) by (apply (init_hist_conn G 0 c); auto; lia).
  unfold hfun in Hj. rewrite (Hout _ Hq (writer_TsOut G c)), H0 in Hj. simpl app in Hj.
  assert (Hlt : (j < m)%nat) by (rewrite <- Lt; apply nth_error_Some; congruence).
  rewrite (St j Hlt) in Hj. unfold tsout_of in Hj.
  destruct (start_of G h m' j) as [t0|] eqn:Es; [|discriminate]. destruct t0; try discriminate. injection Hj as <-.
  pose proof Es as Es'. unfold start_of in Es'.
  destruct (nth_error (h (QSched m')) j) as [t1|] eqn:E1; [|discriminate]. destruct t1; try discriminate.
  pose proof (schedule_law G s m' j _ Hr Hm E1) as Hs. injection Hs as -> _.
  destruct (nth_error (h (QEndPrev m')) j) as [t2|]; [|discriminate]. destruct t2; try discriminate.
  destruct (tsmax_at G h m' j); [|discriminate]. injection Es' as <- _ _.
  exists start, d. auto.
Qed.

(* ---------- TsIn c: token j is (seq j, recv_at j); arrivals are FIFO-sorted ---------- *)
Lemma tsin_tok j t : nth_error (h (TsIn G c)) j = Some t -> t = TTsIn j (recv_at G h c j).
Proof.
  intros Hj. assert (Hlt : (j < length (nth (TsIn G c) (hist _ _ s) []))%nat) by (apply nth_error_Some; unfold hfun in Hj; congruence).
  unfold hfun in Hj at 1. rewrite (tsin_law G s c j Hr Hc Hlt) in Hj. unfold tsin_of in Hj.
  destruct (nth_error (h (TsOut G c)) j) as [t0|] eqn:E; [|discriminate].
  destruct (tsout_tok j t0 E) as (_ & st & d & _ & ->). injection Hj as <-. reflexivity.
Qed.

Definition stamps : list stamp := map (fun j => (j, recv_at G h c j)) (seq 0 (length (h (TsIn G c)))).

Lemma stamps_tsin : h (TsIn G c) = map tsin stamps.
Proof.
  unfold stamps. rewrite map_map. unfold tsin. simpl.
  apply (list_is_map_seq (fun j => TTsIn j (recv_at G h c j)) (h (TsIn G c)) 0). intros j t Hj. apply tsin_tok. exact Hj.
Qed.
Lemma stamps_length : length stamps = length (h (TsIn G c)).
Proof. unfold stamps. now rewrite map_length, seq_length. Qed.
Lemma stamps_nth j : (j < length stamps)%nat -> nth j stamps dstamp = (j, recv_at G h c j).
Proof.
  intros Hj. rewrite stamps_length in Hj. unfold stamps. apply nth_error_nth. rewrite nth_error_map.
  rewrite (nth_error_nth' _ 0%nat) by (rewrite seq_length; exact Hj). rewrite seq_nth by exact Hj. reflexivity.
Qed.

Lemma stamps_arrivals : arrivals_sorted stamps.
Proof.
  intros j Hj. rewrite !stamps_nth by lia. simpl.
  rewrite stamps_length in Hj. apply nth_error_Some in Hj.
  destruct (nth_error (h (TsIn G c)) (S j)) as [t|] eqn:E; [|congruence].
  assert (Hlt : (S j < length (nth (TsIn G c) (hist _ _ s) []))%nat) by (apply nth_error_Some; unfold hfun in E; congruence).
  unfold hfun in E at 1. rewrite (tsin_law G s c (S j) Hr Hc Hlt) in E. unfold tsin_of in E.
  destruct (recv_monotone G h c (S j)) as [H|[H|(t0 & H & Hno)]].
  - exact H.
  - rewrite H in E. discriminate.
  - rewrite H in E. destruct t0; try discriminate. exfalso. eapply Hno. reflexivity.
Qed.
Lemma stamps_seqs : seqs_sorted stamps.
Proof. intros j Hj. rewrite !stamps_nth by lia. simpl. lia. Qed.

(* ---------- Msgs c: token j carries seq j and the arrival stamp recv_at j ---------- *)
Lemma msg_tok_recv j k sent recv pay : nth_error (h (Msgs G c)) j = Some (TMsg k sent recv pay) -> k = j /\ recv = recv_at G h c j.
Proof.
  intros Hj. apply (msgs_tok_law G s Hr) in Hj; [|exact Hc]. unfold msg_of in Hj.
  destruct (nth_error (h (ZipD G c)) j) as [t1|] eqn:E1; [|discriminate]. destruct t1 as [| | | | | |dl| | | | | |]; try discriminate.
  destruct (nth_error (h (ZipM G c)) j) as [t2|] eqn:E2; [|discriminate]. destruct t2 as [| | | | |k2 sent2 pay2| | | | | | |]; try discriminate.
  injection Hj as Hk Hs Hrv Hp.
  apply (zipm_tok_law G s Hr) in E2; [|exact Hc].
  destruct (msgout_tok_law G s Hr c j _ Hc E2) as (r0 & Hrow & _ & Heq). injection Heq as Hk2 Hs2 _.
  split; [congruence|].
  (* the delay token: recv_at j - out, with out the TsOut time = end of the sender's row j *)
  destruct (reach_proj G s (cact G 0 c) Hr) as (m & cu & out & Hsolo & _ & Hout).
  rewrite init_loc_conn in Hsolo by (auto; lia).
  destruct (solo_ts_in G c _ m _ _ _ Hc Hsolo) as (_ & _ & _ & _ & L2 & _ & S2).
  assert (Hq : (ZipD G c < NCH G)%nat) by (apply cch_lt; auto; lia).
  assert (H0 : nth (ZipD G c) (hist _ _ (init G)) [] = []) by (apply (init_hist_conn G 3 c); auto; lia).
  unfold hfun in E1 at 1. rewrite (Hout _ Hq (writer_ZipD G c)), H0 in E1. simpl app in E1.
  assert (Hlt : (j < m)%nat) by (rewrite <- L2; apply nth_error_Some; congruence).
  rewrite (S2 j Hlt) in E1. unfold zipd_of in E1.
  destruct (nth_error (h (TsOut G c)) j) as [t0|] eqn:E0; [|discriminate].
  destruct (tsout_tok j t0 E0) as (Hm & st & dd & Hst & ->). injection E1 as Hdl.
  (* the sender's row j ends at st + dd *)
  assert (Hjl : (j < length (rows_of s m'))%nat) by (apply nth_error_Some; congruence).
  pose proof (rows_law G s m' j Hr Hm Hjl) as HR. rewrite Hrow in HR. symmetry in HR. unfold row_of in HR.
  destruct (nth_error (h (QStart m')) j) as [t3|] eqn:E3; [|discriminate]. destruct t3 as [| | |k3 st3 d3| | | | | | | | |]; try discriminate.
  destruct (groups_at G h m' j); [|discriminate]. injection HR as HR.
  assert (Hend : r_end r0 = st3 + d3) by (rewrite <- HR; reflexivity).
  assert (Hql : (j < length (nth (QStart m') (hist _ _ s) []))%nat) by (apply nth_error_Some; unfold hfun in E3; congruence).
  unfold hfun in E3 at 1. rewrite (start_law G s m' j Hr Hm Hql), Hst in E3. injection E3 as _ H3 H4. lia.
Qed.

(* ---------- Next c (non-blocking): the start times of the receiver's steps, non-decreasing ---------- *)
Hypothesis Hnb : c_blocking (conn G c) = false.

Lemma next_tok i t : nth_error (h (Next G c)) i = Some t ->
  (n < NN G)%nat /\ exists kk st d, t = TSched kk st /\ nth_error (h (QStart n)) i = Some (TStart kk st d).
Proof.
  intros Hi.
  assert (Hw : writer G (Next G c) = AShift n) by (rewrite writer_Next, Hnb; reflexivity).
  assert (Hn : (n < NN G)%nat).
  { destruct (Nat.lt_ge_cases n (NN G)) as [H|H]; [exact H|]. exfalso.
    unfold Next in Hi. rewrite (node_side_empty 6 _ (or_intror (or_intror eq_refl)) Hw) in Hi by (unfold AShift; lia).
    destruct i; discriminate. }
  split; [exact Hn|].
  destruct (reach_proj G s (AShift n) Hr) as (m & cu & out & Hsolo & _ & Hout).
  rewrite init_loc_shift in Hsolo by exact Hn.
  assert (Hin : In c (nb_of G n)).
  { unfold nb_of. apply filter_In. split; [apply in_ins_conv; exact Hc|now rewrite Hnb]. }
  pose proof (shift_next G n _ m _ _ _ c Hn Hin Hsolo) as Hnx.
  assert (Hq : (Next G c < NCH G)%nat) by (apply cch_lt; auto; lia).
  assert (H0 : nth (Next G c) (hist _ _ (init G)) [] = []) by (apply (init_hist_conn G 6 c); auto; lia).
  assert (Hq2 : (QStart n < NCH G)%nat) by (unfold QStart, AsyncModel2.NCH; lia).
  assert (Hw2 : writer G (QStart n) = AShift n) by (unfold QStart; rewrite writer_node by lia; reflexivity).
  assert (Hi2 : nth (QStart n) (hist _ _ (init G)) [] = []).
  { rewrite init_hist by exact Hq2. unfold QStart. destruct (Nat.ltb_spec (4 * n + 3) (4 * NN G)); [|lia].
    replace ((4 * n + 3) mod 4)%nat with 3%nat by lia. reflexivity. }
  assert (Hh : h (Next G c) = map s2s (h (QStart n))).
  { unfold hfun. rewrite (Hout _ Hq Hw), H0, (Hout _ Hq2 Hw2), Hi2. simpl. exact Hnx. }
  rewrite Hh, nth_error_map in Hi.
  destruct (nth_error (h (QStart n)) i) as [t0|] eqn:E; [|discriminate]. simpl in Hi. injection Hi as <-.
  assert (Hql : (i < length (nth (QStart n) (hist _ _ s) []))%nat) by (apply nth_error_Some; unfold hfun in E; congruence).
  pose proof E as E'. unfold hfun in E' at 1. rewrite (start_law G s n i Hr Hn Hql) in E'. unfold start_of in E'.
  destruct (nth_error (h (QSched n)) i) as [t1|]; [|discriminate]. destruct t1; try discriminate.
  destruct (nth_error (h (QEndPrev n)) i) as [t2|]; [|discriminate]. destruct t2; try discriminate.
  destruct (tsmax_at G h n i); [|discriminate]. injection E' as <-. simpl. eauto.
Qed.

Hypothesis Hok : consume_ok G c = true.
Notation starts := (starts_of (h (Next G c))).

(* ---------- ExpSel c and the cumulative counts ---------- *)
Lemma expsel_tok i t : nth_error (h (ExpSel G c)) i = Some t -> expsel_of G h c i = Some t.
Proof.
  intros Hi.
  destruct (reach_proj G s (cact G 5 c) Hr) as (m & cu & out & Hsolo & _ & Hout).
  rewrite init_loc_conn in Hsolo by (auto; lia).
  destruct (solo_exp_nb G c _ m _ _ _ Hc Hsolo) as (_ & _ & L & S).
  assert (Hq : (ExpSel G c < NCH G)%nat) by (apply cch_lt; auto; lia).
  assert (Hw : writer G (ExpSel G c) = cact G 5 c) by (rewrite writer_ExpSel, Hnb; reflexivity).
  assert (H0 : nth (ExpSel G c) (hist _ _ (init G)) [] = []) by (apply (init_hist_conn G 8 c); auto; lia).
  unfold hfun in Hi. rewrite (Hout _ Hq Hw), H0 in Hi. simpl app in Hi.
  rewrite <- (S i); [exact Hi|]. rewrite <- L. apply nth_error_Some. congruence.
Qed.

(* every selection was announced: token i of ExpSel c exists only if token i of Next c is a TSched *)
Lemma expsel_next i : (i < length (h (ExpSel G c)))%nat -> exists k t, nth_error (h (Next G c)) i = Some (TSched k t).
Proof.
  intros Hi. apply nth_error_Some in Hi. destruct (nth_error (h (ExpSel G c)) i) as [te|] eqn:E; [|congruence].
  pose proof (expsel_tok i te E) as Hx. unfold expsel_of in Hx.
  destruct (nth_error (h (Next G c)) i) as [t1|]; [|discriminate]. destruct t1; try discriminate. eauto.
Qed.

Lemma sel_is_nb i : (i <= length (h (ExpSel G c)))%nat -> sel_consumed G h c i = nb_consumed G h c i.
Proof.
  induction i as [|i IH]; intros Hi; [reflexivity|]. simpl.
  destruct (nth_error (h (ExpSel G c)) i) as [t|] eqn:E; [|apply nth_error_None in E; lia].
  pose proof (expsel_tok i t E) as Hx. unfold expsel_of in Hx.
  destruct (nth_error (h (Next G c)) i) as [t1|]; [|discriminate]. destruct t1; try discriminate.
  injection Hx as <-. rewrite IH by lia. reflexivity.
Qed.

Lemma nb_is_taken i : (i <= length (h (ExpSel G c)))%nat -> nb_consumed G h c i = nb_taken (cnt_fn G c) starts stamps i.
Proof.
  apply (nb_consumed_taken G h c stamps starts (length (h (ExpSel G c))) stamps_tsin).
  intros i0 Hi0. destruct (expsel_next i0 Hi0) as (k & t & E). exists k. now rewrite (starts_of_tok _ _ _ _ E).
Qed.

Lemma nb_taken_le i : (nb_taken (cnt_fn G c) starts stamps i <= length stamps)%nat.
Proof.
  rewrite cnt_fn_cases. destruct (c_buffer (conn G c)).
  - rewrite nb_taken_buffer. apply consumedP_le.
  - rewrite nb_taken_latest. apply consumedP_le.
Qed.

(* ---------- the theorem ---------- *)
Theorem net_consumed_by_first_fitting_s r : In r (msgs_of G s c) ->
  exists kk t_i, nth_error (h (Next G c)) (m_in r) = Some (TSched kk t_i) /\
    m_recv r = recv_at G h c (m_out r) /\
    may_take G c t_i (m_out r) (m_recv r) = true /\
    (forall i' kp t', (i' < m_in r)%nat -> nth_error (h (Next G c)) i' = Some (TSched kp t') ->
                      may_take G c t' (m_out r) (m_recv r) = false).
Proof.
  intros Hin. rewrite (select_facts G s Hr c Hc) in Hin.
  destruct (in_all_recs _ _ _ _ _ Hin) as (i & ms & _ & Hg & Hrec).
  pose proof (recs_of_in _ _ _ Hrec) as Hmi. rewrite Hmi.
  unfold recs_of in Hrec. apply in_map_iff in Hrec. destruct Hrec as ([[[k sn] rv] p] & <- & Hms). simpl m_out. simpl m_recv.
  apply In_nth_error in Hms. destruct Hms as [q Hq].
  unfold group_of in Hg. destruct (nth_error (h (ExpSel G c)) i) as [te|] eqn:Ee; [|discriminate]. destruct te; try discriminate.
  destruct (take_msgs_nth _ _ _ Hg) as [Hlen Hnth]. specialize (Hnth _ _ _ _ _ Hq). rewrite nth_error_skipn' in Hnth.
  destruct (msg_tok_recv _ _ _ _ _ Hnth) as [Hk Hrv].
  assert (Hql : (q < c0)%nat) by (rewrite <- Hlen; apply nth_error_Some; congruence).
  assert (Hi1 : (S i <= length (h (ExpSel G c)))%nat) by (apply Nat.le_succ_l; apply nth_error_Some; congruence).
  destruct (expsel_next i ltac:(lia)) as (kk & t_i & En).
  (* the window of consumed counts *)
  assert (Hlo : sel_consumed G h c i = nb_taken (cnt_fn G c) starts stamps i) by (rewrite sel_is_nb, nb_is_taken by lia; reflexivity).
  assert (Hhi : (sel_consumed G h c i + c0)%nat = nb_taken (cnt_fn G c) starts stamps (S i)).
  { rewrite <- nb_is_taken, <- sel_is_nb by lia. simpl. now rewrite Ee. }
  assert (Hwin : (nb_taken (cnt_fn G c) starts stamps i <= k < nb_taken (cnt_fn G c) starts stamps (S i))%nat) by lia.
  assert (Hkl : (k < length stamps)%nat) by (pose proof (nb_taken_le (S i)); lia).
  exists kk, t_i. split; [exact En|]. split; [rewrite Hk; exact Hrv|].
  assert (Hsi : starts i = t_i) by (apply (starts_of_tok _ _ _ _ En)).
  assert (Hrv' : recv_at G h c k = rv) by (rewrite Hk; symmetry; exact Hrv).
  assert (Hfin : forall (P : Z -> bool), P (starts i) = true -> (forall i', (i' < i)%nat -> P (starts i') = false) ->
            P t_i = true /\ (forall i' kp t', (i' < i)%nat -> nth_error (h (Next G c)) i' = Some (TSched kp t') -> P t' = false)).
  { intros P H1 H2. rewrite Hsi in H1. split; [exact H1|]. intros i' kp t' Hi' Et.
    rewrite <- (starts_of_tok _ _ _ _ Et). apply H2. exact Hi'. }
  pose proof Hok as Hok'. unfold consume_ok in Hok'.
  unfold may_take. rewrite cnt_fn_cases in Hwin. destruct (c_buffer (conn G c)).
  - simpl in Hok'. apply Z.leb_le in Hok'. rewrite !nb_taken_buffer in Hwin.
    apply (consumedP_first stamp _ dstamp stamps (takesB_closed _ _ _ starts stamps Hok' stamps_arrivals stamps_seqs) i k Hkl) in Hwin.
    rewrite (stamps_nth k Hkl), Hrv' in Hwin. destruct Hwin as [H1 H2].
    apply (Hfin (fun t => takesB (c_skip (conn G c)) (n_period (node G m')) (c_phase (conn G c)) t (k, rv)) H1 H2).
  - rewrite !nb_taken_latest in Hwin.
    apply (consumedP_first stamp _ dstamp stamps (takesL_closed _ starts stamps stamps_arrivals) i k Hkl) in Hwin.
    rewrite (stamps_nth k Hkl), Hrv' in Hwin. destruct Hwin as [H1 H2].
    apply (Hfin (fun t => takesL (c_skip (conn G c)) t (k, rv)) H1 H2).
Qed.

(* the predecessor form: step i-1 exists and may not take the message *)
Lemma prev_step_announced r : In r (msgs_of G s c) -> m_in r <> 0%nat ->
  exists kp t_prev, nth_error (h (Next G c)) (m_in r - 1) = Some (TSched kp t_prev).
Proof.
  intros Hin Hi0. rewrite (select_facts G s Hr c Hc) in Hin.
  destruct (in_all_recs _ _ _ _ _ Hin) as (i & ms & _ & Hg & Hrec).
  pose proof (recs_of_in _ _ _ Hrec) as Hmi. rewrite Hmi in *.
  unfold group_of in Hg. destruct (nth_error (h (ExpSel G c)) i) as [te|] eqn:Ee; [|discriminate].
  assert (Hi1 : (i < length (h (ExpSel G c)))%nat) by (apply nth_error_Some; congruence).
  apply expsel_next. lia.
Qed.
End NetConsume.

(* C03, consumption clause on the record of any reachable state.  Hypotheses: the connection exists and is non-blocking, and
   consume_ok G c (for BUFFER a non-negative sender period; nothing for LATEST).  No other well-formedness of G is assumed
   (out-of-range endpoints produce empty records), and no monotonicity of step times. *)
Theorem net_consumed_by_first_fitting G s c : reach G s -> (c < NCn G)%nat -> c_blocking (conn G c) = false -> consume_ok G c = true ->
  forall r, In r (msgs_of G s c) ->
    let h := hfun tok local s in let j := m_out r in let i := m_in r in
    exists kk t_i, nth_error (h (Next G c)) i = Some (TSched kk t_i) /\        (* receiver step i was announced on c with start time t_i *)
      m_recv r = recv_at G h c j /\                                            (* the recorded receive time is the arrival stamp of message j *)
      may_take G c t_i j (m_recv r) = true /\                                  (* step i may take it *)
      (forall i' kp t', (i' < i)%nat -> nth_error (h (Next G c)) i' = Some (TSched kp t') ->
                        may_take G c t' j (m_recv r) = false) /\                (* NO earlier step may: i is the FIRST step that may take it *)
      (i = 0%nat \/ exists kp t_prev, nth_error (h (Next G c)) (i - 1) = Some (TSched kp t_prev) /\
                                      may_take G c t_prev j (m_recv r) = false).   (* in particular the previous step, which exists *)
Proof.
  intros Hr Hc Hnb Hok r Hin. cbv zeta.
  destruct (net_consumed_by_first_fitting_s G s Hr c Hc Hnb Hok r Hin) as (kk & t_i & H1 & H2 & H3 & H4).
  exists kk, t_i. repeat (split; [assumption|]).
  destruct (Nat.eq_dec (m_in r) 0) as [H0|H0]; [now left|right].
  destruct (prev_step_announced G s Hr c Hc Hnb r Hin H0) as (kp & tp & Hp). exists kp, tp. split; [exact Hp|].
  apply (H4 (m_in r - 1)%nat kp tp); [lia|exact Hp].
Qed.

(* the announced step time t_i IS the start time of the receiver's step i (token i of its QStart channel) *)
Theorem next_is_start G s c i t : reach G s -> (c < NCn G)%nat -> c_blocking (conn G c) = false ->
  nth_error (hfun tok local s (Next G c)) i = Some t ->
  (c_in (conn G c) < NN G)%nat /\ exists kk st d, t = TSched kk st /\
     nth_error (hfun tok local s (QStart (c_in (conn G c)))) i = Some (TStart kk st d).
Proof. intros Hr Hc Hnb. apply next_tok; assumption. Qed.

(* never early: not before its arrival (strictly after with skip), and for BUFFER not before its expected arrival *)
Corollary net_never_early G s c : reach G s -> (c < NCn G)%nat -> c_blocking (conn G c) = false -> consume_ok G c = true ->
  forall r, In r (msgs_of G s c) ->
    exists kk t_i, nth_error (hfun tok local s (Next G c)) (m_in r) = Some (TSched kk t_i) /\
      m_recv r <= t_i /\ (c_skip (conn G c) = true -> m_recv r < t_i) /\
      (c_buffer (conn G c) = true -> Z.of_nat (m_out r) * n_period (node G (c_out (conn G c))) + c_phase (conn G c) <= t_i).
Proof.
  intros Hr Hc Hnb Hok r Hin.
  destruct (net_consumed_by_first_fitting G s c Hr Hc Hnb Hok r Hin) as (kk & t_i & H1 & _ & H2 & _).
  exists kk, t_i. split; [exact H1|]. unfold may_take in H2.
  assert (Ht : forall sk, takes sk t_i (m_recv r) = true -> m_recv r <= t_i /\ (sk = true -> m_recv r < t_i)).
  { intros sk H. unfold takes in H. destruct sk; [apply Z.ltb_lt in H|apply Z.leb_le in H]; split; try lia; intros; try discriminate; lia. }
  destruct (c_buffer (conn G c)).
  - unfold takesB in H2. apply andb_prop in H2. destruct H2 as [Hb Hb2]. simpl in *. apply Z.leb_le in Hb.
    destruct (Ht _ Hb2) as [A B]. repeat split; auto.
  - unfold takesL in H2. simpl in H2. destruct (Ht _ H2) as [A B]. repeat split; auto. intros; discriminate.
Qed.


(* ---------- non-vacuity: the recorded execution exS of AsyncDataflow.exG (LATEST, no skip) ---------- *)
Example ex_consume_hyps : (0 < NCn exG)%nat /\ c_blocking (conn exG 0) = false /\ consume_ok exG 0 = true /\
  msgs_of exG exS 0 = [ {| m_out := 0; m_in := 0; m_sent := 2; m_recv := 3 |}; {| m_out := 1; m_in := 1; m_sent := 12; m_recv := 13 |};
                        {| m_out := 2; m_in := 2; m_sent := 22; m_recv := 23 |}; {| m_out := 3; m_in := 3; m_sent := 32; m_recv := 33 |} ] /\
  firstn 4 (hfun tok local exS (Next exG 0)) = [TSched 0 5; TSched 1 15; TSched 2 25; TSched 3 35] /\
  may_take exG 0 25 2 23 = true /\ may_take exG 0 15 2 23 = false.
Proof. vm_compute. repeat split; reflexivity || lia. Qed.
Example ex_consume_instance :
  exists kk t_i, nth_error (hfun tok local exS (Next exG 0)) 2 = Some (TSched kk t_i) /\ may_take exG 0 t_i 2 23 = true /\
    exists kp t_prev, nth_error (hfun tok local exS (Next exG 0)) 1 = Some (TSched kp t_prev) /\ may_take exG 0 t_prev 2 23 = false.
Proof.
  assert (Hin : In {| m_out := 2; m_in := 2; m_sent := 22; m_recv := 23 |} (msgs_of exG exS 0)) by (vm_compute; auto).
  destruct (net_consumed_by_first_fitting exG exS 0 exS_reach ltac:(vm_compute; lia) eq_refl eq_refl _ Hin) as (kk & t_i & H1 & _ & H2 & _ & [H3|H3]);
    [discriminate H3|]. destruct H3 as (kp & tp & Hp1 & Hp2).
  exists kk, t_i. split; [exact H1|]. split; [exact H2|]. exists kp, tp. split; [exact Hp1|exact Hp2].
Qed.

(* ---------- what is NOT claimed, with counterexamples in the model ---------- *)
Definition cxG (d1 : list Z) (freq buf : bool) (P0 phc : Z) : cfg :=
  {| nodes := [ {| n_period := P0; n_phase := 0; n_advance := false; n_freq := true; n_delays := [2]; n_nid := 0 |};
                {| n_period := 10; n_phase := 5; n_advance := false; n_freq := freq; n_delays := d1; n_nid := 1 |} ];
     conns := [ {| c_out := 0; c_in := 1; c_blocking := false; c_skip := false; c_buffer := buf;
                   c_window := 2; c_phase := phc; c_delays := [1] |} ] |}.

(* (1) The receiver's step times need NOT be non-decreasing: with a negative computation delay (phase mode, delays 30, -28, 30, ...)
   the announced start times are 5, 35, 25, 55, ...  The theorem above still holds (it does not use monotonicity), but its CONVERSE does
   not: "a step that may take a message while its predecessor may not is the consumer" fails - message 3 (arrival 33) may be taken by
   step 3 (start 55) and not by step 2 (start 25), yet it was consumed by step 1 (start 35). *)
Definition cxG1 : cfg := cxG [30; -28] false false 10 0.
Definition cxS1 : state := run cxG1 60 (seq 0 (NACT cxG1)) (fun _ => 6%nat) (init cxG1).
Lemma cxS1_reach : reach cxG1 cxS1.
Proof. apply run_reach. constructor. Qed.
Example cx_steps_not_monotone :
  firstn 4 (hfun tok local cxS1 (Next cxG1 0)) = [TSched 0 5; TSched 1 35; TSched 2 25; TSched 3 55] /\ consume_ok cxG1 0 = true /\
  In {| m_out := 3; m_in := 1; m_sent := 32; m_recv := 33 |} (msgs_of cxG1 cxS1 0) /\
  may_take cxG1 0 55 3 33 = true /\ may_take cxG1 0 25 3 33 = false /\      (* step 3 may, step 2 may not ... *)
  may_take cxG1 0 35 3 33 = true /\ may_take cxG1 0 5 3 33 = false.         (* ... but the consumer is step 1, the FIRST that may *)
Proof. vm_compute. repeat split; auto. Qed.

(* (2) consume_ok is needed for BUFFER: with a NEGATIVE sender period (-10, phase 12) expected arrivals decrease along the stream
   (12, 2, -8, ...); message 0 (expected 12) blocks message 1 (expected 2, arrived 5) at the step starting at 5, which may take it;
   message 1 is consumed by the NEXT step (start 15): not the first step that may take it. *)
Definition cxG2 : cfg := cxG [3] true true (-10) 12.
Definition cxS2 : state := run cxG2 80 (seq 0 (NACT cxG2)) (fun n => match n with O => 14%nat | _ => 3%nat end) (init cxG2).
Lemma cxS2_reach : reach cxG2 cxS2.
Proof. apply run_reach. constructor. Qed.
Example cx_negative_period :
  consume_ok cxG2 0 = false /\ c_blocking (conn cxG2 0) = false /\
  firstn 2 (hfun tok local cxS2 (Next cxG2 0)) = [TSched 0 5; TSched 1 15] /\
  In {| m_out := 1; m_in := 1; m_sent := 4; m_recv := 5 |} (msgs_of cxG2 cxS2 0) /\
  may_take cxG2 0 5 1 5 = true.            (* step 0 may take message 1, which step 1 consumed *)
Proof. vm_compute. repeat split; auto. Qed.

Print Assumptions net_consumed_by_first_fitting.
