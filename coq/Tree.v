(* C17 model: parameter pytrees (nested dicts with optional leaves) and the transforms of rex/base.py:
   leaf-wise maps (Denormalize, Exponential), Identity, Chain, Extend (tree_extend + fill), Shared (tree_at).
   Carrier-polymorphic: instantiated at R in the laws and at Q for execution. Proofs are in TreeLaws.v. *)
From Coq Require Import List ZArith Bool.
Import ListNotations.

(* a leaf is an optional value (None = Python None: an empty pytree node that tree_map skips);
   a node is a dict, as a key-sorted association list *)
Inductive tree (A : Type) := Leaf (v : option A) | Node (kids : list (Z * tree A)).
Arguments Leaf {A}. Arguments Node {A}.

Section Ops.
Context {A : Type}.

Fixpoint tmap (f : A -> A) (t : tree A) : tree A :=
  match t with
  | Leaf v => Leaf (option_map f v)
  | Node kids => Node ((fix go (l : list (Z * tree A)) := match l with [] => [] | (k, c) :: l => (k, tmap f c) :: go l end) kids)
  end.

(* jax.tree_util.tree_map(f, p, o, s): all three trees must have the same structure (same_shape); on a mismatch the
   total function keeps p's subtree (never used: the laws assume same_shape, and the implementation raises there) *)
Fixpoint same_shape (p o : tree A) : bool :=
  match p, o with
  | Leaf None, Leaf None => true
  | Leaf (Some _), Leaf (Some _) => true
  | Node ks, Node os =>
      (fix go (l : list (Z * tree A)) (m : list (Z * tree A)) : bool :=
         match l, m with
         | [], [] => true
         | (k, c) :: l, (k', c') :: m => Z.eqb k k' && same_shape c c' && go l m
         | _, _ => false end) ks os
  | _, _ => false
  end.

Fixpoint tmap3 (f : A -> A -> A -> A) (p o s : tree A) : tree A :=
  match p, o, s with
  | Leaf (Some x), Leaf (Some y), Leaf (Some z) => Leaf (Some (f x y z))
  | Node ks, Node os, Node ss =>
      Node ((fix go (l m n : list (Z * tree A)) : list (Z * tree A) :=
         match l, m, n with
         | (k, c) :: l, (_, c') :: m, (_, c'') :: n => (k, tmap3 f c c' c'') :: go l m n
         | l, _, _ => l end) ks os ss)
  | p, _, _ => p
  end.

Definition tmap2 (f : A -> A -> A) (p o : tree A) : tree A := tmap3 (fun x y _ => f x y) p o o.

(* ---- Extend: rjax.tree_extend(base, params) broadcasts every leaf of the prefix tree `params` over the corresponding
   subtree of base; then `base_x if ex_x is None else ex_x`.  prefix_ok is the structure test (the implementation raises
   when it fails). *)
Fixpoint fill (v : A) (b : tree A) : tree A :=      (* a supplied leaf broadcast over a base subtree *)
  match b with
  | Leaf None => Leaf None
  | Leaf (Some _) => Leaf (Some v)
  | Node kids => Node ((fix go (l : list (Z * tree A)) := match l with [] => [] | (k, c) :: l => (k, fill v c) :: go l end) kids)
  end.

Fixpoint prefix_ok (b p : tree A) {struct p} : bool :=
  match p, b with
  | Leaf _, _ => true
  | Node ps, Node bs =>
      (fix go (m : list (Z * tree A)) (l : list (Z * tree A)) {struct m} : bool :=
         match m, l with
         | [], [] => true
         | (k', c') :: m, (k, c) :: l => Z.eqb k k' && prefix_ok c c' && go m l
         | _, _ => false end) ps bs
  | Node _, Leaf _ => false
  end.

Fixpoint textend (b p : tree A) {struct p} : tree A :=
  match p with
  | Leaf None => b
  | Leaf (Some v) => fill v b
  | Node ps =>
      match b with
      | Node bs => Node ((fix go (m : list (Z * tree A)) (l : list (Z * tree A)) {struct m} : list (Z * tree A) :=
                      match m, l with
                      | (_, c') :: m, (k, c) :: l => (k, textend c c') :: go m l
                      | _, l => l end) ps bs)
      | Leaf _ => b
      end
  end.

(* ---- Shared: eqx.tree_at(where, params, new) with `where` a key path *)
Fixpoint get_at (path : list Z) (t : tree A) : option (tree A) :=
  match path with
  | [] => Some t
  | k :: path => match t with
      | Node kids => (fix go (l : list (Z * tree A)) := match l with [] => None
                        | (k', c) :: l => if Z.eqb k k' then get_at path c else go l end) kids
      | Leaf _ => None end
  end.
Fixpoint set_at (path : list Z) (new : tree A) (t : tree A) : tree A :=
  match path with
  | [] => new
  | k :: path => match t with
      | Node kids => Node ((fix go (l : list (Z * tree A)) := match l with [] => []
                        | (k', c) :: l => if Z.eqb k k' then (k', set_at path new c) :: l else (k', c) :: go l end) kids)
      | Leaf _ => t end
  end.

(* ---- transforms as data, so that chains can be executed and reasoned about *)
Inductive transform :=
| TIdentity
| TLeafwise (f g : A -> A)                         (* apply = tmap f, inv = tmap g   (Exponential) *)
| TDenorm (f g : A -> A -> A -> A) (offset scale : tree A)   (* apply = tmap3 f . offset scale, inv = tmap3 g *)
| TExtend (base : tree A)                          (* apply only: Extend.inv is outside the property *)
| TShared (where_ from_ : list Z)                  (* replace_fn = read at from_, inverse_fn = None *)
| TChain (ts : list transform).

Fixpoint app (T : transform) (t : tree A) : tree A :=
  match T with
  | TIdentity => t
  | TLeafwise f _ => tmap f t
  | TDenorm f _ o s => tmap3 f t o s
  | TExtend b => textend b t
  | TShared w fr => match get_at fr t with Some new => set_at w new t | None => t end
  | TChain ts => (fix go (l : list transform) (acc : tree A) := match l with [] => acc | T :: l => go l (app T acc) end) ts t
  end.

Fixpoint inv (T : transform) (t : tree A) : tree A :=
  match T with
  | TIdentity => t
  | TLeafwise _ g => tmap g t
  | TDenorm _ g o s => tmap3 g t o s
  | TExtend _ => t
  | TShared w _ => set_at w (Leaf None) t
  | TChain ts => (fix go (l : list transform) (acc : tree A) := match l with [] => acc | T :: l => inv T (go l acc) end) ts t
  end.
End Ops.
Arguments transform A : clear implicits.
