(* M2b: the observation / action handshake between the supervisor's executor thread (_Synchronizer._async_step) and the user thread
   (AsyncGraph.reset / step / run = run_until_supervisor ; run_supervisor).  One transition per GIL-atomic access; the futures are
   abstracted by counters: app = action futures appended to q_act, popd = popped, ans = answered (set_result) by the user,
   pub = observations published, got = observations consumed by the user.
   [append_first = true]: the code as it is (append the action future, then publish the observation);
   [append_first = false]: the reordered variant (publish first) - refuted below.                                              *)
From Coq Require Import List Arith Bool Lia.
Import ListNotations.

Inductive spc := SBegin | SMid | SWait | SPop.       (* supervisor thread inside _async_step *)
Inductive upc := UWaitObs | UAnswer | UIndexError | UInvalidState.
Record st := { app : nat; popd : nat; ans : nat; pub : nat; got : nat; sp : spc; up : upc }.

Section Proto.
Variable append_first : bool.

Inductive step : st -> st -> Prop :=
(* supervisor: first statement (append f_act / publish obs), second statement (the other one) *)
| s_first s : sp s = SBegin ->
    step s {| app := if append_first then S (app s) else app s; popd := popd s; ans := ans s;
              pub := if append_first then pub s else S (pub s); got := got s; sp := SMid; up := up s |}
| s_second s : sp s = SMid ->
    step s {| app := if append_first then app s else S (app s); popd := popd s; ans := ans s;
              pub := if append_first then S (pub s) else pub s; got := got s; sp := SWait; up := up s |}
(* f_act.result() returns once the user has answered this step's future *)
| s_wait s : sp s = SWait -> app s <= ans s -> step s {| app := app s; popd := popd s; ans := ans s; pub := pub s; got := got s; sp := SPop; up := up s |}
(* q_act.popleft(); the next supervisor step may begin at any later time *)
| s_pop s : sp s = SPop -> step s {| app := app s; popd := S (popd s); ans := ans s; pub := pub s; got := got s; sp := SBegin; up := up s |}
(* user: observation.popleft().result() returns once the observation is published *)
| u_get s : up s = UWaitObs -> got s < pub s ->
    step s {| app := app s; popd := popd s; ans := ans s; pub := pub s; got := S (got s); sp := sp s; up := UAnswer |}
(* user: action[-1].set_result(...) : IndexError on an empty deque, InvalidStateError on an already answered future *)
| u_answer s : up s = UAnswer ->
    step s {| app := app s; popd := popd s; ans := if (app s =? popd s) || (app s <=? ans s) then ans s else S (ans s); pub := pub s; got := got s; sp := sp s;
              up := if app s =? popd s then UIndexError else if app s <=? ans s then UInvalidState else UWaitObs |}.

Inductive steps : st -> st -> Prop :=
| st_refl s : steps s s
| st_step s s1 s2 : step s s1 -> steps s1 s2 -> steps s s2.
End Proto.

Definition init : st := {| app := 0; popd := 0; ans := 0; pub := 0; got := 0; sp := SBegin; up := UWaitObs |}.

(* ---- the code as it is: no IndexError / InvalidStateError in any interleaving, for any number of steps ---- *)
Definition Inv (s : st) : Prop :=
  popd s <= ans s /\ ans s <= app s /\ app s <= S (ans s) /\ got s <= pub s /\ pub s <= app s /\ app s <= S (pub s) /\
  (up s = UWaitObs \/ up s = UAnswer) /\
  match sp s with
  | SBegin => app s = pub s /\ app s = ans s /\ popd s = app s
  | SMid => app s = S (pub s) /\ ans s = pub s /\ popd s = pub s
  | SWait => app s = pub s /\ popd s = app s - 1 /\ app s >= 1
  | SPop => app s = pub s /\ ans s = app s /\ popd s = app s - 1 /\ app s >= 1
  end /\
  match up s with
  | UWaitObs => got s = ans s
  | UAnswer => got s = pub s /\ ans s = got s - 1 /\ got s >= 1 /\ sp s = SWait
  | _ => False end.

Lemma inv_init : Inv init.
Proof. unfold Inv, init; simpl. repeat split; auto; lia. Qed.

Ltac fin := repeat split; auto; try lia; try discriminate.
Lemma inv_step s s' : Inv s -> step true s s' -> Inv s'.
Proof.
  intros (H1 & H2 & H3 & H4 & H5 & H6 & H7 & HS & HU) Hs.
  inversion Hs as [x E|x E|x E Ha|x E|x E Hg|x E]; subst; unfold Inv; cbn [app popd ans pub got sp up].
  - (* supervisor appends its action future *)
    rewrite E in HS. destruct HS as (A & B & C).
    destruct (up s) eqn:EU; try (exfalso; exact HU); [fin|destruct HU as (_ & _ & _ & X); congruence].
  - (* supervisor publishes the observation *)
    rewrite E in HS. destruct HS as (A & B & C).
    destruct (up s) eqn:EU; try (exfalso; exact HU); [fin|destruct HU as (_ & _ & _ & X); congruence].
  - (* the action future is answered *)
    rewrite E in HS. destruct HS as (A & B & C).
    destruct (up s) eqn:EU; try (exfalso; exact HU); [fin|destruct HU as (U1 & U2 & U3 & _); exfalso; lia].
  - (* popleft *)
    rewrite E in HS. destruct HS as (A & B & C & D).
    destruct (up s) eqn:EU; try (exfalso; exact HU); [fin|destruct HU as (_ & _ & _ & X); congruence].
  - (* the user receives the observation *)
    rewrite E in HU.
    destruct (sp s) eqn:ES.
    + destruct HS as (A & B & C). exfalso. lia.
    + destruct HS as (A & B & C). exfalso. lia.
    + destruct HS as (A & B & C). fin.
    + destruct HS as (A & B & C & D). exfalso. lia.
  - (* the user answers: the deque is non-empty and its last future is pending *)
    rewrite E in HU. destruct HU as (U1 & U2 & U3 & U4). rewrite U4 in HS. destruct HS as (A & B & C).
    assert (N1 : (app s =? popd s) = false) by (apply Nat.eqb_neq; lia).
    assert (N2 : (app s <=? ans s) = false) by (apply Nat.leb_gt; lia).
    rewrite N1, N2, U4. cbn [orb]. fin.
Qed.

Theorem handshake_never_raises s : steps true init s -> Inv s /\ up s <> UIndexError /\ up s <> UInvalidState.
Proof.
  assert (G : forall a b, steps true a b -> Inv a -> Inv b).
  { intros a b H. induction H; intros; auto. apply IHsteps. eapply inv_step; eauto. }
  intros H. pose proof (G _ _ H inv_init) as I. split; [exact I|].
  destruct I as (_ & _ & _ & _ & _ & _ & [E|E] & _); rewrite E; split; discriminate.
Qed.

(* ---- the reordered variant (observation published before the action future is queued) can raise IndexError ---- *)
Theorem publish_first_refuted : exists s, steps false init s /\ up s = UIndexError.
Proof.
  eexists. split.
  - eapply st_step. { apply (s_first false init). reflexivity. }          (* publish *)
    eapply st_step. { eapply u_get; simpl; [reflexivity|lia]. }            (* user gets the observation *)
    eapply st_step. { eapply u_answer. reflexivity. }                      (* action[-1] on an empty deque *)
    apply st_refl.
  - reflexivity.
Qed.
Print Assumptions handshake_never_raises.
Print Assumptions publish_first_refuted.

(* an executable version of the transition relation (label = which thread moves), sound w.r.t. step: used for witnesses *)
Inductive label := LFirst | LSecond | LWait | LPop | LGet | LAnswer.
Definition spc_eqb (a b : spc) : bool := match a, b with SBegin, SBegin | SMid, SMid | SWait, SWait | SPop, SPop => true | _, _ => false end.
Definition upc_eqb (a b : upc) : bool := match a, b with UWaitObs, UWaitObs | UAnswer, UAnswer | UIndexError, UIndexError | UInvalidState, UInvalidState => true | _, _ => false end.
Definition next (af : bool) (s : st) (l : label) : option st :=
  match l with
  | LFirst => if spc_eqb (sp s) SBegin then Some {| app := if af then S (app s) else app s; popd := popd s; ans := ans s;
                pub := if af then pub s else S (pub s); got := got s; sp := SMid; up := up s |} else None
  | LSecond => if spc_eqb (sp s) SMid then Some {| app := if af then app s else S (app s); popd := popd s; ans := ans s;
                pub := if af then S (pub s) else pub s; got := got s; sp := SWait; up := up s |} else None
  | LWait => if spc_eqb (sp s) SWait && (app s <=? ans s) then Some {| app := app s; popd := popd s; ans := ans s; pub := pub s; got := got s; sp := SPop; up := up s |} else None
  | LPop => if spc_eqb (sp s) SPop then Some {| app := app s; popd := S (popd s); ans := ans s; pub := pub s; got := got s; sp := SBegin; up := up s |} else None
  | LGet => if upc_eqb (up s) UWaitObs && (got s <? pub s) then Some {| app := app s; popd := popd s; ans := ans s; pub := pub s; got := S (got s); sp := sp s; up := UAnswer |} else None
  | LAnswer => if upc_eqb (up s) UAnswer then Some {| app := app s; popd := popd s; ans := if (app s =? popd s) || (app s <=? ans s) then ans s else S (ans s); pub := pub s; got := got s; sp := sp s;
                up := if app s =? popd s then UIndexError else if app s <=? ans s then UInvalidState else UWaitObs |} else None
  end.
Lemma next_sound af s l s' : next af s l = Some s' -> step af s s'.
Proof.
  destruct l; simpl; intros H.
  - destruct (sp s) eqn:E; try discriminate. injection H as <-. apply s_first. exact E.
  - destruct (sp s) eqn:E; try discriminate. injection H as <-. apply s_second. exact E.
  - destruct (sp s) eqn:E; try discriminate. simpl in H. destruct (Nat.leb_spec (app s) (ans s)); [|discriminate]. injection H as <-. apply s_wait; assumption.
  - destruct (sp s) eqn:E; try discriminate. injection H as <-. apply s_pop. exact E.
  - destruct (up s) eqn:E; try discriminate. simpl in H. destruct (Nat.ltb_spec (got s) (pub s)); [|discriminate]. injection H as <-. apply u_get; assumption.
  - destruct (up s) eqn:E; try discriminate. injection H as <-. apply u_answer. exact E.
Qed.
Fixpoint run (af : bool) (ls : list label) (s : st) : option st :=
  match ls with [] => Some s | l :: ls => match next af s l with Some s' => run af ls s' | None => None end end.
Lemma run_steps af ls : forall s s', run af ls s = Some s' -> steps af s s'.
Proof.
  induction ls as [|l ls IH]; intros s s' H; simpl in H; [injection H as <-; apply st_refl|].
  destruct (next af s l) as [s1|] eqn:E; [|discriminate]. eapply st_step; [apply (next_sound af s l s1); exact E|apply IH; exact H].
Qed.

(* non-vacuity: the model really runs steps (two complete supervisor steps answered by the user) *)
Example two_steps_run : exists s, steps true init s /\ app s = 2 /\ ans s = 2 /\ popd s = 2 /\ got s = 2.
Proof.
  exists {| app := 2; popd := 2; ans := 2; pub := 2; got := 2; sp := SBegin; up := UWaitObs |}. split; [|repeat split].
  apply (run_steps true [LFirst; LSecond; LGet; LAnswer; LWait; LPop; LFirst; LSecond; LGet; LAnswer; LWait; LPop]). vm_compute. reflexivity.
Qed.

(* which variant a source order of the two statements corresponds to (used by the translator tie) *)
Inductive hs_op := HAppend | HPublish.
Definition order_mode (ops : list hs_op) : option bool :=
  match ops with [HAppend; HPublish] => Some true | [HPublish; HAppend] => Some false | _ => None end.
