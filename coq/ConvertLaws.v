(* C14 — proofs about the model in Convert.v *)
From Coq Require Import List Arith ZArith Bool Lia.
From Rex Require Import Convert.
Import ListNotations.
Open Scope Z_scope.

(* ================================================================ one leaf *)
Lemma maxlen_ge {X} (ls : list (list X)) l : In l ls -> (length l <= maxlen ls)%nat.
Proof. induction ls as [|x ls IH]; [contradiction|]. intros [->|H]; simpl; [lia|specialize (IH H); lia]. Qed.

(* an episode's leaf taken out of a stack is the original followed by padding only *)
Theorem stack_rows {X} (d : X) ls i l : nth_error ls i = Some l ->
  nth_error (stack_leaf d ls) i = Some (l ++ repeat d (maxlen ls - length l)).
Proof. intros H. unfold stack_leaf. rewrite nth_error_map, H. reflexivity. Qed.

Theorem stack_rows_prefix {X} (d : X) ls i l : nth_error ls i = Some l ->
  exists r, nth_error (stack_leaf d ls) i = Some r /\ firstn (length l) r = l /\ skipn (length l) r = repeat d (maxlen ls - length l).
Proof.
  intros H. eexists. split; [apply stack_rows, H|]. split.
  - rewrite firstn_app, Nat.sub_diag, firstn_all. simpl. apply app_nil_r.
  - rewrite skipn_app, Nat.sub_diag, skipn_all. reflexivity.
Qed.

(* all rows of a stacked leaf have the same length, one row per episode *)
Theorem stack_rectangular {X} (d : X) ls r : In r (stack_leaf d ls) -> length r = maxlen ls.
Proof.
  unfold stack_leaf. intros H. apply in_map_iff in H. destruct H as [l [<- Hl]].
  unfold pad. rewrite app_length, repeat_length. pose proof (maxlen_ge ls l Hl). lia.
Qed.
Theorem stack_leaf_length {X} (d : X) ls : length (stack_leaf d ls) = length ls.
Proof. apply map_length. Qed.
(* stacking equally long leaves pads nothing *)
Theorem stack_uniform {X} (d : X) ls n : Forall (fun l => length l = n) ls -> stack_leaf d ls = ls.
Proof.
  intros H. unfold stack_leaf. transitivity (map (fun x : list X => x) ls); [|apply map_id]. apply map_ext_in. intros l Hl.
  rewrite Forall_forall in H. unfold pad.
  assert (maxlen ls <= n)%nat.
  { clear Hl. induction ls as [|x ls IH]; simpl; [lia|]. pose proof (H x (or_introl eq_refl)).
    assert (maxlen ls <= n)%nat by (apply IH; intros y Hy; apply H; right; exact Hy). lia. }
  rewrite (H l Hl). replace (maxlen ls - n)%nat with 0%nat by lia. apply app_nil_r.
Qed.

Lemma nth_stack_leaf (ls : list arr) i :
  (i < length ls)%nat -> nth i (stack_leaf (-1) ls) [] = nth i ls [] ++ repeat (-1) (maxlen ls - length (nth i ls [])).
Proof.
  intros Hi. destruct (nth_error ls i) as [l|] eqn:E; [|apply nth_error_None in E; lia].
  apply nth_error_nth with (d := @nil Z) in E as E1. rewrite E1.
  apply (nth_error_nth _ _ (@nil Z)). apply stack_rows, E.
Qed.

(* ================================================================ association lists *)
Lemma mapk_id {K A} (l : list (K * A)) (f : A -> A) : (forall a, f a = a) -> mapk f l = l.
Proof. intros H. unfold mapk. transitivity (map (fun x : K * A => x) l); [|apply map_id]. apply map_ext. intros [k a]; simpl. rewrite H. reflexivity. Qed.
Lemma mapk_mapk {K A B C} (f : A -> B) (g : B -> C) (l : list (K * A)) : mapk g (mapk f l) = mapk (fun a => g (f a)) l.
Proof. unfold mapk. rewrite map_map. reflexivity. Qed.
Lemma mapk_keys {K A B} (f : A -> B) (l : list (K * A)) : map fst (mapk f l) = map fst l.
Proof. unfold mapk. rewrite map_map. reflexivity. Qed.
Lemma mapk_zipk {K A B C D} (h : C -> D) (f : A -> B -> C) (l1 : list (K * A)) (l2 : list (K * B)) :
  mapk h (zipk f l1 l2) = zipk (fun a b => h (f a b)) l1 l2.
Proof. unfold mapk, zipk. rewrite map_map. reflexivity. Qed.
Lemma zipk_left {K A B C} (f : A -> B -> C) (g : A -> C) (l1 : list (K * A)) (l2 : list (K * B)) :
  map fst l1 = map fst l2 -> (forall a b, f a b = g a) -> zipk f l1 l2 = mapk g l1.
Proof.
  intros Hk Hf. revert l2 Hk. induction l1 as [|[k a] l1 IH]; intros [|[k2 b] l2] Hk; try discriminate; [reflexivity|].
  simpl in Hk. injection Hk as -> Hk. unfold zipk, mapk in *. simpl. rewrite Hf. f_equal. apply IH, Hk.
Qed.
Lemma zipk_right {K A B C} (f : A -> B -> C) (g : B -> C) (l1 : list (K * A)) (l2 : list (K * B)) :
  map fst l1 = map fst l2 -> (forall a b, f a b = g b) -> zipk f l1 l2 = mapk g l2.
Proof.
  intros Hk Hf. revert l2 Hk. induction l1 as [|[k a] l1 IH]; intros [|[k2 b] l2] Hk; try discriminate; [reflexivity|].
  simpl in Hk. injection Hk as -> Hk. unfold zipk, mapk in *. simpl. rewrite Hf. f_equal. apply IH, Hk.
Qed.
Lemma zipk_keys {K A B C} (f : A -> B -> C) (l1 : list (K * A)) (l2 : list (K * B)) :
  map fst l1 = map fst l2 -> map fst (zipk f l1 l2) = map fst l1.
Proof.
  revert l2. induction l1 as [|[k a] l1 IH]; intros [|[k2 b] l2] Hk; try discriminate; [reflexivity|].
  simpl in Hk. injection Hk as -> Hk. unfold zipk in *. simpl. f_equal. apply IH, Hk.
Qed.
Lemma Forall2_map_same {A B C} (R : B -> C -> Prop) (f : A -> B) (h : A -> C) l :
  (forall x, In x l -> R (f x) (h x)) -> Forall2 R (map f l) (map h l).
Proof. induction l; simpl; intros H; constructor; auto. Qed.
Lemma flat_map_Forall2 {A B C} (f : A -> list C) (h : B -> list C) l' l :
  Forall2 (fun a b => f a = h b) l' l -> flat_map f l' = flat_map h l.
Proof. induction 1; simpl; congruence. Qed.

(* ================================================================ tree_map / stack / getitem *)
Lemma tmap_tmap {L M N} (f : L -> M) (g : M -> N) t : tmap g (tmap f t) = tmap (fun x => g (f x)) t.
Proof. destruct t; reflexivity. Qed.
Lemma tmap_id {L} (f : L -> L) t : (forall x, f x = x) -> tmap f t = t.
Proof. intros H. destruct t; unfold tmap; simpl. rewrite !H. reflexivity. Qed.
Lemma gmap_gmap {L M N} (f : L -> M) (g : M -> N) x : gmap g (gmap f x) = gmap (fun l => g (f l)) x.
Proof.
  unfold gmap; simpl. rewrite !mapk_mapk. f_equal; unfold mapk; apply map_ext; intros [k t]; simpl; rewrite tmap_tmap; reflexivity.
Qed.
Lemma gmap_id {L} (f : L -> L) (x : graph L) : (forall l, f l = l) -> gmap f x = x.
Proof. intros H. destruct x as [v e]. unfold gmap; simpl. rewrite !mapk_id; auto; intros; apply tmap_id, H. Qed.
Lemma gmap_keys {L M} (f : L -> M) x : keys (gmap f x) = keys x.
Proof. unfold keys, gmap; simpl. rewrite !mapk_keys. reflexivity. Qed.

Definition keys_all {L} (g0 : graph L) (r : list (graph L)) : Prop := Forall (fun g => keys g = keys g0) r.
Lemma same_keys_spec {L} (g0 : graph L) r : same_keys g0 r = true <-> keys_all g0 r.
Proof.
  unfold same_keys, keys_all. rewrite forallb_forall, Forall_forall. split; intros H g Hg; specialize (H g Hg).
  - destruct (keys_dec (keys g) (keys g0)); [assumption|discriminate].
  - destruct (keys_dec (keys g) (keys g0)); [reflexivity|contradiction].
Qed.

Lemma columns_keys {L} (g0 : graph L) r : keys_all g0 r -> keys (columns g0 r) = keys g0.
Proof.
  revert g0. induction r as [|g1 r IH]; intros g0 H; simpl; [apply gmap_keys|].
  inversion H as [|? ? H1 Hr]; subst. assert (Hr' : keys_all g1 r).
  { unfold keys_all in *. rewrite Forall_forall in *. intros g Hg. rewrite (Hr g Hg). symmetry; exact H1. }
  specialize (IH g1 Hr'). unfold keys in *; simpl. injection IH as Hv He. injection H1 as H1v H1e.
  rewrite zipk_keys by (symmetry; etransitivity; [exact Hv|exact H1v]).
  rewrite zipk_keys by (symmetry; etransitivity; [exact He|exact H1e]). reflexivity.
Qed.

(* the column graph holds, in row i, exactly episode i *)
Lemma columns_nth {L} (d : L) (g0 : graph L) r i gi : keys_all g0 r -> nth_error (g0 :: r) i = Some gi ->
  gmap (fun c => nth i c d) (columns g0 r) = gi.
Proof.
  revert g0 i. induction r as [|g1 r IH]; intros g0 i H Hi.
  - destruct i as [|i]; simpl in Hi; [injection Hi as <-|destruct i; discriminate].
    simpl. rewrite gmap_gmap. apply gmap_id. reflexivity.
  - inversion H as [|? ? H1 Hr]; subst. assert (Hr' : keys_all g1 r).
    { unfold keys_all in *. rewrite Forall_forall in *. intros g Hg. rewrite (Hr g Hg). symmetry; exact H1. }
    pose proof (columns_keys g1 r Hr') as Hk. unfold keys in Hk, H1. injection Hk as Hkv Hke. injection H1 as H1v H1e.
    simpl columns. unfold gmap, gcons; simpl. rewrite !mapk_zipk.
    destruct i as [|i]; simpl in Hi.
    + injection Hi as <-. destruct g0 as [v0 e0]; simpl in *.
      rewrite (zipk_left _ (fun a => a)), (zipk_left _ (fun a => a)); try (symmetry; etransitivity; eassumption); try (intros [] []; reflexivity).
      rewrite !mapk_id; reflexivity.
    + specialize (IH g1 i Hr' Hi). rewrite <- IH. unfold gmap; simpl.
      rewrite (zipk_right _ (tmap (fun c => nth i c d))), (zipk_right _ (tmap (fun c => nth i c d)));
        try (symmetry; etransitivity; eassumption); try (intros [] []; reflexivity). reflexivity.
Qed.

(* every column has one entry per episode *)
Definition tall {L} (P : L -> Prop) (t : tri L) : Prop := P (f1 t) /\ P (f2 t) /\ P (f3 t).
Definition gall {L} (P : L -> Prop) (g : graph L) : Prop :=
  Forall (fun nv => tall P (snd nv)) (g_v g) /\ Forall (fun ke => tall P (snd ke)) (g_e g).
Lemma Forall_mapk {K A B} (P : B -> Prop) (f : A -> B) (l : list (K * A)) :
  (forall a, P (f a)) -> Forall (fun p => P (snd p)) (mapk f l).
Proof. intros H. unfold mapk. apply Forall_forall. intros p Hp. apply in_map_iff in Hp. destruct Hp as [q [<- _]]. apply H. Qed.
Lemma Forall_zipk {K A B C} (P : B -> Prop) (Q : C -> Prop) (f : A -> B -> C) (l1 : list (K * A)) (l2 : list (K * B)) :
  (forall a b, P b -> Q (f a b)) -> Forall (fun p => P (snd p)) l2 -> Forall (fun p => Q (snd p)) (zipk f l1 l2).
Proof.
  intros H. revert l2. induction l1 as [|x l1 IH]; intros [|y l2] H2; unfold zipk; simpl; try constructor.
  - simpl. apply H. inversion H2; assumption.
  - apply IH. inversion H2; assumption.
Qed.
Lemma columns_height {L} (g0 : graph L) r : gall (fun c => length c = S (length r)) (columns g0 r).
Proof.
  revert g0. induction r as [|g1 r IH]; intros g0; simpl.
  - split; apply Forall_mapk; intros []; repeat split.
  - destruct (IH g1) as [Hv He]. split; simpl; eapply Forall_zipk; try eassumption;
      intros a b (H1 & H2 & H3); repeat split; simpl; congruence.
Qed.

(* Graph.stack succeeds exactly on a non-empty list of graphs with one dict structure *)
Theorem stack_defined gs : (exists bg, stack gs = Some bg) <-> exists g0 r, gs = g0 :: r /\ keys_all g0 r.
Proof.
  unfold stack. destruct gs as [|g0 r]; split.
  - intros [? H]; discriminate.
  - intros (? & ? & H & _); discriminate.
  - intros [bg H]. exists g0, r. split; [reflexivity|]. apply same_keys_spec. destruct (same_keys g0 r); [reflexivity|discriminate].
  - intros (g0' & r' & H & Hk). injection H as <- <-. apply same_keys_spec in Hk. rewrite Hk. eauto.
Qed.

Lemma padl_refl_pad l n : padl (l ++ repeat (-1) n) l.
Proof. exists n. reflexivity. Qed.

(* an episode extracted from a stack is the original episode, each array followed by -1 padding only *)
Theorem get_stack_padded gs bg i gi : stack gs = Some bg -> nth_error gs i = Some gi -> padded_of (get i bg) gi.
Proof.
  unfold stack. destruct gs as [|g0 r]; [discriminate|]. destruct (same_keys g0 r) eqn:Hk; [|discriminate].
  intros H Hi. injection H as <-. apply same_keys_spec in Hk.
  assert (Hlt : (i < S (length r))%nat) by (change (S (length r)) with (length (g0 :: r)); apply nth_error_Some; congruence).
  pose proof (columns_nth [] g0 r i gi Hk Hi) as Hc. pose proof (columns_height g0 r) as [Hv He].
  unfold get. rewrite gmap_gmap. rewrite <- Hc. unfold padded_of, gmap; simpl. unfold mapk.
  rewrite Forall_forall in Hv, He.
  split; apply Forall2_map_same; intros [k t] Hin; simpl; (split; [reflexivity|]);
    [specialize (Hv _ Hin)|specialize (He _ Hin)]; simpl in *;
    match goal with H : tall _ _ |- _ => destruct H as (H1 & H2 & H3) end;
    unfold tpad; destruct t as [c1 c2 c3]; simpl in *;
    rewrite (nth_stack_leaf c1), (nth_stack_leaf c2), (nth_stack_leaf c3) by (unfold arr in *; lia); repeat split; apply padl_refl_pad.
Qed.

(* keys (names of vertices, (sender, receiver) of edges) of an extracted episode are the original ones *)
Lemma padded_keys g' g : padded_of g' g -> keys g' = keys g.
Proof.
  intros [Hv He]. unfold keys. f_equal.
  - induction Hv as [|a b l' l [Hab _] _ IH]; simpl; [reflexivity|f_equal; assumption].
  - induction He as [|a b l' l [Hab _] _ IH]; simpl; [reflexivity|f_equal; assumption].
Qed.

(* len(stack(gs)) = number of stacked episodes (needs a first vertex, as the code does) *)
Theorem len_stack gs bg : stack gs = Some bg -> (forall g0, hd_error gs = Some g0 -> g_v g0 <> []) -> blen bg = length gs.
Proof.
  unfold stack. destruct gs as [|g0 r]; [discriminate|]. destruct (same_keys g0 r) eqn:Hk; [|discriminate].
  intros H Hne. injection H as <-. apply same_keys_spec in Hk. specialize (Hne g0 eq_refl).
  pose proof (columns_keys g0 r Hk) as Hkk. pose proof (columns_height g0 r) as [Hv _].
  destruct (columns g0 r) as [cv ce]. unfold blen, gmap, keys in *; simpl in *. injection Hkk as Hkv _.
  destruct cv as [|[k t] l].
  - destruct (g_v g0); [contradiction|discriminate].
  - simpl. etransitivity; [apply stack_leaf_length|]. inversion Hv as [|? ? (H1 & _) _]; subst. exact H1.
Qed.

(* ================================================================ to_networkx_graph ignores padding *)
Lemma combine_app_eq {A B} (l1 r1 : list A) (l2 r2 : list B) :
  length l1 = length l2 -> combine (l1 ++ r1) (l2 ++ r2) = combine l1 l2 ++ combine r1 r2.
Proof. revert l2. induction l1; intros [|b l2] H; try discriminate; simpl; [reflexivity|]. f_equal. apply IHl1. simpl in H. lia. Qed.
Lemma combine_repeat {A B} (a : A) (b : B) n m : combine (repeat a n) (repeat b m) = repeat (a, b) (Nat.min n m).
Proof. revert m. induction n; intros [|m]; simpl; try reflexivity. f_equal. apply IHn. Qed.
Lemma flat_map_repeat_nil {A B} (f : A -> list B) a n : f a = [] -> flat_map f (repeat a n) = [].
Proof. intros H. induction n; simpl; [reflexivity|]. rewrite H. exact IHn. Qed.

Lemma rows_pad t' t : tpad t' t -> twf t -> exists n, rows t' = rows t ++ repeat (-1, (-1, -1)) n.
Proof.
  intros ((a & Ha) & (b & Hb) & (c & Hc)) [H12 H23]. unfold rows. rewrite Ha, Hb, Hc.
  rewrite (combine_app_eq (f2 t)) by assumption. rewrite combine_repeat.
  rewrite combine_app_eq by (rewrite combine_length; lia). rewrite combine_repeat. eauto.
Qed.

Lemma nx_vertex_pad n t' t : tpad t' t -> twf t -> flat_map (nx_vertex_row n) (rows t') = flat_map (nx_vertex_row n) (rows t).
Proof. intros H W. destruct (rows_pad t' t H W) as [m ->]. rewrite flat_map_app, flat_map_repeat_nil by reflexivity. apply app_nil_r. Qed.
Lemma nx_edge_pad k t' t : tpad t' t -> twf t -> flat_map (nx_edge_row k) (rows t') = flat_map (nx_edge_row k) (rows t).
Proof. intros H W. destruct (rows_pad t' t H W) as [m ->]. rewrite flat_map_app, flat_map_repeat_nil by reflexivity. apply app_nil_r. Qed.

(* padded entries never create or alter a vertex or an edge: the very same add_node / add_edge calls are made *)
Theorem padded_nx g' g : padded_of g' g -> gwf g -> nx g' = nx g.
Proof.
  intros [Hv He] [Wv We]. unfold nx. f_equal; apply flat_map_Forall2.
  - clear He We. induction Hv as [|a b l' l [Hab Hp] _ IH]; constructor.
    + rewrite Hab. apply nx_vertex_pad; [exact Hp|]. inversion Wv; assumption.
    + apply IH. inversion Wv; assumption.
  - clear Hv Wv. induction He as [|a b l' l [Hab Hp] _ IH]; constructor.
    + rewrite Hab. apply nx_edge_pad; [exact Hp|]. inversion We; assumption.
    + apply IH. inversion We; assumption.
Qed.

(* hence the networkx graph of an episode taken out of a stack is that of the original episode *)
Theorem nx_get_stack gs bg i gi : stack gs = Some bg -> nth_error gs i = Some gi -> gwf gi -> nx (get i bg) = nx gi.
Proof. intros H Hi W. apply padded_nx; [eapply get_stack_padded; eassumption|exact W]. Qed.

(* a -1 entry by itself yields no call, wherever it stands *)
Theorem nx_skips_minus_one n a b k so si tr :
  nx_vertex_row n (-1, (a, b)) = [] /\ nx_edge_row k (-1, (si, tr)) = [] /\ nx_edge_row k (so, (-1, tr)) = [].
Proof. repeat split; unfold nx_edge_row, nx_skip_edge; simpl. rewrite orb_true_r. reflexivity. Qed.

(* what is emitted: exactly the non-padded rows, with their times, in order *)
Theorem nx_vertex_calls n x c : In c (nx_vertex_row n x) <->
  fst x <> -1 /\ (c = AddNode n (fst x) (fst (snd x)) (snd (snd x)) \/ (0 < fst x /\ c = AddEdge n (fst x - 1) n (fst x) None)).
Proof.
  unfold nx_vertex_row, nx_skip_vertex, nx_stateful. destruct (Z.eqb_spec (fst x) (-1)) as [E|E].
  - simpl. split; [contradiction|intros [H _]; contradiction].
  - destruct (Z.ltb_spec 0 (fst x)); simpl; split.
    + intros [<-|[<-|[]]]; split; auto.
    + intros [_ [->|[_ ->]]]; auto.
    + intros [<-|[]]; split; auto.
    + intros [_ [->|[? _]]]; [auto|lia].
Qed.
Theorem nx_edge_calls k x c : In c (nx_edge_row k x) <->
  fst x <> -1 /\ fst (snd x) <> -1 /\ c = AddEdge (fst k) (fst x) (snd k) (fst (snd x)) (Some (snd (snd x))).
Proof.
  unfold nx_edge_row, nx_skip_edge. destruct (Z.eqb_spec (fst x) (-1)) as [E|E]; destruct (Z.eqb_spec (fst (snd x)) (-1)) as [F|F]; simpl;
    split; try contradiction; try (intros (? & ? & _); contradiction).
  - intros [<-|[]]; auto.
  - intros (_ & _ & ->); auto.
Qed.

(* ================================================================ to_graph *)
Theorem to_graph_vertex_names {L} (ep : episode L) : map fst (g_v (to_graph ep)) = map fst ep.
Proof. unfold to_graph; simpl. apply mapk_keys. Qed.
Theorem to_graph_vertices {L} (ep : episode L) n v :
  In (n, v) (g_v (to_graph ep)) <-> exists r, In (n, r) ep /\ v = vertex_of (r_steps r).
Proof.
  unfold to_graph, mapk; simpl. rewrite in_map_iff. split.
  - intros [[k r] [H Hin]]. simpl in H. injection H as <- <-. eauto.
  - intros [r [Hin ->]]. exists (n, r). split; [reflexivity|exact Hin].
Qed.
(* edges are keyed (sender, receiver) and exist for exactly the recorded inputs, with their seq_out / seq_in / ts_recv *)
Theorem to_graph_edges {L} (ep : episode L) n1 n2 e :
  In ((n1, n2), e) (g_e (to_graph ep)) <-> exists r m, In (n2, r) ep /\ In (n1, m) (r_inputs r) /\ e = edge_of m.
Proof.
  unfold to_graph; simpl. rewrite in_flat_map. split.
  - intros [[k r] [Hin H]]. simpl in H. apply in_map_iff in H. destruct H as [[k1 m] [H Hm]]. simpl in H.
    injection H as <- <- <-. eauto.
  - intros (r & m & Hin & Hm & ->). exists (n2, r). split; [exact Hin|]. simpl. apply in_map_iff. exists (n1, m). split; [reflexivity|exact Hm].
Qed.
(* to_graph only selects leaves: it commutes with every leaf-wise map (indexing x[i], padding, stacking a column) *)
Theorem to_graph_natural {L M} (f : L -> M) (ep : episode L) : to_graph (epmap f ep) = gmap f (to_graph ep).
Proof.
  unfold to_graph, gmap, epmap; simpl. f_equal.
  - rewrite !mapk_mapk. unfold mapk. apply map_ext. intros [k [s ii ins]]. reflexivity.
  - induction ep as [|[k [s ii ins]] ep IH]; simpl; [reflexivity|]. unfold mapk in *. rewrite map_app. f_equal; [|exact IH].
    rewrite !map_map. apply map_ext. intros [k1 m]. reflexivity.
Qed.

(* ================================================================ filters *)
Lemma mem_In x l : mem x l = true <-> In x l.
Proof.
  unfold mem. rewrite existsb_exists. split.
  - intros [y [Hy E]]. apply Z.eqb_eq in E. subst. exact Hy.
  - intros H. exists x. split; [exact H|apply Z.eqb_refl].
Qed.
Lemma memp_In x l : memp x l = true <-> In x l.
Proof.
  unfold memp, pair_eqb. rewrite existsb_exists. split.
  - intros [[a b] [Hy E]]. apply andb_prop in E. destruct E as [E1 E2]. apply Z.eqb_eq in E1, E2. destruct x; simpl in *; subst. exact Hy.
  - intros H. exists x. split; [exact H|]. rewrite !Z.eqb_refl. reflexivity.
Qed.
Lemma lookup_In {A} n (l : list (Z * A)) a : lookup n l = Some a -> In (n, a) l.
Proof.
  induction l as [|[k b] l IH]; simpl; [discriminate|]. destruct (Z.eqb_spec k n) as [->|_].
  - intros H; injection H as ->; left; reflexivity.
  - intros H; right; apply IH, H.
Qed.

Lemma conns_of_nodes_spec key nodes n1 n2 :
  In (n1, n2) (conns_of_nodes key nodes) <-> exists ins c, In (n2, ins) nodes /\ In c ins /\ key c = n1 /\ In n1 (names nodes).
Proof.
  unfold conns_of_nodes. rewrite in_flat_map. split.
  - intros [[k ins] [Hn H]]. simpl in H. apply in_map_iff in H. destruct H as [c [E Hc]]. injection E as <- <-.
    apply filter_In in Hc. destruct Hc as [Hc Hm]. apply mem_In in Hm. exists ins, c. auto.
  - intros (ins & c & Hn & Hc & <- & Hm). exists (n2, ins). split; [exact Hn|]. simpl. apply in_map_iff. exists c.
    split; [reflexivity|]. apply filter_In. split; [exact Hc|apply mem_In, Hm].
Qed.
Lemma conns_sender_spec nodes n1 n2 :
  In (n1, n2) (conns_of_nodes key_sender nodes) <-> connected nodes n1 n2 /\ In n1 (names nodes).
Proof.
  rewrite conns_of_nodes_spec. unfold connected, key_sender. split.
  - intros (ins & c & H1 & H2 & H3 & H4). split; [exists ins, c|]; auto.
  - intros [(ins & c & H1 & H2 & H3) H4]. exists ins, c. auto.
Qed.
Lemma connected_receiver nodes n1 n2 : connected nodes n1 n2 -> In n2 (names nodes).
Proof. intros (ins & c & H & _). unfold names. apply in_map_iff. exists (n2, ins). auto. Qed.

(* Graph.filter keeps exactly the vertices whose name is selected — unchanged, in their order *)
Theorem graph_filter_vertices {L} key flag nodes (g : graph L) nv :
  In nv (g_v (graph_filter key flag nodes g)) <-> In nv (g_v g) /\ In (fst nv) (names nodes).
Proof. unfold graph_filter; simpl. rewrite filter_In, mem_In. reflexivity. Qed.
Theorem graph_filter_vertices_sublist {L} key flag nodes (g : graph L) :
  g_v (graph_filter key flag nodes g) = filter (fun nv => mem (fst nv) (names nodes)) (g_v g).
Proof. reflexivity. Qed.

(* filter_edges=True, looked up by the sender's name: exactly the graph's edges among selected nodes that are
   connections of the selected node objects; every kept edge keeps its arrays *)
Theorem graph_filter_edges_true {L} nodes (g : graph L) k e :
  In (k, e) (g_e (graph_filter key_sender true nodes g)) <->
  In (k, e) (g_e g) /\ In (fst k) (names nodes) /\ In (snd k) (names nodes) /\ connected nodes (fst k) (snd k).
Proof.
  unfold graph_filter, graph_conns; simpl. rewrite filter_In, memp_In. simpl. destruct k as [n1 n2]; simpl.
  rewrite conns_sender_spec. split.
  - intros (H1 & H2 & H3). repeat split; auto. eapply connected_receiver, H2.
  - intros (H1 & H2 & H3 & H4). auto.
Qed.
(* filter_edges=False: exactly the graph's edges between selected nodes *)
Theorem graph_filter_edges_false {L} key nodes (g : graph L) k e :
  In (k, e) (g_e (graph_filter key false nodes g)) <->
  In (k, e) (g_e g) /\ In (fst k) (names nodes) /\ In (snd k) (names nodes) /\ In (snd k) (map fst (g_v g)).
Proof.
  unfold graph_filter, graph_conns; simpl. rewrite filter_In, memp_In. simpl. rewrite in_flat_map. split.
  - intros (H1 & [n ins] & Hn & H). simpl in H. destruct (mem n (map fst (g_v g))) eqn:Hm; [|contradiction].
    apply filter_In in H. destruct H as [_ H]. apply andb_prop in H. destruct H as [E H2]. apply Z.eqb_eq in E. apply mem_In in H2, Hm.
    rewrite E. repeat split; auto. unfold names. apply in_map_iff. exists (n, ins). auto.
  - intros (H1 & H2 & H3 & H4). split; [exact H1|]. unfold names in H3. apply in_map_iff in H3. destruct H3 as [[n ins] [E Hn]].
    simpl in E. exists (n, ins). split; [exact Hn|]. simpl. subst n. apply mem_In in H4. rewrite H4. apply filter_In. split.
    + apply in_map_iff. exists (k, e). auto.
    + rewrite Z.eqb_refl. simpl. apply mem_In, H2.
Qed.

(* the pinned lookup by input name loses a connection made with a shadow name although both ends are selected *)
Definition shadow_nodes : nodeset := [(1, []); (2, [(7, 1)])].
Definition shadow_graph : graph arr :=
  G [(1, T3 [0; 1] [0; 16] [4; 20]); (2, T3 [0] [32] [40])] [((1, 2), T3 [0; 1] [0; 0] [8; 24])].
Theorem graph_filter_pinned_refuted : exists nodes (g : graph arr) k e,
  In (k, e) (g_e g) /\ In (fst k) (names nodes) /\ In (snd k) (names nodes) /\ connected nodes (fst k) (snd k) /\
  ~ In (k, e) (g_e (graph_filter key_pinned true nodes g)).
Proof.
  exists shadow_nodes, shadow_graph, (1, 2), (T3 [0; 1] [0; 0] [8; 24]). repeat split; simpl; auto.
  exists [(7, 1)], (7, 1). simpl. auto.
Qed.

(* without shadow names both lookups coincide *)
Lemma flat_map_ext_In {A B} (f g : A -> list B) l : (forall a, In a l -> f a = g a) -> flat_map f l = flat_map g l.
Proof. induction l; simpl; intros H; [reflexivity|]. rewrite H by (left; reflexivity). f_equal. apply IHl. intros; apply H; right; assumption. Qed.
Lemma conns_no_shadow nodes : no_shadow nodes -> conns_of_nodes key_pinned nodes = conns_of_nodes key_sender nodes.
Proof.
  intros H. unfold conns_of_nodes. apply flat_map_ext_In. intros n Hn.
  assert (H' : forall c, In c (snd n) -> fst c = snd c) by (intros c; apply H, Hn). revert H'. clear. generalize (names nodes) as ns. generalize (fst n) as x. unfold key_pinned, key_sender.
  induction (snd n) as [|c l IH]; intros x ns H; simpl; [reflexivity|].
  assert (E : fst c = snd c) by (apply H; left; reflexivity). rewrite E.
  destruct (mem (snd c) ns); simpl; [rewrite E; f_equal|]; apply IH; intros; apply H; right; assumption.
Qed.
Theorem graph_filter_no_shadow {L} flag nodes (g : graph L) :
  no_shadow nodes -> graph_filter key_pinned flag nodes g = graph_filter key_sender flag nodes g.
Proof. intros H. unfold graph_filter, graph_conns. destruct flag; [rewrite (conns_no_shadow nodes H)|]; reflexivity. Qed.
Theorem rec_filter_no_shadow {L} flag nodes (ep : episode L) :
  no_shadow nodes -> rec_filter key_pinned flag nodes ep = rec_filter key_sender flag nodes ep.
Proof. intros H. unfold rec_filter, rec_conns. destruct flag; [rewrite (conns_no_shadow nodes H)|]; reflexivity. Qed.

(* EpisodeRecord.filter *)
Lemma rec_filter_some {L} key flag nodes (ep ep' : episode L) : rec_filter key flag nodes ep = Some ep' ->
  Forall2 (fun n nr' => fst nr' = fst n /\ exists r, lookup (fst n) ep = Some r /\
                        snd nr' = rec_filter_node (rec_conns key flag nodes ep) (fst n) r) nodes ep'.
Proof.
  unfold rec_filter. generalize (rec_conns key flag nodes ep) as cs. intros cs. revert ep'.
  induction nodes as [|n nodes IH]; simpl; intros ep' H.
  - injection H as <-. constructor.
  - destruct (lookup (fst n) ep) as [r|] eqn:E; [|discriminate].
    destruct (fold_right _ _ nodes) as [l|] eqn:F; [|discriminate]. injection H as <-.
    constructor; [split; [reflexivity|exists r; auto]|apply IH; reflexivity].
Qed.
Theorem rec_filter_defined {L} key flag nodes (ep : episode L) :
  (forall n, In n (names nodes) -> exists r, lookup n ep = Some r) <-> exists ep', rec_filter key flag nodes ep = Some ep'.
Proof.
  unfold rec_filter. generalize (rec_conns key flag nodes ep) as cs. intros cs.
  induction nodes as [|n nodes IH]; simpl.
  - split; [eauto|intros _ ? []].
  - split.
    + intros H. destruct (H (fst n) (or_introl eq_refl)) as [r ->].
      destruct (proj1 IH) as [l ->]; [intros; apply H; right; assumption|]. eauto.
    + intros [ep' H] m [<-|Hm].
      * destruct (lookup (fst n) ep); [eauto|discriminate].
      * apply IH; [|exact Hm]. destruct (lookup (fst n) ep); [|discriminate]. destruct (fold_right _ _ nodes); [eauto|discriminate].
Qed.
(* the result holds exactly the selected nodes (in the order of the selection), each with its steps untouched, its
   connections cut down to the kept ones, and info.inputs cut down consistently *)
Theorem rec_filter_spec {L} key flag nodes (ep ep' : episode L) : rec_filter key flag nodes ep = Some ep' ->
  map fst ep' = names nodes /\
  forall n r', In (n, r') ep' -> exists r, In (n, r) ep /\ r_steps r' = r_steps r /\ r_info_inputs r' = map fst (r_inputs r') /\
    forall im, In im (r_inputs r') <-> In im (r_inputs r) /\ In (fst im, n) (rec_conns key flag nodes ep).
Proof.
  intros H. apply rec_filter_some in H. unfold names. set (cs := rec_conns key flag nodes ep) in *. clearbody cs. split.
  - induction H as [|a b l l' [E _] _ IH]; simpl; [reflexivity|f_equal; assumption].
  - intros n r' Hin. induction H as [|a b l l' [E (r & Hl & Hr)] _ IH]; [contradiction|].
    destruct Hin as [->|Hin]; [|apply IH, Hin]. simpl in *. subst n r'. exists r. split; [apply lookup_In, Hl|].
    simpl. split; [reflexivity|]. split; [reflexivity|]. intros im. rewrite filter_In, memp_In. reflexivity.
Qed.
Theorem rec_conns_true {L} nodes (ep : episode L) n1 n2 :
  In (n1, n2) (rec_conns key_sender true nodes ep) <-> connected nodes n1 n2 /\ In n1 (names nodes).
Proof. unfold rec_conns. apply conns_sender_spec. Qed.
Theorem rec_conns_false {L} key nodes (ep : episode L) n1 n2 :
  In (n1, n2) (rec_conns key false nodes ep) <->
  In n1 (names nodes) /\ In n2 (names nodes) /\ exists r, lookup n2 ep = Some r /\ In n1 (map fst (r_inputs r)).
Proof.
  unfold rec_conns. rewrite in_flat_map. split.
  - intros [[n ins] [Hn H]]. simpl in H. destruct (lookup n ep) as [r|] eqn:E; [|contradiction].
    apply in_map_iff in H. destruct H as [im [Eq Him]]. injection Eq as <- <-. apply filter_In in Him. destruct Him as [Him Hm].
    apply mem_In in Hm. repeat split; auto.
    + unfold names. apply in_map_iff. exists (n, ins). auto.
    + exists r. split; [exact E|]. apply in_map_iff. exists im. auto.
  - intros (H1 & H2 & r & Hl & Hi). unfold names in H2. apply in_map_iff in H2. destruct H2 as [[n ins] [E Hn]]. simpl in E. subst n.
    exists (n2, ins). split; [exact Hn|]. simpl. rewrite Hl. apply in_map_iff in Hi. destruct Hi as [im [E Him]].
    apply in_map_iff. exists im. split; [rewrite E; reflexivity|]. apply filter_In. split; [exact Him|]. rewrite E. apply mem_In, H1.
Qed.
(* the same defect in EpisodeRecord.filter(filter_connections=True) *)
Definition shadow_episode : episode arr :=
  [(1, NR (St [0; 0] [0; 1] [0; 16] [4; 20] [4; 4]) [] []);
   (2, NR (St [0] [0] [32] [40] [8]) [1] [(1, Ms [0; 1] [0; 0] [4; 20] [8; 24] [4; 4])])].
Theorem rec_filter_pinned_refuted : exists nodes (ep ep' : episode arr) n1 n2 r r' m,
  rec_filter key_pinned true nodes ep = Some ep' /\ In (n2, r) ep /\ In (n1, m) (r_inputs r) /\ In n1 (names nodes) /\
  connected nodes n1 n2 /\ In (n2, r') ep' /\ ~ In (n1, m) (r_inputs r').
Proof.
  exists shadow_nodes, shadow_episode. eexists. exists 1, 2. do 3 eexists. split; [reflexivity|]. simpl.
  split; [right; left; reflexivity|]. split; [left; reflexivity|]. split; [auto|]. split.
  - exists [(7, 1)], (7, 1). simpl. auto.
  - split; [right; left; reflexivity|]. simpl. tauto.
Qed.
