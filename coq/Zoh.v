(* C10: TrainableDist.apply_delay with zero-order hold, and its equality with the static-delay window *)
From Coq Require Import List Arith ZArith Bool Lia.
Import ListNotations.
Open Scope Z_scope.

Record ent := { e_seq : Z; e_sent : Z; e_recv : Z; e_pay : Z }.
Definition lastn {X} (n : nat) (l : list X) : list X := skipn (length l - n) l.

(* ts_recv = where(seq < 0, ts_recv, ts_sent + d) *)
Definition redelay (d : Z) (e : ent) : ent :=
  if e_seq e <? 0 then e else {| e_seq := e_seq e; e_sent := e_sent e; e_recv := e_sent e + d; e_pay := e_pay e |}.
(* argwhere(ts_recv > ts_start, size=1, fill_value=cum_window)[0,0] *)
Fixpoint first_gt (t : Z) (l : list ent) : nat :=
  match l with [] => 0%nat | e :: l => if t <? e_recv e then 0%nat else S (first_gt t l) end.
(* jax.lax.dynamic_slice: a negative start index is first wrapped numpy-style (start + len), then the start is clamped
   into [0, len - size] *)
Definition dyn_slice {X} (start : Z) (size : nat) (l : list X) : list X :=
  let start := if start <? 0 then start + Z.of_nat (length l) else start in
  let s := Z.to_nat (Z.max 0 (Z.min start (Z.of_nat (length l) - Z.of_nat size))) in firstn size (skipn s l).

Definition zoh (w : nat) (d t : Z) (input : list ent) : list ent :=
  let l := map (redelay d) input in
  let idx_max := first_gt t l in
  dyn_slice (Z.of_nat idx_max - Z.of_nat w) w l.

Lemma first_gt_app t l1 l2 : (forall e, In e l1 -> e_recv e <= t) ->
  first_gt t (l1 ++ l2) = (length l1 + first_gt t l2)%nat.
Proof.
  induction l1 as [|e l1 IH]; intros H; [reflexivity|]. simpl.
  destruct (Z.ltb_spec t (e_recv e)); [specialize (H e (or_introl eq_refl)); lia|].
  rewrite IH by (intros; apply H; now right). reflexivity.
Qed.
Lemma first_gt_all_late t l : (forall e, In e l -> t < e_recv e) -> l <> [] -> first_gt t l = 0%nat.
Proof. destruct l as [|e l]; [congruence|]. intros H _. simpl. destruct (Z.ltb_spec t (e_recv e)); [reflexivity|]. specialize (H e (or_introl eq_refl)). lia. Qed.

Lemma lastn_app_skip {X} n (a b : list X) : (n <= length b)%nat -> lastn n (a ++ b) = lastn n b.
Proof.
  intros H. unfold lastn. rewrite app_length, skipn_app.
  rewrite skipn_all2 by lia. simpl. f_equal. lia.
Qed.
Lemma lastn_length {X} n (l : list X) : (n <= length l)%nat -> length (lastn n l) = n.
Proof. intros. unfold lastn. rewrite skipn_length. lia. Qed.

(* The extended window is V ++ F: V are the entries already visible at step start under delay d (defaults and arrived
   messages), F the messages still in flight under d (they have arrived under the minimal delay). If at most `ext` are in
   flight, the zero-order hold returns exactly the last w visible entries -- which is the static-delay-d window. *)
Theorem zoh_slice_spec w ext d t (V F : list ent) :
  (length V + length F = w + ext)%nat -> (length F <= ext)%nat ->
  (forall e, In e V -> e_recv (redelay d e) <= t) ->
  (forall e, In e F -> t < e_recv (redelay d e)) ->
  zoh w d t (V ++ F) = map (redelay d) (lastn w V).
Proof.
  intros Hlen Hf Hv Hl. unfold zoh. rewrite map_app.
  assert (Hfg : first_gt t (map (redelay d) V ++ map (redelay d) F) = length V).
  { rewrite first_gt_app by (intros e He; apply in_map_iff in He; destruct He as [x [<- Hx]]; auto).
    rewrite map_length. destruct F as [|f F']; [simpl; lia|].
    rewrite first_gt_all_late; [lia| |simpl; congruence].
    intros e He. apply in_map_iff in He. destruct He as [x [<- Hx]]. auto. }
  rewrite Hfg. unfold dyn_slice. rewrite app_length, !map_length.
  destruct (Z.ltb_spec (Z.of_nat (length V) - Z.of_nat w) 0) as [Hneg|_]; [lia|].
  replace (Z.to_nat (Z.max 0 (Z.min (Z.of_nat (length V) - Z.of_nat w) (Z.of_nat (length V + length F) - Z.of_nat w))))
    with (length V - w)%nat by lia.
  rewrite skipn_app, map_length.
  replace (length V - w - length V)%nat with 0%nat by lia. simpl skipn at 2.
  rewrite firstn_app. rewrite skipn_length, map_length.
  replace (w - (length V - (length V - w)))%nat with 0%nat by lia. simpl firstn at 2. rewrite app_nil_r.
  rewrite firstn_all2 by (rewrite skipn_length, map_length; lia).
  unfold lastn. rewrite skipn_map. reflexivity.
Qed.

(* exactly `window` entries *)
Corollary zoh_exact_window_size w ext d t V F :
  (length V + length F = w + ext)%nat -> (length F <= ext)%nat ->
  (forall e, In e V -> e_recv (redelay d e) <= t) -> (forall e, In e F -> t < e_recv (redelay d e)) ->
  length (zoh w d t (V ++ F)) = w.
Proof. intros. rewrite (zoh_slice_spec w ext) by assumption. rewrite map_length. apply lastn_length. lia. Qed.

(* ---- the static-delay-d window, written from the property text: the last w entries that have arrived by the step start ---- *)
Definition visible (d t : Z) (e : ent) : bool := e_recv (redelay d e) <=? t.
Definition static_window (w : nat) (d t : Z) (input : list ent) : list ent :=
  map (redelay d) (lastn w (filter (visible d t) input)).

(* entries are ordered by their (re-delayed) arrival: defaults (arrival 0) first, then messages in send order *)
Fixpoint arrivals_sorted (d : Z) (l : list ent) : Prop :=
  match l with [] => True | e :: l' => (forall e', In e' l' -> e_recv (redelay d e) <= e_recv (redelay d e')) /\ arrivals_sorted d l' end.

Lemma sorted_split d t l : arrivals_sorted d l ->
  l = (filter (visible d t) l ++ (filter (fun e => negb (visible d t e)) l))%list /\
  (forall e, In e (filter (fun e => negb (visible d t e)) l) -> t < e_recv (redelay d e)).
Proof.
  induction l as [|e l IH]; intros Hs; [split; [reflexivity|intros e []]|].
  destruct Hs as [Hmin Hs]. destruct (IH Hs) as [E Hl]. split.
  - simpl. destruct (visible d t e) eqn:Ev; simpl; [f_equal; exact E|].
    (* e is not visible: nothing after it is visible either *)
    assert (Hnone : filter (visible d t) l = []).
    { clear E IH Hl. induction l as [|x l IHl]; [reflexivity|]. simpl.
      assert (Hx : visible d t x = false).
      { unfold visible in *. apply Z.leb_gt in Ev. apply Z.leb_gt. specialize (Hmin x (or_introl eq_refl)). lia. }
      rewrite Hx. apply IHl; [intros e' He'; apply Hmin; now right|]. destruct Hs as [_ Hs]. exact Hs. }
    rewrite Hnone in *. simpl in *. f_equal. exact E.
  - intros x Hx. apply filter_In in Hx as [_ Hx]. unfold visible in Hx. apply negb_true_iff, Z.leb_gt in Hx. exact Hx.
Qed.

(* C10 core: if at most `ext` messages are still in flight under delay d, the zero-order hold on the extended window
   returns exactly the window of the static-delay-d system, and exactly w entries *)
Theorem zoh_eq_static w ext d t (input : list ent) :
  length input = (w + ext)%nat -> arrivals_sorted d input ->
  (length (filter (fun e => negb (visible d t e)) input) <= ext)%nat ->
  zoh w d t input = static_window w d t input /\ length (zoh w d t input) = w.
Proof.
  intros Hlen Hs Hf. destruct (sorted_split d t input Hs) as [E Hl].
  set (V := filter (visible d t) input) in *. set (F := filter (fun e => negb (visible d t e)) input) in *.
  assert (HV : forall e, In e V -> e_recv (redelay d e) <= t).
  { intros e He. apply filter_In in He as [_ He]. unfold visible in He. apply Z.leb_le. exact He. }
  assert (HL : (length V + length F = w + ext)%nat) by (rewrite <- app_length, <- E; exact Hlen).
  unfold static_window. fold V. rewrite E. split.
  - apply (zoh_slice_spec w ext); assumption.
  - apply (zoh_exact_window_size w ext); assumption.
Qed.

(* too many messages in flight (bursty sender, window extension too small): the slice start goes negative, wraps to the END of
   the extended window and a message that has NOT arrived under d is handed to the step (finding F7) *)
Example zoh_overflow_refuted :
  let mk s t := {| e_seq := s; e_sent := t; e_recv := t; e_pay := s |} in
  let input := [mk 1 7; mk 2 8] in              (* window 1, ext 1: the extended window holds the sends at 7 and 8 *)
  map e_seq (zoh 1 3 9 input) = [2] /\           (* delay 3, step at 9: neither 7+3 nor 8+3 has arrived *)
  map e_seq (static_window 1 3 9 input) = [].
Proof. vm_compute. split; reflexivity. Qed.

(* skip connections: the static graph assigns a message arriving exactly at a step start to the NEXT step (strictly after), the
   zero-order hold makes it visible to this one (finding F5) *)
Example zoh_skip_tie_refuted :
  let dflt := {| e_seq := -1; e_sent := 0; e_recv := 0; e_pay := 9 |} in
  let m0 := {| e_seq := 0; e_sent := 4; e_recv := 4; e_pay := 5 |} in
  map e_seq (zoh 1 3 7 [dflt; m0]) = [0] /\      (* arrival 4 + 3 = 7 = step start: visible *)
  (7 <? e_recv (redelay 3 m0) = false) /\ (e_recv (redelay 3 m0) <? 7 = false).    (* neither before nor after: a tie *)
Proof. vm_compute. repeat split; reflexivity. Qed.

Print Assumptions zoh_slice_spec.
Print Assumptions zoh_eq_static.
