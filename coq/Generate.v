(* C12: generate_graphs -- vertex recurrence, edge assignment (carried while-loop), acyclicity *)
From Coq Require Import List Arith ZArith Bool Lia.
Import ListNotations.
Open Scope Z_scope.

(* ---- per-node scan:  ts_end = ts_start + d;  ts_next = max(ts_end, ts_prev + 1/rate);  seq = -1 beyond the horizon ---- *)
Record vtx := { v_seq : Z; v_start : Z; v_end : Z }.
Fixpoint gen_vertices (P horizon : Z) (start : Z) (i : nat) (ds : list Z) : list vtx :=
  match ds with [] => []
  | d :: ds =>
      let e := start + d in
      {| v_seq := if horizon <? e then -1 else Z.of_nat i; v_start := start; v_end := e |}
        :: gen_vertices P horizon (Z.max e (start + P)) (S i) ds
  end.

Lemma gen_vertices_nth P h : forall ds start i k v, nth_error (gen_vertices P h start i ds) k = Some v ->
  v_end v = v_start v + nth k ds 0 /\ (v_seq v = Z.of_nat (i + k) \/ v_seq v = -1) /\ (v_seq v = -1 <-> h < v_end v) /\
  (k = 0%nat -> v_start v = start).
Proof.
  induction ds as [|d ds IH]; intros start i k v H; [destruct k; discriminate|].
  destruct k as [|k]; simpl in H.
  - injection H as <-. simpl. destruct (Z.ltb_spec h (start + d)); repeat split; try lia.
  - destruct (IH _ _ _ _ H) as (A & B & C & _).
    split; [exact A|]. split; [replace (i + S k)%nat with (S i + k)%nat by lia; exact B|]. split; [exact C|lia].
Qed.

(* consecutive vertices never overlap and are at least one period apart *)
Lemma gen_vertices_step P h : forall ds start i k v v',
  nth_error (gen_vertices P h start i ds) k = Some v -> nth_error (gen_vertices P h start i ds) (S k) = Some v' ->
  v_start v' = Z.max (v_end v) (v_start v + P).
Proof.
  induction ds as [|d ds IH]; intros start i k v v' H H'; [destruct k; discriminate|].
  destruct k as [|k]; simpl in H, H'.
  - injection H as <-. simpl. destruct ds as [|d' ds]; [discriminate|]. simpl in H'. injection H' as <-. reflexivity.
  - eapply IH; eauto.
Qed.
Corollary gen_no_overlap P h ds start i k v v' : 
  nth_error (gen_vertices P h start i ds) k = Some v -> nth_error (gen_vertices P h start i ds) (S k) = Some v' ->
  v_end v <= v_start v' /\ v_start v + P <= v_start v'.
Proof. intros H H'. rewrite (gen_vertices_step _ _ _ _ _ _ _ _ H H'). lia. Qed.

(* ---- edge assignment: the carried while-loop of _scan_body_seq ---- *)
(* is_larger := ts_start[seq] >= ts_recv (> with skip);  loop while not (is_larger or last) *)
Definition larger (skip : bool) (starts : list Z) (s : nat) (recv : Z) : bool :=
  let t := nth s starts 0 in if skip then recv <? t else recv <=? t.
Fixpoint while_seq (fuel : nat) (skip : bool) (starts : list Z) (s : nat) (recv : Z) : nat :=
  match fuel with O => s
  | S fuel => if larger skip starts s recv || (length starts <=? S s)%nat then s
              else while_seq fuel skip starts (S s) recv end.
Definition assign (skip : bool) (starts : list Z) (carry : nat) (recv : Z) : nat * Z :=
  let s := while_seq (length starts) skip starts carry recv in
  (s, if larger skip starts s recv then Z.of_nat s else -1).

(* the loop returns the first index >= carry whose start is at/after the arrival, if there is one *)
Lemma while_seq_spec skip starts recv : forall fuel s,
  (length starts <= s + fuel)%nat -> (s < length starts)%nat ->
  let r := while_seq fuel skip starts s recv in
  (s <= r < length starts)%nat /\ (forall j, (s <= j < r)%nat -> larger skip starts j recv = false) /\
  (larger skip starts r recv = true \/ r = (length starts - 1)%nat).
Proof.
  induction fuel as [|fuel IH]; intros s Hf Hs; simpl.
  - lia.
  - destruct (larger skip starts s recv) eqn:El; simpl.
    + repeat split; try lia. now left.
    + destruct (Nat.leb_spec (length starts) (S s)).
      * repeat split; try lia.
      * destruct (IH (S s)) as (A & B & C); [lia|lia|]. repeat split; try lia; auto.
        intros j Hj. destruct (Nat.eq_dec j s) as [->|]; [exact El|]. apply B. lia.
Qed.

(* with arrivals that do not overtake (carry is itself not past the first fitting step) the assignment is the
   first receiver step starting at/after the arrival -- the hypothesis H_mono of the design, made explicit *)
Theorem assign_first_step skip starts carry recv :
  (carry < length starts)%nat ->
  (forall j, (j < carry)%nat -> larger skip starts j recv = false) ->     (* nothing before the carry fits *)
  let '(s, si) := assign skip starts carry recv in
  (si = -1 /\ forall j, (j < length starts)%nat -> larger skip starts j recv = false) \/
  (si = Z.of_nat s /\ larger skip starts s recv = true /\ forall j, (j < s)%nat -> larger skip starts j recv = false).
Proof.
  intros Hc Hbefore. unfold assign.
  destruct (while_seq_spec skip starts recv (length starts) carry) as (A & B & C); [lia|lia|].
  set (s := while_seq (length starts) skip starts carry recv) in *.
  destruct (larger skip starts s recv) eqn:E.
  - right. repeat split; auto. intros j Hj. destruct (le_lt_dec carry j); [apply B; lia|apply Hbefore; lia].
  - left. split; [reflexivity|]. intros j Hj. destruct C as [C|C]; [congruence|].
    destruct (le_lt_dec carry j).
    + destruct (Nat.eq_dec j s) as [->|]; [exact E|apply B; lia].
    + apply Hbefore; lia.
Qed.

(* ---- acyclicity: a potential that strictly increases along every edge of a generated graph ---- *)
Section Acyclic.
Variables (V : Type) (tstart : V -> Z) (rank : V -> Z) (edge : V -> V -> Prop).
(* what the generator guarantees for each kind of edge (stateful: period > 0; message: end <= recv <= start of the
   consumer, strictly for skipped connections; non-skip connections respect a topological rank of the node graph,
   which exists because BaseNode.phase rejects un-skipped cycles) *)
Hypothesis edge_law : forall u v, edge u v ->
  tstart u < tstart v \/ (tstart u = tstart v /\ rank u < rank v).
Inductive tc : V -> V -> Prop := tc1 u v : edge u v -> tc u v | tcS u v w : edge u v -> tc v w -> tc u w.
Lemma tc_potential u v : tc u v -> tstart u < tstart v \/ (tstart u = tstart v /\ rank u < rank v).
Proof.
  induction 1 as [u v H|u v w H _ IH]; [apply edge_law; exact H|].
  apply edge_law in H. lia.
Qed.
Theorem gen_acyclic v : ~ tc v v.
Proof. intros H. apply tc_potential in H. lia. Qed.
End Acyclic.
Print Assumptions assign_first_step.
Print Assumptions gen_acyclic.
