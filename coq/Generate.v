(* C12 model: rex/artificial.py generate_graphs / augment_graphs on the 1/64 s lattice (times are Z ticks).
   Transliteration of: the per-node timestamp scan, the edge assignment (carried while-loop), the masking of unsent /
   unreceived messages, and augmentation (existing vertices / edges reused verbatim).  Proofs live in GenerateLaws.v. *)
From Coq Require Import List Arith ZArith Bool Lia.
Import ListNotations.
Open Scope Z_scope.

Record vtx := { v_seq : Z; v_start : Z; v_end : Z }.
Record edg := { e_out : Z; e_in : Z; e_recv : Z }.

(* ---- kernels (tied to the source by Ties/GenerateTie.v) ---- *)
Definition next_start (P s e : Z) : Z := Z.max e (s + P).            (* ts_next = max(ts_end, ts_prev + 1/rate) *)
Definition mask_seq (hor e i : Z) : Z := if hor <? e then -1 else i.  (* seq = where(ts_end > ts_max, -1, i) *)
Definition fits (skip : bool) (t r : Z) : bool := if skip then r <? t else r <=? t.   (* is_larger *)
Definition ceil_div (a b : Z) : Z := - ((- a) / b).
Definition num_steps (T P : Z) : Z := ceil_div T P + 1.              (* ceil(ts_max_all * rate) + 1, rate = 64/P *)

(* ---- per-node scan ---- *)
Fixpoint gen_vertices (P hor start : Z) (i : nat) (ds : list Z) : list vtx :=
  match ds with [] => []
  | d :: ds =>
      let e := start + d in
      {| v_seq := mask_seq hor e (Z.of_nat i); v_start := start; v_end := e |}
        :: gen_vertices P hor (next_start P start e) (S i) ds
  end.

(* ---- edge assignment: the carried while-loop of _scan_body_seq; an unsent message arrives at +inf (None) ---- *)
Definition larger (skip : bool) (starts : list Z) (s : nat) (recv : option Z) : bool :=
  match recv with None => false | Some r => fits skip (nth s starts 0) r end.
Fixpoint while_seq (fuel : nat) (skip : bool) (starts : list Z) (s : nat) (recv : option Z) : nat :=
  match fuel with O => s
  | S fuel => if larger skip starts s recv || (length starts <=? S s)%nat then s
              else while_seq fuel skip starts (S s) recv end.
Definition assign (skip : bool) (starts : list Z) (carry : nat) (recv : option Z) : nat * Z :=
  let s := while_seq (length starts) skip starts carry recv in
  (s, if larger skip starts s recv then Z.of_nat s else -1).
Fixpoint scan_assign (skip : bool) (starts : list Z) (carry : nat) (recvs : list (option Z)) : list Z :=
  match recvs with [] => []
  | r :: rs => let '(s, si) := assign skip starts carry r in si :: scan_assign skip starts s rs end.

Definition list_max (l : list Z) : Z := match l with [] => -1 | x :: xs => fold_left Z.max xs x end.
Definition sent (v : vtx) : bool := negb (v_seq v =? -1).
Definition recv_of (vc : vtx * Z) : option Z := if sent (fst vc) then Some (v_end (fst vc) + snd vc) else None.
(* late = (where(seq_out == -1, inf, ts_end) > ts_max) *)
Definition late (hor : Z) (v : vtx) : bool := if sent v then hor <? v_end v else true.
Definition mk_edge (hor mx : Z) (x : vtx * Z * Z) : edg :=
  let '(v, c, clipped) := x in
  {| e_out := if late hor v then -1 else v_seq v;
     e_in := if mx <? clipped then -1 else if late hor v then -1 else clipped;
     e_recv := if sent v then v_end v + c else -1 |}.
Definition gen_edges (skip : bool) (hor : Z) (outs : list vtx) (cs : list Z) (ins : list vtx) : list edg :=
  let vc := combine outs cs in
  let cl := scan_assign skip (map v_start ins) 0 (map recv_of vc) in
  map (mk_edge hor (list_max (map v_seq ins))) (combine vc cl).

(* ---- whole graphs: association lists keyed by node id / (sender id, receiver id) ---- *)
Record nodecfg := { n_id : Z; n_P : Z; n_phase : Z; n_ds : list Z }.
Record conncfg := { c_out : Z; c_in : Z; c_skip : bool; c_cs : list Z }.
Definition vmap := list (Z * list vtx).
Definition emap := list ((Z * Z) * list edg).
Fixpoint lookupV (k : Z) (m : vmap) : option (list vtx) :=
  match m with [] => None | (k', x) :: m => if k =? k' then Some x else lookupV k m end.
Definition keq (a b : Z * Z) : bool := (fst a =? fst b) && (snd a =? snd b).
Fixpoint lookupE (k : Z * Z) (m : emap) : option (list edg) :=
  match m with [] => None | (k', x) :: m => if keq k k' then Some x else lookupE k m end.

Definition new_vertices (hor : Z) (n : nodecfg) : list vtx := gen_vertices (n_P n) hor (n_phase n) 0 (n_ds n).
Definition add_node (hor : Z) (vs : vmap) (n : nodecfg) : vmap :=
  match lookupV (n_id n) vs with Some _ => vs | None => vs ++ [(n_id n, new_vertices hor n)] end.
Definition new_edges (hor : Z) (vs : vmap) (c : conncfg) : option (list edg) :=
  match lookupV (c_out c) vs, lookupV (c_in c) vs with
  | Some outs, Some ins => Some (gen_edges (c_skip c) hor outs (c_cs c) ins)
  | _, _ => None end.      (* the code asserts both ends are present *)
Definition add_conn (hor : Z) (vs : vmap) (es : emap) (c : conncfg) : emap :=
  match lookupE (c_out c, c_in c) es with Some _ => es | None =>
    match new_edges hor vs c with Some l => es ++ [((c_out c, c_in c), l)] | None => es end end.
Definition graph := (vmap * emap)%type.
Definition augment (hor : Z) (g : graph) (nodes : list nodecfg) (conns : list conncfg) : graph :=
  let vs := fold_left (add_node hor) nodes (fst g) in
  (vs, fold_left (add_conn hor vs) conns (snd g)).
Definition generate (hor : Z) (nodes : list nodecfg) (conns : list conncfg) : graph := augment hor ([], []) nodes conns.
(* augment_graphs: the horizon is the largest ts_end stored in the existing graph (ts_max = max(0, max ts_end)) *)
Definition aug_horizon (vs : vmap) : Z :=
  fold_left (fun acc kv => fold_left (fun a v => Z.max a (v_end v)) (snd kv) acc) vs 0.
Definition augment_graphs (g : graph) (nodes : list nodecfg) (conns : list conncfg) : graph :=
  augment (aug_horizon (fst g)) g nodes conns.

(* ---- the property's edge clause as an independent specification ---- *)
(* first receiver step starting at/after (strictly after with skip) the arrival *)
Fixpoint first_fit (skip : bool) (starts : list Z) (i : nat) (r : Z) : option nat :=
  match starts with [] => None | t :: ts => if fits skip t r then Some i else first_fit skip ts (S i) r end.
Definition spec_seq_in (skip : bool) (hor : Z) (ins : list vtx) (v : vtx) (c : Z) : Z :=
  if late hor v then -1 else
  match first_fit skip (map v_start ins) 0 (v_end v + c) with
  | Some s => if v_seq (nth s ins {| v_seq := -1; v_start := 0; v_end := 0 |}) =? -1 then -1 else Z.of_nat s
  | None => -1 end.
Definition spec_edges (skip : bool) (hor : Z) (outs : list vtx) (cs : list Z) (ins : list vtx) : list Z :=
  map (fun vc => spec_seq_in skip hor ins (fst vc) (snd vc)) (combine outs cs).
