(* C19: LogWrapper episode accounting, for every reward/termination history *)
From Coq Require Import List Arith ZArith Bool Lia.
Import ListNotations.
Open Scope Z_scope.

Record logst := { ret : Z; len : Z; rret : Z; rlen : Z; tstep : Z }.
Definition log0 := {| ret := 0; len := 0; rret := 0; rlen := 0; tstep := 0 |}.
Definition b2z (b : bool) : Z := if b then 1 else 0.
(* LogWrapper.step, with done as 0/1 exactly as the code multiplies *)
Definition log_step (s : logst) (r : Z) (done : bool) : logst :=
  let d := b2z done in
  let nr := ret s + r in let nl := len s + 1 in
  {| ret := nr * (1 - d); len := nl * (1 - d);
     rret := rret s * (1 - d) + nr * d; rlen := rlen s * (1 - d) + nl * d; tstep := tstep s + 1 |}.
Definition run (h : list (Z * bool)) : logst := fold_left (fun s rd => log_step s (fst rd) (snd rd)) h log0.

(* rewards of the episode in progress: everything after the last done *)
Fixpoint current (h : list (Z * bool)) (acc : list Z) : list Z :=
  match h with [] => acc | (r, d) :: h => current h (if d then [] else acc ++ [r]) end.
Fixpoint zsum (l : list Z) : Z := match l with [] => 0 | x :: l => x + zsum l end.
Lemma zsum_app a b : zsum (a ++ b) = zsum a + zsum b. Proof. induction a; simpl; lia. Qed.

Lemma run_inv h : forall s acc, ret s = zsum acc -> len s = Z.of_nat (length acc) ->
  let s' := fold_left (fun s rd => log_step s (fst rd) (snd rd)) h s in
  ret s' = zsum (current h acc) /\ len s' = Z.of_nat (length (current h acc)).
Proof.
  induction h as [|[r d] h IH]; intros s acc H1 H2; simpl; [auto|].
  apply IH; destruct d; simpl; rewrite ?zsum_app, ?app_length; simpl; lia.
Qed.

Theorem log_running_totals h :
  ret (run h) = zsum (current h []) /\ len (run h) = Z.of_nat (length (current h [])).
Proof. apply run_inv; reflexivity. Qed.

(* at an episode end the wrapper reports exactly the sum of rewards and the number of steps since the previous end,
   and restarts the running totals *)
Theorem log_reports_at_done h r :
  let s := run (h ++ [(r, true)]) in
  rret s = zsum (current h []) + r /\ rlen s = Z.of_nat (length (current h [])) + 1 /\ ret s = 0 /\ len s = 0.
Proof.
  unfold run. rewrite fold_left_app. simpl. destruct (log_running_totals h) as [A B]. unfold run in A, B.
  rewrite A, B. repeat split; lia.
Qed.
(* and between ends the reported values do not change *)
Theorem log_reports_kept h r :
  let s := run h in let s' := run (h ++ [(r, false)]) in rret s' = rret s /\ rlen s' = rlen s.
Proof. unfold run. rewrite fold_left_app. simpl. split; lia. Qed.
Print Assumptions log_reports_at_done.
