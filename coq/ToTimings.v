(* M3, C07: rex.utils.to_timings as a function - the supergraph partitioner's monomorphism (vertex -> (partition, slot)) is turned
   into the per-slot schedule (Timings) the compiled runner executes.  Executable model; the theorems are in ToTimingsLaws.v. *)
From Coq Require Import List Arith ZArith Bool Lia.
From Rex Require Import CompiledModel.
Import ListNotations.
Open Scope Z_scope.

(* one entry of Gs_monomorphism[episode]: the vertex (kind, seq) is mapped to slot number m_slot in partition m_part *)
Record mentry := { m_kind : nat; m_seq : Z; m_part : nat; m_slot : nat }.

Definition set_slots (I : inst) (sl : list slot) : inst :=
  {| i_nodes := i_nodes I; i_conns := i_conns I; i_sup := i_sup I; i_verts := i_verts I; i_edges := i_edges I;
     i_slots := sl; i_ngen := i_ngen I; i_nparts := i_nparts I |}.

Section TT.
Variable I : inst.                   (* nodes, connections, vertices, edges, nparts, ngen are read; i_slots is not *)
Variable tmpl : list (nat * nat).    (* (kind, topological generation) of every slot of the supergraph S, in the order of Timings.slots *)
Variable M : list mentry.            (* the monomorphism, in the iteration order of the dict *)

(* "Prepare masked slot data": run = False, seq = 0, ts = 0, every window entry (-1, 0, 0) *)
Definition empty_cell (kind : nat) : cell :=
  {| c_run := false; c_seq := 0; c_start := 0; c_end := 0;
     c_wins := map (fun c => repeat (-1, 0, 0) (k_win (conn I c))) (ins_of I kind) |}.
(* "Fill in the timings": row `seq` of the vertex arrays of the SLOT's kind (numpy index: a negative index wraps) *)
Definition filled_cell (kind : nat) (k : Z) : cell :=
  let v := pynth k (verts I kind) dv in
  {| c_run := true; c_seq := v_seq v; c_start := v_start v; c_end := v_end v;
     c_wins := map (fun c => pynth k (win_model I c) []) (ins_of I kind) |}.
(* entries whose partition index is beyond the horizon are skipped; of several entries for one (slot, partition) the last assignment stays *)
Definition hits (s p : nat) (m : mentry) : bool :=
  Nat.eqb (m_slot m) s && Nat.eqb (m_part m) p && Nat.ltb (m_part m) (i_nparts I).
Definition tt_cell (s kind p : nat) : cell :=
  match find (hits s p) (rev M) with Some m => filled_cell kind (m_seq m) | None => empty_cell kind end.
Definition to_timings : list slot :=
  map (fun st => {| s_kind := fst (snd st); s_gen := snd (snd st);
                    s_cells := map (tt_cell (fst st) (fst (snd st))) (seq 0 (i_nparts I)) |})
      (combine (seq 0 (length tmpl)) tmpl).

(* ---- the contract of the partitioner (third-party `supergraph`) + template, decidable; evaluated on every instance ---- *)
Definition tkind (s : nat) : nat := fst (nth s tmpl (0%nat, 0%nat)).
Definition tgen (s : nat) : nat := snd (nth s tmpl (0%nat, 0%nat)).
Definition inh (m : mentry) : bool := Nat.ltb (m_part m) (i_nparts I).       (* inside the horizon *)
Definition MH : list mentry := filter inh M.
Definition mfind (n : nat) (k : Z) : option mentry :=
  find (fun m => Nat.eqb (m_kind m) n && (m_seq m =? k)) MH.
Definition earlier (n : nat) (k : Z) (p g : nat) : bool :=
  match mfind n k with Some m' => lex_lt (m_part m', tgen (m_slot m')) (p, g) | None => false end.
Fixpoint nodupb {X} (eqb : X -> X -> bool) (l : list X) : bool :=
  match l with [] => true | x :: l => negb (existsb (eqb x) l) && nodupb eqb l end.
Definition ps_eqb (a b : mentry) := Nat.eqb (m_slot a) (m_slot b) && Nat.eqb (m_part a) (m_part b).
Definition vx_eqb (a b : mentry) := Nat.eqb (m_kind a) (m_kind b) && (m_seq a =? m_seq b).

Definition mono_entry_ok (m : mentry) : bool :=
  let n := m_kind m in let k := m_seq m in let p := m_part m in let g := tgen (m_slot m) in
  (* the slot exists and has the vertex's kind; the vertex exists and sits at array position seq *)
  Nat.ltb (m_slot m) (length tmpl) && Nat.eqb (tkind (m_slot m)) n &&
  (0 <=? k) && (k <? Z.of_nat (length (verts I n))) && (v_seq (nth (Z.to_nat k) (verts I n) dv) =? k) &&
  forallb (fun c => k <? Z.of_nat (length (win_model I c))) (ins_of I n) &&
  (* the previous step of the node is mapped strictly earlier *)
  (if 0 <? k then earlier n (k - 1) p g else true) &&
  (* every producer named in the vertex's windows is mapped strictly earlier *)
  forallb (fun c => forallb (fun e => match e with (so, _, _) => if so <? 0 then true else earlier (k_out (conn I c)) so p g end)
                            (nth (Z.to_nat k) (win_model I c) [])) (ins_of I n) &&
  (* supervisor step k closes partition k in the last generation *)
  (if Nat.eqb n (i_sup I) then (Z.of_nat p =? k) && Nat.eqb g (i_ngen I - 1) else true).

Definition tmpl_gen_kinds : bool :=
  forallb (fun g => nodup_nat (map fst (filter (fun kg => Nat.eqb (snd kg) g) tmpl))) (seq 0 (i_ngen I)).

Definition check_mono : bool :=
  tmpl_gen_kinds && nodupb ps_eqb MH && nodupb vx_eqb MH && forallb mono_entry_ok MH.

(* ---- comparison with the Timings rex built (correspondence; negative window seqs = default entry) ---- *)
(* the contents of a cell that does not run are never used by the runner for anything the properties speak about: only the run flag is compared there *)
Definition cell_eqb (a b : cell) : bool :=
  if negb (c_run a) && negb (c_run b) then true else
  Bool.eqb (c_run a) (c_run b) && (c_seq a =? c_seq b) && (c_start a =? c_start b) && (c_end a =? c_end b) &&
  Nat.eqb (length (c_wins a)) (length (c_wins b)) &&
  forallb (fun ww => wl_eqb (canon_w (fst ww)) (canon_w (snd ww))) (combine (c_wins a) (c_wins b)).
Definition slot_eqb (a b : slot) : bool :=
  Nat.eqb (s_kind a) (s_kind b) && Nat.eqb (s_gen a) (s_gen b) && Nat.eqb (length (s_cells a)) (length (s_cells b)) &&
  forallb (fun cc => cell_eqb (fst cc) (snd cc)) (combine (s_cells a) (s_cells b)).
Definition slots_eqb (a b : list slot) : bool :=
  Nat.eqb (length a) (length b) && forallb (fun ss => slot_eqb (fst ss) (snd ss)) (combine a b).
End TT.

(* the template and the comparison for an instance exported from rex *)
Definition tmpl_of (I : inst) : list (nat * nat) := map (fun s => (s_kind s, s_gen s)) (i_slots I).
Definition to_timings_matches (I : inst) (M : list mentry) : bool :=
  slots_eqb (to_timings I (tmpl_of I) M) (i_slots I).
