(* M3, C07: laws of the to_timings model (ToTimings.v): the schedule built from a partitioner monomorphism that passes
   check_mono passes check_schedule, and exactly the mapped vertices run where they were mapped. *)
From Coq Require Import List Arith ZArith Bool Lia.
From Rex Require Import CompiledModel ScheduleSpec ToTimings.
Import ListNotations.
Open Scope Z_scope.

(* ------------------------------------------------------------------ generic list lemmas *)
Lemma nodupb_inj {X} (eqb : X -> X -> bool) (Hsym : forall x y, eqb x y = eqb y x) (l : list X) :
  nodupb eqb l = true -> forall a b, In a l -> In b l -> eqb a b = true -> a = b.
Proof.
  induction l as [|x l IH]; intros H a b Ha Hb E; [destruct Ha|].
  cbn [nodupb] in H. apply andb_true_iff in H as [H1 H2]. apply negb_true_iff in H1.
  destruct Ha as [Ha|Ha], Hb as [Hb|Hb].
  - congruence.
  - exfalso. subst x. assert (X0 : existsb (eqb a) l = true) by (apply existsb_exists; exists b; auto). congruence.
  - exfalso. subst x.
    assert (X0 : existsb (eqb b) l = true) by (apply existsb_exists; exists a; split; [auto|rewrite Hsym; auto]). congruence.
  - eapply IH; eauto.
Qed.

Lemma in_combine_seq {A} (l : list A) : forall o i a,
  In (i, a) (combine (seq o (length l)) l) <-> (o <= i)%nat /\ nth_error l (i - o) = Some a.
Proof.
  induction l as [|x l IH]; intros o i a; cbn [length seq combine In].
  - split; [tauto|]. intros [_ H]. destruct (i - o)%nat; discriminate.
  - rewrite IH. split.
    + intros [E|[H1 H2]].
      * injection E as -> ->. split; [lia|]. rewrite Nat.sub_diag. reflexivity.
      * split; [lia|]. replace (i - o)%nat with (S (i - S o)) by lia. exact H2.
    + intros [H1 H2]. destruct (Nat.eq_dec i o) as [->|Hne].
      * left. rewrite Nat.sub_diag in H2. cbn in H2. congruence.
      * right. split; [lia|]. replace (i - o)%nat with (S (i - S o)) in H2 by lia. exact H2.
Qed.

Lemma map_fst_combine_seq {A} (l : list A) : forall o, map fst (combine (seq o (length l)) l) = seq o (length l).
Proof. induction l as [|x l IH]; intros o; cbn [length seq combine map fst]; [reflexivity|]. now rewrite IH. Qed.

Lemma map_snd_combine_seq {A} (l : list A) : forall o, map snd (combine (seq o (length l)) l) = l.
Proof. induction l as [|x l IH]; intros o; cbn [length seq combine map snd]; [reflexivity|]. now rewrite IH. Qed.

Lemma nodup_fst_combine_seq {A} (l : list A) o : NoDup (map fst (combine (seq o (length l)) l)).
Proof. rewrite map_fst_combine_seq. apply seq_NoDup. Qed.

Lemma flat_map_map {A B C} (g : A -> B) (f : B -> list C) (l : list A) :
  flat_map f (map g l) = flat_map (fun a => f (g a)) l.
Proof. induction l as [|x l IH]; cbn [map flat_map]; [reflexivity|]. now rewrite IH. Qed.

Lemma NoDup_app_intro {A} (l1 l2 : list A) :
  NoDup l1 -> NoDup l2 -> (forall x, In x l1 -> In x l2 -> False) -> NoDup (l1 ++ l2).
Proof.
  induction l1 as [|x l1 IH]; intros H1 H2 Hd; [exact H2|]. cbn [app]. inversion H1 as [|x' l' Hx Hl]; subst.
  constructor.
  - intros Hin. apply in_app_or in Hin as [Hin|Hin]; [auto|]. apply (Hd x); [left; reflexivity|exact Hin].
  - apply IH; [exact Hl|exact H2|]. intros y Hy1 Hy2. apply (Hd y); [right; exact Hy1|exact Hy2].
Qed.

Lemma nodup_flat_map_tag {A B K T} (key : B -> K) (tag : A -> T) (f : A -> list B) (l : list A) :
  NoDup (map tag l) ->
  (forall a, In a l -> NoDup (map key (f a))) ->
  (forall a b x y, In a l -> In b l -> In x (f a) -> In y (f b) -> key x = key y -> tag a = tag b) ->
  NoDup (map key (flat_map f l)).
Proof.
  induction l as [|a l IH]; intros Ht Hf Hx; cbn [flat_map map]; [constructor|].
  cbn [map] in Ht. inversion Ht as [|t' l' Hta Htl]; subst.
  rewrite map_app. apply NoDup_app_intro.
  - apply Hf. left; reflexivity.
  - apply IH; [exact Htl| |].
    + intros a' Ha'. apply Hf. right; exact Ha'.
    + intros a' b' x y Ha' Hb'. apply Hx; right; assumption.
  - intros kx H1 H2. apply in_map_iff in H1 as [x [Ex Hx1]]. apply in_map_iff in H2 as [y [Ey Hy1]].
    apply in_flat_map in Hy1 as [b [Hb Hy2]].
    apply Hta. apply in_map_iff. exists b. split; [|exact Hb].
    symmetry. apply (Hx a b x y); [left; reflexivity|right; exact Hb|exact Hx1|exact Hy2|congruence].
Qed.

Lemma nth_error_map_seq {A} (f : nat -> A) (n p : nat) (c : A) :
  nth_error (map f (seq 0 n)) p = Some c <-> (p < n)%nat /\ c = f p.
Proof.
  rewrite nth_error_map. split.
  - intros H. destruct (nth_error (seq 0 n) p) as [q|] eqn:E; [|discriminate]. cbn in H. injection H as <-.
    assert (Hp : (p < length (seq 0 n))%nat) by (apply nth_error_Some; congruence).
    rewrite seq_length in Hp. split; [exact Hp|].
    apply (nth_error_nth _ _ 0%nat) in E. rewrite seq_nth in E by exact Hp. cbn in E. congruence.
  - intros [Hp ->]. rewrite (nth_error_nth' _ 0%nat) by (rewrite seq_length; exact Hp).
    rewrite seq_nth by exact Hp. reflexivity.
Qed.

Lemma pynth_nonneg {X} (k : Z) (l : list X) (d : X) : 0 <= k -> pynth k l d = nth (Z.to_nat k) l d.
Proof. intros Hk. unfold pynth. assert (E : (k <? 0) = false) by (apply Z.ltb_ge; exact Hk). now rewrite E. Qed.

Lemma wl_eqb_refl (a : list wentry) : wl_eqb a a = true.
Proof. induction a as [|[[s x] y] a IH]; cbn [wl_eqb]; [reflexivity|]. now rewrite !Z.eqb_refl, IH. Qed.

Lemma ps_eqb_sym a b : ps_eqb a b = ps_eqb b a.
Proof. unfold ps_eqb. now rewrite (Nat.eqb_sym (m_slot a)), (Nat.eqb_sym (m_part a)). Qed.
Lemma vx_eqb_sym a b : vx_eqb a b = vx_eqb b a.
Proof. unfold vx_eqb. now rewrite (Nat.eqb_sym (m_kind a)), (Z.eqb_sym (m_seq a)). Qed.

(* the run cells of one slot *)
Lemma in_cells_of_slot (s : slot) n k p g c :
  In (n, k, p, g, c) (cells_of_slot s) <->
  n = s_kind s /\ g = s_gen s /\ k = c_seq c /\ nth_error (s_cells s) p = Some c /\ c_run c = true.
Proof.
  unfold cells_of_slot. rewrite in_flat_map. split.
  - intros [[p' c'] [Hin H]]. cbn [fst snd] in H. destruct (c_run c') eqn:E; [|destruct H].
    destruct H as [H|[]]. injection H as E1 E2 E3 E4 E5. subst n k p g c.
    apply in_combine_seq in Hin as [_ Hin]. rewrite Nat.sub_0_r in Hin. auto.
  - intros (-> & -> & -> & Hn & Hr). exists (p, c). split.
    + apply in_combine_seq. split; [lia|]. rewrite Nat.sub_0_r. exact Hn.
    + cbn [fst snd]. rewrite Hr. left; reflexivity.
Qed.

Lemma nodup_keys_complete (l : list rc) : NoDup (map key_of l) -> nodup_keys l = true.
Proof.
  induction l as [|r l IH]; intros H; [reflexivity|]. destruct r as [[[[n k] p] g] c]. cbn [map] in H.
  inversion H as [|x' l' Hx Hl]; subst. cbn [nodup_keys]. rewrite (IH Hl), andb_true_r. apply negb_true_iff.
  match goal with |- existsb ?f l = false => destruct (existsb f l) eqn:E end; [|reflexivity]. exfalso. apply existsb_exists in E as [r' [Hr' Ek]].
  apply Hx. apply in_map_iff. exists r'. split; [|exact Hr']. destruct r' as [[[[n' k'] p'] g'] c'].
  unfold key_eqb in Ek. cbn [fst snd] in Ek. apply andb_true_iff in Ek as [E1 E2].
  apply Nat.eqb_eq in E1. apply Z.eqb_eq in E2. cbn [key_of]. congruence.
Qed.

Lemma find_key_unique (l : list rc) n k p g c :
  nodup_keys l = true -> In (n, k, p, g, c) l ->
  find (fun r => match r with (n', k', _, _, _) => key_eqb (n, k) (n', k') end) l = Some (n, k, p, g, c).
Proof.
  induction l as [|r l IH]; intros Hn Hin; [destruct Hin|]. destruct r as [[[[n0 k0] p0] g0] c0].
  cbn [nodup_keys] in Hn. apply andb_true_iff in Hn as [Hn1 Hn2]. apply negb_true_iff in Hn1. cbn [find].
  destruct Hin as [E|Hin].
  - injection E as -> -> -> -> ->. unfold key_eqb. cbn [fst snd]. now rewrite Nat.eqb_refl, Z.eqb_refl.
  - destruct (key_eqb (n, k) (n0, k0)) eqn:Ek; [|apply IH; assumption]. exfalso.
    assert (X0 : existsb (fun r => match r with (n', k', _, _, _) => key_eqb (n0, k0) (n', k') end) l = true).
    { apply existsb_exists. exists (n, k, p, g, c). split; [exact Hin|]. unfold key_eqb in *. cbn [fst snd] in *.
      now rewrite (Nat.eqb_sym n0), (Z.eqb_sym k0). }
    congruence.
Qed.

(* set_slots only replaces i_slots *)
Lemma verts_set_slots I sl n : verts (set_slots I sl) n = verts I n. Proof. reflexivity. Qed.
Lemma conn_set_slots I sl c : conn (set_slots I sl) c = conn I c. Proof. reflexivity. Qed.
Lemma ins_of_set_slots I sl n : ins_of (set_slots I sl) n = ins_of I n. Proof. reflexivity. Qed.
Lemma win_model_set_slots I sl c : win_model (set_slots I sl) c = win_model I c. Proof. reflexivity. Qed.
Lemma run_cells_set_slots I sl : run_cells (set_slots I sl) = flat_map cells_of_slot sl. Proof. reflexivity. Qed.

Section Laws.
Variable I : inst.
Variable tmpl : list (nat * nat).
Variable M : list mentry.
Notation TT := (to_timings I tmpl M).
Notation J := (set_slots I (to_timings I tmpl M)).

Definition mk_slot (st : nat * (nat * nat)) : slot :=
  {| s_kind := fst (snd st); s_gen := snd (snd st);
     s_cells := map (tt_cell I M (fst st) (fst (snd st))) (seq 0 (i_nparts I)) |}.
Lemma to_timings_eq : TT = map mk_slot (combine (seq 0 (length tmpl)) tmpl).
Proof. reflexivity. Qed.

Lemma nth_error_tmpl s : (s < length tmpl)%nat -> nth_error tmpl s = Some (tkind tmpl s, tgen tmpl s).
Proof. intros Hs. unfold tkind, tgen. rewrite <- surjective_pairing. apply nth_error_nth'. exact Hs. Qed.

Lemma nth_error_TT s : (s < length tmpl)%nat -> nth_error TT s = Some (mk_slot (s, (tkind tmpl s, tgen tmpl s))).
Proof.
  intros Hs. rewrite to_timings_eq, nth_error_map.
  assert (E : nth_error (combine (seq 0 (length tmpl)) tmpl) s = Some (s, (tkind tmpl s, tgen tmpl s))).
  { assert (Hin : In (s, (tkind tmpl s, tgen tmpl s)) (combine (seq 0 (length tmpl)) tmpl)).
    { apply in_combine_seq. split; [lia|]. rewrite Nat.sub_0_r. apply nth_error_tmpl, Hs. }
    destruct (nth_error (combine (seq 0 (length tmpl)) tmpl) s) as [[s' kg]|] eqn:E.
    - assert (Hin' : In (s', kg) (combine (seq 0 (length tmpl)) tmpl)) by (eapply nth_error_In; exact E).
      assert (E1 : nth_error (map fst (combine (seq 0 (length tmpl)) tmpl)) s = Some s')
        by (rewrite nth_error_map, E; reflexivity).
      rewrite map_fst_combine_seq in E1. apply (nth_error_nth _ _ 0%nat) in E1. rewrite seq_nth in E1 by exact Hs.
      cbn in E1. subst s'. apply in_combine_seq in Hin' as [_ Hin']. rewrite Nat.sub_0_r in Hin'.
      rewrite nth_error_tmpl in Hin' by exact Hs. congruence.
    - exfalso. apply nth_error_None in E. rewrite combine_length, seq_length in E. lia. }
  rewrite E. reflexivity.
Qed.

(* ------------------------------------------------------------------ 1. shape *)
Theorem to_timings_shape :
  length TT = length tmpl /\
  forall s d, (s < length tmpl)%nat ->
    s_kind (nth s TT d) = tkind tmpl s /\ s_gen (nth s TT d) = tgen tmpl s /\
    length (s_cells (nth s TT d)) = i_nparts I /\
    forall p, (p < i_nparts I)%nat -> nth p (s_cells (nth s TT d)) dcell = tt_cell I M s (tkind tmpl s) p.
Proof.
  split.
  - rewrite to_timings_eq, map_length, combine_length, seq_length. lia.
  - intros s d Hs. rewrite (nth_error_nth _ _ d (nth_error_TT s Hs)). cbn [mk_slot s_kind s_gen s_cells fst snd].
    split; [reflexivity|]. split; [reflexivity|]. split; [now rewrite map_length, seq_length|].
    intros p Hp. apply nth_error_nth. apply nth_error_map_seq. split; [exact Hp|reflexivity].
Qed.

(* ------------------------------------------------------------------ 2. mapped / unmapped cells *)
Lemma hits_iff s p m : hits I s p m = true <-> m_slot m = s /\ m_part m = p /\ inh I m = true.
Proof.
  unfold hits, inh. rewrite !andb_true_iff, !Nat.eqb_eq. tauto.
Qed.

Lemma in_MH m : In m (MH I M) <-> In m M /\ inh I m = true.
Proof. unfold MH. apply filter_In. Qed.

Theorem to_timings_mapped m kind :
  nodupb ps_eqb (MH I M) = true -> In m M -> inh I m = true -> (m_slot m < length tmpl)%nat ->
  tt_cell I M (m_slot m) kind (m_part m) = filled_cell I kind (m_seq m).
Proof.
  intros Hps Hm Hh _. unfold tt_cell. destruct (find (hits I (m_slot m) (m_part m)) (rev M)) as [m0|] eqn:E.
  - apply find_some in E as [Hin0 Hh0]. apply in_rev in Hin0. apply hits_iff in Hh0 as (E1 & E2 & E3).
    assert (E0 : m0 = m).
    { apply (nodupb_inj ps_eqb ps_eqb_sym (MH I M) Hps); [apply in_MH; auto|apply in_MH; auto|].
      unfold ps_eqb. now rewrite E1, E2, !Nat.eqb_refl. }
    now rewrite E0.
  - exfalso. assert (X0 : hits I (m_slot m) (m_part m) m = false) by (apply (find_none _ _ E); apply -> in_rev; exact Hm).
    assert (X1 : hits I (m_slot m) (m_part m) m = true) by (apply hits_iff; auto). congruence.
Qed.

Theorem to_timings_unmapped s kind p :
  (forall m, In m M -> hits I s p m = false) -> tt_cell I M s kind p = empty_cell I kind.
Proof.
  intros H. unfold tt_cell. destruct (find (hits I s p) (rev M)) as [m0|] eqn:E; [|reflexivity].
  apply find_some in E as [Hin0 Hh0]. apply in_rev in Hin0. rewrite (H m0 Hin0) in Hh0. discriminate.
Qed.

(* ------------------------------------------------------------------ the run cells of J, slot by slot *)
Lemma run_cells_J :
  run_cells J = flat_map (fun st => cells_of_slot (mk_slot st)) (combine (seq 0 (length tmpl)) tmpl).
Proof. rewrite run_cells_set_slots, to_timings_eq. apply flat_map_map. Qed.

Lemma in_combine_tmpl s kd gn :
  In (s, (kd, gn)) (combine (seq 0 (length tmpl)) tmpl) <-> nth_error tmpl s = Some (kd, gn).
Proof. rewrite in_combine_seq, Nat.sub_0_r. split; [tauto|]. intros H; split; [lia|exact H]. Qed.

Lemma in_mk_slot_cells s kd gn n k p g c :
  In (n, k, p, g, c) (cells_of_slot (mk_slot (s, (kd, gn)))) <->
  n = kd /\ g = gn /\ k = c_seq c /\ (p < i_nparts I)%nat /\ c = tt_cell I M s kd p /\ c_run c = true.
Proof. rewrite in_cells_of_slot. cbn [mk_slot s_kind s_gen s_cells fst snd]. rewrite nth_error_map_seq. tauto. Qed.

Lemma tt_cell_run_inv s kd p : c_run (tt_cell I M s kd p) = true ->
  exists m, In m (MH I M) /\ m_slot m = s /\ m_part m = p /\ tt_cell I M s kd p = filled_cell I kd (m_seq m).
Proof.
  unfold tt_cell. destruct (find (hits I s p) (rev M)) as [m0|] eqn:E; [|cbn; discriminate]. intros _.
  apply find_some in E as [Hin0 Hh0]. apply in_rev in Hin0. apply hits_iff in Hh0 as (E1 & E2 & E3).
  exists m0. split; [apply in_MH; auto|]. auto.
Qed.

Lemma c_seq_filled n k : 0 <= k -> c_seq (filled_cell I n k) = v_seq (nth (Z.to_nat k) (verts I n) dv).
Proof. intros Hk. unfold filled_cell. cbn [c_seq]. now rewrite pynth_nonneg. Qed.

Lemma in_combine_map {A B} (f : A -> B) (l : list A) a b : In (a, b) (combine l (map f l)) -> In a l /\ b = f a.
Proof.
  induction l as [|x l IH]; cbn [map combine In]; [tauto|]. intros [E|H].
  - injection E as -> <-. auto.
  - destruct (IH H) as [H1 H2]. auto.
Qed.

Definition pos_of (r : rc) : nat := match r with (_, _, p, _, _) => p end.

Section Mono.
Hypothesis Hmono : check_mono I tmpl M = true.

Lemma mono_parts : tmpl_gen_kinds I tmpl = true /\ nodupb ps_eqb (MH I M) = true /\
  nodupb vx_eqb (MH I M) = true /\ forallb (mono_entry_ok I tmpl M) (MH I M) = true.
Proof.
  pose proof Hmono as H. unfold check_mono in H. apply andb_true_iff in H as [H H4].
  apply andb_true_iff in H as [H H3]. apply andb_true_iff in H as [H1 H2]. auto.
Qed.

Lemma entry_ok m : In m (MH I M) ->
  (m_slot m < length tmpl)%nat /\ tkind tmpl (m_slot m) = m_kind m /\ 0 <= m_seq m /\
  v_seq (nth (Z.to_nat (m_seq m)) (verts I (m_kind m)) dv) = m_seq m /\
  (if 0 <? m_seq m then earlier I tmpl M (m_kind m) (m_seq m - 1) (m_part m) (tgen tmpl (m_slot m)) else true) = true /\
  forallb (fun c => forallb (fun e => match e with (so, _, _) =>
                       if so <? 0 then true
                       else earlier I tmpl M (k_out (conn I c)) so (m_part m) (tgen tmpl (m_slot m)) end)
                    (nth (Z.to_nat (m_seq m)) (win_model I c) [])) (ins_of I (m_kind m)) = true /\
  (if Nat.eqb (m_kind m) (i_sup I)
   then (Z.of_nat (m_part m) =? m_seq m) && Nat.eqb (tgen tmpl (m_slot m)) (i_ngen I - 1) else true) = true /\
  inh I m = true /\ In m M.
Proof.
  intros Hm. destruct mono_parts as (_ & _ & _ & Hall). rewrite forallb_forall in Hall. specialize (Hall m Hm).
  unfold mono_entry_ok in Hall. cbv zeta in Hall.
  apply andb_true_iff in Hall as [Hall H9]. apply andb_true_iff in Hall as [Hall H8].
  apply andb_true_iff in Hall as [Hall H7]. apply andb_true_iff in Hall as [Hall H6].
  apply andb_true_iff in Hall as [Hall H5]. apply andb_true_iff in Hall as [Hall H4].
  apply andb_true_iff in Hall as [Hall H3]. apply andb_true_iff in Hall as [H1 H2].
  apply Nat.ltb_lt in H1. apply Nat.eqb_eq in H2. apply Z.leb_le in H3. apply Z.eqb_eq in H5.
  apply in_MH in Hm as [Hm1 Hm2]. repeat (split; [assumption|]). assumption.
Qed.

Lemma key_inj m m' : In m (MH I M) -> In m' (MH I M) -> m_kind m = m_kind m' -> m_seq m = m_seq m' -> m = m'.
Proof.
  intros Hm Hm' E1 E2. destruct mono_parts as (_ & _ & Hvx & _).
  apply (nodupb_inj vx_eqb vx_eqb_sym (MH I M) Hvx); [exact Hm|exact Hm'|].
  unfold vx_eqb. now rewrite E1, E2, Nat.eqb_refl, Z.eqb_refl.
Qed.

Lemma run_cell_pos s kd gn n k p g c :
  nth_error tmpl s = Some (kd, gn) -> In (n, k, p, g, c) (cells_of_slot (mk_slot (s, (kd, gn)))) ->
  exists m, In m (MH I M) /\ m_slot m = s /\ m_part m = p /\ n = m_kind m /\ k = m_seq m /\
            g = tgen tmpl (m_slot m) /\ c = filled_cell I n k.
Proof.
  intros Hs Hin. apply in_mk_slot_cells in Hin as (En & Eg & Ek & Hp & Ec & Hr).
  rewrite Ec in Hr. destruct (tt_cell_run_inv _ _ _ Hr) as (m & Hm & E1 & E2 & E3).
  destruct (entry_ok m Hm) as (Hsl & Hkd & Hk0 & Hv & _).
  assert (Ekd : kd = m_kind m).
  { rewrite <- Hkd. unfold tkind. rewrite E1. now rewrite (nth_error_nth _ _ _ Hs). }
  assert (Egn : gn = tgen tmpl (m_slot m)).
  { unfold tgen. rewrite E1. now rewrite (nth_error_nth _ _ _ Hs). }
  assert (Ek' : k = m_seq m).
  { rewrite Ek, Ec, E3, c_seq_filled by exact Hk0. rewrite Ekd. exact Hv. }
  exists m. split; [exact Hm|]. split; [exact E1|]. split; [exact E2|]. split; [congruence|].
  split; [exact Ek'|]. split; [congruence|]. rewrite Ec, E3. congruence.
Qed.

(* ------------------------------------------------------------------ 3. exactly the mapped vertices run *)
Theorem to_timings_run_cells n k p g c :
  In (n, k, p, g, c) (run_cells J) <->
  exists m, In m (MH I M) /\ n = m_kind m /\ k = m_seq m /\ p = m_part m /\ g = tgen tmpl (m_slot m) /\
            c = filled_cell I n k.
Proof.
  rewrite run_cells_J, in_flat_map. split.
  - intros [[s [kd gn]] [Hst Hin]]. apply in_combine_tmpl in Hst.
    destruct (run_cell_pos _ _ _ _ _ _ _ _ Hst Hin) as (m & Hm & E1 & E2 & E3 & E4 & E5 & E6).
    exists m. split; [exact Hm|]. split; [exact E3|]. split; [exact E4|]. split; [now symmetry|]. split; assumption.
  - intros (m & Hm & En & Ek & Ep & Eg & Ec). subst n k p g c.
    destruct (entry_ok m Hm) as (Hsl & Hkd & Hk0 & Hv & _ & _ & _ & Hh & HinM).
    destruct mono_parts as (_ & Hps & _ & _).
    exists (m_slot m, (tkind tmpl (m_slot m), tgen tmpl (m_slot m))). split.
    + apply in_combine_tmpl, nth_error_tmpl, Hsl.
    + apply in_mk_slot_cells. rewrite Hkd. split; [reflexivity|]. split; [reflexivity|].
      split; [rewrite c_seq_filled by exact Hk0; now symmetry|].
      split; [apply Nat.ltb_lt; exact Hh|]. split; [|reflexivity].
      symmetry. apply to_timings_mapped; assumption.
Qed.

(* ------------------------------------------------------------------ no vertex is scheduled twice *)
Lemma pos_unique s kd gn s' kd' gn' x y :
  nth_error tmpl s = Some (kd, gn) -> nth_error tmpl s' = Some (kd', gn') ->
  In x (cells_of_slot (mk_slot (s, (kd, gn)))) -> In y (cells_of_slot (mk_slot (s', (kd', gn')))) ->
  key_of x = key_of y -> s = s' /\ pos_of x = pos_of y.
Proof.
  intros Hs Hs' Hx Hy Ek. destruct x as [[[[n k] p] g] c]. destruct y as [[[[n' k'] p'] g'] c'].
  destruct (run_cell_pos _ _ _ _ _ _ _ _ Hs Hx) as (m & Hm & E1 & E2 & E3 & E4 & _).
  destruct (run_cell_pos _ _ _ _ _ _ _ _ Hs' Hy) as (m' & Hm' & E1' & E2' & E3' & E4' & _).
  cbn [key_of] in Ek. injection Ek as En Ekk. assert (E0 : m = m') by (apply key_inj; congruence).
  cbn [pos_of]. subst m'. split; congruence.
Qed.

Lemma in_slot_cell (sl : slot) (pc : nat * cell) (x : rc) :
  In pc (combine (seq 0 (length (s_cells sl))) (s_cells sl)) ->
  In x (if c_run (snd pc) then [(s_kind sl, c_seq (snd pc), fst pc, s_gen sl, snd pc)] else []) ->
  In x (cells_of_slot sl) /\ pos_of x = fst pc.
Proof.
  intros Hpc Hx. split.
  - unfold cells_of_slot. apply in_flat_map. exists pc. split; [exact Hpc|exact Hx].
  - destruct (c_run (snd pc)); [|destruct Hx]. destruct Hx as [Hx|[]]. subst x. reflexivity.
Qed.

Lemma run_cells_nodup : NoDup (map key_of (run_cells J)).
Proof.
  rewrite run_cells_J. apply (nodup_flat_map_tag key_of fst).
  - apply nodup_fst_combine_seq.
  - intros [s [kd gn]] Hst. apply in_combine_tmpl in Hst. unfold cells_of_slot at 1.
    apply (nodup_flat_map_tag key_of fst).
    + apply nodup_fst_combine_seq.
    + intros [p0 c0] _. cbn [fst snd]. destruct (c_run c0); cbn [map]; [|constructor].
      constructor; [intros []|constructor].
    + intros a b x y Ha Hb Hx Hy Ek.
      destruct (in_slot_cell _ _ _ Ha Hx) as [Hx1 Hx2]. destruct (in_slot_cell _ _ _ Hb Hy) as [Hy1 Hy2].
      destruct (pos_unique _ _ _ _ _ _ _ _ Hst Hst Hx1 Hy1 Ek) as [_ E]. congruence.
  - intros [s [kd gn]] [s' [kd' gn']] x y Ha Hb Hx Hy Ek. cbn [fst].
    apply in_combine_tmpl in Ha. apply in_combine_tmpl in Hb.
    destruct (pos_unique _ _ _ _ _ _ _ _ Ha Hb Hx Hy Ek) as [E _]. exact E.
Qed.

Lemma run_cells_nodup_keys : nodup_keys (run_cells J) = true.
Proof. apply nodup_keys_complete, run_cells_nodup. Qed.

Lemma find_cell_of_mapped m : In m (MH I M) ->
  find_cell J (m_kind m) (m_seq m) = Some (m_part m, tgen tmpl (m_slot m)).
Proof.
  intros Hm. unfold find_cell.
  rewrite (find_key_unique _ _ _ (m_part m) (tgen tmpl (m_slot m)) (filled_cell I (m_kind m) (m_seq m))).
  - reflexivity.
  - apply run_cells_nodup_keys.
  - apply to_timings_run_cells. exists m. auto 10.
Qed.

Lemma earlier_find_cell n k p g : earlier I tmpl M n k p g = true ->
  match find_cell J n k with Some q => lex_lt q (p, g) | None => false end = true.
Proof.
  unfold earlier, mfind. destruct (find _ (MH I M)) as [m'|] eqn:E; [|discriminate]. intros H.
  apply find_some in E as [Hm' E]. apply andb_true_iff in E as [E1 E2].
  apply Nat.eqb_eq in E1. apply Z.eqb_eq in E2. subst n k. rewrite (find_cell_of_mapped m' Hm'). exact H.
Qed.

Lemma gen_kinds_eq g :
  map s_kind (filter (fun s => Nat.eqb (s_gen s) g) TT) = map fst (filter (fun kg => Nat.eqb (snd kg) g) tmpl).
Proof.
  assert (G : forall l : list (nat * (nat * nat)),
             map s_kind (filter (fun s => Nat.eqb (s_gen s) g) (map mk_slot l)) =
             map fst (filter (fun kg => Nat.eqb (snd kg) g) (map snd l))).
  { induction l as [|a l IH]; cbn [map filter]; [reflexivity|].
    cbn [mk_slot s_gen]. destruct (Nat.eqb (snd (snd a)) g); cbn [map]; rewrite IH; reflexivity. }
  rewrite to_timings_eq, G, map_snd_combine_seq. reflexivity.
Qed.

Lemma check_cell_mapped m : In m (MH I M) ->
  check_cell J (m_kind m, m_seq m, m_part m, tgen tmpl (m_slot m), filled_cell I (m_kind m) (m_seq m)) = true.
Proof.
  intros Hm. destruct (entry_ok m Hm) as (Hsl & Hkd & Hk0 & Hv & H7 & H8 & H9 & Hh & HinM).
  unfold check_cell. cbv zeta. rewrite !verts_set_slots, !ins_of_set_slots.
  change (i_sup J) with (i_sup I). change (i_ngen J) with (i_ngen I).
  repeat match goal with |- andb _ _ = true => apply andb_true_iff; split end.
  - apply Z.leb_le. exact Hk0.
  - rewrite Hv. apply Z.eqb_refl.
  - unfold filled_cell. cbn [c_start]. rewrite pynth_nonneg by exact Hk0. apply Z.eqb_refl.
  - unfold filled_cell. cbn [c_end]. rewrite pynth_nonneg by exact Hk0. apply Z.eqb_refl.
  - apply forallb_forall. intros [cc w] Hin. unfold filled_cell in Hin. cbn [c_wins] in Hin.
    apply in_combine_map in Hin as [_ ->]. cbn [fst snd]. rewrite win_model_set_slots.
    rewrite pynth_nonneg by exact Hk0. apply wl_eqb_refl.
  - unfold filled_cell. cbn [c_wins]. rewrite map_length. apply Nat.eqb_refl.
  - destruct (0 <? m_seq m); [|reflexivity]. apply earlier_find_cell. exact H7.
  - apply forallb_forall. intros [cc w] Hin. unfold filled_cell in Hin. cbn [c_wins] in Hin.
    apply in_combine_map in Hin as [Hcc ->]. cbn [fst snd]. rewrite conn_set_slots.
    rewrite forallb_forall in H8. specialize (H8 cc Hcc). rewrite forallb_forall in H8.
    apply forallb_forall. intros [[so a] b] He. rewrite pynth_nonneg in He by exact Hk0.
    specialize (H8 _ He). cbv beta iota in H8. destruct (so <? 0); [reflexivity|].
    apply earlier_find_cell. exact H8.
  - exact H9.
Qed.

(* ------------------------------------------------------------------ 4. MAIN *)
Theorem to_timings_valid : check_schedule J = true.
Proof.
  unfold check_schedule. apply andb_true_iff. split; [apply andb_true_iff; split|].
  - unfold check_gen_kinds. apply forallb_forall. intros g Hg.
    change (i_slots J) with TT. rewrite gen_kinds_eq.
    destruct mono_parts as (Hgk & _). unfold tmpl_gen_kinds in Hgk. rewrite forallb_forall in Hgk.
    apply Hgk. exact Hg.
  - apply run_cells_nodup_keys.
  - apply forallb_forall. intros [[[[n k] p] g] c] Hin.
    apply to_timings_run_cells in Hin as (m & Hm & En & Ek & Ep & Eg & Ec). subst n k p g c.
    apply check_cell_mapped. exact Hm.
Qed.

(* ------------------------------------------------------------------ 5. as a proposition *)
Corollary to_timings_ValidSchedule : ValidSchedule J.
Proof. apply check_schedule_sound, to_timings_valid. Qed.

End Mono.
End Laws.

(* ------------------------------------------------------------------ 6. non-vacuity *)
(* sensor (kind 0) at twice the rate of the supervisor (kind 1); one connection 0 -> 1 with window 2; 3 partitions;
   the supergraph has two sensor slots (generations 0, 1) and one supervisor slot (generation 2). *)
Definition mkv (s a b : Z) : vertex := {| v_seq := s; v_start := a; v_end := b |}.
Definition mke (o i r : Z) : edge := {| e_out := o; e_in := i; e_recv := r |}.
Definition mkm (n : nat) (k : Z) (p s : nat) : mentry := {| m_kind := n; m_seq := k; m_part := p; m_slot := s |}.
Definition exI : inst :=
  {| i_nodes := [ {| k_nid := 0 |}; {| k_nid := 1 |} ];
     i_conns := [ {| k_out := 0; k_in := 1; k_win := 2 |} ];
     i_sup := 1;
     i_verts := [ [mkv 0 0 1; mkv 1 10 11; mkv 2 20 21; mkv 3 30 31; mkv 4 40 41; mkv 5 50 51];
                  [mkv 0 15 16; mkv 1 35 36; mkv 2 55 56] ];
     i_edges := [ [mke 0 0 2; mke 1 0 12; mke 2 1 22; mke 3 1 32; mke 4 2 42; mke 5 2 52] ];
     i_slots := []; i_ngen := 3; i_nparts := 3 |}.
Definition exT : list (nat * nat) := [(0, 0); (0, 1); (1, 2)]%nat.
(* partition j: sensor 2j in slot 0, sensor 2j+1 in slot 1, supervisor j in slot 2 *)
Definition exM : list mentry :=
  [mkm 0 0 0 0; mkm 0 1 0 1; mkm 1 0 0 2; mkm 0 2 1 0; mkm 0 3 1 1; mkm 1 1 1 2; mkm 0 4 2 0; mkm 0 5 2 1; mkm 1 2 2 2].
(* sensor step 1 is mapped to partition 1, i.e. AFTER supervisor step 0 (partition 0), which has it in its window *)
Definition exM' : list mentry :=
  [mkm 0 0 0 0; mkm 1 0 0 2; mkm 0 1 1 0; mkm 0 2 1 1; mkm 1 1 1 2; mkm 0 3 2 0; mkm 0 4 2 1; mkm 1 2 2 2].

Example ex_windows : win_model exI 0 = [[(0, 1, 2); (1, 11, 12)]; [(2, 21, 22); (3, 31, 32)]; [(4, 41, 42); (5, 51, 52)]].
Proof. vm_compute. reflexivity. Qed.
Example ex_mono : check_mono exI exT exM = true.
Proof. vm_compute. reflexivity. Qed.
Example ex_schedule : check_schedule (set_slots exI (to_timings exI exT exM)) = true.
Proof. vm_compute. reflexivity. Qed.
(* the theorem applies to it (its hypothesis is satisfiable), and all 9 vertices run *)
Example ex_schedule_by_theorem : ValidSchedule (set_slots exI (to_timings exI exT exM)).
Proof. apply to_timings_ValidSchedule. exact ex_mono. Qed.
Example ex_runs : length (run_cells (set_slots exI (to_timings exI exT exM))) = 9%nat.
Proof. vm_compute. reflexivity. Qed.
Example ex_supervisor_cell :
  In (1%nat, 1, 1%nat, 2%nat, filled_cell exI 1 1) (run_cells (set_slots exI (to_timings exI exT exM))) /\
  c_wins (filled_cell exI 1 1) = [[(2, 21, 22); (3, 31, 32)]].
Proof.
  split; [|vm_compute; reflexivity]. apply (to_timings_run_cells exI exT exM ex_mono).
  exists (mkm 1 1 1 2). vm_compute. intuition.
Qed.
(* producer after consumer: rejected by the contract, and the schedule built from it is rejected by the validator *)
Example ex_bad_mono : check_mono exI exT exM' = false.
Proof. vm_compute. reflexivity. Qed.
Example ex_bad_schedule : check_schedule (set_slots exI (to_timings exI exT exM')) = false.
Proof. vm_compute. reflexivity. Qed.
(* ... although it is well-formed in every other respect: only the ordering conjuncts fail *)
Example ex_bad_only_order :
  tmpl_gen_kinds exI exT && nodupb ps_eqb (MH exI exM') && nodupb vx_eqb (MH exI exM') = true /\
  filter (fun m => negb (mono_entry_ok exI exT exM' m)) (MH exI exM') = [mkm 1 0 0 2; mkm 1 1 1 2; mkm 1 2 2 2].
Proof. vm_compute. split; reflexivity. Qed.

Print Assumptions to_timings_shape.
Print Assumptions to_timings_mapped.
Print Assumptions to_timings_unmapped.
Print Assumptions to_timings_run_cells.
Print Assumptions to_timings_valid.
Print Assumptions to_timings_ValidSchedule.
Print Assumptions ex_schedule_by_theorem.
Print Assumptions ex_supervisor_cell.
Print Assumptions ex_bad_schedule.
