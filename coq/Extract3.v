(* Extraction of the compiled-runtime model M3 (ExtrOcamlBasic only). Compiled by `./check setup`, not part of make. *)
From Coq Require Import ExtrOcamlBasic.
From Rex Require Import CompiledModel RunnerSym CheckSym Replay BufferSufficient ExportReplay ToTimings ToTimingsExtra.
Extraction Language OCaml.
Set Extraction Output Directory ".".
Extraction "cmodel.ml" Build_inst check_schedule buffer_need rollout_probe r_log win_model check_sym check_replay extra_ok sched_ok
  Build_mentry tmpl_of to_timings check_mono to_timings_matches set_slots tmpl_ok sup_covered.
