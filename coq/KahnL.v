From Coq Require Import List Arith Lia.
Import ListNotations.

(* list-backed version: no functional extensionality, states are plain data *)

Section MapI.
Context {X Y : Type}.
Fixpoint mapi_from (f : nat -> X -> Y) (i : nat) (l : list X) : list Y :=
  match l with [] => [] | x :: l => f i x :: mapi_from f (S i) l end.
Definition mapi f l := mapi_from f 0 l.
Lemma mapi_from_length f i l : length (mapi_from f i l) = length l.
Proof. revert i; induction l; simpl; intros; auto. Qed.
Lemma mapi_length f l : length (mapi f l) = length l.
Proof. apply mapi_from_length. Qed.
Lemma mapi_from_nth f i l n dx dy : n < length l ->
  nth n (mapi_from f i l) dy = f (i + n) (nth n l dx).
Proof.
  revert i n; induction l as [|x l IH]; simpl; intros i n H; [lia|].
  destruct n; [now rewrite Nat.add_0_r|]. rewrite IH by lia. f_equal. lia.
Qed.
Lemma mapi_nth f l n dx dy : n < length l -> nth n (mapi f l) dy = f n (nth n l dx).
Proof. intros; unfold mapi; now rewrite (mapi_from_nth f 0 l n dx dy). Qed.
End MapI.

Section Net.
Variables (T L : Type).
Variable dl : L.                       (* default local, never observed on well-formed states *)
Variable NA NC : nat.                  (* number of actors / channels *)
Variable reader writer : nat -> nat.   (* channel -> actor *)

Record state := { hist : list (list T); cur : list nat; loc : list L }.
Definition wf (s : state) := length (hist s) = NC /\ length (cur s) = NC /\ length (loc s) = NA.

Definition unread (s : state) (c : nat) : list T := skipn (nth c (cur s) 0) (nth c (hist s) []).

Record firing := { l' : L; cons : nat -> nat; prod : nat -> list T }.
Variable fire : nat -> L -> (nat -> list T) -> option firing.

Definition ext_le (a : nat) (u u' : nat -> list T) : Prop :=
  forall c, c < NC -> reader c = a -> exists t, u' c = u c ++ t.

Hypothesis fire_stable : forall a l u u' r, fire a l u = Some r -> ext_le a u u' -> fire a l u' = Some r.
Hypothesis fire_cons_own : forall a l u r c, fire a l u = Some r -> reader c <> a -> cons r c = 0.
Hypothesis fire_prod_own : forall a l u r c, fire a l u = Some r -> writer c <> a -> prod r c = [].

Definition apply (s : state) (a : nat) (r : firing) : state :=
  {| hist := mapi (fun c h => h ++ prod r c) (hist s);
     cur := mapi (fun c k => k + cons r c) (cur s);
     loc := mapi (fun b l => if Nat.eq_dec b a then l' r else l) (loc s) |}.

Definition step (a : nat) (s s' : state) : Prop :=
  a < NA /\ exists r, fire a (nth a (loc s) dl) (unread s) = Some r /\ s' = apply s a r.

Lemma apply_wf s a r : wf s -> wf (apply s a r).
Proof. intros (H1 & H2 & H3); repeat split; simpl; rewrite mapi_length; assumption. Qed.

Lemma skipn_app_le {X} n (l t : list X) : n <= length l -> skipn n (l ++ t) = skipn n l ++ t.
Proof. revert n; induction l as [|x l IH]; intros [|n] H; simpl in *; try lia; auto. apply IH; lia. Qed.

Lemma unread_after a b s r :
  wf s -> a <> b -> fire a (nth a (loc s) dl) (unread s) = Some r ->
  ext_le b (unread s) (unread (apply s a r)).
Proof.
  intros (Hh & Hc & Hl) Hab Ha c Hlt Hc'. unfold unread, apply; simpl.
  rewrite (mapi_nth _ (cur s) c 0 0) by lia.
  rewrite (mapi_nth _ (hist s) c [] []) by lia.
  rewrite (fire_cons_own _ _ _ _ c Ha) by congruence. rewrite Nat.add_0_r.
  destruct (le_lt_dec (nth c (cur s) 0) (length (nth c (hist s) []))) as [Hle|Hgt].
  - exists (prod r c). apply skipn_app_le; exact Hle.
  - eexists. rewrite (skipn_all2 (nth c (hist s) [])) by lia. reflexivity.
Qed.

Lemma loc_other a b s r : wf s -> b < NA -> a <> b -> nth b (loc (apply s a r)) dl = nth b (loc s) dl.
Proof.
  intros (_ & _ & Hl) Hb Hab. simpl. rewrite (mapi_nth _ (loc s) b dl dl) by lia.
  destruct (Nat.eq_dec b a); congruence.
Qed.

Theorem diamond a b s s1 s2 :
  wf s -> a <> b -> step a s s1 -> step b s s2 -> exists s3, step b s1 s3 /\ step a s2 s3.
Proof.
  intros Hwf Hab [HaN [ra [Ha ->]]] [HbN [rb [Hb ->]]].
  exists (apply (apply s a ra) b rb). split.
  - split; [exact HbN|]. exists rb. split; [|reflexivity].
    rewrite loc_other by auto. eapply fire_stable; [exact Hb|]. eapply unread_after; eauto.
  - split; [exact HaN|]. exists ra. split.
    + rewrite loc_other by auto. eapply fire_stable; [exact Ha|]. eapply unread_after; eauto.
    + destruct Hwf as (Hh & Hc & Hl). unfold apply; simpl. f_equal.
      * apply nth_ext with (d := []) (d' := []); [now rewrite !mapi_length|].
        intros c Hc'. rewrite !mapi_length in Hc'.
        rewrite !(mapi_nth _ _ c [] []) by (rewrite ?mapi_length; lia).
        destruct (Nat.eq_dec (writer c) a) as [Hw|Hw].
        -- rewrite (fire_prod_own _ _ _ _ c Hb) by congruence. now rewrite !app_nil_r.
        -- rewrite (fire_prod_own _ _ _ _ c Ha) by congruence. now rewrite !app_nil_r.
      * apply nth_ext with (d := 0) (d' := 0); [now rewrite !mapi_length|].
        intros c Hc'. rewrite !mapi_length in Hc'.
        rewrite !(mapi_nth _ _ c 0 0) by (rewrite ?mapi_length; lia). lia.
      * apply nth_ext with (d := dl) (d' := dl); [now rewrite !mapi_length|].
        intros x Hx. rewrite !mapi_length in Hx.
        rewrite !(mapi_nth _ _ x dl dl) by (rewrite ?mapi_length; lia).
        destruct (Nat.eq_dec x b), (Nat.eq_dec x a); congruence.
Qed.

Lemma step_det a s s1 s2 : step a s s1 -> step a s s2 -> s1 = s2.
Proof. intros [_ [r1 [H1 ->]]] [_ [r2 [H2 ->]]]. congruence. Qed.

(* ------------------------------------------------------------------------------------ *)
(* Kahn principle, operational form: the projection of any net execution onto one actor  *)
(* is a *solo* run of that actor on the (final) histories of its input channels.         *)
(* Laws about an actor can therefore be proved on solo runs: sequential, fixed inputs.   *)
(* ------------------------------------------------------------------------------------ *)
Definition view (h : nat -> list T) (cu : nat -> nat) : nat -> list T := fun c => skipn (cu c) (h c).

Inductive solo (a : nat) (l0 : L) (h : nat -> list T) : nat -> L -> (nat -> nat) -> (nat -> list T) -> Prop :=
| solo_O : solo a l0 h 0 l0 (fun _ => 0) (fun _ => [])
| solo_S m l cu out r : solo a l0 h m l cu out -> fire a l (view h cu) = Some r ->
    solo a l0 h (S m) (l' r) (fun c => cu c + cons r c) (fun c => out c ++ prod r c).

Definition hext (a : nat) (h h' : nat -> list T) : Prop :=
  forall c, c < NC -> reader c = a -> exists t, h' c = h c ++ t.

Lemma skipn_app_ex {X} n (l t : list X) : exists t', skipn n (l ++ t) = skipn n l ++ t'.
Proof.
  destruct (le_lt_dec n (length l)).
  - exists t. now apply skipn_app_le.
  - eexists. rewrite (skipn_all2 l) by lia. reflexivity.
Qed.

Lemma solo_ext a l0 h h' m l cu out : hext a h h' -> solo a l0 h m l cu out -> solo a l0 h' m l cu out.
Proof.
  intros He H. induction H as [|m l cu out r H IH Hf]; [constructor|].
  econstructor; [exact IH|]. eapply fire_stable; [exact Hf|].
  intros c Hc Hr. unfold view. destruct (He c Hc Hr) as [t ->]. apply skipn_app_ex.
Qed.

Definition hfun (s : state) : nat -> list T := fun c => nth c (hist s) [].

(* what "the net state s projects to a solo run of a" means *)
Definition proj (s0 s : state) (a : nat) : Prop :=
  exists m cu out, solo a (nth a (loc s0) dl) (hfun s) m (nth a (loc s) dl) cu out /\
    (forall c, c < NC -> reader c = a -> nth c (cur s) 0 = nth c (cur s0) 0 + cu c) /\
    (forall c, c < NC -> writer c = a -> nth c (hist s) [] = nth c (hist s0) [] ++ out c).

Lemma proj_init s0 a : proj s0 s0 a.
Proof.
  exists 0, (fun _ => 0), (fun _ => []). split; [constructor|]. split; intros; [lia|now rewrite app_nil_r].
Qed.

(* cursors of s0 are 0 in all our uses; keep the statement simple *)
Hypothesis fire_cons_le_dummy : True.

Lemma proj_step s0 s s' a b : wf s -> (forall c, c < NC -> nth c (cur s0) 0 = 0) ->
  proj s0 s a -> step b s s' -> proj s0 s' a.
Proof.
  intros Hwf Hc0 (m & cu & out & Hsolo & Hcur & Hout) [HbN [r [Hf ->]]].
  destruct Hwf as (Hh & Hc & Hl).
  assert (Hhist : forall c, c < NC -> hfun (apply s b r) c = hfun s c ++ prod r c).
  { intros c Hlt. unfold hfun, apply; simpl. now rewrite (mapi_nth _ (hist s) c [] []) by lia. }
  assert (Hext : hext a (hfun s) (hfun (apply s b r))).
  { intros c Hlt _. exists (prod r c). auto. }
  pose proof (solo_ext _ _ _ _ _ _ _ _ Hext Hsolo) as Hsolo'.
  destruct (Nat.eq_dec a b) as [->|Hab].
  - (* the actor itself fires: one more solo firing *)
    exists (S m), (fun c => cu c + cons r c), (fun c => out c ++ prod r c).
    assert (Hlb : nth b (loc (apply s b r)) dl = l' r).
    { simpl. rewrite (mapi_nth _ (loc s) b dl dl) by lia. destruct (Nat.eq_dec b b); congruence. }
    rewrite Hlb. split; [|split].
    + econstructor; [exact Hsolo'|]. eapply fire_stable; [exact Hf|].
      intros c Hlt Hr. unfold view, unread.
      rewrite (Hcur c Hlt Hr), (Hc0 c Hlt). simpl.
      rewrite Hhist by exact Hlt. unfold hfun. apply skipn_app_ex.
    + intros c Hlt Hr. simpl. rewrite (mapi_nth _ (cur s) c 0 0) by lia. rewrite (Hcur c Hlt Hr). lia.
    + intros c Hlt Hw. simpl. rewrite (mapi_nth _ (hist s) c [] []) by lia. rewrite (Hout c Hlt Hw). now rewrite app_assoc.
  - (* another actor fires: a's projection is unchanged, inputs only grew *)
    exists m, cu, out.
    assert (Hla : nth a (loc (apply s b r)) dl = nth a (loc s) dl).
    { simpl. destruct (lt_dec a NA) as [Ha|Ha].
      - rewrite (mapi_nth _ (loc s) a dl dl) by lia. destruct (Nat.eq_dec a b); congruence.
      - rewrite !nth_overflow; [reflexivity| lia | rewrite mapi_length; lia]. }
    rewrite Hla. split; [exact Hsolo'|]. split.
    + intros c Hlt Hr. simpl. rewrite (mapi_nth _ (cur s) c 0 0) by lia.
      rewrite (fire_cons_own _ _ _ _ c Hf) by congruence. rewrite Nat.add_0_r. auto.
    + intros c Hlt Hw. simpl. rewrite (mapi_nth _ (hist s) c [] []) by lia.
      rewrite (fire_prod_own _ _ _ _ c Hf) by congruence. rewrite app_nil_r. auto.
Qed.
End Net.
Print Assumptions proj_step.
