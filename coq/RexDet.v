(* C02: simulated-clock episodes are deterministic across schedules (model-level theorem) *)
From Coq Require Import List Arith ZArith Bool Lia.
From Rex Require Import KahnL AsyncModel2 AsyncStable ConflInv.
Import ListNotations.

Section Det.
Variable G : cfg.
Notation NCH := (NCH G). Notation NACT := (NACT G).

Definition rsteps := steps state nat (rex_step G).

Lemma rex_inv_step a s s' : rex_wf G s -> rex_step G a s s' -> rex_wf G s'.
Proof. intros Hw [_ [r [_ ->]]]. apply apply_wf. exact Hw. Qed.

Lemma rex_step_det a s s1 s2 : rex_step G a s s1 -> rex_step G a s s2 -> s1 = s2.
Proof. apply KahnL.step_det. Qed.

Lemma mapi_from_repeat_length {X Y} (f : nat -> X -> Y) i x n : length (mapi_from f i (repeat x n)) = n.
Proof. rewrite mapi_from_length. apply repeat_length. Qed.

Lemma init_wf : rex_wf G (init G).
Proof.
  unfold rex_wf, wf, init; simpl. repeat split.
  - unfold mapi. apply mapi_from_repeat_length.
  - apply repeat_length.
  - unfold mapi. apply mapi_from_repeat_length.
Qed.

(* the record columns only grow: every firing leaves l_rows / l_msgs a prefix of the new ones *)
Ltac inv_some := match goal with H : Some _ = Some _ |- _ => injection H as <- end.
Ltac crunch H :=
  repeat match type of H with
  | context [match hd_opt ?x with _ => _ end] => destruct (hd_opt x); [|discriminate H]
  | context [match ?t with TTick => _ | _ => _ end] => destruct t; try discriminate H
  | context [match heads_max _ _ _ with _ => _ end] => destruct (heads_max _ _ _); [|discriminate H]
  | context [match heads_grp _ _ _ with _ => _ end] => destruct (heads_grp _ _ _); [|discriminate H]
  | context [match take_recv ?a ?b with _ => _ end] => destruct (take_recv a b); [|discriminate H]
  | context [match take_msgs ?a ?b with _ => _ end] => destruct (take_msgs a b); [|discriminate H]
  | context [if has_future ?a ?b then _ else _] => destruct (has_future a b); [|discriminate H]
  | context [if negb (c_blocking ?c) then _ else _] => destruct (c_blocking c); simpl in H; try discriminate H
  | context [if c_blocking ?c then _ else _] => destruct (c_blocking c); simpl in H; try discriminate H
  end.

Lemma fire_local_mono a l u r : fire G a l u = Some r ->
  (exists t, l_rows (l' _ _ r) = l_rows l ++ t) /\ (exists t, l_msgs (l' _ _ r) = l_msgs l ++ t).
Proof.
  unfold fire. intros H.
  destruct (NACT <=? a)%nat; [discriminate|].
  destruct (a <? 3 * NN G)%nat.
  - destruct (a mod 3)%nat as [|[|k]].
    + unfold fire_sched in H. crunch H. inv_some. simpl. split; exists []; now rewrite app_nil_r.
    + unfold fire_shift in H. crunch H. inv_some. simpl. split; exists []; now rewrite app_nil_r.
    + unfold fire_step in H. crunch H. inv_some. simpl. split; [eexists; reflexivity|exists []; now rewrite app_nil_r].
  - destruct ((a - 3 * NN G) mod 7)%nat as [|[|[|[|[|[|k]]]]]].
    + unfold fire_ts_in in H. crunch H. inv_some. simpl. split; exists []; now rewrite app_nil_r.
    + unfold fire_msg_in in H. crunch H. inv_some. simpl. split; exists []; now rewrite app_nil_r.
    + unfold fire_zip in H. crunch H. inv_some. simpl. split; exists []; now rewrite app_nil_r.
    + unfold fire_exp_b in H. crunch H. inv_some. simpl. split; exists []; now rewrite app_nil_r.
    + unfold fire_ts_max in H. crunch H. inv_some. simpl. split; exists []; now rewrite app_nil_r.
    + unfold fire_exp_nb in H. crunch H. inv_some. simpl. split; exists []; now rewrite app_nil_r.
    + unfold fire_select in H. crunch H. inv_some. simpl. split; [exists []; now rewrite app_nil_r|eexists; reflexivity].
Qed.

Lemma loc_after a s r x : rex_wf G s ->
  nth x (loc _ _ (KahnL.apply tok local s a r)) l0 =
  if Nat.eq_dec x a then (if (x <? NACT)%nat then l' _ _ r else l0) else nth x (loc _ _ s) l0.
Proof.
  intros (_ & _ & Hl). simpl.
  destruct (Nat.ltb_spec x NACT) as [Hx|Hx].
  - rewrite (mapi_nth _ (loc _ _ s) x l0 l0) by lia. destruct (Nat.eq_dec x a); reflexivity.
  - rewrite nth_overflow by (rewrite mapi_length; lia).
    destruct (Nat.eq_dec x a); [reflexivity|]. rewrite nth_overflow by lia. reflexivity.
Qed.

Lemma rows_mono a s s' n : rex_wf G s -> rex_step G a s s' -> prefix row (rows_of s n) (rows_of s' n).
Proof.
  intros Hw [Ha [r [Hf ->]]]. unfold rows_of, prefix. rewrite loc_after by exact Hw.
  destruct (Nat.eq_dec (AStep n) a) as [<-|]; [|exists []; now rewrite app_nil_r].
  apply Nat.ltb_lt in Ha. rewrite Ha. destruct (fire_local_mono _ _ _ _ Hf) as [[t Ht] _]. exists t. exact Ht.
Qed.
Lemma msgs_mono a s s' c : rex_wf G s -> rex_step G a s s' -> prefix mrec (msgs_of G s c) (msgs_of G s' c).
Proof.
  intros Hw [Ha [r [Hf ->]]]. unfold msgs_of, prefix. rewrite loc_after by exact Hw.
  destruct (Nat.eq_dec (cact G 6 c) a) as [<-|]; [|exists []; now rewrite app_nil_r].
  apply Nat.ltb_lt in Ha. rewrite Ha. destruct (fire_local_mono _ _ _ _ Hf) as [_ [t Ht]]. exists t. exact Ht.
Qed.

Theorem sim_episode_deterministic t1 t2 :
  rsteps (init G) t1 -> rsteps (init G) t2 ->
  (forall n, prefix row (rows_of t1 n) (rows_of t2 n) \/ prefix row (rows_of t2 n) (rows_of t1 n)) /\
  (forall c, prefix mrec (msgs_of G t1 c) (msgs_of G t2 c) \/ prefix mrec (msgs_of G t2 c) (msgs_of G t1 c)).
Proof.
  intros H1 H2. split.
  - intros n.
    apply (observable_prefix_comparable state nat (rex_step G) Nat.eq_dec (rex_wf G)
             rex_inv_step rex_step_det (rex_diamond G) row (fun s => rows_of s n)
             (fun a s s' Hw Hs => rows_mono a s s' n Hw Hs) (init G) t1 t2 init_wf H1 H2).
  - intros c.
    apply (observable_prefix_comparable state nat (rex_step G) Nat.eq_dec (rex_wf G)
             rex_inv_step rex_step_det (rex_diamond G) mrec (fun s => msgs_of G s c)
             (fun a s s' Hw Hs => msgs_mono a s s' c Hw Hs) (init G) t1 t2 init_wf H1 H2).
Qed.
End Det.
Print Assumptions sim_episode_deterministic.

