(* C08 from the partitioner contract: for the schedule rex.utils.to_timings (ToTimings.v) builds, "no output is overwritten before its last scheduled reader"
   (check_sym, hence runner_dataflow) follows from check_mono /\ tmpl_ok /\ sup_covered and ring sizes >= buffer_need - for every graph and every step function. *)
From Coq Require Import List Arith ZArith Bool Lia.
From Rex Require Import CompiledModel RunnerSym CheckSym ScheduleSpec BufferSufficient ToTimings ToTimingsLaws ToTimingsExtra.
Import ListNotations.
Open Scope Z_scope.

Theorem buffer_sufficient_from_partitioner (I : inst) (tmpl : list (nat * nat)) (M : list mentry) (sizes : list Z) (n : nat) :
  let J := set_slots I (to_timings I tmpl M) in
  check_mono I tmpl M = true -> tmpl_ok I tmpl = true -> sup_covered I M = true ->
  (forall c, (c < length (i_conns J))%nat -> buffer_need J c <= size_of sizes (k_out (conn J c))) ->
  (n <= i_nparts J)%nat ->
  check_sym J sizes 0 n = true.
Proof.
  intros J Hm Ht Hs HB Hn.
  destruct (to_timings_schedule_and_extra I tmpl M Hm Ht Hs) as [Hc He].
  apply buffer_sufficient; assumption.
Qed.
Print Assumptions buffer_sufficient_from_partitioner.

Example ex_buffer_from_partitioner : check_sym (set_slots exI (to_timings exI exT exM)) [2; 1] 0 3 = true.
Proof.
  apply buffer_sufficient_from_partitioner.
  - exact ex_mono.
  - exact ex_tmpl_ok.
  - exact ex_sup_covered.
  - intros c Hc. destruct c as [|c]; [vm_compute; discriminate|]. exfalso. revert Hc. vm_compute. lia.
  - vm_compute. lia.
Qed.
