(* C03 (windows), C06 (exactly once), C13 (record rows): the step actor, via the Kahn principle *)
From Coq Require Import List Arith ZArith Bool Lia.
From Coq Require Import ZifyNat ZifyBool.
From Rex Require Import KahnL AsyncModel2 AsyncStable ConflInv RexDet AsyncLaws AsyncLaws2 AsyncLaws3.
Import ListNotations.
Ltac Zify.zify_post_hook ::= Z.div_mod_to_equations.

Section Laws4.
Variable G : cfg.
Notation NCH := (NCH G). Notation NACT := (NACT G). Notation NN := (NN G). Notation NCn := (NCn G).
Notation reader := (reader G). Notation writer := (writer G).

Lemma fire_is_step n l u r : (n < NN)%nat -> fire G (AStep n) l u = Some r -> fire_step G n l u = Some r.
Proof.
  intros Hn. unfold fire, AStep.
  destruct (Nat.leb_spec NACT (3 * n + 2)); [discriminate|].
  destruct (Nat.ltb_spec (3 * n + 2) (3 * NN)); [|lia].
  replace ((3 * n + 2) mod 3)%nat with 2%nat by lia. replace ((3 * n + 2) / 3)%nat with n by lia. auto.
Qed.

Definition linit n : local :=
  {| l_tick := 0; l_drift := 0; l_state := 1 + n_nid (node G n); l_wins := init_wins G n;
     l_prev := 0; l_j := 0; l_rows := []; l_msgs := []; l_calls := [] |}.
Lemma init_loc_step n : (n < NN)%nat -> nth (AStep n) (loc _ _ (init G)) l0 = linit n.
Proof.
  intros Hn. rewrite init_loc by (unfold AStep, AsyncModel2.NACT; lia). unfold AStep.
  destruct (Nat.ltb_spec (3 * n + 2) (3 * NN)); [|lia].
  replace ((3 * n + 2) mod 3)%nat with 2%nat by lia. replace ((3 * n + 2) / 3)%nat with n by lia. reflexivity.
Qed.

(* groups delivered to step k, one per input connection, read off the input histories *)
Definition groups_at (h : nat -> list tok) n k : option (list (list entry)) :=
  heads_grp G (ins G n) (fun c => skipn k (h c)).
Lemma heads_grp_congr cs u u' : (forall c, In c cs -> u (Grouped G c) = u' (Grouped G c)) ->
  heads_grp G cs u = heads_grp G cs u'.
Proof.
  induction cs as [|c cs IH]; simpl; intros H; [reflexivity|].
  rewrite (H c (or_introl eq_refl)), IH; [reflexivity|]. intros; apply H; now right.
Qed.

(* windows after step k (inclusive), state before step k *)
Fixpoint wins_after (h : nat -> list tok) n k : list (list entry) :=
  let prev := match k with O => init_wins G n | S k' => wins_after h n k' end in
  match groups_at h n k with
  | Some gs => map (fun wg => push_all (fst wg) (snd wg)) (combine prev gs)
  | None => prev end.
Definition wins_before (h : nat -> list tok) n k := match k with O => init_wins G n | S k' => wins_after h n k' end.

Definition out_at (st : Z) (h : nat -> list tok) n k : option Z :=
  match nth_error (h (QStart n)) k with
  | Some (TStart kk start _) => Some (probe st kk start (sort_wins G (ins G n) (wins_after h n k)))
  | _ => None end.
Fixpoint state_before (h : nat -> list tok) n k : Z :=
  match k with O => 1 + n_nid (node G n)
  | S k' => match out_at (state_before h n k') h n k' with Some a => a | None => state_before h n k' end end.

Definition row_of (h : nat -> list tok) n k : option row :=
  match nth_error (h (QStart n)) k, groups_at h n k with
  | Some (TStart kk start d), Some _ =>
      let st := state_before h n k in
      Some {| r_seq := kk; r_start := start; r_end := start + d; r_state := st;
              r_out := probe st kk start (sort_wins G (ins G n) (wins_after h n k)); r_wins := wins_after h n k |}
  | _, _ => None end.

Lemma wins_after_S h n k : wins_after h n k =
  match groups_at h n k with
  | Some gs => map (fun wg => push_all (fst wg) (snd wg)) (combine (wins_before h n k) gs)
  | None => wins_before h n k end.
Proof. destruct k; reflexivity. Qed.

Lemma solo_step n h m l cu out : (n < NN)%nat ->
  rsolo G (AStep n) (linit n) h m l cu out ->
  cu (QStart n) = m /\ (forall c, In c (ins G n) -> cu (Grouped G c) = m) /\
  l_wins l = wins_before h n m /\ l_state l = state_before h n m /\
  length (l_rows l) = m /\ length (l_calls l) = m /\
  (forall k, (k < m)%nat -> nth_error (l_rows l) k = row_of h n k) /\
  (forall k, (k < m)%nat -> nth_error (l_calls l) k = option_map r_seq (row_of h n k)) /\
  (forall c, In c (outs G n) -> length (out (MsgOut G c)) = m /\
     forall k, (k < m)%nat -> nth_error (out (MsgOut G c)) k =
       option_map (fun r => TMsgOut (r_seq r) (r_end r) (r_out r)) (row_of h n k)).
Proof.
  intros Hn H. induction H as [|m l cu out r H IH Hf].
  - repeat split; intros; try reflexivity; lia.
  - destruct IH as (IC1 & IC2 & IW & ISt & IL1 & IL2 & IR & ICa & IMo).
    apply fire_is_step in Hf; [|exact Hn]. unfold fire_step in Hf.
    unfold view in Hf at 1. rewrite IC1, hd_skipn_nth in Hf.
    destruct (nth_error (h (QStart n)) m) as [t|] eqn:E; [|discriminate]. destruct t; try discriminate.
    assert (HGm : heads_grp G (ins G n) (view tok h cu) = groups_at h n m).
    { unfold groups_at. apply heads_grp_congr. intros c Hc. unfold view. now rewrite (IC2 c Hc). }
    rewrite HGm in Hf. destruct (groups_at h n m) as [gs|] eqn:EG; [|discriminate].
    injection Hf as <-. cbn [KahnL.l' KahnL.cons KahnL.prod l_wins l_state l_rows l_calls].
    assert (HW : map (fun wg => push_all (fst wg) (snd wg)) (combine (l_wins l) gs) = wins_after h n m).
    { rewrite wins_after_S, EG, IW. reflexivity. }
    rewrite HW.
    assert (Hrow : row_of h n m = Some {| r_seq := k; r_start := start; r_end := start + d; r_state := l_state l;
                     r_out := probe (l_state l) k start (sort_wins G (ins G n) (wins_after h n m)); r_wins := wins_after h n m |}).
    { unfold row_of. rewrite E, EG, <- ISt. reflexivity. }
    split; [rewrite put_eq; lia|].
    split. { intros c Hc. rewrite put_ne by (unfold Grouped, cch, QStart; lia).
             rewrite put_all_in by (apply in_map; exact Hc). rewrite (IC2 c Hc). lia. }
    split; [reflexivity|].
    split. { simpl. unfold out_at. rewrite E, <- ISt. reflexivity. }
    split; [rewrite app_length; simpl; lia|]. split; [rewrite app_length; simpl; lia|]. split; [|split].
    + intros k0 Hk0. destruct (Nat.eq_dec k0 m) as [->|Hne].
      * rewrite nth_error_app2 by lia. rewrite IL1, Nat.sub_diag. simpl. now rewrite Hrow.
      * rewrite nth_error_app1 by lia. apply IR. lia.
    + intros k0 Hk0. destruct (Nat.eq_dec k0 m) as [->|Hne].
      * rewrite nth_error_app2 by lia. rewrite IL2, Nat.sub_diag. simpl. now rewrite Hrow.
      * rewrite nth_error_app1 by lia. apply ICa. lia.
    + intros c Hc. destruct (IMo c Hc) as [IMl IMn].
      rewrite put_ne by (unfold MsgOut, cch, QTick; lia). rewrite put_all_in by (apply in_map; exact Hc).
      split; [rewrite app_length; simpl; lia|].
      intros k0 Hk0. destruct (Nat.eq_dec k0 m) as [->|Hne].
      * rewrite nth_error_app2 by lia. rewrite IMl, Nat.sub_diag. simpl. now rewrite Hrow.
      * rewrite nth_error_app1 by lia. apply IMn. lia.
Qed.

(* ---- lifted to the net ---- *)
Theorem rows_law s n k : reach G s -> (n < NN)%nat -> (k < length (rows_of s n))%nat ->
  nth_error (rows_of s n) k = row_of (hfun tok local s) n k.
Proof.
  intros Hr Hn Hk.
  destruct (reach_proj G s (AStep n) Hr) as (m & cu & out & Hsolo & _ & _).
  rewrite init_loc_step in Hsolo by exact Hn.
  destruct (solo_step n _ m _ _ _ Hn Hsolo) as (_ & _ & _ & _ & L1 & _ & R & _ & _).
  unfold rows_of in *. apply R. lia.
Qed.

(* C06, asynchronous half: the ghost log of applications of the step function has exactly one entry per recorded
   row, carrying that row's sequence number, and row k is tick k *)
Theorem async_once s n : reach G s -> (n < NN)%nat ->
  l_calls (nth (AStep n) (loc _ _ s) l0) = map r_seq (rows_of s n) /\
  forall k r, nth_error (rows_of s n) k = Some r -> r_seq r = k.
Proof.
  intros Hr Hn.
  destruct (reach_proj G s (AStep n) Hr) as (m & cu & out & Hsolo & _ & _).
  rewrite init_loc_step in Hsolo by exact Hn.
  destruct (solo_step n _ m _ _ _ Hn Hsolo) as (_ & _ & _ & _ & L1 & L2 & R & Ca & _).
  unfold rows_of. split.
  - apply nth_ext with (d := 0%nat) (d' := 0%nat); [now rewrite map_length, L1, L2|].
    intros k Hk. rewrite L2 in Hk.
    assert (H1 := Ca k Hk). assert (H2 := R k Hk).
    rewrite (nth_error_nth' _ 0%nat) in H1 by lia.
    destruct (row_of (hfun tok local s) n k) as [r|] eqn:Er; simpl in H1; [|discriminate].
    injection H1 as ->.
    symmetry. apply nth_error_nth. apply map_nth_error. exact H2.
  - intros k r Hk.
    assert (Hlt : (k < m)%nat) by (rewrite <- L1; apply nth_error_Some; congruence).
    rewrite (R k Hlt) in Hk. unfold row_of in Hk.
    destruct (nth_error (hfun tok local s (QStart n)) k) as [t|] eqn:E; [|discriminate]. destruct t; try discriminate.
    destruct (groups_at (hfun tok local s) n k); [|discriminate]. injection Hk as <-. simpl.
    destruct (start_recurrence G s n k _ _ _ Hr Hn E) as (_ & _ & -> & _). reflexivity.
Qed.

(* C13, asynchronous half: the state recorded before step k+1 is the output/state returned by step k *)
Theorem record_state_chain s n k r r' : reach G s -> (n < NN)%nat ->
  nth_error (rows_of s n) k = Some r -> nth_error (rows_of s n) (S k) = Some r' -> r_state r' = r_out r.
Proof.
  intros Hr Hn H1 H2.
  assert (L1 : (k < length (rows_of s n))%nat) by (apply nth_error_Some; congruence).
  assert (L2 : (S k < length (rows_of s n))%nat) by (apply nth_error_Some; congruence).
  rewrite (rows_law s n k Hr Hn L1) in H1. rewrite (rows_law s n (S k) Hr Hn L2) in H2.
  unfold row_of in *.
  destruct (nth_error (hfun tok local s (QStart n)) k) as [t|] eqn:E1; [|discriminate]. destruct t; try discriminate.
  destruct (groups_at (hfun tok local s) n k); [|discriminate].
  destruct (nth_error (hfun tok local s (QStart n)) (S k)) as [t|] eqn:E2; [|discriminate]. destruct t; try discriminate.
  destruct (groups_at (hfun tok local s) n (S k)); [|discriminate].
  injection H1 as <-. injection H2 as <-. simpl. unfold out_at. rewrite E1. reflexivity.
Qed.
End Laws4.
Print Assumptions async_once.
Print Assumptions record_state_chain.
