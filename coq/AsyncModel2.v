(* M1: the simulated-clock asynchronous runtime as a Kahn net (executable model, no proofs here) *)
From Coq Require Import List Arith ZArith Bool Lia.
From Rex Require Import KahnL.
Import ListNotations.
Open Scope Z_scope.

(* ---------- configuration ---------- *)
Record node_cfg := { n_period : Z; n_phase : Z; n_advance : bool; n_freq : bool;
                     n_delays : list Z; n_nid : Z }.
Record conn_cfg := { c_out : nat; c_in : nat; c_blocking : bool; c_skip : bool; c_buffer : bool;
                     c_window : nat; c_phase : Z; c_delays : list Z }.
Record cfg := { nodes : list node_cfg; conns : list conn_cfg }.

Definition dnode := {| n_period := 1; n_phase := 0; n_advance := false; n_freq := true; n_delays := [0]; n_nid := 0 |}.
Definition dconn := {| c_out := 0; c_in := 0; c_blocking := false; c_skip := false; c_buffer := false;
                       c_window := 1; c_phase := 0; c_delays := [0] |}.

Section Model.
Variable G : cfg.
Definition NN := length (nodes G).
Definition NCn := length (conns G).
Definition node (n : nat) := nth n (nodes G) dnode.
Definition conn (c : nat) := nth c (conns G) dconn.

Definition stream (l : list Z) (k : nat) : Z :=
  match l with [] => 0 | _ => nth (k mod length l)%nat l 0 end.

Fixpoint idxs_from (i : nat) (l : list conn_cfg) (p : conn_cfg -> bool) : list nat :=
  match l with [] => [] | x :: l => (if p x then [i] else []) ++ idxs_from (S i) l p end.
Definition ins (n : nat) : list nat := idxs_from 0 (conns G) (fun c => Nat.eqb (c_in c) n).
Definition outs (n : nat) : list nat := idxs_from 0 (conns G) (fun c => Nat.eqb (c_out c) n).

(* ---------- tokens, channels, actors ---------- *)
Definition entry := (Z * Z * Z * Z)%type.   (* seq, sent, recv, payload *)
Inductive tok :=
| TTick | TSched (k : nat) (s : Z) | TEnd (e : Z) | TStart (k : nat) (start d : Z)
| TTsOut (k : nat) (out : Z) | TMsgOut (k : nat) (sent pay : Z) | TDelay (d : Z)
| TTsIn (k : nat) (r : Z) | TMsg (k : nat) (sent recv pay : Z)
| TCnt (c : nat) | TSel (t : Z) (c : nat) | TMax (m : Z) | TGrp (g : list entry).

(* constant-stride encodings: every decode is linear arithmetic (div/mod by literals) *)
Definition QTick n := (4 * n + 0)%nat.
Definition QSched n := (4 * n + 1)%nat.
Definition QEndPrev n := (4 * n + 2)%nat.
Definition QStart n := (4 * n + 3)%nat.
Definition cch (k c : nat) := (4 * NN + 11 * c + k)%nat.
Definition TsOut := cch 0. Definition MsgOut := cch 1. Definition TsIn := cch 2.
Definition ZipD := cch 3. Definition ZipM := cch 4. Definition Msgs := cch 5.
Definition Next := cch 6. Definition ExpMax := cch 7. Definition ExpSel := cch 8.
Definition TsMax := cch 9. Definition Grouped := cch 10.
Definition NCH := (4 * NN + 11 * NCn)%nat.

(* actors: node kinds 0..2 (sched, shift, step), conn kinds 0..6 *)
Definition ASched n := (3 * n + 0)%nat.
Definition AShift n := (3 * n + 1)%nat.
Definition AStep n := (3 * n + 2)%nat.
Definition cact (k c : nat) := (3 * NN + 7 * c + k)%nat.
Definition NACT := (3 * NN + 7 * NCn)%nat.

Record row := { r_seq : nat; r_start : Z; r_end : Z; r_state : Z; r_out : Z; r_wins : list (list entry) }.
Record mrec := { m_out : nat; m_in : nat; m_sent : Z; m_recv : Z }.

Record local := { l_tick : nat; l_drift : Z; l_state : Z; l_wins : list (list entry);
                  l_prev : Z; l_j : nat; l_rows : list row; l_msgs : list mrec; l_calls : list nat }.
Definition l0 := {| l_tick := 0; l_drift := 0; l_state := 0; l_wins := []; l_prev := 0; l_j := 0;
                    l_rows := []; l_msgs := []; l_calls := [] |}.

Definition firing := KahnL.firing tok local.

Definition none_c : nat -> nat := fun _ => 0%nat.
Definition none_p : nat -> list tok := fun _ => [].
Definition put {X} (c : nat) (v : X) (f : nat -> X) : nat -> X := fun x => if Nat.eqb x c then v else f x.
Definition put_all {X} (cs : list nat) (v : X) (f : nat -> X) : nat -> X :=
  fun x => if existsb (Nat.eqb x) cs then v else f x.

Definition hd_opt (l : list tok) := match l with [] => None | x :: _ => Some x end.

(* ---------- probe step function (instance used for execution) ---------- *)
Definition MODP := 32749.
Fixpoint win_sum (j : Z) (w : list entry) : Z :=
  match w with [] => 0
  | (s, sent, recv, pay) :: w => (j + 2) * pay + 13 * Z.max s (-1) + 17 * recv + 19 * sent + win_sum (j + 1) w end.
Definition probe (state : Z) (seq : nat) (ts : Z) (wins : list (list entry)) : Z :=
  (7 * state + 3 * Z.of_nat seq + 5 * ts + fold_right (fun w acc => win_sum 0 w + acc) 0 wins) mod MODP.

(* ---------- node actors ---------- *)
Definition fire_sched (n : nat) (l : local) (u : nat -> list tok) : option firing :=
  match hd_opt (u (QTick n)) with
  | Some TTick =>
      let k := l_tick l in
      let s := Z.of_nat k * n_period (node n) + n_phase (node n) in
      let bl := filter (fun c => c_blocking (conn c)) (ins n) in
      Some {| l' := {| l_tick := S k; l_drift := l_drift l; l_state := l_state l; l_wins := l_wins l; l_prev := l_prev l;
                        l_j := l_j l; l_rows := l_rows l; l_msgs := l_msgs l; l_calls := l_calls l |};
              cons := put (QTick n) 1%nat none_c;
              prod := put (QSched n) [TSched k s] (put_all (map Next bl) [TSched k s] none_p) |}
  | _ => None end.

Fixpoint heads_max (cs : list nat) (u : nat -> list tok) : option Z :=
  match cs with [] => Some 0
  | c :: cs => match hd_opt (u (TsMax c)), heads_max cs u with
               | Some (TMax m), Some r => Some (Z.max m r) | _, _ => None end end.

Definition fire_shift (n : nat) (l : local) (u : nat -> list tok) : option firing :=
  let bl := filter (fun c => c_blocking (conn c)) (ins n) in
  let nb := filter (fun c => negb (c_blocking (conn c))) (ins n) in
  match hd_opt (u (QSched n)), hd_opt (u (QEndPrev n)), heads_max bl u with
  | Some (TSched k s), Some (TEnd e), Some M =>
      let only_b := n_advance (node n) && forallb (fun c => c_blocking (conn c)) (ins n) in
      let pi := M - s in let pl := e - s in let ps := l_drift l in
      let ph := if only_b then Z.max pi pl else Z.max (Z.max pi pl) ps in
      let drift' := if n_freq (node n) then ps + Z.max 0 (pl - ps) else 0 in
      let start := s + ph in let d := stream (n_delays (node n)) k in let out := start + d in
      Some {| l' := {| l_tick := l_tick l; l_drift := drift'; l_state := l_state l; l_wins := l_wins l; l_prev := l_prev l;
                        l_j := l_j l; l_rows := l_rows l; l_msgs := l_msgs l; l_calls := l_calls l |};
              cons := put (QSched n) 1%nat (put (QEndPrev n) 1%nat (put_all (map TsMax bl) 1%nat none_c));
              prod := put (QStart n) [TStart k start d]
                        (put (QEndPrev n) [TEnd out]
                        (put_all (map TsOut (outs n)) [TTsOut k out]
                        (put_all (map Next nb) [TSched k start] none_p))) |}
  | _, _, _ => None end.

Definition lastn {X} (n : nat) (l : list X) : list X := skipn (length l - n) l.
Definition push_all (w : list entry) (g : list entry) : list entry := lastn (length w) (w ++ g).

(* windows are kept in the order of [ins n]; the probe reads them sorted by sender index *)
Fixpoint heads_grp (cs : list nat) (u : nat -> list tok) : option (list (list entry)) :=
  match cs with [] => Some []
  | c :: cs => match hd_opt (u (Grouped c)), heads_grp cs u with
               | Some (TGrp g), Some r => Some (g :: r) | _, _ => None end end.

Fixpoint insert_by (key : nat) (w : list entry) (l : list (nat * list entry)) :=
  match l with [] => [(key, w)]
  | (k, x) :: l' => if Nat.leb key k then (key, w) :: l else (k, x) :: insert_by key w l' end.
Definition sort_wins (cs : list nat) (ws : list (list entry)) : list (list entry) :=
  map snd (fold_right (fun cw acc => insert_by (c_out (conn (fst cw))) (snd cw) acc) [] (combine cs ws)).

Definition init_wins (n : nat) : list (list entry) :=
  map (fun c => repeat (-1, 0, 0, 3 + n_nid (node (c_out (conn c)))) (c_window (conn c))) (ins n).

Definition fire_step (n : nat) (l : local) (u : nat -> list tok) : option firing :=
  match hd_opt (u (QStart n)), heads_grp (ins n) u with
  | Some (TStart k start d), Some gs =>
      let wins := map (fun wg => push_all (fst wg) (snd wg)) (combine (l_wins l) gs) in
      let st := l_state l in
      let acc := probe st k start (sort_wins (ins n) wins) in
      let r := {| r_seq := k; r_start := start; r_end := start + d; r_state := st; r_out := acc; r_wins := wins |} in
      Some {| l' := {| l_tick := l_tick l; l_drift := l_drift l; l_state := acc; l_wins := wins; l_prev := l_prev l;
                        l_j := l_j l; l_rows := l_rows l ++ [r]; l_msgs := l_msgs l; l_calls := l_calls l ++ [k] |};
              cons := put (QStart n) 1%nat (put_all (map Grouped (ins n)) 1%nat none_c);
              prod := put (QTick n) [TTick] (put_all (map MsgOut (outs n)) [TMsgOut k (start + d) acc] none_p) |}
  | _, _ => None end.

(* ---------- connection actors ---------- *)
Definition upd_l (l : local) (prev : Z) (j : nat) (tick : nat) (msgs : list mrec) : local :=
  {| l_tick := tick; l_drift := l_drift l; l_state := l_state l; l_wins := l_wins l; l_prev := prev;
     l_j := j; l_rows := l_rows l; l_msgs := msgs; l_calls := l_calls l |}.

Definition fire_ts_in (c : nat) (l : local) (u : nat -> list tok) : option firing :=
  match hd_opt (u (TsOut c)) with
  | Some (TTsOut k out) =>
      let d := stream (c_delays (conn c)) (l_j l) in
      let r := Z.max (out + d) (l_prev l) in
      Some {| l' := upd_l l r (S (l_j l)) (l_tick l) (l_msgs l);
              cons := put (TsOut c) 1%nat none_c;
              prod := put (ZipD c) [TDelay (r - out)] (put (TsIn c) [TTsIn k r] none_p) |}
  | _ => None end.

Definition fire_msg_in (c : nat) (l : local) (u : nat -> list tok) : option firing :=
  match hd_opt (u (MsgOut c)) with
  | Some (TMsgOut k sent pay) =>
      Some {| l' := l; cons := put (MsgOut c) 1%nat none_c; prod := put (ZipM c) [TMsgOut k sent pay] none_p |}
  | _ => None end.

Definition fire_zip (c : nat) (l : local) (u : nat -> list tok) : option firing :=
  match hd_opt (u (ZipD c)), hd_opt (u (ZipM c)) with
  | Some (TDelay dl), Some (TMsgOut k sent pay) =>
      Some {| l' := l; cons := put (ZipD c) 1%nat (put (ZipM c) 1%nat none_c);
              prod := put (Msgs c) [TMsg k sent (sent + dl) pay] none_p |}
  | _, _ => None end.

(* the counting loop of push_expected_blocking, on explicit fuel *)
Fixpoint cnt_loop (fuel : nat) (i : Z) (Pm phm t_low t_high : Z) (N0 skip : bool) (acc : nat) : nat :=
  match fuel with O => acc
  | S fuel =>
      let t := i * Pm + phm in
      if t_high <? t then acc else
      let b0 := N0 && ((negb skip && (t <=? t_low)) || (skip && (t <? t_low))) in
      let b1 := (negb skip && (t_low <? t) && (t <=? t_high)) || (skip && (t_low <=? t) && (t <? t_high)) in
      let f := if t <? phm then 0%nat else ((if b0 then 1%nat else 0%nat) + (if b1 then 1%nat else 0%nat))%nat in
      cnt_loop fuel (i + 1) Pm phm t_low t_high N0 skip (acc + f)%nat
  end.

Definition fire_exp_b (c : nat) (l : local) (u : nat -> list tok) : option firing :=
  if negb (c_blocking (conn c)) then None else
  match hd_opt (u (Next c)) with
  | Some (TSched N s) =>
      let nn := node (c_in (conn c)) in let nm := node (c_out (conn c)) in
      let t_high := n_period nn * Z.of_nat N + n_phase nn in
      let t_low := n_period nn * (Z.of_nat N - 1) + n_phase nn in
      let i0 := if (0 <? Z.of_nat N) then (t_low - n_phase nm) / n_period nm else 0 in
      let fuel := Z.to_nat ((t_high - (i0 * n_period nm + n_phase nm)) / n_period nm + 3) in
      let cnt := cnt_loop fuel i0 (n_period nm) (n_phase nm) t_low t_high (Nat.eqb N 0) (c_skip (conn c)) 0 in
      Some {| l' := l; cons := put (Next c) 1%nat none_c;
              prod := put (ExpMax c) [TCnt cnt] (put (ExpSel c) [TSel s cnt] none_p) |}
  | _ => None end.

Fixpoint take_recv (n : nat) (l : list tok) : option (list Z) :=
  match n with O => Some []
  | S n => match l with TTsIn _ r :: l => option_map (fun x => r :: x) (take_recv n l) | _ => None end end.

Definition fire_ts_max (c : nat) (l : local) (u : nat -> list tok) : option firing :=
  if negb (c_blocking (conn c)) then None else
  match hd_opt (u (ExpMax c)) with
  | Some (TCnt cnt) =>
      match take_recv cnt (u (TsIn c)) with
      | Some rs => Some {| l' := l; cons := put (ExpMax c) 1%nat (put (TsIn c) cnt none_c);
                           prod := put (TsMax c) [TMax (fold_right Z.max 0 rs)] none_p |}
      | None => None end
  | _ => None end.

Fixpoint count_latest (skip : bool) (t : Z) (l : list tok) : nat :=
  match l with
  | TTsIn _ r :: l => if (t <? r) || (skip && (r =? t)) then 0%nat else S (count_latest skip t l)
  | _ => 0%nat end.
Fixpoint count_buffer (skip : bool) (Pm phc t : Z) (l : list tok) : nat :=
  match l with
  | TTsIn k r :: l => if (t <? Z.of_nat k * Pm + phc) || ((t <? r) || (skip && (r =? t))) then 0%nat
                      else S (count_buffer skip Pm phc t l)
  | _ => 0%nat end.
Definition has_future (t : Z) (l : list tok) : bool :=
  existsb (fun x => match x with TTsIn _ r => t <? r | _ => false end) l.

Definition fire_exp_nb (c : nat) (l : local) (u : nat -> list tok) : option firing :=
  if c_blocking (conn c) then None else
  match hd_opt (u (Next c)) with
  | Some (TSched k t) =>
      if has_future t (u (TsIn c)) then
        let cnt := if c_buffer (conn c)
                   then count_buffer (c_skip (conn c)) (n_period (node (c_out (conn c)))) (c_phase (conn c)) t (u (TsIn c))
                   else count_latest (c_skip (conn c)) t (u (TsIn c)) in
        Some {| l' := l; cons := put (Next c) 1%nat (put (TsIn c) cnt none_c);
                prod := put (ExpSel c) [TSel t cnt] none_p |}
      else None
  | _ => None end.

Fixpoint take_msgs (n : nat) (l : list tok) : option (list (nat * Z * Z * Z)) :=
  match n with O => Some []
  | S n => match l with TMsg k s r p :: l => option_map (fun x => (k, s, r, p) :: x) (take_msgs n l) | _ => None end end.

Definition fire_select (c : nat) (l : local) (u : nat -> list tok) : option firing :=
  match hd_opt (u (ExpSel c)) with
  | Some (TSel t cnt) =>
      match take_msgs cnt (u (Msgs c)) with
      | Some ms =>
          let g := l_tick l in
          let recs := map (fun m => match m with (k, s, r, _) => {| m_out := k; m_in := g; m_sent := s; m_recv := r |} end) ms in
          let grp := map (fun m => match m with (k, s, r, p) => (Z.of_nat k, s, r, p) end) ms in
          Some {| l' := upd_l l (l_prev l) (l_j l) (S g) (l_msgs l ++ recs);
                  cons := put (ExpSel c) 1%nat (put (Msgs c) cnt none_c);
                  prod := put (Grouped c) [TGrp (lastn (c_window (conn c)) grp)] none_p |}
      | None => None end
  | _ => None end.

Definition fire (a : nat) (l : local) (u : nat -> list tok) : option firing :=
  if (NACT <=? a)%nat then None else
  if (a <? 3 * NN)%nat then
    let k := (a mod 3)%nat in let n := (a / 3)%nat in
    match k with 0%nat => fire_sched n l u | 1%nat => fire_shift n l u | _ => fire_step n l u end
  else
    let b := (a - 3 * NN)%nat in let k := (b mod 7)%nat in let c := (b / 7)%nat in
    match k with
    | 0%nat => fire_ts_in c l u | 1%nat => fire_msg_in c l u | 2%nat => fire_zip c l u
    | 3%nat => fire_exp_b c l u | 4%nat => fire_ts_max c l u | 5%nat => fire_exp_nb c l u
    | _ => fire_select c l u end.

(* ---------- who reads / writes which channel ---------- *)
Definition reader (c : nat) : nat :=
  if (c <? 4 * NN)%nat then
    let n := (c / 4)%nat in
    match (c mod 4)%nat with 0%nat => ASched n | 1%nat => AShift n | 2%nat => AShift n | _ => AStep n end
  else
    let b := (c - 4 * NN)%nat in let i := (b / 11)%nat in
    match (b mod 11)%nat with
    | 0%nat => cact 0 i | 1%nat => cact 1 i
    | 2%nat => if c_blocking (conn i) then cact 4 i else cact 5 i
    | 3%nat => cact 2 i | 4%nat => cact 2 i | 5%nat => cact 6 i
    | 6%nat => if c_blocking (conn i) then cact 3 i else cact 5 i
    | 7%nat => cact 4 i | 8%nat => cact 6 i
    | 9%nat => AShift (c_in (conn i)) | _ => AStep (c_in (conn i)) end.
Definition writer (c : nat) : nat :=
  if (c <? 4 * NN)%nat then
    let n := (c / 4)%nat in
    match (c mod 4)%nat with 0%nat => AStep n | 1%nat => ASched n | 2%nat => AShift n | _ => AShift n end
  else
    let b := (c - 4 * NN)%nat in let i := (b / 11)%nat in
    match (b mod 11)%nat with
    | 0%nat => AShift (c_out (conn i)) | 1%nat => AStep (c_out (conn i))
    | 2%nat => cact 0 i | 3%nat => cact 0 i | 4%nat => cact 1 i | 5%nat => cact 2 i
    | 6%nat => if c_blocking (conn i) then ASched (c_in (conn i)) else AShift (c_in (conn i))
    | 7%nat => cact 3 i
    | 8%nat => if c_blocking (conn i) then cact 3 i else cact 5 i
    | 9%nat => cact 4 i | _ => cact 6 i end.

(* ---------- state, run ---------- *)
Definition state := KahnL.state tok local.
Definition unread (s : state) (c : nat) : list tok := KahnL.unread tok local s c.
Definition apply (s : state) (a : nat) (r : firing) : state := KahnL.apply tok local s a r.

Definition try_fire (s : state) (a : nat) : option state :=
  match fire a (nth a (loc _ _ s) l0) (unread s) with Some r => Some (apply s a r) | None => None end.

Definition init : state :=
  {| hist := mapi (fun c _ => if (c <? 4 * NN)%nat then
                                 (if Nat.eqb (c mod 4) 0 then repeat TTick 10 else if Nat.eqb (c mod 4) 2 then [TEnd 0] else [])
                               else []) (repeat tt NCH);
     cur := repeat 0%nat NCH;
     loc := mapi (fun a _ => if (a <? 3 * NN)%nat && Nat.eqb (a mod 3) 2
                             then let n := (a / 3)%nat in
                                  {| l_tick := 0; l_drift := 0; l_state := 1 + n_nid (node n); l_wins := init_wins n;
                                     l_prev := 0; l_j := 0; l_rows := []; l_msgs := []; l_calls := [] |}
                             else l0) (repeat tt NACT) |}.

Definition rows_of (s : state) (n : nat) : list row := l_rows (nth (AStep n) (loc _ _ s) l0).
Definition msgs_of (s : state) (c : nat) : list mrec := l_msgs (nth (cact 6 c) (loc _ _ s) l0).

(* one sweep over a list of actors (a schedule); step(n) is not scheduled beyond limit n *)
Fixpoint sweep (sched : list nat) (limit : nat -> nat) (s : state) (progress : bool) : state * bool :=
  match sched with [] => (s, progress)
  | a :: sched =>
      let blocked := (a <? 3 * NN)%nat && Nat.eqb (a mod 3) 2 &&
                     (limit (a / 3)%nat <=? length (rows_of s (a / 3)%nat))%nat in
      if blocked then sweep sched limit s progress else
      match try_fire s a with
      | Some s' => sweep sched limit s' true
      | None => sweep sched limit s progress end
  end.
Fixpoint run (fuel : nat) (sched : list nat) (limit : nat -> nat) (s : state) : state :=
  match fuel with O => s
  | S fuel => let (s', p) := sweep sched limit s false in if p then run fuel sched limit s' else s' end.
End Model.
