(* C15: the kernels regenerated from rex/base.py, rex/utils.py, rex/node.py, rex/gmm_estimator.py coincide with the hand
   model Dist.v: re-proved on every run.  Arithmetic ties are stated at R and proved up to ring identities. *)
From Coq Require Import Reals Lra List ZArith Bool.
From Rex Require Import Ops Dist DistLaws.
From Rex.Generated Require Import DelayDist.
Import ListNotations.
Open Scope R_scope.
Ltac ar := cbv [oadd osub omul odiv oopp omax omin oz o0 o1 Rops].
Ltac tie := first [reflexivity | ar; first [lra | ring | (field; lra)]].

(* StaticDist.sample: split, draw with the second key, clip at zero, keep the first key *)
Lemma clip0_tie x : omax Rops x (oz Rops 0) = clip0 Rops x.
Proof. reflexivity. Qed.
Lemma static_sample_tie (K D : Type) (split : K -> K * K) (draw : D -> K -> nat -> list R) st n :
  static_sample_src Rops split draw st n = static_sample Rops split draw st n.
Proof.
  unfold static_sample_src, static_sample. destruct (split (snd st)) as [k1 k2].
  first [reflexivity | f_equal; apply map_ext; intros x; unfold clip0; ar; first [reflexivity | apply Rmax_comm]].
Qed.
Lemma static_reset_tie (K D : Type) (st : D * K) k : static_reset_src st k = static_reset st k.
Proof. reflexivity. Qed.

(* StaticDist.quantile *)
Lemma det_quantile_tie Phi Phinv loc q : Some (det_quantile_src loc q) = static_quantile Phi Phinv (Det loc) q.
Proof. unfold det_quantile_src, static_quantile. first [reflexivity | (f_equal; tie)]. Qed.
Lemma normal_quantile_tie Phi Phinv loc scale q :
  Some (normal_quantile_src Phinv q loc scale) = static_quantile Phi Phinv (Norm loc scale) q.
Proof. unfold normal_quantile_src, static_quantile, normal_quantile. first [reflexivity | (f_equal; tie)]. Qed.
Lemma mix_grid_bounds_tie Phinv (c : R * (R * R)) lo hi :
  qs_component_min_src Phinv (fst (snd c)) (snd (snd c)) = comp_q Phinv (1 / 1000) c /\
  qs_component_max_src Phinv (fst (snd c)) (snd (snd c)) = comp_q Phinv (999 / 1000) c /\
  grid_min_src lo = lo * (9 / 10) /\ grid_max_src hi = hi * (11 / 10) /\ mix_n_src = mix_n.
Proof.
  unfold qs_component_min_src, qs_component_max_src, comp_q, grid_min_src, grid_max_src.
  repeat split; first [reflexivity | lra | (f_equal; first [lra | (f_equal; lra)])].
Qed.

(* mixture_distribution_quantiles: on every level some grid value exceeds, the index chosen by the source is the model's
   (holds for the pinned source and for the repaired one); the guard is the model's guard *)
Lemma grid_index_tie_Z p cs : (exists c, In c cs /\ Z.ltb p c = true) -> grid_index_src Z.ltb p cs = grid_index Z.ltb p cs.
Proof.
  intros H. first [reflexivity | exact (grid_index_fix_agrees Z.ltb p cs H)].
Qed.
Lemma grid_index_tie_R p cs : (exists c, In c cs /\ Rltb p c = true) -> grid_index_src Rltb p cs = grid_index Rltb p cs.
Proof.
  intros H. first [reflexivity | exact (grid_index_fix_agrees Rltb p cs H)].
Qed.
Lemma grid_index_src_cases (A : Type) (ltb : A -> A -> bool) p cs :
  grid_index_src ltb p cs = grid_index ltb p cs \/ grid_index_src ltb p cs = grid_index_fix ltb p cs.
Proof. first [left; reflexivity | right; reflexivity]. Qed.
Lemma grid_check_tie (A : Type) (ltb : A -> A -> bool) probs cs : grid_check_src ltb probs cs = grid_check ltb probs cs.
Proof. reflexivity. Qed.

(* TrainableDist *)
Lemma trainable_tie mn mx alpha :
  trainable_sample_src Rops mn mx alpha = trainable_value Rops mn mx alpha /\
  trainable_quantile_src Rops mn mx alpha = trainable_value Rops mn mx alpha /\
  trainable_mean_src Rops mn mx alpha = trainable_value Rops mn mx alpha.
Proof. unfold trainable_sample_src, trainable_quantile_src, trainable_mean_src, trainable_value. repeat split; tie. Qed.
Lemma get_alpha_tie delay mn mx : mx - mn <> 0 ->
  get_alpha_raw_src Rops delay mn mx = get_alpha_raw Rops delay mn mx /\ get_alpha_src Rops delay mn mx = get_alpha Rops delay mn mx.
Proof.
  intros H. assert (E : get_alpha_raw_src Rops delay mn mx = get_alpha_raw Rops delay mn mx).
  { unfold get_alpha_raw_src, get_alpha_raw. first [reflexivity | ar; field; exact H]. }
  split; [exact E|]. unfold get_alpha_src, get_alpha. rewrite E. reflexivity.
Qed.

(* rex/node.py: both constructors *)
Lemma delay_level_eq (nonneg : R -> bool) (quant : R -> R) a b : a = b ->
  (if nonneg (quant a) then Some (quant a) else None) = (if nonneg (quant b) then Some (quant b) else None).
Proof. intros ->. reflexivity. Qed.
Lemma node_delay_tie nonneg delay quant :
  node_delay_src Rops nonneg delay quant = node_delay Rops nonneg delay quant /\
  conn_delay_src Rops nonneg delay quant = node_delay Rops nonneg delay quant.
Proof.
  unfold node_delay_src, conn_delay_src, node_delay, q99. destruct delay; [split; reflexivity|].
  split; apply delay_level_eq; ar; lra.
Qed.

(* rex/gmm_estimator.py *)
Lemma normalize_weights_tie ws : normalize_weights_src Rops ws = normalize_weights Rops ws.
Proof. unfold normalize_weights_src, normalize_weights. first [reflexivity | apply map_ext; intros; tie]. Qed.
Lemma rescale_tie mean sd c :
  rescale_comp mean sd c = (fst c, (rescale_mu_src mean sd (fst (snd c)), exp (rescale_ls_src sd (snd (snd c))))).
Proof.
  unfold rescale_comp, rescale_mu_src, rescale_ls_src, rescale_mu. first [reflexivity | (f_equal; f_equal; [tie|f_equal; tie])].
Qed.
Lemma is_deterministic_tie threshold percentile data fitted : is_deterministic_src Rltb (rstd data) threshold = true ->
  gmm_get_dist threshold percentile data fitted = Det (rmean data).
Proof. unfold is_deterministic_src, gmm_get_dist. intros ->. reflexivity. Qed.
Lemma prune_count_tie percentile cum ws :
  prune_count_src Rops Rltb percentile cum ws = prune_count Rops Rltb (prune_thr Rops percentile) cum ws.
Proof.
  revert cum. induction ws as [|w ws IH]; intros cum; [reflexivity|].
  cbn [prune_count_src prune_count]. rewrite IH. unfold prune_thr.
  first [reflexivity
        | match goal with |- (if Rltb ?a ?b then _ else _) = (if Rltb ?c ?d then _ else _) =>
            replace a with c by (ar; ring); replace b with d by (ar; ring); reflexivity end ].
Qed.
