(* the kernels regenerated from rex/artificial.py coincide with the hand model Generate.v: re-proved on every run *)
From Coq Require Import List Arith ZArith QArith Qround Bool Lia.
From Rex Require Import Generate GenerateLaws.
From Rex.Generated Require Import GenGraph.
Import ListNotations.
Open Scope Z_scope.

Lemma ts_end_tie s d : ts_end_src s d = s + d.
Proof. unfold ts_end_src. lia. Qed.
Lemma next_start_tie P s e : next_start_src P s e = next_start P s e.
Proof. unfold next_start_src, next_start. lia. Qed.
Lemma mask_seq_tie hor e i : mask_seq_src hor e i = mask_seq hor e i.
Proof. unfold mask_seq_src, mask_seq. rewrite ?Z.gtb_ltb, ?Z.geb_leb. destruct (hor <? e) eqn:A, (hor <=? e) eqn:B; try reflexivity; lia. Qed.
Lemma is_larger_tie skip t r : is_larger_src skip t r = fits skip t r.
Proof.
  unfold is_larger_src, fits. rewrite ?Z.gtb_ltb, ?Z.geb_leb.
  destruct skip; destruct (r <? t) eqn:A; destruct (r <=? t) eqn:B; try reflexivity; lia.
Qed.
Lemma larger_tie skip starts s r : larger_src skip starts s r = larger skip starts s r.
Proof. unfold larger_src, larger. destruct r; [apply is_larger_tie|reflexivity]. Qed.
Lemma while_tie skip starts r : forall fuel s, (s < length starts)%nat ->
  while_src fuel skip starts r s = while_seq fuel skip starts s r.
Proof.
  induction fuel as [|fuel IH]; intros s Hs; simpl; [reflexivity|].
  unfold while_cond_src. rewrite Nat.mod_small by exact Hs. rewrite larger_tie.
  replace (s + 1)%nat with (S s) by lia.
  destruct (larger skip starts s r); simpl; [reflexivity|].
  destruct (Nat.leb_spec (length starts) (S s)); simpl; [reflexivity|]. apply IH. lia.
Qed.
Lemma scan_body_tie skip starts carry r : (carry < length starts)%nat ->
  scan_body_src skip starts carry r = assign skip starts carry r.
Proof. intros H. unfold scan_body_src, assign. rewrite while_tie by exact H. rewrite larger_tie. reflexivity. Qed.
Lemma recv_tie v c : recv_src (v_seq v) (v_end v) c = recv_of (v, c).
Proof. unfold recv_src, recv_of, sent. simpl. destruct (v_seq v =? -1); reflexivity. Qed.
Lemma edge_tie hor mx v c clipped :
  edge_src hor mx (v_seq v) (v_end v) c clipped =
  let e := mk_edge hor mx (v, c, clipped) in (e_out e, e_in e, Some (e_recv e)).
Proof.
  unfold edge_src, mk_edge, late, sent. simpl. rewrite ?Z.gtb_ltb, ?Z.geb_leb.
  destruct (v_seq v =? -1); simpl; [reflexivity|]. rewrite ?Z.gtb_ltb, ?Z.geb_leb.
  destruct (hor <? v_end v) eqn:A, (hor <=? v_end v) eqn:B; try reflexivity; lia.
Qed.
(* padded length on the lattice: ts_max = T/64 s, rate = 64/P Hz *)
Lemma num_steps_tie T (P : positive) : num_steps_src (T # 64) (64 # P) = num_steps T (Zpos P).
Proof.
  unfold num_steps_src, num_steps, ceil_div, Qceiling, Qfloor, Qmult, Qopp. simpl Qnum. simpl Qden.
  f_equal. f_equal. replace (Z.pos P~0~0~0~0~0~0) with (Z.pos P * 64) by lia. rewrite <- Z.mul_opp_l. apply Z.div_mul_cancel_r; lia.
Qed.
