(* the kernels regenerated from rex/node.py coincide with the hand model (Phase.v, NodeCfg.v): re-proved on every run.
   The three choice kernels that carry a known defect are tied to the model *variant* they implement: src_variant is
   computed from the regenerated definitions, so the file says which variant of NodeCfg the current source is; the
   theorems of Props/C16.v hold for v_ok and are refuted for the others. *)
From Coq Require Import ZArith List Bool Lia String.
From Rex Require Import Phase NodeCfg.
From Rex.Generated Require Import NodeKernels.
Import ListNotations.
Open Scope Z_scope.

Definition src_variant : variant :=
  {| v_sd_node := negb (node_set_delay_dist_src 0 (Some 1) =? 1);
     v_sd_conn := negb (conn_set_delay_dist_src 0 (Some 1) =? 1);
     v_cfi_key := negb (cfi_name_src 0 1 =? 1) |}.

(* set_delay *)
Lemma node_set_delay_dist_tie D (cur : D) arg : node_set_delay_dist_src cur arg = sd_dist D (v_sd_node src_variant) cur arg.
Proof. destruct arg; reflexivity. Qed.
Lemma conn_set_delay_dist_tie D (cur : D) arg : conn_set_delay_dist_src cur arg = sd_dist D (v_sd_conn src_variant) cur arg.
Proof. destruct arg; reflexivity. Qed.
Lemma node_set_delay_delay_tie cur arg : node_set_delay_delay_src cur arg = sd_delay cur arg.
Proof. destruct arg; unfold node_set_delay_delay_src, sd_delay; first [reflexivity | lia]. Qed.
Lemma conn_set_delay_delay_tie cur arg : conn_set_delay_delay_src cur arg = sd_delay cur arg.
Proof. destruct arg; unfold conn_set_delay_delay_src, sd_delay; first [reflexivity | lia]. Qed.
(* __init__ *)
Lemma node_init_dist_tie D (d0 : D) arg : node_init_dist_src d0 arg = init_dist D d0 arg.
Proof. destruct arg; reflexivity. Qed.
Lemma conn_init_dist_tie D (d0 : D) arg : conn_init_dist_src d0 arg = init_dist D d0 arg.
Proof. destruct arg; reflexivity. Qed.
Lemma node_init_delay_tie D (q99 : D -> Z) dist arg : node_init_delay_src (q99 dist) arg = init_delay D q99 dist arg.
Proof. destruct arg; unfold node_init_delay_src, init_delay; first [reflexivity | lia]. Qed.
Lemma conn_init_delay_tie D (q99 : D -> Z) dist arg : conn_init_delay_src (q99 dist) arg = init_delay D q99 dist arg.
Proof. destruct arg; unfold conn_init_delay_src, init_delay; first [reflexivity | lia]. Qed.
(* phases *)
Lemma conn_phase_tie po d : conn_phase_src po d = conn_phase po d.
Proof. unfold conn_phase_src, conn_phase. lia. Qed.
Lemma phase_output_tie p d : phase_output_src p d = phase_output p d.
Proof. unfold phase_output_src, phase_output. lia. Qed.
Lemma node_phase_tie l : phase_combine (map (fun sp => (fst sp, Some (snd sp))) l) = Some (node_phase_src l).
Proof.
  unfold node_phase_src, phase_combine. induction l as [|[s p] l IH]; [reflexivity|].
  cbn [map fold_right fst snd]. rewrite IH. destruct s; cbn [negb filter map fold_right fst snd]; [reflexivity|].
  f_equal. unfold node_phase_elt_src. lia.
Qed.
(* connect / connect_from_info *)
Lemma connect_key_tie D q99 d0 (n : node D) s b de di w sk j nm : n_inputs D n = [] ->
  map (c_key D) (n_inputs D (connect_node D q99 d0 n s b de di w sk j nm)) = [connect_key_src nm s].
Proof. intros H. unfold connect_node. simpl. rewrite H. destruct nm; reflexivity. Qed.
Lemma cfi_name_tie k n : cfi_name_src k n = cfi_name (v_cfi_key src_variant) k n.
Proof. reflexivity. Qed.

(* keyword wiring of the info constructors and of their inverses, as the model assumes it (NodeCfg.conn_info, node_info,
   node_of_info, rebuild_node); sorted by keyword *)
Open Scope string_scope.
Lemma inputinfo_fields_tie : inputinfo_fields_src =
  [("blocking", "blocking"); ("delay", "delay"); ("delay_dist", "delay_dist"); ("jitter", "jitter"); ("name", "input_name");
   ("output", "output_node.name"); ("phase", "phase"); ("rate", "output_node.rate"); ("skip", "skip"); ("window", "window")].
Proof. reflexivity. Qed.
Lemma nodeinfo_fields_tie : nodeinfo_fields_src =
  [("advance", "advance"); ("cls", "class"); ("color", "color or gray"); ("delay", "delay"); ("delay_dist", "delay_dist");
   ("inputs", "{sender name: connection info}"); ("name", "name"); ("order", "order"); ("phase", "phase"); ("rate", "rate");
   ("scheduling", "scheduling")].
Proof. reflexivity. Qed.
Lemma from_info_fields_tie : from_info_fields_src =
  [("advance", "advance or kwargs[advance]"); ("color", "color or kwargs[color]"); ("delay", "delay or kwargs[delay]");
   ("delay_dist", "delay_dist or kwargs[delay_dist]"); ("name", "name or kwargs[name]"); ("order", "order or kwargs[order]");
   ("rate", "rate or kwargs[rate]"); ("scheduling", "scheduling or kwargs[scheduling]")].
Proof. reflexivity. Qed.
Lemma cfi_fields_tie : cfi_fields_src =
  [("blocking", "blocking"); ("delay", "delay"); ("delay_dist", "delay_dist"); ("jitter", "jitter"); ("skip", "skip"); ("window", "window")].
Proof. reflexivity. Qed.
