(* rex/asynchronous.py follows the repaired stop() protocol for which Lifecycle.stop_returns is proved *)
From Coq Require Import List Arith Bool.
From Rex Require Import Lifecycle.
From Rex Require Handshake EventLoop.
From Rex.Generated Require Import Lifecycle.
Import ListNotations.
Lemma stop_protocol_tie : protocol_mode stop_protocol_src = Some true.
Proof. reflexivity. Qed.
Lemma sup_protocol_tie : sup_protocol_src = sup_protocol.
Proof. reflexivity. Qed.
Lemma accept_tie (M : Type) eps (m : nat * M) : accept_src eps m = accept eps m.
Proof. unfold accept_src, accept. apply negb_involutive. Qed.
(* the supervisor queues the action future before it publishes the observation: the variant for which Handshake.handshake_never_raises holds *)
Lemma handshake_order_tie : Handshake.order_mode handshake_order_src = Some true.
Proof. reflexivity. Qed.
(* the three event-triggered connection handlers re-check after each processed entry: the variant for which
   EventLoop.recheck_leaves_nothing_enabled holds (the code then fires exactly as the guard-based actor model does) *)
Lemma handlers_recheck_tie : List.map EventLoop.mode_of handlers_recheck_src = [true; true; true].
Proof. reflexivity. Qed.
