(* the kernels regenerated from rex/base.py (TrainableDist.sample / apply_delay, linear branches) coincide with the
   hand model Interp.v: re-proved on every run *)
From Coq Require Import Reals Lra QArith ZArith List Bool Lia.
From Rex Require Import Ops Interp.
From Rex.Generated Require Import Interp.
Import ListNotations.
(* arithmetic kernels: stated at R and proved up to ring identities, so that a harmless algebraic rewrite of the source
   does not break the tie while a semantic change does *)
Ltac tie := first [reflexivity | cbv [oadd osub omul odiv oopp oz Rops]; first [lra | ring | (field; lra)]].
Lemma delay_tie mn mx alpha : delay_src Rops mn mx alpha = k_delay Rops mn mx alpha.
Proof. unfold delay_src, k_delay. tie. Qed.
Lemma recv_tie seq sent recv d : recv_src Rops seq sent recv d = k_recv Rops seq sent recv d.
Proof. unfold recv_src, k_recv. destruct (seq <? 0)%Z; tie. Qed.
Lemma mask_tie ro seq r : mask_src Rops ro seq r = k_mask Rops ro seq r.
Proof. unfold mask_src, k_mask. destruct ro, (seq <? 0)%Z; cbn [andb]; tie. Qed.
Lemma query_tie r t lst : query_src Rops r t lst = k_query Rops r t lst.
Proof. unfold query_src, k_query. tie. Qed.
Lemma window_tie c wd : window_src c wd = k_window c wd.
Proof. unfold window_src, k_window. lia. Qed.
Lemma idx_min_tie i w : idx_min_src i w = k_idx_min i w.
Proof. unfold idx_min_src, k_idx_min. lia. Qed.
(* the model over Q uses exactly these kernels *)
Lemma model_kernels_tie :
  (forall mn mx a, delay mn mx a = k_delay Qops mn mx a) /\
  (forall d e, recv_d d e = k_recv Qops (e_seq e) (e_sent e) (e_recv e) d) /\
  (forall ro d e, mask ro d e = k_mask Qops ro (e_seq e) (recv_d d e)) /\
  (forall r t lst, (r + (t - lst))%Q = k_query Qops r t lst) /\
  (forall i w n, dyn_start i w n = let s := k_idx_min (Z.of_nat i) (Z.of_nat w) in
      Z.to_nat (Z.max 0 (Z.min (if (s <? 0)%Z then (s + Z.of_nat n)%Z else s) (Z.of_nat n - Z.of_nat w)))).
Proof. repeat split; intros; reflexivity. Qed.
(* `ts_recv > ts_start` *)
Lemma late_tie r t : late_src r t = Qltb t r.
Proof. reflexivity. Qed.
Lemma first_late_tie t l : first_late_src t l = first_gt t l.
Proof. induction l as [|r l IH]; [reflexivity|]. simpl. rewrite late_tie, IH. reflexivity. Qed.
(* the whole linear branch, as re-assembled from the statements of the source, is the model *)
Lemma apply_linear_tie ro d t w es fp : apply_linear_src ro d t w es fp = apply_linear ro d t w es fp.
Proof.
  unfold apply_linear_src, apply_linear, queries, knots, start.
  assert (Er : map (fun e => k_recv Qops (e_seq e) (e_sent e) (e_recv e) d) es = map (recv_d d) es).
  { apply map_ext. intros e. unfold k_recv, recv_d. destruct (e_seq e <? 0)%Z; reflexivity. }
  assert (Em : map (fun e => k_mask Qops ro (e_seq e) (k_recv Qops (e_seq e) (e_sent e) (e_recv e) d)) es = map (mask ro d) es).
  { apply map_ext. intros e. unfold k_mask, mask, k_recv, recv_d. destruct ro, (e_seq e <? 0)%Z; reflexivity. }
  rewrite Er, Em, first_late_tie.
  unfold dyn_start. replace (idx_min_src (Z.of_nat (first_gt t (map (recv_d d) es))) (Z.of_nat w))
    with (Z.of_nat (first_gt t (map (recv_d d) es)) - Z.of_nat w)%Z by (unfold idx_min_src; lia).
  reflexivity.
Qed.
