(* the kernels regenerated from rex/ppo.py, rex/actor_critic.py and rex/rl.py coincide with the hand model Policy.v:
   re-proved on every run *)
From Coq Require Import Reals Lra List ZArith Lia Bool String.
From Rex Require Import Ops Policy PolicyLaws.
From Rex.Generated Require Import Policy.
Open Scope string_scope.

(* arithmetic ties at the carrier of the laws (R), up to ring identities *)
Ltac congr := first [reflexivity | lra | ring | (field; lra) | (progress f_equal; congr)].
Ltac tie := first [reflexivity | cbv [oadd osub omul odiv oopp omax omin oz Rops]; congr].
(* SquashState.unsquash: over the reals (tanh strictly inside (-1, 1)) a final clip to [low, high] is the identity, so the
   source with or without that guard against float rounding is the model's function *)
Lemma unsquash_tie sq lo hi x : (lo < hi)%R -> unsquash_src Rops tanh sq lo hi x = unsquash1 Rops tanh sq lo hi x.
Proof.
  intros H. pose proof (unsquash1_squash_in_range lo hi x H) as [B1 B2].
  unfold unsquash_src, unsquash1 in *. destruct sq; [|tie].
  cbv [oadd osub omul odiv oz omax omin Rops] in *.
  first [ congr | (rewrite Rmax_left by first [lra | nra]; rewrite Rmin_left by first [lra | nra]; congr) ].
Qed.
Lemma normalize_tie (fs : R -> R) cl sm mean var c x : normalize_src Rops fs cl sm mean var c x = normalize1 Rops fs cl sm c mean var x.
Proof. unfold normalize_src, normalize1, eps8. destruct cl, sm; tie. Qed.

(* the exported policy, the observation wrapper (reset and step) and the evaluation loop of train normalise with the same
   flags, and these are the flags of the model (clip=True, subtract_mean=True) *)
Lemma norm_flags_tie :
  get_action_norm_flags_src = (true, true) /\ obs_wrapper_reset_flags_src = get_action_norm_flags_src /\
  obs_wrapper_step_flags_src = get_action_norm_flags_src /\ train_eval_norm_flags_src = get_action_norm_flags_src.
Proof. repeat split; reflexivity. Qed.

(* PPOResult.act_scaling picks the row of the model *)
Lemma act_row_tie : act_row_src = act_row.
Proof. reflexivity. Qed.

(* loop bound and output-layer index of apply_actor; hidden-loop bound of the Actor *)
Lemma policy_loop_tie (n : nat) :
  Z.to_nat (policy_loop_count_src (Z.of_nat n)) = (n - 1)%nat /\ Z.to_nat (policy_out_index_src (Z.of_nat n)) = (n - 1)%nat.
Proof. unfold policy_loop_count_src, policy_out_index_src. split; lia. Qed.
Lemma actor_loop_tie (h : nat) : Z.to_nat (actor_loop_count_src (Z.of_nat h)) = h.
Proof. unfold actor_loop_count_src. lia. Qed.

(* both build MultivariateNormalDiag(x_mean, exp(log_std)) *)
Lemma scale_tie (fe : R -> R) ls : policy_scale_src Rops fe ls = fe ls /\ actor_scale_src Rops fe ls = policy_scale_src Rops fe ls.
Proof. unfold policy_scale_src, actor_scale_src. split; tie. Qed.

(* activation tables: the dict of apply_actor and the if/elif chain of Actor.__call__ are the model's tables *)
Definition name_of_string (s : string) : actname :=
  if String.eqb s "tanh" then NTanh else if String.eqb s "relu" then NRelu else if String.eqb s "gelu" then NGelu
  else if String.eqb s "softplus" then NSoftplus else NOther.
Ltac split_names s :=
  repeat match goal with |- context [String.eqb s ?c] => destruct (String.eqb_spec s c); [subst s; reflexivity|] end; reflexivity.
Lemma policy_table_tie s : policy_table_src s = policy_table (name_of_string s).
Proof. unfold policy_table_src, name_of_string. split_names s. Qed.
Lemma actor_table_tie s : actor_table_src s = actor_table (name_of_string s).
Proof. unfold actor_table_src, name_of_string. split_names s. Qed.
Lemma tables_src_agree s : policy_table_src s = actor_table_src s.
Proof. rewrite policy_table_tie, actor_table_tie. apply tables_agree. Qed.
