From Coq Require Import Reals Lra ZArith Lia List Bool.
From Rex Require Import Ops Trainable Zoh.
From Rex.Generated Require Import Trainable.
Ltac tie := first [reflexivity | cbv [oadd osub omul odiv oz omax omin o0 o1 Rops]; first [lra | ring | (field; lra)]].
Lemma get_alpha_raw_tie d mn mx : get_alpha_raw_src Rops d mn mx = t_get_alpha_raw Rops d mn mx.
Proof. unfold get_alpha_raw_src, t_get_alpha_raw. tie. Qed.
Lemma get_alpha_tie d mn mx : get_alpha_src Rops d mn mx = t_get_alpha Rops d mn mx.
Proof. unfold get_alpha_src, t_get_alpha. rewrite get_alpha_raw_tie. reflexivity. Qed.
Lemma sample_tie a mn mx : trainable_sample_src Rops a mn mx = t_sample Rops a mn mx.
Proof. unfold trainable_sample_src, t_sample. cbv [oadd osub omul oz Rops]. simpl. lra. Qed.
Lemma mean_quantile_tie a mn mx : trainable_mean_src Rops a mn mx = t_sample Rops a mn mx /\ trainable_quantile_src Rops a mn mx = t_sample Rops a mn mx.
Proof. unfold trainable_mean_src, trainable_quantile_src, t_sample. split; tie. Qed.
Open Scope Z_scope.
Lemma redelay_tie e d : e_recv (redelay d e) = redelay_recv_src (e_seq e) (e_sent e) (e_recv e) d.
Proof. unfold redelay, redelay_recv_src. destruct (e_seq e <? 0); reflexivity. Qed.
Lemma in_flight_tie t e l : first_gt t (e :: l) = if in_flight_src (e_recv e) t then 0%nat else S (first_gt t l).
Proof. unfold in_flight_src. cbn [first_gt]. rewrite Z.gtb_ltb. reflexivity. Qed.
Lemma idx_min_tie w d t input : zoh w d t input =
  dyn_slice (idx_min_src (Z.of_nat (first_gt t (map (redelay d) input))) (Z.of_nat w)) w (map (redelay d) input).
Proof. reflexivity. Qed.
