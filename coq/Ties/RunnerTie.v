(* the index arithmetic of rex/partition_runner.py / Graph.run_supervisor is the one of the runner model M3 *)
From Coq Require Import ZArith Bool List Lia.
From Rex Require Import CompiledModel.
From Rex.Generated Require Import Runner.
Import ListNotations.
Open Scope Z_scope.
(* an output is written to ring slot (scheduled seq) mod size *)
Lemma write_slot_tie Val sizes (s : rstate Val) (r : row Val) :
  r_buf Val (commit Val sizes s r) =
  upd (w_node Val r) (upd (Z.to_nat (write_slot_src (w_seq Val r) (size_of sizes (w_node Val r)))) (fun _ => w_out Val r)) (r_buf Val s).
Proof. reflexivity. Qed.
(* a window entry with sequence number sq is read from ring slot sq mod size (negative sq included) *)
Lemma read_slot_tie Val (vd : nat -> Val) sizes (s : rstate Val) m sq :
  ring_read Val vd sizes s m sq = nth (Z.to_nat (read_slot_src sq (size_of sizes m))) (nth m (r_buf Val s) []) (vd m).
Proof. reflexivity. Qed.
(* the slot written and the record row are named by the schedule's sequence number of the slot, not by anything the step returned *)
Lemma index_sources_tie : write_index_source_src = 0%nat /\ record_row_source_src = 0%nat.
Proof. split; reflexivity. Qed.
(* run_supervisor uses the timing of partition step - 1 (the partition run_until_supervisor has just completed) and is skipped at step 0:
   in the model the supervisor cell of partition p runs as the last phase of partition p *)
Lemma sup_partition_tie I p : last (phases_of I p) [] = [(i_sup I, sup_cell I (Z.to_nat (sup_timing_partition_src (Z.of_nat (S p)))))].
Proof. unfold phases_of, sup_timing_partition_src. rewrite last_last. repeat f_equal. lia. Qed.
Lemma sup_skipped_tie step : sup_skipped_src step = true <-> step = 0.
Proof. unfold sup_skipped_src. apply Z.eqb_eq. Qed.
Lemma counters_tie x : next_seq_src x = x + 1 /\ next_step_src x = x + 1.
Proof. split; reflexivity. Qed.
