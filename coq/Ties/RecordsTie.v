(* C14: the kernels regenerated from rex/base.py and rex/utils.py coincide with the hand model Convert.v: re-proved on every run *)
From Coq Require Import List ZArith Bool Lia.
From Rex Require Import Convert ConvertLaws.
From Rex.Generated Require Import Records.
Import ListNotations.
Open Scope Z_scope.

Ltac btie :=
  repeat match goal with
         | |- context [Z.gtb ?a ?b] => rewrite (Z.gtb_ltb a b)
         | |- context [Z.geb ?a ?b] => rewrite (Z.geb_leb a b)
         | |- context [Z.eqb ?a ?b] => destruct (Z.eqb_spec a b)
         | |- context [Z.ltb ?a ?b] => destruct (Z.ltb_spec a b)
         | |- context [Z.leb ?a ?b] => destruct (Z.leb_spec a b)
         end; simpl; first [reflexivity | lia].

(* Graph.stack pads at the end only, with -1, up to the longest array *)
Lemma stack_pad_tie m l :
  Z.to_nat (stack_pad_before_src (Z.of_nat m) l) = 0%nat /\
  l ++ repeat stack_fill_src (Z.to_nat (stack_pad_after_src (Z.of_nat m) l)) = pad (-1) m l.
Proof.
  unfold stack_pad_before_src, stack_pad_after_src, stack_fill_src, pad. split; [lia|].
  replace (Z.to_nat _) with (m - length l)%nat by lia. first [reflexivity | (f_equal; f_equal; lia)].
Qed.
(* ExperimentRecord.stack("padded") does the same on axis 0 of every leaf, with fill value -1 *)
Lemma record_pad_tie m l :
  Z.to_nat (record_pad_before_src (Z.of_nat m) l) = 0%nat /\
  l ++ repeat record_fill_src (Z.to_nat (record_pad_after_src (Z.of_nat m) l)) = pad (-1) m l.
Proof.
  unfold record_pad_before_src, record_pad_after_src, record_fill_src, pad. split; [lia|].
  replace (Z.to_nat _) with (m - length l)%nat by lia. first [reflexivity | (f_equal; f_equal; lia)].
Qed.
Lemma getitem_tie i (bg : graph (list arr)) : gmap (getitem_src i []) bg = get i bg.
Proof. reflexivity. Qed.
Lemma len_tie bg : len_src bg = blen bg.
Proof. reflexivity. Qed.
(* to_graph selects seq / ts_start / ts_end and seq_out / seq_in / ts_recv and keys edges (sender, receiver) *)
Lemma to_graph_tie L (s : steps L) (m : msgs L) n1 n2 :
  to_graph_vertex_src s = vertex_of s /\ to_graph_edge_src m = edge_of m /\ to_graph_key_src n1 n2 = (n1, n2).
Proof. repeat split. Qed.
(* the connection lookup of both filters is one of the two modelled ones (input name: pinned; sender's name: required) *)
Lemma graph_filter_key_tie : (forall c, graph_filter_key_src c = key_pinned c) \/ (forall c, graph_filter_key_src c = key_sender c).
Proof. first [left; reflexivity | right; reflexivity]. Qed.
Lemma record_filter_key_tie : (forall c, record_filter_key_src c = key_pinned c) \/ (forall c, record_filter_key_src c = key_sender c).
Proof. first [left; reflexivity | right; reflexivity]. Qed.
(* to_networkx_graph: which rows are skipped, when a stateful edge is added *)
Lemma nx_skip_vertex_tie seq : nx_skip_vertex_src seq = nx_skip_vertex seq.
Proof. unfold nx_skip_vertex_src, nx_skip_vertex. btie. Qed.
Lemma nx_stateful_tie seq : nx_stateful_src seq = nx_stateful seq.
Proof. unfold nx_stateful_src, nx_stateful. btie. Qed.
Lemma nx_skip_edge_tie seq_out seq_in : nx_skip_edge_src seq_out seq_in = nx_skip_edge seq_out seq_in.
Proof. unfold nx_skip_edge_src, nx_skip_edge. btie. Qed.
