(* the arithmetic / decision kernels regenerated from rex/asynchronous.py coincide with the actor model M1 *)
From Coq Require Import ZArith Bool Lia List.
From Rex Require Import KahnL AsyncModel2 AsyncLaws AsyncLaws2.
From Rex.Generated Require Import Async.
Open Scope Z_scope.

Lemma sched_ts_tie G n k : sched_ts_src (n_period (node G n)) (n_phase (node G n)) (Z.of_nat k) = sched_ts G n k.
Proof. unfold sched_ts_src, sched_ts. lia. Qed.
Lemma shift_start_tie G n M s e ps : shift_start_src M s e ps (only_b G n) = s + phase_of G n M s e ps.
Proof. unfold shift_start_src, phase_of. destruct (only_b G n); lia. Qed.
Lemma shift_drift_tie G n s e ps : shift_drift_src s e ps (n_freq (node G n)) = drift_next G n s e ps.
Proof. unfold shift_drift_src, drift_next. destruct (n_freq (node G n)); lia. Qed.
Lemma recv_tie sent d prev : recv_src sent d prev = Z.max (sent + d) prev.
Proof. unfold recv_src. lia. Qed.
Lemma comm_delay_tie r s : comm_delay_src r s = r - s.
Proof. unfold comm_delay_src. lia. Qed.
(* selection loops: one more message is taken iff the break condition is false *)
Lemma latest_break_tie skip t k r l :
  count_latest skip t (TTsIn k r :: l) = if latest_break_src skip t r then 0%nat else S (count_latest skip t l).
Proof.
  unfold latest_break_src. cbn [count_latest]. rewrite Z.gtb_ltb. reflexivity.
Qed.
Lemma buffer_break_tie skip Pm phc t k r l :
  count_buffer skip Pm phc t (TTsIn k r :: l) = if buffer_break_src skip Pm phc t (Z.of_nat k) r then 0%nat else S (count_buffer skip Pm phc t l).
Proof.
  unfold buffer_break_src. cbn [count_buffer]. rewrite !Z.gtb_ltb. reflexivity.
Qed.
Lemma future_tie t k r l : has_future t (TTsIn k r :: l) = future_src t r || has_future t l.
Proof. unfold future_src, has_future. cbn [existsb]. rewrite Z.gtb_ltb. reflexivity. Qed.
