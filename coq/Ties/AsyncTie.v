(* the arithmetic / decision kernels regenerated from rex/asynchronous.py coincide with the actor model M1 *)
From Coq Require Import ZArith Bool Lia List.
From Rex Require Import KahnL AsyncModel2 AsyncLaws AsyncLaws2 AsyncLaws6.
From Rex.Generated Require Import Async.
Open Scope Z_scope.

Lemma sched_ts_tie G n k : sched_ts_src (n_period (node G n)) (n_phase (node G n)) (Z.of_nat k) = sched_ts G n k.
Proof. unfold sched_ts_src, sched_ts. lia. Qed.
Lemma shift_start_tie G n M s e ps : shift_start_src M s e ps (only_b G n) = s + phase_of G n M s e ps.
Proof. unfold shift_start_src, phase_of. destruct (only_b G n); lia. Qed.
Lemma shift_drift_tie G n s e ps : shift_drift_src s e ps (n_freq (node G n)) = drift_next G n s e ps.
Proof. unfold shift_drift_src, drift_next. destruct (n_freq (node G n)); lia. Qed.
Lemma recv_tie sent d prev : recv_src sent d prev = Z.max (sent + d) prev.
Proof. unfold recv_src. lia. Qed.
Lemma comm_delay_tie r s : comm_delay_src r s = r - s.
Proof. unfold comm_delay_src. lia. Qed.
(* selection loops: one more message is taken iff the break condition is false *)
Lemma latest_break_tie skip t k r l :
  count_latest skip t (TTsIn k r :: l) = if latest_break_src skip t r then 0%nat else S (count_latest skip t l).
Proof.
  unfold latest_break_src. cbn [count_latest]. rewrite Z.gtb_ltb. reflexivity.
Qed.
Lemma buffer_break_tie skip Pm phc t k r l :
  count_buffer skip Pm phc t (TTsIn k r :: l) = if buffer_break_src skip Pm phc t (Z.of_nat k) r then 0%nat else S (count_buffer skip Pm phc t l).
Proof.
  unfold buffer_break_src. cbn [count_buffer]. rewrite !Z.gtb_ltb. reflexivity.
Qed.
Lemma future_tie t k r l : has_future t (TTsIn k r :: l) = future_src t r || has_future t l.
Proof. unfold future_src, has_future. cbn [existsb]. rewrite Z.gtb_ltb. reflexivity. Qed.
(* one iteration of the counting loop of push_expected_blocking is one unfolding of the model's cnt_loop *)
Lemma blk_loop_tie fuel i Pm phm t_low t_high N0 skip acc :
  cnt_loop (S fuel) i Pm phm t_low t_high N0 skip acc =
  if blk_continue_src (blk_t_src Pm phm i) t_high
  then cnt_loop fuel (i + 1) Pm phm t_low t_high N0 skip (acc + blk_flag_src N0 skip (blk_t_src Pm phm i) phm t_low t_high)%nat
  else acc.
Proof.
  cbn [cnt_loop]. unfold blk_continue_src, blk_t_src, blk_flag_src. set (t := i * Pm + phm).
  rewrite Z.gtb_ltb. destruct (Z.ltb_spec t_high t); [reflexivity|]. cbn [negb]. f_equal. f_equal.
  destruct N0, skip; cbn [negb andb orb];
  repeat match goal with |- context [?a <? ?b] => destruct (Z.ltb_spec a b) | |- context [?a <=? ?b] => destruct (Z.leb_spec a b) end;
  cbn; try reflexivity; lia.
Qed.
(* interval bounds, start index and fuel: the expression the model's blocking expectation (blk_cnt) starts the loop with *)
Lemma blk_bounds_tie G c (N : nat) :
  let nn := node G (c_in (conn G c)) in let nm := node G (c_out (conn G c)) in
  let t_high := blk_t_high_src (n_period nn) (n_phase nn) (Z.of_nat N) in
  let t_low := blk_t_low_src (n_period nn) (n_phase nn) (Z.of_nat N) in
  let i0 := blk_i0_src (n_period nm) (n_phase nm) t_low (Z.of_nat N) in
  blk_cnt G c N = cnt_loop (Z.to_nat ((t_high - (i0 * n_period nm + n_phase nm)) / n_period nm + 3)) i0 (n_period nm) (n_phase nm) t_low t_high
                    (Nat.eqb N 0) (c_skip (conn G c)) 0.
Proof.
  cbv zeta. unfold blk_cnt, blk_t_high_src, blk_t_low_src, blk_i0_src. rewrite Z.gtb_ltb. reflexivity.
Qed.
