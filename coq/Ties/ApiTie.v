From Coq Require Import ZArith Lia.
From Rex Require Import Api.
From Rex.Generated Require Import Api.
Open Scope Z_scope.
Lemma replace_eps_tie x n : replace_eps_src x n = clip x n.
Proof. unfold replace_eps_src, clip. lia. Qed.
Lemma replace_step_tie x n : replace_step_src x n = clip x n.
Proof. unfold replace_step_src, clip. lia. Qed.
Lemma compose_tie GS (u r : GS -> GS) g : run_src GS u r g = run GS u r g /\ reset_src GS u g = reset GS u g /\ step_src GS u r g = step GS u r g.
Proof. repeat split. Qed.
