(* the kernels regenerated from rex/cem.py and rex/evo.py coincide with the hand model Cem.v: re-proved on every run *)
From Coq Require Import Reals Lra List ZArith QArith.
From Rex Require Import Ops Cem.
From Rex.Generated Require Import Solver.
Import ListNotations.

(* arithmetic kernels: stated at R and proved up to ring identities (a harmless algebraic rewrite of the source does not
   break them, a semantic change does) *)
Ltac tie := cbv zeta; first [reflexivity | cbv [oadd osub omul odiv oz omin omax Rops];
  first [lra | ring | (f_equal; first [ring | f_equal; ring])]].
Lemma gauss_tie (m sd lo hi z : R) : gauss_src Rops m sd lo hi z = gauss Rops m sd lo hi z.
Proof. unfold gauss_src, gauss. tie. Qed.
Lemma smooth_mean_tie (s x y : R) : smooth_mean_src Rops s x y = smooth Rops s x y.
Proof. unfold smooth_mean_src, smooth. tie. Qed.
Lemma smooth_stdev_tie (s x y : R) : smooth_stdev_src Rops s x y = smooth Rops s x y.
Proof. unfold smooth_stdev_src, smooth. tie. Qed.

(* structure and decisions: NaN -> inf, stable argsort, elite slice, first elite = best, strict `<` keeps the old best *)
Lemma nth0_hd {A} (l : list A) (d : A) : nth 0 l d = hd d l.
Proof. now destruct l. Qed.
Lemma update_tie sqrtq sm d ne s st xs ls : update_src sqrtq sm sm d ne s st xs ls = update sqrtq sm d ne s st xs ls.
Proof.
  unfold update_src, update, elite_samples, elites, pick. cbv zeta. rewrite !nth0_hd.
  change (map (fun l : loss => if is_nan l then PInf else num_of l) ls) with (map clean ls). reflexivity.
Qed.
Lemma init_state_tie m sd : init_state_src m sd = init_state m sd.
Proof. reflexivity. Qed.
Lemma step_tie sqrtq sm d N ne s lo hi noise f i st :
  step_src sqrtq sm d N ne s lo hi noise f i st = step sqrtq sm d N ne s lo hi noise f i st.
Proof. unfold step_src, step, sample_all, losses_of. cbv zeta. now rewrite update_tie. Qed.
Lemma scan_tie sqrtq sm d N ne s lo hi noise f n st :
  scan_src (step_src sqrtq sm d N ne s lo hi noise f) n st = run sqrtq sm d N ne s lo hi noise f n st.
Proof. induction n as [|n IH]; simpl; [reflexivity|]. now rewrite IH, step_tie. Qed.
Lemma evo_step_tie ES ask tell f i st : evo_step_src ES ask tell f i st = evo_step ES ask tell f i st.
Proof. unfold evo_step_src, evo_step, evo_losses. destruct (ask i st). reflexivity. Qed.
Lemma evo_scan_tie ES ask tell f n st : scan_src (evo_step_src ES ask tell f) n st = evo_run ES ask tell f n st.
Proof. induction n as [|n IH]; simpl; [reflexivity|]. now rewrite IH, evo_step_tie. Qed.
Lemma evo_clip_tie {A} (lo hi : A) : evo_clip_src lo hi = (lo, hi).
Proof. reflexivity. Qed.
