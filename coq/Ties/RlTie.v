(* the kernels regenerated from rex/rl.py coincide with the hand model (RlKernels.v / RlEnv.v): re-proved on every run *)
From Coq Require Import Reals Lra List ZArith Bool.
From Rex Require Import Ops RlKernels RlEnv RlLaws.
From Rex.Generated Require Import Rl.
(* stated at the carrier of the laws (R) with tanh / arctanh / sqrt arbitrary, and proved up to ring identities *)
Ltac rs := cbv [oadd osub omul odiv oz oopp omax omin o0 o1 Rops b2a].
Ltac tie := first [reflexivity | rs; first [lra | ring | (repeat f_equal; first [lra | ring])]].

Section Scalar.
Variables th ath sq : R -> R.
Lemma scale_tie s lo hi x : scale_src Rops ath s lo hi x = sq_scale Rops ath s lo hi x.
Proof. unfold scale_src, sq_scale. destruct s; cbv zeta; tie. Qed.
Lemma clip_tie x lo hi : clip_src Rops x lo hi = clip Rops x lo hi.
Proof. unfold clip_src, clip. cbv zeta. tie. Qed.
Lemma normalize_tie mean var c dc sm x : normalize_src Rops sq mean var c dc sm x = nv_normalize Rops sq mean var c dc sm x.
Proof. unfold normalize_src, nv_normalize, nv_eps, clip. destruct dc, sm; cbv zeta; tie. Qed.
Lemma denormalize_tie mean var am x : denormalize_src Rops sq mean var am x = nv_denormalize Rops sq mean var am x.
Proof. unfold denormalize_src, nv_denormalize, nv_eps. destruct am; cbv zeta; tie. Qed.
End Scalar.

(* unsquash: stated for tanh and proper bounds, so that it holds both of the pinned code and of a repaired version that
   clips the (already in-bounds, over R) result to the box *)
Lemma unsquash_tie s lo hi x : lo < hi -> unsquash_src Rops tanh s lo hi x = sq_unsquash Rops tanh s lo hi x.
Proof.
  intros H. pose proof (unsquash_in_bounds lo hi x H) as B. unfold unsquash_src. unfold sq_unsquash, clip in *.
  destruct s; cbv zeta; first [solve [tie] | (revert B; rs; unfold Rmin, Rmax; intros B; repeat destruct Rle_dec; lra)].
Qed.

Definition mom3 (s : mom (A:=R)) : R * R * R := (m_mean s, m_var s, m_count s).
Ltac pairs := repeat match goal with |- (_, _) = (_, _) => apply f_equal2 end.
Ltac tie3 := cbv zeta; cbn [m_mean m_var m_count]; pairs; tie.
Lemma nobs_reset_update_tie m v c bm bv bc :
  nobs_reset_update_src Rops m v c bm bv bc = mom3 (mom_update Rops {| m_mean := m; m_var := v; m_count := c |} bm bv bc).
Proof. unfold nobs_reset_update_src, mom3, mom_update. tie3. Qed.
Lemma nobs_step_update_tie m v c bm bv bc :
  nobs_step_update_src Rops m v c bm bv bc = mom3 (mom_update Rops {| m_mean := m; m_var := v; m_count := c |} bm bv bc).
Proof. unfold nobs_step_update_src, mom3, mom_update. tie3. Qed.
Lemma nrew_step_update_tie m v c bm bv bc :
  nrew_step_update_src Rops m v c bm bv bc = mom3 (mom_update Rops {| m_mean := m; m_var := v; m_count := c |} bm bv bc).
Proof. unfold nrew_step_update_src, mom3, mom_update. tie3. Qed.
Lemma prior_tie : nobs_prior_src Rops = mom3 (mom0 Rops) /\ nrew_prior_src Rops = mom3 (mom0 Rops).
Proof. unfold nobs_prior_src, nrew_prior_src, mom3, mom0. cbn [m_mean m_var m_count]. split; pairs; tie. Qed.
Lemma ret_update_tie gamma rv r te tr : ret_update_src Rops gamma rv r te tr = ret_update Rops gamma rv r te tr.
Proof. unfold ret_update_src, ret_update. cbv zeta. destruct te, tr; tie. Qed.
Lemma log_step_tie s r te tr : log_step_src Rops s r te tr = log_step Rops s r te tr.
Proof. unfold log_step_src, log_step. cbv zeta. destruct te, tr; cbn [orb]; apply f_equal5; tie. Qed.
Lemma log0_tie : log0_src Rops = log0 Rops.
Proof. unfold log0_src, log0. apply f_equal5; tie. Qed.

(* AutoResetWrapper: which (state, observation, info) triple is returned when *)
Section Auto.
Context {A : Type}.
Variables (C IB Rng : Type) (split : Rng -> Rng * Rng).
Lemma auto_fixed_tie (e : env (A:=A) C IB Rng) g a :
  e_step (auto_fixed e) g a =
  match e_step e g a with (g1, o, r, te, tr, i) =>
    match a_init g1 with
    | Some (c0, o0, i0) =>
        match auto_select_src (auto_done_src te tr) (set_core g1 c0) o0 i0 g1 o i with (ng, no, ni) => (ng, no, r, te, tr, ni) end
    | None => (g1, o, r, te, tr, i)
    end end.
Proof.
  simpl. destruct (e_step e g a) as [[[[[g1 o] r] te] tr] i]. destruct (a_init g1) as [[[c0 o0] i0]|]; [|reflexivity].
  unfold auto_select_src, auto_done_src. destruct (te || tr); reflexivity.
Qed.
Lemma auto_fresh_tie (e : env (A:=A) C IB Rng) g a :
  e_step (auto_fresh split e) g a =
  match e_step e g a with (g1, o, r, te, tr, i) =>
    let g2 := set_rng g1 (fst (split (g_rng g1))) in
    match e_reset e (snd (split (g_rng g1))) with (ig, io, ii) =>
      match auto_select_src (auto_done_src te tr) (with_aux_of ig g2) io ii g2 o i with (ng, no, ni) => (ng, no, r, te, tr, ni) end
    end end.
Proof.
  simpl. destruct (e_step e g a) as [[[[[g1 o] r] te] tr] i]. destruct (split (g_rng g1)) as [n ri]. simpl.
  destruct (e_reset e ri) as [[ig io] ii]. unfold auto_select_src, auto_done_src. destruct (te || tr); reflexivity.
Qed.
End Auto.

(* Environment.init / reset / step: the call chain *)
Section EnvTie.
Variables (GS SS Out Act Obs Rw Flag Info Rng : Type).
Variable graph_init : Rng -> Z -> GS.
Variable graph_reset : GS -> GS * SS.
Variable graph_step : GS -> SS -> Out -> GS * SS.
Variable get_step_state : GS -> SS.
Variable get_output : GS -> Act -> Out.
Variable pre_step : GS -> Act -> GS.
Variable post_step : GS -> option Act -> GS.
Variable get_reward : GS -> Act -> Rw.
Variables get_truncated get_terminated : GS -> Flag.
Variable get_info : GS -> option Act -> Info.
Variable get_observation : GS -> Obs.
Lemma env_step_tie gs a :
  env_step_src GS SS Out Act Obs Rw Flag Info graph_step get_step_state get_output pre_step post_step get_reward get_truncated
               get_terminated get_info get_observation gs a =
  env_step GS SS Out Act Obs Rw Flag Info graph_step get_step_state get_output pre_step post_step get_reward get_truncated
           get_terminated get_info get_observation gs a.
Proof. reflexivity. Qed.
Lemma env_init_tie oi rng : env_init_src GS SS Rng graph_init graph_reset oi rng = env_init GS SS Rng graph_init graph_reset oi rng.
Proof. reflexivity. Qed.
Lemma env_reset_tie oi rng :
  env_reset_src GS SS Act Obs Info Rng graph_init graph_reset post_step get_info get_observation oi rng =
  env_reset GS SS Act Obs Info Rng graph_init graph_reset post_step get_info get_observation oi rng.
Proof. reflexivity. Qed.
End EnvTie.
