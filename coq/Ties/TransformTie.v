(* the kernels regenerated from rex/base.py coincide with the hand model: re-proved on every run *)
From Coq Require Import Reals Lra List ZArith.
From Rex Require Import Ops Kernels Tree TreeLaws.
From Rex.Generated Require Import Transform.
(* stated at the carrier of the laws (R) and proved up to ring identities, so that a harmless algebraic rewrite of the
   source (e.g. commuting an addition) does not break the tie while a semantic change does *)
Ltac tie := first [reflexivity | cbv [oadd osub omul odiv oz Rops]; first [lra | ring | (field; lra)]].
Lemma denorm_offset_tie mn mx : denorm_offset_src Rops mn mx = denorm_offset Rops mn mx.
Proof. unfold denorm_offset_src, denorm_offset. tie. Qed.
Lemma denorm_scale_tie mn mx : denorm_scale_src Rops mn mx = denorm_scale Rops mn mx.
Proof. unfold denorm_scale_src, denorm_scale. tie. Qed.
Lemma denormalize_tie p o s : denormalize_src Rops p o s = denormalize Rops p o s.
Proof. unfold denormalize_src, denormalize. tie. Qed.
Lemma normalize_tie p o s : normalize_src Rops p o s = normalize Rops p o s.
Proof. unfold normalize_src, normalize. tie. Qed.
Lemma chain_apply_tie A (ts : list (transform A)) t : chain_apply_src ts t = app (TChain ts) t.
Proof. rewrite app_chain. reflexivity. Qed.
Lemma chain_inv_tie A (ts : list (transform A)) t : chain_inv_src ts t = inv (TChain ts) t.
Proof. rewrite inv_chain. unfold chain_inv_src, chain_inv. rewrite <- fold_left_rev_right, rev_involutive. reflexivity. Qed.
Lemma exponential_tie x : exponential_apply_src x = exp x /\ exponential_inv_src x = ln x.
Proof. split; reflexivity. Qed.
Lemma identity_tie A (t : tree A) : identity_src t = app TIdentity t /\ identity_src t = inv TIdentity t.
Proof. split; reflexivity. Qed.
Lemma extend_pick_tie A (b v : A) : extend_pick_src b None = b /\ extend_pick_src b (Some v) = v.
Proof. split; reflexivity. Qed.
Lemma shared_tie A w fr (t : tree A) : shared_apply_src w fr t = app (TShared w fr) t /\ shared_inv_src w t = inv (TShared w fr) t.
Proof. split; reflexivity. Qed.
