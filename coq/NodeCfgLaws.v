(* C16 proofs, part 2: set_delay takes effect (fields, infos, phases, simulated delay streams); info round trip *)
From Coq Require Import List ZArith Bool Lia.
From Rex Require Import Phase PhaseLaws NodeCfg.
Import ListNotations.
Open Scope Z_scope.

Section Cfg.
Variable D : Type.
Variable q99 : D -> Z.
Variable d0 : D.
Notation node := (node D). Notation conn := (conn D). Notation graph := (graph D).
Notation apply_op := (apply_op D q99 d0).
Notation find_node := (find_node D). Notation upd_node := (upd_node D).

(* ---- lookups under updates ---- *)
Lemma find_upd_same (g : graph) x (f : node -> node) n : (forall m, n_name D (f m) = n_name D m) ->
  find_node g x = Some n -> find_node (upd_node g x f) x = Some (f n).
Proof.
  intros Hf. unfold find_node, upd_node. induction g as [|m g IH]; simpl; [discriminate|].
  destruct (Z.eqb_spec (n_name D m) x) as [E|E].
  - intros [= ->]. simpl. rewrite Hf. rewrite (proj2 (Z.eqb_eq _ _) E). reflexivity.
  - intros H. simpl. rewrite (proj2 (Z.eqb_neq _ _) E). apply IH. exact H.
Qed.
Lemma find_upd_other (g : graph) x y (f : node -> node) : (forall m, n_name D (f m) = n_name D m) -> y <> x ->
  find_node (upd_node g x f) y = find_node g y.
Proof.
  intros Hf Hxy. unfold find_node, upd_node. induction g as [|m g IH]; simpl; [reflexivity|].
  destruct (Z.eqb_spec (n_name D m) x) as [E|E]; simpl.
  - rewrite Hf. destruct (Z.eqb_spec (n_name D m) y); [lia|]. apply IH.
  - rewrite IH. reflexivity.
Qed.
Lemma find_node_name (g : graph) x n : find_node g x = Some n -> n_name D n = x /\ In n g.
Proof. unfold find_node. intros H. apply find_some in H. destruct H as [H1 H2]. apply Z.eqb_eq in H2. auto. Qed.
Lemma find_node_none (g : graph) x (f : node -> node) : (forall m, n_name D (f m) = n_name D m) ->
  find_node g x = None -> find_node (upd_node g x f) x = None.
Proof.
  intros Hf. unfold find_node, upd_node. induction g as [|m g IH]; simpl; [reflexivity|].
  destruct (Z.eqb_spec (n_name D m) x) as [E|E]; [discriminate|]. intros H. simpl.
  rewrite (proj2 (Z.eqb_neq _ _) E). apply IH. exact H.
Qed.


Ltac fus H := lazymatch goal with |- NodeCfg.find_node _ (NodeCfg.upd_node _ ?g ?x ?f) _ = _ =>
  exact (find_upd_same g x f _ (fun _ => eq_refl) H) end.
Ltac rw_same n H := match goal with |- context [NodeCfg.find_node _ (NodeCfg.upd_node _ ?g ?x ?f) ?x] =>
  rewrite (find_upd_same g x f n (fun _ => eq_refl) H) end.
Ltac rw_none H := match goal with |- context [NodeCfg.find_node _ (NodeCfg.upd_node _ ?g ?x ?f) ?x] =>
  rewrite (find_node_none g x f (fun _ => eq_refl) H) end.

(* ---- BaseNode.set_delay ---- *)
Definition new_dist (cur : D) (arg : option D) : D := match arg with Some d => d | None => cur end.
Definition new_delay (cur : Z) (arg : option Z) : Z := match arg with Some e => e | None => cur end.

(* the node's distribution and expected delay become the arguments that are given, everything else is kept *)
Theorem set_delay_node_takes_effect (g : graph) x n dist delay : find_node g x = Some n ->
  exists n', find_node (apply_op v_ok g (OSetNode D x dist delay)) x = Some n' /\
    n_dist D n' = new_dist (n_dist D n) dist /\ n_delay D n' = new_delay (n_delay D n) delay /\
    n_name D n' = n_name D n /\ n_rate D n' = n_rate D n /\ n_advance D n' = n_advance D n /\ n_sched D n' = n_sched D n /\
    n_inputs D n' = n_inputs D n.
Proof.
  intros H. exists (set_delay_node1 D v_ok n dist delay). split.
  - simpl. fus H.
  - destruct dist, delay; simpl; repeat split; reflexivity.
Qed.
Theorem set_delay_node_frame v (g : graph) x y dist delay : y <> x ->
  find_node (apply_op v g (OSetNode D x dist delay)) y = find_node g y.
Proof. intros H. simpl. apply find_upd_other; [reflexivity|exact H]. Qed.
Theorem set_delay_node_none_keeps v (g : graph) x : apply_op v g (OSetNode D x None None) = g.
Proof.
  simpl. unfold NodeCfg.upd_node. rewrite <- (map_id g) at 2. apply map_ext. intros n.
  destruct (n_name D n =? x); [destruct n; reflexivity|reflexivity].
Qed.

(* ---- Connection.set_delay ---- *)
Notation find_conn := (find_conn D).
Lemma find_conn_map (l : list conn) k (f : conn -> conn) c : (forall c, c_key D (f c) = c_key D c) ->
  find (fun c => c_key D c =? k) l = Some c ->
  find (fun c => c_key D c =? k) (map (fun c => if c_key D c =? k then f c else c) l) = Some (f c).
Proof.
  intros Hf. induction l as [|a l IH]; simpl; [discriminate|].
  destruct (Z.eqb_spec (c_key D a) k) as [E|E].
  - intros [= ->]. rewrite Hf, (proj2 (Z.eqb_eq _ _) E). reflexivity.
  - intros H. rewrite (proj2 (Z.eqb_neq _ _) E). apply IH. exact H.
Qed.
Lemma find_conn_map_other (l : list conn) k k' (f : conn -> conn) : (forall c, c_key D (f c) = c_key D c) -> k' <> k ->
  find (fun c => c_key D c =? k') (map (fun c => if c_key D c =? k then f c else c) l) = find (fun c => c_key D c =? k') l.
Proof.
  intros Hf Hk. induction l as [|a l IH]; simpl; [reflexivity|].
  destruct (Z.eqb_spec (c_key D a) k) as [E|E]; [rewrite Hf|]; rewrite IH; [|reflexivity].
  destruct (Z.eqb_spec (c_key D a) k'); [lia|reflexivity].
Qed.

Theorem set_delay_conn_takes_effect (g : graph) r k n c dist delay : find_node g r = Some n -> find_conn n k = Some c ->
  exists n' c', find_node (apply_op v_ok g (OSetConn D r k dist delay)) r = Some n' /\ find_conn n' k = Some c' /\
    c_dist D c' = new_dist (c_dist D c) dist /\ c_delay D c' = new_delay (c_delay D c) delay /\
    c_key D c' = c_key D c /\ c_out D c' = c_out D c /\ c_blocking D c' = c_blocking D c /\ c_window D c' = c_window D c /\
    c_skip D c' = c_skip D c /\ c_jitter D c' = c_jitter D c /\
    n_dist D n' = n_dist D n /\ n_delay D n' = n_delay D n /\ n_name D n' = n_name D n /\ n_rate D n' = n_rate D n /\
    (forall k', k' <> k -> find_conn n' k' = find_conn n k').
Proof.
  intros Hn Hc.
  exists (set_inputs D n (map (fun c => if c_key D c =? k then set_delay_conn1 D v_ok c dist delay else c) (n_inputs D n))),
         (set_delay_conn1 D v_ok c dist delay).
  split; [simpl; fus Hn|].
  split; [unfold NodeCfg.find_conn; simpl; exact (find_conn_map _ k (fun c => set_delay_conn1 D v_ok c dist delay) c (fun _ => eq_refl) Hc)|].
  destruct dist, delay; simpl; repeat split; try reflexivity;
    intros k' Hk; unfold NodeCfg.find_conn; simpl;
    exact (find_conn_map_other _ k k' (fun c => set_delay_conn1 D v_ok c _ _) (fun _ => eq_refl) Hk).
Qed.
Theorem set_delay_conn_frame v (g : graph) r k y dist delay : y <> r ->
  find_node (apply_op v g (OSetConn D r k dist delay)) y = find_node g y.
Proof. intros H. simpl. apply find_upd_other; [reflexivity|exact H]. Qed.

(* ---- ... in infos ---- *)
Theorem node_info_fields (g : graph) n i : node_info g n = Some i ->
  ni_dist D i = n_dist D n /\ ni_delay D i = n_delay D n /\ gphase g (n_name D n) = Some (ni_phase D i) /\
  ni_rate D i = n_rate D n /\ ni_name D i = n_name D n /\ ni_advance D i = n_advance D n /\ ni_sched D i = n_sched D n.
Proof.
  unfold node_info. destruct (gphase g (n_name D n)) as [p|]; [|discriminate].
  destruct (all_some _) as [iis|]; [|discriminate]. intros [= <-]. simpl. repeat split; reflexivity.
Qed.
Theorem conn_info_fields (g : graph) c ii : conn_info D g c = Some ii ->
  ii_dist D ii = c_dist D c /\ ii_delay D ii = c_delay D c /\ ii_name D ii = c_key D c /\ ii_output D ii = c_out D c /\
  ii_window D ii = c_window D c /\ ii_blocking D ii = c_blocking D c /\ ii_skip D ii = c_skip D c /\ ii_jitter D ii = c_jitter D c /\
  ii_rate D ii = g_rate D g (c_out D c) /\
  exists p, gphase g (c_out D c) = Some p /\ ii_phase D ii = p + g_ndelay D g (c_out D c) + c_delay D c.
Proof.
  unfold conn_info. destruct (gphase g (c_out D c)) as [p|]; [|discriminate]. intros [= <-]. simpl.
  repeat split; try reflexivity. exists p. split; reflexivity.
Qed.
Corollary set_delay_node_in_info (g : graph) x n d e i n' :
  find_node g x = Some n -> find_node (apply_op v_ok g (OSetNode D x (Some d) (Some e))) x = Some n' ->
  node_info (apply_op v_ok g (OSetNode D x (Some d) (Some e))) n' = Some i -> ni_dist D i = d /\ ni_delay D i = e.
Proof.
  intros Hn Hn' Hi. destruct (set_delay_node_takes_effect g x n (Some d) (Some e) Hn) as (m & Hm & Hd & He & _).
  rewrite Hm in Hn'. injection Hn' as <-. destruct (node_info_fields _ _ _ Hi) as (A & B & _). simpl in Hd, He. split; congruence.
Qed.

(* ---- ... in phases: the phases of the new configuration are the longest paths for the new expected delays ---- *)
Theorem gphase_longest_path (g : graph) n p : gphase g n = Some p ->
  (forall w, path (g_inputs D g) (g_ndelay D g) n w -> w <= p) /\ path (g_inputs D g) (g_ndelay D g) n p.
Proof. apply phase_longest_path. Qed.

Lemma g_ndelay_set_node (g : graph) x n dist delay y : find_node g x = Some n ->
  g_ndelay D (apply_op v_ok g (OSetNode D x dist delay)) y = if y =? x then new_delay (n_delay D n) delay else g_ndelay D g y.
Proof.
  intros Hn. unfold g_ndelay. destruct (Z.eqb_spec y x) as [->|Hy].
  - destruct (set_delay_node_takes_effect g x n dist delay Hn) as (m & -> & _ & He & _). exact He.
  - rewrite set_delay_node_frame by exact Hy. reflexivity.
Qed.
Lemma g_inputs_set_node v (g : graph) x dist delay y :
  g_inputs D (apply_op v g (OSetNode D x dist delay)) y = g_inputs D g y.
Proof.
  unfold g_inputs. destruct (Z.eq_dec y x) as [->|Hy]; [|rewrite set_delay_node_frame by exact Hy; reflexivity].
  destruct (find_node g x) as [n|] eqn:Hn.
  - simpl. rw_same n Hn. reflexivity.
  - simpl. rw_none Hn. reflexivity.
Qed.
Theorem phase_after_set_delay_node (g : graph) x n dist delay y p : find_node g x = Some n ->
  gphase (apply_op v_ok g (OSetNode D x dist delay)) y = Some p ->
  let nd := fun z => if z =? x then new_delay (n_delay D n) delay else g_ndelay D g z in
  (forall w, path (g_inputs D g) nd y w -> w <= p) /\ path (g_inputs D g) nd y p.
Proof.
  intros Hn H nd. destruct (gphase_longest_path _ _ _ H) as [U P]. split.
  - intros w Hw. apply U. eapply path_ext; [| |exact Hw].
    + intros z. symmetry. apply g_inputs_set_node.
    + intros z. symmetry. apply g_ndelay_set_node. exact Hn.
  - eapply path_ext; [| |exact P]; [apply g_inputs_set_node|intros z; apply g_ndelay_set_node; exact Hn].
Qed.

Lemma g_ndelay_set_conn v (g : graph) r k dist delay y :
  g_ndelay D (apply_op v g (OSetConn D r k dist delay)) y = g_ndelay D g y.
Proof.
  unfold g_ndelay. destruct (Z.eq_dec y r) as [->|Hy]; [|rewrite set_delay_conn_frame by exact Hy; reflexivity].
  destruct (find_node g r) as [n|] eqn:Hn.
  - simpl. rw_same n Hn. reflexivity.
  - simpl. rw_none Hn. reflexivity.
Qed.
Lemma g_inputs_set_conn (g : graph) r k dist delay y :
  g_inputs D (apply_op v_ok g (OSetConn D r k dist delay)) y =
  if y =? r then map (fun i => if fst i =? k then {| i_out := i_out (snd i); i_delay := new_delay (i_delay (snd i)) delay; i_skip := i_skip (snd i) |}
                               else snd i)
                     (match find_node g r with Some n => map (fun c => (c_key D c, inp_of_conn D c)) (n_inputs D n) | None => [] end)
  else g_inputs D g y.
Proof.
  unfold g_inputs. destruct (Z.eqb_spec y r) as [->|Hy]; [|rewrite set_delay_conn_frame by exact Hy; reflexivity].
  destruct (find_node g r) as [n|] eqn:Hn.
  - simpl. rw_same n Hn. simpl. rewrite !map_map. apply map_ext.
    intros c. simpl. destruct (c_key D c =? k); [destruct delay|]; reflexivity.
  - simpl. rw_none Hn. reflexivity.
Qed.
(* the phases after Connection.set_delay are the longest paths for the connection's new expected delay *)
Theorem phase_after_set_delay_conn (g : graph) r k dist delay y p :
  gphase (apply_op v_ok g (OSetConn D r k dist delay)) y = Some p ->
  let ins := fun z => g_inputs D (apply_op v_ok g (OSetConn D r k dist delay)) z in
  (forall z, ins z = if z =? r then map (fun i => if fst i =? k then {| i_out := i_out (snd i); i_delay := new_delay (i_delay (snd i)) delay; i_skip := i_skip (snd i) |} else snd i)
                     (match find_node g r with Some n => map (fun c => (c_key D c, inp_of_conn D c)) (n_inputs D n) | None => [] end)
                   else g_inputs D g z) /\
  (forall w, path ins (g_ndelay D g) y w -> w <= p) /\ path ins (g_ndelay D g) y p.
Proof.
  intros H ins. split; [intros z; apply g_inputs_set_conn|].
  destruct (gphase_longest_path _ _ _ H) as [U P]. split.
  - intros w Hw. apply U. eapply path_ext; [| |exact Hw]; [reflexivity|intros z; symmetry; apply g_ndelay_set_conn].
  - eapply path_ext; [| |exact P]; [reflexivity|intros z; apply g_ndelay_set_conn].
Qed.

(* ---- ... in subsequent simulation: the k-th delay drawn is the k-th sample of the distribution that was set ---- *)
Section Sim.
Variable draw : D -> nat -> Z.
Theorem step_delay_after_set_delay (g : graph) x n d delay k : find_node g x = Some n ->
  step_delay D draw (apply_op v_ok g (OSetNode D x (Some d) delay)) x k = Some (draw d k).
Proof.
  intros Hn. unfold step_delay. destruct (set_delay_node_takes_effect g x n (Some d) delay Hn) as (m & -> & Hd & _).
  simpl in *. rewrite Hd. reflexivity.
Qed.
Theorem msg_delay_after_set_delay (g : graph) r key n c d delay k : find_node g r = Some n -> find_conn n key = Some c ->
  msg_delay D draw (apply_op v_ok g (OSetConn D r key (Some d) delay)) r key k = Some (draw d k).
Proof.
  intros Hn Hc. unfold msg_delay.
  destruct (set_delay_conn_takes_effect g r key n c (Some d) delay Hn Hc) as (n' & c' & -> & -> & Hd & _).
  simpl in *. rewrite Hd. reflexivity.
Qed.
End Sim.

(* ---- info round trip ---- *)
Lemma all_some_map {X Y} (f : X -> option Y) (h : Y -> X) l r :
  all_some (map f l) = Some r -> (forall x y, In x l -> f x = Some y -> h y = x) -> map h r = l.
Proof.
  revert r. induction l as [|x l IH]; intros r H Hh; simpl in H; [injection H as <-; reflexivity|].
  destruct (f x) as [y|] eqn:E; [|discriminate]. destruct (all_some (map f l)) as [r'|]; [|discriminate].
  injection H as <-. simpl. rewrite (Hh x y) by (auto; now left). f_equal. apply IH; [reflexivity|].
  intros; apply Hh; auto. now right.
Qed.
Lemma all_some_spec {X Y} (f : X -> option Y) l r : all_some (map f l) = Some r ->
  length r = length l /\ forall k x, nth_error l k = Some x -> exists y, nth_error r k = Some y /\ f x = Some y.
Proof.
  revert r. induction l as [|x l IH]; intros r H; simpl in H.
  - injection H as <-. split; [reflexivity|]. intros [|k] ? ?; discriminate.
  - destruct (f x) as [y|] eqn:E; [|discriminate]. destruct (all_some (map f l)) as [r'|]; [|discriminate].
    injection H as <-. destruct (IH r' eq_refl) as [L N]. split; [simpl; lia|].
    intros [|k] z Hz; simpl in *; [injection Hz as <-; eauto|apply N; exact Hz].
Qed.

Lemma kv_set_notin {V} k (v : V) l : ~ In k (map fst l) -> kv_set k v l = l ++ [(k, v)].
Proof.
  induction l as [|[k' v'] l IH]; intros H; simpl; [reflexivity|].
  destruct (Z.eqb_spec k' k) as [->|E]; [exfalso; apply H; now left|]. rewrite IH; [reflexivity|]. intros Hin. apply H. now right.
Qed.
Lemma kv_of_list_nodup {V} (l : list (Z * V)) : NoDup (map fst l) -> kv_of_list l = l.
Proof.
  unfold kv_of_list. intros H.
  assert (G : forall acc, NoDup (map fst (acc ++ l)) -> fold_left (fun d kv => kv_set (fst kv) (snd kv) d) l acc = acc ++ l).
  { clear H. induction l as [|[k v] l IH]; intros acc H; simpl; [rewrite app_nil_r; reflexivity|].
    rewrite kv_set_notin.
    - rewrite IH; rewrite <- app_assoc; [reflexivity|exact H].
    - rewrite map_app in H. simpl in H. apply NoDup_remove_2 in H. intros Hin. apply H. apply in_or_app. now left. }
  apply (G []). exact H.
Qed.
Lemma dict_set_notin c (l : list conn) : ~ In (c_key D c) (map (c_key D) l) -> dict_set D c l = l ++ [c].
Proof.
  induction l as [|x l IH]; intros H; simpl; [reflexivity|].
  destruct (Z.eqb_spec (c_key D x) (c_key D c)) as [E|E]; [exfalso; apply H; now left|]. rewrite IH; [reflexivity|].
  intros Hin. apply H. now right.
Qed.

Definition conn_of_info (v : variant) (kv : Z * inputinfo D) : conn :=
  let ii := snd kv in
  {| c_key := cfi_name (v_cfi_key v) (fst kv) (ii_name D ii); c_out := ii_output D ii; c_blocking := ii_blocking D ii;
     c_delay := ii_delay D ii; c_dist := ii_dist D ii; c_window := ii_window D ii; c_skip := ii_skip D ii; c_jitter := ii_jitter D ii |}.

Lemma rebuild_node_inputs v (i : nodeinfo D) : NoDup (map (fun kv => c_key D (conn_of_info v kv)) (ni_inputs D i)) ->
  rebuild_node q99 d0 v i =
  set_inputs D (node_of_info D q99 d0 i) (map (conn_of_info v) (ni_inputs D i)).
Proof.
  unfold rebuild_node. intros H.
  assert (G : forall l n, NoDup (map (c_key D) (n_inputs D n ++ map (conn_of_info v) l)) ->
     fold_left (fun n kv => let ii := snd kv in
               connect_node D q99 d0 n (ii_output D ii) (ii_blocking D ii) (Some (ii_delay D ii)) (Some (ii_dist D ii)) (ii_window D ii)
                            (ii_skip D ii) (ii_jitter D ii) (Some (cfi_name (v_cfi_key v) (fst kv) (ii_name D ii)))) l n =
     set_inputs D n (n_inputs D n ++ map (conn_of_info v) l)).
  { induction l as [|kv l IH]; intros n Hn; simpl.
    - rewrite app_nil_r. destruct n; reflexivity.
    - rewrite IH.
      + unfold connect_node. simpl. rewrite dict_set_notin.
        * unfold set_inputs; simpl. rewrite <- app_assoc. reflexivity.
        * simpl. rewrite map_app in Hn. simpl in Hn. apply NoDup_remove_2 in Hn. intros Hin. apply Hn. apply in_or_app. now left.
      + unfold connect_node. simpl. rewrite dict_set_notin.
        * rewrite <- app_assoc. exact Hn.
        * simpl. rewrite map_app in Hn. simpl in Hn. apply NoDup_remove_2 in Hn. intros Hin. apply Hn. apply in_or_app. now left. }
  rewrite G; [reflexivity|]. simpl. rewrite map_map. exact H.
Qed.

(* one node: rebuilding it from its info gives the node back, with all its connections under their input names *)
Theorem rebuild_node_info (g : graph) n i :
  NoDup (map (c_key D) (n_inputs D n)) -> NoDup (map (c_out D) (n_inputs D n)) ->
  node_info g n = Some i -> rebuild_node q99 d0 v_ok i = n.
Proof.
  intros Hk Ho Hi. unfold node_info in Hi.
  destruct (gphase g (n_name D n)) as [p|]; [|discriminate].
  destruct (all_some (map (conn_info D g) (n_inputs D n))) as [iis|] eqn:Ha; [|discriminate].
  injection Hi as <-.
  assert (Hm : map (fun ii => conn_of_info v_ok (ii_output D ii, ii)) iis = n_inputs D n).
  { apply (all_some_map (conn_info D g) _ _ _ Ha). intros c ii _ Hc.
    destruct (conn_info_fields _ _ _ Hc) as (A & B & C & E & F & G & H & I & _).
    unfold conn_of_info; simpl. rewrite A, B, C, E, F, G, H, I. destruct c; reflexivity. }
  assert (Hout : map fst (map (fun ii => (ii_output D ii, ii)) iis) = map (c_out D) (n_inputs D n)).
  { rewrite <- Hm, !map_map. apply map_ext. reflexivity. }
  rewrite rebuild_node_inputs; simpl.
  - rewrite kv_of_list_nodup by (rewrite Hout; exact Ho). rewrite map_map. simpl. rewrite Hm. destruct n; reflexivity.
  - rewrite kv_of_list_nodup by (rewrite Hout; exact Ho). rewrite map_map. simpl.
    rewrite <- Hm in Hk. rewrite map_map in Hk. exact Hk.
Qed.

(* the whole configuration: from_info for every node, then connect_from_info for every node *)
Theorem info_roundtrip (g : graph) is : wf D g -> infos g = Some is -> rebuild q99 d0 v_ok is = g.
Proof.
  intros [_ Hw] H. unfold infos in H. unfold rebuild. apply (all_some_map (node_info g) _ _ _ H).
  intros n i Hn Hi. destruct (Hw n Hn) as (Hk & Ho & _). eapply rebuild_node_info; eauto.
Qed.
(* hence equal infos, equal phases and equal connections *)
Corollary info_roundtrip_observables (g : graph) is : wf D g -> infos g = Some is ->
  let g' := rebuild q99 d0 v_ok is in
  infos g' = Some is /\ (forall x, gphase g' x = gphase g x) /\ map (n_inputs D) g' = map (n_inputs D) g.
Proof. intros Hw H g'. unfold g'. rewrite (info_roundtrip g is Hw H). auto. Qed.

(* the key-as-name variant loses every shadow input name *)
Theorem info_roundtrip_keyname_refuted (g : graph) is n c : wf D g -> infos g = Some is ->
  In n g -> In c (n_inputs D n) -> c_key D c <> c_out D c ->
  rebuild q99 d0 {| v_sd_node := false; v_sd_conn := false; v_cfi_key := true |} is <> g.
Proof.
  intros [Hnd Hw] H Hn Hc Hne Heq.
  unfold infos in H. destruct (all_some_spec _ _ _ H) as [_ Hnth].
  destruct (In_nth_error _ _ Hn) as [k Hk]. destruct (Hnth k n Hk) as (i & Hi & Hni).
  assert (Hr : nth_error (rebuild q99 d0 {| v_sd_node := false; v_sd_conn := false; v_cfi_key := true |} is) k = Some n) by (rewrite Heq; exact Hk).
  unfold rebuild in Hr. rewrite nth_error_map, Hi in Hr. simpl in Hr. injection Hr as Hr.
  destruct (Hw n Hn) as (Hkeys & Houts & _).
  unfold node_info in Hni. destruct (gphase g (n_name D n)) as [p|]; [|discriminate].
  destruct (all_some (map (conn_info D g) (n_inputs D n))) as [iis|] eqn:Ha; [|discriminate]. injection Hni as <-.
  set (vb := {| v_sd_node := false; v_sd_conn := false; v_cfi_key := true |}) in *.
  assert (Hm : map (fun ii => conn_of_info vb (ii_output D ii, ii)) iis =
               map (fun c => {| c_key := c_out D c; c_out := c_out D c; c_blocking := c_blocking D c; c_delay := c_delay D c;
                                c_dist := c_dist D c; c_window := c_window D c; c_skip := c_skip D c; c_jitter := c_jitter D c |}) (n_inputs D n)).
  { clear - Ha. revert iis Ha. induction (n_inputs D n) as [|c l IH]; intros iis Ha; simpl in Ha.
    - injection Ha as <-. reflexivity.
    - destruct (conn_info D g c) as [ii|] eqn:Hc; [|discriminate]. destruct (all_some (map (conn_info D g) l)) as [r|]; [|discriminate].
      injection Ha as <-. simpl. rewrite (IH r eq_refl). f_equal.
      destruct (conn_info_fields _ _ _ Hc) as (A & B & C & E & F & G & H & I & _).
      unfold conn_of_info; simpl. rewrite A, B, E, F, G, H, I. reflexivity. }
  assert (Hout : map fst (map (fun ii => (ii_output D ii, ii)) iis) = map (c_out D) (n_inputs D n)).
  { transitivity (map (c_out D) (map (fun ii => conn_of_info vb (ii_output D ii, ii)) iis)); [rewrite !map_map; reflexivity|].
    rewrite Hm, map_map. reflexivity. }
  rewrite rebuild_node_inputs in Hr; simpl in Hr.
  - rewrite kv_of_list_nodup in Hr by (rewrite Hout; exact Houts). rewrite map_map in Hr. simpl in Hr.
    assert (Hin : n_inputs D n = map (fun ii => conn_of_info vb (ii_output D ii, ii)) iis) by (rewrite <- Hr at 1; reflexivity).
    rewrite Hm in Hin. rewrite Hin in Hc. apply in_map_iff in Hc. destruct Hc as (c' & <- & _). simpl in Hne. congruence.
  - cbn [ni_inputs]. rewrite kv_of_list_nodup by (rewrite Hout; exact Houts). rewrite map_map.
    assert (Hk2 : map (fun ii => c_key D (conn_of_info vb (ii_output D ii, ii))) iis = map (c_out D) (n_inputs D n)).
    { rewrite <- (map_map (fun ii => conn_of_info vb (ii_output D ii, ii)) (c_key D)), Hm, map_map. reflexivity. }
    cbn [fst snd] in *. rewrite Hk2. exact Houts.
Qed.

(* the argument-ignoring variants of set_delay *)
Theorem set_delay_node_ignoring_refuted (g : graph) x n d delay : find_node g x = Some n -> n_dist D n <> d ->
  exists n', find_node (apply_op {| v_sd_node := true; v_sd_conn := false; v_cfi_key := false |} g (OSetNode D x (Some d) delay)) x = Some n' /\
             n_dist D n' <> d.
Proof.
  intros Hn Hd. eexists. split; [simpl; fus Hn|]. simpl. exact Hd.
Qed.
Theorem set_delay_conn_ignoring_refuted (g : graph) r k n c d delay : find_node g r = Some n -> find_conn n k = Some c ->
  c_dist D c <> d ->
  exists n' c', find_node (apply_op {| v_sd_node := false; v_sd_conn := true; v_cfi_key := false |} g (OSetConn D r k (Some d) delay)) r = Some n' /\
                find_conn n' k = Some c' /\ c_dist D c' <> d.
Proof.
  intros Hn Hc Hd. eexists. eexists. split; [simpl; fus Hn|].
  split; [unfold NodeCfg.find_conn; simpl; exact (find_conn_map _ k (fun c => set_delay_conn1 D _ c (Some d) delay) c (fun _ => eq_refl) Hc)|]. simpl. exact Hd.
Qed.
End Cfg.
