(* C16: node phases = longest expected-delay path over non-skipped connections; un-skipped cycles are reported *)
From Coq Require Import List Arith ZArith Bool Lia.
Import ListNotations.
Open Scope Z_scope.

Record inp := { i_out : nat; i_delay : Z; i_skip : bool }.
Section G.
Variable inputs : nat -> list inp.     (* incoming connections of a node *)
Variable ndelay : nat -> Z.            (* expected computation delay of a node *)

(* BaseNode.phase / Connection.phase, recursion depth made explicit: None = RecursionError *)
Fixpoint phase (fuel : nat) (n : nat) : option Z :=
  match fuel with O => None
  | S fuel =>
      fold_right (fun i acc =>
        if i_skip i then acc else
        match acc, phase fuel (i_out i) with
        | Some a, Some p => Some (Z.max a (p + ndelay (i_out i) + i_delay i))
        | _, _ => None end) (Some 0) (inputs n)
  end.

(* weighted non-skip paths ending at n *)
Inductive path : nat -> Z -> Prop :=
| p_nil n : path n 0
| p_cons n i w : In i (inputs n) -> i_skip i = false -> path (i_out i) w -> path n (w + ndelay (i_out i) + i_delay i).

Definition fold_spec (fuel : nat) (l : list inp) (r : option Z) : Prop :=
  match r with
  | Some p => 0 <= p /\ (forall i, In i l -> i_skip i = false -> exists q, phase fuel (i_out i) = Some q /\ q + ndelay (i_out i) + i_delay i <= p) /\
              (p = 0 \/ exists i q, In i l /\ i_skip i = false /\ phase fuel (i_out i) = Some q /\ p = q + ndelay (i_out i) + i_delay i)
  | None => exists i, In i l /\ i_skip i = false /\ phase fuel (i_out i) = None
  end.

Lemma fold_ok fuel l :
  fold_spec fuel l (fold_right (fun i acc =>
        if i_skip i then acc else
        match acc, phase fuel (i_out i) with
        | Some a, Some p => Some (Z.max a (p + ndelay (i_out i) + i_delay i))
        | _, _ => None end) (Some 0) l).
Proof.
  induction l as [|i l IH]; simpl.
  - split; [lia|]. split; [intros ? []|now left].
  - destruct (i_skip i) eqn:Es.
    + destruct (fold_right _ _ l) as [a|]; simpl in *.
      * destruct IH as (H0 & H1 & H2). split; [exact H0|]. split.
        -- intros j [<-|Hj] Hs; [congruence|]. apply H1; auto.
        -- destruct H2 as [->|(j & q & Hj & Hs & Hp & ->)]; [now left|right; exists j, q; auto].
      * destruct IH as (j & Hj & Hs & Hp). exists j. auto.
    + destruct (fold_right _ _ l) as [a|]; simpl in *.
      * destruct IH as (H0 & H1 & H2). destruct (phase fuel (i_out i)) as [p|] eqn:Ep; simpl.
        -- split; [lia|]. split.
           ++ intros j [<-|Hj] Hs; [exists p; split; [exact Ep|lia]|].
              destruct (H1 j Hj Hs) as (q & Hq & Hle). exists q. split; [exact Hq|lia].
           ++ destruct (Z.max_spec a (p + ndelay (i_out i) + i_delay i)) as [[_ ->]|[_ ->]].
              ** right. exists i, p. auto.
              ** destruct H2 as [->|(j & q & Hj & Hs & Hp & ->)]; [now left|right; exists j, q; auto].
        -- exists i. auto.
      * destruct IH as (j & Hj & Hs & Hp). destruct (phase fuel (i_out i)); exists j; auto.
Qed.

(* (a) every non-skip path into n weighs at most phase n; (b) phase n is attained by a path *)
Theorem phase_longest_path fuel : forall n p, phase fuel n = Some p ->
  (forall w, path n w -> w <= p) /\ path n p.
Proof.
  induction fuel as [|fuel IH]; intros n p H; [discriminate|].
  simpl in H. pose proof (fold_ok fuel (inputs n)) as F. rewrite H in F. destruct F as (H0 & H1 & H2).
  split.
  - intros w Hw. inversion Hw; subst; [exact H0|].
    destruct (H1 i H3 H4) as (q & Hq & Hle). destruct (IH _ _ Hq) as [Hub _]. specialize (Hub _ H5). lia.
  - destruct H2 as [->|(i & q & Hi & Hs & Hq & ->)]; [constructor|].
    destruct (IH _ _ Hq) as [_ Hp]. econstructor; eauto.
Qed.

(* an un-skipped cycle reachable against the arrows makes the computation fail whatever the depth *)
Inductive back : nat -> nat -> Prop :=      (* back n m: m is a non-skip predecessor of n, transitively (>= 1 step) *)
| b_one n i : In i (inputs n) -> i_skip i = false -> back n (i_out i)
| b_more n i m : In i (inputs n) -> i_skip i = false -> back (i_out i) m -> back n m.
Definition loops (n : nat) : Prop := back n n \/ exists m, back n m /\ back m m.

Lemma back_first n m : back n m ->
  exists i, In i (inputs n) /\ i_skip i = false /\ (i_out i = m \/ back (i_out i) m).
Proof. intros H. destruct H; exists i; auto. Qed.

Lemma loops_pred n : loops n -> exists i, In i (inputs n) /\ i_skip i = false /\ loops (i_out i).
Proof.
  intros [H|(m & Hm & Hmm)].
  - destruct (back_first _ _ H) as (i & Hi & Hs & [He|Hb]); exists i; repeat split; auto.
    + left. rewrite He. exact H.
    + right. exists n. auto.
  - destruct (back_first _ _ Hm) as (i & Hi & Hs & [He|Hb]); exists i; repeat split; auto.
    + left. rewrite He. exact Hmm.
    + right. exists m. auto.
Qed.

Theorem phase_loop_detected fuel : forall n, loops n -> phase fuel n = None.
Proof.
  induction fuel as [|fuel IH]; intros n Hl; [reflexivity|].
  destruct (loops_pred n Hl) as (i & Hi & Hs & Hli).
  simpl. pose proof (fold_ok fuel (inputs n)) as F.
  destruct (fold_right _ _ (inputs n)) as [p|]; [|reflexivity].
  destruct F as (_ & H1 & _). destruct (H1 i Hi Hs) as (q & Hq & _). rewrite (IH _ Hli) in Hq. discriminate.
Qed.
End G.
Print Assumptions phase_longest_path.
Print Assumptions phase_loop_detected.
