(* C16 model, part 1: node phases.  rex/node.py: BaseNode.phase / BaseNode.phase_output / Connection.phase.
   Times are integer ticks (DESIGN 1.1); node names are integers.  Proofs are in PhaseLaws.v. *)
From Coq Require Import List ZArith Bool.
Import ListNotations.
Open Scope Z_scope.

(* an incoming connection as seen by the phase computation: sender, expected communication delay, skip flag *)
Record inp := { i_out : Z; i_delay : Z; i_skip : bool }.

(* BaseNode.phase_output:  self.phase + self.delay *)
Definition phase_output (phase delay : Z) : Z := phase + delay.
(* Connection.phase:  self.output_node.phase_output + self.delay *)
Definition conn_phase (phase_out delay : Z) : Z := phase_out + delay.
(* BaseNode.phase:  max([0.0] + [i.phase * 1.00 for i in self.inputs.values() if not i.skip]);
   an entry is (skip, value of i.phase), None = evaluating i.phase raised (RecursionError); skipped entries are never evaluated *)
Definition phase_combine (l : list (bool * option Z)) : option Z :=
  fold_right (fun (sp : bool * option Z) (acc : option Z) => if fst sp then acc else
                match acc, snd sp with Some a, Some p => Some (Z.max a p) | _, _ => None end) (Some 0) l.

Section G.
Variable inputs : Z -> list inp.     (* incoming connections of a node, in dict order *)
Variable ndelay : Z -> Z.            (* expected computation delay of a node *)

(* the mutual recursion phase -> Connection.phase -> phase_output -> phase with its depth made explicit:
   None = the recursion did not bottom out within `fuel` levels (Python: RecursionError, re-raised as "Algebraic loop detected") *)
Fixpoint phase (fuel : nat) (n : Z) : option Z :=
  match fuel with O => None
  | S fuel => phase_combine (map (fun i => (i_skip i,
                 option_map (fun p => conn_phase (phase_output p (ndelay (i_out i))) (i_delay i)) (phase fuel (i_out i)))) (inputs n))
  end.

(* weighted paths over non-skipped connections ending in n: the reference notion the phase is compared to *)
Inductive path : Z -> Z -> Prop :=
| p_nil n : path n 0
| p_cons n i w : In i (inputs n) -> i_skip i = false -> path (i_out i) w -> path n (w + ndelay (i_out i) + i_delay i).

(* back n m: m is a non-skip predecessor of n, transitively (at least one connection) *)
Inductive back : Z -> Z -> Prop :=
| b_one n i : In i (inputs n) -> i_skip i = false -> back n (i_out i)
| b_more n i m : In i (inputs n) -> i_skip i = false -> back (i_out i) m -> back n m.
(* an un-skipped cycle lies on or upstream of n *)
Definition loops (n : Z) : Prop := back n n \/ exists m, back n m /\ back m m.
End G.
