(* C03/C04: the blocking path (phase-determined counts, ts_max) *)
From Coq Require Import List Arith ZArith Bool Lia.
From Coq Require Import ZifyNat ZifyBool.
From Rex Require Import KahnL AsyncModel2 AsyncStable ConflInv RexDet AsyncLaws AsyncLaws2.
Import ListNotations.
Ltac Zify.zify_post_hook ::= Z.div_mod_to_equations.

Section Laws6.
Variable G : cfg.
Notation NCH := (NCH G). Notation NACT := (NACT G). Notation NN := (NN G). Notation NCn := (NCn G).

(* number of messages a blocking step N takes: a function of the configuration only *)
Definition blk_cnt c (N : nat) : nat :=
  let nn := node G (c_in (conn G c)) in let nm := node G (c_out (conn G c)) in
  let t_high := (n_period nn * Z.of_nat N + n_phase nn)%Z in
  let t_low := (n_period nn * (Z.of_nat N - 1) + n_phase nn)%Z in
  let i0 := if (0 <? Z.of_nat N)%Z then ((t_low - n_phase nm) / n_period nm)%Z else 0%Z in
  let fuel := Z.to_nat ((t_high - (i0 * n_period nm + n_phase nm)) / n_period nm + 3) in
  cnt_loop fuel i0 (n_period nm) (n_phase nm) t_low t_high (Nat.eqb N 0) (c_skip (conn G c)) 0.

Definition expb_max_of (h : nat -> list tok) c i : option tok :=
  match nth_error (h (Next G c)) i with Some (TSched N _) => Some (TCnt (blk_cnt c N)) | _ => None end.
Definition expb_sel_of (h : nat -> list tok) c i : option tok :=
  match nth_error (h (Next G c)) i with Some (TSched N s) => Some (TSel s (blk_cnt c N)) | _ => None end.

Lemma solo_exp_b c h m l cu out : (c < NCn)%nat ->
  rsolo G (cact G 3 c) l0 h m l cu out ->
  cu (Next G c) = m /\ length (out (ExpMax G c)) = m /\ length (out (ExpSel G c)) = m /\
  (forall i, (i < m)%nat -> nth_error (out (ExpMax G c)) i = expb_max_of h c i) /\
  (forall i, (i < m)%nat -> nth_error (out (ExpSel G c)) i = expb_sel_of h c i).
Proof.
  intros Hc H. induction H as [|m l cu out r H IH Hf].
  - repeat split; intros; try reflexivity; lia.
  - destruct IH as (IC & IL1 & IL2 & IS1 & IS2).
    apply (fire_is_conn G 3) in Hf; [|exact Hc|lia]. unfold fire_exp_b in Hf.
    destruct (c_blocking (conn G c)); simpl in Hf; [|discriminate].
    unfold view in Hf. rewrite IC, hd_skipn_nth in Hf.
    destruct (nth_error (h (Next G c)) m) as [t|] eqn:E; [|discriminate]. destruct t; try discriminate.
    injection Hf as <-. cbn [KahnL.l' KahnL.cons KahnL.prod].
    fold (blk_cnt c k).
    assert (Hne : ExpMax G c <> ExpSel G c) by (unfold ExpMax, ExpSel, cch; lia).
    split; [rewrite put_eq; lia|].
    split; [rewrite put_eq, app_length; simpl; lia|].
    split; [rewrite put_ne by auto; rewrite put_eq, app_length; simpl; lia|]. split.
    + intros i Hi. rewrite put_eq. destruct (Nat.eq_dec i m) as [->|Hn].
      * rewrite nth_error_app2 by lia. rewrite IL1, Nat.sub_diag. unfold expb_max_of. rewrite E. reflexivity.
      * rewrite nth_error_app1 by lia. apply IS1. lia.
    + intros i Hi. rewrite put_ne by auto. rewrite put_eq. destruct (Nat.eq_dec i m) as [->|Hn].
      * rewrite nth_error_app2 by lia. rewrite IL2, Nat.sub_diag. unfold expb_sel_of. rewrite E. reflexivity.
      * rewrite nth_error_app1 by lia. apply IS2. lia.
Qed.

(* ts_max: the latest arrival among the messages the blocking step waits for *)
Fixpoint tm_consumed (h : nat -> list tok) c i : nat :=
  match i with O => 0%nat
  | S i' => match nth_error (h (ExpMax G c)) i' with
            | Some (TCnt cnt) => (tm_consumed h c i' + cnt)%nat | _ => tm_consumed h c i' end end.
Definition tsmax_tok_of (h : nat -> list tok) c i : option tok :=
  match nth_error (h (ExpMax G c)) i with
  | Some (TCnt cnt) => match take_recv cnt (skipn (tm_consumed h c i) (h (TsIn G c))) with
                       | Some rs => Some (TMax (fold_right Z.max 0%Z rs)) | None => None end
  | _ => None end.

Lemma solo_ts_max c h m l cu out : (c < NCn)%nat ->
  rsolo G (cact G 4 c) l0 h m l cu out ->
  cu (ExpMax G c) = m /\ cu (TsIn G c) = tm_consumed h c m /\ length (out (TsMax G c)) = m /\
  (forall i, (i < m)%nat -> nth_error (out (TsMax G c)) i = tsmax_tok_of h c i).
Proof.
  intros Hc H. induction H as [|m l cu out r H IH Hf].
  - repeat split; intros; try reflexivity; lia.
  - destruct IH as (IC1 & IC2 & IL & IS).
    apply (fire_is_conn G 4) in Hf; [|exact Hc|lia]. unfold fire_ts_max in Hf.
    destruct (c_blocking (conn G c)); simpl in Hf; [|discriminate].
    unfold view in Hf. rewrite IC1, IC2, hd_skipn_nth in Hf.
    destruct (nth_error (h (ExpMax G c)) m) as [t|] eqn:E; [|discriminate]. destruct t; try discriminate.
    destruct (take_recv c0 (skipn (tm_consumed h c m) (h (TsIn G c)))) as [rs|] eqn:E2; [|discriminate].
    injection Hf as <-. cbn [KahnL.l' KahnL.cons KahnL.prod].
    assert (Hne : ExpMax G c <> TsIn G c) by (unfold ExpMax, TsIn, cch; lia).
    split; [rewrite put_eq; lia|].
    split; [rewrite put_ne by auto; rewrite put_eq; simpl; rewrite E; lia|].
    split; [rewrite put_eq, app_length; simpl; lia|].
    intros i Hi. rewrite put_eq. destruct (Nat.eq_dec i m) as [->|Hn].
    + rewrite nth_error_app2 by lia. rewrite IL, Nat.sub_diag. unfold tsmax_tok_of. rewrite E, E2. reflexivity.
    + rewrite nth_error_app1 by lia. apply IS. lia.
Qed.

(* the step waits for every message it takes: ts_max is at least each of their arrival stamps, and never negative *)
Lemma take_recv_max n : forall l rs, take_recv n l = Some rs ->
  (0 <= fold_right Z.max 0 rs)%Z /\ forall r, In r rs -> (r <= fold_right Z.max 0 rs)%Z.
Proof.
  induction n as [|n IH]; intros l rs H; simpl in H.
  - injection H as <-. simpl. split; [lia|contradiction].
  - destruct l as [|x l]; [discriminate|]. destruct x; try discriminate.
    destruct (take_recv n l) as [rs'|] eqn:E; [|discriminate]. injection H as <-.
    destruct (IH _ _ E) as [H0 H1]. simpl. split; [lia|]. intros r0 [<-|Hr]; [lia|]. specialize (H1 _ Hr). lia.
Qed.
End Laws6.
Print Assumptions solo_ts_max.
