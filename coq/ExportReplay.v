(* C01 closed for the exported record: when the compiled instance is the EXPORT of a recorded asynchronous execution (rows -> vertices,
   message records -> edges, Rex.ExportWindows) and only the schedule (the slots: the output of the external supergraph partitioner) is
   supplied from outside, the hypothesis `same_graph` of ReplayAsync.replay_reproduces_async follows from three decidable checks on the
   schedule: check_schedule, check_replay and the small sched_ok below.  Hence the compiled replay reproduces the asynchronous execution
   (replay_reproduces_async_export). *)
From Coq Require Import List Arith ZArith Bool Lia.
From Rex Require Import CompiledModel RunnerSym CheckSym CompiledOnce ScheduleSpec Replay.
From Rex Require Import KahnL AsyncModel2 AsyncStable ConflInv RexDet AsyncLaws AsyncLaws2 AsyncLaws3 AsyncLaws4 Dataflow AsyncDataflow
  ExportWindows ReplayAsync.
Import ListNotations.
Open Scope Z_scope.

(* ---------- the cells the runner executes, and the extra decidable facts about them ---------- *)
(* all (node, cell) pairs the rollout over partitions p0 .. p0+np-1 applies the step function to, in order (CompiledOnce.compiled_once) *)
Definition exec_cells (I : inst) (p0 np : nat) : list (nat * cell) := concat (flat_map (phases_of I) (seq p0 np)).
(* a window is non-empty and canonical: every entry with a negative seq is exactly (-1, 0, 0) *)
Definition wcanon (w : list wentry) : bool := negb (match w with [] => true | _ => false end) && wl_eqb (canon_w w) w.
Definition sched_ok (I : inst) (p0 np : nat) : bool :=
  forallb (fun nc => c_run (snd nc) && forallb wcanon (c_wins (snd nc))) (exec_cells I p0 np).

(* ---------- list facts ---------- *)
Lemma nth_error_upd {X} (g : X -> X) : forall l i j,
  nth_error (upd i g l) j = if Nat.eqb i j then option_map g (nth_error l j) else nth_error l j.
Proof.
  induction l as [|x l IH]; intros i j.
  - destruct i, j; simpl; try reflexivity. destruct (Nat.eqb i j); reflexivity.
  - destruct i, j; simpl; try reflexivity. apply IH.
Qed.

Lemma nth_error_combine_in {X Y} : forall (a : list X) (b : list Y) i x y,
  nth_error a i = Some x -> nth_error b i = Some y -> In (x, y) (combine a b).
Proof.
  induction a as [|x0 a IH]; intros [|y0 b] [|i] x y Ha Hb; simpl in *; try discriminate.
  - injection Ha as <-. injection Hb as <-. now left.
  - right. eapply IH; eauto.
Qed.

Lemma Forall2_of_nth {X Y} (R : X -> Y -> Prop) : forall (a : list X) (b : list Y), length a = length b ->
  (forall i x y, nth_error a i = Some x -> nth_error b i = Some y -> R x y) -> Forall2 R a b.
Proof.
  induction a as [|x a IH]; intros [|y b] Hl H; simpl in Hl; try discriminate; constructor.
  - apply (H O); reflexivity.
  - apply IH; [lia|]. intros i x' y' Hx Hy. apply (H (S i)); assumption.
Qed.

Lemma Forall2_nth {X Y} (R : X -> Y -> Prop) (a : list X) (b : list Y) : Forall2 R a b ->
  forall i x y, nth_error a i = Some x -> nth_error b i = Some y -> R x y.
Proof.
  induction 1 as [|x0 y0 a b H0 _ IH]; intros [|i] x y Hx Hy; simpl in *; try discriminate.
  - injection Hx as <-. injection Hy as <-. exact H0.
  - eapply IH; eauto.
Qed.

Lemma Forall2_len {X Y} (R : X -> Y -> Prop) (a : list X) (b : list Y) : Forall2 R a b -> length a = length b.
Proof. induction 1; simpl; congruence. Qed.

Lemma filter_map_comm {X Y} (g : X -> Y) (p : Y -> bool) l : filter p (map g l) = map g (filter (fun x => p (g x)) l).
Proof. induction l as [|x l IH]; simpl; [reflexivity|]. destruct (p (g x)); simpl; now rewrite IH. Qed.

Lemma in_insert_by_gen {V} key (w : list (Z * Z * Z * V)) l kw :
  In kw (CompiledModel.insert_by V key w l) -> kw = (key, w) \/ In kw l.
Proof.
  induction l as [|[k x] l IH]; simpl; [intros [<-|[]]; auto|].
  destruct (Nat.leb key k); simpl; [intros [<-|H]; auto|]. intros [<-|H]; [auto|]. destruct (IH H); auto.
Qed.

(* ---------- ins_of of the exported instance is ins ---------- *)
Lemma idxs_from_filter p : forall l i,
  idxs_from i l p = map (fun j => (i + j)%nat) (filter (fun j => p (nth j l dconn)) (seq 0 (length l))).
Proof.
  induction l as [|x l IH]; intros i; [reflexivity|].
  simpl idxs_from. rewrite (IH (S i)).
  change (seq 0 (length (x :: l))) with (0%nat :: seq 1 (length l)).
  rewrite <- seq_shift. cbn [filter nth]. rewrite filter_map_comm.
  change (fun x0 : nat => p (nth (S x0) (x :: l) dconn)) with (fun j : nat => p (nth j l dconn)).
  destruct (p x); simpl; rewrite map_map; [rewrite Nat.add_0_r; f_equal|]; apply map_ext; intros j; lia.
Qed.

Lemma export_ins_of G s slots ngen nparts sup n : ins_of (export G s slots ngen nparts sup) n = ins G n.
Proof.
  unfold ins_of, ins. rewrite idxs_from_filter. simpl i_conns. rewrite map_length.
  rewrite (map_ext (fun j => (0 + j)%nat) (fun j => j)) by reflexivity. rewrite map_id.
  apply filter_ext. intros c. rewrite export_conn. reflexivity.
Qed.

Lemma export_verts_oob G s slots ngen nparts sup n : (NN G <= n)%nat -> verts (export G s slots ngen nparts sup) n = [].
Proof. intros Hn. unfold verts. simpl i_verts. apply nth_overflow. now rewrite map_length, seq_length. Qed.

Lemma export_nid G s slots ngen nparts sup n : n_nid (node G n) = nid (export G s slots ngen nparts sup) n.
Proof.
  unfold nid, node. simpl i_nodes.
  change {| k_nid := 0 |} with ((fun nd => {| k_nid := n_nid nd |}) dnode). rewrite map_nth. reflexivity.
Qed.

(* ---------- provenance of the rows of the symbolic rollout: each is exec_cell of an executed cell, in a state whose ring
   buffers hold, in the ring of node m, only tags TDef m / TOut m _ ---------- *)
Definition tnode (t : tag) : option nat := match t with TInit _ => None | TDef m => Some m | TOut m _ => Some m end.

Section Prov.
Variable I : inst.
Variable sizes : list Z.
Notation execT := (exec_cell I tag ftag TInit TDef sizes).
Notation commitT := (commit tag sizes).
Notation run_phaseT := (run_phase I tag ftag TInit TDef sizes).

Definition Rinv (st : rstate tag) : Prop :=
  forall m l, nth_error (r_buf tag st) m = Some l -> forall x, In x l -> tnode x = Some m.

Lemma ring_read_node st m sq : Rinv st -> tnode (ring_read tag TDef sizes st m sq) = Some m.
Proof.
  intros H. unfold ring_read.
  match goal with |- tnode (nth ?i ?l ?d) = _ => destruct (nth_in_or_default i l d) as [Hin|Hd] end; [|rewrite Hd; reflexivity].
  destruct (nth_error (r_buf tag st) m) as [l|] eqn:E.
  - rewrite (nth_error_nth _ _ [] E) in *. eapply H; eauto.
  - apply nth_error_None in E. rewrite (nth_overflow (r_buf tag st) [] E) in Hin. contradiction.
Qed.

Lemma rinit_Rinv : Rinv (rinit I tag TInit TDef sizes).
Proof.
  intros m l Hl x Hx. unfold rinit in Hl. simpl r_buf in Hl.
  apply nth_error_map_seq in Hl. destruct Hl as [_ ->]. apply repeat_spec in Hx. subst x. reflexivity.
Qed.

Lemma commit_Rinv st r : Rinv st -> tnode (w_out tag r) = Some (w_node tag r) -> Rinv (commitT st r).
Proof.
  intros H Ho m l Hl x Hx. unfold commit in Hl. simpl r_buf in Hl. rewrite nth_error_upd in Hl.
  destruct (Nat.eqb_spec (w_node tag r) m) as [Hm|Hne]; [subst m|eapply H; eauto].
  destruct (nth_error (r_buf tag st) (w_node tag r)) as [l0|] eqn:E; simpl in Hl; [|discriminate]. injection Hl as <-.
  apply in_upd in Hx. destruct Hx as [Hx|(x0 & _ & ->)]; [eapply H; eauto|exact Ho].
Qed.

Variable P : nat * cell -> Prop.
Definition Prov (r : CompiledModel.row tag) : Prop := exists st n c, Rinv st /\ P (n, c) /\ r = execT st n c.
Definition PInv (st : rstate tag) : Prop := Rinv st /\ forall r, In r (r_log tag st) -> Prov r.

Lemma fold_commit_PInv rs : forall st, PInv st -> (forall r, In r rs -> Prov r) -> PInv (fold_left commitT rs st).
Proof.
  induction rs as [|r rs IH]; intros st HP Hrs; simpl; [exact HP|].
  apply IH; [|intros; apply Hrs; now right].
  destruct HP as [HR HL]. assert (Hr : Prov r) by (apply Hrs; now left). split.
  - apply commit_Rinv; [exact HR|]. destruct Hr as (st0 & n & c & _ & _ & ->). reflexivity.
  - intros r0 Hr0. simpl in Hr0. apply in_app_or in Hr0. destruct Hr0 as [Hr0|[<-|[]]]; auto.
Qed.

Lemma run_phase_PInv todo st : PInv st -> (forall nc, In nc todo -> P nc) -> PInv (run_phaseT todo st).
Proof.
  intros HP Htodo. unfold run_phase. apply fold_commit_PInv; [exact HP|].
  intros r Hr. apply in_map_iff in Hr. destruct Hr as [[n c] [<- Hin]].
  exists st, n, c. split; [apply HP|]. split; [apply Htodo; exact Hin|reflexivity].
Qed.

Lemma fold_phases_PInv phs : forall st, PInv st -> (forall ph nc, In ph phs -> In nc ph -> P nc) ->
  PInv (fold_left (fun st ph => run_phaseT ph st) phs st).
Proof.
  induction phs as [|ph phs IH]; intros st HP H; simpl; [exact HP|].
  apply IH; [|intros ph0 nc H0; apply H; now right].
  apply run_phase_PInv; [exact HP|]. intros nc Hnc. apply (H ph); [now left|exact Hnc].
Qed.
End Prov.

Theorem sym_rows_prov I sizes p0 np r : In r (slog I sizes p0 np) ->
  Prov I sizes (fun nc => In nc (exec_cells I p0 np)) r.
Proof.
  intros Hr. unfold slog, sym_log, rollout in Hr.
  assert (H : PInv I sizes (fun nc => In nc (exec_cells I p0 np))
                (fold_left (fun st ph => run_phase I tag ftag TInit TDef sizes ph st) (flat_map (phases_of I) (seq p0 np))
                           (rinit I tag TInit TDef sizes))).
  { apply fold_phases_PInv.
    - split; [apply rinit_Rinv|]. intros r0 [].
    - intros ph nc Hph Hnc. unfold exec_cells. apply in_concat. exists ph. auto. }
  destruct H as [_ H]. apply H. exact Hr.
Qed.

(* ---------- an executed running cell is a cell of run_cells (so check_schedule speaks about it) ---------- *)
Lemma slot_cell_in_run_cells I sl p c : In sl (i_slots I) -> c = nth p (s_cells sl) dcell -> c_run c = true ->
  In (s_kind sl, c_seq c, p, s_gen sl, c) (run_cells I).
Proof.
  intros Hsl Hc Hrun.
  assert (Hp : (p < length (s_cells sl))%nat).
  { destruct (Nat.lt_ge_cases p (length (s_cells sl))) as [H|H]; [exact H|].
    rewrite nth_overflow in Hc by exact H. subst c. discriminate. }
  unfold run_cells. apply in_flat_map. exists sl. split; [exact Hsl|].
  unfold cells_of_slot. apply in_flat_map. exists (p, c). split.
  - apply (nth_error_combine_in _ _ p).
    + rewrite (nth_error_nth' _ O) by (rewrite seq_length; exact Hp). now rewrite seq_nth by exact Hp.
    + rewrite (nth_error_nth' _ dcell) by exact Hp. now rewrite Hc.
  - simpl. rewrite Hrun. now left.
Qed.

Lemma exec_in_run_cells I p0 np n c : In (n, c) (exec_cells I p0 np) -> c_run c = true ->
  exists p g, In (n, c_seq c, p, g, c) (run_cells I).
Proof.
  intros Hin Hrun. unfold exec_cells in Hin. apply in_concat in Hin. destruct Hin as (ph & Hph & Hnc).
  apply in_flat_map in Hph. destruct Hph as (p & _ & Hph). unfold phases_of in Hph.
  apply in_app_or in Hph. destruct Hph as [Hph|[<-|[]]].
  - apply in_map_iff in Hph. destruct Hph as (g & <- & _). unfold gen_todo in Hnc.
    apply in_flat_map in Hnc. destruct Hnc as (sl & Hsl & Hnc).
    destruct (Nat.eqb (s_gen sl) g && negb (Nat.eqb (s_kind sl) (i_sup I))); [|destruct Hnc].
    destruct (c_run (nth p (s_cells sl) dcell)); [|destruct Hnc]. destruct Hnc as [Heq|[]].
    injection Heq as <- Hc. exists p, (s_gen sl). apply slot_cell_in_run_cells; auto.
  - destruct Hnc as [Heq|[]]. injection Heq as <- Hc. unfold sup_cell in Hc.
    destruct (find (fun sl => Nat.eqb (s_kind sl) (i_sup I)) (i_slots I)) as [sl|] eqn:Ef.
    + apply find_some in Ef. destruct Ef as [Hsl Hk]. apply Nat.eqb_eq in Hk. rewrite <- Hk.
      exists p, (s_gen sl). apply slot_cell_in_run_cells; auto.
    + subst c. discriminate.
Qed.

(* ---------- sorting by sender and stripping: compiled (tagged) windows against asynchronous windows ---------- *)
Notation P3 := (fun kw => (fst kw, strip3 (snd kw))).

Lemma insert_by_strip {V} key (w1 : list (Z * Z * Z * V)) (w2 : list entry) :
  strip3 w1 = strip3 w2 -> forall l1 l2, map P3 l1 = map P3 l2 ->
  map P3 (CompiledModel.insert_by V key w1 l1) = map P3 (AsyncModel2.insert_by key w2 l2).
Proof.
  intros Hw. induction l1 as [|[k1 x1] l1 IH]; intros [|[k2 x2] l2] Hl; simpl in Hl; try discriminate.
  - simpl. now rewrite Hw.
  - injection Hl as Hk Hx Hl. subst k2. simpl. destruct (Nat.leb key k1); simpl.
    + now rewrite Hw, Hx, Hl.
    + rewrite Hx. f_equal. apply IH. exact Hl.
Qed.

Lemma strip3_tagged {V} (g : Z -> V) (w : list wentry) :
  strip3 (map (fun e => match e with (sq, a, b) => (sq, a, b, g sq) end) w) = w.
Proof. unfold strip3. rewrite map_map. rewrite <- (map_id w) at 2. apply map_ext. intros [[sq a] b]. reflexivity. Qed.

Lemma canon_strip G s c w : wgood G s c w -> canon_w (strip3 w) = strip3 w.
Proof.
  induction 1 as [|e w He _ IH]; [reflexivity|]. unfold strip3 in *. simpl. rewrite IH. f_equal.
  destruct He as [->|(j & a & b & r & -> & _)]; simpl; [reflexivity|].
  destruct (Z.ltb_spec (Z.of_nat j) 0); [lia|reflexivity].
Qed.

Section Export.
Variable G : cfg.
Variable s : state.
Variable slots : list slot.
Variables ngen nparts sup : nat.
Variable sizes : list Z.
Variables p0 np : nat.
Notation I := (export G s slots ngen nparts sup).
Notation h := (hfun tok local s).
Hypothesis Hr : reach G s.
Hypothesis Hsched : check_schedule I = true.
Hypothesis Hreplay : check_replay I sizes p0 np = true.
Hypothesis Hok : sched_ok I p0 np = true.

(* what the checks say about one executed cell, in terms of the asynchronous record *)
Lemma cell_async n c : In (n, c) (exec_cells I p0 np) ->
  0 <= c_seq c /\ (n < NN G)%nat /\
  exists r, nth_error (rows_of s n) (Z.to_nat (c_seq c)) = Some r /\ r_start r = c_start c /\
            Forall2 (fun (w1 : list wentry) (w2 : list entry) => w1 = strip3 w2 /\ w1 <> []) (c_wins c) (r_wins r).
Proof.
  intros Hin.
  unfold sched_ok in Hok. rewrite forallb_forall in Hok. pose proof (Hok _ Hin) as Hc. simpl in Hc.
  apply andb_prop in Hc. destruct Hc as [Hrun Hcan]. rewrite forallb_forall in Hcan.
  destruct (exec_in_run_cells I p0 np n c Hin Hrun) as (p & g & Hrc).
  pose proof (vs_cells I (check_schedule_sound I Hsched) _ Hrc) as Hv. simpl in Hv.
  destruct Hv as (Hk0 & Hseq & Hstart & _ & Hlen & Hwin & _).
  set (k := c_seq c) in *. set (kn := Z.to_nat k) in *.
  assert (Hn : (n < NN G)%nat).
  { destruct (Nat.lt_ge_cases n (NN G)) as [H|H]; [exact H|].
    rewrite export_verts_oob in Hseq by exact H. destruct kn; simpl in Hseq; lia. }
  assert (Hrow : exists r, nth_error (rows_of s n) kn = Some r).
  { destruct (nth_error (rows_of s n) kn) as [r|] eqn:E; [eauto|]. exfalso.
    apply nth_error_None in E. rewrite export_verts in Hseq by exact Hn.
    rewrite nth_overflow in Hseq by (unfold verts_of; rewrite map_length; exact E). simpl in Hseq. lia. }
  destruct Hrow as [r Hrow]. split; [exact Hk0|]. split; [exact Hn|]. exists r. split; [exact Hrow|].
  rewrite (export_vertex G s slots ngen nparts sup n kn r Hr Hn Hrow) in Hstart. simpl in Hstart.
  split; [exact Hstart|].
  (* the windows *)
  assert (Hlt : (kn < length (rows_of s n))%nat) by (apply nth_error_Some; congruence).
  pose proof (rows_law G s n kn Hr Hn Hlt) as HR. rewrite Hrow in HR. symmetry in HR.
  destruct (row_of_facts G s n kn r HR) as (_ & Hwins & _).
  pose proof (wins_after_good G s Hr n kn) as Hgood. rewrite <- Hwins in Hgood.
  rewrite export_ins_of in Hlen, Hwin.
  apply Forall2_of_nth; [rewrite <- Hlen; apply (Forall2_len _ _ _ Hgood)|].
  intros i w1 w2 H1 H2.
  assert (Hci : exists ci, nth_error (ins G n) i = Some ci).
  { destruct (nth_error (ins G n) i) as [ci|] eqn:E; [eauto|]. apply nth_error_None in E.
    assert (i < length (c_wins c))%nat by (apply nth_error_Some; congruence). lia. }
  destruct Hci as [ci Hci].
  pose proof (Hwin (ci, w1) (nth_error_combine_in _ _ i _ _ Hci H1)) as Hcw. simpl in Hcw.
  rewrite (export_same_windows G s slots ngen nparts sup ci n i kn r Hr Hci Hrow) in Hcw.
  rewrite (nth_error_nth _ _ [] H2) in Hcw.
  rewrite (canon_strip G s ci w2 (Forall2_nth _ _ _ Hgood i ci w2 Hci H2)) in Hcw.
  pose proof (Hcan w1 (nth_error_In _ _ H1)) as Hw1. unfold wcanon in Hw1. apply andb_prop in Hw1. destruct Hw1 as [Hne Hcn].
  apply wl_eqb_sound in Hcn. rewrite Hcn in Hcw. split; [exact Hcw|]. destruct w1; [discriminate|congruence].
Qed.

(* the keyed, sorted windows of an executed cell in the symbolic run *)
Definition KP (st : rstate tag) (n : nat) (c : cell) : list (nat * list (Z * Z * Z * tag)) :=
  fold_right (fun (cw : nat * list wentry) acc =>
      CompiledModel.insert_by tag (k_out (CompiledModel.conn I (fst cw)))
        (map (fun e => match e with (sq, a, b) => (sq, a, b, ring_read tag TDef sizes st (k_out (CompiledModel.conn I (fst cw))) sq) end) (snd cw)) acc)
    [] (combine (ins_of I n) (c_wins c)).

Lemma inputs_KP st n c : inputs_of I tag TDef sizes st n c = map snd (KP st n c).
Proof. reflexivity. Qed.

Lemma KP_strip st : forall cs ws1 ws2, Forall2 (fun (w1 : list wentry) (w2 : list entry) => w1 = strip3 w2 /\ w1 <> []) ws1 ws2 ->
  map P3 (fold_right (fun (cw : nat * list wentry) acc =>
      CompiledModel.insert_by tag (k_out (CompiledModel.conn I (fst cw)))
        (map (fun e => match e with (sq, a, b) => (sq, a, b, ring_read tag TDef sizes st (k_out (CompiledModel.conn I (fst cw))) sq) end) (snd cw)) acc)
    [] (combine cs ws1)) = map P3 (sort_pairs G cs ws2).
Proof.
  unfold sort_pairs. induction cs as [|c0 cs IH]; intros ws1 ws2 HF; [reflexivity|].
  destruct HF as [|w1 w2 ws1 ws2 [Hw _] HF]; [reflexivity|]. simpl.
  rewrite export_conn. simpl k_out. apply insert_by_strip.
  - rewrite strip3_tagged. exact Hw.
  - specialize (IH ws1 ws2 HF). simpl in IH. exact IH.
Qed.

(* every keyed window of KP is a non-empty window read from the ring of its key *)
Lemma KP_in st n c kw : Forall (fun w : list wentry => w <> []) (c_wins c) -> In kw (KP st n c) ->
  exists w, w <> [] /\ snd kw = map (fun e => match e with (sq, a, b) => (sq, a, b, ring_read tag TDef sizes st (fst kw) sq) end) w.
Proof.
  unfold KP. intros Hne. assert (Hall : forall cw, In cw (combine (ins_of I n) (c_wins c)) -> snd cw <> []).
  { intros [c0 w] Hcw. apply in_combine_r in Hcw. rewrite Forall_forall in Hne. apply Hne. exact Hcw. }
  revert Hall. generalize (combine (ins_of I n) (c_wins c)) as l. induction l as [|cw l IH]; simpl; intros Hall Hin; [contradiction|].
  apply in_insert_by_gen in Hin. destruct Hin as [->|Hin].
  - exists (snd cw). split; [apply Hall; now left|reflexivity].
  - apply IH; [intros; apply Hall; now right|exact Hin].
Qed.

Lemma sender_of_ring st m (w : list wentry) : Rinv st -> w <> [] ->
  window_ok I (map (fun e => match e with (sq, a, b) => (sq, a, b, ring_read tag TDef sizes st m sq) end) w) = true ->
  sender I (map (fun e => match e with (sq, a, b) => (sq, a, b, ring_read tag TDef sizes st m sq) end) w) = m.
Proof.
  intros HR Hne Hwo. unfold sender. unfold window_ok in Hwo.
  match goal with |- match find ?f ?l with _ => _ end = _ => destruct (find f l) as [m'|] eqn:Ef end.
  - apply find_some in Ef. destruct Ef as [_ Hall]. destruct w as [|[[sq a] b] w]; [congruence|].
    simpl in Hall. apply andb_prop in Hall. destruct Hall as [He _]. apply tag_eqb_eq in He.
    pose proof (ring_read_node sizes st m sq HR) as Hnode. rewrite He in Hnode.
    destruct (sq <? 0); simpl in Hnode; congruence.
  - apply existsb_exists in Hwo. destruct Hwo as (m' & Hm' & Hall). pose proof (find_none _ _ Ef m' Hm') as Hn. simpl in Hn. congruence.
Qed.

Theorem export_same_graph_s : same_graph G s I sizes p0 np.
Proof.
  intros n k x HT.
  (* the symbolic row of the vertex *)
  assert (Hsr : exists sr, lookup tag (slog I sizes p0 np) n k = Some sr).
  { unfold Tc, T_c in HT.
    destruct (lookup Z (rlog I sizes Z CompiledModel.probe (vi_c I) (vd_c I) p0 np) n k) as [r0|] eqn:El; [|discriminate].
    rewrite (lookup_r I sizes Z CompiledModel.probe (vi_c I) (vd_c I) p0 np) in El.
    rewrite (lookup_s I sizes Z CompiledModel.probe (vi_c I) (vd_c I) p0 np).
    destruct (lookup (PV Z) (plog I sizes Z CompiledModel.probe (vi_c I) (vd_c I) p0 np) n k); simpl in *; [eauto|discriminate El]. }
  destruct Hsr as [sr Hsr].
  pose proof Hsr as Hfind. unfold lookup in Hfind. apply find_some in Hfind. destruct Hfind as [Hin Hkey].
  apply keyb_true in Hkey. destruct Hkey as [Hnode Hseq].
  destruct (sym_rows_prov I sizes p0 np sr Hin) as (st & n' & c & HR & Hex & Heq).
  assert (n' = n) by (rewrite Heq in Hnode; exact Hnode). subst n'.
  assert (Hk : c_seq c = k) by (rewrite Heq in Hseq; exact Hseq).
  destruct (cell_async n c Hex) as (Hk0 & Hn & r & Hrow & Hstart & HF). rewrite Hk in *.
  assert (Ha : arow G s n k = Some r) by (unfold arow; destruct (Z.ltb_spec k 0); [lia|exact Hrow]).
  split; [exact Hn|]. split.
  - unfold ts_a, ts_c. rewrite Ha, Hsr, Heq. simpl. exact Hstart.
  - unfold wins_a, wins_c. rewrite Ha, Hsr, Heq. simpl w_in. rewrite inputs_KP, map_map.
    assert (HW : forall w, In w (w_in tag sr) -> window_ok I w = true).
    { unfold check_replay in Hreplay. apply andb_prop in Hreplay. destruct Hreplay as [Hsym _].
      unfold check_sym in Hsym. rewrite forallb_forall in Hsym. specialize (Hsym sr Hin).
      unfold row_check in Hsym. apply andb_prop in Hsym. destruct Hsym as [_ Hsym]. rewrite forallb_forall in Hsym. exact Hsym. }
    rewrite Heq in HW. simpl w_in in HW. rewrite inputs_KP in HW.
    assert (Hne : Forall (fun w : list wentry => w <> []) (c_wins c)).
    { clear - HF. induction HF as [|w1 w2 l1 l2 [_ H] _ IH]; constructor; auto. }
    rewrite <- (KP_strip st (ins G n) (c_wins c) (r_wins r) HF).
    unfold KP. rewrite export_ins_of. fold (KP st n c) || idtac.
    apply map_ext_in. intros kw Hkw. f_equal.
    assert (Hkw' : In kw (KP st n c)) by (unfold KP; rewrite export_ins_of; exact Hkw).
    destruct (KP_in st n c kw Hne Hkw') as (w & Hwne & Hsnd). rewrite Hsnd.
    symmetry. apply sender_of_ring; [exact HR|exact Hwne|]. rewrite <- Hsnd. apply HW. apply in_map. exact Hkw'.
Qed.
End Export.

(* (ii) of replay_reproduces_async, discharged for the exported record from decidable facts about the schedule only *)
Theorem export_same_graph G s slots ngen nparts sup sizes p0 np :
  let I := export G s slots ngen nparts sup in
  reach G s ->
  check_schedule I = true ->
  check_replay I sizes p0 np = true ->
  sched_ok I p0 np = true ->
  same_graph G s I sizes p0 np.
Proof. intros I Hr H1 H2 H3. apply export_same_graph_s; assumption. Qed.

(* C01 for the exported record: the compiled replay of ANY schedule of the recorded graph that passes the three checks reproduces the
   asynchronous execution on every vertex both executed *)
Theorem replay_reproduces_async_export G s slots ngen nparts sup sizes p0 np :
  let I := export G s slots ngen nparts sup in
  reach G s -> check_schedule I = true -> check_replay I sizes p0 np = true -> sched_ok I p0 np = true ->
  forall n k x1 x2, T_a G s n k = Some x1 -> Tc I sizes p0 np n k = Some x2 -> x1 = x2.
Proof.
  intros I Hr H1 H2 H3. apply (replay_reproduces_async G s I sizes p0 np Hr H2).
  - apply export_same_graph; assumption.
  - intros n. apply export_nid.
Qed.

(* ---------- non-vacuity: the recorded two-node execution exS of exG with the schedule (slots) of ReplayAsync.e2_inst ---------- *)
Definition ex_I : inst := export exG exS (i_slots e2_inst) 2 3 1.
Example ex_export_hyps : check_schedule ex_I = true /\ check_replay ex_I [2; 1] 0 3 = true /\ sched_ok ex_I 0 3 = true.
Proof. vm_compute. repeat split; reflexivity. Qed.
Example ex_export_agree : forall x1 x2, T_a exG exS 1%nat 2 = Some x1 -> Tc ex_I [2; 1] 0 3 1%nat 2 = Some x2 -> x1 = x2.
Proof. apply (replay_reproduces_async_export exG exS (i_slots e2_inst) 2 3 1 [2; 1] 0 3 exS_reach); apply ex_export_hyps. Qed.
Example ex_export_defined : T_a exG exS 1%nat 2 = Some (1943, 17693) /\ Tc ex_I [2; 1] 0 3 1%nat 2 = Some (1943, 17693) /\
  wins_c ex_I [2; 1] 0 3 1%nat 2 = [(0%nat, [(1, 12, 13); (2, 22, 23)])].
Proof. vm_compute. repeat split; reflexivity. Qed.
(* sched_ok is not vacuous: a schedule whose supervisor cell of partition 2 is masked is rejected (the runner would execute it anyway),
   and so is one whose first supervisor window has a non-canonical default entry (-1, 7, 7) (check_schedule accepts it: it compares
   windows modulo canon_w) *)
Definition ex_mask (c : cell) : cell := {| c_run := false; c_seq := c_seq c; c_start := c_start c; c_end := c_end c; c_wins := c_wins c |}.
Definition ex_slots_masked : list slot :=
  [{| s_kind := 0; s_gen := 0; s_cells := [e2_cell0 0; e2_cell0 1; e2_cell0 2] |};
   {| s_kind := 1; s_gen := 1; s_cells := [e2_cell1 0 [(-1, 0, 0); (0, 2, 3)]; e2_cell1 1 [(0, 2, 3); (1, 12, 13)];
                                          ex_mask (e2_cell1 2 [(1, 12, 13); (2, 22, 23)])] |}].
Definition ex_slots_noncanon : list slot :=
  [{| s_kind := 0; s_gen := 0; s_cells := [e2_cell0 0; e2_cell0 1; e2_cell0 2] |};
   {| s_kind := 1; s_gen := 1; s_cells := [e2_cell1 0 [(-1, 7, 7); (0, 2, 3)]; e2_cell1 1 [(0, 2, 3); (1, 12, 13)];
                                          e2_cell1 2 [(1, 12, 13); (2, 22, 23)]] |}].
Example ex_sched_ok_rejects :
  sched_ok (export exG exS ex_slots_masked 2 3 1) 0 3 = false /\
  sched_ok (export exG exS ex_slots_noncanon 2 3 1) 0 3 = false /\
  check_schedule (export exG exS ex_slots_noncanon 2 3 1) = true.
Proof. vm_compute. repeat split; reflexivity. Qed.

Print Assumptions replay_reproduces_async_export.
