(* C03: from the per-step counts of push_expected_nonblocking to "consumed by the first step starting at/after arrival" *)
From Coq Require Import List Arith ZArith Bool Lia Sorted.
Import ListNotations.
Open Scope Z_scope.

(* length of the leading run of arrival stamps a step starting at t takes (LATEST; strict with skip) *)
Definition takes (skip : bool) (t r : Z) : bool := if skip then r <? t else r <=? t.
Fixpoint lead (skip : bool) (t : Z) (l : list Z) : nat :=
  match l with [] => 0%nat | r :: l => if takes skip t r then S (lead skip t l) else 0%nat end.

Lemma lead_le_length skip t l : (lead skip t l <= length l)%nat.
Proof. induction l as [|r l IH]; simpl; [lia|]. destruct (takes skip t r); simpl; lia. Qed.

(* on sorted stamps the leading run is exactly the set of stamps the step takes *)
Lemma lead_spec skip t l : StronglySorted Z.le l ->
  forall j, (j < length l)%nat -> ((j < lead skip t l)%nat <-> takes skip t (nth j l 0) = true).
Proof.
  induction l as [|r l IH]; intros Hs j Hj; simpl in Hj; [lia|].
  apply StronglySorted_inv in Hs. destruct Hs as [Hs Hall]. simpl lead.
  destruct (takes skip t r) eqn:E.
  - destruct j as [|j]; simpl; [split; [auto|lia]|]. rewrite <- IH by (auto; lia). lia.
  - split; [lia|]. intros H. exfalso. destruct j as [|j]; simpl in H; [congruence|].
    rewrite Forall_forall in Hall. assert (Hin : In (nth j l 0) l) by (apply nth_In; lia).
    specialize (Hall _ Hin). unfold takes in *. destruct skip.
    + apply Z.ltb_lt in H. apply Z.ltb_ge in E. lia.
    + apply Z.leb_le in H. apply Z.leb_gt in E. lia.
Qed.

Lemma lead_skipn skip t l : forall c, (c <= lead skip t l)%nat -> lead skip t (skipn c l) = (lead skip t l - c)%nat.
Proof.
  induction l as [|r l IH]; intros c Hc; simpl in *; [destruct c; reflexivity|].
  destruct (takes skip t r) eqn:E.
  - destruct c as [|c]; simpl; [now rewrite E|]. apply IH. lia.
  - assert (c = 0)%nat by lia. subst. simpl. now rewrite E.
Qed.

Lemma takes_mono skip t t' r : t <= t' -> takes skip t r = true -> takes skip t' r = true.
Proof. unfold takes. destruct skip; intros H H1; [apply Z.ltb_lt in H1; apply Z.ltb_lt|apply Z.leb_le in H1; apply Z.leb_le]; lia. Qed.
Lemma lead_mono skip t t' l : t <= t' -> (lead skip t l <= lead skip t' l)%nat.
Proof.
  intros H. induction l as [|r l IH]; simpl; [lia|].
  destruct (takes skip t r) eqn:E; [rewrite (takes_mono _ _ _ _ H E); lia|lia].
Qed.

(* the cumulative count after step i, as the code computes it (count on the not yet consumed suffix) *)
Fixpoint consumed (skip : bool) (starts : nat -> Z) (l : list Z) (i : nat) : nat :=
  match i with O => 0%nat
  | S i' => (consumed skip starts l i' + lead skip (starts i') (skipn (consumed skip starts l i') l))%nat end.

Theorem consumed_closed_form skip starts l : (forall i, starts i <= starts (S i)) ->
  forall i, consumed skip starts l (S i) = lead skip (starts i) l.
Proof.
  intros Hm. induction i as [|i IH].
  - simpl. reflexivity.
  - change (consumed skip starts l (S (S i))) with
      (consumed skip starts l (S i) + lead skip (starts (S i)) (skipn (consumed skip starts l (S i)) l))%nat.
    rewrite IH. rewrite lead_skipn by (apply lead_mono; apply Hm).
    pose proof (lead_mono skip _ _ l (Hm i)). lia.
Qed.

(* C03, consumption clause (LATEST): message j is consumed by step i  iff  step i takes it and step i-1 did not,
   i.e. i is the first step starting at/after (strictly after, with skip) its arrival *)
Theorem consumed_by_first_fitting_step skip starts l : StronglySorted Z.le l -> (forall i, starts i <= starts (S i)) ->
  forall i j, (j < length l)%nat ->
  ((consumed skip starts l i <= j < consumed skip starts l (S i))%nat <->
   (takes skip (starts i) (nth j l 0) = true /\ (i = 0%nat \/ takes skip (starts (i - 1)%nat) (nth j l 0) = false))).
Proof.
  intros Hs Hm i j Hj. rewrite consumed_closed_form by exact Hm.
  rewrite <- (lead_spec skip (starts i) l Hs j Hj).
  destruct i as [|i].
  - simpl. split; [intros; split; [lia|now left]|intros [H _]; lia].
  - rewrite consumed_closed_form by exact Hm. replace (S i - 1)%nat with i by lia.
    pose proof (lead_spec skip (starts i) l Hs j Hj) as L.
    split.
    + intros [H1 H2]. split; [exact H2|]. right. apply Bool.not_true_is_false. intros E. apply L in E. lia.
    + intros [H1 [H2|H2]]; [discriminate|]. split; [|exact H1].
      destruct (le_lt_dec (lead skip (starts i) l) j); [assumption|]. apply L in l0. congruence.
Qed.
Print Assumptions consumed_by_first_fitting_step.
