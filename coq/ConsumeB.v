(* C03, consumption clause for BOTH non-blocking policies (LATEST and BUFFER jitter), tied to the counting functions of the model:
   a message is consumed by the FIRST step that may take it - the first step starting at/after its arrival (strictly after on a skipped
   connection) and, for buffered jitter, not before its expected arrival seq * period_sender + phase. *)
From Coq Require Import List Arith ZArith Bool Lia.
From Rex Require Import KahnL AsyncModel2 AsyncStable ConflInv RexDet AsyncLaws AsyncLaws2 AsyncLaws3 Consume.
Import ListNotations.
Open Scope Z_scope.

Section Gen.
Variable X : Type.
Variable p : nat -> X -> bool.                 (* p i x: may step i take message x? *)
Variable d : X.

Fixpoint leadP (i : nat) (l : list X) : nat :=
  match l with [] => 0%nat | x :: l => if p i x then S (leadP i l) else 0%nat end.
Fixpoint consumedP (l : list X) (i : nat) : nat :=
  match i with O => 0%nat
  | S i' => (consumedP l i' + leadP i' (skipn (consumedP l i') l))%nat end.

(* the two facts that make "count the leading run of the unconsumed suffix" equal to "take everything takeable":
   a later step may take whatever an earlier one may (steps start later and later), and along the message list takeability is
   downward closed (arrivals and expected arrivals are non-decreasing) *)
Definition mono := forall i x, p i x = true -> p (S i) x = true.
Definition closed (l : list X) := forall i j, (S j < length l)%nat -> p i (nth (S j) l d) = true -> p i (nth j l d) = true.

Lemma leadP_le i l : (leadP i l <= length l)%nat.
Proof. induction l as [|x l IH]; simpl; [lia|]. destruct (p i x); simpl; lia. Qed.

Lemma closed_tl x l : closed (x :: l) -> closed l.
Proof. intros H i j Hj Hp. apply (H i (S j)); simpl; [lia|exact Hp]. Qed.

Lemma closed_down l i : closed l -> forall n j, (j + n < length l)%nat -> p i (nth (j + n) l d) = true -> p i (nth j l d) = true.
Proof.
  intros Hc. induction n as [|n IH]; intros j Hj Hp; [now rewrite Nat.add_0_r in Hp|].
  apply (IH j); [lia|]. apply (Hc i (j + n)%nat); [lia|]. now replace (S (j + n)) with (j + S n)%nat by lia.
Qed.
Lemma closed_head x l i j : closed (x :: l) -> (j < length l)%nat -> p i (nth j l d) = true -> p i x = true.
Proof.
  intros Hc Hj Hp. apply (closed_down (x :: l) i Hc (S j) 0%nat); simpl; [lia|exact Hp].
Qed.

Lemma leadP_spec i l : closed l -> forall j, (j < length l)%nat -> ((j < leadP i l)%nat <-> p i (nth j l d) = true).
Proof.
  induction l as [|x l IH]; intros Hc j Hj; simpl in Hj; [lia|]. simpl leadP.
  destruct (p i x) eqn:E.
  - destruct j as [|j]; simpl; [split; [auto|lia]|]. rewrite <- (IH (closed_tl _ _ Hc)) by lia. lia.
  - split; [lia|]. intros H. exfalso. destruct j as [|j]; simpl in H; [congruence|].
    rewrite (closed_head x l i j Hc ltac:(lia) H) in E. discriminate.
Qed.

Lemma leadP_skipn i l : forall c, (c <= leadP i l)%nat -> leadP i (skipn c l) = (leadP i l - c)%nat.
Proof.
  induction l as [|x l IH]; intros c Hc; simpl in *; [destruct c; reflexivity|].
  destruct (p i x) eqn:E.
  - destruct c as [|c]; simpl; [now rewrite E|]. apply IH. lia.
  - assert (c = 0)%nat by lia. subst. simpl. now rewrite E.
Qed.

Lemma leadP_mono i l : mono -> (leadP i l <= leadP (S i) l)%nat.
Proof.
  intros Hm. induction l as [|x l IH]; simpl; [lia|].
  destruct (p i x) eqn:E; [rewrite (Hm _ _ E); lia|lia].
Qed.

Theorem consumedP_closed_form l : mono -> forall i, consumedP l (S i) = leadP i l.
Proof.
  intros Hm. induction i as [|i IH]; [reflexivity|].
  change (consumedP l (S (S i))) with (consumedP l (S i) + leadP (S i) (skipn (consumedP l (S i)) l))%nat.
  rewrite IH. rewrite leadP_skipn by (apply leadP_mono; exact Hm).
  pose proof (leadP_mono i l Hm). lia.
Qed.

(* message j is consumed by step i  iff  step i may take it and step i-1 may not: i is the first step that may take it *)
Theorem consumedP_first_fitting l : mono -> closed l -> forall i j, (j < length l)%nat ->
  ((consumedP l i <= j < consumedP l (S i))%nat <-> (p i (nth j l d) = true /\ (i = 0%nat \/ p (i - 1) (nth j l d) = false))).
Proof.
  intros Hm Hc i j Hj. rewrite consumedP_closed_form by exact Hm.
  rewrite <- (leadP_spec i l Hc j Hj).
  destruct i as [|i].
  - simpl. split; [intros H; split; [lia|auto]|lia].
  - rewrite consumedP_closed_form by exact Hm. replace (S i - 1)%nat with i by lia.
    split.
    + intros [H1 H2]. split; [exact H2|]. right.
      destruct (p i (nth j l d)) eqn:E; [|reflexivity].
      apply (leadP_spec i l Hc j Hj) in E. lia.
    + intros [H1 [H2|H2]]; [lia|]. split; [|exact H1].
      destruct (Nat.le_gt_cases (leadP i l) j) as [H|H]; [exact H|].
      apply (leadP_spec i l Hc j Hj) in H. congruence.
Qed.
End Gen.

(* ---------- the two policies of push_expected_nonblocking ---------- *)
Definition stamp := (nat * Z)%type.                      (* (sequence number of the message, arrival time) *)
Definition dstamp : stamp := (0%nat, 0%Z).
Definition tsin (x : stamp) : tok := TTsIn (fst x) (snd x).
Definition takesL (skip : bool) (t : Z) (x : stamp) : bool := takes skip t (snd x).
Definition takesB (skip : bool) (Pm phc t : Z) (x : stamp) : bool := (Z.of_nat (fst x) * Pm + phc <=? t) && takes skip t (snd x).

Lemma takes_not skip t r : takes skip t r = negb ((t <? r) || (skip && (r =? t))).
Proof. unfold takes. destruct skip; simpl; [destruct (Z.ltb_spec r t), (Z.ltb_spec t r), (Z.eqb_spec r t); simpl; lia|
  destruct (Z.leb_spec r t), (Z.ltb_spec t r); simpl; try reflexivity; lia]. Qed.

(* the counting functions of the model are the leading-run counts *)
Lemma count_latest_lead skip starts i l :
  count_latest skip (starts i) (map tsin l) = leadP stamp (fun i x => takesL skip (starts i) x) i l.
Proof.
  induction l as [|[k r] l IH]; simpl; [reflexivity|]. unfold takesL at 1. simpl. rewrite takes_not.
  destruct ((starts i <? r) || (skip && (r =? starts i))); simpl; [reflexivity|]. now rewrite IH.
Qed.
Lemma count_buffer_lead skip Pm phc starts i l :
  count_buffer skip Pm phc (starts i) (map tsin l) = leadP stamp (fun i x => takesB skip Pm phc (starts i) x) i l.
Proof.
  induction l as [|[k r] l IH]; simpl; [reflexivity|]. unfold takesB at 1. simpl. rewrite takes_not.
  destruct (Z.ltb_spec (starts i) (Z.of_nat k * Pm + phc)); destruct (Z.leb_spec (Z.of_nat k * Pm + phc) (starts i)); try lia; simpl; [reflexivity|].
  destruct ((starts i <? r) || (skip && (r =? starts i))); simpl; [reflexivity|]. now rewrite IH.
Qed.

(* the two structural facts hold for recorded streams: step starts are non-decreasing; arrivals are non-decreasing (FIFO) and, for BUFFER,
   sequence numbers increase along the stream and the sender's period is non-negative *)
Definition arrivals_sorted (l : list stamp) := forall j, (S j < length l)%nat -> snd (nth j l dstamp) <= snd (nth (S j) l dstamp).
Definition seqs_sorted (l : list stamp) := forall j, (S j < length l)%nat -> (fst (nth j l dstamp) <= fst (nth (S j) l dstamp))%nat.

Lemma takesL_mono skip starts : (forall i, starts i <= starts (S i)) -> mono stamp (fun i x => takesL skip (starts i) x).
Proof. intros H i x. unfold takesL. apply takes_mono. apply H. Qed.
Lemma takesB_mono skip Pm phc starts : (forall i, starts i <= starts (S i)) -> mono stamp (fun i x => takesB skip Pm phc (starts i) x).
Proof.
  intros H i x. unfold takesB. intros Hp. apply andb_prop in Hp. destruct Hp as [H1 H2]. apply andb_true_intro. split.
  - apply Z.leb_le in H1. apply Z.leb_le. specialize (H i). lia.
  - eapply takes_mono; [apply H|exact H2].
Qed.
Lemma takes_down skip t r r' : r <= r' -> takes skip t r' = true -> takes skip t r = true.
Proof. unfold takes. destruct skip; intros H H1; [apply Z.ltb_lt in H1; apply Z.ltb_lt|apply Z.leb_le in H1; apply Z.leb_le]; lia. Qed.
Lemma takesL_closed skip starts l : arrivals_sorted l -> closed stamp (fun i x => takesL skip (starts i) x) dstamp l.
Proof. intros Hs i j Hj. unfold takesL. apply takes_down. apply Hs. exact Hj. Qed.
Lemma takesB_closed skip Pm phc starts l : 0 <= Pm -> arrivals_sorted l -> seqs_sorted l ->
  closed stamp (fun i x => takesB skip Pm phc (starts i) x) dstamp l.
Proof.
  intros HP Hs Hk i j Hj. unfold takesB. intros Hp. apply andb_prop in Hp. destruct Hp as [H1 H2]. apply andb_true_intro. split.
  - apply Z.leb_le in H1. apply Z.leb_le. specialize (Hk j Hj). nia.
  - eapply takes_down; [apply Hs; exact Hj|exact H2].
Qed.

(* cumulative number of stamps consumed before step i, exactly as the connection computes it: the count on the not yet consumed suffix *)
Fixpoint nb_taken (cnt : Z -> list tok -> nat) (starts : nat -> Z) (l : list stamp) (i : nat) : nat :=
  match i with O => 0%nat
  | S i' => (nb_taken cnt starts l i' + cnt (starts i') (map tsin (skipn (nb_taken cnt starts l i') l)))%nat end.

Lemma nb_taken_latest skip starts l i :
  nb_taken (count_latest skip) starts l i = consumedP stamp (fun i x => takesL skip (starts i) x) l i.
Proof. induction i as [|i IH]; simpl; [reflexivity|]. rewrite IH, count_latest_lead. reflexivity. Qed.
Lemma nb_taken_buffer skip Pm phc starts l i :
  nb_taken (count_buffer skip Pm phc) starts l i = consumedP stamp (fun i x => takesB skip Pm phc (starts i) x) l i.
Proof. induction i as [|i IH]; simpl; [reflexivity|]. rewrite IH, count_buffer_lead. reflexivity. Qed.

(* C03, LATEST: message j goes to the first step starting at/after (skip: strictly after) its arrival *)
Theorem latest_first_fitting skip starts l : (forall i, starts i <= starts (S i)) -> arrivals_sorted l ->
  forall i j, (j < length l)%nat ->
  ((nb_taken (count_latest skip) starts l i <= j < nb_taken (count_latest skip) starts l (S i))%nat <->
   (takes skip (starts i) (snd (nth j l dstamp)) = true /\ (i = 0%nat \/ takes skip (starts (i - 1)%nat) (snd (nth j l dstamp)) = false))).
Proof.
  intros Hm Hs i j Hj. rewrite !nb_taken_latest.
  apply (consumedP_first_fitting stamp (fun i x => takesL skip (starts i) x) dstamp l (takesL_mono skip starts Hm) (takesL_closed skip starts l Hs) i j Hj).
Qed.

(* C03, BUFFER jitter: message j (sequence number k) goes to the first step starting at/after its arrival (skip: strictly after) AND not before its
   expected arrival k * period_sender + phase *)
Theorem buffer_first_fitting skip Pm phc starts l : 0 <= Pm -> (forall i, starts i <= starts (S i)) -> arrivals_sorted l -> seqs_sorted l ->
  forall i j, (j < length l)%nat ->
  ((nb_taken (count_buffer skip Pm phc) starts l i <= j < nb_taken (count_buffer skip Pm phc) starts l (S i))%nat <->
   (takesB skip Pm phc (starts i) (nth j l dstamp) = true /\ (i = 0%nat \/ takesB skip Pm phc (starts (i - 1)%nat) (nth j l dstamp) = false))).
Proof.
  intros HP Hm Hs Hk i j Hj. rewrite !nb_taken_buffer.
  apply (consumedP_first_fitting stamp (fun i x => takesB skip Pm phc (starts i) x) dstamp l (takesB_mono skip Pm phc starts Hm)
           (takesB_closed skip Pm phc starts l HP Hs Hk) i j Hj).
Qed.

(* never before its arrival, never before its expected arrival *)
Corollary buffer_never_early skip Pm phc starts l : 0 <= Pm -> (forall i, starts i <= starts (S i)) -> arrivals_sorted l -> seqs_sorted l ->
  forall i j, (j < length l)%nat ->
  (nb_taken (count_buffer skip Pm phc) starts l i <= j < nb_taken (count_buffer skip Pm phc) starts l (S i))%nat ->
  Z.of_nat (fst (nth j l dstamp)) * Pm + phc <= starts i /\ snd (nth j l dstamp) <= starts i /\ (skip = true -> snd (nth j l dstamp) < starts i).
Proof.
  intros HP Hm Hs Hk i j Hj H. apply (buffer_first_fitting skip Pm phc starts l HP Hm Hs Hk i j Hj) in H. destruct H as [H _].
  unfold takesB in H. apply andb_prop in H. destruct H as [H1 H2]. apply Z.leb_le in H1. unfold takes in H2.
  split; [exact H1|]. destruct skip; [apply Z.ltb_lt in H2|apply Z.leb_le in H2]; split; try lia; intros; try discriminate; lia.
Qed.

Definition ex_stamps : list stamp := [(0%nat, 1); (1%nat, 3); (2%nat, 30); (3%nat, 30)].
(* bridge to the actor net: the cumulative count nb_consumed of the expectation actor (AsyncLaws3.solo_exp_nb) over the global channel histories is
   nb_taken over the arrival stamps and the announced step times *)
Lemma nb_consumed_taken G (h : nat -> list tok) c l starts n :
  h (TsIn G c) = map tsin l ->
  (forall i, (i < n)%nat -> exists k, nth_error (h (Next G c)) i = Some (TSched k (starts i))) ->
  forall i, (i <= n)%nat -> nb_consumed G h c i = nb_taken (cnt_fn G c) starts l i.
Proof.
  intros Hl Hn. induction i as [|i IH]; intros Hi; [reflexivity|].
  simpl. destruct (Hn i ltac:(lia)) as (k & Hk). rewrite Hk, IH by lia. rewrite Hl, skipn_map. reflexivity.
Qed.
Lemma cnt_fn_cases G c : cnt_fn G c = (if c_buffer (conn G c)
     then count_buffer (c_skip (conn G c)) (n_period (node G (c_out (conn G c)))) (c_phase (conn G c))
     else count_latest (c_skip (conn G c))).
Proof. unfold cnt_fn. destruct (c_buffer (conn G c)); reflexivity. Qed.

(* non-vacuity: seqs 0..3 from a sender of period 8, phase 2; arrivals 1, 3, 30, 30; steps at 0, 10, 20, 30: BUFFER holds message 1 (arrived at 3,
   expected at 10) for the step at 10, message 2 (expected 18) arrives only at 30 *)
Example ex_buffer : map (nb_taken (count_buffer false 8 2) (fun i => 10 * Z.of_nat i) ex_stamps) [0; 1; 2; 3; 4]%nat
                    = [0; 0; 2; 2; 4]%nat
                 /\ map (nb_taken (count_latest false) (fun i => 10 * Z.of_nat i) ex_stamps) [0; 1; 2; 3; 4]%nat
                    = [0; 0; 2; 2; 4]%nat
                 /\ map (nb_taken (count_buffer false 8 12) (fun i => 10 * Z.of_nat i) ex_stamps) [0; 1; 2; 3; 4]%nat
                    = [0; 0; 0; 2; 3]%nat.
Proof. vm_compute. repeat split; reflexivity. Qed.
Print Assumptions buffer_first_fitting.
Print Assumptions latest_first_fitting.
