(* Hand-written scalar kernels, carrier-generic (Ops.v). The kernel translator regenerates the same definitions from
   /repo's source on every run (coq/Generated/*.v) and coq/Ties/*Tie.v re-proves that they coincide with these. *)
From Coq Require Import ZArith Bool.
From Rex Require Import Ops.

Section K.
Context {A : Type} (O : ops A).
Local Notation "x + y" := (oadd O x y). Local Notation "x - y" := (osub O x y).
Local Notation "x * y" := (omul O x y). Local Notation "x / y" := (odiv O x y).
Local Notation "# z" := (oz O z) (at level 5).

(* rex/base.py Denormalize *)
Definition denorm_offset (mn mx : A) : A := (mn + mx) / #2.
Definition denorm_scale (mn mx : A) : A := (mx - mn) / #2.
Definition denormalize (p o s : A) : A := p * s + o.
Definition normalize (p o s : A) : A := (p - o) / s.
End K.
