(* C07: what the extracted boolean validator check_schedule establishes, as a proposition (soundness of the checker) *)
From Coq Require Import List Arith ZArith Bool Lia.
From Rex Require Import CompiledModel.
Import ListNotations.
Open Scope Z_scope.

Section Spec.
Variable I : inst.
Notation conn := (conn I). Notation verts := (verts I). Notation ins_of := (ins_of I).
Notation win_model := (win_model I). Notation run_cells := (run_cells I). Notation find_cell := (find_cell I).

Definition key_of (r : rc) : nat * Z := match r with (n, k, _, _, _) => (n, k) end.

(* one running slot of the schedule: (kind n, seq k, partition p, generation g, cell c) *)
Definition cell_valid (r : rc) : Prop :=
  match r with (n, k, p, g, c) =>
    let v := nth (Z.to_nat k) (verts n) dv in
    (* it carries a vertex of its own kind, with that vertex's sequence number and times *)
    0 <= k /\ v_seq v = k /\ v_start v = c_start c /\ v_end v = c_end c /\
    (* one window per input, equal to what apply_window computes for that step (negative seqs = default) *)
    length (ins_of n) = length (c_wins c) /\
    (forall cw, In cw (combine (ins_of n) (c_wins c)) ->
        canon_w (snd cw) = canon_w (nth (Z.to_nat k) (win_model (fst cw)) [])) /\
    (* the previous step of the same node is scheduled strictly earlier in (partition, generation) order *)
    (0 < k -> exists q, find_cell n (k - 1) = Some q /\ lex_lt q (p, g) = true) /\
    (* every message producer in the window is scheduled strictly earlier *)
    (forall cw so a b, In cw (combine (ins_of n) (c_wins c)) -> In (so, a, b) (snd cw) -> 0 <= so ->
        exists q, find_cell (k_out (conn (fst cw))) so = Some q /\ lex_lt q (p, g) = true) /\
    (* supervisor step p closes partition p: last generation *)
    (n = i_sup I -> Z.of_nat p = k /\ g = (i_ngen I - 1)%nat)
  end.

Record ValidSchedule : Prop := {
  vs_kinds : forall g, (g < i_ngen I)%nat -> NoDup (map s_kind (filter (fun s => Nat.eqb (s_gen s) g) (i_slots I)));
  vs_once : NoDup (map key_of run_cells);                 (* no vertex is scheduled twice *)
  vs_cells : forall r, In r run_cells -> cell_valid r }.

Lemma nodup_nat_sound l : nodup_nat l = true -> NoDup l.
Proof.
  induction l as [|x l IH]; intros H; [constructor|]. simpl in H. apply andb_true_iff in H as [H1 H2].
  constructor; [|auto]. intros Hin. apply negb_true_iff in H1.
  assert (existsb (Nat.eqb x) l = true) by (apply existsb_exists; exists x; split; [exact Hin|apply Nat.eqb_refl]). congruence.
Qed.

Lemma nodup_keys_sound l : nodup_keys l = true -> NoDup (map key_of l).
Proof.
  induction l as [|r l IH]; intros H; [constructor|]. destruct r as [[[[n k] p] g] c]. simpl in H.
  apply andb_true_iff in H as [H1 H2]. simpl. constructor; [|auto].
  intros Hin. apply in_map_iff in Hin as [r' [Hk Hr']]. apply negb_true_iff in H1.
  assert (E : existsb (fun r => match r with (n', k', _, _, _) => key_eqb (n, k) (n', k') end) l = true).
  { apply existsb_exists. exists r'. split; [exact Hr'|]. destruct r' as [[[[n' k'] p'] g'] c']. simpl in Hk.
    injection Hk as -> ->. unfold key_eqb. simpl. now rewrite Nat.eqb_refl, Z.eqb_refl. }
  congruence.
Qed.

Lemma wl_eqb_sound a : forall b, wl_eqb a b = true -> a = b.
Proof.
  induction a as [|[[s x] y] a IH]; intros [|[[s' x'] y'] b] H; try discriminate; [reflexivity|].
  simpl in H. repeat (apply andb_true_iff in H as [H ?]).
  apply Z.eqb_eq in H. subst. f_equal; [|apply IH; assumption].
  repeat match goal with E : (_ =? _) = true |- _ => apply Z.eqb_eq in E end. subst. reflexivity.
Qed.

Theorem check_schedule_sound : check_schedule I = true -> ValidSchedule.
Proof.
  unfold check_schedule. intros H. apply andb_true_iff in H as [H Hc]. apply andb_true_iff in H as [Hg Hn].
  constructor.
  - intros g Hgl. unfold check_gen_kinds in Hg. rewrite forallb_forall in Hg.
    apply nodup_nat_sound. apply Hg. apply in_seq. lia.
  - apply nodup_keys_sound. exact Hn.
  - intros r Hr. rewrite forallb_forall in Hc. specialize (Hc r Hr).
    destruct r as [[[[n k] p] g] c]. unfold check_cell in Hc. unfold cell_valid.
    repeat (apply andb_true_iff in Hc as [Hc ?]).
    repeat match goal with E : (_ =? _) = true |- _ => apply Z.eqb_eq in E | E : (_ <=? _) = true |- _ => apply Z.leb_le in E
                         | E : Nat.eqb _ _ = true |- _ => apply Nat.eqb_eq in E end.
    split; [exact Hc|]. split; [exact H6|]. split; [exact H5|]. split; [exact H4|]. split; [exact H2|].
    split; [|split; [|split]].
    + intros cw Hcw. rewrite forallb_forall in H3. apply wl_eqb_sound, H3, Hcw.
    + intros Hk. assert (E0 : (0 <? k) = true) by (apply Z.ltb_lt; lia). revert H1. rewrite E0.
      destruct (find_cell n (k - 1)) as [q|]; intros H1; [exists q; split; [reflexivity|exact H1]|discriminate].
    + intros cw so a b Hcw Hin Hso. rewrite forallb_forall in H0. specialize (H0 cw Hcw).
      rewrite forallb_forall in H0. specialize (H0 (so, a, b) Hin). cbv beta iota in H0.
      assert (E0 : (so <? 0) = false) by (apply Z.ltb_ge; lia). rewrite E0 in H0.
      match type of H0 with (match ?t with _ => _ end) = true => destruct t as [q|] eqn:Eq end; [|discriminate].
      exists q. split; [exact Eq|exact H0].
    + intros ->. rewrite Nat.eqb_refl in H. apply andb_true_iff in H as [E1 E2].
      apply Z.eqb_eq in E1. apply Nat.eqb_eq in E2. split; assumption.
Qed.

(* consequences used by the property text *)
Corollary producer_before_consumer : ValidSchedule -> forall n k p g c cw so a b,
  In (n, k, p, g, c) run_cells -> In cw (combine (ins_of n) (c_wins c)) -> In (so, a, b) (snd cw) -> 0 <= so ->
  exists q, find_cell (k_out (conn (fst cw))) so = Some q /\ lex_lt q (p, g) = true.
Proof. intros V n k p g c cw so a b Hr. destruct (vs_cells V _ Hr) as (_ & _ & _ & _ & _ & _ & _ & H & _). apply H. Qed.
Corollary node_steps_in_seq_order : ValidSchedule -> forall n k p g c, In (n, k, p, g, c) run_cells -> 0 < k ->
  exists q, find_cell n (k - 1) = Some q /\ lex_lt q (p, g) = true.
Proof. intros V n k p g c Hr. destruct (vs_cells V _ Hr) as (_ & _ & _ & _ & _ & _ & H & _). exact H. Qed.
Corollary supervisor_closes_partition : ValidSchedule -> forall k p g c, In (i_sup I, k, p, g, c) run_cells ->
  Z.of_nat p = k /\ g = (i_ngen I - 1)%nat.
Proof. intros V k p g c Hr. destruct (vs_cells V _ Hr) as (_ & _ & _ & _ & _ & _ & _ & _ & H). apply H. reflexivity. Qed.
End Spec.
Print Assumptions check_schedule_sound.
