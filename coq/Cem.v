(* C18 model: rex/cem.py (gaussian_samples, cem_update_mean_stdev, cem_step, cem) and the rex wrapper around evosax in
   rex/evo.py (evo_step, evo).  Proofs are in CemLaws.v.

   Losses.  A float loss is -inf, a finite value, +inf or NaN.  Finite values are integers in a fixed unit (every float32 is
   an integer multiple of 2^-149, so Z covers all of them exactly; the harness scales by that unit).
   Candidates are flat vectors over Q (the pytree structure is irrelevant: every operation of the solver is leaf- and
   coordinate-wise).  Gaussian noise, the loss function (which also receives its own rng, so it may differ between
   evaluations), the square root used by jnp.std, and evosax's ask/tell are Section variables. *)
From Coq Require Import List Arith ZArith QArith Qminmax Bool.
From Rex Require Import Ops.
Import ListNotations.

Inductive ext := NInf | Val (v : Z) | PInf.
Inductive loss := Num (e : ext) | NaN.

(* losses = jnp.where(jnp.isnan(losses), jnp.inf, losses) *)
Definition is_nan (l : loss) : bool := match l with NaN => true | _ => false end.
Definition num_of (l : loss) : ext := match l with Num e => e | NaN => PInf end.   (* the float's value when it is not NaN *)
Definition clean (l : loss) : ext := if is_nan l then PInf else num_of l.

(* float comparison a < b on non-NaN values *)
Definition ltb (a b : ext) : bool :=
  match a, b with
  | NInf, NInf => false | NInf, _ => true
  | Val _, NInf => false | Val x, Val y => (x <? y)%Z | Val _, PInf => true
  | PInf, _ => false
  end.
Definition leb (a b : ext) : bool := negb (ltb b a).
Definition emin (a b : ext) : ext := if ltb b a then b else a.
Fixpoint lmin (l : list ext) : ext := match l with [] => PInf | x :: l => emin x (lmin l) end.
Definition finite (e : ext) : bool := match e with Val _ => true | _ => false end.

(* jnp.argsort (stable): insertion sort of (index, key) pairs; an earlier element goes before every later element with a
   key that is not smaller *)
Fixpoint ins (x : nat * ext) (l : list (nat * ext)) : list (nat * ext) :=
  match l with
  | [] => [x]
  | y :: l' => if leb (snd x) (snd y) then x :: l else y :: ins x l'
  end.
Definition index {A} (l : list A) : list (nat * A) := combine (seq 0 (length l)) l.
Definition sort_pairs (l : list (nat * ext)) : list (nat * ext) := fold_right ins [] l.
Definition argsort (cl : list ext) : list nat := map fst (sort_pairs (index cl)).
(* elite_indices = jnp.argsort(losses)[:num_elites] *)
Definition elites (ne : nat) (cl : list ext) : list nat := firstn ne (argsort cl).

(* scalar kernels, carrier-generic (R for the tie, Q for execution) *)
Section K.
Context {A : Type} (O : ops A).
(* sample(): jnp.clip(mean + stdev * noises, u_min, u_max) *)
Definition gauss (m sd lo hi z : A) : A := omin O (omax O (oadd O m (omul O sd z)) lo) hi.
(* evolution_smoothing * x + (1 - evolution_smoothing) * y *)
Definition smooth (s x y : A) : A := oadd O (omul O s x) (omul O (osub O (oz O 1) s) y).
End K.

Definition cand := list Q.
Definition qsum (l : list Q) : Q := fold_right Qplus 0 l.
Definition qmean (l : list Q) : Q := qsum l / inject_Z (Z.of_nat (length l)).
Definition qvar (l : list Q) : Q := let m := qmean l in qmean (map (fun x => (x - m) * (x - m)) l).
Definition col (k : nat) (xs : list cand) : list Q := map (fun x => nth k x 0) xs.
Definition vec (d : nat) (f : nat -> Q) : cand := map f (seq 0 d).
Definition at_ (v : cand) (k : nat) : Q := nth k v 0.

(* gaussian_samples for one candidate: d coordinates *)
Definition gauss_sample (d : nat) (m sd lo hi z : cand) : cand :=
  vec d (fun k => gauss Qops (at_ m k) (at_ sd k) (at_ lo k) (at_ hi k) (at_ z k)).

Record cstate := { mean : cand; stdev : cand; best : cand; best_loss : ext }.

(* "Update bestsofar": jnp.where(state.bestsofar_loss < best_loss, old, new) *)
Definition pick {C} (old_loss new_loss : ext) (old new : C) : C := if ltb old_loss new_loss then old else new.

Section Cem.
Variable sqrtq : Q -> Q.          (* jnp.std = sqrt of the (biased) variance *)
Variable sm : Q -> Q -> Q -> Q.   (* the smoothing kernel; `smooth Qops` in execution (tie: Ties/CemTie.v) *)
Variables (d N ne : nat) (s : Q) (lo hi : cand).

Definition elite_samples (xs : list cand) (cl : list ext) : list cand := map (fun i => nth i xs []) (elites ne cl).

(* cem_update_mean_stdev(solver, state, samples, losses) *)
Definition update (st : cstate) (xs : list cand) (ls : list loss) : cstate :=
  let cl := map clean ls in
  let el := elites ne cl in
  let exs := elite_samples xs cl in
  let bi := hd 0%nat el in
  let bl := nth bi cl PInf in
  {| mean := vec d (fun k => sm s (at_ (mean st) k) (qmean (col k exs)));
     stdev := vec d (fun k => sm s (at_ (stdev st) k) (sqrtq (qvar (col k exs))));
     best := pick (best_loss st) bl (best st) (nth bi xs []);
     best_loss := pick (best_loss st) bl (best_loss st) bl |}.

(* solver.init_state(mean, stdev) *)
Definition init_state (m sd : cand) : cstate := {| mean := m; stdev := sd; best := m; best_loss := PInf |}.

Variable noise : nat -> nat -> cand.          (* iteration, sample index -> standard-normal draws *)
Variable f : nat -> nat -> cand -> loss.      (* iteration, sample index (the loss's own rng), candidate -> loss *)

Definition sample_all (i : nat) (st : cstate) : list cand :=
  map (fun j => gauss_sample d (mean st) (stdev st) lo hi (noise i j)) (seq 0 N).
Definition losses_of (i : nat) (xs : list cand) : list loss := map (fun j => f i j (nth j xs [])) (seq 0 N).
(* cem_step *)
Definition step (i : nat) (st : cstate) : cstate := let xs := sample_all i st in update st xs (losses_of i xs).
(* cem: lax.scan of cem_step *)
Fixpoint run (n : nat) (st : cstate) : cstate := match n with O => st | S n => step n (run n st) end.
(* everything evaluated during the first n iterations, as (candidate, loss) *)
Fixpoint evals (n : nat) (st : cstate) : list (cand * loss) :=
  match n with O => [] | S n => let xs := sample_all n (run n st) in evals n st ++ combine xs (losses_of n xs) end.
End Cem.

(* ---------------------------------------------------------------------------------------------------------------------
   rex/evo.py: evo_step = ask; vmap loss; NaN -> inf; tell.   evosax is external: ask/tell/state are Section variables.
   tell receives NaN-free fitness (type ext): rex's wrapper must clean the losses before calling it. *)
Section Evo.
Variable ES : Type.
Variable ask : nat -> ES -> list cand * ES.                    (* rng, state -> population, state *)
Variable tell : list cand -> list ext -> ES -> ES.
Variable best_fitness : ES -> ext.
Variable best_member : ES -> cand.
Variable f : nat -> nat -> cand -> loss.

Definition evo_losses (i : nat) (xs : list cand) : list loss := map (fun j => f i j (nth j xs [])) (seq 0 (length xs)).
Definition evo_step (i : nat) (st : ES) : ES :=
  let '(xs, st1) := ask i st in
  let losses := evo_losses i xs in
  let loss_nonan := map clean losses in
  tell xs loss_nonan st1.
Fixpoint evo_run (n : nat) (st : ES) : ES := match n with O => st | S n => evo_step n (evo_run n st) end.
Fixpoint evo_evals (n : nat) (st : ES) : list (cand * loss) :=
  match n with O => [] | S n => let xs := fst (ask n (evo_run n st)) in evo_evals n st ++ combine xs (evo_losses n xs) end.
End Evo.

(* index of the first minimum (jnp.argmin on NaN-free input) *)
Definition argmin (l : list ext) : nat := hd 0%nat (argsort l).

(* ---------------------------------------------------------------------------------------------------------------------
   checker for an implementation history (one solver run observed from outside): per iteration the population, the raw
   losses and the reported (best, best loss) after the iteration.  Soundness: CemLaws.check_history_sound. *)
Definition qeqb_list (a b : cand) : bool := (length a =? length b)%nat && forallb (fun p => Qeq_bool (fst p) (snd p)) (combine a b).
Definition ext_eqb (a b : ext) : bool :=
  match a, b with NInf, NInf => true | PInf, PInf => true | Val x, Val y => (x =? y)%Z | _, _ => false end.
Definition in_box (lo hi x : cand) : bool :=
  (length x =? length lo)%nat && (length x =? length hi)%nat &&
  forallb (fun p => Qle_bool (fst (fst p)) (snd p) && Qle_bool (snd p) (snd (fst p))) (combine (combine lo hi) x).
Record iter := { pop : list cand; raw : list loss; rep_best : cand; rep_loss : ext }.
(* one iteration, given the (best, best loss) reported before it *)
Definition check_iter (lo hi : cand) (pb : cand) (prev : ext) (it : iter) : bool :=
  let cl := map clean (raw it) in
  (length (pop it) =? length (raw it))%nat &&
  forallb (in_box lo hi) (pop it) &&
  ext_eqb (rep_loss it) (emin prev (lmin cl)) &&
  leb (rep_loss it) prev &&
  (* the reported candidate is the previous one with the previous loss, or a member of this population whose cleaned loss
     is the reported one *)
  ((qeqb_list (rep_best it) pb && ext_eqb (rep_loss it) prev) ||
   existsb (fun p => qeqb_list (fst p) (rep_best it) && ext_eqb (clean (snd p)) (rep_loss it)) (combine (pop it) (raw it))).
Fixpoint check_history (lo hi : cand) (pb : cand) (prev : ext) (h : list iter) : bool :=
  match h with [] => true | it :: h => check_iter lo hi pb prev it && check_history lo hi (rep_best it) (rep_loss it) h end.

(* ---------------------------------------------------------------------------------------------------------------------
   a reference strategy meeting the ask/tell contract assumed of evosax (Strategy.ask clips the proposal, Strategy.tell keeps
   the least fitness seen and the first member of the generation attaining it when it is strictly better): used to show the
   contract is satisfiable and, by the harness, to validate evosax against it on every run *)
Definition clip_box (d : nat) (lo hi x : cand) : cand := vec d (fun k => Qmin (Qmax (at_ x k) (at_ lo k)) (at_ hi k)).
Definition ref_state := (cand * ext)%type.
Definition ref_ask (d : nat) (lo hi : cand) (proposal : nat -> list cand) (i : nat) (st : ref_state) : list cand * ref_state :=
  (map (clip_box d lo hi) (proposal i), st).
Definition ref_tell (xs : list cand) (fit : list ext) (st : ref_state) : ref_state :=
  (if ltb (lmin fit) (snd st) then nth (argmin fit) xs [] else fst st, emin (snd st) (lmin fit)).
