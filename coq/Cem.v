(* C18 (CEM): best-so-far bookkeeping with NaN losses; order-theoretic, losses in Z ∪ {+inf, NaN} *)
From Coq Require Import List Arith ZArith Bool Lia.
Import ListNotations.
Open Scope Z_scope.

Inductive loss := Fin (v : Z) | PInf | NaN.
(* jnp.where(jnp.isnan(l), inf, l) *)
Definition clean (l : loss) : option Z := match l with Fin v => Some v | _ => None end.   (* None = +inf *)
Definition ltb (a b : option Z) : bool :=
  match a, b with Some x, Some y => x <? y | Some _, None => true | None, _ => false end.
Definition leb (a b : option Z) : bool := negb (ltb b a).
Definition emin (a b : option Z) : option Z := if ltb b a then b else a.

(* index of the first minimal element = elite_indices[0] of a stable argsort *)
Fixpoint argmin_from (i : nat) (best : nat * option Z) (l : list (option Z)) : nat * option Z :=
  match l with [] => best
  | x :: l => argmin_from (S i) (if ltb x (snd best) then (i, x) else best) l end.
Definition argmin (l : list (option Z)) : nat * option Z :=
  match l with [] => (0%nat, None) | x :: l => argmin_from 1 (0%nat, x) l end.

Record cstate (C : Type) := { best : C; best_loss : option Z }.
Arguments best {C}. Arguments best_loss {C}.

(* the "Update bestsofar" block of cem_update_mean_stdev *)
Definition update {C} (dflt : C) (s : cstate C) (samples : list C) (losses : list loss) : cstate C :=
  let cl := map clean losses in
  let '(bi, bl) := argmin cl in
  if ltb (best_loss s) bl then s else {| best := nth bi samples dflt; best_loss := bl |}.

Fixpoint lmin (l : list (option Z)) : option Z := match l with [] => None | x :: l => emin x (lmin l) end.

Ltac solve_ord :=
  unfold emin, leb, ltb in *;
  repeat match goal with x : option Z |- _ => destruct x end; simpl in *;
  repeat match goal with
  | |- context [?a <? ?b] => destruct (Z.ltb_spec a b); simpl in *
  | H : context [?a <? ?b] |- _ => destruct (Z.ltb_spec a b); simpl in *
  end; try discriminate; try reflexivity; try (f_equal; lia); try lia.

Lemma ltb_irrefl a : ltb a a = false.
Proof. solve_ord. Qed.

Lemma argmin_from_spec l : forall i b, snd (argmin_from i b l) = emin (snd b) (lmin l).
Proof.
  induction l as [|x l IH]; intros i [bi sb]; simpl.
  - solve_ord.
  - rewrite IH. generalize (lmin l) as r. intros r. destruct (ltb x sb) eqn:E; simpl; solve_ord.
Qed.

Lemma argmin_loss l : snd (argmin l) = lmin l.
Proof.
  destruct l as [|x l]; [reflexivity|]. unfold argmin. rewrite argmin_from_spec. reflexivity.
Qed.

(* the reported best loss after an update is the minimum of the old one and all (cleaned) new losses *)
Theorem update_best_loss {C} (d : C) s samples losses :
  best_loss (update d s samples losses) = emin (best_loss s) (lmin (map clean losses)).
Proof.
  unfold update. destruct (argmin (map clean losses)) as [bi bl] eqn:E.
  assert (Hbl : bl = lmin (map clean losses)) by (rewrite <- argmin_loss, E; reflexivity).
  subst bl. generalize (lmin (map clean losses)) as r. intros r. destruct s as [b bl]. simpl.
  destruct (ltb bl r) eqn:E1; simpl; solve_ord.
Qed.

(* never increases *)
Corollary best_nonincreasing {C} (d : C) s samples losses :
  leb (best_loss (update d s samples losses)) (best_loss s) = true.
Proof.
  rewrite update_best_loss. generalize (lmin (map clean losses)) as r. intros r. destruct s as [b bl]. simpl. solve_ord.
Qed.

Lemma lmin_le_member l v : In (Some v) l -> exists w, lmin l = Some w /\ w <= v.
Proof.
  induction l as [|x l IH]; [contradiction|]. intros [->|Hin]; simpl.
  - destruct (lmin l) as [y|]; [|exists v; split; [reflexivity|lia]].
    unfold emin, ltb. destruct (Z.ltb_spec y v); eexists; split; try reflexivity; lia.
  - destruct (IH Hin) as (w & -> & Hle). destruct x as [y|]; [|exists w; split; [reflexivity|lia]].
    unfold emin, ltb. destruct (Z.ltb_spec w y); eexists; split; try reflexivity; lia.
Qed.

(* a NaN loss is never the reported best while some finite loss has been evaluated: the best is finite then *)
Corollary nan_never_best {C} (d : C) s samples losses v :
  In (Fin v) losses -> exists w, best_loss (update d s samples losses) = Some w /\ w <= v.
Proof.
  intros Hin. rewrite update_best_loss.
  destruct (lmin_le_member (map clean losses) v) as (w & Hw & Hle); [apply (in_map clean _ _ Hin)|].
  rewrite Hw. destruct (best_loss s) as [b|]; [|exists w; split; [reflexivity|lia]].
  unfold emin, ltb. destruct (Z.ltb_spec w b); eexists; split; try reflexivity; lia.
Qed.
Print Assumptions update_best_loss.
