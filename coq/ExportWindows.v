(* C01/C07 glue: exporting the record of the asynchronous net (rows -> vertices, message records -> edges) and running the model of
   apply_window (CompiledModel.win_model) on it yields, for every recorded receiver step k and every input connection c, exactly the
   window (seq, ts_sent, ts_recv per entry) that the asynchronous step k saw on c.  This is the core of hypothesis (ii) `same_graph`
   of ReplayAsync.replay_reproduces_async for the record -> graph conversion followed by apply_window. *)
From Coq Require Import List Arith ZArith Bool Lia Sorted.
From Coq Require Import ZifyNat ZifyBool.
From Rex Require Import CompiledModel WindowSpec WindowPush.
From Rex Require Import KahnL AsyncModel2 AsyncStable ConflInv RexDet AsyncLaws AsyncLaws2 AsyncLaws3 AsyncLaws4 Dataflow AsyncDataflow.
From Rex Require Replay.
Import ListNotations.
Open Scope Z_scope.

(* ---------- the export: record of the asynchronous net -> graph part of a compiled instance ---------- *)
Definition vert_of (r : row) : vertex := {| v_seq := Z.of_nat (r_seq r); v_start := r_start r; v_end := r_end r |}.
Definition edge_of (m : mrec) : edge := {| e_out := Z.of_nat (m_out m); e_in := Z.of_nat (m_in m); e_recv := m_recv m |}.
Definition verts_of (s : state) (n : nat) : list vertex := map vert_of (rows_of s n).
Definition edges_of (G : cfg) (s : state) (c : nat) : list edge := map edge_of (msgs_of G s c).
Definition export (G : cfg) (s : state) (slots : list slot) (ngen nparts sup : nat) : inst :=
  {| i_nodes := map (fun nd => {| k_nid := n_nid nd |}) (nodes G);
     i_conns := map (fun cn => {| k_out := c_out cn; k_in := c_in cn; k_win := c_window cn |}) (conns G);
     i_sup := sup; i_verts := map (verts_of s) (seq 0 (NN G)); i_edges := map (edges_of G s) (seq 0 (NCn G));
     i_slots := slots; i_ngen := ngen; i_nparts := nparts |}.

(* ---------- bridges between the two copies of lastn / push_all, and small list facts ---------- *)
Lemma lastn_eq {X} n (l : list X) : AsyncModel2.lastn n l = CompiledModel.lastn n l.
Proof. reflexivity. Qed.
Lemma push_eq (w g : list entry) : AsyncModel2.push_all w g = WindowPush.push_all w g.
Proof. reflexivity. Qed.

Lemma map_lastn {X Y} (f : X -> Y) n l : map f (CompiledModel.lastn n l) = CompiledModel.lastn n (map f l).
Proof. unfold CompiledModel.lastn. now rewrite skipn_map, map_length. Qed.

Lemma map_repeat' {X Y} (f : X -> Y) x n : map f (repeat x n) = repeat (f x) n.
Proof. induction n as [|n IH]; simpl; [reflexivity|]. now rewrite IH. Qed.

Lemma nth_error_map_combine {X Y Z'} (f : X * Y -> Z') : forall (a : list X) (b : list Y) i x y,
  nth_error a i = Some x -> nth_error b i = Some y -> nth_error (map f (combine a b)) i = Some (f (x, y)).
Proof.
  induction a as [|x0 a IH]; intros [|y0 b] [|i] x y Ha Hb; simpl in *; try discriminate.
  - injection Ha as <-. injection Hb as <-. reflexivity.
  - eapply IH; eauto.
Qed.

Lemma SSorted_app (l1 l2 : list Z) : StronglySorted Z.le l1 -> StronglySorted Z.le l2 ->
  (forall x y, In x l1 -> In y l2 -> x <= y) -> StronglySorted Z.le (l1 ++ l2).
Proof.
  intros H1 H2 H. induction l1 as [|a l1 IH]; simpl; [exact H2|].
  apply StronglySorted_inv in H1. destruct H1 as [H1 Ha]. constructor.
  - apply IH; [exact H1|]. intros x y Hx Hy. apply H; [now right|exact Hy].
  - apply Forall_forall. intros x Hx. apply in_app_or in Hx. destruct Hx as [Hx|Hx].
    + rewrite Forall_forall in Ha. apply Ha. exact Hx.
    + apply H; [now left|exact Hx].
Qed.

Lemma SSorted_const (v : Z) (l : list Z) : (forall x, In x l -> x = v) -> StronglySorted Z.le l.
Proof.
  induction l as [|a l IH]; intros H; constructor.
  - apply IH. intros; apply H; now right.
  - apply Forall_forall. intros x Hx. rewrite (H a (or_introl eq_refl)), (H x (or_intror Hx)). lia.
Qed.

Lemma heads_grp_nth G cs : forall u gs i c, heads_grp G cs u = Some gs -> nth_error cs i = Some c ->
  exists g, hd_opt (u (Grouped G c)) = Some (TGrp g) /\ nth_error gs i = Some g.
Proof.
  induction cs as [|c0 cs IH]; intros u gs i c Hg Hi; simpl in *; [destruct i; discriminate|].
  destruct (hd_opt (u (Grouped G c0))) as [t|] eqn:E; [|discriminate]. destruct t; try discriminate.
  destruct (heads_grp G cs u) as [rs|] eqn:E2; [|discriminate]. injection Hg as <-.
  destruct i as [|i]; simpl in *.
  - injection Hi as <-. exists g. auto.
  - eapply IH; eauto.
Qed.

(* ---------- a connection actor never touches the row record ---------- *)
Ltac inv_some := match goal with H : Some _ = Some _ |- _ => injection H as <- end.
Ltac crunch H :=
  repeat match type of H with
  | context [match hd_opt ?x with _ => _ end] => destruct (hd_opt x); [|discriminate H]
  | context [match ?t with TTick => _ | _ => _ end] => destruct t; try discriminate H
  | context [match take_recv ?a ?b with _ => _ end] => destruct (take_recv a b); [|discriminate H]
  | context [match take_msgs ?a ?b with _ => _ end] => destruct (take_msgs a b); [|discriminate H]
  | context [if has_future ?a ?b then _ else _] => destruct (has_future a b); [|discriminate H]
  | context [if negb (c_blocking ?c) then _ else _] => destruct (c_blocking c); simpl in H; try discriminate H
  | context [if c_blocking ?c then _ else _] => destruct (c_blocking c); simpl in H; try discriminate H
  end.

Lemma conn_fire_rows G a l u r : fire G a l u = Some r -> (3 * NN G <= a)%nat -> l_rows (l' _ _ r) = l_rows l.
Proof.
  unfold fire. intros H Ha.
  destruct (NACT G <=? a)%nat; [discriminate|].
  destruct (Nat.ltb_spec a (3 * NN G)); [lia|].
  destruct ((a - 3 * NN G) mod 7)%nat as [|[|[|[|[|[|k]]]]]].
  - unfold fire_ts_in in H. crunch H. inv_some. reflexivity.
  - unfold fire_msg_in in H. crunch H. inv_some. reflexivity.
  - unfold fire_zip in H. crunch H. inv_some. reflexivity.
  - unfold fire_exp_b in H. crunch H. inv_some. reflexivity.
  - unfold fire_ts_max in H. crunch H. inv_some. reflexivity.
  - unfold fire_exp_nb in H. crunch H. inv_some. reflexivity.
  - unfold fire_select in H. crunch H. inv_some. reflexivity.
Qed.

(* a node index out of range has no recorded rows, in any reachable state *)
Lemma rows_of_oob G s n : reach G s -> (NN G <= n)%nat -> rows_of s n = [].
Proof.
  intros Hr Hn. induction Hr as [|s a s' Hr IH Hs] using reach_ind.
  - unfold rows_of. destruct (Nat.lt_ge_cases (AStep n) (NACT G)) as [Ha|Ha].
    + rewrite init_loc by exact Ha. destruct (Nat.ltb_spec (AStep n) (3 * NN G)); [unfold AStep in *; lia|]. reflexivity.
    + rewrite nth_overflow; [reflexivity|]. destruct (init_wf G) as (_ & _ & Hl). unfold NACT in *. lia.
  - pose proof (reach_wf G s Hr) as Hw. destruct Hs as [Ha [r [Hf ->]]].
    unfold rows_of in *. rewrite (loc_after G) by exact Hw.
    destruct (Nat.eq_dec (AStep n) a) as [<-|]; [|exact IH].
    apply Nat.ltb_lt in Ha. rewrite Ha.
    rewrite (conn_fire_rows G _ _ _ _ Hf) by (unfold AStep; lia). exact IH.
Qed.

Definition t3 (m : mtuple) : wentry := match m with (k, sn, r, _) => (Z.of_nat k, sn, r) end.

Lemma strip3_entries ms : Replay.strip3 (entries_of ms) = map t3 ms.
Proof. unfold Replay.strip3, entries_of. rewrite map_map. apply map_ext. intros [[[k sn] r] p]. reflexivity. Qed.

Lemma strip3_app (a b : list entry) : Replay.strip3 (a ++ b) = Replay.strip3 a ++ Replay.strip3 b.
Proof. unfold Replay.strip3. apply map_app. Qed.

Lemma strip3_lastn n (l : list entry) : Replay.strip3 (CompiledModel.lastn n l) = CompiledModel.lastn n (Replay.strip3 l).
Proof. unfold Replay.strip3. apply map_lastn. Qed.
Lemma strip3_repeat (x : Z) n : Replay.strip3 (repeat (-1, 0, 0, x) n) = repeat (-1, 0, 0) n.
Proof. unfold Replay.strip3. rewrite map_repeat'. reflexivity. Qed.

Section ExportWindows.
Variable G : cfg.
Variable s : state.
Hypothesis Hr : reach G s.
Variable slots : list slot.
Variables ngen nparts sup : nat.
Notation h := (hfun tok local s).
Notation I := (export G s slots ngen nparts sup).

(* ---------- projections of the exported instance ---------- *)
Lemma export_conn c : CompiledModel.conn I c =
  {| k_out := c_out (conn G c); k_in := c_in (conn G c); k_win := c_window (conn G c) |}.
Proof.
  unfold CompiledModel.conn, conn. simpl i_conns.
  change dk with ((fun cn => {| k_out := c_out cn; k_in := c_in cn; k_win := c_window cn |}) dconn).
  apply map_nth.
Qed.

Lemma export_verts n : (n < NN G)%nat -> verts I n = verts_of s n.
Proof.
  intros Hn. unfold verts. simpl i_verts.
  rewrite (nth_indep _ [] (verts_of s 0%nat)) by (rewrite map_length, seq_length; exact Hn).
  rewrite map_nth, seq_nth by exact Hn. reflexivity.
Qed.

Lemma export_edges c : (c < NCn G)%nat -> nth c (i_edges I) [] = edges_of G s c.
Proof.
  intros Hc. simpl i_edges.
  rewrite (nth_indep _ [] (edges_of G s 0%nat)) by (rewrite map_length, seq_length; exact Hc).
  rewrite map_nth, seq_nth by exact Hc. reflexivity.
Qed.

(* ---------- the message records of c are the records of the groups selected so far ---------- *)
Lemma select_facts c : (c < NCn G)%nat -> msgs_of G s c = all_recs G h c (length (h (Grouped G c))).
Proof.
  intros Hc.
  destruct (reach_proj G s (cact G 6 c) Hr) as (m & cu & out & Hsolo & _ & Hout).
  rewrite init_loc_conn in Hsolo by (auto; lia).
  destruct (solo_select G c _ m _ _ _ Hc Hsolo) as (_ & _ & _ & IM & L & _).
  assert (Hq : (Grouped G c < NCH G)%nat) by (apply cch_lt; auto; lia).
  assert (H0 : nth (Grouped G c) (hist _ _ (init G)) [] = []) by (apply (init_hist_conn G 10 c); auto; lia).
  unfold hfun at 2. rewrite (Hout _ Hq (writer_Grouped G c)), H0. simpl app. rewrite L.
  unfold msgs_of. exact IM.
Qed.

(* token j of Msgs c: its seq is j and its ts_sent is the end time of the sender's recorded row j *)
Lemma msg_chain3 c j k sent recv pay : (c < NCn G)%nat -> nth_error (h (Msgs G c)) j = Some (TMsg k sent recv pay) ->
  exists r, nth_error (rows_of s (c_out (conn G c))) j = Some r /\ k = j /\ sent = r_end r.
Proof.
  intros Hc Hj. apply (msgs_tok_law G s Hr) in Hj; [|exact Hc]. unfold msg_of in Hj.
  destruct (nth_error (h (ZipD G c)) j) as [t1|]; [|discriminate]. destruct t1; try discriminate.
  destruct (nth_error (h (ZipM G c)) j) as [t2|] eqn:E2; [|discriminate]. destruct t2; try discriminate.
  injection Hj as -> -> _ _.
  apply (zipm_tok_law G s Hr) in E2; [|exact Hc].
  destruct (msgout_tok_law G s Hr c j _ Hc E2) as (r & Hrow & _ & Heq). injection Heq as -> -> _.
  exists r. auto.
Qed.

Lemma group_tuples c i ms kk sn rv p : (c < NCn G)%nat -> group_of G h c i = Some ms -> In (kk, sn, rv, p) ms ->
  exists r, nth_error (rows_of s (c_out (conn G c))) kk = Some r /\ sn = r_end r.
Proof.
  intros Hc Eg Hin. unfold group_of in Eg.
  destruct (nth_error (h (ExpSel G c)) i) as [t|]; [|discriminate]. destruct t; try discriminate.
  pose proof (take_msgs_in _ _ _ Eg kk sn rv p Hin) as Hm. apply in_skipn in Hm.
  apply In_nth_error in Hm. destruct Hm as [j Hj].
  destruct (msg_chain3 c j kk sn rv p Hc Hj) as (r & Hrow & -> & ->). exists r. auto.
Qed.

(* ---------- compiled side: entries of the exported edges ---------- *)
Lemma entry_group c i ms : (c < NCn G)%nat -> group_of G h c i = Some ms ->
  map (entry_of I c) (map edge_of (recs_of i ms)) = map t3 ms.
Proof.
  intros Hc Eg. unfold recs_of. rewrite !map_map. apply map_ext_in. intros [[[kk sn] rv] p] Hin.
  destruct (group_tuples c i ms kk sn rv p Hc Eg Hin) as (r & Hrow & ->).
  unfold entry_of, edge_of, t3. simpl e_out. simpl e_recv. f_equal. f_equal.
  rewrite export_conn. simpl k_out.
  assert (Hm : (c_out (conn G c) < NN G)%nat).
  { destruct (Nat.lt_ge_cases (c_out (conn G c)) (NN G)) as [H|H]; [exact H|].
    rewrite (rows_of_oob G s _ Hr H) in Hrow. destruct kk; discriminate. }
  rewrite export_verts by exact Hm. unfold pynth. destruct (Z.ltb_spec (Z.of_nat kk) 0); [lia|].
  rewrite Nat2Z.id. unfold verts_of. rewrite (nth_error_nth _ _ dv (map_nth_error vert_of _ _ Hrow)). reflexivity.
Qed.

Fixpoint cat_t3 c (k : nat) : list wentry :=
  match k with O => []
  | S i => cat_t3 c i ++ match group_of G h c i with Some ms => map t3 ms | None => [] end end.
Fixpoint cat_e c (k : nat) : list entry :=
  match k with O => []
  | S i => cat_e c i ++ match group_of G h c i with Some ms => entries_of ms | None => [] end end.

Lemma strip3_cat c k : Replay.strip3 (cat_e c k) = cat_t3 c k.
Proof.
  induction k as [|k IH]; [reflexivity|]. cbn [cat_e cat_t3]. rewrite strip3_app, IH.
  destruct (group_of G h c k); [|reflexivity]. now rewrite strip3_entries.
Qed.

Lemma compiled_cat c k : (c < NCn G)%nat -> map (entry_of I c) (map edge_of (all_recs G h c k)) = cat_t3 c k.
Proof.
  intros Hc. induction k as [|k IH]; simpl; [reflexivity|]. rewrite !map_app, IH.
  destruct (group_of G h c k) as [ms|] eqn:Eg; [|reflexivity]. now rewrite (entry_group c k ms Hc Eg).
Qed.

Lemma si_edge m : si_of (edge_of m) = Z.of_nat (m_in m).
Proof.
  unfold si_of, edge_of. simpl.
  destruct (Z.eqb_spec (Z.of_nat (m_out m)) (-1)); [lia|]. destruct (Z.eqb_spec (Z.of_nat (m_in m)) (-1)); [lia|]. reflexivity.
Qed.

Lemma filter_grp k i ms : filter (good (Z.of_nat k)) (map edge_of (recs_of i ms)) =
  if (i <=? k)%nat then map edge_of (recs_of i ms) else [].
Proof.
  induction ms as [|[[[a b] c0] d] ms IH]; simpl; [destruct (i <=? k)%nat; reflexivity|].
  unfold good at 1. rewrite si_edge. simpl m_in. fold (recs_of i ms). rewrite IH.
  destruct (Nat.leb_spec i k); destruct (Z.leb_spec (Z.of_nat i) (Z.of_nat k)); try lia; reflexivity.
Qed.

Lemma all_recs_S c i : all_recs G h c (S i) =
  all_recs G h c i ++ match group_of G h c i with Some ms => recs_of i ms | None => [] end.
Proof. reflexivity. Qed.

Lemma filter_recs c k M : filter (good (Z.of_nat k)) (map edge_of (all_recs G h c M)) =
  map edge_of (all_recs G h c (Nat.min M (S k))).
Proof.
  induction M as [|M IH]; [reflexivity|].
  rewrite all_recs_S, map_app, filter_app, IH.
  assert (Hg : filter (good (Z.of_nat k)) (map edge_of match group_of G h c M with Some ms => recs_of M ms | None => [] end) =
               if (M <=? k)%nat then map edge_of match group_of G h c M with Some ms => recs_of M ms | None => [] end else []).
  { destruct (group_of G h c M); [apply filter_grp|]. simpl. destruct (M <=? k)%nat; reflexivity. }
  rewrite Hg. destruct (Nat.leb_spec M k).
  - replace (Nat.min (S M) (S k)) with (S M) by lia. replace (Nat.min M (S k)) with M by lia.
    rewrite all_recs_S, map_app. reflexivity.
  - replace (Nat.min (S M) (S k)) with (S k) by lia. replace (Nat.min M (S k)) with (S k) by lia.
    now rewrite app_nil_r.
Qed.

(* group indices are non-decreasing along the message record: the exported edge array is sorted by seq_in *)
Lemma edges_sorted c M : StronglySorted Z.le (map si_of (map edge_of (all_recs G h c M))).
Proof.
  rewrite map_map. induction M as [|M IH]; [constructor|].
  rewrite all_recs_S, map_app. apply SSorted_app; [exact IH| |].
  - apply (SSorted_const (Z.of_nat M)). intros x Hx. apply in_map_iff in Hx. destruct Hx as (m & <- & Hm).
    rewrite si_edge. destruct (group_of G h c M); [|contradiction]. apply recs_of_in in Hm. now rewrite Hm.
  - intros x y Hx Hy. apply in_map_iff in Hx. destruct Hx as (m1 & <- & Hm1). apply in_map_iff in Hy. destruct Hy as (m2 & <- & Hm2).
    rewrite !si_edge. apply all_recs_seq_in_bound in Hm1.
    destruct (group_of G h c M); [|contradiction]. apply recs_of_in in Hm2. lia.
Qed.

(* ---------- asynchronous side: the window on c after step k is lastn of everything delivered so far ---------- *)
Definition init_c c : list entry := repeat (-1, 0, 0, 3 + n_nid (node G (c_out (conn G c)))) (c_window (conn G c)).

Lemma wins_before_closed n i c k : nth_error (ins G n) i = Some c ->
  (forall j, (j < k)%nat -> groups_at G h n j <> None) ->
  nth_error (wins_before G h n k) i = Some (CompiledModel.lastn (c_window (conn G c)) (init_c c ++ cat_e c k)).
Proof.
  intros Hi. assert (Hc : (c < NCn G)%nat) by (apply nth_error_In in Hi; apply in_ins in Hi; tauto).
  induction k as [|k IH]; intros Hg.
  - simpl. unfold init_wins. rewrite (map_nth_error _ _ _ Hi). f_equal. rewrite app_nil_r.
    unfold init_c, CompiledModel.lastn. now rewrite repeat_length, Nat.sub_diag.
  - change (wins_before G h n (S k)) with (wins_after G h n k). rewrite wins_after_S.
    destruct (groups_at G h n k) as [gs|] eqn:Eg; [|exfalso; apply (Hg k); [lia|exact Eg]].
    specialize (IH (fun j Hj => Hg j (Nat.lt_lt_succ_r _ _ Hj))).
    unfold groups_at in Eg. destruct (heads_grp_nth G _ _ _ _ _ Eg Hi) as (g & Hhd & Hgi).
    simpl in Hhd. rewrite hd_skipn_nth in Hhd.
    apply (grouped_tok_law G s Hr) in Hhd; [|exact Hc]. unfold grouped_of in Hhd.
    destruct (group_of G h c k) as [ms|] eqn:Egr; [|discriminate]. injection Hhd as <-.
    rewrite (nth_error_map_combine _ _ _ _ _ _ IH Hgi). f_equal. simpl fst. simpl snd. simpl cat_e. rewrite Egr.
    set (w := CompiledModel.lastn (c_window (conn G c)) (init_c c ++ cat_e c k)).
    assert (Hl0 : length (init_c c) = c_window (conn G c)) by (unfold init_c; apply repeat_length).
    assert (Hlw : length w = c_window (conn G c)) by (apply lastn_length; rewrite app_length; lia).
    rewrite push_eq, lastn_eq, <- Hlw, push_truncated. unfold WindowPush.push_all. rewrite Hlw. unfold w.
    rewrite lastn_lastn_app by (rewrite app_length; lia). now rewrite app_assoc.
Qed.

(* ---------- the theorem ---------- *)
Theorem export_same_windows_s c n i k r :
  nth_error (ins G n) i = Some c -> nth_error (rows_of s n) k = Some r ->
  nth k (win_model I c) [] = Replay.strip3 (nth i (r_wins r) []).
Proof.
  intros Hi Hrow.
  assert (Hcn : (c < NCn G)%nat /\ c_in (conn G c) = n) by (apply nth_error_In in Hi; apply in_ins in Hi; exact Hi).
  destruct Hcn as [Hc Hin].
  assert (Hn : (n < NN G)%nat).
  { destruct (Nat.lt_ge_cases n (NN G)) as [H|H]; [exact H|].
    rewrite (rows_of_oob G s _ Hr H) in Hrow. destruct k; discriminate. }
  assert (Hk : (k < length (rows_of s n))%nat) by (apply nth_error_Some; congruence).
  (* every step up to k received its groups *)
  assert (Hgrp : forall j, (j < S k)%nat -> groups_at G h n j <> None).
  { intros j Hj Hnone. assert (Hjl : (j < length (rows_of s n))%nat) by lia.
    pose proof (rows_law G s n j Hr Hn Hjl) as HR. unfold row_of in HR. rewrite Hnone in HR.
    apply nth_error_Some in Hjl. apply Hjl. rewrite HR.
    destruct (nth_error (h (QStart n)) j) as [t|]; [|reflexivity]. destruct t; reflexivity. }
  (* asynchronous side *)
  pose proof (rows_law G s n k Hr Hn Hk) as HR. rewrite Hrow in HR. symmetry in HR.
  destruct (row_of_facts G s n k r HR) as (_ & Hwins & _).
  destruct (async_once G s n Hr Hn) as [_ Hseq]. pose proof (Hseq _ _ Hrow) as Hsq.
  pose proof (wins_before_closed n i c (S k) Hi Hgrp) as HA.
  change (wins_before G h n (S k)) with (wins_after G h n k) in HA. rewrite <- Hwins in HA.
  rewrite (nth_error_nth _ _ [] HA).
  rewrite strip3_lastn, strip3_app, strip3_cat. unfold init_c. rewrite strip3_repeat.
  (* compiled side *)
  assert (HM : (S k <= length (h (Grouped G c)))%nat).
  { assert (Hne := Hgrp k (Nat.lt_succ_diag_r k)). unfold groups_at in Hne.
    destruct (heads_grp G (ins G n) (fun c0 => skipn k (h c0))) as [gs|] eqn:Eg; [|congruence].
    destruct (heads_grp_nth G _ _ _ _ _ Eg Hi) as (g & Hhd & _). simpl in Hhd. rewrite hd_skipn_nth in Hhd.
    apply Nat.le_succ_l. apply nth_error_Some. congruence. }
  assert (Hed : nth c (i_edges I) [] = map edge_of (all_recs G h c (length (h (Grouped G c))))).
  { rewrite export_edges by exact Hc. unfold edges_of. now rewrite select_facts by exact Hc. }
  rewrite apply_window_spec by (rewrite Hed; apply edges_sorted).
  rewrite export_conn. simpl k_in. simpl k_win. rewrite Hin, export_verts by exact Hn.
  unfold verts_of. rewrite map_map.
  rewrite (nth_error_nth _ _ [] (map_nth_error _ _ _ Hrow)).
  simpl v_seq. rewrite Hsq, Hed, filter_recs. replace (Nat.min (length (h (Grouped G c))) (S k)) with (S k) by lia.
  rewrite compiled_cat by exact Hc. reflexivity.
Qed.
End ExportWindows.

(* apply_window of the exported record = the windows the asynchronous steps saw.  No well-formedness hypothesis on G is needed:
   `nth_error (ins G n) i = Some c` already gives c < NCn G and c_in (conn G c) = n; a recorded row forces n < NN G; a recorded
   message forces c_out (conn G c) < NN G (rows_of_oob). *)
Theorem export_same_windows G s slots ngen nparts sup c n i k r :
  reach G s ->
  nth_error (ins G n) i = Some c ->           (* c is the i-th input connection of n *)
  nth_error (rows_of s n) k = Some r ->       (* r is the recorded row of step k of n *)
  nth k (win_model (export G s slots ngen nparts sup) c) [] = Replay.strip3 (nth i (r_wins r) []).
Proof. intros Hr. apply export_same_windows_s. exact Hr. Qed.

(* the exported vertex k of node n is the recorded row k: seq k, same start / end *)
Lemma export_vertex G s slots ngen nparts sup n k r : reach G s -> (n < NN G)%nat -> nth_error (rows_of s n) k = Some r ->
  nth k (verts (export G s slots ngen nparts sup) n) dv = {| v_seq := Z.of_nat k; v_start := r_start r; v_end := r_end r |}.
Proof.
  intros Hr Hn Hrow. rewrite export_verts by exact Hn. unfold verts_of.
  rewrite (nth_error_nth _ _ dv (map_nth_error vert_of _ _ Hrow)). unfold vert_of.
  destruct (async_once G s n Hr Hn) as [_ Hseq]. now rewrite (Hseq _ _ Hrow).
Qed.

(* ---------- non-vacuity on the example of AsyncDataflow ---------- *)
Example ex_export_window :
  nth 2 (win_model (export exG exS [] 0 0 1) 0) [] = [(1, 12, 13); (2, 22, 23)] /\
  nth 0 (win_model (export exG exS [] 0 0 1) 0) [] = [(-1, 0, 0); (0, 2, 3)] /\
  nth_error (ins exG 1) 0 = Some 0%nat /\
  option_map (fun r => Replay.strip3 (nth 0 (r_wins r) [])) (nth_error (rows_of exS 1) 2) = Some [(1, 12, 13); (2, 22, 23)].
Proof. vm_compute. repeat split; reflexivity. Qed.

Print Assumptions export_same_windows.
