(* Carrier-generic arithmetic: the numeric kernels are written once over an operation record and instantiated at
   R (for the laws) and at Q (for execution against the implementation). *)
From Coq Require Import Reals QArith Qminmax ZArith.

Record ops (A : Type) := {
  o0 : A; o1 : A; oadd : A -> A -> A; osub : A -> A -> A; omul : A -> A -> A; odiv : A -> A -> A;
  oopp : A -> A; omax : A -> A -> A; omin : A -> A -> A; oz : Z -> A }.
Arguments o0 {A}. Arguments o1 {A}. Arguments oadd {A}. Arguments osub {A}. Arguments omul {A}. Arguments odiv {A}.
Arguments oopp {A}. Arguments omax {A}. Arguments omin {A}. Arguments oz {A}.

Definition Rops : ops R := {| o0 := 0%R; o1 := 1%R; oadd := Rplus; osub := Rminus; omul := Rmult; odiv := Rdiv;
  oopp := Ropp; omax := Rmax; omin := Rmin; oz := IZR |}.
Definition Qops : ops Q := {| o0 := 0%Q; o1 := 1%Q; oadd := Qplus; osub := Qminus; omul := Qmult; odiv := Qdiv;
  oopp := Qopp; omax := Qmax; omin := Qmin; oz := inject_Z |}.

Declare Scope ops_scope.
Delimit Scope ops_scope with O.
