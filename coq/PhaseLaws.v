(* C16 proofs, part 1: the phase is the longest expected-delay path; un-skipped cycles are reported, and only those *)
From Coq Require Import List ZArith Bool Lia.
From Rex Require Import Phase.
Import ListNotations.
Open Scope Z_scope.

Section G.
Variable inputs : Z -> list inp.
Variable ndelay : Z -> Z.
Notation phase := (phase inputs ndelay).
Notation path := (path inputs ndelay).
Notation back := (back inputs).
Notation loops := (loops inputs).

Definition entry (fuel : nat) (i : inp) : bool * option Z :=
  (i_skip i, option_map (fun p => conn_phase (phase_output p (ndelay (i_out i))) (i_delay i)) (phase fuel (i_out i))).

Lemma phase_S fuel n : phase (S fuel) n = phase_combine (map (entry fuel) (inputs n)).
Proof. reflexivity. Qed.

Definition fold_spec (fuel : nat) (l : list inp) (r : option Z) : Prop :=
  match r with
  | Some p => 0 <= p /\
      (forall i, In i l -> i_skip i = false -> exists q, phase fuel (i_out i) = Some q /\ q + ndelay (i_out i) + i_delay i <= p) /\
      (p = 0 \/ exists i q, In i l /\ i_skip i = false /\ phase fuel (i_out i) = Some q /\ p = q + ndelay (i_out i) + i_delay i)
  | None => exists i, In i l /\ i_skip i = false /\ phase fuel (i_out i) = None
  end.

Lemma phase_combine_cons s o l : phase_combine ((s, o) :: l) =
  if s then phase_combine l else match phase_combine l, o with Some a, Some p => Some (Z.max a p) | _, _ => None end.
Proof. reflexivity. Qed.

Lemma fold_ok fuel l : fold_spec fuel l (phase_combine (map (entry fuel) l)).
Proof.
  unfold fold_spec. induction l as [|i l IH].
  - simpl. split; [lia|]. split; [intros ? []|now left].
  - change (map (entry fuel) (i :: l)) with ((i_skip i, snd (entry fuel i)) :: map (entry fuel) l).
    rewrite phase_combine_cons. cbn [In snd entry].
    set (r := phase_combine (map (entry fuel) l)) in *. clearbody r.
    destruct (i_skip i) eqn:Es.
    + destruct r as [a|].
      * destruct IH as (H0 & H1 & H2). split; [exact H0|]. split.
        -- intros j [<-|Hj] Hs; [congruence|]. apply H1; auto.
        -- destruct H2 as [->|(j & q & Hj & Hs & Hp & ->)]; [now left|right; exists j, q; auto].
      * destruct IH as (j & Hj & Hs & Hp). exists j. auto.
    + destruct r as [a|].
      * destruct IH as (H0 & H1 & H2). destruct (phase fuel (i_out i)) as [p|] eqn:Ep; cbn [option_map].
        -- unfold conn_phase, phase_output. split; [lia|]. split.
           ++ intros j [<-|Hj] Hs; [exists p; split; [exact Ep|lia]|].
              destruct (H1 j Hj Hs) as (q & Hq & Hle). exists q. split; [exact Hq|lia].
           ++ destruct (Z.max_spec a (p + ndelay (i_out i) + i_delay i)) as [[_ ->]|[_ ->]].
              ** right. exists i, p. auto.
              ** destruct H2 as [->|(j & q & Hj & Hs & Hp & ->)]; [now left|right; exists j, q; auto].
        -- exists i. auto.
      * destruct IH as (j & Hj & Hs & Hp). destruct (phase fuel (i_out i)); exists j; auto.
Qed.

(* (a) every non-skip path into n weighs at most phase n; (b) phase n is the weight of such a path *)
Theorem phase_longest_path fuel : forall n p, phase fuel n = Some p ->
  (forall w, path n w -> w <= p) /\ path n p.
Proof.
  induction fuel as [|fuel IH]; intros n p H; [discriminate|].
  rewrite phase_S in H. pose proof (fold_ok fuel (inputs n)) as F. rewrite H in F. destruct F as (H0 & H1 & H2).
  split.
  - intros w Hw. inversion Hw; subst; [exact H0|].
    destruct (H1 i H3 H4) as (q & Hq & Hle). destruct (IH _ _ Hq) as [Hub _]. specialize (Hub _ H5). lia.
  - destruct H2 as [->|(i & q & Hi & Hs & Hq & ->)]; [constructor|].
    destruct (IH _ _ Hq) as [_ Hp]. econstructor; eauto.
Qed.

(* the value does not depend on the recursion depth available *)
Corollary phase_fuel_irrelevant f1 f2 n p1 p2 : phase f1 n = Some p1 -> phase f2 n = Some p2 -> p1 = p2.
Proof.
  intros H1 H2. destruct (phase_longest_path _ _ _ H1) as [U1 P1]. destruct (phase_longest_path _ _ _ H2) as [U2 P2].
  specialize (U1 _ P2). specialize (U2 _ P1). lia.
Qed.

(* 0 for sources: a node all of whose incoming connections are skipped (in particular: none) *)
Theorem phase_source fuel n : (forall i, In i (inputs n) -> i_skip i = true) -> phase (S fuel) n = Some 0.
Proof.
  intros H. rewrite phase_S. induction (inputs n) as [|i l IH]; [reflexivity|].
  simpl. unfold entry at 1; simpl. rewrite (H i (or_introl eq_refl)). apply IH. intros j Hj. apply H. now right.
Qed.

(* one un-skipped connection: phase(receiver) >= phase(sender) + sender's computation delay + connection delay *)
Theorem phase_ge_pred fuel n p i : phase (S fuel) n = Some p -> In i (inputs n) -> i_skip i = false ->
  exists q, phase fuel (i_out i) = Some q /\ q + ndelay (i_out i) + i_delay i <= p.
Proof.
  intros H Hi Hs. rewrite phase_S in H. pose proof (fold_ok fuel (inputs n)) as F. rewrite H in F.
  destruct F as (_ & H1 & _). apply H1; assumption.
Qed.

(* ---- loops ---- *)
Lemma back_first n m : back n m -> exists i, In i (inputs n) /\ i_skip i = false /\ (i_out i = m \/ back (i_out i) m).
Proof. intros H. destruct H; exists i; auto. Qed.

Lemma loops_pred n : loops n -> exists i, In i (inputs n) /\ i_skip i = false /\ loops (i_out i).
Proof.
  intros [H|(m & Hm & Hmm)].
  - destruct (back_first _ _ H) as (i & Hi & Hs & [He|Hb]); exists i; repeat split; auto.
    + left. rewrite He. exact H.
    + right. exists n. auto.
  - destruct (back_first _ _ Hm) as (i & Hi & Hs & [He|Hb]); exists i; repeat split; auto.
    + left. rewrite He. exact Hmm.
    + right. exists m. auto.
Qed.

(* an un-skipped cycle on or upstream of n makes the computation fail whatever the depth available *)
Theorem phase_loop_detected fuel : forall n, loops n -> phase fuel n = None.
Proof.
  induction fuel as [|fuel IH]; intros n Hl; [reflexivity|].
  destruct (loops_pred n Hl) as (i & Hi & Hs & Hli).
  rewrite phase_S. pose proof (fold_ok fuel (inputs n)) as F.
  destruct (phase_combine _) as [p|]; [|reflexivity].
  destruct F as (_ & H1 & _). destruct (H1 i Hi Hs) as (q & Hq & _). rewrite (IH _ Hli) in Hq. discriminate.
Qed.

(* conversely: failure within `fuel` levels means there is a walk of `fuel` un-skipped connections against the arrows *)
Inductive walk : Z -> list Z -> Prop :=
| w_nil n : walk n []
| w_cons n i l : In i (inputs n) -> i_skip i = false -> walk (i_out i) l -> walk n (i_out i :: l).

Lemma phase_none_walk fuel : forall n, phase fuel n = None -> exists l, walk n l /\ length l = fuel.
Proof.
  induction fuel as [|fuel IH]; intros n H; [exists []; split; [constructor|reflexivity]|].
  rewrite phase_S in H. pose proof (fold_ok fuel (inputs n)) as F. rewrite H in F. destruct F as (i & Hi & Hs & Hp).
  destruct (IH _ Hp) as (l & Hl & Hlen). exists (i_out i :: l). split; [constructor; assumption|simpl; lia].
Qed.

Lemma walk_in n l m : walk n l -> In m l -> back n m.
Proof.
  intros H. revert m. induction H as [|n i l Hi Hs Hw IH]; intros m Hm; [destruct Hm|].
  destruct Hm as [<-|Hm]; [apply b_one; assumption|]. eapply b_more; eauto.
Qed.
Lemma walk_app n l1 x l2 : walk n (l1 ++ x :: l2) -> walk x l2.
Proof.
  revert n. induction l1 as [|y l1 IH]; intros n H; simpl in H; inversion H; subst; [assumption|]. eapply IH; eauto.
Qed.
Lemma walk_nodes (nodes : list Z) n l : (forall x i, In i (inputs x) -> In (i_out i) nodes) -> walk n l -> incl l nodes.
Proof.
  intros Hc H. induction H as [|n i l Hi Hs Hw IH]; [intros ? []|]. intros m [<-|Hm]; [eapply Hc; eauto|apply IH; exact Hm].
Qed.
Lemma dup_split (l : list Z) : ~ NoDup l -> exists x l1 l2 l3, l = l1 ++ x :: l2 ++ x :: l3.
Proof.
  induction l as [|a l IH]; intros H; [exfalso; apply H; constructor|].
  destruct (in_dec Z.eq_dec a l) as [Hin|Hnin].
  - apply in_split in Hin. destruct Hin as (l2 & l3 & ->). exists a, [], l2, l3. reflexivity.
  - destruct IH as (x & l1 & l2 & l3 & ->); [intros Hnd; apply H; constructor; assumption|].
    exists x, (a :: l1), l2, l3. reflexivity.
Qed.

(* in a graph whose senders all belong to a finite node list, a failure with more fuel than there are nodes exhibits an
   un-skipped cycle on or upstream of the node: the error is never raised for an acyclic configuration *)
Theorem phase_none_loops (nodes : list Z) fuel n :
  (forall x i, In i (inputs x) -> In (i_out i) nodes) -> (length nodes < fuel)%nat -> phase fuel n = None -> loops n.
Proof.
  intros Hc Hlen H. destruct (phase_none_walk _ _ H) as (l & Hw & Hl).
  assert (Hnd : ~ NoDup l).
  { intros Hnd. pose proof (NoDup_incl_length Hnd (walk_nodes nodes n l Hc Hw)). lia. }
  destruct (dup_split l Hnd) as (x & l1 & l2 & l3 & ->).
  assert (Hx : back n x) by (eapply walk_in; [exact Hw|apply in_or_app; right; now left]).
  assert (Hxx : back x x).
  { apply walk_app in Hw. eapply walk_in; [exact Hw|]. apply in_or_app; right; now left. }
  right. exists x. split; assumption.
Qed.

Corollary phase_none_iff_loops (nodes : list Z) fuel n :
  (forall x i, In i (inputs x) -> In (i_out i) nodes) -> (length nodes < fuel)%nat -> (phase fuel n = None <-> loops n).
Proof. intros Hc Hlen. split; [apply (phase_none_loops nodes); assumption|apply phase_loop_detected]. Qed.

(* with a topological rank (no un-skipped cycle) the phase is defined as soon as the depth exceeds the rank *)
Theorem phase_defined_of_rank (rank : Z -> nat) :
  (forall n i, In i (inputs n) -> i_skip i = false -> (rank (i_out i) < rank n)%nat) ->
  forall fuel n, (rank n < fuel)%nat -> exists p, phase fuel n = Some p.
Proof.
  intros Hr. induction fuel as [|fuel IH]; intros n Hn; [lia|].
  rewrite phase_S. pose proof (fold_ok fuel (inputs n)) as F.
  destruct (phase_combine _) as [p|]; [eauto|]. destruct F as (i & Hi & Hs & Hp).
  destruct (IH (i_out i)) as (q & Hq); [specialize (Hr n i Hi Hs); lia|]. congruence.
Qed.

(* the reference notion depends on the configuration only through the connections and the expected delays *)
Lemma path_ext (inputs' : Z -> list inp) (ndelay' : Z -> Z) :
  (forall x, inputs x = inputs' x) -> (forall x, ndelay x = ndelay' x) ->
  forall n w, path n w -> Phase.path inputs' ndelay' n w.
Proof.
  intros Hi Hd n w H. induction H as [n|n i w Hin Hs Hp IH]; [constructor|].
  rewrite (Hd (i_out i)). constructor; [rewrite <- Hi; exact Hin|exact Hs|exact IH].
Qed.
End G.
