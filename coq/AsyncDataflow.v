(* C01, asynchronous half: the rows recorded by the ASYNCHRONOUS runtime (M1, AsyncModel2) in ANY reachable state satisfy the dataflow
   equations (Dataflow.eq_at) of the windowed graph read off those rows:
   (a) the state of row k is the initial state (k = 0) or the output of row k-1;
   (b) the output of row k is the step function applied to (k, start, state, windows sorted by sender);
   (c) every window entry (seq, sent, recv, pay) is an initial entry (-1, 0, 0, default of the sender) or carries the output of the
       sender's recorded row number seq.
   Together with Replay.replay_unique this closes C01: the compiled replay and the recorded asynchronous execution agree. *)
From Coq Require Import List Arith ZArith Bool Lia.
From Coq Require Import ZifyNat ZifyBool.
From Rex Require Import KahnL AsyncModel2 AsyncStable ConflInv RexDet AsyncLaws AsyncLaws2 AsyncLaws3 AsyncLaws4 Dataflow.
From Rex Require Replay CompiledModel.
Import ListNotations.
Open Scope Z_scope.

(* ---------- the trace / graph read off a state of the asynchronous net ---------- *)
Definition fA (n : nat) (k ts st : Z) (ins : list (list (Z * Z * Z * Z))) : Z := AsyncModel2.probe st (Z.to_nat k) ts ins.
Definition viA (G : cfg) (n : nat) : Z := 1 + n_nid (node G n).          (* initial state, see state_before *)
Definition vdA (G : cfg) (m : nat) : Z := 3 + n_nid (node G m).          (* default output, see init_wins *)
(* sorted (sender, window) pairs: the same fold as sort_wins but keeping the key *)
Definition sort_pairs (G : cfg) (cs : list nat) (ws : list (list entry)) : list (nat * list entry) :=
  fold_right (fun cw acc => insert_by (c_out (conn G (fst cw))) (snd cw) acc) [] (combine cs ws).
Definition arow (G : cfg) (s : state) (n : nat) (k : Z) : option row :=
  if k <? 0 then None else nth_error (rows_of s n) (Z.to_nat k).
Definition T_a (G : cfg) (s : state) : trace Z := fun n k => option_map (fun r => (r_state r, r_out r)) (arow G s n k).
Definition ts_a (G : cfg) (s : state) (n : nat) (k : Z) : Z := match arow G s n k with Some r => r_start r | None => 0 end.
Definition wins_a (G : cfg) (s : state) (n : nat) (k : Z) : list (nat * list (Z * Z * Z)) :=
  match arow G s n k with
  | Some r => map (fun kw => (fst kw, Replay.strip3 (snd kw))) (sort_pairs G (ins G n) (r_wins r))
  | None => [] end.

Lemma sort_pairs_snd G cs ws : map snd (sort_pairs G cs ws) = sort_wins G cs ws.
Proof. reflexivity. Qed.

(* ---------- small list facts ---------- *)
Lemma in_skipn {X} (x : X) n l : In x (skipn n l) -> In x l.
Proof. intros H. rewrite <- (firstn_skipn n l). apply in_or_app. now right. Qed.

Lemma in_lastn {X} (x : X) n l : In x (lastn n l) -> In x l.
Proof. unfold lastn. apply in_skipn. Qed.

Lemma take_msgs_in n : forall l ms, take_msgs n l = Some ms ->
  forall k sn r p, In (k, sn, r, p) ms -> In (TMsg k sn r p) l.
Proof.
  induction n as [|n IH]; intros l ms H k sn r p Hin; simpl in H.
  - injection H as <-. contradiction.
  - destruct l as [|t l]; [discriminate|]. destruct t; try discriminate.
    destruct (take_msgs n l) as [x|] eqn:E; simpl in H; [|discriminate]. injection H as <-.
    destruct Hin as [Heq|Hin].
    + injection Heq as <- <- <- <-. now left.
    + right. eapply IH; eauto.
Qed.

Lemma in_idxs_from_conv p : forall l i c, (c < length l)%nat -> p (nth c l dconn) = true -> In (i + c)%nat (idxs_from i l p).
Proof.
  induction l as [|x l IH]; simpl; intros i c Hc Hp; [lia|].
  apply in_or_app. destruct c as [|c].
  - left. rewrite Hp. left. lia.
  - right. replace (i + S c)%nat with (S i + c)%nat by lia. apply IH; [lia|exact Hp].
Qed.

Lemma in_outs_conv G c : (c < NCn G)%nat -> In c (outs G (c_out (conn G c))).
Proof.
  intros Hc. unfold outs. change c with (0 + c)%nat at 1. apply in_idxs_from_conv; [exact Hc|].
  unfold conn. apply Nat.eqb_refl.
Qed.

(* ---------- a connection actor never writes a MsgOut channel ---------- *)
Ltac inv_some := match goal with H : Some _ = Some _ |- _ => injection H as <- end.
Ltac crunch H :=
  repeat match type of H with
  | context [match hd_opt ?x with _ => _ end] => destruct (hd_opt x); [|discriminate H]
  | context [match ?t with TTick => _ | _ => _ end] => destruct t; try discriminate H
  | context [match take_recv ?a ?b with _ => _ end] => destruct (take_recv a b); [|discriminate H]
  | context [match take_msgs ?a ?b with _ => _ end] => destruct (take_msgs a b); [|discriminate H]
  | context [if has_future ?a ?b then _ else _] => destruct (has_future a b); [|discriminate H]
  | context [if negb (c_blocking ?c) then _ else _] => destruct (c_blocking c); simpl in H; try discriminate H
  | context [if c_blocking ?c then _ else _] => destruct (c_blocking c); simpl in H; try discriminate H
  end.

Lemma conn_prod_MsgOut G a l u r c : fire G a l u = Some r -> (3 * NN G <= a)%nat -> prod _ _ r (MsgOut G c) = [].
Proof.
  unfold fire. intros H Ha.
  destruct (NACT G <=? a)%nat; [discriminate|].
  destruct (Nat.ltb_spec a (3 * NN G)); [lia|].
  set (c' := ((a - 3 * NN G) / 7)%nat) in *.
  destruct ((a - 3 * NN G) mod 7)%nat as [|[|[|[|[|[|k]]]]]].
  - unfold fire_ts_in in H. crunch H. inv_some. simpl.
    rewrite !put_ne by (unfold MsgOut, ZipD, TsIn, cch; lia). reflexivity.
  - unfold fire_msg_in in H. crunch H. inv_some. simpl.
    rewrite !put_ne by (unfold MsgOut, ZipM, cch; lia). reflexivity.
  - unfold fire_zip in H. crunch H. inv_some. simpl.
    rewrite !put_ne by (unfold MsgOut, Msgs, cch; lia). reflexivity.
  - unfold fire_exp_b in H. crunch H. inv_some. simpl.
    rewrite !put_ne by (unfold MsgOut, ExpMax, ExpSel, cch; lia). reflexivity.
  - unfold fire_ts_max in H. crunch H. inv_some. simpl.
    rewrite !put_ne by (unfold MsgOut, TsMax, cch; lia). reflexivity.
  - unfold fire_exp_nb in H. crunch H. inv_some. simpl.
    rewrite !put_ne by (unfold MsgOut, ExpSel, cch; lia). reflexivity.
  - unfold fire_select in H. crunch H. inv_some. simpl.
    rewrite !put_ne by (unfold MsgOut, Grouped, cch; lia). reflexivity.
Qed.

Lemma solo_conn_MsgOut G a li h m l cu out c : (3 * NN G <= a)%nat ->
  rsolo G a li h m l cu out -> out (MsgOut G c) = [].
Proof.
  intros Ha H. induction H as [|m l cu out r H IH Hf]; [reflexivity|].
  rewrite IH. simpl. eapply conn_prod_MsgOut; eauto.
Qed.

Section AsyncDataflow.
Variable G : cfg.
Variable s : state.
Hypothesis Hr : reach G s.
Notation h := (hfun tok local s).

(* ---------- the channel laws along a connection, in the form "token j of the channel is ..." ---------- *)
Lemma grouped_tok_law c i t : (c < NCn G)%nat -> nth_error (h (Grouped G c)) i = Some t -> grouped_of G h c i = Some t.
Proof.
  intros Hc Hi.
  destruct (reach_proj G s (cact G 6 c) Hr) as (m & cu & out & Hsolo & _ & Hout).
  rewrite init_loc_conn in Hsolo by (auto; lia).
  destruct (solo_select G c _ m _ _ _ Hc Hsolo) as (_ & _ & _ & _ & L & S).
  assert (Hq : (Grouped G c < NCH G)%nat) by (apply cch_lt; auto; lia).
  assert (H0 : nth (Grouped G c) (hist _ _ (init G)) [] = []) by (apply (init_hist_conn G 10 c); auto; lia).
  unfold hfun in Hi. rewrite (Hout _ Hq (writer_Grouped G c)), H0 in Hi. simpl app in Hi.
  rewrite <- (S i); [exact Hi|]. rewrite <- L. apply nth_error_Some. congruence.
Qed.

Lemma msgs_tok_law c j t : (c < NCn G)%nat -> nth_error (h (Msgs G c)) j = Some t -> msg_of G h c j = Some t.
Proof.
  intros Hc Hj.
  destruct (reach_proj G s (cact G 2 c) Hr) as (m & cu & out & Hsolo & _ & Hout).
  rewrite init_loc_conn in Hsolo by (auto; lia).
  destruct (solo_zip G c _ m _ _ _ Hc Hsolo) as (_ & _ & L & S).
  assert (Hq : (Msgs G c < NCH G)%nat) by (apply cch_lt; auto; lia).
  assert (H0 : nth (Msgs G c) (hist _ _ (init G)) [] = []) by (apply (init_hist_conn G 5 c); auto; lia).
  unfold hfun in Hj. rewrite (Hout _ Hq (writer_Msgs G c)), H0 in Hj. simpl app in Hj.
  rewrite <- (S j); [exact Hj|]. rewrite <- L. apply nth_error_Some. congruence.
Qed.

Lemma zipm_tok_law c j t : (c < NCn G)%nat -> nth_error (h (ZipM G c)) j = Some t -> nth_error (h (MsgOut G c)) j = Some t.
Proof.
  intros Hc Hj.
  destruct (reach_proj G s (cact G 1 c) Hr) as (m & cu & out & Hsolo & _ & Hout).
  rewrite init_loc_conn in Hsolo by (auto; lia).
  destruct (solo_msg_in G c _ m _ _ _ Hc Hsolo) as (_ & L & S).
  assert (Hq : (ZipM G c < NCH G)%nat) by (apply cch_lt; auto; lia).
  assert (H0 : nth (ZipM G c) (hist _ _ (init G)) [] = []) by (apply (init_hist_conn G 4 c); auto; lia).
  unfold hfun in Hj. rewrite (Hout _ Hq (writer_ZipM G c)), H0 in Hj. simpl app in Hj.
  assert (Hlt : (j < m)%nat) by (rewrite <- L; apply nth_error_Some; congruence).
  destruct (S j Hlt) as (k & sn & p & H1 & H2). rewrite H2 in Hj. injection Hj as <-. exact H1.
Qed.

(* token j of MsgOut c is the message of the sender's recorded row j (no well-formedness of c_out needed: if the sender
   index is out of range nothing is ever written on MsgOut c) *)
Lemma msgout_tok_law c j t : (c < NCn G)%nat -> nth_error (h (MsgOut G c)) j = Some t ->
  exists r, nth_error (rows_of s (c_out (conn G c))) j = Some r /\ r_seq r = j /\ t = TMsgOut j (r_end r) (r_out r).
Proof.
  intros Hc Hj. set (n := c_out (conn G c)) in *.
  destruct (reach_proj G s (AStep n) Hr) as (m & cu & out & Hsolo & _ & Hout).
  assert (Hq : (MsgOut G c < NCH G)%nat) by (apply cch_lt; auto; lia).
  assert (H0 : nth (MsgOut G c) (hist _ _ (init G)) [] = []) by (apply (init_hist_conn G 1 c); auto; lia).
  unfold hfun in Hj. rewrite (Hout _ Hq (writer_MsgOut G c)), H0 in Hj. simpl app in Hj.
  destruct (Nat.lt_ge_cases n (NN G)) as [Hn|Hn].
  - rewrite init_loc_step in Hsolo by exact Hn.
    destruct (solo_step G n _ m _ _ _ Hn Hsolo) as (_ & _ & _ & _ & L1 & _ & R & _ & IMo).
    destruct (IMo c (in_outs_conv G c Hc)) as [Lm Sm].
    assert (Hlt : (j < m)%nat) by (rewrite <- Lm; apply nth_error_Some; congruence).
    rewrite (Sm j Hlt) in Hj. specialize (R j Hlt).
    destruct (row_of G h n j) as [r|]; simpl in Hj; [|discriminate]. injection Hj as <-.
    exists r. fold (rows_of s n) in R. split; [exact R|].
    destruct (async_once G s n Hr Hn) as [_ Hseq]. rewrite (Hseq j r R). auto.
  - assert (He : out (MsgOut G c) = []) by (eapply solo_conn_MsgOut; [|exact Hsolo]; unfold AStep; lia).
    rewrite He in Hj.
    destruct j; discriminate.
Qed.

Lemma msg_chain c j k sent recv pay : (c < NCn G)%nat -> nth_error (h (Msgs G c)) j = Some (TMsg k sent recv pay) ->
  exists r, nth_error (rows_of s (c_out (conn G c))) j = Some r /\ k = j /\ pay = r_out r.
Proof.
  intros Hc Hj. apply msgs_tok_law in Hj; [|exact Hc]. unfold msg_of in Hj.
  destruct (nth_error (h (ZipD G c)) j) as [t1|]; [|discriminate]. destruct t1; try discriminate.
  destruct (nth_error (h (ZipM G c)) j) as [t2|] eqn:E2; [|discriminate]. destruct t2; try discriminate.
  injection Hj as -> -> _ ->.
  apply zipm_tok_law in E2; [|exact Hc].
  destruct (msgout_tok_law c j _ Hc E2) as (r & Hrow & _ & Heq). injection Heq as -> _ ->.
  exists r. auto.
Qed.

(* ---------- the invariant: every window entry is a default entry or a recorded output of the sender ---------- *)
Definition entry_good (c : nat) (e : entry) : Prop :=
  e = (-1, 0, 0, vdA G (c_out (conn G c))) \/
  exists j a b r, e = (Z.of_nat j, a, b, r_out r) /\ nth_error (rows_of s (c_out (conn G c))) j = Some r.
Definition wgood (c : nat) (w : list entry) : Prop := Forall (entry_good c) w.

Lemma grp_good c i g : (c < NCn G)%nat -> nth_error (h (Grouped G c)) i = Some (TGrp g) -> wgood c g.
Proof.
  intros Hc Hi. apply grouped_tok_law in Hi; [|exact Hc]. unfold grouped_of in Hi.
  destruct (group_of G h c i) as [ms|] eqn:Eg; [|discriminate]. injection Hi as <-.
  apply Forall_forall. intros e He. apply in_lastn in He. unfold entries_of in He.
  apply in_map_iff in He. destruct He as ([[[k sn] r] p] & <- & Hin).
  unfold group_of in Eg. destruct (nth_error (h (ExpSel G c)) i) as [t|]; [|discriminate]. destruct t; try discriminate.
  pose proof (take_msgs_in _ _ _ Eg k sn r p Hin) as Hm. apply in_skipn in Hm.
  apply In_nth_error in Hm. destruct Hm as [j Hj].
  destruct (msg_chain c j k sn r p Hc Hj) as (r0 & Hrow & -> & ->).
  right. exists j, sn, r, r0. auto.
Qed.

Lemma push_good c w g : wgood c w -> wgood c g -> wgood c (push_all w g).
Proof.
  unfold wgood. rewrite !Forall_forall. intros Hw Hg e He. unfold push_all in He. apply in_lastn in He.
  apply in_app_or in He. destruct He; auto.
Qed.

Lemma init_good cs : Forall2 wgood cs
  (map (fun c => repeat (-1, 0, 0, 3 + n_nid (node G (c_out (conn G c)))) (c_window (conn G c))) cs).
Proof.
  induction cs as [|c cs IH]; simpl; constructor; [|exact IH].
  apply Forall_forall. intros e He. apply repeat_spec in He. left. exact He.
Qed.

Lemma step_good cs prev : Forall2 wgood cs prev -> forall u gs, heads_grp G cs u = Some gs ->
  (forall c g, In c cs -> hd_opt (u (Grouped G c)) = Some (TGrp g) -> wgood c g) ->
  Forall2 wgood cs (map (fun wg => push_all (fst wg) (snd wg)) (combine prev gs)).
Proof.
  induction 1 as [|c w cs prev Hw Hrest IH]; intros u gs Hg Hu; simpl in *.
  - constructor.
  - destruct (hd_opt (u (Grouped G c))) as [t|] eqn:E; [|discriminate]. destruct t; try discriminate.
    destruct (heads_grp G cs u) as [rs|] eqn:E2; [|discriminate]. injection Hg as <-. simpl. constructor.
    + apply push_good; [exact Hw|]. apply (Hu c g); auto.
    + apply (IH u rs E2). intros c0 g0 Hc0. apply Hu. now right.
Qed.

Lemma wins_before_good n k : Forall2 wgood (ins G n) (wins_before G h n k).
Proof.
  induction k as [|k IH].
  - simpl. unfold init_wins. apply init_good.
  - change (wins_before G h n (S k)) with (wins_after G h n k). rewrite wins_after_S.
    destruct (groups_at G h n k) as [gs|] eqn:Eg; [|exact IH].
    unfold groups_at in Eg. eapply step_good; [exact IH|exact Eg|].
    intros c g Hc Hhd. simpl in Hhd. rewrite hd_skipn_nth in Hhd.
    apply in_ins in Hc. destruct Hc as [Hc _]. eapply grp_good; eauto.
Qed.

Lemma wins_after_good n k : Forall2 wgood (ins G n) (wins_after G h n k).
Proof. exact (wins_before_good n (S k)). Qed.

(* ---------- sorting keeps the (sender, window) association ---------- *)
Definition pgood (mw : nat * list entry) : Prop := exists c, fst mw = c_out (conn G c) /\ wgood c (snd mw).

Lemma insert_good key w l : pgood (key, w) -> Forall pgood l -> Forall pgood (insert_by key w l).
Proof.
  intros Hk Hl. induction Hl as [|[k0 x] l Hx Hl IH]; simpl.
  - constructor; [exact Hk|constructor].
  - destruct (Nat.leb key k0); constructor; auto.
Qed.

Lemma sort_pairs_good cs ws : Forall2 wgood cs ws -> Forall pgood (sort_pairs G cs ws).
Proof.
  unfold sort_pairs. induction 1 as [|c w cs ws Hw Hrest IH]; simpl; [constructor|].
  apply insert_good; [|exact IH]. exists c. auto.
Qed.

(* ---------- filling the stripped windows from the recorded trace gives the windows back ---------- *)
Lemma fill_good c w : wgood c w ->
  fill Z (vdA G) (T_a G s) (c_out (conn G c)) (Replay.strip3 w) = Some w.
Proof.
  induction 1 as [|[[[sq a] b] p] w He Hw IH]; simpl; [reflexivity|].
  fold (@Replay.strip3 Z w). rewrite IH.
  assert (Hp : payload Z (vdA G) (T_a G s) (c_out (conn G c)) sq = Some p); [|now rewrite Hp].
  unfold payload. destruct He as [He|(j & a' & b' & r & He & Hrow)].
  - injection He as -> _ _ ->. reflexivity.
  - injection He as -> _ _ ->.
    destruct (Z.ltb_spec (Z.of_nat j) 0); [lia|].
    unfold T_a, arow. destruct (Z.ltb_spec (Z.of_nat j) 0); [lia|].
    rewrite Nat2Z.id, Hrow. reflexivity.
Qed.

Lemma fill_all_good l : Forall pgood l ->
  fill_all Z (vdA G) (T_a G s) (map (fun kw => (fst kw, Replay.strip3 (snd kw))) l) = Some (map snd l).
Proof.
  induction 1 as [|[m w] l (c & Hm & Hw) Hl IH]; simpl in *; [reflexivity|].
  subst m. rewrite (fill_good c w Hw), IH. reflexivity.
Qed.

(* ---------- what a recorded row is ---------- *)
Lemma row_of_facts n k r : row_of G h n k = Some r ->
  r_state r = state_before G h n k /\ r_wins r = wins_after G h n k /\
  r_out r = probe (r_state r) (r_seq r) (r_start r) (sort_wins G (ins G n) (r_wins r)).
Proof.
  unfold row_of. destruct (nth_error (h (QStart n)) k) as [t|]; [|discriminate]. destruct t; try discriminate.
  destruct (groups_at G h n k); [|discriminate]. intros [= <-]. simpl. auto.
Qed.

Theorem async_solves_dataflow_s n k : (n < NN G)%nat ->
  eq_at Z fA (viA G) (vdA G) (ts_a G s) (wins_a G s) (T_a G s) n k.
Proof.
  intros Hn st out HT. unfold T_a in HT.
  destruct (arow G s n k) as [r|] eqn:Ha; [|discriminate]. simpl in HT. injection HT as <- <-.
  pose proof Ha as Er. unfold arow in Er. destruct (Z.ltb_spec k 0) as [|Hk]; [discriminate|].
  remember (Z.to_nat k) as kn eqn:Ekn.
  assert (Hlt : (kn < length (rows_of s n))%nat) by (apply nth_error_Some; congruence).
  pose proof (rows_law G s n kn Hr Hn Hlt) as HR. rewrite Er in HR. symmetry in HR.
  destruct (row_of_facts n kn r HR) as (Hst & Hwins & Hout).
  destruct (async_once G s n Hr Hn) as [_ Hseq]. pose proof (Hseq _ _ Er) as Hsq.
  split.
  - destruct (Z.eqb_spec k 0) as [Hk0|Hk0].
    + assert (Hz : kn = 0%nat) by lia. rewrite Hst, Hz. reflexivity.
    + assert (Hkp : kn = S (Z.to_nat (k - 1))) by lia.
      destruct (nth_error (rows_of s n) (Z.to_nat (k - 1))) as [r'|] eqn:Er'.
      * exists (r_state r'). unfold T_a, arow. destruct (Z.ltb_spec (k - 1) 0); [lia|]. rewrite Er'. simpl.
        rewrite Hkp in Er. rewrite (record_state_chain G s n _ r' r Hr Hn Er' Er). reflexivity.
      * apply nth_error_None in Er'. lia.
  - exists (sort_wins G (ins G n) (r_wins r)). split.
    + unfold wins_a. rewrite Ha. rewrite <- sort_pairs_snd. apply fill_all_good. apply sort_pairs_good.
      rewrite Hwins. apply wins_after_good.
    + unfold fA, ts_a. rewrite Ha. rewrite <- Ekn, <- Hsq. exact Hout.
Qed.
End AsyncDataflow.

(* the asynchronous half of C01: no side condition on the configuration *)
Theorem async_solves_dataflow G s : reach G s ->
  forall n k, (n < NN G)%nat -> eq_at Z fA (viA G) (vdA G) (ts_a G s) (wins_a G s) (T_a G s) n k.
Proof. intros Hr n k Hn. apply async_solves_dataflow_s; assumption. Qed.

(* the recorded trace is defined only at non-negative sequence numbers (the other premise of replay_unique) *)
Lemma T_a_nonneg G s n k x : T_a G s n k = Some x -> 0 <= k.
Proof. unfold T_a, arow. destruct (Z.ltb_spec k 0); [discriminate|lia]. Qed.


(* the same statement with the step function of the COMPILED model (CompiledModel.probe, the instance of f that Replay.replay_unique is
   used with): the two probes agree at every non-negative sequence number, and the recorded trace is defined only there *)
Lemma win_sum_c w : forall j, AsyncModel2.win_sum j w = CompiledModel.win_sum j w.
Proof. induction w as [|[[[sq a] b] p] w IH]; intros j; simpl; [reflexivity|]. now rewrite IH. Qed.

Lemma wins_sum_c (ins : list (list (Z * Z * Z * Z))) :
  fold_right (fun w acc => AsyncModel2.win_sum 0 w + acc) 0 ins = fold_right (fun w acc => CompiledModel.win_sum 0 w + acc) 0 ins.
Proof. induction ins as [|w ins IH]; cbn [fold_right]; [reflexivity|]. rewrite IH, win_sum_c. reflexivity. Qed.

Lemma fA_probe_c n k ts st ins : 0 <= k -> fA n k ts st ins = CompiledModel.probe n k ts st ins.
Proof.
  intros Hk. unfold fA, AsyncModel2.probe, CompiledModel.probe. rewrite Z2Nat.id by exact Hk.
  rewrite wins_sum_c. reflexivity.
Qed.

Theorem async_solves_dataflow_c G s : reach G s ->
  forall n k, (n < NN G)%nat -> eq_at Z CompiledModel.probe (viA G) (vdA G) (ts_a G s) (wins_a G s) (T_a G s) n k.
Proof.
  intros Hr n k Hn st out HT.
  destruct (async_solves_dataflow G s Hr n k Hn st out HT) as (A & ins & F & O).
  split; [exact A|]. exists ins. split; [exact F|].
  rewrite O. apply fA_probe_c. eapply T_a_nonneg; eauto.
Qed.
Print Assumptions async_solves_dataflow_c.

(* ---------- the executable scheduler only produces reachable states ---------- *)
Lemma try_fire_step G s a s' : try_fire G s a = Some s' -> rex_step G a s s'.
Proof.
  unfold try_fire. destruct (fire G a (nth a (loc _ _ s) l0) (unread s)) as [r|] eqn:E; [|discriminate].
  intros [= <-]. split.
  - unfold fire in E. destruct (Nat.leb_spec (NACT G) a); [discriminate|assumption].
  - exists r. split; [exact E|reflexivity].
Qed.

Lemma sweep_reach G sched limit : forall s p, reach G s -> reach G (fst (sweep G sched limit s p)).
Proof.
  induction sched as [|a sched IH]; intros s p Hs; cbn [sweep]; [exact Hs|].
  match goal with |- context [if ?b then _ else _] => destruct b end.
  - apply IH. exact Hs.
  - destruct (try_fire G s a) as [s'|] eqn:E; [|apply IH; exact Hs].
    apply IH. eapply steps_snoc; [exact Hs|]. apply try_fire_step. exact E.
Qed.

Lemma run_reach G sched limit fuel : forall s, reach G s -> reach G (run G fuel sched limit s).
Proof.
  induction fuel as [|fuel IH]; intros s Hs; cbn [run]; [exact Hs|].
  pose proof (sweep_reach G sched limit s false Hs) as H.
  destruct (sweep G sched limit s false) as [s' p]. simpl in H. destruct p; [apply IH|]; exact H.
Qed.

(* ---------- non-vacuity: node 0 feeds node 1 through a non-blocking connection with a window of 2 ---------- *)
Definition exG : cfg :=
  {| nodes := [ {| n_period := 10; n_phase := 0; n_advance := false; n_freq := true; n_delays := [2]; n_nid := 0 |};
                {| n_period := 10; n_phase := 5; n_advance := false; n_freq := true; n_delays := [3]; n_nid := 1 |} ];
     conns := [ {| c_out := 0; c_in := 1; c_blocking := false; c_skip := false; c_buffer := false;
                   c_window := 2; c_phase := 0; c_delays := [1] |} ] |}.
Definition exS : state := run exG 40 (seq 0 (NACT exG)) (fun _ => 4%nat) (init exG).

Lemma exS_reach : reach exG exS.
Proof. apply run_reach. constructor. Qed.

(* the vertex (node 1, seq 2) is recorded, its window holds the outputs of rows 1 and 2 of node 0 (no default entry), and
   row 0 of node 1 still sees one default entry (-1, 0, 0) *)
Example ex_async_defined :
  T_a exG exS 1%nat 2 = Some (1943, 17693) /\ ts_a exG exS 1%nat 2 = 25 /\
  wins_a exG exS 1%nat 2 = [(0%nat, [(1, 12, 13); (2, 22, 23)])] /\
  wins_a exG exS 1%nat 0 = [(0%nat, [(-1, 0, 0); (0, 2, 3)])] /\
  payload Z (vdA exG) (T_a exG exS) 0%nat 2 = Some 820.
Proof. vm_compute. repeat split; reflexivity. Qed.

Example ex_async_eq_at : eq_at Z fA (viA exG) (vdA exG) (ts_a exG exS) (wins_a exG exS) (T_a exG exS) 1%nat 2.
Proof. apply async_solves_dataflow; [exact exS_reach|]. vm_compute. lia. Qed.

Print Assumptions async_solves_dataflow.
