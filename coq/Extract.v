(* Extraction of the executable models (ExtrOcamlBasic only: bool, option, unit, prod, list, sumbool, sumor are mapped to
   OCaml's; Z / positive / nat / Q stay the Coq inductives). Compiled separately by `./check setup`, not part of make. *)
From Coq Require Import ExtrOcamlBasic.
From Rex Require Import AsyncModel2.
Extraction Language OCaml.
Set Extraction Output Directory ".".
Extraction "model.ml" Build_node_cfg Build_conn_cfg Build_cfg init run rows_of msgs_of NN NCn NACT.
