(* C03: selection / consumption laws (non-blocking expectation, selection), via the Kahn principle *)
From Coq Require Import List Arith ZArith Bool Lia.
From Coq Require Import ZifyNat ZifyBool.
From Rex Require Import KahnL AsyncModel2 AsyncStable ConflInv RexDet AsyncLaws AsyncLaws2.
Import ListNotations.
Ltac Zify.zify_post_hook ::= Z.div_mod_to_equations.

Section Laws3.
Variable G : cfg.
Notation NCH := (NCH G). Notation NACT := (NACT G). Notation NN := (NN G). Notation NCn := (NCn G).
Notation reader := (reader G). Notation writer := (writer G).

(* how many of the pending arrival stamps a non-blocking step starting at t takes *)
Definition cnt_fn c (t : Z) (l : list tok) : nat :=
  if c_buffer (conn G c)
  then count_buffer (c_skip (conn G c)) (n_period (node G (c_out (conn G c)))) (c_phase (conn G c)) t l
  else count_latest (c_skip (conn G c)) t l.

(* number of arrival stamps consumed before the i-th selection *)
Fixpoint nb_consumed (h : nat -> list tok) c i : nat :=
  match i with O => 0%nat
  | S i' => let k := nb_consumed h c i' in
            match nth_error (h (Next G c)) i' with
            | Some (TSched _ t) => (k + cnt_fn c t (skipn k (h (TsIn G c))))%nat
            | _ => k end end.
Definition expsel_of (h : nat -> list tok) c i : option tok :=
  match nth_error (h (Next G c)) i with
  | Some (TSched _ t) => Some (TSel t (cnt_fn c t (skipn (nb_consumed h c i) (h (TsIn G c)))))
  | _ => None end.

Lemma solo_exp_nb c h m l cu out : (c < NCn)%nat ->
  rsolo G (cact G 5 c) l0 h m l cu out ->
  cu (Next G c) = m /\ cu (TsIn G c) = nb_consumed h c m /\ length (out (ExpSel G c)) = m /\
  (forall i, (i < m)%nat -> nth_error (out (ExpSel G c)) i = expsel_of h c i).
Proof.
  intros Hc H. induction H as [|m l cu out r H IH Hf].
  - repeat split; intros; try reflexivity; lia.
  - destruct IH as (IC1 & IC2 & IL & IS).
    apply (fire_is_conn G 5) in Hf; [|exact Hc|lia]. unfold fire_exp_nb in Hf.
    destruct (c_blocking (conn G c)); [discriminate|].
    unfold view in Hf. rewrite IC1, IC2, hd_skipn_nth in Hf.
    destruct (nth_error (h (Next G c)) m) as [t|] eqn:E; [|discriminate]. destruct t; try discriminate.
    destruct (has_future s (skipn (nb_consumed h c m) (h (TsIn G c)))); [|discriminate].
    injection Hf as <-. cbn [KahnL.l' KahnL.cons KahnL.prod].
    assert (Hne : Next G c <> TsIn G c) by (unfold Next, TsIn, cch; lia).
    fold (cnt_fn c s (skipn (nb_consumed h c m) (h (TsIn G c)))).
    split; [rewrite put_eq; lia|].
    split; [rewrite put_ne by auto; rewrite put_eq; simpl; rewrite E; lia|].
    split; [rewrite put_eq, app_length; simpl; lia|].
    intros i Hi. rewrite put_eq. destruct (Nat.eq_dec i m) as [->|Hn].
    + rewrite nth_error_app2 by lia. rewrite IL, Nat.sub_diag. unfold expsel_of. rewrite E. reflexivity.
    + rewrite nth_error_app1 by lia. apply IS. lia.
Qed.

(* ---- selection: grouping, seq_in assignment, window truncation ---- *)
Definition mtuple := (nat * Z * Z * Z)%type.
Fixpoint sel_consumed (h : nat -> list tok) c i : nat :=
  match i with O => 0%nat
  | S i' => match nth_error (h (ExpSel G c)) i' with
            | Some (TSel _ cnt) => (sel_consumed h c i' + cnt)%nat | _ => sel_consumed h c i' end end.
Definition group_of (h : nat -> list tok) c i : option (list mtuple) :=
  match nth_error (h (ExpSel G c)) i with
  | Some (TSel _ cnt) => take_msgs cnt (skipn (sel_consumed h c i) (h (Msgs G c))) | _ => None end.
Definition recs_of (i : nat) (ms : list mtuple) : list mrec :=
  map (fun m => match m with (k, s, r, _) => {| m_out := k; m_in := i; m_sent := s; m_recv := r |} end) ms.
Definition entries_of (ms : list mtuple) : list entry :=
  map (fun m => match m with (k, s, r, p) => (Z.of_nat k, s, r, p) end) ms.
Definition grouped_of (h : nat -> list tok) c i : option tok :=
  match group_of h c i with Some ms => Some (TGrp (lastn (c_window (conn G c)) (entries_of ms))) | None => None end.
(* all message records produced by the first m selections *)
Fixpoint all_recs (h : nat -> list tok) c m : list mrec :=
  match m with O => []
  | S i => all_recs h c i ++ match group_of h c i with Some ms => recs_of i ms | None => [] end end.

Lemma solo_select c h m l cu out : (c < NCn)%nat ->
  rsolo G (cact G 6 c) l0 h m l cu out ->
  l_tick l = m /\ cu (ExpSel G c) = m /\ cu (Msgs G c) = sel_consumed h c m /\
  l_msgs l = all_recs h c m /\ length (out (Grouped G c)) = m /\
  (forall i, (i < m)%nat -> nth_error (out (Grouped G c)) i = grouped_of h c i).
Proof.
  intros Hc H. induction H as [|m l cu out r H IH Hf].
  - repeat split; intros; try reflexivity; lia.
  - destruct IH as (IT & IC1 & IC2 & IM & IL & IS).
    apply (fire_is_conn G 6) in Hf; [|exact Hc|lia]. unfold fire_select in Hf.
    unfold view in Hf. rewrite IC1, IC2, hd_skipn_nth in Hf.
    destruct (nth_error (h (ExpSel G c)) m) as [t|] eqn:E; [|discriminate]. destruct t; try discriminate.
    destruct (take_msgs c0 (skipn (sel_consumed h c m) (h (Msgs G c)))) as [ms|] eqn:E2; [|discriminate].
    injection Hf as <-. cbn [KahnL.l' KahnL.cons KahnL.prod l_tick l_msgs upd_l].
    assert (Hne : ExpSel G c <> Msgs G c) by (unfold ExpSel, Msgs, cch; lia).
    assert (HG : group_of h c m = Some ms) by (unfold group_of; rewrite E; exact E2).
    split; [lia|]. split; [rewrite put_eq; lia|].
    split; [rewrite put_ne by auto; rewrite put_eq; simpl; rewrite E; lia|].
    split. { simpl all_recs. rewrite HG, IM. f_equal. unfold recs_of. apply map_ext. intros [[[k0 s0] r0] p0]. now rewrite IT. }
    split; [rewrite put_eq, app_length; simpl; lia|].
    intros i Hi. rewrite put_eq. destruct (Nat.eq_dec i m) as [->|Hn].
    + rewrite nth_error_app2 by lia. rewrite IL, Nat.sub_diag. unfold grouped_of. rewrite HG. reflexivity.
    + rewrite nth_error_app1 by lia. apply IS. lia.
Qed.

(* every recorded message of group i carries seq_in = i: seq_in is the selection counter *)
Lemma recs_of_in i ms r : In r (recs_of i ms) -> m_in r = i.
Proof. unfold recs_of. intros H. apply in_map_iff in H. destruct H as [[[[k s0] r0] p] [<- _]]. reflexivity. Qed.

(* message records of a connection in any reachable state *)
Theorem msgs_law s c : reach G s -> (c < NCn)%nat ->
  exists m, msgs_of G s c = all_recs (hfun tok local s) c m.
Proof.
  intros Hr Hc.
  destruct (reach_proj G s (cact G 6 c) Hr) as (m & cu & out & Hsolo & _ & _).
  rewrite init_loc_conn in Hsolo by (auto; lia).
  destruct (solo_select c _ m _ _ _ Hc Hsolo) as (_ & _ & _ & IM & _).
  exists m. exact IM.
Qed.

(* seq_in values in the record are non-decreasing and each group is contiguous *)
Lemma all_recs_seq_in_bound h c m r : In r (all_recs h c m) -> (m_in r < m)%nat.
Proof.
  induction m as [|i IH]; simpl; [contradiction|]. intros H. apply in_app_or in H. destruct H as [H|H].
  - apply IH in H. lia.
  - destruct (group_of h c i); [|contradiction]. apply recs_of_in in H. lia.
Qed.
End Laws3.
Print Assumptions msgs_law.
