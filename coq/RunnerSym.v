(* C01/C08: the runner is natural in the payload type; a symbolic (tag) run certifies what every read returns *)
From Coq Require Import List Arith ZArith Bool Lia.
From Rex Require Import CompiledModel.
Import ListNotations.
Open Scope Z_scope.

Section Nat.
Variable I : inst.
Variable sizes : list Z.
Variables (A B : Type) (h : A -> B).
Variable fA : nat -> Z -> Z -> A -> list (list (Z * Z * Z * A)) -> A.
Variable fB : nat -> Z -> Z -> B -> list (list (Z * Z * Z * B)) -> B.
Variables (iA dA : nat -> A) (iB dB : nat -> B).

Definition hent (e : Z * Z * Z * A) : Z * Z * Z * B := match e with (a, b, c, x) => (a, b, c, h x) end.
Definition hins (l : list (list (Z * Z * Z * A))) := map (map hent) l.
Hypothesis h_step : forall n k t st ins, h (fA n k t st ins) = fB n k t (h st) (hins ins).
Hypothesis h_init : forall n, h (iA n) = iB n.
Hypothesis h_def : forall n, h (dA n) = dB n.

Definition hrow (r : row A) : row B :=
  {| w_node := w_node A r; w_seq := w_seq A r; w_ts := w_ts A r; w_st := h (w_st A r);
     w_in := hins (w_in A r); w_out := h (w_out A r) |}.
Definition hstate (s : rstate A) : rstate B :=
  {| r_buf := map (map h) (r_buf A s); r_st := map h (r_st A s); r_log := map hrow (r_log A s) |}.

Lemma upd_map {X Y} (g : X -> Y) i (f : X -> X) (f' : Y -> Y) l :
  (forall x, g (f x) = f' (g x)) -> map g (upd i f l) = upd i f' (map g l).
Proof. intros H. revert i; induction l as [|x l IH]; intros [|i]; simpl; auto; f_equal; auto. Qed.

Lemma ring_read_h s m sq : h (ring_read A dA sizes s m sq) = ring_read B dB sizes (hstate s) m sq.
Proof.
  unfold ring_read, hstate; simpl. rewrite <- h_def.
  rewrite <- (map_nth h). f_equal.
  change (@nil B) with (map h (@nil A)). rewrite (map_nth (map h)). reflexivity.
Qed.

Lemma insert_by_h key w l :
  map (fun kw => (fst kw, map hent (snd kw))) (insert_by A key w l) =
  insert_by B key (map hent w) (map (fun kw => (fst kw, map hent (snd kw))) l).
Proof.
  induction l as [|[k x] l IH]; simpl; [reflexivity|]. destruct (Nat.leb key k); simpl; [reflexivity|]. now rewrite IH.
Qed.

Lemma inputs_of_h s n c : hins (inputs_of I A dA sizes s n c) = inputs_of I B dB sizes (hstate s) n c.
Proof.
  unfold inputs_of, hins.
  set (FA := fun (cw : nat * list wentry) acc => insert_by A (k_out (conn I (fst cw)))
        (map (fun e => match e with (sq, a, b) => (sq, a, b, ring_read A dA sizes s (k_out (conn I (fst cw))) sq) end) (snd cw)) acc).
  set (FB := fun (cw : nat * list wentry) acc => insert_by B (k_out (conn I (fst cw)))
        (map (fun e => match e with (sq, a, b) => (sq, a, b, ring_read B dB sizes (hstate s) (k_out (conn I (fst cw))) sq) end) (snd cw)) acc).
  assert (H : forall l, map (fun kw => (fst kw, map hent (snd kw))) (fold_right FA [] l) = fold_right FB [] l).
  { induction l as [|cw l IH]; [reflexivity|]. simpl. unfold FA at 1. rewrite insert_by_h, IH. unfold FB at 2. f_equal.
    rewrite map_map. apply map_ext. intros [[sq a] b]. simpl. now rewrite ring_read_h. }
  rewrite <- H. rewrite !map_map. reflexivity.
Qed.

Lemma exec_cell_h s n c : hrow (exec_cell I A fA iA dA sizes s n c) = exec_cell I B fB iB dB sizes (hstate s) n c.
Proof.
  unfold exec_cell, hrow; simpl. rewrite h_step, inputs_of_h.
  assert (Hst : h (nth n (r_st A s) (iA n)) = nth n (map h (r_st A s)) (iB n)) by (rewrite <- h_init; symmetry; apply map_nth).
  rewrite Hst. reflexivity.
Qed.

Lemma commit_h s r : hstate (commit A sizes s r) = commit B sizes (hstate s) (hrow r).
Proof.
  unfold commit, hstate; simpl. f_equal.
  - apply upd_map. intros l. apply upd_map. reflexivity.
  - apply upd_map. reflexivity.
  - now rewrite map_app.
Qed.

Lemma fold_commit_h rs : forall s,
  hstate (fold_left (commit A sizes) rs s) = fold_left (commit B sizes) (map hrow rs) (hstate s).
Proof. induction rs as [|r rs IH]; intros s; simpl; [reflexivity|]. now rewrite IH, commit_h. Qed.

Lemma run_phase_h todo s :
  hstate (run_phase I A fA iA dA sizes todo s) = run_phase I B fB iB dB sizes todo (hstate s).
Proof.
  unfold run_phase. rewrite fold_commit_h, map_map. f_equal. apply map_ext. intros [n c]. apply exec_cell_h.
Qed.

Lemma map_repeat' {X Y} (g : X -> Y) x n : map g (repeat x n) = repeat (g x) n.
Proof. induction n; simpl; [reflexivity|now rewrite IHn]. Qed.

Lemma rinit_h : hstate (rinit I A iA dA sizes) = rinit I B iB dB sizes.
Proof.
  unfold rinit, hstate; simpl. f_equal.
  - rewrite map_map. apply map_ext. intros n. rewrite map_repeat', h_def. reflexivity.
  - rewrite map_map. apply map_ext. intros n. apply h_init.
Qed.

(* naturality: running on A and translating = translating and running on B *)
Theorem rollout_natural p0 n :
  hstate (rollout I A fA iA dA sizes p0 n) = rollout I B fB iB dB sizes p0 n.
Proof.
  unfold rollout. rewrite <- rinit_h. generalize (rinit I A iA dA sizes) as s.
  induction (flat_map (phases_of I) (seq p0 n)) as [|ph phs IH]; intros s; simpl; [reflexivity|].
  rewrite IH, run_phase_h. reflexivity.
Qed.
End Nat.


(* ------------------------------------------------------------------------------------------------------ *)
(* Paired run: every stored value travels with a tag saying which vertex produced it. The tag component is  *)
(* the symbolic run (it does not depend on values), the value component is the real run (naturality), and   *)
(* every (value, tag) pair anywhere in the state is coherent with the log of executed rows.                 *)
Inductive tag := TInit (n : nat) | TDef (n : nat) | TOut (n : nat) (k : Z).

Section Sym.
Variable I : inst.
Variable sizes : list Z.
Variable Val : Type.
Variable f : nat -> Z -> Z -> Val -> list (list (Z * Z * Z * Val)) -> Val.
Variables (vi vd : nat -> Val).

Definition PV := (Val * tag)%type.
Definition strip (ins : list (list (Z * Z * Z * PV))) := hins PV Val fst ins.
Definition fP n k t (st : PV) (ins : list (list (Z * Z * Z * PV))) : PV := (f n k t (fst st) (strip ins), TOut n k).
Definition iP n : PV := (vi n, TInit n).
Definition dP n : PV := (vd n, TDef n).
Definition ftag (n : nat) (k t : Z) (st : tag) (ins : list (list (Z * Z * Z * tag))) : tag := TOut n k.

Definition prun p0 n := rollout I PV fP iP dP sizes p0 n.

(* the value component of the paired run is the real run; the tag component is the symbolic run *)
Theorem paired_fst p0 n : hstate PV Val fst (prun p0 n) = rollout I Val f vi vd sizes p0 n.
Proof. apply rollout_natural; reflexivity. Qed.
Theorem paired_snd p0 n : hstate PV tag snd (prun p0 n) = rollout I tag ftag TInit TDef sizes p0 n.
Proof. apply rollout_natural; reflexivity. Qed.

Definition coh (log : list (row PV)) (x : PV) : Prop :=
  match snd x with
  | TInit n => fst x = vi n
  | TDef m => fst x = vd m
  | TOut n k => exists r, In r log /\ w_node PV r = n /\ w_seq PV r = k /\ fst (w_out PV r) = fst x
  end.
Lemma coh_mono log log' x : (forall r, In r log -> In r log') -> coh log x -> coh log' x.
Proof. unfold coh. destruct (snd x); auto. intros H (r & Hr & ?). exists r. auto. Qed.

Definition ent_ok (log : list (row PV)) (e : Z * Z * Z * PV) : Prop := match e with (_, _, _, x) => coh log x end.
Definition row_ok (log : list (row PV)) (r : row PV) : Prop :=
  snd (w_out PV r) = TOut (w_node PV r) (w_seq PV r) /\
  fst (w_out PV r) = f (w_node PV r) (w_seq PV r) (w_ts PV r) (fst (w_st PV r)) (strip (w_in PV r)) /\
  coh log (w_st PV r) /\ (forall w, In w (w_in PV r) -> forall e, In e w -> ent_ok log e).
Definition J (s : rstate PV) : Prop :=
  (forall l, In l (r_buf PV s) -> forall x, In x l -> coh (r_log PV s) x) /\
  (forall x, In x (r_st PV s) -> coh (r_log PV s) x) /\
  (forall r, In r (r_log PV s) -> row_ok (r_log PV s) r).

Lemma in_upd {X} i (g : X -> X) l y : In y (upd i g l) -> In y l \/ exists x, In x l /\ y = g x.
Proof.
  revert i; induction l as [|x l IH]; intros [|i]; simpl; auto.
  - intros [<-|H]; [right; exists x; auto|auto].
  - intros [<-|H]; [auto|]. destruct (IH i H) as [H'|(z & Hz & ->)]; [auto|right; exists z; auto].
Qed.

Lemma row_ok_mono log log' r : (forall x, In x log -> In x log') -> row_ok log r -> row_ok log' r.
Proof.
  intros H (A & B & C & D). repeat split; auto; [eapply coh_mono; eauto|].
  intros w Hw e He. specialize (D w Hw e He). destruct e as [[[a b] c] x]. simpl in *. eapply coh_mono; eauto.
Qed.

Lemma commit_J s r : J s -> row_ok (r_log PV s) r -> J (commit PV sizes s r).
Proof.
  intros (J1 & J2 & J3) Hr. unfold commit. set (log' := r_log PV s ++ [r]).
  assert (Hsub : forall x, In x (r_log PV s) -> In x log') by (intros; apply in_or_app; auto).
  assert (Hout : coh log' (w_out PV r)).
  { destruct Hr as (A & _). unfold coh. rewrite A. exists r. repeat split; auto. apply in_or_app. right. now left. }
  split; [|split]; simpl.
  - intros l Hl x Hx. apply in_upd in Hl. destruct Hl as [Hl|(l0 & Hl0 & ->)].
    + eapply coh_mono; [exact Hsub|eapply J1; eauto].
    + apply in_upd in Hx. destruct Hx as [Hx|(x0 & _ & ->)]; [eapply coh_mono; [exact Hsub|eapply J1; eauto]|exact Hout].
  - intros x Hx. apply in_upd in Hx. destruct Hx as [Hx|(x0 & _ & ->)]; [eapply coh_mono; [exact Hsub|auto]|exact Hout].
  - intros rr Hrr. apply in_app_or in Hrr. destruct Hrr as [Hrr|[<-|[]]]; eapply row_ok_mono; eauto.
Qed.

Lemma nth_coh log (l : list PV) i d : (forall x, In x l -> coh log x) -> coh log d -> coh log (nth i l d).
Proof. intros H Hd. destruct (nth_in_or_default i l d) as [Hi| ->]; auto. Qed.

Lemma ring_read_coh s m sq : J s -> coh (r_log PV s) (ring_read PV dP sizes s m sq).
Proof.
  intros (J1 & _ & _). unfold ring_read. apply nth_coh; [|reflexivity].
  intros x Hx. destruct (nth_in_or_default m (r_buf PV s) []) as [Hl|Hl]; [eapply J1; eauto|rewrite Hl in Hx; contradiction].
Qed.

Lemma in_insert_by key w l kw : In kw (insert_by PV key w l) -> kw = (key, w) \/ In kw l.
Proof.
  induction l as [|[k x] l IH]; simpl; [intros [<-|[]]; auto|].
  destruct (Nat.leb key k); simpl; [intros [<-|H]; auto|]. intros [<-|H]; [auto|]. destruct (IH H); auto.
Qed.

Lemma exec_cell_ok s n c : J s -> row_ok (r_log PV s) (exec_cell I PV fP iP dP sizes s n c).
Proof.
  intros HJ. unfold exec_cell, row_ok; simpl. repeat split.
  - destruct HJ as (_ & J2 & _). apply nth_coh; [exact J2|reflexivity].
  - intros w Hw e He. unfold inputs_of in Hw. apply in_map_iff in Hw. destruct Hw as [[k w'] [<- Hkw]]. simpl in He.
    revert Hkw. generalize (combine (ins_of I n) (c_wins c)) as l. induction l as [|cw l IH]; simpl; [contradiction|].
    intros Hkw. apply in_insert_by in Hkw. destruct Hkw as [Heq|Hin]; [|auto].
    injection Heq as _ ->. apply in_map_iff in He. destruct He as [[[sq a] b] [<- _]]. simpl. apply ring_read_coh. exact HJ.
Qed.

Lemma run_phase_J todo s : J s -> J (run_phase I PV fP iP dP sizes todo s).
Proof.
  intros HJ. unfold run_phase.
  assert (Hrows : forall r, In r (map (fun nc => exec_cell I PV fP iP dP sizes s (fst nc) (snd nc)) todo) -> row_ok (r_log PV s) r).
  { intros r Hr. apply in_map_iff in Hr. destruct Hr as [[n c] [<- _]]. apply exec_cell_ok. exact HJ. }
  revert Hrows. generalize (map (fun nc => exec_cell I PV fP iP dP sizes s (fst nc) (snd nc)) todo) as rs.
  assert (Hgen : forall rs s', J s' -> (forall x, In x (r_log PV s) -> In x (r_log PV s')) ->
            (forall r, In r rs -> row_ok (r_log PV s) r) -> J (fold_left (commit PV sizes) rs s')).
  { induction rs as [|r rs IH]; intros s' HJ' Hsub Hrs; simpl; [exact HJ'|].
    apply IH.
    - apply commit_J; [exact HJ'|]. eapply row_ok_mono; [exact Hsub|]. apply Hrs. now left.
    - intros x Hx. simpl. apply in_or_app. left. auto.
    - intros r0 Hr0. apply Hrs. now right. }
  intros rs Hrs. apply Hgen; auto.
Qed.

Lemma rinit_J : J (rinit I PV iP dP sizes).
Proof.
  unfold rinit, J; simpl. split; [|split]; [| |contradiction].
  - intros l Hl x Hx. apply in_map_iff in Hl. destruct Hl as [m [<- _]]. apply repeat_spec in Hx. subst. reflexivity.
  - intros x Hx. apply in_map_iff in Hx. destruct Hx as [m [<- _]]. reflexivity.
Qed.

(* C01/C08 core: in the paired run every executed row computed its output from (i) the state carried by the tag of its
   state and (ii) the payloads carried by the tags of its window entries, and each such (value, tag) pair is coherent:
   TInit/TDef carry the initial state / default output, TOut n k carries the output of an executed row (n, k). *)
Theorem runner_coherent p0 n : J (prun p0 n).
Proof.
  unfold prun, rollout. generalize (flat_map (phases_of I) (seq p0 n)) as phs.
  assert (H : forall phs s, J s -> J (fold_left (fun s ph => run_phase I PV fP iP dP sizes ph s) phs s)).
  { induction phs as [|ph phs IH]; intros s HJ; simpl; [exact HJ|]. apply IH. apply run_phase_J. exact HJ. }
  intros phs. apply H. apply rinit_J.
Qed.
End Sym.
Print Assumptions runner_coherent.
