(* C15: the grid quantile of mixture distributions (utils.mixture_distribution_quantiles), order-theoretic part *)
From Coq Require Import List Arith ZArith Bool Lia.
Import ListNotations.
Open Scope Z_scope.
(* CDF values on the grid and probabilities are compared only by order: any totally ordered field works; Z suffices *)

(* onp.argmax(cdf_grid > p): first index whose value exceeds p, and 0 when there is none (numpy's argmax of all-False) *)
Fixpoint first_above (p : Z) (cs : list Z) : option nat :=
  match cs with [] => None | c :: cs => if p <? c then Some 0%nat else option_map S (first_above p cs) end.
Definition grid_index (p : Z) (cs : list Z) : nat := match first_above p cs with Some i => i | None => 0%nat end.

Lemma first_above_spec p cs i : first_above p cs = Some i ->
  (i < length cs)%nat /\ p < nth i cs 0 /\ forall j, (j < i)%nat -> nth j cs 0 <= p.
Proof.
  revert i. induction cs as [|c cs IH]; intros i H; [discriminate|]. simpl in H.
  destruct (Z.ltb_spec p c).
  - injection H as <-. simpl. repeat split; [lia|lia|intros; lia].
  - destruct (first_above p cs) as [k|] eqn:E; [|discriminate]. injection H as <-.
    destruct (IH k eq_refl) as (A & B & C). simpl. repeat split; [lia|exact B|].
    intros [|j] Hj; [exact H0|]. apply C. lia.
Qed.
Lemma first_above_none p cs : first_above p cs = None -> forall c, In c cs -> c <= p.
Proof.
  induction cs as [|c cs IH]; intros H x Hx; [contradiction|]. simpl in H.
  destruct (Z.ltb_spec p c); [discriminate|]. destruct (first_above p cs) eqn:E; [discriminate|].
  destruct Hx as [<-|Hx]; [lia|apply IH; auto].
Qed.

(* the returned grid point brackets the true quantile: F(previous point) <= p < F(returned point) *)
Theorem grid_quantile_spec p cs : (exists c, In c cs /\ p < c) ->
  let i := grid_index p cs in p < nth i cs 0 /\ forall j, (j < i)%nat -> nth j cs 0 <= p.
Proof.
  intros (c & Hc & Hp). unfold grid_index. destruct (first_above p cs) as [i|] eqn:E.
  - destruct (first_above_spec _ _ _ E) as (_ & B & C). auto.
  - pose proof (first_above_none _ _ E c Hc). lia.
Qed.

(* quantile is non-decreasing in the level (for a non-decreasing CDF the index is; here without even that) *)
Theorem grid_index_mono p p' cs : p <= p' -> (exists c, In c cs /\ p' < c) -> (grid_index p cs <= grid_index p' cs)%nat.
Proof.
  intros Hle Hex. assert (Hex' : exists c, In c cs /\ p < c) by (destruct Hex as (c & ? & ?); exists c; split; [assumption|lia]).
  destruct (grid_quantile_spec p cs Hex') as [A B]. destruct (grid_quantile_spec p' cs Hex) as [A' B'].
  destruct (le_lt_dec (grid_index p cs) (grid_index p' cs)); [assumption|].
  specialize (B _ l). lia.
Qed.

(* the corner the guard of the code lets through: if no grid value exceeds p (p equal to the largest CDF value on the
   grid) numpy's argmax returns 0 and the *smallest* grid point is reported *)
Example grid_quantile_at_max_refuted : grid_index 9 [1; 5; 9] = 0%nat.
Proof. reflexivity. Qed.
Print Assumptions grid_index_mono.
