(* Capstone2 with extra_ok derived as well (ToTimingsExtra.to_timings_extra_ok): what remains are decidable facts about the partitioner's
   template and monomorphism (check_mono, tmpl_ok, sup_covered), canonical windows of the executed cells (sched_ok) and the ring sizes. *)
From Coq Require Import List Arith ZArith Bool Lia.
From Rex Require Import CompiledModel RunnerSym CheckSym CompiledOnce ScheduleSpec ScheduleCover Replay BufferSufficient.
From Rex Require Import KahnL AsyncModel2 AsyncStable ConflInv RexDet AsyncLaws AsyncLaws2 AsyncLaws3 AsyncLaws4 Dataflow AsyncDataflow ExportWindows ReplayAsync ExportReplay Capstone ToTimings ToTimingsLaws ToTimingsExtra Capstone2.
Import ListNotations.
Open Scope Z_scope.

Theorem compiled_replay_from_partitioner_contract G s tmpl M ngen nparts sup sizes n :
  let I0 := export G s [] ngen nparts sup in
  let I := export G s (to_timings I0 tmpl M) ngen nparts sup in
  reach G s ->
  check_mono I0 tmpl M = true -> tmpl_ok I0 tmpl = true -> sup_covered I0 M = true -> sched_ok I 0 n = true ->
  (forall c, (c < length (i_conns I))%nat -> buffer_need I c <= size_of sizes (k_out (CompiledModel.conn I c))) -> (n <= nparts)%nat ->
  forall m k x1 x2, T_a G s m k = Some x1 -> Tc I sizes 0 n m k = Some x2 -> x1 = x2.
Proof.
  intros I0 I Hr Hm Ht Hc Hs HB Hn.
  apply (compiled_replay_from_partitioner G s tmpl M ngen nparts sup sizes n Hr Hm); try assumption.
  change (extra_ok (set_slots I0 (to_timings I0 tmpl M)) = true).
  apply to_timings_extra_ok; assumption.
Qed.
Print Assumptions compiled_replay_from_partitioner_contract.

Example ex3_hyps : check_mono ex_I0 ex_tmpl ex_M = true /\ tmpl_ok ex_I0 ex_tmpl = true /\ sup_covered ex_I0 ex_M = true.
Proof. vm_compute. repeat split; reflexivity. Qed.
