(* C01 + C07 + C08, one step further than Capstone.v: the schedule is no longer an arbitrary list of slots that passes check_schedule, it is
   what rex.utils.to_timings (ToTimings.v) builds from the partitioner's monomorphism M; check_schedule is DERIVED from the decidable contract
   check_mono of the (third-party) partitioner by ToTimingsLaws.to_timings_valid. *)
From Coq Require Import List Arith ZArith Bool Lia.
From Rex Require Import CompiledModel RunnerSym CheckSym CompiledOnce ScheduleSpec ScheduleCover Replay BufferSufficient.
From Rex Require Import KahnL AsyncModel2 AsyncStable ConflInv RexDet AsyncLaws AsyncLaws2 AsyncLaws3 AsyncLaws4 Dataflow AsyncDataflow ExportWindows ReplayAsync ExportReplay Capstone ToTimings ToTimingsLaws.
Import ListNotations.
Open Scope Z_scope.

Theorem compiled_replay_from_partitioner G s tmpl M ngen nparts sup sizes n :
  let I0 := export G s [] ngen nparts sup in
  let I := export G s (to_timings I0 tmpl M) ngen nparts sup in
  reach G s ->
  check_mono I0 tmpl M = true -> extra_ok I = true -> sched_ok I 0 n = true ->
  (forall c, (c < length (i_conns I))%nat -> buffer_need I c <= size_of sizes (k_out (CompiledModel.conn I c))) -> (n <= nparts)%nat ->
  forall m k x1 x2, T_a G s m k = Some x1 -> Tc I sizes 0 n m k = Some x2 -> x1 = x2.
Proof.
  intros I0 I Hr Hm He Hs HB Hn.
  apply (compiled_replay_reproduces_recording G s (to_timings I0 tmpl M) ngen nparts sup sizes n Hr); try assumption.
  change (check_schedule (set_slots I0 (to_timings I0 tmpl M)) = true).
  apply to_timings_valid. exact Hm.
Qed.
Print Assumptions compiled_replay_from_partitioner.

(* non-vacuity: read a monomorphism back from the schedule of Capstone's two-node example and feed it through to_timings *)
Definition mono_of (I : inst) : list mentry :=
  flat_map (fun si => flat_map (fun pc => if c_run (snd pc)
                                          then [{| m_kind := s_kind (snd si); m_seq := c_seq (snd pc); m_part := fst pc; m_slot := fst si |}] else [])
                               (combine (seq 0 (length (s_cells (snd si)))) (s_cells (snd si))))
           (combine (seq 0 (length (i_slots I))) (i_slots I)).
Definition ex_I0 := export exG exS [] 2 3 1.
Definition ex_tmpl := tmpl_of ex_I.
Definition ex_M := mono_of ex_I.
Example ex2_hyps :
  check_mono ex_I0 ex_tmpl ex_M = true /\ length ex_M = 6%nat /\
  let I := export exG exS (to_timings ex_I0 ex_tmpl ex_M) 2 3 1 in
  extra_ok I = true /\ sched_ok I 0 3 = true /\ buffer_need I 0 = 2 /\ length (i_conns I) = 1%nat /\ slots_eqb (i_slots I) (i_slots ex_I) = true.
Proof. vm_compute. repeat split; reflexivity. Qed.
Example ex2_capstone : forall x1 x2, T_a exG exS 1%nat 2 = Some x1 ->
  Tc (export exG exS (to_timings ex_I0 ex_tmpl ex_M) 2 3 1) [2; 1] 0 3 1%nat 2 = Some x2 -> x1 = x2.
Proof.
  destruct ex2_hyps as (H1 & _ & H2 & H3 & H4 & H5 & _).
  apply (compiled_replay_from_partitioner exG exS ex_tmpl ex_M 2 3 1 [2; 1] 3 exS_reach); try assumption.
  - intros c Hc. destruct c as [|c]; [vm_compute; discriminate|]. exfalso. revert Hc. vm_compute. lia.
  - lia.
Qed.
Print Assumptions ex2_capstone.
