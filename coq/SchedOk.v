(* Capstone3 with sched_ok derived as well: the windows apply_window (win_model) computes are non-empty and canonical, the cells the
   runner executes on a to_timings schedule are filled cells carrying exactly those windows, hence sched_ok holds. What remains in the
   capstone are decidable facts about the partitioner's template and monomorphism, the window sizes and the ring sizes. *)
From Coq Require Import List Arith ZArith Bool Lia.
From Rex Require Import CompiledModel RunnerSym CheckSym CompiledOnce ScheduleSpec ScheduleCover Replay BufferSufficient.
From Rex Require Import KahnL AsyncModel2 AsyncStable ConflInv RexDet AsyncLaws AsyncLaws2 AsyncLaws3 AsyncLaws4 Dataflow AsyncDataflow ExportWindows ReplayAsync ExportReplay Capstone ToTimings ToTimingsLaws ToTimingsExtra Capstone2 Capstone3.
Import ListNotations.
Open Scope Z_scope.

(* ------------------------------------------------------------------ A. the windows of win_model are canonical *)
Definition wgood (kw : nat) (w : list wentry) : Prop := length w = kw /\ canon_w w = w.

Lemma wgood_wcanon kw w : (1 <= kw)%nat -> wgood kw w -> wcanon w = true.
Proof.
  intros Hk [Hl Hc]. unfold wcanon. rewrite Hc, wl_eqb_refl, andb_true_r.
  destruct w as [|x w]; [cbn [length] in Hl; lia|reflexivity].
Qed.

Lemma wgood_repeat kw : wgood kw (repeat (-1, 0, 0) kw).
Proof.
  split; [apply repeat_length|]. induction kw as [|kw IH]; cbn [repeat canon_w map]; [reflexivity|].
  unfold canon_w in IH. rewrite IH. reflexivity.
Qed.

Lemma canon_lastn n (l : list wentry) : canon_w (CompiledModel.lastn n l) = CompiledModel.lastn n (canon_w l).
Proof. unfold canon_w, CompiledModel.lastn. now rewrite skipn_map, map_length. Qed.

Lemma wgood_push kw (cur : list wentry) so a b :
  0 <= so -> wgood kw cur -> wgood kw (CompiledModel.lastn (length cur) (cur ++ [(so, a, b)])).
Proof.
  intros Hso [Hl Hc]. split.
  - unfold CompiledModel.lastn. rewrite skipn_length, app_length. cbn [length]. lia.
  - rewrite canon_lastn.
    assert (E : (so <? 0) = false) by (apply Z.ltb_ge; exact Hso).
    assert (E2 : canon_w (cur ++ [(so, a, b)]) = cur ++ [(so, a, b)]).
    { transitivity (canon_w cur ++ canon_w [(so, a, b)]); [apply map_app|].
      rewrite Hc. cbn [canon_w map]. now rewrite E. }
    now rewrite E2.
Qed.

Lemma scan_edges_good kw vm (es : list edge) : forall cur,
  wgood kw cur -> (forall e, In e es -> 0 <= e_out e) ->
  forall si w, In (si, w) (scan_edges vm cur es) -> wgood kw w.
Proof.
  induction es as [|e es IH]; intros cur Hg He si w Hin; [destruct Hin|].
  cbn [scan_edges] in Hin. cbv zeta in Hin.
  assert (Hg' : wgood kw (CompiledModel.lastn (length cur) (cur ++ [(e_out e, v_end (pynth (e_out e) vm dv), e_recv e)]))).
  { apply wgood_push; [apply He; left; reflexivity|exact Hg]. }
  destruct Hin as [E|Hin].
  - injection E as _ <-. exact Hg'.
  - apply (IH _ Hg' (fun e' H' => He e' (or_intror H')) si w Hin).
Qed.

Lemma last_le_cases k : forall (snaps : list (Z * list wentry)) acc w,
  last_le k snaps acc = Some w -> acc = Some w \/ exists si, In (si, w) snaps.
Proof.
  induction snaps as [|[si0 w0] snaps IH]; intros acc w H; cbn [last_le] in H; [left; exact H|].
  apply IH in H as [H|[si H]].
  - destruct (si0 <=? k); [|left; exact H]. injection H as <-. right. exists si0. left; reflexivity.
  - right. exists si. right; exact H.
Qed.

Theorem win_model_wcanon (I : inst) (c : nat) :
  (1 <= k_win (CompiledModel.conn I c))%nat ->
  (forall e, In e (nth c (i_edges I) []) -> 0 <= e_out e) ->
  forall w, In w (win_model I c) -> wcanon w = true.
Proof.
  intros Hk He w Hin. apply (wgood_wcanon (k_win (CompiledModel.conn I c))); [exact Hk|].
  unfold win_model in Hin. cbv zeta in Hin. apply in_map_iff in Hin as [v [E _]].
  destruct (last_le (v_seq v) _ None) as [w'|] eqn:El.
  - subst w'. apply last_le_cases in El as [El|[si El]]; [discriminate|].
    eapply scan_edges_good; [apply wgood_repeat|exact He|exact El].
  - subst w. apply wgood_repeat.
Qed.

(* ------------------------------------------------------------------ B. sched_ok of a to_timings schedule *)
Section SchedOk.
Variable I : inst.
Variable tmpl : list (nat * nat).
Variable M : list mentry.
Notation TT := (to_timings I tmpl M).
Notation J := (set_slots I (to_timings I tmpl M)).
Hypothesis Hmono : check_mono I tmpl M = true.
Hypothesis Hwin : forall c, In c (seq 0 (length (i_conns I))) ->
  (1 <= k_win (CompiledModel.conn I c))%nat /\ forall e, In e (nth c (i_edges I) []) -> 0 <= e_out e.

(* the conjunct of mono_entry_ok that entry_ok does not expose: the vertex has a window on every input *)
Lemma entry_win_len m : In m (MH I M) ->
  forall c, In c (ins_of I (m_kind m)) -> (Z.to_nat (m_seq m) < length (win_model I c))%nat.
Proof.
  intros Hm c Hc. destruct (mono_parts I tmpl M Hmono) as (_ & _ & _ & Hall). rewrite forallb_forall in Hall.
  specialize (Hall m Hm). unfold mono_entry_ok in Hall. cbv zeta in Hall.
  apply andb_true_iff in Hall as [Hall _]. apply andb_true_iff in Hall as [Hall _].
  apply andb_true_iff in Hall as [Hall _]. apply andb_true_iff in Hall as [Hall H6].
  apply andb_true_iff in Hall as [Hall _]. apply andb_true_iff in Hall as [Hall _].
  apply andb_true_iff in Hall as [_ H3]. apply Z.leb_le in H3.
  rewrite forallb_forall in H6. specialize (H6 c Hc). apply Z.ltb_lt in H6. lia.
Qed.

Lemma ins_of_lt n c : In c (ins_of I n) -> In c (seq 0 (length (i_conns I))).
Proof. unfold ins_of. intros H. apply filter_In in H as [H _]. exact H. Qed.

(* a running cell of a slot of the schedule carries canonical windows *)
Lemma slot_cell_wcanon sl p :
  In sl TT -> c_run (nth p (s_cells sl) dcell) = true -> forallb wcanon (c_wins (nth p (s_cells sl) dcell)) = true.
Proof.
  intros Hsl Hr. destruct (in_TT_inv I tmpl M sl Hsl) as (s & Hs & ->).
  cbn [mk_slot s_cells fst snd] in Hr |- *.
  destruct (lt_dec p (i_nparts I)) as [Hp|Hp].
  - assert (En : nth_error (map (tt_cell I M s (tkind tmpl s)) (seq 0 (i_nparts I))) p =
                 Some (tt_cell I M s (tkind tmpl s) p))
      by (apply nth_error_map_seq; split; [exact Hp|reflexivity]).
    rewrite (nth_error_nth _ _ dcell En) in Hr |- *.
    destruct (tt_cell_run_inv I M _ _ _ Hr) as (m & Hm & E1 & E2 & E3). rewrite E3.
    destruct (entry_ok I tmpl M Hmono m Hm) as (_ & Hkd & Hk0 & _). rewrite <- E1, Hkd.
    unfold filled_cell. cbn [c_wins]. apply forallb_forall. intros w Hw.
    apply in_map_iff in Hw as [c [Ew Hc]]. rewrite pynth_nonneg in Ew by exact Hk0.
    destruct (Hwin c (ins_of_lt _ _ Hc)) as [Hk He].
    apply (win_model_wcanon I c Hk He). rewrite <- Ew. apply nth_In. apply entry_win_len; assumption.
  - rewrite nth_overflow in Hr by (rewrite map_length, seq_length; lia). discriminate.
Qed.

Theorem to_timings_sched_ok n : extra_ok J = true -> (n <= i_nparts I)%nat -> sched_ok J 0 n = true.
Proof.
  intros Hex Hn. unfold sched_ok. apply forallb_forall. intros [k c] Hin. cbn [snd].
  unfold exec_cells in Hin. apply in_concat in Hin as [ph [Hph Hin]].
  apply in_flat_map in Hph as [p [Hp Hph]]. apply in_seq in Hp.
  unfold phases_of in Hph. apply in_app_or in Hph as [Hph|Hph].
  - apply in_map_iff in Hph as [g [<- _]]. unfold gen_todo in Hin. apply in_flat_map in Hin as [sl [Hsl Hin]].
    change (i_slots J) with TT in Hsl.
    destruct (Nat.eqb (s_gen sl) g && negb (Nat.eqb (s_kind sl) (i_sup J))); [|destruct Hin].
    cbv zeta in Hin. destruct (c_run (nth p (s_cells sl) dcell)) eqn:Hr; [|destruct Hin].
    destruct Hin as [E|[]]. injection E as _ <-. rewrite Hr. cbn [andb]. apply slot_cell_wcanon; assumption.
  - destruct Hph as [<-|[]]. destruct Hin as [E|[]]. injection E as _ <-.
    assert (Hr : c_run (sup_cell J p) = true).
    { unfold extra_ok in Hex. apply andb_true_iff in Hex as [Hex _]. apply andb_true_iff in Hex as [Hex _].
      apply andb_true_iff in Hex as [_ H3]. rewrite forallb_forall in H3. apply H3.
      change (i_nparts J) with (i_nparts I). apply in_seq. lia. }
    rewrite Hr. cbn [andb]. revert Hr. unfold sup_cell. change (i_slots J) with TT.
    destruct (find (fun sl => Nat.eqb (s_kind sl) (i_sup J)) TT) as [sl|] eqn:Ef; [|cbn; discriminate].
    apply find_some in Ef as [Hsl _]. intros Hr. apply slot_cell_wcanon; assumption.
Qed.
End SchedOk.

(* ------------------------------------------------------------------ C. the capstone without sched_ok *)
Lemma export_window_hyp G s slots ngen nparts sup :
  (forall cn, In cn (conns G) -> (1 <= c_window cn)%nat) ->
  let I0 := export G s slots ngen nparts sup in
  forall c, In c (seq 0 (length (i_conns I0))) ->
    (1 <= k_win (CompiledModel.conn I0 c))%nat /\ forall e, In e (nth c (i_edges I0) []) -> 0 <= e_out e.
Proof.
  intros Hw I0 c Hc. apply in_seq in Hc. split.
  - unfold CompiledModel.conn.
    assert (Hin : In (nth c (i_conns I0) dk) (i_conns I0)) by (apply nth_In; lia).
    unfold I0 in Hin at 2. cbn [export i_conns] in Hin. apply in_map_iff in Hin as [cn [E Hcn]].
    rewrite <- E. cbn [k_win]. apply Hw, Hcn.
  - intros e He. unfold I0 in He. cbn [export i_edges] in He.
    destruct (nth_in_or_default c (map (edges_of G s) (seq 0 (NCn G))) []) as [Hin|Hd].
    + apply in_map_iff in Hin as [c' [E _]]. rewrite <- E in He. unfold edges_of in He.
      apply in_map_iff in He as [mr [<- _]]. cbn [edge_of e_out]. lia.
    + rewrite Hd in He. destruct He.
Qed.

Theorem export_sched_ok G s tmpl M ngen nparts sup n :
  let I0 := export G s [] ngen nparts sup in
  let I := export G s (to_timings I0 tmpl M) ngen nparts sup in
  check_mono I0 tmpl M = true -> tmpl_ok I0 tmpl = true -> sup_covered I0 M = true ->
  (forall cn, In cn (conns G) -> (1 <= c_window cn)%nat) -> (n <= nparts)%nat ->
  sched_ok I 0 n = true.
Proof.
  intros I0 I Hm Ht Hc Hw Hn.
  change (sched_ok (set_slots I0 (to_timings I0 tmpl M)) 0 n = true).
  apply to_timings_sched_ok.
  - exact Hm.
  - apply (export_window_hyp G s [] ngen nparts sup Hw).
  - apply to_timings_extra_ok; assumption.
  - exact Hn.
Qed.

Theorem compiled_replay_closed G s tmpl M ngen nparts sup sizes n :
  let I0 := export G s [] ngen nparts sup in
  let I := export G s (to_timings I0 tmpl M) ngen nparts sup in
  reach G s ->
  check_mono I0 tmpl M = true -> tmpl_ok I0 tmpl = true -> sup_covered I0 M = true ->
  (forall cn, In cn (conns G) -> (1 <= c_window cn)%nat) ->
  (forall c, (c < length (i_conns I))%nat -> buffer_need I c <= size_of sizes (k_out (CompiledModel.conn I c))) -> (n <= nparts)%nat ->
  forall m k x1 x2, T_a G s m k = Some x1 -> Tc I sizes 0 n m k = Some x2 -> x1 = x2.
Proof.
  intros I0 I Hr Hm Ht Hc Hw HB Hn.
  apply (compiled_replay_from_partitioner_contract G s tmpl M ngen nparts sup sizes n Hr Hm Ht Hc); try assumption.
  apply export_sched_ok; assumption.
Qed.

(* ------------------------------------------------------------------ D. non-vacuity *)
Example ex4_window_hyp : forall cn, In cn (conns exG) -> (1 <= c_window cn)%nat.
Proof.
  assert (H : forallb (fun cn => Nat.leb 1 (c_window cn)) (conns exG) = true) by (vm_compute; reflexivity).
  rewrite forallb_forall in H. intros cn Hcn. apply Nat.leb_le. apply H, Hcn.
Qed.
Example ex4_sched_ok : sched_ok (export exG exS (to_timings ex_I0 ex_tmpl ex_M) 2 3 1) 0 3 = true.
Proof. vm_compute. reflexivity. Qed.
(* the same fact through the theorem: all its hypotheses hold on the example *)
Example ex4_sched_ok_by_theorem : sched_ok (export exG exS (to_timings ex_I0 ex_tmpl ex_M) 2 3 1) 0 3 = true.
Proof.
  destruct ex3_hyps as (H1 & H2 & H3).
  apply (export_sched_ok exG exS ex_tmpl ex_M 2 3 1 3 H1 H2 H3 ex4_window_hyp). lia.
Qed.
Example ex4_capstone : forall x1 x2, T_a exG exS 1%nat 2 = Some x1 ->
  Tc (export exG exS (to_timings ex_I0 ex_tmpl ex_M) 2 3 1) [2; 1] 0 3 1%nat 2 = Some x2 -> x1 = x2.
Proof.
  destruct ex3_hyps as (H1 & H2 & H3).
  apply (compiled_replay_closed exG exS ex_tmpl ex_M 2 3 1 [2; 1] 3 exS_reach H1 H2 H3 ex4_window_hyp).
  - intros c Hc. destruct c as [|c]; [vm_compute; discriminate|]. exfalso. revert Hc. vm_compute. lia.
  - lia.
Qed.

Print Assumptions win_model_wcanon.
Print Assumptions to_timings_sched_ok.
Print Assumptions compiled_replay_closed.
Print Assumptions ex4_capstone.
