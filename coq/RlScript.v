(* C19 — executable instance of the wrapper model (RlEnv.v) used by the correspondence check: carrier Q (results kept
   reduced), a scripted lattice environment as the wrapped environment, the PRNG as positions in the binary split tree,
   tanh on the saturating domain of float32, sqrt to 12 decimals.  Nothing here is used by the theorems. *)
From Coq Require Import ZArith QArith Qround Qminmax List Bool.
From Rex Require Import Ops RlKernels RlEnv.
Import ListNotations.

Definition Qn (f : Q -> Q -> Q) (a b : Q) : Q := Qred (f a b).
Definition Qrops : ops Q := {| o0 := 0; o1 := 1; oadd := Qn Qplus; osub := Qn Qminus; omul := Qn Qmult; odiv := Qn Qdiv;
  oopp := Qopp; omax := Qmax; omin := Qmin; oz := inject_Z |}.

(* float32 tanh is exactly +-1 beyond |x| >= 20 and exactly 0 at 0; the harness only feeds these raw actions to stacks
   with squashing (other points of tanh are judged separately by certified enclosures) *)
Definition sat_tanh (x : Q) : Q := if Qle_bool 20 x then 1 else if Qle_bool x (-20) then -1 else 0.
Definition qsqrt (x : Q) : Q := Z.sqrt (Qfloor (x * inject_Z (10 ^ 24))) # (10 ^ 12).

(* the scripted environment: per-episode-step reward / terminated / truncated scripts (rows selected by the script id
   drawn at reset), action bounds, and the table rng position -> (script id, initial accumulator) of the reset draws *)
Record script := { sc_r : list (list Q); sc_te : list (list bool); sc_tr : list (list bool);
                   sc_lo : list Q; sc_hi : list Q; sc_tbl : list (Z * (Z * Z)) }.
Definition core := (Z * Z * Z)%type.      (* episode step t, accumulator, script id *)
Definition lookup (tbl : list (Z * (Z * Z))) (k : Z) : Z * Z :=
  match find (fun p => Z.eqb (fst p) k) tbl with Some p => snd p | None => (0, 0)%Z end.
Definition nthz {X} (l : list X) (i : Z) (d : X) : X := nth (Z.to_nat i) l d.
Definition code (a : Q) : Z := Qfloor (a * 64).

Definition s_reset (sc : script) (k : Z) : core * Z * list Q * Z :=
  let '(sid, acc) := lookup (sc_tbl sc) k in ((0, acc, sid)%Z, k, [inject_Z acc; 0; 0; 0], 0%Z).
Definition s_step (sc : script) (c : core) (k : Z) (a : list Q) : core * Z * list Q * Q * bool * bool * Z :=
  let '(t, acc, sid) := c in
  let a0 := nth 0 a 0 in let a1 := nth 1 a 0 in
  let L := Z.of_nat (length (nth 0 (sc_r sc) [])) in
  let j := (t mod L)%Z in
  let acc' := ((7 * acc + 3 * t + 5 * code a0 + 11 * code a1) mod 251)%Z in
  let r := Qred (nthz (nthz (sc_r sc) sid []) j 0 + a0) in
  let te := nthz (nthz (sc_te sc) sid []) j false || Qle_bool (nth 1 (sc_hi sc) 0) a1 in
  let tr := nthz (nthz (sc_tr sc) sid []) j false || Qle_bool a1 (nth 1 (sc_lo sc) 0) in
  ((t + 1, acc', sid)%Z, (2 * k)%Z, [inject_Z acc'; inject_Z (t + 1); a0; a1], r, te, tr, (t + 1)%Z).
Definition s_space (sc : script) (c : core) : list Q * list Q := (sc_lo sc, sc_hi sc).
Definition zsplit (k : Z) : Z * Z := (2 * k, 2 * k + 1)%Z.

(* ---- printing: rationals as floor(q * 2^40) ---- *)
Definition encq (q : Q) : Z := Qfloor (q * inject_Z (2 ^ 40)).
Definition enc_log (s : logst (A:=Q)) : list Z := [encq (l_ret s); encq (l_len s); encq (l_rret s); encq (l_rlen s); encq (l_t s)].
Definition enc_g (g : gstate (A:=Q) core Z Z) := (g_core g, g_rng g, option_map enc_log (a_log g)).
Definition enc_info (i : info (A:=Q) Z) :=
  (i_base i, option_map (fun x => match x with (a, b, c, d) => ([encq a; encq b; encq c], d) end) (i_log i)).
Definition enc_mom (m : mom (A:=Q)) : list Z := [encq (m_mean m); encq (m_var m); encq (m_count m)].
Definition enc_v (v : vstate (A:=Q) core Z Z) :=
  (map enc_g (v_envs v), option_map (map enc_mom) (a_nobs v),
   option_map (fun s => (enc_mom (n_mom s), map encq (n_ret s))) (a_nrew v)).
Definition enc_vret (r : vret (A:=Q) core Z Z) :=
  match r with (v, ob, rw, te, tr, i) => (enc_v v, map (map encq) ob, map encq rw, te, tr, map enc_info i) end.

Definition case := (script * list wrapper * list (vwrapper (A:=Q)) * list Z * list (list (list Q)))%type.
Definition run_case (c : case) :=
  match c with (sc, ws, vws, keys, acts) =>
    let e := vstack Qrops core Z Z sat_tanh zsplit (s_reset sc) (s_step sc) (s_space sc) qsqrt ws vws in
    match vrun e keys acts with ((v0, ob0, i0), rs) => ((enc_v v0, map (map encq) ob0, map enc_info i0), map enc_vret rs) end
  end.

(* ---- Environment.init/reset/step on symbolic terms: the call structure itself is compared with the implementation ---- *)
Inductive term := T (f : Z) (args : list term).
Definition oarg (x : option term) : term := match x with Some x => x | None => T 0 [] end.
Definition sym_step (gs a : term) :=
  env_step term term term term term term term term
    (fun g s o => (T 1 [g; s; o], T 2 [g; s; o])) (fun g => T 3 [g]) (fun g x => T 4 [g; x]) (fun g x => T 5 [g; x])
    (fun g x => T 6 [g; oarg x]) (fun g x => T 7 [g; x]) (fun g => T 8 [g]) (fun g => T 9 [g])
    (fun g x => T 10 [g; oarg x]) (fun g => T 11 [g]) gs a.
Definition sym_reset (only_init : bool) (rng : term) :=
  env_reset term term term term term term
    (fun r s => T 12 [r; T s []]) (fun g => (T 13 [g], T 14 [g])) (fun g x => T 6 [g; oarg x])
    (fun g x => T 10 [g; oarg x]) (fun g => T 11 [g]) only_init rng.
