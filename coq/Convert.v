(* C14 — records and graphs: to_graph, Graph.stack / __getitem__ / __len__ / filter, EpisodeRecord.filter,
   ExperimentRecord._padded_stack, to_networkx_graph.  Model only; proofs live in ConvertLaws.v.

   Conventions: node names are integers (the harness numbers the names); a python dict is an association list in
   canonical (sorted-by-key) order; a numpy array of rank 1 is a `list Z` (times are integers: ticks of the 1/64 s
   lattice); a record / graph is polymorphic in its leaf type L so that the same definitions describe one episode
   (L = arr) and a stacked object (L = list arr, one row per episode). *)
From Coq Require Import List Arith ZArith Bool Lia.
Import ListNotations.
Open Scope Z_scope.

Definition arr := list Z.

(* ---------------------------------------------------------------- one leaf: pad to the longest and stack *)
(* Graph.stack._stack and ExperimentRecord._padded_stack._pad on one leaf position: every episode's array is padded at
   the end of axis 0 with the fill value d up to the longest one.  X is the row type (Z for rank 1, a whole row for
   higher ranks) *)
Definition pad {X} (d : X) (n : nat) (l : list X) : list X := l ++ repeat d (n - length l).
Definition maxlen {X} (ls : list (list X)) : nat := fold_right (fun l m => Nat.max (length l) m) 0%nat ls.
Definition stack_leaf {X} (d : X) (ls : list (list X)) : list (list X) := map (pad d (maxlen ls)) ls.

(* ---------------------------------------------------------------- graphs *)
(* Vertex(seq, ts_start, ts_end) and Edge(seq_out, seq_in, ts_recv) are both three leaves *)
Record tri (L : Type) := T3 { f1 : L; f2 : L; f3 : L }.
Arguments T3 {L}. Arguments f1 {L}. Arguments f2 {L}. Arguments f3 {L}.
Definition vertex := tri.
Definition edge := tri.
Notation v_seq := f1 (only parsing). Notation v_start := f2 (only parsing). Notation v_end := f3 (only parsing).
Notation e_out := f1 (only parsing). Notation e_in := f2 (only parsing). Notation e_recv := f3 (only parsing).

Record graph (L : Type) := G { g_v : list (Z * vertex L); g_e : list ((Z * Z) * edge L) }.
Arguments G {L}. Arguments g_v {L}. Arguments g_e {L}.

Definition tmap {L M} (f : L -> M) (t : tri L) : tri M := T3 (f (f1 t)) (f (f2 t)) (f (f3 t)).
Definition mapk {K A B} (f : A -> B) (l : list (K * A)) : list (K * B) := map (fun p => (fst p, f (snd p))) l.
Definition zipk {K A B C} (f : A -> B -> C) (l1 : list (K * A)) (l2 : list (K * B)) : list (K * C) :=
  map (fun p => (fst (fst p), f (snd (fst p)) (snd (snd p)))) (combine l1 l2).
(* jax.tree_util.tree_map f graph *)
Definition gmap {L M} (f : L -> M) (g : graph L) : graph M := G (mapk (tmap f) (g_v g)) (mapk (tmap f) (g_e g)).

Definition keys {L} (g : graph L) : list Z * list (Z * Z) := (map fst (g_v g), map fst (g_e g)).
Definition keys_dec (a b : list Z * list (Z * Z)) : {a = b} + {a <> b}.
Proof. repeat decide equality. Defined.

(* jax.tree_util.tree_map(_stack, *graphs): collect, per leaf position, the column of the episodes' arrays ... *)
Definition tcons {L} (t : tri L) (bt : tri (list L)) : tri (list L) := T3 (f1 t :: f1 bt) (f2 t :: f2 bt) (f3 t :: f3 bt).
Definition gcons {L} (g : graph L) (bg : graph (list L)) : graph (list L) :=
  G (zipk tcons (g_v g) (g_v bg)) (zipk tcons (g_e g) (g_e bg)).
Fixpoint columns {L} (g0 : graph L) (r : list (graph L)) {struct r} : graph (list L) :=
  match r with [] => gmap (fun l => [l]) g0 | g1 :: r' => gcons g0 (columns g1 r') end.
Definition same_keys {L} (g0 : graph L) (r : list (graph L)) : bool :=
  forallb (fun g => if keys_dec (keys g) (keys g0) then true else false) r.
(* ... and pad/stack every column.  None: tree_map raises (no graph, or different dict structures) *)
Definition stack (gs : list (graph arr)) : option (graph (list arr)) :=
  match gs with
  | [] => None
  | g0 :: r => if same_keys g0 r then Some (gmap (stack_leaf (-1)) (columns g0 r)) else None
  end.
(* Graph.__getitem__ on a stacked graph (0 <= i < number of episodes) *)
Definition get (i : nat) (bg : graph (list arr)) : graph arr := gmap (fun rows => nth i rows []) bg.
(* Graph.__len__ on a stacked graph: shape[0] of the first vertex's seq *)
Definition blen (bg : graph (list arr)) : nat := match g_v bg with nv :: _ => length (v_seq (snd nv)) | [] => 0%nat end.

(* ---------------------------------------------------------------- episode records *)
Record steps (L : Type) := St { s_eps : L; s_seq : L; s_start : L; s_end : L; s_delay : L }.
Record msgs (L : Type) := Ms { m_out : L; m_in : L; m_sent : L; m_recv : L; m_delay : L }.
Arguments St {L}. Arguments s_eps {L}. Arguments s_seq {L}. Arguments s_start {L}. Arguments s_end {L}. Arguments s_delay {L}.
Arguments Ms {L}. Arguments m_out {L}. Arguments m_in {L}. Arguments m_sent {L}. Arguments m_recv {L}. Arguments m_delay {L}.
(* NodeRecord: steps, the sender names listed in info.inputs, inputs keyed by the sender's name *)
Record noderec (L : Type) := NR { r_steps : steps L; r_info_inputs : list Z; r_inputs : list (Z * msgs L) }.
Arguments NR {L}. Arguments r_steps {L}. Arguments r_info_inputs {L}. Arguments r_inputs {L}.
Definition episode (L : Type) := list (Z * noderec L).

Definition vertex_of {L} (s : steps L) : vertex L := T3 (s_seq s) (s_start s) (s_end s).
Definition edge_of {L} (m : msgs L) : edge L := T3 (m_out m) (m_in m) (m_recv m).
(* EpisodeRecord.to_graph *)
Definition to_graph {L} (ep : episode L) : graph L :=
  G (mapk (fun r => vertex_of (r_steps r)) ep)
    (flat_map (fun nr => map (fun im => ((fst im, fst nr), edge_of (snd im))) (r_inputs (snd nr))) ep).

(* jax.tree_util.tree_map f episode_record (e.g. EpisodeRecord.__getitem__ maps x[val] over all leaves) *)
Definition smap {L M} (f : L -> M) (s : steps L) : steps M := St (f (s_eps s)) (f (s_seq s)) (f (s_start s)) (f (s_end s)) (f (s_delay s)).
Definition mmap {L M} (f : L -> M) (m : msgs L) : msgs M := Ms (f (m_out m)) (f (m_in m)) (f (m_sent m)) (f (m_recv m)) (f (m_delay m)).
Definition nrmap {L M} (f : L -> M) (r : noderec L) : noderec M := NR (smap f (r_steps r)) (r_info_inputs r) (mapk (mmap f) (r_inputs r)).
Definition epmap {L M} (f : L -> M) (ep : episode L) : episode M := mapk (nrmap f) ep.

(* ---------------------------------------------------------------- filtering *)
(* the `nodes` argument: node name -> that node object's `inputs` dict, as (input name, sender's name) pairs.  The input
   name equals the sender's name unless the connection was made with a shadow `name=` *)
Definition nodeset := list (Z * list (Z * Z)).
Definition names (nodes : nodeset) : list Z := map fst nodes.
Definition mem (x : Z) (l : list Z) : bool := existsb (Z.eqb x) l.
Definition pair_eqb (a b : Z * Z) : bool := (fst a =? fst b) && (snd a =? snd b).
Definition memp (x : Z * Z) (l : list (Z * Z)) : bool := existsb (pair_eqb x) l.

(* which name of a connection the filters look up: the pinned code takes the key of `node.inputs` (the input name),
   the property needs the sender's name (c.output_node.name) *)
Definition key_pinned (c : Z * Z) : Z := fst c.
Definition key_sender (c : Z * Z) : Z := snd c.

Section Filter.
Variable key : Z * Z -> Z.
(* connections among the node objects (filter_edges / filter_connections = True) *)
Definition conns_of_nodes (nodes : nodeset) : list (Z * Z) :=
  flat_map (fun n => map (fun c => (key c, fst n)) (filter (fun c => mem (key c) (names nodes)) (snd n))) nodes.
(* Graph.filter *)
Definition graph_conns {L} (flag : bool) (nodes : nodeset) (g : graph L) : list (Z * Z) :=
  if flag then conns_of_nodes nodes
  else flat_map (fun n => if mem (fst n) (map fst (g_v g))
                          then filter (fun k => (snd k =? fst n) && mem (fst k) (names nodes)) (map fst (g_e g)) else []) nodes.
Definition graph_filter {L} (flag : bool) (nodes : nodeset) (g : graph L) : graph L :=
  G (filter (fun nv => mem (fst nv) (names nodes)) (g_v g))
    (filter (fun ke => memp (fst ke) (graph_conns flag nodes g)) (g_e g)).

(* EpisodeRecord.filter (every selected name must be in the record, else KeyError: None) *)
Fixpoint lookup {A} (n : Z) (l : list (Z * A)) : option A :=
  match l with [] => None | (k, a) :: l' => if k =? n then Some a else lookup n l' end.
Definition rec_conns {L} (flag : bool) (nodes : nodeset) (ep : episode L) : list (Z * Z) :=
  if flag then conns_of_nodes nodes
  else flat_map (fun n => match lookup (fst n) ep with
                          | Some r => map (fun im => (fst im, fst n)) (filter (fun im => mem (fst im) (names nodes)) (r_inputs r))
                          | None => [] end) nodes.
Definition rec_filter_node {L} (cs : list (Z * Z)) (n2 : Z) (r : noderec L) : noderec L :=
  let ins := filter (fun im => memp (fst im, n2) cs) (r_inputs r) in
  NR (r_steps r) (map fst ins) ins.
Definition rec_filter {L} (flag : bool) (nodes : nodeset) (ep : episode L) : option (episode L) :=
  let cs := rec_conns flag nodes ep in
  fold_right (fun n acc => match lookup (fst n) ep, acc with
                           | Some r, Some l => Some ((fst n, rec_filter_node cs (fst n) r) :: l)
                           | _, _ => None end) (Some []) nodes.
End Filter.

(* ---------------------------------------------------------------- to_networkx_graph *)
(* the sequence of G.add_node / G.add_edge calls made by rex.utils.to_networkx_graph (attributes restricted to the
   ones the property speaks about: kind, seq, ts_start, ts_end, ts_recv) *)
Inductive call :=
| AddNode (kind seq ts_start ts_end : Z)
| AddEdge (k1 s1 k2 s2 : Z) (ts_recv : option Z).
Definition nx_skip_vertex (seq : Z) : bool := seq =? -1.
Definition nx_stateful (seq : Z) : bool := 0 <? seq.
Definition nx_skip_edge (seq_out seq_in : Z) : bool := (seq_out =? -1) || (seq_in =? -1).
Definition nx_vertex_row (n : Z) (x : Z * (Z * Z)) : list call :=
  let s := fst x in
  if nx_skip_vertex s then []
  else AddNode n s (fst (snd x)) (snd (snd x)) :: (if nx_stateful s then [AddEdge n (s - 1) n s None] else []).
Definition nx_edge_row (k : Z * Z) (x : Z * (Z * Z)) : list call :=
  if nx_skip_edge (fst x) (fst (snd x)) then [] else [AddEdge (fst k) (fst x) (snd k) (fst (snd x)) (Some (snd (snd x)))].
Definition rows (t : tri arr) : list (Z * (Z * Z)) := combine (f1 t) (combine (f2 t) (f3 t)).   (* python zip *)
Definition nx (g : graph arr) : list call :=
  flat_map (fun nv => flat_map (nx_vertex_row (fst nv)) (rows (snd nv))) (g_v g) ++
  flat_map (fun ke => flat_map (nx_edge_row (fst ke)) (rows (snd ke))) (g_e g).

(* ---------------------------------------------------------------- relations used by the statements *)
(* l' is l followed by -1 entries only *)
Definition padl (l' l : arr) : Prop := exists n, l' = l ++ repeat (-1) n.
Definition tpad (t' t : tri arr) : Prop := padl (f1 t') (f1 t) /\ padl (f2 t') (f2 t) /\ padl (f3 t') (f3 t).
Definition padded_of (g' g : graph arr) : Prop :=
  Forall2 (fun a b => fst a = fst b /\ tpad (snd a) (snd b)) (g_v g') (g_v g) /\
  Forall2 (fun a b => fst a = fst b /\ tpad (snd a) (snd b)) (g_e g') (g_e g).
(* the three arrays of every vertex / edge have one length *)
Definition twf (t : tri arr) : Prop := length (f1 t) = length (f2 t) /\ length (f2 t) = length (f3 t).
Definition gwf (g : graph arr) : Prop := Forall (fun nv => twf (snd nv)) (g_v g) /\ Forall (fun ke => twf (snd ke)) (g_e g).
(* node object n2 has a connection whose sender is n1 *)
Definition connected (nodes : nodeset) (n1 n2 : Z) : Prop :=
  exists ins c, In (n2, ins) nodes /\ In c ins /\ snd c = n1.
Definition no_shadow (nodes : nodeset) : Prop := forall n c, In n nodes -> In c (snd n) -> fst c = snd c.
