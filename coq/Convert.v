(* C14: stacking with -1 padding, extraction, and the -1-skipping conversion to a networkx graph *)
From Coq Require Import List Arith ZArith Bool Lia.
Import ListNotations.
Open Scope Z_scope.

Record vtx := { v_seq : Z; v_start : Z; v_end : Z }.
Record edg := { e_out : Z; e_in : Z; e_recv : Z }.
Definition padv := {| v_seq := -1; v_start := -1; v_end := -1 |}.
Definition pade := {| e_out := -1; e_in := -1; e_recv := -1 |}.

Definition pad {X} (d : X) (n : nat) (l : list X) : list X := l ++ repeat d (n - length l).
Definition maxlen {X} (ls : list (list X)) : nat := fold_right (fun l m => Nat.max (length l) m) 0%nat ls.
(* Graph.stack on one leaf: pad every episode's array to the longest and stack *)
Definition stack {X} (d : X) (ls : list (list X)) : list (list X) := map (pad d (maxlen ls)) ls.

Lemma maxlen_ge {X} (ls : list (list X)) l : In l ls -> (length l <= maxlen ls)%nat.
Proof. induction ls as [|x ls IH]; [contradiction|]. intros [->|H]; simpl; [lia|specialize (IH H); lia]. Qed.

(* an episode extracted from a stack is the original followed by padding only *)
Theorem stack_rows {X} (d : X) ls i l : nth_error ls i = Some l ->
  nth_error (stack d ls) i = Some (l ++ repeat d (maxlen ls - length l)).
Proof. intros H. unfold stack. rewrite nth_error_map, H. reflexivity. Qed.

(* to_networkx_graph: vertices with seq = -1 and edges with seq_out = -1 or seq_in = -1 are skipped *)
Definition nx_vertices (vs : list vtx) : list vtx := filter (fun v => negb (v_seq v =? -1)) vs.
Definition nx_edges (es : list edg) : list edg := filter (fun e => negb (e_out e =? -1) && negb (e_in e =? -1)) es.

Lemma filter_repeat_false {X} (p : X -> bool) d n : p d = false -> filter p (repeat d n) = [].
Proof. intros H. induction n; simpl; [reflexivity|rewrite H; exact IHn]. Qed.

(* padded entries never create or alter a vertex or an edge *)
Theorem pad_creates_no_vertex vs n : nx_vertices (pad padv n vs) = nx_vertices vs.
Proof. unfold nx_vertices, pad. rewrite filter_app, filter_repeat_false by reflexivity. apply app_nil_r. Qed.
Theorem pad_creates_no_edge es n : nx_edges (pad pade n es) = nx_edges es.
Proof. unfold nx_edges, pad. rewrite filter_app, filter_repeat_false by reflexivity. apply app_nil_r. Qed.

(* hence: the networkx graph of an episode taken out of a stack is the networkx graph of the original episode *)
Theorem nx_get_stack_vertices ls i l : nth_error ls i = Some l ->
  option_map nx_vertices (nth_error (stack padv ls) i) = Some (nx_vertices l).
Proof. intros H. rewrite (stack_rows padv ls i l H). simpl. f_equal. apply (pad_creates_no_vertex l (maxlen ls)). Qed.
Theorem nx_get_stack_edges ls i l : nth_error ls i = Some l ->
  option_map nx_edges (nth_error (stack pade ls) i) = Some (nx_edges l).
Proof. intros H. rewrite (stack_rows pade ls i l H). simpl. f_equal. apply (pad_creates_no_edge l (maxlen ls)). Qed.

(* all rows of a stack have the same length: the result is a rectangular array *)
Theorem stack_rectangular {X} (d : X) ls r : In r (stack d ls) -> length r = maxlen ls.
Proof.
  unfold stack. intros H. apply in_map_iff in H. destruct H as [l [<- Hl]].
  unfold pad. rewrite app_length, repeat_length. pose proof (maxlen_ge ls l Hl). lia.
Qed.

(* ---- filtering to a subset of nodes ---- *)
Section Filter.
Variable name : Type. Variable name_eqb : name -> name -> bool.
Definition mem (x : name) (l : list name) := existsb (name_eqb x) l.
(* Graph.filter(nodes, filter_edges=True): keep selected vertices, and the connections whose both ends are selected
   and which are connections of the selected node objects *)
Definition filter_graph {A B} (sel : list name) (conns : list (name * name))
           (verts : list (name * A)) (edges : list ((name * name) * B)) :=
  (filter (fun nv => mem (fst nv) sel) verts,
   filter (fun e => mem (fst (fst e)) sel && mem (snd (fst e)) sel &&
                    existsb (fun c => name_eqb (fst c) (fst (fst e)) && name_eqb (snd c) (snd (fst e))) conns) edges).
Theorem filter_graph_vertices {A B} sel conns (verts : list (name * A)) (edges : list ((name * name) * B)) nv :
  In nv (fst (filter_graph sel conns verts edges)) <-> In nv verts /\ mem (fst nv) sel = true.
Proof. unfold filter_graph; simpl. apply filter_In. Qed.
Theorem filter_graph_edges {A B} sel conns (verts : list (name * A)) (edges : list ((name * name) * B)) e :
  In e (snd (filter_graph sel conns verts edges)) ->
  In e edges /\ mem (fst (fst e)) sel = true /\ mem (snd (fst e)) sel = true.
Proof. unfold filter_graph; simpl. intros H. apply filter_In in H. destruct H as [H1 H2].
  apply andb_prop in H2. destruct H2 as [H2 _]. apply andb_prop in H2. tauto. Qed.
End Filter.
Print Assumptions nx_get_stack_vertices.
