(* C01: the compiled replay is THE solution of the dataflow equations of the windowed graph it executes.
   (1) prefix invariant: every executed row took its state and window payloads from rows executed strictly EARLIER in the log;
   (2) when the symbolic run passes check_sym and no vertex is executed twice, the trace of the compiled run satisfies the dataflow
       equations (eq_at) of the graph (ts_c, wins_c) read off the value-independent symbolic log, and the position in the log is a rank;
   (3) hence ANY execution that satisfies the same equations - in particular the recorded asynchronous one - agrees with the compiled
       replay on every vertex both define (replay_unique): same state before, same output. *)
From Coq Require Import List Arith ZArith Bool Lia.
From Rex Require Import CompiledModel RunnerSym CheckSym CompiledOnce Dataflow.
Import ListNotations.
Open Scope Z_scope.

(* ---------- uniqueness with the rank conditions required only where the second trace is defined ---------- *)
Section UniqOn.
Variable Val : Type.
Variable f : nat -> Z -> Z -> Val -> list (list (Z * Z * Z * Val)) -> Val.
Variables (vinit vdef : nat -> Val).
Variable ts_of : nat -> Z -> Z.
Variable wins_of : nat -> Z -> list (nat * list (Z * Z * Z)).
Variable rank : nat -> Z -> nat.
Notation eqat := (eq_at Val f vinit vdef ts_of wins_of).

Theorem dataflow_unique_on (T1 T2 : trace Val) :
  (forall n k, eqat T1 n k) -> (forall n k, eqat T2 n k) ->
  (forall n k x, T1 n k = Some x -> 0 <= k) ->
  (forall n k x, T2 n k = Some x -> 0 < k -> (rank n (k - 1) < rank n k)%nat) ->
  (forall n k x m w s a b, T2 n k = Some x -> In (m, w) (wins_of n k) -> In (s, a, b) w -> 0 <= s -> (rank m s < rank n k)%nat) ->
  forall n k x1 x2, T1 n k = Some x1 -> T2 n k = Some x2 -> x1 = x2.
Proof.
  intros E1 E2 Hpos Rs Rm.
  assert (H : forall r n k, (rank n k < r)%nat -> forall x1 x2, T1 n k = Some x1 -> T2 n k = Some x2 -> x1 = x2).
  { induction r as [|r IH]; intros n k Hr [st1 o1] [st2 o2] H1 H2; [lia|].
    destruct (E1 n k st1 o1 H1) as (S1 & ins1 & F1 & O1). destruct (E2 n k st2 o2 H2) as (S2 & ins2 & F2 & O2).
    assert (Hk : 0 <= k) by (eapply Hpos; eauto).
    assert (Hst : st1 = st2).
    { destruct (Z.eqb_spec k 0); [congruence|].
      destruct S1 as (a1 & A1). destruct S2 as (a2 & A2).
      assert (Hr' : (rank n (k - 1) < r)%nat) by (pose proof (Rs n k _ H2 ltac:(lia)); lia).
      pose proof (IH n (k - 1) Hr' _ _ A1 A2) as Heq. congruence. }
    assert (Hins : ins1 = ins2).
    { eapply fill_all_agree; eauto. intros m w s a b Hmw Hs Hs0 y1 y2 Y1 Y2.
      assert (Hr' : (rank m s < r)%nat) by (pose proof (Rm n k _ m w s a b H2 Hmw Hs Hs0); lia).
      rewrite (IH m s Hr' _ _ Y1 Y2). reflexivity. }
    subst. reflexivity. }
  intros n k x1 x2. apply (H (S (rank n k))). lia.
Qed.
End UniqOn.

(* ---------- lookup of a vertex in a log ---------- *)
Section Lookup.
Variable V : Type.
Definition keyb (r : row V) (n : nat) (k : Z) : bool := Nat.eqb (w_node V r) n && (w_seq V r =? k).
Definition lookup (l : list (row V)) n k : option (row V) := find (fun r => keyb r n k) l.
Fixpoint idx (l : list (row V)) n k : nat :=
  match l with [] => O | r :: l => if keyb r n k then O else S (idx l n k) end.
Definition rkey (r : row V) : nat * Z := (w_node V r, w_seq V r).

Lemma keyb_true r n k : keyb r n k = true <-> w_node V r = n /\ w_seq V r = k.
Proof. unfold keyb. rewrite andb_true_iff, Nat.eqb_eq, Z.eqb_eq. tauto. Qed.

Lemma lookup_idx l n k r : lookup l n k = Some r -> nth_error l (idx l n k) = Some r /\ keyb r n k = true.
Proof.
  unfold lookup. induction l as [|x l IH]; simpl; [discriminate|].
  destruct (keyb x n k) eqn:E; [intros [= <-]; auto|auto].
Qed.

Lemma idx_le l n k : forall j r, nth_error l j = Some r -> keyb r n k = true -> (idx l n k <= j)%nat.
Proof.
  induction l as [|x l IH]; intros [|j] r Hj Hk; simpl in *; try discriminate.
  - injection Hj as ->. rewrite Hk. lia.
  - destruct (keyb x n k); [lia|]. specialize (IH _ _ Hj Hk). lia.
Qed.

Lemma lookup_nodup l r : NoDup (map rkey l) -> In r l -> lookup l (w_node V r) (w_seq V r) = Some r.
Proof.
  unfold lookup. induction l as [|x l IH]; simpl; intros Hnd Hin; [contradiction|].
  inversion Hnd as [|? ? Hx Hnd']; subst.
  destruct Hin as [->|Hin].
  - assert (E : keyb r (w_node V r) (w_seq V r) = true) by (apply keyb_true; auto). now rewrite E.
  - destruct (keyb x (w_node V r) (w_seq V r)) eqn:E; [|auto].
    apply keyb_true in E. destruct E as [E1 E2]. exfalso. apply Hx.
    apply in_map_iff. exists r. split; [|exact Hin]. unfold rkey. now rewrite E1, E2.
Qed.

Lemma in_firstn_lt (l : list (row V)) i r : In r (firstn i l) -> exists j, (j < i)%nat /\ nth_error l j = Some r.
Proof.
  revert i. induction l as [|x l IH]; intros [|i] H; simpl in H; try contradiction.
  destruct H as [<-|H]; [exists O; split; [lia|reflexivity]|].
  destruct (IH i H) as (j & Hj & Hn). exists (S j). split; [lia|exact Hn].
Qed.
End Lookup.

Lemma find_map {X Y} (g : X -> Y) (p : Y -> bool) l : find p (map g l) = option_map g (find (fun x => p (g x)) l).
Proof. induction l as [|x l IH]; simpl; [reflexivity|]. destruct (p (g x)); [reflexivity|exact IH]. Qed.

(* ---------- (1) the prefix invariant of the paired run ---------- *)
Section Prefix.
Variable I : inst.
Variable sizes : list Z.
Variable Val : Type.
Variable f : nat -> Z -> Z -> Val -> list (list (Z * Z * Z * Val)) -> Val.
Variables (vi vd : nat -> Val).
Notation PVt := (PV Val).
Notation rowok := (row_ok Val f vi vd).
Notation Jt := (J Val f vi vd).
Notation commitP := (commit PVt sizes).
Notation run_phaseP := (run_phase I PVt (fP Val f) (iP Val vi) (dP Val vd) sizes).

Definition JP (s : rstate PVt) : Prop :=
  forall i r, nth_error (r_log PVt s) i = Some r -> rowok (firstn i (r_log PVt s)) r.

Lemma commit_JP s r : JP s -> rowok (r_log PVt s) r -> JP (commitP s r).
Proof.
  intros HJ Hr i x Hx. unfold commit in *. simpl in *.
  destruct (Nat.lt_ge_cases i (length (r_log PVt s))) as [Hi|Hi].
  - rewrite nth_error_app1 in Hx by exact Hi.
    rewrite firstn_app. replace (i - length (r_log PVt s))%nat with O by lia. simpl. rewrite app_nil_r. apply HJ. exact Hx.
  - rewrite nth_error_app2 in Hx by exact Hi.
    destruct (i - length (r_log PVt s))%nat as [|d] eqn:E; simpl in Hx; [|destruct d; discriminate].
    injection Hx as <-. assert (i = length (r_log PVt s)) by lia. subst i.
    rewrite firstn_app, firstn_all, Nat.sub_diag. simpl. rewrite app_nil_r. exact Hr.
Qed.

Lemma commit_log s r : r_log PVt (commitP s r) = r_log PVt s ++ [r].
Proof. reflexivity. Qed.

Lemma fold_commit_JJP rs : forall s, Jt s -> JP s -> (forall r, In r rs -> rowok (r_log PVt s) r) ->
  Jt (fold_left commitP rs s) /\ JP (fold_left commitP rs s).
Proof.
  induction rs as [|r rs IH]; intros s HJ HP Hrs; simpl; [auto|].
  assert (Hr : rowok (r_log PVt s) r) by (apply Hrs; now left).
  apply IH.
  - apply commit_J; assumption.
  - apply commit_JP; assumption.
  - intros r0 Hr0. eapply row_ok_mono; [|apply Hrs; now right].
    intros x Hx. rewrite commit_log. apply in_or_app. now left.
Qed.

Lemma run_phase_JJP todo s : Jt s -> JP s -> Jt (run_phaseP todo s) /\ JP (run_phaseP todo s).
Proof.
  intros HJ HP. unfold run_phase. apply fold_commit_JJP; auto.
  intros r Hr. apply in_map_iff in Hr. destruct Hr as [[n c] [<- _]]. apply exec_cell_ok. exact HJ.
Qed.

Theorem prun_JP p0 n : JP (prun I sizes Val f vi vd p0 n).
Proof.
  unfold prun, rollout. generalize (flat_map (phases_of I) (seq p0 n)) as phs.
  assert (H : forall phs s, Jt s -> JP s ->
     JP (fold_left (fun s ph => run_phaseP ph s) phs s)).
  { induction phs as [|ph phs IH]; intros s HJ HP; simpl; [exact HP|].
    destruct (run_phase_JJP ph s HJ HP) as [HJ' HP']. apply IH; assumption. }
  intros phs. apply H; [apply rinit_J|].
  intros i r Hr. unfold rinit in Hr. simpl in Hr. destruct i; discriminate.
Qed.
End Prefix.

(* ---------- (2)+(3) the compiled trace solves the equations; uniqueness ---------- *)
Section Replay.
Variable I : inst.
Variable sizes : list Z.
Variable Val : Type.
Variable f : nat -> Z -> Z -> Val -> list (list (Z * Z * Z * Val)) -> Val.
Variables (vi vd : nat -> Val).
Variables (p0 np : nat).
Notation PVt := (PV Val).

(* the windowed graph the compiled run executes, read off the symbolic (value-independent) log *)
Definition sender (w : list (Z * Z * Z * tag)) : nat :=
  match find (fun m => forallb (entry_ok m) w) (seq 0 (length (i_nodes I))) with Some m => m | None => O end.
Definition strip3 {V} (w : list (Z * Z * Z * V)) : list (Z * Z * Z) := map (fun e => match e with (s, a, b, _) => (s, a, b) end) w.
Definition slog := sym_log I sizes p0 np.
Definition rlog := real_log I sizes Val f vi vd p0 np.
Definition wins_c (n : nat) (k : Z) : list (nat * list (Z * Z * Z)) :=
  match lookup tag slog n k with Some r => map (fun w => (sender w, strip3 w)) (w_in tag r) | None => [] end.
Definition ts_c (n : nat) (k : Z) : Z := match lookup tag slog n k with Some r => w_ts tag r | None => 0 end.
Definition rank_c (n : nat) (k : Z) : nat := idx tag slog n k.
(* the trace of the compiled run *)
Definition T_c : trace Val := fun n k => option_map (fun r => (w_st Val r, w_out Val r)) (lookup Val rlog n k).
(* no vertex is executed twice (decidable on the symbolic log; follows from compiled_once for a schedule with distinct cells) *)
Fixpoint nodupb (l : list (nat * Z)) : bool :=
  match l with [] => true | x :: l => negb (existsb (key_eqb x) l) && nodupb l end.
Definition check_replay : bool := check_sym I sizes p0 np && nodupb (map (rkey tag) slog).

Lemma nodupb_sound l : nodupb l = true -> NoDup l.
Proof.
  induction l as [|x l IH]; simpl; intros H; [constructor|].
  apply andb_prop in H. destruct H as [H1 H2]. constructor; [|auto].
  intros Hin. apply negb_true_iff in H1. assert (E : existsb (key_eqb x) l = true); [|congruence].
  apply existsb_exists. exists x. split; [exact Hin|]. unfold key_eqb. now rewrite Nat.eqb_refl, Z.eqb_refl.
Qed.

(* the paired log and its two projections *)
Definition plog := r_log PVt (prun I sizes Val f vi vd p0 np).
Lemma rlog_plog : rlog = map (hrow PVt Val fst) plog.
Proof. unfold rlog, real_log, plog. rewrite <- (paired_fst I sizes Val f vi vd p0 np). reflexivity. Qed.
Lemma slog_plog : slog = map (hrow PVt tag snd) plog.
Proof. unfold slog, sym_log, plog. rewrite <- (paired_snd I sizes Val f vi vd p0 np). reflexivity. Qed.

Lemma lookup_r n k : lookup Val rlog n k = option_map (hrow PVt Val fst) (lookup PVt plog n k).
Proof. unfold lookup. rewrite rlog_plog, find_map. reflexivity. Qed.
Lemma lookup_s n k : lookup tag slog n k = option_map (hrow PVt tag snd) (lookup PVt plog n k).
Proof. unfold lookup. rewrite slog_plog, find_map. reflexivity. Qed.
Lemma idx_s n k : idx tag slog n k = idx PVt plog n k.
Proof. rewrite slog_plog. induction plog as [|x l IH]; simpl; [reflexivity|]. unfold keyb. simpl. now rewrite IH. Qed.
Lemma keys_s : map (rkey tag) slog = map (rkey PVt) plog.
Proof. rewrite slog_plog, map_map. reflexivity. Qed.

Hypothesis Hcheck : check_replay = true.

Lemma Hsym : check_sym I sizes p0 np = true.
Proof. unfold check_replay in Hcheck. now apply andb_prop in Hcheck. Qed.
Lemma Hnd : NoDup (map (rkey PVt) plog).
Proof. rewrite <- keys_s. apply nodupb_sound. unfold check_replay in Hcheck. now apply andb_prop in Hcheck. Qed.

(* what the invariant and the check say about the paired row at position i *)
Lemma row_facts i r : nth_error plog i = Some r ->
  fst (w_out PVt r) = f (w_node PVt r) (w_seq PVt r) (w_ts PVt r) (fst (w_st PVt r)) (strip Val (w_in PVt r)) /\
  snd (w_st PVt r) = expected_state (w_node PVt r) (w_seq PVt r) /\
  coh Val vi vd (firstn i plog) (w_st PVt r) /\
  (forall pw, In pw (w_in PVt r) -> forall s a b px, In (s, a, b, px) pw ->
     snd px = (if s <? 0 then TDef (sender (map (hent PVt tag snd) pw)) else TOut (sender (map (hent PVt tag snd) pw)) s) /\
     coh Val vi vd (firstn i plog) px).
Proof.
  intros Hi. pose proof (prun_JP I sizes Val f vi vd p0 np i r Hi) as (A & B & C & D).
  assert (Hrc : row_check I (hrow PVt tag snd r) = true).
  { pose proof Hsym as Hc. unfold check_sym in Hc. fold slog in Hc. rewrite slog_plog in Hc. rewrite forallb_forall in Hc.
    apply Hc. apply in_map. eapply nth_error_In; eauto. }
  unfold row_check in Hrc. apply andb_prop in Hrc. destruct Hrc as [Hst Hwin]. apply tag_eqb_eq in Hst. simpl in Hst.
  split; [exact B|]. split; [exact Hst|]. split; [exact C|].
  intros pw Hpw s a b px Hpx. split; [|exact (D pw Hpw _ Hpx)].
  rewrite forallb_forall in Hwin.
  assert (Hwo : window_ok I (map (hent PVt tag snd) pw) = true).
  { apply Hwin. simpl. unfold hins. apply in_map. exact Hpw. }
  unfold window_ok in Hwo. unfold sender.
  destruct (find (fun m => forallb (entry_ok m) (map (hent PVt tag snd) pw)) (seq 0 (length (i_nodes I)))) as [m|] eqn:Ef.
  - apply find_some in Ef. destruct Ef as [_ Hall]. rewrite forallb_forall in Hall.
    assert (He : entry_ok m (hent PVt tag snd (s, a, b, px)) = true) by (apply Hall; apply in_map; exact Hpx).
    simpl in He. apply tag_eqb_eq in He. exact He.
  - exfalso. apply existsb_exists in Hwo. destruct Hwo as (m & Hm & Hall).
    pose proof (find_none _ _ Ef m Hm) as Hn. simpl in Hn. congruence.
Qed.

(* a coherent TOut-tagged value was produced by an earlier row, which is THE row of that vertex *)
Lemma coh_earlier i x m s : coh Val vi vd (firstn i plog) x -> snd x = TOut m s ->
  exists r0, lookup PVt plog m s = Some r0 /\ fst (w_out PVt r0) = fst x /\ (idx PVt plog m s < i)%nat.
Proof.
  intros Hx Ht. unfold coh in Hx. rewrite Ht in Hx. destruct Hx as (r0 & Hr0 & Hn & Hs & Ho).
  apply in_firstn_lt in Hr0. destruct Hr0 as (j & Hj & Hnth).
  exists r0. split; [|split; [exact Ho|]].
  - rewrite <- Hn, <- Hs. apply lookup_nodup; [exact Hnd|]. eapply nth_error_In; eauto.
  - assert (Hk : keyb PVt r0 m s = true) by (apply keyb_true; auto).
    pose proof (idx_le PVt plog m s j r0 Hnth Hk). lia.
Qed.

Definition T_p : trace Val := fun n k => option_map (fun r => (fst (w_st PVt r), fst (w_out PVt r))) (lookup PVt plog n k).
Lemma T_c_p n k : T_c n k = T_p n k.
Proof. unfold T_c, T_p. rewrite lookup_r. destruct (lookup PVt plog n k); reflexivity. Qed.

Lemma fill_window i m (pw : list (Z * Z * Z * PVt)) :
  (forall s a b px, In (s, a, b, px) pw -> snd px = (if s <? 0 then TDef m else TOut m s) /\ coh Val vi vd (firstn i plog) px) ->
  fill Val vd T_p m (strip3 pw) = Some (map (hent PVt Val fst) pw).
Proof.
  induction pw as [|[[[s a] b] px] pw IH]; intros H; simpl; [reflexivity|].
  destruct (H s a b px (or_introl eq_refl)) as [Ht Hc].
  rewrite IH by (intros s' a' b' px' Hin; apply (H s' a' b' px'); now right).
  unfold payload. destruct (s <? 0) eqn:Es.
  - unfold coh in Hc. rewrite Ht in Hc. now rewrite Hc.
  - destruct (coh_earlier i px m s Hc Ht) as (r0 & Hl & Ho & _).
    unfold T_p. rewrite Hl. simpl. now rewrite Ho.
Qed.

Lemma fill_c_p m w : fill Val vd T_c m w = fill Val vd T_p m w.
Proof. induction w as [|[[s a] b] w IHw]; simpl; [reflexivity|]. unfold payload. rewrite T_c_p, IHw. reflexivity. Qed.

(* (2) the compiled trace satisfies the dataflow equations of (ts_c, wins_c) *)
Theorem compiled_solves_dataflow : forall n k, eq_at Val f vi vd ts_c wins_c T_c n k.
Proof.
  intros n k st out HT. rewrite T_c_p in HT. unfold T_p in HT.
  destruct (lookup PVt plog n k) as [r|] eqn:El; [|discriminate]. simpl in HT. injection HT as <- <-.
  destruct (lookup_idx PVt plog n k r El) as [Hnth Hk]. apply keyb_true in Hk. destruct Hk as [Hn Hs].
  destruct (row_facts _ r Hnth) as (B & Hst & C & D). rewrite Hn, Hs in *.
  split.
  - unfold expected_state in Hst. destruct (k =? 0) eqn:Ek.
    + unfold coh in C. rewrite Hst in C. exact C.
    + destruct (coh_earlier _ _ _ _ C Hst) as (r0 & Hl & Ho & _).
      exists (fst (w_st PVt r0)). rewrite T_c_p. unfold T_p. rewrite Hl. simpl. now rewrite Ho.
  - exists (strip Val (w_in PVt r)). split.
    + unfold wins_c. rewrite lookup_s, El. simpl. unfold hins. rewrite map_map.
      assert (G : forall ws, (forall pw, In pw ws -> In pw (w_in PVt r)) ->
        fill_all Val vd T_c (map (fun x => (sender (map (hent PVt tag snd) x), strip3 (map (hent PVt tag snd) x))) ws) = Some (strip Val ws)).
      { induction ws as [|pw ws IH]; intros Hsub; simpl; [reflexivity|].
        assert (E3 : strip3 (map (hent PVt tag snd) pw) = strip3 pw).
        { unfold strip3. rewrite map_map. apply map_ext. intros [[[s a] b] x]. reflexivity. }
        rewrite E3.
        assert (Ef : fill Val vd T_c (sender (map (hent PVt tag snd) pw)) (strip3 pw) = Some (map (hent PVt Val fst) pw)).
        { rewrite fill_c_p. apply (fill_window (idx PVt plog n k)).
          intros s a b px Hpx. apply (D pw (Hsub pw (or_introl eq_refl)) s a b px Hpx). }
        rewrite Ef. rewrite IH by (intros; apply Hsub; now right). reflexivity. }
      apply G. auto.
    + unfold ts_c. rewrite lookup_s, El. simpl. exact B.
Qed.

(* the position in the log is a rank: dependencies are executed strictly earlier *)
Theorem compiled_rank_state n k x : T_c n k = Some x -> 0 < k -> (rank_c n (k - 1) < rank_c n k)%nat.
Proof.
  intros HT Hk. rewrite T_c_p in HT. unfold T_p in HT. unfold rank_c. rewrite !idx_s.
  destruct (lookup PVt plog n k) as [r|] eqn:El; [|discriminate].
  destruct (lookup_idx PVt plog n k r El) as [Hnth Hkk]. apply keyb_true in Hkk. destruct Hkk as [Hn Hs].
  destruct (row_facts _ r Hnth) as (_ & Hst & C & _). rewrite Hn, Hs in *.
  unfold expected_state in Hst. destruct (Z.eqb_spec k 0); [lia|].
  destruct (coh_earlier _ _ _ _ C Hst) as (_ & _ & _ & Hlt). exact Hlt.
Qed.

Theorem compiled_rank_msg n k x m w s a b : T_c n k = Some x -> In (m, w) (wins_c n k) -> In (s, a, b) w -> 0 <= s ->
  (rank_c m s < rank_c n k)%nat.
Proof.
  intros HT Hmw Hin Hs0. rewrite T_c_p in HT. unfold T_p in HT. unfold rank_c. rewrite !idx_s.
  destruct (lookup PVt plog n k) as [r|] eqn:El; [|discriminate].
  destruct (lookup_idx PVt plog n k r El) as [Hnth Hkk].
  destruct (row_facts _ r Hnth) as (_ & _ & _ & D).
  unfold wins_c in Hmw. rewrite lookup_s, El in Hmw. simpl in Hmw. unfold hins in Hmw. rewrite map_map in Hmw.
  apply in_map_iff in Hmw. destruct Hmw as (pw & Heq & Hpw). injection Heq as <- <-.
  unfold strip3 in Hin. rewrite map_map in Hin. apply in_map_iff in Hin. destruct Hin as ([[[s' a'] b'] px] & Heq & Hpx).
  simpl in Heq. injection Heq as -> -> ->.
  destruct (D pw Hpw s a b px Hpx) as [Ht Hc].
  assert (Es : (s <? 0) = false) by (apply Z.ltb_ge; exact Hs0). rewrite Es in Ht.
  destruct (coh_earlier _ _ _ _ Hc Ht) as (_ & _ & _ & Hlt). exact Hlt.
Qed.

(* (3) C01 core, closed: any execution T of the same windowed graph with the same step function, initial states and default outputs
   (the recorded asynchronous execution is one) agrees with the compiled replay on every vertex both executed *)
Theorem replay_unique (T : trace Val) :
  (forall n k, eq_at Val f vi vd ts_c wins_c T n k) ->
  (forall n k x, T n k = Some x -> 0 <= k) ->
  forall n k x1 x2, T n k = Some x1 -> T_c n k = Some x2 -> x1 = x2.
Proof.
  intros ET Hpos. apply (dataflow_unique_on Val f vi vd ts_c wins_c rank_c T T_c ET compiled_solves_dataflow Hpos).
  - exact compiled_rank_state.
  - intros n k x m w s a b. apply compiled_rank_msg.
Qed.
End Replay.
Print Assumptions replay_unique.

(* non-vacuity: a two-node instance (node 0 feeds the supervisor 1 through a window of 2, three partitions) passes check_replay, and the
   probe replay defines the vertices the theorem speaks about *)
Definition ex_cell0 (p : Z) := {| c_run := true; c_seq := p; c_start := 64 * p; c_end := 64 * p + 10; c_wins := [] |}.
Definition ex_cell1 (p : Z) (w : list wentry) := {| c_run := true; c_seq := p; c_start := 64 * p + 32; c_end := 64 * p + 40; c_wins := [w] |}.
Definition ex_inst : inst :=
  {| i_nodes := [{| k_nid := 0 |}; {| k_nid := 1 |}]; i_conns := [{| k_out := 0; k_in := 1; k_win := 2 |}]; i_sup := 1%nat;
     i_verts := [[{| v_seq := 0; v_start := 0; v_end := 10 |}; {| v_seq := 1; v_start := 64; v_end := 74 |}; {| v_seq := 2; v_start := 128; v_end := 138 |}];
                 [{| v_seq := 0; v_start := 32; v_end := 40 |}; {| v_seq := 1; v_start := 96; v_end := 104 |}; {| v_seq := 2; v_start := 160; v_end := 168 |}]];
     i_edges := [[{| e_out := 0; e_in := 0; e_recv := 12 |}; {| e_out := 1; e_in := 1; e_recv := 76 |}; {| e_out := 2; e_in := 2; e_recv := 140 |}]];
     i_slots := [{| s_kind := 0; s_gen := 0; s_cells := [ex_cell0 0; ex_cell0 1; ex_cell0 2] |};
                 {| s_kind := 1; s_gen := 1; s_cells := [ex_cell1 0 [(-1, 0, 0); (0, 10, 12)]; ex_cell1 1 [(0, 10, 12); (1, 74, 76)];
                                                        ex_cell1 2 [(1, 74, 76); (2, 138, 140)]] |}];
     i_ngen := 2; i_nparts := 3 |}.
Example ex_check_replay : check_replay ex_inst [2; 1] 0 3 = true /\ check_schedule ex_inst = true.
Proof. vm_compute. split; reflexivity. Qed.
Example ex_replay_defined :
  T_c ex_inst [2; 1] Z probe (fun n => 1 + nid ex_inst n) (fun n => 3 + nid ex_inst n) 0 3 1%nat 2 <> None /\
  wins_c ex_inst [2; 1] 0 3 1%nat 2 = [(0%nat, [(1, 74, 76); (2, 138, 140)])].
Proof. vm_compute. split; [discriminate|reflexivity]. Qed.
(* a ring of size 1 for node 0 cannot hold the window of 2: the check rejects it *)
Example ex_check_replay_small : check_replay ex_inst [1; 1] 0 3 = false.
Proof. vm_compute. reflexivity. Qed.
