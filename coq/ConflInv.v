From Coq Require Import List Arith Lia Relations.
Import ListNotations.

(* Abstract: a labelled transition system with deterministic labels and the strong diamond
   property for distinct labels  =>  confluence, and prefix-comparability of any observable
   that only grows along transitions. *)
Section Confluence.
Variables (S Lbl : Type).
Variable step : Lbl -> S -> S -> Prop.
Variable Lbl_dec : forall a b : Lbl, {a = b} + {a <> b}.
Variable Inv : S -> Prop.
Hypothesis inv_step : forall a s s', Inv s -> step a s s' -> Inv s'.
Hypothesis step_det : forall a s s1 s2, step a s s1 -> step a s s2 -> s1 = s2.
Hypothesis diamond : forall a b s s1 s2, Inv s -> a <> b -> step a s s1 -> step b s s2 ->
  exists s3, step b s1 s3 /\ step a s2 s3.

Inductive steps : S -> S -> Prop :=
| steps_nil s : steps s s
| steps_cons a s s1 s2 : step a s s1 -> steps s1 s2 -> steps s s2.

Inductive stepsn : nat -> S -> S -> Prop :=
| sn_nil s : stepsn 0 s s
| sn_cons n a s s1 s2 : step a s s1 -> stepsn n s1 s2 -> stepsn (Datatypes.S n) s s2.

Lemma steps_stepsn s t : steps s t <-> exists n, stepsn n s t.
Proof.
  split.
  - induction 1 as [|a s s1 s2 H _ [n IH]]; [exists 0; constructor|exists (Datatypes.S n); econstructor; eauto].
  - intros [n H]. induction H; econstructor; eauto.
Qed.

(* one step against n steps: at most one step left on the other side *)
Lemma inv_stepsn n s t : Inv s -> stepsn n s t -> Inv t.
Proof. intros Hi H. induction H; eauto. Qed.

Lemma strip a n : forall s s1 t, Inv s -> step a s s1 -> stepsn n s t ->
  exists u, (u = t \/ step a t u) /\ exists m, m <= n /\ stepsn m s1 u.
Proof.
  induction n as [|n IH]; intros s s1 t Hi Ha Hn; inversion Hn; subst.
  - exists s1. split; [right; exact Ha|]. exists 0. split; [lia|constructor].
  - match goal with Hb : step ?b s ?s', Hr : stepsn n ?s' t |- _ =>
      destruct (Lbl_dec a b) as [->|Hne];
      [ assert (s1 = s') by (eapply step_det; eauto); subst;
        exists t; split; [left; reflexivity|]; exists n; split; [lia|assumption]
      | destruct (diamond _ _ _ _ _ Hi Hne Ha Hb) as [s3 [Hb3 Ha3]];
        destruct (IH _ _ _ (inv_step _ _ _ Hi Hb) Ha3 Hr) as [u [Hu [m [Hm Hsm]]]];
        exists u; split; [exact Hu|]; exists (Datatypes.S m); split; [lia|]; econstructor; eauto ]
    end.
Qed.

Theorem confluence s t1 t2 : Inv s -> steps s t1 -> steps s t2 -> exists u, steps t1 u /\ steps t2 u.
Proof.
  intros Hi H1 H2. apply steps_stepsn in H1. destruct H1 as [n H1].
  revert t2 H2. induction H1 as [s|n a s s1 t1 Ha Hn IH]; intros t2 H2.
  - exists t2. split; [exact H2|constructor].
  - apply steps_stepsn in H2. destruct H2 as [k H2].
    destruct (strip a k _ _ _ Hi Ha H2) as [u [Hu [m [_ Hsm]]]].
    assert (Hs1u : steps s1 u) by (apply steps_stepsn; eauto).
    destruct (IH (inv_step _ _ _ Hi Ha) _ Hs1u) as [w [Ht1w Huw]].
    exists w. split; [exact Ht1w|].
    destruct Hu as [->|Hstep]; [exact Huw| econstructor; eauto].
Qed.

(* observables that only grow *)
Variable O : Type.
Variable obs : S -> list O.
Definition prefix (l1 l2 : list O) := exists t, l2 = l1 ++ t.
Hypothesis obs_mono : forall a s s', Inv s -> step a s s' -> prefix (obs s) (obs s').

Lemma prefix_trans l1 l2 l3 : prefix l1 l2 -> prefix l2 l3 -> prefix l1 l3.
Proof. intros [t ->] [t' ->]. exists (t ++ t'). now rewrite app_assoc. Qed.

Lemma inv_steps s t : Inv s -> steps s t -> Inv t.
Proof. intros Hi H. induction H; eauto. Qed.
Lemma obs_mono_steps s t : Inv s -> steps s t -> prefix (obs s) (obs t).
Proof. intros Hi H. induction H; [exists []; now rewrite app_nil_r| eapply prefix_trans; eauto]. Qed.

Lemma prefix_comparable (l1 l2 l : list O) : prefix l1 l -> prefix l2 l -> prefix l1 l2 \/ prefix l2 l1.
Proof.
  revert l2 l. induction l1 as [|x l1 IH]; intros l2 l [t1 H1] [t2 H2].
  - left. exists l2. reflexivity.
  - destruct l2 as [|y l2]; [right; eexists; reflexivity|].
    subst l. simpl in H2. injection H2 as -> H2.
    destruct (IH l2 (l1 ++ t1)) as [[t ->]|[t ->]].
    + eexists; reflexivity.
    + exists t2. exact H2.
    + left. exists t. reflexivity.
    + right. exists t. reflexivity.
Qed.

Theorem observable_prefix_comparable s t1 t2 :
  Inv s -> steps s t1 -> steps s t2 -> prefix (obs t1) (obs t2) \/ prefix (obs t2) (obs t1).
Proof.
  intros Hi H1 H2. destruct (confluence _ _ _ Hi H1 H2) as [u [Hu1 Hu2]].
  eapply prefix_comparable; eapply obs_mono_steps; eauto using inv_steps.
Qed.
End Confluence.
Print Assumptions observable_prefix_comparable.
