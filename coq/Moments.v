(* C19: the running mean/variance of NormalizeVec* equals the moments of everything seen (plus the 1e-4 prior) *)
From Coq Require Import Reals Lra List.
Import ListNotations.
Open Scope R_scope.

Record mom := { mean : R; var : R; count : R }.
(* the update block of NormalizeVecObservationWrapper.step / NormalizeVecReward.step *)
Definition update (s : mom) (bmean bvar bcount : R) : mom :=
  let delta := bmean - mean s in
  let tot := count s + bcount in
  let new_mean := mean s + delta * bcount / tot in
  let m_a := var s * count s in
  let m_b := bvar * bcount in
  let M2 := m_a + m_b + delta * delta * count s * bcount / tot in
  {| mean := new_mean; var := M2 / tot; count := tot |}.

(* raw power sums represented by a (mean, var, count) triple *)
Definition S0 (s : mom) := count s.
Definition S1 (s : mom) := count s * mean s.
Definition S2 (s : mom) := count s * (var s + mean s * mean s).

Lemma update_adds s bm bv bc : count s + bc <> 0 ->
  let s' := update s bm bv bc in
  S0 s' = S0 s + bc /\ S1 s' = S1 s + bc * bm /\ S2 s' = S2 s + bc * (bv + bm * bm).
Proof.
  intros H. unfold update, S0, S1, S2; simpl. repeat split; field; exact H.
Qed.

(* batch statistics as jnp.mean / jnp.var compute them *)
Fixpoint sum (l : list R) : R := match l with [] => 0 | x :: l => x + sum l end.
Definition len (l : list R) : R := INR (length l).
Definition bmean (l : list R) := sum l / len l.
Definition bvar (l : list R) := sum (map (fun x => (x - bmean l) * (x - bmean l)) l) / len l.
Definition sumsq (l : list R) := sum (map (fun x => x * x) l).

Lemma sum_map_affine (f g : R -> R) l : sum (map (fun x => f x + g x) l) = sum (map f l) + sum (map g l).
Proof. induction l; simpl; lra. Qed.
Lemma sum_map_scale c (f : R -> R) l : sum (map (fun x => c * f x) l) = c * sum (map f l).
Proof. induction l; simpl; lra. Qed.
Lemma sum_map_const c (l : list R) : sum (map (fun _ => c) l) = c * len l.
Proof. unfold len. induction l; [simpl; lra|]. change (length (a :: l)) with (S (length l)). rewrite S_INR. simpl. lra. Qed.
Lemma sum_map_id l : sum (map (fun x => x) l) = sum l.
Proof. induction l; simpl; lra. Qed.

Lemma batch_power_sums l : len l <> 0 ->
  len l * bmean l = sum l /\ len l * (bvar l + bmean l * bmean l) = sumsq l.
Proof.
  intros H. split; [unfold bmean; field; exact H|].
  unfold bvar, sumsq. set (m := bmean l).
  assert (E : sum (map (fun x => (x - m) * (x - m)) l) = sumsq l - 2 * m * sum l + m * m * len l).
  { unfold sumsq.
    rewrite (map_ext (fun x => (x - m) * (x - m)) (fun x => (x * x + (-2 * m) * x) + m * m)) by (intros; ring).
    rewrite (sum_map_affine (fun x => x * x + -2 * m * x) (fun _ => m * m)).
    rewrite (sum_map_affine (fun x => x * x) (fun x => -2 * m * x)).
    rewrite (sum_map_scale (-2 * m) (fun x => x)), sum_map_id, sum_map_const. ring. }
  rewrite E. unfold sumsq. replace (sum l) with (len l * m) by (unfold m, bmean; field; exact H). field. exact H.
Qed.

(* after any sequence of non-empty batches the state carries the power sums of the prior plus everything seen *)
Fixpoint run (s : mom) (bs : list (list R)) : mom :=
  match bs with [] => s | b :: bs => run (update s (bmean b) (bvar b) (len b)) bs end.

Theorem moments_all_seen bs : forall s, 0 < count s -> (forall b, In b bs -> b <> []) ->
  let all := concat bs in
  S0 (run s bs) = S0 s + len all /\ S1 (run s bs) = S1 s + sum all /\ S2 (run s bs) = S2 s + sumsq all.
Proof.
  induction bs as [|b bs IH]; intros s Hc Hne; simpl.
  - unfold len, sumsq; simpl. repeat split; lra.
  - assert (Hb : b <> []) by (apply Hne; now left).
    assert (Hl : 0 < len b). { unfold len. destruct b; [congruence|]. apply lt_0_INR. simpl. apply PeanoNat.Nat.lt_0_succ. }
    assert (Hn0 : count s + len b <> 0) by lra.
    destruct (update_adds s (bmean b) (bvar b) (len b) Hn0) as (A0 & A1 & A2).
    destruct (batch_power_sums b) as (B1 & B2); [lra|].
    destruct (IH (update s (bmean b) (bvar b) (len b))) as (I0 & I1 & I2).
    { unfold update; simpl. lra. }
    { intros; apply Hne; now right. }
    unfold len, sumsq in *. rewrite app_length, plus_INR, map_app.
    assert (Hsa : forall l1 l2, sum (l1 ++ l2) = sum l1 + sum l2) by (induction l1; intros; simpl; [lra|rewrite IHl1; lra]).
    rewrite !Hsa. repeat split; [rewrite I0, A0|rewrite I1, A1, B1|rewrite I2, A2, B2]; lra.
Qed.
Print Assumptions moments_all_seen.
