(* C01: solutions of the dataflow equations are unique -- two executions that both satisfy them agree *)
From Coq Require Import List Arith ZArith Bool Lia Wf_nat.
Import ListNotations.
Open Scope Z_scope.

Section Dataflow.
Variable Val : Type.
Variable f : nat -> Z -> Z -> Val -> list (list (Z * Z * Z * Val)) -> Val.   (* node, seq, ts, state, windows *)
Variables (vinit vdef : nat -> Val).
(* the windowed computation graph: timestamp of a vertex and, per input, the sender and the window (seq, sent, recv) *)
Variable ts_of : nat -> Z -> Z.
Variable wins_of : nat -> Z -> list (nat * list (Z * Z * Z)).

(* a trace assigns to (some) vertices the state they started from and the output they produced *)
Definition trace := nat -> Z -> option (Val * Val).     (* (state before, output) *)

Definition payload (T : trace) (m : nat) (s : Z) : option Val :=
  if s <? 0 then Some (vdef m) else option_map snd (T m s).
Fixpoint fill (T : trace) (m : nat) (w : list (Z * Z * Z)) : option (list (Z * Z * Z * Val)) :=
  match w with [] => Some []
  | (s, a, b) :: w => match payload T m s, fill T m w with
                      | Some x, Some r => Some ((s, a, b, x) :: r) | _, _ => None end end.
Fixpoint fill_all (T : trace) (ws : list (nat * list (Z * Z * Z))) : option (list (list (Z * Z * Z * Val))) :=
  match ws with [] => Some []
  | (m, w) :: ws => match fill T m w, fill_all T ws with Some x, Some r => Some (x :: r) | _, _ => None end end.

(* the dataflow equations at vertex (n,k) *)
Definition eq_at (T : trace) (n : nat) (k : Z) : Prop :=
  forall st out, T n k = Some (st, out) ->
    (if k =? 0 then st = vinit n else exists st', T n (k - 1) = Some (st', st)) /\
    exists ins, fill_all T (wins_of n k) = Some ins /\ out = f n k (ts_of n k) st ins.

(* a rank that decreases along dependencies (e.g. the position of the vertex in the compiled schedule, or in the
   asynchronous execution): exists because the windowed graph is acyclic *)
Variable rank : nat -> Z -> nat.
Hypothesis rank_state : forall n k, 0 < k -> (rank n (k - 1) < rank n k)%nat.
Hypothesis rank_msg : forall n k m w s a b, In (m, w) (wins_of n k) -> In (s, a, b) w -> 0 <= s -> (rank m s < rank n k)%nat.

Lemma fill_agree T1 T2 m w r1 r2 :
  (forall s a b, In (s, a, b) w -> 0 <= s -> forall x1 x2, T1 m s = Some x1 -> T2 m s = Some x2 -> snd x1 = snd x2) ->
  fill T1 m w = Some r1 -> fill T2 m w = Some r2 -> r1 = r2.
Proof.
  revert r1 r2. induction w as [|[[s a] b] w IH]; intros r1 r2 H H1 H2; simpl in *; [congruence|].
  unfold payload in *. destruct (Z.ltb_spec s 0).
  - destruct (fill T1 m w) eqn:E1; [|discriminate]. destruct (fill T2 m w) eqn:E2; [|discriminate].
    injection H1 as <-. injection H2 as <-. f_equal. eapply IH; eauto; intros; eapply H; eauto; now right.
  - destruct (T1 m s) as [x1|] eqn:F1; simpl in H1; [|discriminate].
    destruct (T2 m s) as [x2|] eqn:F2; simpl in H2; [|discriminate].
    destruct (fill T1 m w) eqn:E1; [|discriminate]. destruct (fill T2 m w) eqn:E2; [|discriminate].
    injection H1 as <-. injection H2 as <-.
    rewrite (H s a b (or_introl eq_refl) H0 x1 x2 F1 F2). f_equal. eapply IH; eauto; intros; eapply H; eauto; now right.
Qed.

Lemma fill_all_agree T1 T2 ws r1 r2 :
  (forall m w s a b, In (m, w) ws -> In (s, a, b) w -> 0 <= s ->
     forall x1 x2, T1 m s = Some x1 -> T2 m s = Some x2 -> snd x1 = snd x2) ->
  fill_all T1 ws = Some r1 -> fill_all T2 ws = Some r2 -> r1 = r2.
Proof.
  revert r1 r2. induction ws as [|[m w] ws IH]; intros r1 r2 H H1 H2; simpl in *; [congruence|].
  destruct (fill T1 m w) eqn:E1; [|discriminate]. destruct (fill T2 m w) eqn:E2; [|discriminate].
  destruct (fill_all T1 ws) eqn:F1; [|discriminate]. destruct (fill_all T2 ws) eqn:F2; [|discriminate].
  injection H1 as <-. injection H2 as <-. f_equal.
  - eapply fill_agree; eauto; intros; eapply H; eauto; now left.
  - eapply IH; eauto; intros; eapply H; eauto; now right.
Qed.

(* two traces that satisfy the equations (on the vertices they define, with seqs >= 0) agree wherever both are defined *)
Theorem dataflow_unique T1 T2 :
  (forall n k, eq_at T1 n k) -> (forall n k, eq_at T2 n k) ->
  (forall n k x, T1 n k = Some x -> 0 <= k) ->
  forall n k x1 x2, T1 n k = Some x1 -> T2 n k = Some x2 -> x1 = x2.
Proof.
  intros E1 E2 Hpos.
  assert (H : forall r n k, (rank n k < r)%nat -> forall x1 x2, T1 n k = Some x1 -> T2 n k = Some x2 -> x1 = x2).
  { induction r as [|r IH]; intros n k Hr [st1 o1] [st2 o2] H1 H2; [lia|].
    destruct (E1 n k st1 o1 H1) as (S1 & ins1 & F1 & O1). destruct (E2 n k st2 o2 H2) as (S2 & ins2 & F2 & O2).
    assert (Hk : 0 <= k) by (eapply Hpos; eauto).
    assert (Hst : st1 = st2).
    { destruct (Z.eqb_spec k 0); [congruence|].
      destruct S1 as (a1 & A1). destruct S2 as (a2 & A2).
      assert (Hr' : (rank n (k - 1) < r)%nat) by (pose proof (rank_state n k ltac:(lia)); lia).
      pose proof (IH n (k - 1) Hr' _ _ A1 A2) as Heq. congruence. }
    assert (Hins : ins1 = ins2).
    { eapply fill_all_agree; eauto. intros m w s a b Hmw Hs Hs0 y1 y2 Y1 Y2.
      assert (Hr' : (rank m s < r)%nat) by (pose proof (rank_msg n k m w s a b Hmw Hs Hs0); lia).
      rewrite (IH m s Hr' _ _ Y1 Y2). reflexivity. }
    subst. reflexivity. }
  intros n k x1 x2. apply (H (S (rank n k))). lia.
Qed.
End Dataflow.
Print Assumptions dataflow_unique.
