(* C19 — scalar kernels of rex/rl.py, carrier-generic (Ops.v): LogWrapper accounting, the running-moment update of
   NormalizeVecObservationWrapper / NormalizeVecReward, NormalizeVec.normalize/denormalize, SquashState.scale/unsquash,
   jnp.clip.  Transcendental functions (tanh, arctanh, sqrt) enter as parameters so that the same definitions run at Q
   (against the implementation) and are reasoned about at R.  The kernel translator regenerates these definitions from
   the current source (coq/Generated/Rl.v) and coq/Ties/RlTie.v re-proves that they coincide. *)
From Coq Require Import ZArith Bool List Reals.
From Rex Require Import Ops.
Import ListNotations.

(* jnp.arctanh over R (not in the 8.16 standard library) *)
Definition atanh (x : R) : R := (ln ((1 + x) / (1 - x)) / 2)%R.

Section K.
Context {A : Type} (O : ops A).
Local Notation "x + y" := (oadd O x y). Local Notation "x - y" := (osub O x y).
Local Notation "x * y" := (omul O x y). Local Notation "x / y" := (odiv O x y).
Local Notation "# z" := (oz O z) (at level 5).

(* `x * (1 - done)` / `x * done` with a boolean done, as jnp computes them *)
Definition b2a (b : bool) : A := if b then #1 else #0.

(* ---- LogWrapper ---- *)
Record logst := { l_ret : A; l_len : A; l_rret : A; l_rlen : A; l_t : A }.
Definition log0 : logst := {| l_ret := #0; l_len := #0; l_rret := #0; l_rlen := #0; l_t := #0 |}.
Definition log_step (s : logst) (r : A) (terminated truncated : bool) : logst :=
  let d := b2a (orb terminated truncated) in
  let nr := l_ret s + r in
  let nl := l_len s + #1 in
  {| l_ret := nr * (#1 - d); l_len := nl * (#1 - d);
     l_rret := l_rret s * (#1 - d) + nr * d; l_rlen := l_rlen s * (#1 - d) + nl * d; l_t := l_t s + #1 |}.

(* ---- running moments ---- *)
Record mom := { m_mean : A; m_var : A; m_count : A }.
(* the prior of NormalizeVec*.reset: mean 0, var 1, count 1e-4 *)
Definition mom0 : mom := {| m_mean := #0; m_var := #1; m_count := #1 / #10000 |}.
Definition mom_update (s : mom) (bmean bvar bcount : A) : mom :=
  let delta := bmean - m_mean s in
  let tot := m_count s + bcount in
  let new_mean := m_mean s + delta * bcount / tot in
  let m_a := m_var s * m_count s in
  let m_b := bvar * bcount in
  let M2 := m_a + m_b + delta * delta * m_count s * bcount / tot in
  {| m_mean := new_mean; m_var := M2 / tot; m_count := tot |}.

(* jnp.mean / jnp.var (population variance) of a non-empty batch *)
Fixpoint lsum (l : list A) : A := match l with [] => #0 | x :: l => x + lsum l end.
Definition llen (l : list A) : A := #(Z.of_nat (length l)).
Definition bmean (l : list A) : A := lsum l / llen l.
Definition bvar (l : list A) : A := let m := bmean l in lsum (map (fun x => (x - m) * (x - m)) l) / llen l.
Definition mom_batch (s : mom) (b : list A) : mom := mom_update s (bmean b) (bvar b) (llen b).

(* NormalizeVecReward: return_val = return_val * gamma * (1 - done) + reward *)
Definition ret_update (gamma rv r : A) (terminated truncated : bool) : A :=
  rv * gamma * (#1 - b2a (orb terminated truncated)) + r.

(* ---- jnp.clip ---- *)
Definition clip (x lo hi : A) : A := omin O (omax O x lo) hi.

(* ---- NormalizeVec.normalize / denormalize; sq = jnp.sqrt ---- *)
Definition nv_eps : A := #1 / #100000000.
Definition nv_normalize (sq : A -> A) (mean var clipv : A) (do_clip sub_mean : bool) (x : A) : A :=
  let x1 := if sub_mean then x - mean else x in
  let x2 := x1 / sq (var + nv_eps) in
  if do_clip then clip x2 (oopp O clipv) clipv else x2.
Definition nv_denormalize (sq : A -> A) (mean var : A) (add_mean : bool) (x : A) : A :=
  let x1 := x * sq (var + nv_eps) in
  if add_mean then x1 + mean else x1.

(* ---- SquashState.scale / unsquash; th = jnp.tanh, ath = jnp.arctanh ---- *)
Definition sq_unsquash (th : A -> A) (squash : bool) (lo hi x : A) : A :=
  if squash then #1 / #2 * (th x + #1) * (hi - lo) + lo else clip x lo hi.
Definition sq_scale (ath : A -> A) (squash : bool) (lo hi x : A) : A :=
  if squash then ath (#2 * (x - lo) / (hi - lo) - #1) else x.
End K.

Arguments l_ret {A}. Arguments l_len {A}. Arguments l_rret {A}. Arguments l_rlen {A}. Arguments l_t {A}.
Arguments m_mean {A}. Arguments m_var {A}. Arguments m_count {A}.
