(* M2 (spike): the stop() handshake between the user thread and the supervisor's executor thread.
   One transition per GIL-atomic access.  [fixed = true]: stop() sets _must_reset before looking at the
   pending action;  [fixed = false]: the code as pinned. *)
From Coq Require Import List Arith Bool Lia.
Import ListNotations.

Inductive fstat := Pending | Done | Cancelled.
Inductive task := TStep | TOther | TStopping.
Inductive nstate := RUNNING | STOPPING | STOPPED.
(* supervisor worker: idle, or inside a step task at one of its atomic points, *)
Inductive spc := SIdle | S1 | S3 | S4 | S5 | S7.
(* user inside stop(): U1 = node flipped, Stopping queued; U2 = before len(q_act); U3 = len>0 seen, before q_act[-1];
   U4 = waiting for the Stopping future; UDone; UErr = IndexError *)
Inductive upc := U1 | U2 | U3 | U4 | UDone | UErr.

Record st := { ns : nstate; sq : list task; sp : spc; qact : list fstat; must_reset : bool;
               up : upc; stop_done : bool }.

Definition set_last (x : fstat) (l : list fstat) : list fstat :=
  match rev l with [] => [] | _ :: r => rev (x :: r) end.
Definition last_stat (l : list fstat) : option fstat := match rev l with [] => None | x :: _ => Some x end.

Section Proto.
Variable fixed : bool.

Inductive step : st -> st -> Prop :=
(* ---- supervisor worker ---- *)
| s_pop_step s q : sp s = SIdle -> sq s = TStep :: q ->
    step s {| ns := ns s; sq := q; sp := S1; qact := qact s; must_reset := must_reset s; up := up s; stop_done := stop_done s |}
| s_pop_other s q : sp s = SIdle -> sq s = TOther :: q ->   (* any other queued task; cannot submit once not RUNNING *)
    step s {| ns := ns s; sq := q; sp := SIdle; qact := qact s; must_reset := must_reset s; up := up s; stop_done := stop_done s |}
| s_pop_stopping s q : sp s = SIdle -> sq s = TStopping :: q ->
    step s {| ns := STOPPED; sq := q; sp := SIdle; qact := qact s; must_reset := must_reset s; up := up s; stop_done := true |}
| s_append s : sp s = S1 ->          (* f := Future(); q_act.append(f); obs is published *)
    step s {| ns := ns s; sq := sq s; sp := S3; qact := qact s ++ [Pending]; must_reset := must_reset s; up := up s; stop_done := stop_done s |}
| s_check s : sp s = S3 ->           (* if not self._must_reset: wait else: skipped *)
    step s {| ns := ns s; sq := sq s; sp := if must_reset s then S7 else S4; qact := qact s; must_reset := must_reset s; up := up s; stop_done := stop_done s |}
| s_wait s x : sp s = S4 -> last_stat (qact s) = Some x -> x <> Pending ->     (* f.result() returns / raises CancelledError *)
    step s {| ns := ns s; sq := sq s; sp := S5; qact := qact s; must_reset := must_reset s; up := up s; stop_done := stop_done s |}
| s_popleft s x : sp s = S5 -> last_stat (qact s) = Some x ->                  (* q_act.popleft(); on cancel _must_reset = True *)
    step s {| ns := ns s; sq := sq s; sp := S7; qact := tl (qact s);
              must_reset := (match x with Cancelled => true | _ => must_reset s end); up := up s; stop_done := stop_done s |}
| s_post s : sp s = S7 ->            (* if RUNNING: token + submit (refused otherwise) *)
    step s {| ns := ns s; sq := (if match ns s with RUNNING => true | _ => false end then sq s ++ [TOther] else sq s);
              sp := SIdle; qact := qact s; must_reset := must_reset s; up := up s; stop_done := stop_done s |}
(* ---- user thread inside stop() ---- *)
| u_must_reset s : up s = U1 ->      (* only in the repaired code: self._synchronizer._must_reset = True *)
    step s {| ns := ns s; sq := sq s; sp := sp s; qact := qact s; must_reset := (if fixed then true else must_reset s);
              up := U2; stop_done := stop_done s |}
| u_len s : up s = U2 -> fixed = false ->     (* pinned: if len(q_act) > 0 *)
    step s {| ns := ns s; sq := sq s; sp := sp s; qact := qact s; must_reset := must_reset s;
              up := (match qact s with [] => U4 | _ => U3 end); stop_done := stop_done s |}
| u_safe_cancel s : up s = U2 -> fixed = true ->   (* repaired: try: q_act[-1].cancel() except IndexError: pass *)
    step s {| ns := ns s; sq := sq s; sp := sp s;
              qact := (match last_stat (qact s) with Some Pending => set_last Cancelled (qact s) | _ => qact s end);
              must_reset := must_reset s; up := U4; stop_done := stop_done s |}
| u_cancel s : up s = U3 ->          (* q_act[-1].cancel()  (IndexError if emptied meanwhile) *)
    step s {| ns := ns s; sq := sq s; sp := sp s;
              qact := (match last_stat (qact s) with Some Pending => set_last Cancelled (qact s) | _ => qact s end);
              must_reset := must_reset s; up := (match qact s with [] => UErr | _ => U4 end); stop_done := stop_done s |}
| u_wait s : up s = U4 -> stop_done s = true ->
    step s {| ns := ns s; sq := sq s; sp := sp s; qact := qact s; must_reset := must_reset s; up := UDone; stop_done := stop_done s |}.

Definition enabled (s : st) : Prop := exists s', step s s'.
End Proto.

(* ------------------------------------------------------------------------------------------------ *)
(* The pinned code deadlocks: run() has returned, one step task is still queued, user calls stop(). *)
Definition s_run_returned : st :=
  {| ns := STOPPING; sq := [TStep; TStopping]; sp := SIdle; qact := []; must_reset := false; up := U1; stop_done := false |}.
Definition s_dead : st :=
  {| ns := STOPPING; sq := [TStopping]; sp := S4; qact := [Pending]; must_reset := false; up := U4; stop_done := false |}.

Inductive steps (fixed : bool) : st -> st -> Prop :=
| st_refl s : steps fixed s s
| st_step s s1 s2 : step fixed s s1 -> steps fixed s1 s2 -> steps fixed s s2.

Theorem stop_after_run_refuted : steps false s_run_returned s_dead /\ ~ enabled false s_dead /\ up s_dead <> UDone.
Proof.
  split; [|split].
  - eapply st_step. { apply (u_must_reset false s_run_returned). reflexivity. }
    eapply st_step. { eapply u_len; reflexivity. }
    eapply st_step. { eapply s_pop_step; reflexivity. }
    eapply st_step. { eapply s_append. reflexivity. }
    eapply st_step. { eapply s_check. reflexivity. }
    simpl. apply st_refl.
  - intros [s' H]. inversion H; subst; simpl in *; try discriminate.
    unfold last_stat in *. simpl in *. congruence.
  - simpl. discriminate.
Qed.

(* the pinned code can also raise IndexError: the action was answered by run(), the worker pops it between
   the user's len() and [-1] *)
Definition s_answered : st :=
  {| ns := STOPPING; sq := [TStopping]; sp := S4; qact := [Done]; must_reset := false; up := U1; stop_done := false |}.
Theorem stop_index_error_refuted : exists s, steps false s_answered s /\ up s = UErr.
Proof.
  eexists. split.
  - eapply st_step. { apply (u_must_reset false s_answered). reflexivity. }
    eapply st_step. { eapply u_len; reflexivity. }
    eapply st_step. { eapply (s_wait false) with (x := Done); [reflexivity|reflexivity|discriminate]. }
    eapply st_step. { eapply (s_popleft false) with (x := Done); reflexivity. }
    eapply st_step. { eapply u_cancel. reflexivity. }
    apply st_refl.
  - reflexivity.
Qed.

(* ------------------------------------------------------------------------------------------------ *)
(* The repaired code: no deadlock, no IndexError, and stop() returns after finitely many steps.      *)
Definition is_pending_last (l : list fstat) := last_stat l = Some Pending.

(* what holds when stop() starts (any moment of a running episode), and is preserved *)
Record Inv (s : st) : Prop := {
  i_ns : ns s <> RUNNING;
  i_mr : up s <> U1 -> must_reset s = true;
  i_q345 : (sp s = S3 \/ sp s = S4 \/ sp s = S5) -> qact s <> [];
  i_s4 : sp s = S4 -> (up s = U4 \/ up s = UDone) -> last_stat (qact s) <> Some Pending;
  i_stopq : stop_done s = false -> In TStopping (sq s);
  i_up : up s <> UErr /\ up s <> U3;
  i_done : up s = UDone -> stop_done s = true
}.

Lemma last_stat_app l x : last_stat (l ++ [x]) = Some x.
Proof. unfold last_stat. rewrite rev_app_distr. reflexivity. Qed.
Lemma last_stat_nonempty l : l <> [] -> exists x, last_stat l = Some x.
Proof. unfold last_stat. intros H. destruct (rev l) eqn:E; [|eauto]. exfalso. apply H.
  rewrite <- (rev_involutive l), E. reflexivity. Qed.
Lemma last_set_last x l : l <> [] -> last_stat (set_last x l) = Some x.
Proof.
  unfold last_stat, set_last. intros H. destruct (rev l) eqn:E.
  - exfalso. apply H. rewrite <- (rev_involutive l), E. reflexivity.
  - rewrite rev_involutive. reflexivity.
Qed.
Lemma set_last_nonempty x l : l <> [] -> set_last x l <> [].
Proof.
  unfold set_last. intros H. destruct (rev l) eqn:E.
  - exfalso. apply H. rewrite <- (rev_involutive l), E. reflexivity.
  - simpl. intros C. apply app_eq_nil in C. destruct C; discriminate.
Qed.

Ltac up_ne_U1 := match goal with Hu : up ?s = _ |- up ?s <> U1 => rewrite Hu; discriminate end.

Lemma inv_step s s' : Inv s -> step true s s' -> Inv s'.
Proof.
  intros [Hns Hmr Hq Hs4 Hst [Hu1 Hu2] Hd] H.
  inversion H; subst; constructor; simpl in *; auto; try congruence; try tauto;
  try solve [ intros [C|[C|C]]; discriminate ];
  try solve [ split; discriminate ];
  try solve [ intros Hsd; specialize (Hst Hsd);
              match goal with Hs : sq s = _ :: _ |- _ => rewrite Hs in Hst end;
              destruct Hst as [?|?]; [discriminate|assumption] ];
  try solve [ intros _; apply Hmr; up_ne_U1 ].
  - (* append: S3 *) intros _ C. apply app_eq_nil in C. destruct C; discriminate.
  - (* check: into S4 only when must_reset is false, i.e. before the user's write *)
    intros C1 C2. destruct (must_reset s) eqn:E; [discriminate C1|].
    exfalso. assert (Hne : up s <> U1) by (destruct C2 as [C2|C2]; rewrite C2; discriminate).
    discriminate (Hmr Hne).
  - (* popleft *) intros Hu. destruct x; auto.
  - (* post: nothing is submitted once the node left RUNNING *) destruct (ns s); try contradiction; auto.
  - (* user wrote must_reset; S4 & U2 is not a waiting configuration *) intros _ [C|C]; discriminate.
  - (* safe cancel keeps q_act non-empty *)
    intros C. specialize (Hq C). destruct (last_stat (qact s)) as [[]|]; auto. apply set_last_nonempty; auto.
  - (* safe cancel: a worker waiting at S4 now finds its future cancelled (or already answered) *)
    intros C _. specialize (Hq (or_intror (or_introl C))).
    destruct (last_stat (qact s)) as [[]|] eqn:E; try congruence.
    rewrite last_set_last by auto. discriminate.
Qed.

(* ---- progress: while stop() has not returned, some thread can move ---- *)
Lemma progress s : Inv s -> up s <> UDone -> enabled true s.
Proof.
  intros [Hns Hmr Hq Hs4 Hst [Hu1 Hu2] Hd] Hnd.
  destruct (up s) eqn:Eu; try congruence.
  - eexists. apply u_must_reset. exact Eu.
  - eexists. apply u_safe_cancel; auto.
  - (* U4: waiting for the Stopping future *)
    destruct (stop_done s) eqn:Es; [eexists; apply u_wait; auto|].
    specialize (Hst eq_refl).
    destruct (sp s) eqn:Ep.
    + destruct (sq s) as [|t q] eqn:Eq; [contradiction|].
      destruct t; eexists; [eapply s_pop_step|eapply s_pop_other|eapply s_pop_stopping]; eauto.
    + eexists. apply s_append. exact Ep.
    + eexists. apply s_check. exact Ep.
    + destruct (last_stat_nonempty (qact s)) as [x Hx]; [apply Hq; auto|].
      eexists. eapply s_wait; eauto. intros ->. apply (Hs4 eq_refl); auto.
    + destruct (last_stat_nonempty (qact s)) as [x Hx]; [apply Hq; auto|].
      eexists. eapply s_popleft; eauto.
    + eexists. apply s_post. exact Ep.
Qed.

(* ---- termination: a measure that every transition of the repaired protocol decreases ---- *)
Definition rank_sp (p : spc) : nat := match p with SIdle => 0 | S1 => 5 | S3 => 4 | S4 => 3 | S5 => 2 | S7 => 1 end.
Definition rank_up (u : upc) : nat := match u with U1 => 3 | U2 => 2 | U3 => 2 | U4 => 1 | UDone => 0 | UErr => 0 end.
Definition mu (s : st) : nat := 6 * length (sq s) + rank_sp (sp s) + rank_up (up s).

Lemma mu_decreases s s' : Inv s -> step true s s' -> mu s' < mu s.
Proof.
  intros [Hns Hmr Hq Hs4 Hst [Hu1 Hu2] Hd] H.
  inversion H; subst; try congruence; unfold mu; simpl;
    repeat match goal with Hx : sp s = _ |- _ => rewrite Hx | Hx : sq s = _ |- _ => rewrite Hx | Hx : up s = _ |- _ => rewrite Hx end;
    simpl; try lia.
  - destruct (must_reset s); simpl; lia.
  - destruct (ns s); try contradiction; simpl; lia.
Qed.

(* stop() of the repaired code returns: every execution from a state satisfying Inv is finite (at most mu steps),
   never raises, and can only end with the user out of stop(). *)
Theorem stop_returns s : Inv s ->
  (forall s', steps true s s' -> Inv s' /\ mu s' <= mu s) /\
  (forall s', steps true s s' -> ~ enabled true s' -> up s' = UDone).
Proof.
  intros Hi. assert (G1 : forall s', steps true s s' -> Inv s' /\ mu s' <= mu s).
  { intros s' Hs. induction Hs as [|s s1 s2 H1 _ IH]; [split; [assumption|lia]|].
    destruct (IH (inv_step _ _ Hi H1)) as [I2 M2]. split; [exact I2|]. pose proof (mu_decreases _ _ Hi H1). lia. }
  split; [exact G1|]. intros s' Hs Hne. destruct (G1 s' Hs) as [I' _].
  destruct (up s') eqn:E; auto; exfalso; apply Hne; apply progress; auto; congruence.
Qed.

(* the hypotheses of stop_returns are met by the very state in which the pinned code deadlocks *)
Example inv_run_returned : Inv s_run_returned.
Proof. constructor; simpl; try discriminate; try tauto; auto; try (intros [C|[C|C]]; discriminate); try (split; discriminate).
 Qed.
Print Assumptions stop_returns.
Print Assumptions stop_after_run_refuted.

(* ------------------------------------------------------------------------------------------------ *)
(* The order of shared-variable accesses in AsyncGraph.stop and _Synchronizer._async_step as data: the kernel
   translator regenerates these lists from the source on every run (coq/Generated/Lifecycle.v) and
   coq/Ties/LifecycleTie.v proves that the source follows the repaired protocol (fixed = true).       *)
Inductive stop_op := OpFlip | OpMustReset | OpLenCancel | OpSafeCancel | OpWait | OpToggle.
Inductive sup_op := SupAppend | SupPublish | SupCheck | SupWait | SupPopleft | SupSetMustReset | SupSkipped.

(* which transition system a stop() body corresponds to *)
Definition stop_op_eqb (a b : stop_op) : bool :=
  match a, b with OpFlip, OpFlip | OpMustReset, OpMustReset | OpLenCancel, OpLenCancel | OpSafeCancel, OpSafeCancel
  | OpWait, OpWait | OpToggle, OpToggle => true | _, _ => false end.
Fixpoint ops_eqb (a b : list stop_op) : bool :=
  match a, b with [] , [] => true | x :: a, y :: b => stop_op_eqb x y && ops_eqb a b | _, _ => false end.
Definition protocol_mode (ops : list stop_op) : option bool :=
  if ops_eqb ops [OpFlip; OpMustReset; OpSafeCancel; OpWait; OpToggle] then Some true
  else if ops_eqb ops [OpFlip; OpLenCancel; OpWait; OpToggle] then Some false else None.
Definition sup_protocol : list sup_op := [SupAppend; SupPublish; SupCheck; SupWait; SupPopleft; SupSetMustReset; SupSkipped].

(* ------------------------------------------------------------------------------------------------ *)
(* Episode isolation at a connection: push_input / push_ts_input drop every message whose header episode differs from
   the receiver's current episode; a fresh episode starts from empty channels.                            *)
Section Episode.
Context {M : Type}.
Definition accept (eps_recv : nat) (m : nat * M) : bool := Nat.eqb (fst m) eps_recv.
Definition received (eps_recv : nat) (arrivals : list (nat * M)) : list (nat * M) := filter (accept eps_recv) arrivals.
Theorem stale_dropped eps arrivals m : In m (received eps arrivals) -> fst m = eps.
Proof. unfold received. intros H. apply filter_In in H as [_ H]. apply Nat.eqb_eq. exact H. Qed.
Theorem current_kept_in_order eps arrivals :
  received eps arrivals = filter (fun m => Nat.eqb (fst m) eps) arrivals.
Proof. reflexivity. Qed.
Theorem none_lost eps arrivals m : In m arrivals -> fst m = eps -> In m (received eps arrivals).
Proof. intros H E. apply filter_In. split; [exact H|]. unfold accept. rewrite E. apply Nat.eqb_refl. Qed.
End Episode.
