(* C20 model: rex.ppo.Policy (apply_actor / get_action), PPOResult.policy / obs_scaling / act_scaling, the flax Actor
   (rex.actor_critic.Actor.__call__, gaussian head, state-independent std) and the training-time action path of ppo.train
   (NormalizeVecObservationWrapper / evaluation loop -> ActorCritic -> SquashActionWrapper.step).
   Two independently transliterated forward passes; carrier-generic (Ops.v): R for the laws, Q for execution.
   Proofs live in PolicyLaws.v. *)
From Coq Require Import List Arith Bool ZArith.
From Rex Require Import Ops.
Import ListNotations.

(* keys of params["params"]["actor"]: "Dense_<i>" (flax auto-names of the i-th nn.Dense created in __call__) and "log_std" *)
Inductive key := KDense (i : nat) | KLogStd.
Definition key_is_dense (k : key) : bool := match k with KDense _ => true | KLogStd => false end.   (* "Dense" in k *)
Definition key_eqb (a b : key) : bool :=
  match a, b with KDense i, KDense j => Nat.eqb i j | KLogStd, KLogStd => true | _, _ => false end.

(* Config.HIDDEN_ACTIVATION (a string; NOther = any other string) and the flax functions it may denote *)
Inductive actname := NTanh | NRelu | NGelu | NSoftplus | NOther.
Inductive afn := FTanh | FRelu | FGelu | FSoftplus.
(* Policy.apply_actor: ACTIVATIONS = dict(tanh=nn.tanh, relu=nn.relu, gelu=nn.gelu, softplus=nn.softplus); None = KeyError *)
Definition policy_table (n : actname) : option afn :=
  match n with NTanh => Some FTanh | NRelu => Some FRelu | NGelu => Some FGelu | NSoftplus => Some FSoftplus | NOther => None end.
(* Actor.__call__: if relu / elif tanh / elif gelu / elif softplus / else raise ValueError *)
Definition actor_table (n : actname) : option afn :=
  match n with NRelu => Some FRelu | NTanh => Some FTanh | NGelu => Some FGelu | NSoftplus => Some FSoftplus | NOther => None end.

Section Model.
Context {A : Type} (O : ops A).
Variable sigma : afn -> A -> A.          (* the scalar activation functions (flax), applied element-wise *)
Variables ftanh fsqrt fexp : A -> A.     (* jnp.tanh, jnp.sqrt, jnp.exp *)
Variable Rng : Type.
Variable normal : Rng -> nat -> list A.  (* jax.random.normal(key, shape=(n,)) as drawn by distrax' sample *)

Record layer := { kernel : list (list A) (* [in][out] *); bias : list A }.
Inductive entry := ELayer (l : layer) | EVec (v : list A).
Definition params := list (key * entry).           (* a dict, in its iteration order *)

Fixpoint lookup (k : key) (p : params) : option entry :=
  match p with [] => None | (k', e) :: p => if key_eqb k k' then Some e else lookup k p end.
Definition get_layer (p : params) (i : nat) : option layer :=
  match lookup (KDense i) p with Some (ELayer l) => Some l | _ => None end.
Definition get_logstd (p : params) : option (list A) :=
  match lookup KLogStd p with Some (EVec v) => Some v | _ => None end.

(* nn.Dense(n).apply({"params": hl}, x) = x @ kernel + bias *)
Definition vadd (a b : list A) : list A := map (fun xy => oadd O (fst xy) (snd xy)) (combine a b).
Definition vmul (a b : list A) : list A := map (fun xy => omul O (fst xy) (snd xy)) (combine a b).
Definition vscale (c : A) (v : list A) : list A := map (omul O c) v.
Definition matvec (x : list A) (K : list (list A)) (out : nat) : list A :=
  fold_left (fun acc xr => vadd acc (vscale (fst xr) (snd xr))) (combine x K) (repeat (oz O 0) out).
Definition dense (l : layer) (x : list A) : list A := vadd (matvec x (kernel l) (length (bias l))) (bias l).

(* ---------------- Policy.apply_actor ---------------- *)
(* num_layers = sum(["Dense" in k in k for k in actor_params.keys()]) *)
Definition num_layers (p : params) : nat := length (filter (fun ke => key_is_dense (fst ke)) p).
(* for i in range(num_layers - 1): x = ACTIVATIONS[self.hidden_activation](Dense_i x) *)
Fixpoint policy_hidden (p : params) (n : actname) (idx : list nat) (x : list A) : option (list A) :=
  match idx with
  | [] => Some x
  | i :: idx => match get_layer p i, policy_table n with
                | Some l, Some f => policy_hidden p n idx (map (sigma f) (dense l x))
                | _, _ => None end
  end.
(* x_mean = Dense_{num_layers-1} x *)
Definition policy_mean (p : params) (n : actname) (x : list A) : option (list A) :=
  match policy_hidden p n (seq 0 (num_layers p - 1)) x with
  | Some h => option_map (fun l => dense l h) (get_layer p (num_layers p - 1))
  | None => None end.

(* distrax.MultivariateNormalDiag(loc, scale_diag) *)
Record gauss := { loc : list A; scale : list A }.
Definition sample (g : gauss) (k : Rng) : list A := vadd (loc g) (vmul (scale g) (normal k (length (loc g)))).
Definition policy_dist (p : params) (n : actname) (x : list A) : option gauss :=
  match policy_mean p n x, get_logstd p with
  | Some m, Some ls => Some {| loc := m; scale := map fexp ls |} | _, _ => None end.
Definition policy_apply_actor (p : params) (n : actname) (x : list A) (rng : option Rng) : option (list A) :=
  match rng with None => policy_mean p n x | Some k => option_map (fun g => sample g k) (policy_dist p n x) end.

(* ---------------- flax Actor.__call__ (num_hidden_layers from the config; i-th Dense is named Dense_i) ---------------- *)
Fixpoint actor_hidden (p : params) (n : actname) (i cnt : nat) (x : list A) : option (list A) :=
  match cnt with
  | 0%nat => Some x
  | S cnt => match get_layer p i, actor_table n with
             | Some l, Some f => actor_hidden p n (S i) cnt (map (sigma f) (dense l x))
             | _, _ => None end
  end.
Definition actor_mean (hidden : nat) (p : params) (n : actname) (x : list A) : option (list A) :=
  match actor_hidden p n 0 hidden x with
  | Some h => option_map (fun l => dense l h) (get_layer p hidden)
  | None => None end.
Definition actor_dist (hidden : nat) (p : params) (n : actname) (x : list A) : option gauss :=
  match actor_mean hidden p n x, get_logstd p with
  | Some m, Some ls => Some {| loc := m; scale := map fexp ls |} | _, _ => None end.

(* ---------------- NormalizeVec.normalize, SquashState.unsquash ---------------- *)
Record normstate := { n_mean : list A; n_var : list A; n_clip : A }.
Definition eps8 : A := odiv O (oz O 1) (oz O 100000000).
Definition normalize1 (clip submean : bool) (c m v x : A) : A :=
  let x1 := if submean then osub O x m else x in
  let x2 := odiv O x1 (fsqrt (oadd O v eps8)) in
  if clip then omin O (omax O x2 (oopp O c)) c else x2.
Definition normalize (ns : normstate) (clip submean : bool) (x : list A) : list A :=
  map (fun t => normalize1 clip submean (n_clip ns) (fst (snd t)) (snd (snd t)) (fst t))
      (combine x (combine (n_mean ns) (n_var ns))).

Record squashstate := { s_low : list A; s_high : list A; s_squash : bool }.
Definition unsquash1 (sq : bool) (lo hi x : A) : A :=
  if sq then oadd O (omul O (omul O (odiv O (oz O 1) (oz O 2)) (oadd O (ftanh x) (oz O 1))) (osub O hi lo)) lo
  else omin O (omax O x lo) hi.
Definition unsquash (s : squashstate) (x : list A) : list A :=
  map (fun t => unsquash1 (s_squash s) (fst (snd t)) (snd (snd t)) (fst t)) (combine x (combine (s_low s) (s_high s))).

(* ---------------- PPOResult and the exported Policy ---------------- *)
(* env_state.aux["act_scaling"]: SquashState whose low/high carry a leading NUM_ENVS axis (one row per parallel env) *)
Record vsquash := { v_low : list (list A); v_high : list (list A); v_squash : bool }.
Definition vrow (e : nat) (v : vsquash) : squashstate :=
  {| s_low := nth e (v_low v) []; s_high := nth e (v_high v) []; s_squash := v_squash v |}.
Record result := {
  r_hidden : nat;                          (* config.NUM_HIDDEN_LAYERS *)
  r_actname : actname;                     (* config.HIDDEN_ACTIVATION *)
  r_params : params;                       (* runner_state.train_state.params["params"]["actor"] *)
  r_norm_obs : option normstate;           (* env_state.aux.get("norm_obs") -- present iff NORMALIZE_ENV *)
  r_act_scaling : option vsquash }.        (* env_state.aux.get("act_scaling") *)
Record policy := {
  p_act_scaling : option squashstate; p_obs_scaling : option normstate; p_model : params; p_hidden_activation : actname }.
(* PPOResult.policy with PPOResult.act_scaling = tree_map(lambda x: x[..., 0, :], ...) and PPOResult.obs_scaling *)
Definition act_row : nat := 0.
Definition export (r : result) : policy :=
  {| p_act_scaling := option_map (vrow act_row) (r_act_scaling r); p_obs_scaling := r_norm_obs r;
     p_model := r_params r; p_hidden_activation := r_actname r |}.

(* Policy.get_action *)
Definition get_action (P : policy) (obs : list A) (rng : option Rng) : option (list A) :=
  let no := match p_obs_scaling P with Some ns => normalize ns true true obs | None => obs end in
  match policy_apply_actor (p_model P) (p_hidden_activation P) no rng with
  | Some a => Some (match p_act_scaling P with Some s => unsquash s a | None => a end)
  | None => None end.

(* what ppo.train hands to parallel environment e for the raw observation obs: the observation wrapper / evaluation loop
   normalises (clip=True, subtract_mean=True), the network gives pi, the action is pi.mean() (evaluation) or
   pi.sample(seed) (collection), and SquashActionWrapper.step applies aux["act_scaling"].unsquash under vmap (row e) *)
Definition train_action (r : result) (e : nat) (obs : list A) (rng : option Rng) : option (list A) :=
  let no := match r_norm_obs r with Some ns => normalize ns true true obs | None => obs end in
  let a := match rng with
           | None => actor_mean (r_hidden r) (r_params r) (r_actname r) no
           | Some k => option_map (fun g => sample g k) (actor_dist (r_hidden r) (r_params r) (r_actname r) no) end in
  match a with
  | Some a => Some (match r_act_scaling r with Some v => unsquash (vrow e v) a | None => a end)
  | None => None end.

(* well-formed actor parameters for `hidden` hidden layers: the Dense keys are exactly Dense_0 .. Dense_hidden, once each
   (what ActorCritic.init creates); any dict order, log_std anywhere *)
Definition dense_indices (p : params) : list nat :=
  flat_map (fun ke => match fst ke with KDense i => [i] | KLogStd => [] end) p.
Definition wf_params (p : params) (hidden : nat) : Prop :=
  NoDup (dense_indices p) /\ forall i, In i (dense_indices p) <-> i <= hidden.
(* all parallel environments share one action space (they are vmapped copies of one env) *)
Definition uniform_rows (v : vsquash) : Prop :=
  (forall e, e < length (v_low v) -> nth e (v_low v) [] = nth 0 (v_low v) []) /\
  (forall e, e < length (v_high v) -> nth e (v_high v) [] = nth 0 (v_high v) []).
End Model.

Arguments ELayer {A}. Arguments EVec {A}.
