(* C03/C04: connection-side laws (arrival, FIFO, zip), via the Kahn principle *)
From Coq Require Import List Arith ZArith Bool Lia.
From Coq Require Import ZifyNat ZifyBool.
From Rex Require Import KahnL AsyncModel2 AsyncStable ConflInv RexDet AsyncLaws.
Import ListNotations.
Ltac Zify.zify_post_hook ::= Z.div_mod_to_equations.

Section Laws2.
Variable G : cfg.
Notation NCH := (NCH G). Notation NACT := (NACT G). Notation NN := (NN G). Notation NCn := (NCn G).
Notation reader := (reader G). Notation writer := (writer G).

Lemma fire_is_conn k c l u r : (c < NCn)%nat -> (k < 7)%nat -> fire G (cact G k c) l u = Some r ->
  match k with
  | 0%nat => fire_ts_in G c l u | 1%nat => fire_msg_in G c l u | 2%nat => fire_zip G c l u
  | 3%nat => fire_exp_b G c l u | 4%nat => fire_ts_max G c l u | 5%nat => fire_exp_nb G c l u
  | _ => fire_select G c l u end = Some r.
Proof.
  intros Hc Hk. unfold fire, cact.
  destruct (Nat.leb_spec NACT (3 * NN + 7 * c + k)); [discriminate|].
  destruct (Nat.ltb_spec (3 * NN + 7 * c + k) (3 * NN)); [lia|].
  replace (3 * NN + 7 * c + k - 3 * NN)%nat with (7 * c + k)%nat by lia.
  replace ((7 * c + k) mod 7)%nat with k by lia. replace ((7 * c + k) / 7)%nat with c by lia.
  destruct k as [|[|[|[|[|[|[|k]]]]]]]; auto; lia.
Qed.

Lemma init_loc_conn k c : (c < NCn)%nat -> (k < 7)%nat -> nth (cact G k c) (loc _ _ (init G)) l0 = l0.
Proof.
  intros Hc Hk. rewrite init_loc by (unfold cact, AsyncModel2.NACT; lia).
  unfold cact. destruct (Nat.ltb_spec (3 * NN + 7 * c + k) (3 * NN)); [lia|]. reflexivity.
Qed.
Lemma init_hist_conn k c : (c < NCn)%nat -> (k < 11)%nat -> nth (cch G k c) (hist _ _ (init G)) [] = [].
Proof.
  intros Hc Hk. rewrite init_hist by (apply cch_lt; assumption).
  unfold cch. destruct (Nat.ltb_spec (4 * NN + 11 * c + k) (4 * NN)); [lia|]. reflexivity.
Qed.

(* ---- ts_in: arrival times with FIFO enforcement ---- *)
(* receive time of the j-th message on c, given the stream of announced send times *)
Fixpoint recv_at (h : nat -> list tok) c j : Z :=
  match nth_error (h (TsOut G c)) j with
  | Some (TTsOut _ out) =>
      let d := stream (c_delays (conn G c)) j in
      Z.max (out + d) (match j with O => 0 | S j' => recv_at h c j' end)
  | _ => 0 end.
Definition prev_recv (h : nat -> list tok) c j : Z := match j with O => 0 | S j' => recv_at h c j' end.

Definition tsin_of (h : nat -> list tok) c j : option tok :=
  match nth_error (h (TsOut G c)) j with Some (TTsOut k _) => Some (TTsIn k (recv_at h c j)) | _ => None end.
Definition zipd_of (h : nat -> list tok) c j : option tok :=
  match nth_error (h (TsOut G c)) j with Some (TTsOut k out) => Some (TDelay (recv_at h c j - out)) | _ => None end.

Lemma recv_at_unfold h c j : recv_at h c j =
  match nth_error (h (TsOut G c)) j with
  | Some (TTsOut _ out) => Z.max (out + stream (c_delays (conn G c)) j) (prev_recv h c j)
  | _ => 0 end.
Proof. destruct j; reflexivity. Qed.

Lemma solo_ts_in c h m l cu out : (c < NCn)%nat ->
  rsolo G (cact G 0 c) l0 h m l cu out ->
  l_j l = m /\ l_prev l = prev_recv h c m /\ cu (TsOut G c) = m /\
  length (out (TsIn G c)) = m /\ length (out (ZipD G c)) = m /\
  (forall j, (j < m)%nat -> nth_error (out (TsIn G c)) j = tsin_of h c j) /\
  (forall j, (j < m)%nat -> nth_error (out (ZipD G c)) j = zipd_of h c j).
Proof.
  intros Hc H. induction H as [|m l cu out r H IH Hf].
  - repeat split; intros; try reflexivity; lia.
  - destruct IH as (IJ & IP & IC & IL1 & IL2 & IS1 & IS2).
    apply (fire_is_conn 0) in Hf; [|exact Hc|lia]. unfold fire_ts_in in Hf.
    unfold view in Hf. rewrite IC, hd_skipn_nth in Hf.
    destruct (nth_error (h (TsOut G c)) m) as [t|] eqn:E; [|discriminate]. destruct t; try discriminate.
    injection Hf as <-. cbn [KahnL.l' KahnL.cons KahnL.prod l_j l_prev upd_l].
    assert (HR : Z.max (out0 + stream (c_delays (conn G c)) (l_j l)) (l_prev l) = recv_at h c m).
    { rewrite recv_at_unfold, E, IJ, IP. reflexivity. }
    rewrite HR.
    assert (Hne : ZipD G c <> TsIn G c) by (unfold ZipD, TsIn, cch; lia).
    split; [lia|]. split; [reflexivity|]. split; [rewrite put_eq; lia|].
    split; [rewrite put_ne by auto; rewrite put_eq, app_length; simpl; lia|].
    split; [rewrite put_eq, app_length; simpl; lia|]. split.
    + intros j Hj. rewrite put_ne by auto. rewrite put_eq.
      destruct (Nat.eq_dec j m) as [->|Hn].
      * rewrite nth_error_app2 by lia. rewrite IL1, Nat.sub_diag. unfold tsin_of. rewrite E. reflexivity.
      * rewrite nth_error_app1 by lia. apply IS1. lia.
    + intros j Hj. rewrite put_eq.
      destruct (Nat.eq_dec j m) as [->|Hn].
      * rewrite nth_error_app2 by lia. rewrite IL2, Nat.sub_diag. unfold zipd_of. rewrite E. reflexivity.
      * rewrite nth_error_app1 by lia. apply IS2. lia.
Qed.

(* FIFO: receive times never decrease; with non-negative delays a message is never received before it is sent *)
Lemma recv_monotone h c j : (prev_recv h c j <= recv_at h c j)%Z \/ nth_error (h (TsOut G c)) j = None \/
  (exists t, nth_error (h (TsOut G c)) j = Some t /\ forall k o, t <> TTsOut k o).
Proof.
  rewrite recv_at_unfold. destruct (nth_error (h (TsOut G c)) j) as [t|]; [|auto].
  destruct t; try (right; right; eexists; split; [reflexivity|congruence]). left. lia.
Qed.
Lemma recv_ge_sent h c j k out : nth_error (h (TsOut G c)) j = Some (TTsOut k out) ->
  (0 <= stream (c_delays (conn G c)) j)%Z -> (out <= recv_at h c j)%Z.
Proof. intros E Hd. rewrite recv_at_unfold, E. lia. Qed.

Theorem tsin_law s c j : reach G s -> (c < NCn)%nat ->
  (j < length (nth (TsIn G c) (hist _ _ s) []))%nat ->
  nth_error (nth (TsIn G c) (hist _ _ s) []) j = tsin_of (hfun tok local s) c j.
Proof.
  intros Hr Hc Hj.
  destruct (reach_proj G s (cact G 0 c) Hr) as (m & cu & out & Hsolo & _ & Hout).
  rewrite init_loc_conn in Hsolo by (auto; lia).
  destruct (solo_ts_in c _ m _ _ _ Hc Hsolo) as (_ & _ & _ & L1 & _ & S1 & _).
  assert (Hq : (TsIn G c < NCH)%nat) by (apply cch_lt; auto; lia).
  rewrite (Hout _ Hq (writer_TsIn G c)) in *. unfold TsIn in Hj at 1. unfold TsIn at 1.
  rewrite init_hist_conn in * by (auto; lia). simpl app in *. apply S1. fold (TsIn G c) in Hj. lia.
Qed.

(* ---- msg_in and zip ---- *)
Lemma solo_msg_in c h m l cu out : (c < NCn)%nat ->
  rsolo G (cact G 1 c) l0 h m l cu out ->
  cu (MsgOut G c) = m /\ length (out (ZipM G c)) = m /\
  (forall j, (j < m)%nat -> exists k s p, nth_error (h (MsgOut G c)) j = Some (TMsgOut k s p) /\
                                       nth_error (out (ZipM G c)) j = Some (TMsgOut k s p)).
Proof.
  intros Hc H. induction H as [|m l cu out r H IH Hf].
  - repeat split; intros; try reflexivity; lia.
  - destruct IH as (IC & IL & IS).
    apply (fire_is_conn 1) in Hf; [|exact Hc|lia]. unfold fire_msg_in in Hf.
    unfold view in Hf. rewrite IC, hd_skipn_nth in Hf.
    destruct (nth_error (h (MsgOut G c)) m) as [t|] eqn:E; [|discriminate]. destruct t; try discriminate.
    injection Hf as <-. cbn [KahnL.l' KahnL.cons KahnL.prod].
    repeat split.
    + rewrite put_eq. lia.
    + rewrite put_eq, app_length. simpl. lia.
    + intros j Hj. rewrite put_eq. destruct (Nat.eq_dec j m) as [->|Hn].
      * exists k, sent, pay. split; [exact E|]. rewrite nth_error_app2 by lia. now rewrite IL, Nat.sub_diag.
      * destruct (IS j) as (k' & s' & p' & H1 & H2); [lia|]. exists k', s', p'. split; [exact H1|].
        rewrite nth_error_app1 by lia. exact H2.
Qed.

Definition msg_of (h : nat -> list tok) c j : option tok :=
  match nth_error (h (ZipD G c)) j, nth_error (h (ZipM G c)) j with
  | Some (TDelay dl), Some (TMsgOut k sent pay) => Some (TMsg k sent (sent + dl) pay)
  | _, _ => None end.

Lemma solo_zip c h m l cu out : (c < NCn)%nat ->
  rsolo G (cact G 2 c) l0 h m l cu out ->
  cu (ZipD G c) = m /\ cu (ZipM G c) = m /\ length (out (Msgs G c)) = m /\
  (forall j, (j < m)%nat -> nth_error (out (Msgs G c)) j = msg_of h c j).
Proof.
  intros Hc H. induction H as [|m l cu out r H IH Hf].
  - repeat split; intros; try reflexivity; lia.
  - destruct IH as (IC1 & IC2 & IL & IS).
    apply (fire_is_conn 2) in Hf; [|exact Hc|lia]. unfold fire_zip in Hf.
    unfold view in Hf. rewrite IC1, IC2, !hd_skipn_nth in Hf.
    destruct (nth_error (h (ZipD G c)) m) as [t|] eqn:E1; [|discriminate]. destruct t; try discriminate.
    destruct (nth_error (h (ZipM G c)) m) as [t|] eqn:E2; [|discriminate]. destruct t; try discriminate.
    injection Hf as <-. cbn [KahnL.l' KahnL.cons KahnL.prod].
    assert (Hne : ZipD G c <> ZipM G c) by (unfold ZipD, ZipM, cch; lia).
    repeat split.
    + rewrite put_eq. lia.
    + rewrite put_ne by auto. rewrite put_eq. lia.
    + rewrite put_eq, app_length. simpl. lia.
    + intros j Hj. rewrite put_eq. destruct (Nat.eq_dec j m) as [->|Hn].
      * rewrite nth_error_app2 by lia. rewrite IL, Nat.sub_diag. unfold msg_of. rewrite E1, E2. reflexivity.
      * rewrite nth_error_app1 by lia. apply IS. lia.
Qed.
End Laws2.
Print Assumptions tsin_law.
Print Assumptions solo_zip.
