(* C19: AutoResetWrapper and Environment.step over an abstract wrapped environment; C20: the exported policy's forward pass *)
From Coq Require Import List Arith ZArith Bool Lia.
Import ListNotations.

Section AutoReset.
Variables (GS Obs Info Act Rwd Aux Rng : Type).
(* the wrapped environment *)
Variable env_step : GS -> Act -> GS * Obs * Rwd * bool * bool * Info.
(* graph-state surgery used by the wrapper *)
Variables (get_rng : GS -> Rng) (set_rng : GS -> Rng -> GS) (get_aux : GS -> Aux) (set_aux : GS -> Aux -> GS).
(* the stored initial state, as kept in aux["init"] *)
Variable init_of : GS -> GS * Obs * Info.

(* AutoResetWrapper.step with fixed_init=True *)
Definition auto_step (gs : GS) (a : Act) : GS * Obs * Rwd * bool * bool * Info :=
  let '(gs1, obs, r, term, trunc, info) := env_step gs a in
  let done := orb term trunc in
  let '(igs, iobs, iinfo) := init_of gs1 in
  let igs' := set_aux (set_rng igs (get_rng gs1)) (get_aux gs1) in
  if done then (igs', iobs, r, term, trunc, iinfo) else (gs1, obs, r, term, trunc, info).

Theorem autoreset_flags_passthrough gs a :
  let '(_, _, r, te, tr, _) := auto_step gs a in let '(_, _, r0, te0, tr0, _) := env_step gs a in
  r = r0 /\ te = te0 /\ tr = tr0.
Proof.
  unfold auto_step. destruct (env_step gs a) as [[[[[gs1 obs] r] te] tr] info].
  destruct (init_of gs1) as [[igs iobs] iinfo]. destruct (te || tr); auto.
Qed.
Theorem autoreset_not_done gs a gs1 obs r info : env_step gs a = (gs1, obs, r, false, false, info) ->
  auto_step gs a = (gs1, obs, r, false, false, info).
Proof. intros H. unfold auto_step. rewrite H. destruct (init_of gs1) as [[? ?] ?]. reflexivity. Qed.
Theorem autoreset_done gs a gs1 obs r te tr info igs iobs iinfo : env_step gs a = (gs1, obs, r, te, tr, info) ->
  te || tr = true -> init_of gs1 = (igs, iobs, iinfo) ->
  auto_step gs a = (set_aux (set_rng igs (get_rng gs1)) (get_aux gs1), iobs, r, te, tr, iinfo).
Proof. intros H Hd Hi. unfold auto_step. rewrite H, Hi, Hd. reflexivity. Qed.
End AutoReset.

(* ---- C20: Policy.apply_actor re-implements the flax Actor: dense layers in index order, activation between them ---- *)
Section Mlp.
Variable V : Type.                         (* vectors *)
Variable dense : nat -> V -> V.            (* layer i: x |-> W_i^T x + b_i with the trained parameters "Dense_i" *)
Variable act : V -> V.                     (* hidden activation *)

(* Actor.__call__: num_hidden_layers times (Dense; activation), then the output Dense (mean of the Gaussian) *)
Fixpoint actor_hidden (i n : nat) (x : V) : V := match n with O => x | S n => actor_hidden (S i) n (act (dense i x)) end.
Definition actor_mean (hidden : nat) (x : V) : V := dense hidden (actor_hidden 0 hidden x).

(* Policy.apply_actor: for i in range(num_layers - 1): x = act(Dense_i x); then Dense_{num_layers-1} *)
Definition policy_loop (num_layers : nat) (x : V) : V :=
  fold_left (fun y i => act (dense i y)) (seq 0 (num_layers - 1)) x.
Definition policy_mean (num_layers : nat) (x : V) : V := dense (num_layers - 1) (policy_loop num_layers x).

Lemma actor_hidden_fold n : forall i x, actor_hidden i n x = fold_left (fun y j => act (dense j y)) (seq i n) x.
Proof. induction n as [|n IH]; intros i x; simpl; [reflexivity|apply IH]. Qed.

(* for every depth: the exported policy computes the actor's mean (num_layers = hidden + 1 Dense entries in the params) *)
Theorem policy_mean_eq_actor_mean hidden x : policy_mean (S hidden) x = actor_mean hidden x.
Proof. unfold policy_mean, policy_loop, actor_mean. simpl. rewrite Nat.sub_0_r, actor_hidden_fold. reflexivity. Qed.

(* get_action: same normalisation before, same squash/clip after *)
Variables (normalize unsquash : V -> V).
Definition policy_action (hidden : nat) (obs : V) : V := unsquash (policy_mean (S hidden) (normalize obs)).
Definition actor_action (hidden : nat) (obs : V) : V := unsquash (actor_mean hidden (normalize obs)).
Theorem get_action_eq hidden obs : policy_action hidden obs = actor_action hidden obs.
Proof. unfold policy_action, actor_action. now rewrite policy_mean_eq_actor_mean. Qed.
End Mlp.
Print Assumptions autoreset_done.
Print Assumptions get_action_eq.
