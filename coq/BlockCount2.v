(* C03: the remaining cases of the blocking counting loop: skipped connections and the first receiver step (N = 0) *)
From Coq Require Import List Arith ZArith Bool Lia.
From Rex Require Import KahnL AsyncModel2 BlockCount.
Import ListNotations.
Open Scope Z_scope.

Section Cases2.
Variables (P phm t_low t_high : Z).
Hypothesis HP : 0 < P.
Hypothesis Hlh : t_low <= t_high.

Lemma tick_lt_iff' j t : tick P phm j < t <-> j <= (t - 1 - phm) / P.
Proof. apply tick_lt_iff. exact HP. Qed.

(* skip, N > 0: sender ticks scheduled in [t_low, t_high) *)
Lemma flag_sk j : flag P phm t_low t_high false true j =
  if (Z.max 0 ((t_low - 1 - phm) / P + 1) <=? j) && (j <=? (t_high - 1 - phm) / P) then 1%nat else 0%nat.
Proof.
  pose proof (tick_lt_iff' j t_low) as A. pose proof (tick_lt_iff' j t_high) as B. pose proof (tick_ge_phm P phm HP j) as C.
  unfold flag; cbv zeta. simpl andb. simpl orb.
  destruct (Z.ltb_spec (tick P phm j) phm); destruct (Z.leb_spec t_low (tick P phm j)); destruct (Z.ltb_spec (tick P phm j) t_high);
  destruct (Z.leb_spec (Z.max 0 ((t_low - 1 - phm) / P + 1)) j); destruct (Z.leb_spec j ((t_high - 1 - phm) / P)); simpl; try reflexivity; exfalso; lia.
Qed.

Theorem blocking_count_skip fuel : let i0 := (t_low - phm) / P in let jm := (t_high - phm) / P in
  jm + 1 - i0 < Z.of_nat fuel ->
  Z.of_nat (cnt_loop fuel i0 P phm t_low t_high false true 0) = cum_lt P phm t_high - cum_lt P phm t_low.
Proof.
  intros i0 jm Hf.
  assert (Hi : i0 <= jm) by (apply Z.div_le_mono; lia).
  rewrite (cnt_loop_flags P phm t_low t_high false true HP fuel i0 0%nat) by (fold jm; unfold jmax; lia).
  rewrite (flags_interval P phm t_low t_high false true (Z.max 0 ((t_low - 1 - phm) / P + 1)) ((t_high - 1 - phm) / P)) by (intros; apply flag_sk).
  unfold cum_lt, jmax. fold i0 jm.
  assert (A1 : (t_low - 1 - phm) / P <= i0) by (apply Z.div_le_mono; lia).
  assert (A2 : (t_high - 1 - phm) / P <= jm) by (apply Z.div_le_mono; lia).
  assert (A3 : (t_low - 1 - phm) / P <= (t_high - 1 - phm) / P) by (apply Z.div_le_mono; lia).
  assert (A4 : i0 - 1 <= (t_low - 1 - phm) / P).
  { unfold i0. replace (t_low - 1 - phm) with ((t_low - phm) - 1) by lia.
    pose proof (Z.div_mod (t_low - phm) P ltac:(lia)). pose proof (Z.mod_pos_bound (t_low - phm) P HP).
    apply Z.div_le_lower_bound; [exact HP|]. nia. }
  lia.
Qed.

(* N = 0: the first receiver step takes every sender tick scheduled up to its own scheduled time (non-skip: <=, skip: <);
   the loop starts at tick 0 *)
Lemma flag_ns0 j : flag P phm t_low t_high true false j = if (0 <=? j) && (j <=? (t_high - phm) / P) then 1%nat else 0%nat.
Proof.
  pose proof (tick_le_iff P phm HP j t_low) as A. pose proof (tick_le_iff P phm HP j t_high) as B. pose proof (tick_ge_phm P phm HP j) as C.
  unfold flag; cbv zeta. simpl andb. simpl orb.
  destruct (Z.ltb_spec (tick P phm j) phm); destruct (Z.leb_spec (tick P phm j) t_low); destruct (Z.ltb_spec t_low (tick P phm j));
  destruct (Z.leb_spec (tick P phm j) t_high); destruct (Z.leb_spec 0 j); destruct (Z.leb_spec j ((t_high - phm) / P)); simpl; try reflexivity; exfalso; lia.
Qed.
Lemma flag_sk0 j : flag P phm t_low t_high true true j = if (0 <=? j) && (j <=? (t_high - 1 - phm) / P) then 1%nat else 0%nat.
Proof.
  pose proof (tick_lt_iff' j t_low) as A. pose proof (tick_lt_iff' j t_high) as B. pose proof (tick_ge_phm P phm HP j) as C.
  unfold flag; cbv zeta. simpl andb. simpl orb.
  destruct (Z.ltb_spec (tick P phm j) phm); destruct (Z.ltb_spec (tick P phm j) t_low); destruct (Z.leb_spec t_low (tick P phm j));
  destruct (Z.ltb_spec (tick P phm j) t_high); destruct (Z.leb_spec 0 j); destruct (Z.leb_spec j ((t_high - 1 - phm) / P)); simpl; try reflexivity; exfalso; lia.
Qed.

Theorem blocking_count_first_nonskip fuel : let jm := (t_high - phm) / P in
  -1 <= jm -> jm + 1 < Z.of_nat fuel ->
  Z.of_nat (cnt_loop fuel 0 P phm t_low t_high true false 0) = cum_le P phm t_high.
Proof.
  intros jm Hj Hf.
  rewrite (cnt_loop_flags P phm t_low t_high true false HP fuel 0 0%nat) by (fold jm; unfold jmax; lia).
  rewrite (flags_interval P phm t_low t_high true false 0 jm) by (intros; apply flag_ns0).
  unfold cum_le, jmax. fold jm. lia.
Qed.
Theorem blocking_count_first_skip fuel : let jm := (t_high - phm) / P in
  -1 <= jm -> jm + 1 < Z.of_nat fuel ->
  Z.of_nat (cnt_loop fuel 0 P phm t_low t_high true true 0) = cum_lt P phm t_high.
Proof.
  intros jm Hj Hf.
  rewrite (cnt_loop_flags P phm t_low t_high true true HP fuel 0 0%nat) by (fold jm; unfold jmax; lia).
  rewrite (flags_interval P phm t_low t_high true true 0 ((t_high - 1 - phm) / P)) by (intros; apply flag_sk0).
  unfold cum_lt, jmax. fold jm.
  assert (A2 : (t_high - 1 - phm) / P <= jm) by (apply Z.div_le_mono; lia). lia.
Qed.
End Cases2.
Print Assumptions blocking_count_skip.
Print Assumptions blocking_count_first_skip.

(* ---- the count the model's (and the code's) blocking expectation actually computes, in closed form, for every receiver step ---- *)
From Rex Require Import AsyncStable ConflInv RexDet AsyncLaws AsyncLaws2 AsyncLaws6.
Section Model.
Variable G : cfg.
Theorem blk_cnt_closed_form c (N : nat) :
  let nn := node G (c_in (conn G c)) in let nm := node G (c_out (conn G c)) in
  0 < n_period nn -> 0 < n_period nm ->
  let sched k := n_period nn * k + n_phase nn in
  let P := n_period nm in let phm := n_phase nm in
  Z.of_nat (blk_cnt G c N) =
    if Nat.eqb N 0 then (if c_skip (conn G c) then cum_lt P phm (sched 0) else cum_le P phm (sched 0))
    else if c_skip (conn G c) then cum_lt P phm (sched (Z.of_nat N)) - cum_lt P phm (sched (Z.of_nat N - 1))
    else cum_le P phm (sched (Z.of_nat N)) - cum_le P phm (sched (Z.of_nat N - 1)).
Proof.
  intros nn nm Hn Hm sched P phm. unfold blk_cnt. fold nn nm.
  destruct N as [|N'].
  - (* first receiver step: the loop starts at sender tick 0 *)
    change (Nat.eqb 0 0) with true. cbv iota. change (Z.of_nat 0) with 0. change (0 <? 0) with false. cbv iota.
    unfold sched. set (t_high := n_period nn * 0 + n_phase nn). set (t_low := n_period nn * (0 - 1) + n_phase nn).
    assert (Hlh : t_low <= t_high) by (unfold t_low, t_high; nia).
    set (jm := (t_high - phm) / P).
    replace ((t_high - (0 * n_period nm + n_phase nm)) / n_period nm) with jm by (unfold jm, P, phm; f_equal; lia).
    destruct (Z_lt_le_dec jm (-1)) as [Hneg|Hok].
    + (* no sender tick is scheduled early enough: the loop stops at once *)
      assert (Hgt : t_high < 0 * P + phm).
      { unfold jm in Hneg. assert (H1 := Z.mul_div_le (t_high - phm) P Hm). pose proof (Z.mod_pos_bound (t_high - phm) P Hm).
        pose proof (Z.div_mod (t_high - phm) P ltac:(lia)). nia. }
      assert (E : forall fuel, cnt_loop fuel 0 P phm t_low t_high true (c_skip (conn G c)) 0 = 0%nat).
      { intros [|fuel]; [reflexivity|]. simpl cnt_loop. destruct (Z.ltb_spec t_high phm) as [|Hc]; [reflexivity|lia]. }
      fold P phm. rewrite E. unfold cum_lt, cum_le. fold jm.
      assert ((t_high - 1 - phm) / P <= jm) by (apply Z.div_le_mono; lia).
      destruct (c_skip (conn G c)); lia.
    + fold P phm. destruct (c_skip (conn G c)).
      * apply blocking_count_first_skip; try assumption; fold jm; lia.
      * apply blocking_count_first_nonskip; try assumption; fold jm; lia.
  - change (Nat.eqb (S N') 0) with false. cbv iota.
    set (t_high := n_period nn * Z.of_nat (S N') + n_phase nn). set (t_low := n_period nn * (Z.of_nat (S N') - 1) + n_phase nn).
    assert (Hlh : t_low <= t_high) by (unfold t_low, t_high; nia).
    assert (Hpos : (0 <? Z.of_nat (S N')) = true) by (apply Z.ltb_lt; lia). rewrite Hpos.
    fold t_high t_low P phm. set (i0 := (t_low - phm) / P).
    assert (Hf : (t_high - (i0 * P + phm)) / P = (t_high - phm) / P - i0).
    { replace (t_high - (i0 * P + phm)) with ((t_high - phm) + (- i0) * P) by lia. rewrite Z.div_add by lia. lia. }
    rewrite Hf.
    change (sched (Z.of_nat (S N'))) with t_high. change (sched (Z.of_nat (S N') - 1)) with t_low.
    destruct (c_skip (conn G c)).
    + apply blocking_count_skip; try assumption.
      assert (i0 <= (t_high - phm) / P) by (apply Z.div_le_mono; lia). unfold i0 in *. lia.
    + apply blocking_count_nonskip; try assumption.
      assert (i0 <= (t_high - phm) / P) by (apply Z.div_le_mono; lia). unfold i0 in *. lia.
Qed.
End Model.
Print Assumptions blk_cnt_closed_form.
