(* C17 laws about the transforms of Tree.v *)
From Coq Require Import List ZArith Bool Lia Reals Lra.
From Rex Require Import Ops Kernels Tree.
Import ListNotations.

Section Ind.
Context {A : Type} (P : tree A -> Prop)
  (Hl : forall v, P (Leaf v)) (Hn : forall kids, Forall (fun kc => P (snd kc)) kids -> P (Node kids)).
Fixpoint tree_ind' (t : tree A) : P t :=
  match t with
  | Leaf v => Hl v
  | Node kids => Hn kids ((fix go (l : list (Z * tree A)) : Forall (fun kc => P (snd kc)) l :=
      match l with [] => Forall_nil _ | (k, c) :: l => Forall_cons (k, c) (tree_ind' c) (go l) end) kids)
  end.
End Ind.

Section Laws.
Context {A : Type}.
Implicit Types t b p o s : tree A.

(* --- unfolding equations for the nested fixpoints *)
Definition kmap (f : tree A -> tree A) (l : list (Z * tree A)) := map (fun kc => (fst kc, f (snd kc))) l.
Lemma tmap_node f kids : tmap f (Node kids) = Node (kmap (tmap f) kids).
Proof. simpl. f_equal. induction kids as [|[k c] l IH]; simpl; [reflexivity|]. now rewrite IH. Qed.
Lemma fill_node v kids : fill v (Node kids) = Node (kmap (fill v) kids).
Proof. simpl. f_equal. induction kids as [|[k c] l IH]; simpl; [reflexivity|]. now rewrite IH. Qed.

(* predicates on all present leaves *)
Fixpoint tall (P : A -> Prop) t : Prop :=
  match t with
  | Leaf None => True | Leaf (Some v) => P v
  | Node kids => (fix go (l : list (Z * tree A)) := match l with [] => True | (_, c) :: l => tall P c /\ go l end) kids
  end.
Lemma tall_node P kids : tall P (Node kids) <-> Forall (fun kc => tall P (snd kc)) kids.
Proof.
  simpl. induction kids as [|[k c] l IH]; simpl; [split; auto|]. split.
  - intros [H1 H2]. constructor; [exact H1|apply IH; exact H2].
  - intros H. inversion H; subst. split; [assumption|apply IH; assumption].
Qed.

(* --- leaf-wise round trip *)
Lemma tmap_roundtrip (f g : A -> A) t : tall (fun x => g (f x) = x) t -> tmap g (tmap f t) = t.
Proof.
  induction t as [v|kids IH] using tree_ind'; intros H.
  - destruct v as [v|]; simpl in *; [rewrite H|]; reflexivity.
  - rewrite tmap_node, tmap_node. f_equal. apply tall_node in H.
    induction kids as [|[k c] l IHl]; [reflexivity|]. inversion IH; subst. inversion H; subst. simpl in *.
    f_equal; [f_equal; auto|auto].
Qed.

(* --- three-tree map: shape and round trip *)
Fixpoint tall3 (P : A -> A -> A -> Prop) p o s : Prop :=
  match p, o, s with
  | Leaf (Some x), Leaf (Some y), Leaf (Some z) => P x y z
  | Node ks, Node os, Node ss =>
      (fix go (l m n : list (Z * tree A)) : Prop :=
         match l, m, n with
         | (_, c) :: l, (_, c') :: m, (_, c'') :: n => tall3 P c c' c'' /\ go l m n
         | _, _, _ => True end) ks os ss
  | _, _, _ => True
  end.

Lemma tmap3_roundtrip (f g : A -> A -> A -> A) p : forall o s,
  same_shape p o = true -> same_shape p s = true ->
  tall3 (fun x y z => g (f x y z) y z = x) p o s -> tmap3 g (tmap3 f p o s) o s = p.
Proof.
  induction p as [v|kids IH] using tree_ind'; intros o s Ho Hs H.
  - destruct v as [x|]; destruct o as [[y|]|]; try discriminate; destruct s as [[z|]|]; try discriminate; simpl in *;
      [rewrite H|]; reflexivity.
  - destruct o as [w|os]; [discriminate|]. destruct s as [w|ss]; [discriminate|].
    simpl. f_equal. simpl in Ho, Hs, H. revert os ss Ho Hs H.
    induction kids as [|[k c] l IHl]; intros os ss Ho Hs H; [reflexivity|].
    inversion IH as [|? ? Hc Hl]; subst. simpl in Hc.
    destruct os as [|[k1 c1] os]; [discriminate|]. destruct ss as [|[k2 c2] ss]; [discriminate|].
    apply Bool.andb_true_iff in Ho as [Ho Ho2]. apply Bool.andb_true_iff in Ho as [_ Ho1].
    apply Bool.andb_true_iff in Hs as [Hs Hs2]. apply Bool.andb_true_iff in Hs as [_ Hs1].
    destruct H as [H1 H2]. f_equal; [f_equal; apply Hc; assumption|apply IHl; assumption].
Qed.
End Laws.

Section Transforms.
Context {A : Type}.
Implicit Types t b p : tree A.
Implicit Types T : transform A.

(* --- Chain: first-to-last on apply, last-to-first on inv *)
Definition chain_app (ts : list (transform A)) t := fold_left (fun acc T => app T acc) ts t.
Definition chain_inv (ts : list (transform A)) t := fold_right (fun T acc => inv T acc) t ts.
Lemma app_chain ts t : app (TChain ts) t = chain_app ts t.
Proof. unfold chain_app. simpl. revert t. induction ts as [|T ts IH]; intros t; simpl; [reflexivity|apply IH]. Qed.
Lemma inv_chain ts t : inv (TChain ts) t = chain_inv ts t.
Proof. unfold chain_inv. simpl. induction ts as [|T ts IH]; simpl; [reflexivity|now rewrite IH]. Qed.

Theorem chain_apply_order ts1 ts2 t : app (TChain (ts1 ++ ts2)) t = app (TChain ts2) (app (TChain ts1) t).
Proof. rewrite !app_chain. unfold chain_app. apply fold_left_app. Qed.
Theorem chain_inv_order ts1 ts2 t : inv (TChain (ts1 ++ ts2)) t = inv (TChain ts1) (inv (TChain ts2) t).
Proof. rewrite !inv_chain. unfold chain_inv. apply fold_right_app. Qed.
Theorem chain_apply_cons T ts t : app (TChain (T :: ts)) t = app (TChain ts) (app T t).
Proof. rewrite !app_chain. reflexivity. Qed.
Theorem chain_inv_cons T ts t : inv (TChain (T :: ts)) t = inv T (inv (TChain ts) t).
Proof. rewrite !inv_chain. reflexivity. Qed.

(* --- the domain on which a transform round-trips at a given tree *)
Fixpoint rt_ok T t : Prop :=
  match T with
  | TIdentity => True
  | TLeafwise f g => tall (fun x => g (f x) = x) t
  | TDenorm f g o s => same_shape t o = true /\ same_shape t s = true /\ tall3 (fun x y z => g (f x y z) y z = x) t o s
  | TExtend _ => False
  | TShared w _ => get_at w t = Some (Leaf None)
  | TChain ts => (fix go (l : list (transform A)) (acc : tree A) : Prop :=
                    match l with [] => True | T :: l => rt_ok T acc /\ go l (app T acc) end) ts t
  end.

Lemma set_get_same w : forall t x, get_at w t = Some x -> set_at w x t = t.
Proof.
  induction w as [|k w IH]; intros t x H; simpl in *; [congruence|].
  destruct t as [v|kids]; [reflexivity|]. f_equal.
  induction kids as [|[k' c] l IHl]; [reflexivity|]. destruct (Z.eqb k k'); [f_equal; f_equal; apply IH; exact H|].
  f_equal. apply IHl. exact H.
Qed.
Lemma set_set w : forall t x y, set_at w x (set_at w y t) = set_at w x t.
Proof.
  induction w as [|k w IH]; intros t x y; simpl; [reflexivity|].
  destruct t as [v|kids]; [reflexivity|]. f_equal.
  induction kids as [|[k' c] l IHl]; [reflexivity|]. destruct (Z.eqb k k') eqn:E; simpl; rewrite E; [now rewrite IH|].
  f_equal. apply IHl.
Qed.

Section TInd.
Context (P : transform A -> Prop) (H1 : P TIdentity) (H2 : forall f g, P (TLeafwise f g))
  (H3 : forall f g o s, P (TDenorm f g o s)) (H4 : forall b, P (TExtend b)) (H5 : forall w f, P (TShared w f))
  (H6 : forall ts, Forall P ts -> P (TChain ts)).
Fixpoint transform_ind' T : P T :=
  match T with
  | TIdentity => H1 | TLeafwise f g => H2 f g | TDenorm f g o s => H3 f g o s | TExtend b => H4 b | TShared w f => H5 w f
  | TChain ts => H6 ts ((fix go (l : list (transform A)) : Forall P l :=
        match l with [] => Forall_nil _ | T :: l => Forall_cons T (transform_ind' T) (go l) end) ts)
  end.
End TInd.

(* inv (apply x) = x on the domain, for every transform incl. nested chains *)
Theorem inv_apply T : forall t, rt_ok T t -> inv T (app T t) = t.
Proof.
  induction T as [|f g|f g o s|b|w fr|ts IH] using transform_ind'; intros t H.
  - reflexivity.
  - apply tmap_roundtrip. exact H.
  - destruct H as (Ho & Hs & H). apply tmap3_roundtrip; assumption.
  - destruct H.
  - simpl in *. destruct (get_at fr t) as [new|]; [rewrite set_set|]; apply set_get_same; exact H.
  - rewrite app_chain, inv_chain. revert t H. induction ts as [|T ts IHts]; intros t H; [reflexivity|].
    inversion IH as [|? ? HT Hts]; subst. destruct H as [Ha Hb].
    change (inv T (chain_inv ts (chain_app ts (app T t))) = t).
    rewrite (IHts Hts (app T t) Hb). apply HT. exact Ha.
Qed.

(* --- Extend *)
(* leaf reached by a key path: None = no such position *)
Fixpoint leaf_at (path : list Z) t : option (option A) :=
  match t, path with
  | Leaf v, [] => Some v
  | Leaf _, _ :: _ => None
  | Node _, [] => None
  | Node kids, k :: path => (fix go (l : list (Z * tree A)) := match l with [] => None
                        | (k', c) :: l => if Z.eqb k k' then leaf_at path c else go l end) kids
  end.
(* the leaf of the prefix tree p that covers a path (first leaf met on the way down) *)
Fixpoint cover (path : list Z) p : option (option A) :=
  match p with
  | Leaf v => Some v
  | Node kids => match path with [] => None
      | k :: path => (fix go (l : list (Z * tree A)) := match l with [] => None
                        | (k', c) :: l => if Z.eqb k k' then cover path c else go l end) kids end
  end.

Lemma leaf_at_fill v b : forall path, leaf_at path (fill v b) = match leaf_at path b with
   | Some (Some _) => Some (Some v) | r => r end.
Proof.
  induction b as [w|kids IH] using tree_ind'; intros path.
  - destruct w, path; reflexivity.
  - rewrite fill_node. destruct path as [|k path]; [reflexivity|]. simpl.
    induction kids as [|[k' c] l IHl]; [reflexivity|]. inversion IH; subst. simpl in *.
    destruct (Z.eqb k k'); auto.
Qed.

(* Fills exactly the missing leaves from the base tree; supplied leaves untouched; base structure kept.
   keys of dict nodes are assumed distinct (nodup_keys), as Python dicts guarantee *)
Fixpoint nodup_keys t : Prop :=
  match t with Leaf _ => True
  | Node kids => NoDup (map fst kids) /\
      (fix go (l : list (Z * tree A)) := match l with [] => True | (_, c) :: l => nodup_keys c /\ go l end) kids end.

Theorem extend_spec p : forall b path, prefix_ok b p = true -> nodup_keys b ->
  leaf_at path (textend b p) =
    match leaf_at path b with
    | Some (Some bv) => match cover path p with Some (Some v) => Some (Some v) | _ => Some (Some bv) end
    | r => r end.
Proof.
  induction p as [v|ps IH] using tree_ind'; intros b path Hok Hnd.
  - destruct v as [v|].
    + change (textend b (Leaf (Some v))) with (fill v b). replace (cover path (Leaf (Some v))) with (Some (Some v)) by (destruct path; reflexivity).
      rewrite leaf_at_fill. destruct (leaf_at path b) as [[bv|]|]; reflexivity.
    + change (textend b (Leaf None)) with b. replace (cover path (Leaf None)) with (Some (@None A)) by (destruct path; reflexivity).
      destruct (leaf_at path b) as [[bv|]|]; reflexivity.
  - destruct b as [w|bs]; [discriminate|]. simpl in Hok. destruct Hnd as [Hnd Hkids].
    destruct path as [|k path]; [reflexivity|]. cbn [textend leaf_at cover].
    revert bs Hok Hnd Hkids. induction ps as [|[kp cp] ps IHp]; intros bs Hok Hnd Hkids.
    + destruct bs; [reflexivity|discriminate].
    + destruct bs as [|[kb cb] bs]; [discriminate|].
      apply Bool.andb_true_iff in Hok as [Hok Hok2]. apply Bool.andb_true_iff in Hok as [Hk Hok1].
      apply Z.eqb_eq in Hk. subst kp. inversion IH as [|? ? Hc Hl]; subst. simpl in Hc.
      inversion Hnd as [|? ? Hnin Hnd']; subst. destruct Hkids as [Hcb Hkids].
      destruct (Z.eqb k kb) eqn:E.
      * apply Hc; assumption.
      * apply IHp; assumption.
Qed.
End Transforms.

(* --- scalar laws over R for the kernels of Kernels.v *)
Open Scope R_scope.
Lemma denorm_leaf_roundtrip (x y z : R) : z <> 0 -> normalize Rops (denormalize Rops x y z) y z = x.
Proof. intros H. unfold normalize, denormalize; simpl. field. exact H. Qed.
Lemma norm_leaf_roundtrip (x y z : R) : z <> 0 -> denormalize Rops (normalize Rops x y z) y z = x.
Proof. intros H. unfold normalize, denormalize; simpl. field. exact H. Qed.
Lemma denorm_scale_nonzero mn mx : mn <> mx -> denorm_scale Rops mn mx <> 0.
Proof. intros H. unfold denorm_scale; simpl. lra. Qed.
Lemma denorm_endpoints mn mx :
  denormalize Rops (-1) (denorm_offset Rops mn mx) (denorm_scale Rops mn mx) = mn /\
  denormalize Rops 1 (denorm_offset Rops mn mx) (denorm_scale Rops mn mx) = mx.
Proof. unfold denormalize, denorm_offset, denorm_scale; simpl. split; field. Qed.
Lemma denorm_mono mn mx x y : mn < mx -> x < y ->
  denormalize Rops x (denorm_offset Rops mn mx) (denorm_scale Rops mn mx) <
  denormalize Rops y (denorm_offset Rops mn mx) (denorm_scale Rops mn mx).
Proof. intros H Hxy. unfold denormalize, denorm_offset, denorm_scale; simpl. nra. Qed.
Lemma exp_inv_apply x : ln (exp x) = x. Proof. apply ln_exp. Qed.
Lemma exp_apply_inv x : 0 < x -> exp (ln x) = x. Proof. apply exp_ln. Qed.

(* Denormalize on whole trees with per-leaf bounds: inv (apply t) = t when min <> max at every leaf *)
Theorem denormalize_tree_roundtrip (t mn mx : tree R) :
  let o := tmap2 (denorm_offset Rops) mn mx in let s := tmap2 (denorm_scale Rops) mn mx in
  same_shape t o = true -> same_shape t s = true -> tall3 (fun _ _ z => z <> 0) t o s ->
  inv (TDenorm (denormalize Rops) (normalize Rops) o s) (app (TDenorm (denormalize Rops) (normalize Rops) o s) t) = t.
Proof.
  intros o s Ho Hs Hz. apply inv_apply. split; [exact Ho|split; [exact Hs|]].
  clear Ho Hs. revert o s Hz. generalize (tmap2 (denorm_offset Rops) mn mx) (tmap2 (denorm_scale Rops) mn mx). clear.
  induction t as [v|kids IH] using tree_ind'; intros o s o' s' Hz; subst o' s'.
  - destruct v as [x|]; destruct o as [[y|]|]; destruct s as [[z|]|]; simpl in *; auto. apply denorm_leaf_roundtrip. exact Hz.
  - destruct o as [w|os]; [exact I|]. destruct s as [w|ss]; [exact I|]. simpl in *.
    revert os ss Hz. induction kids as [|[k c] l IHl]; intros os ss Hz; [exact I|].
    destruct os as [|[k1 c1] os]; [exact I|]. destruct ss as [|[k2 c2] ss]; [exact I|].
    inversion IH as [|? ? Hc Hl]; subst. destruct Hz as [Hz1 Hz2]. split; [eapply Hc; eauto|apply IHl; assumption].
Qed.
Theorem exponential_tree_roundtrip (t : tree R) : inv (TLeafwise exp ln) (app (TLeafwise exp ln) t) = t.
Proof.
  apply inv_apply. simpl. induction t as [v|kids IH] using tree_ind'; [destruct v; simpl; auto using ln_exp|].
  apply tall_node. induction kids as [|[k c] l IHl]; constructor; inversion IH; subst; auto.
Qed.
