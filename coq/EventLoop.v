(* C05 (liveness of the threaded runtime's connection handlers): event-triggered handlers vs guard-based firing.
   A connection handler owns a queue of expectations (each: how many messages it needs) and a counter of available messages.
   It is only CALLED when an event arrives (a new expectation or a new message).  The actor model M1 fires a handler whenever it is enabled;
   the code is equivalent to that only if, after every event, no enabled entry is left behind.
   [recheck = true]  : the handler re-checks after each processed entry (the code as repaired);
   [recheck = false] : the handler processes at most one entry per call (the code as pinned) - refuted below.                         *)
From Coq Require Import List Arith Bool Lia.
Import ListNotations.

Record st := { pending : list nat; avail : nat; done_ : list nat }.   (* expectations, available messages, processed groups *)
Inductive event := NewExpectation (n : nat) | NewMessage.

Definition enabled (s : st) : bool := match pending s with n :: _ => n <=? avail s | [] => false end.
Definition process_one (s : st) : st :=
  match pending s with n :: p => {| pending := p; avail := avail s - n; done_ := done_ s ++ [n] |} | [] => s end.
(* the handler body: process while enabled (fuel = number of pending entries suffices) *)
Fixpoint drain (fuel : nat) (s : st) : st :=
  match fuel with O => s | S fuel => if enabled s then drain fuel (process_one s) else s end.
Definition handler (recheck : bool) (s : st) : st :=
  if recheck then drain (length (pending s)) s else (if enabled s then process_one s else s).
Definition on_event (recheck : bool) (s : st) (e : event) : st :=
  handler recheck (match e with
                   | NewExpectation n => {| pending := pending s ++ [n]; avail := avail s; done_ := done_ s |}
                   | NewMessage => {| pending := pending s; avail := S (avail s); done_ := done_ s |} end).
Definition run (recheck : bool) (es : list event) : st := fold_left (on_event recheck) es {| pending := []; avail := 0; done_ := [] |}.

Lemma drain_not_enabled fuel : forall s, length (pending s) <= fuel -> enabled (drain fuel s) = false.
Proof.
  induction fuel as [|fuel IH]; intros s H; simpl.
  - unfold enabled. destruct (pending s); [reflexivity|simpl in H; lia].
  - destruct (enabled s) eqn:E; [|exact E]. apply IH. unfold process_one, enabled in *. destruct (pending s); [discriminate|]. simpl in *. lia.
Qed.

(* with the re-check, after every event no enabled entry is left behind: quiescence of the events implies that the handler is not
   enabled, i.e. the event-triggered code has fired exactly as often as the guard-based model *)
Theorem recheck_leaves_nothing_enabled es : enabled (run true es) = false.
Proof.
  unfold run. induction es as [|e es IH] using rev_ind; [reflexivity|].
  rewrite fold_left_app. simpl. unfold on_event, handler. apply drain_not_enabled. lia.
Qed.

(* nothing is lost or reordered: processed groups ++ pending = the expectations in arrival order *)
Definition expectations (es : list event) : list nat := flat_map (fun e => match e with NewExpectation n => [n] | NewMessage => [] end) es.
Lemma drain_keeps fuel : forall s, done_ (drain fuel s) ++ pending (drain fuel s) = done_ s ++ pending s.
Proof.
  induction fuel as [|fuel IH]; intros s; simpl; [reflexivity|]. destruct (enabled s) eqn:E; [|reflexivity].
  rewrite IH. unfold process_one, enabled in *. destruct (pending s); [discriminate|]. simpl. now rewrite <- app_assoc.
Qed.
Theorem recheck_preserves_order es : done_ (run true es) ++ pending (run true es) = expectations es.
Proof.
  unfold run. induction es as [|e es IH] using rev_ind; [reflexivity|].
  rewrite fold_left_app. simpl. unfold on_event, handler. rewrite drain_keeps. unfold expectations in *. rewrite flat_map_app. simpl.
  set (s0 := fold_left (on_event true) es {| pending := []; avail := 0; done_ := [] |}) in *.
  destruct e; simpl; rewrite ?app_nil_r; [rewrite app_assoc; f_equal; exact IH|exact IH].
Qed.

(* one entry per call: an expectation of zero messages queued behind a pending one is left enabled when the events stop *)
Theorem one_per_event_refuted : exists es, enabled (run false es) = true.
Proof. exists [NewExpectation 2; NewExpectation 0; NewMessage; NewMessage]. reflexivity. Qed.

(* which variant a handler body corresponds to (translator tie): does it call itself again after processing an entry? *)
Definition mode_of (calls_itself_after_processing : bool) : bool := calls_itself_after_processing.
Print Assumptions recheck_leaves_nothing_enabled.
Print Assumptions one_per_event_refuted.
