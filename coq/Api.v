(* C09: the compiled runtime's API paths are compositions of the same two functions; index clipping saturates *)
From Coq Require Import List Arith ZArith Lia.
Import ListNotations.
Open Scope Z_scope.

Section Api.
Variable GS : Type.
Variables (until_sup run_sup : GS -> GS).     (* run_until_supervisor, run_supervisor (own step) *)
Definition run (g : GS) := run_sup (until_sup g).
Definition reset (g : GS) := until_sup g.
Definition step (g : GS) := until_sup (run_sup g).
Fixpoint iter (f : GS -> GS) (n : nat) (g : GS) : GS := match n with O => g | S n => iter f n (f g) end.
Definition rollout (n : nat) (g : GS) := iter run n g.               (* fori_loop / scan carry *)
Fixpoint rollout_traj (n : nat) (g : GS) : list GS :=                (* scan outputs *)
  match n with O => [] | S n => run g :: rollout_traj n (run g) end.

Lemma iter_snoc f n g : iter f (S n) g = f (iter f n g).
Proof. revert g; induction n as [|n IH]; intros g; [reflexivity|]. simpl in *. now rewrite IH. Qed.

(* run() n times  =  reset(), then step() n-1 times, then the supervisor *)
Theorem run_n_eq_reset_steps n g : iter run (S n) g = run_sup (iter step n (reset g)).
Proof.
  revert g. induction n as [|n IH]; intros g; [reflexivity|].
  change (iter run (S (S n)) g) with (iter run (S n) (run g)). rewrite IH.
  unfold reset, run, step. simpl. reflexivity.
Qed.
Theorem rollout_eq_iter_run n g : rollout n g = iter run n g. Proof. reflexivity. Qed.
(* the last element of the full trajectory is the carry-only result *)
Theorem rollout_traj_last n g d : last (rollout_traj (S n) g) d = rollout (S n) g.
Proof.
  revert g. induction n as [|n IH]; intros g; [reflexivity|].
  change (rollout_traj (S (S n)) g) with (run g :: rollout_traj (S n) (run g)).
  change (rollout (S (S n)) g) with (rollout (S n) (run g)). rewrite <- IH.
  simpl. destruct (rollout_traj n (run (run g))); reflexivity.
Qed.
(* passing the supervisor's own step result to step() is the same as letting step() run it *)
Variable override : GS -> GS -> GS.    (* run_supervisor(gs, step_state, output) with the result taken from another state *)
Hypothesis override_own : forall g, override g (run_sup g) = run_sup g.
Theorem step_override_eq g : until_sup (override g (run_sup g)) = step g.
Proof. unfold step. now rewrite override_own. Qed.
End Api.

(* replace_eps / replace_step: jnp.clip(x, 0, n-1) -- saturating, never modular *)
Definition clip (x n : Z) : Z := Z.min (Z.max x 0) (n - 1).
Theorem clip_spec x n : 0 < n ->
  (x < 0 -> clip x n = 0) /\ (0 <= x < n -> clip x n = x) /\ (n <= x -> clip x n = n - 1) /\ 0 <= clip x n < n.
Proof. unfold clip. lia. Qed.
Example clip_is_not_wrap : clip 7 5 = 4 /\ 7 mod 5 = 2 /\ clip (-3) 5 = 0 /\ (-3) mod 5 = 2.
Proof. repeat split; reflexivity. Qed.
Print Assumptions run_n_eq_reset_steps.
