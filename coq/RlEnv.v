(* C19 — model of rex/rl.py: Environment.init/reset/step over an abstract graph, and the wrappers AutoResetWrapper (stored
   and freshly drawn initial state), LogWrapper, SquashActionWrapper, ClipActionWrapper, VecEnvWrapper,
   NormalizeVecObservationWrapper, NormalizeVecReward over an abstract wrapped environment.  External behaviour (the graph,
   the user's get_* methods, the wrapped environment, the PRNG split, tanh / sqrt) enters as Section variables. *)
From Coq Require Import ZArith Bool List.
From Rex Require Import Ops RlKernels.
Import ListNotations.

(* ------------------------------------------------------------------ Environment *)
Section Env.
Variables (GS SS Out Act Obs Rw Flag Info Rng : Type).
(* graph.init(rng, params, starting_step, starting_eps, randomize_eps, order): only starting_step varies *)
Variable graph_init : Rng -> Z -> GS.
Variable graph_reset : GS -> GS * SS.
Variable graph_step : GS -> SS -> Out -> GS * SS.
Variable get_step_state : GS -> SS.                 (* graph_state.step_state[supervisor] *)
Variable get_output : GS -> Act -> Out.
Variable pre_step : GS -> Act -> GS.
Variable post_step : GS -> option Act -> GS.
Variable get_reward : GS -> Act -> Rw.
Variables get_truncated get_terminated : GS -> Flag.
Variable get_info : GS -> option Act -> Info.
Variable get_observation : GS -> Obs.

Definition env_init (only_init : bool) (rng : Rng) : GS :=
  if only_init then graph_init rng 1 else fst (graph_reset (graph_init rng 0)).

(* note: reset returns the graph state *before* the post-step update; the observation and info are taken after it *)
Definition env_reset (only_init : bool) (rng : Rng) : GS * Obs * Info :=
  let gs := env_init only_init rng in
  let gs_post := post_step gs None in
  (gs, get_observation gs_post, get_info gs_post None).

Definition env_step (graph_state : GS) (action : Act) : GS * Obs * Rw * Flag * Flag * Info :=
  let output := get_output graph_state action in
  let gs_pre := pre_step graph_state action in
  let gs_step := fst (graph_step gs_pre (get_step_state gs_pre) output) in
  let reward := get_reward gs_step action in
  let truncated := get_truncated gs_step in
  let terminated := get_terminated gs_step in
  let gs_post := post_step gs_step (Some action) in
  let info := get_info gs_post (Some action) in
  let obs := get_observation gs_post in
  (gs_post, obs, reward, terminated, truncated, info).
End Env.

(* ------------------------------------------------------------------ per-environment wrappers *)
Fixpoint map3 {X Y Z W} (f : X -> Y -> Z -> W) (a : list X) (b : list Y) (c : list Z) : list W :=
  match a, b, c with x :: a, y :: b, z :: c => f x y z :: map3 f a b c | _, _, _ => [] end.
Fixpoint map2 {X Y W} (f : X -> Y -> W) (a : list X) (b : list Y) : list W :=
  match a, b with x :: a, y :: b => f x y :: map2 f a b | _, _ => [] end.

Section Wrap.
Context {A : Type} (O : ops A).
Variables (C IB Rng : Type).              (* C: the graph state minus rng and aux; IB: the wrapped environment's info *)
Variable th : A -> A.                     (* jnp.tanh *)
Variable split : Rng -> Rng * Rng.        (* jax.random.split(key) = (keys[0], keys[1]) *)
Definition obs := list A.
Definition act := list A.

Record sqst := { s_lo : list A; s_hi : list A; s_on : bool }.
Record info := { i_base : IB; i_log : option (A * A * A * bool) }.     (* returned_episode_returns, _lengths, timestep, returned_episode *)
(* graph state = core + rng + aux; aux holds one optional entry per wrapper ("init", "log", "act_scaling") *)
Record gstate := { g_core : C; g_rng : Rng; a_init : option (C * obs * info); a_log : option (logst (A:=A)); a_sq : option sqst }.
Definition ret := (gstate * obs * A * bool * bool * info)%type.
Record env := { e_reset : Rng -> gstate * obs * info; e_step : gstate -> act -> ret; e_space : gstate -> list A * list A }.

Definition set_core (g : gstate) c := {| g_core := c; g_rng := g_rng g; a_init := a_init g; a_log := a_log g; a_sq := a_sq g |}.
Definition set_rng (g : gstate) r := {| g_core := g_core g; g_rng := r; a_init := a_init g; a_log := a_log g; a_sq := a_sq g |}.
Definition set_init (g : gstate) x := {| g_core := g_core g; g_rng := g_rng g; a_init := x; a_log := a_log g; a_sq := a_sq g |}.
Definition set_log (g : gstate) x := {| g_core := g_core g; g_rng := g_rng g; a_init := a_init g; a_log := x; a_sq := a_sq g |}.
Definition set_sq (g : gstate) x := {| g_core := g_core g; g_rng := g_rng g; a_init := a_init g; a_log := a_log g; a_sq := x |}.
(* graph_state.replace(aux=other.aux) *)
Definition with_aux_of (g other : gstate) :=
  {| g_core := g_core g; g_rng := g_rng g; a_init := a_init other; a_log := a_log other; a_sq := a_sq other |}.

(* the wrapped environment (a user subclass of Environment or anything with the same API) *)
Variable base_reset : Rng -> C * Rng * obs * IB.
Variable base_step : C -> Rng -> act -> C * Rng * obs * A * bool * bool * IB.
Variable base_space : C -> list A * list A.
Definition base : env :=
  {| e_reset := fun k => let '(c, r, o, i) := base_reset k in
       ({| g_core := c; g_rng := r; a_init := None; a_log := None; a_sq := None |}, o, {| i_base := i; i_log := None |});
     e_step := fun g a => let '(c, r, o, rw, te, tr, i) := base_step (g_core g) (g_rng g) a in
       (set_rng (set_core g c) r, o, rw, te, tr, {| i_base := i; i_log := None |});
     e_space := fun g => base_space (g_core g) |}.

(* AutoResetWrapper(fixed_init=True) *)
Definition auto_fixed (e : env) : env :=
  {| e_reset := fun k => let '(g, o, i) := e_reset e k in (set_init g (Some (g_core g, o, i)), o, i);
     e_step := fun g a =>
       let '(g1, o, r, te, tr, i) := e_step e g a in
       match a_init g1 with
       | Some (c0, o0, i0) =>
           (* init.graph_state.replace(rng=gs.rng).replace(aux=gs.aux) *)
           if orb te tr then (set_core g1 c0, o0, r, te, tr, i0) else (g1, o, r, te, tr, i)
       | None => (g1, o, r, te, tr, i)          (* gs.aux["init"] missing: the code raises; unreachable after reset *)
       end;
     e_space := e_space e |}.

(* AutoResetWrapper(fixed_init=False) *)
Definition auto_fresh (e : env) : env :=
  {| e_reset := e_reset e;
     e_step := fun g a =>
       let '(g1, o, r, te, tr, i) := e_step e g a in
       let '(new_rng, rng_init) := split (g_rng g1) in
       let g2 := set_rng g1 new_rng in
       let '(ig, io, ii) := e_reset e rng_init in
       if orb te tr then (with_aux_of ig g2, io, r, te, tr, ii) else (g2, o, r, te, tr, i);
     e_space := e_space e |}.

(* LogWrapper *)
Definition log_info (i : info) (s : logst) (done : bool) : info :=
  {| i_base := i_base i; i_log := Some (l_rret s, l_rlen s, l_t s, done) |}.
Definition log_wrap (e : env) : env :=
  {| e_reset := fun k => let '(g, o, i) := e_reset e k in (set_log g (Some (log0 O)), o, i);
     e_step := fun g a =>
       let '(g1, o, r, te, tr, i) := e_step e g a in
       match a_log g1 with
       | Some s => let s' := log_step O s r te tr in (set_log g1 (Some s'), o, r, te, tr, log_info i s' (orb te tr))
       | None => (g1, o, r, te, tr, i)
       end;
     e_space := e_space e |}.

(* SquashActionWrapper(squash) *)
Definition squash_wrap (sq : bool) (e : env) : env :=
  {| e_reset := fun k => let '(g, o, i) := e_reset e k in
       let '(lo, hi) := e_space e g in (set_sq g (Some {| s_lo := lo; s_hi := hi; s_on := sq |}), o, i);
     e_step := fun g a =>
       match a_sq g with
       | Some s => e_step e g (map3 (fun l h x => sq_unsquash O th (s_on s) l h x) (s_lo s) (s_hi s) a)
       | None => e_step e g a
       end;
     e_space := fun g => let '(lo, hi) := e_space e g in
       if sq then (map (fun _ => oopp O (oz O 1)) lo, map (fun _ => oz O 1) hi) else (lo, hi) |}.

(* ClipActionWrapper *)
Definition clip_wrap (e : env) : env :=
  {| e_reset := e_reset e;
     e_step := fun g a => let '(lo, hi) := e_space e g in e_step e g (map3 (fun x l h => clip O x l h) a lo hi);
     e_space := e_space e |}.

Inductive wrapper := WAutoFixed | WAutoFresh | WLog | WSquash (sq : bool) | WClip.
Definition apply_wrapper (w : wrapper) (e : env) : env :=
  match w with WAutoFixed => auto_fixed e | WAutoFresh => auto_fresh e | WLog => log_wrap e
             | WSquash sq => squash_wrap sq e | WClip => clip_wrap e end.
(* innermost wrapper first *)
Definition stack (ws : list wrapper) : env := fold_left (fun e w => apply_wrapper w e) ws base.

(* running an environment from a reset over a list of actions: the list of step returns *)
Fixpoint run_from (e : env) (g : gstate) (acts : list act) : list ret :=
  match acts with [] => [] | a :: acts => let r := e_step e g a in r :: run_from e (fst (fst (fst (fst (fst r))))) acts end.
Definition run (e : env) (k : Rng) (acts : list act) : (gstate * obs * info) * list ret :=
  let r0 := e_reset e k in (r0, run_from e (fst (fst r0)) acts).

(* ------------------------------------------------------------------ vectorised wrappers *)
Variable sq : A -> A.                     (* jnp.sqrt *)
Record nrst := { n_mom : mom (A:=A); n_ret : list A }.
Record vstate := { v_envs : list gstate; a_nobs : option (list (mom (A:=A))); a_nrew : option nrst }.
Definition vret := (vstate * list obs * list A * list bool * list bool * list info)%type.
Record venv := { ve_reset : list Rng -> vstate * list obs * list info; ve_step : vstate -> list act -> vret }.

Definition r_gs (r : ret) := fst (fst (fst (fst (fst r)))).
Definition r_obs (r : ret) := snd (fst (fst (fst (fst r)))).
Definition r_rew (r : ret) := snd (fst (fst (fst r))).
Definition r_te (r : ret) := snd (fst (fst r)).
Definition r_tr (r : ret) := snd (fst r).
Definition r_info (r : ret) := snd r.

(* VecEnvWrapper: jax.vmap of reset and step *)
Definition vec (e : env) : venv :=
  {| ve_reset := fun ks => let rs := map (e_reset e) ks in
       ({| v_envs := map (fun r => fst (fst r)) rs; a_nobs := None; a_nrew := None |}, map (fun r => snd (fst r)) rs, map snd rs);
     ve_step := fun v acts => let rs := map2 (e_step e) (v_envs v) acts in
       ({| v_envs := map r_gs rs; a_nobs := a_nobs v; a_nrew := a_nrew v |},
        map r_obs rs, map r_rew rs, map r_te rs, map r_tr rs, map r_info rs) |}.

(* column j of a batch of observation vectors *)
Definition column (j : nat) (b : list obs) : list A := map (fun o => nth j o (oz O 0)) b.
Definition obs_dim (b : list obs) : nat := match b with [] => 0%nat | o :: _ => length o end.
Definition columns (b : list obs) : list (list A) := map (fun j => column j b) (seq 0 (obs_dim b)).
Definition norm_obs_row (clipv : A) (ms : list (mom (A:=A))) (o : obs) : obs :=
  map2 (fun m x => nv_normalize O sq (m_mean m) (m_var m) clipv true true x) ms o.
Definition set_nobs (v : vstate) x := {| v_envs := v_envs v; a_nobs := x; a_nrew := a_nrew v |}.
Definition set_nrew (v : vstate) x := {| v_envs := v_envs v; a_nobs := a_nobs v; a_nrew := x |}.

(* NormalizeVecObservationWrapper(clip_obs) *)
Definition norm_obs_wrap (clipv : A) (e : venv) : venv :=
  {| ve_reset := fun ks => let '(v, ob, i) := ve_reset e ks in
       let ms := map (fun col => mom_batch O (mom0 O) col) (columns ob) in
       (set_nobs v (Some ms), map (norm_obs_row clipv ms) ob, i);
     ve_step := fun v acts =>
       let '(v1, ob, r, te, tr, i) := ve_step e (set_nobs v None) acts in
       match a_nobs v with
       | Some ms0 => let ms := map2 (fun m col => mom_batch O m col) ms0 (columns ob) in
                     (set_nobs v1 (Some ms), map (norm_obs_row clipv ms) ob, r, te, tr, i)
       | None => (v1, ob, r, te, tr, i)
       end |}.

(* NormalizeVecReward(gamma, clip_reward) *)
Definition norm_rew_wrap (gamma clipv : A) (e : venv) : venv :=
  {| ve_reset := fun ks => let '(v, ob, i) := ve_reset e ks in
       (set_nrew v (Some {| n_mom := mom0 O; n_ret := map (fun _ => oz O 0) ob |}), ob, i);
     ve_step := fun v acts =>
       let '(v1, ob, r, te, tr, i) := ve_step e (set_nrew v None) acts in
       match a_nrew v with
       | Some s => let rv := map3 (fun x rw d => ret_update O gamma x rw (fst d) (snd d)) (n_ret s) r (combine te tr) in
                   let m := mom_batch O (n_mom s) rv in
                   (set_nrew v1 (Some {| n_mom := m; n_ret := rv |}), ob,
                    map (nv_normalize O sq (m_mean m) (m_var m) clipv true false) r, te, tr, i)
       | None => (v1, ob, r, te, tr, i)
       end |}.

Inductive vwrapper := VNormObs (clipv : A) | VNormRew (gamma clipv : A).
Definition apply_vwrapper (w : vwrapper) (e : venv) : venv :=
  match w with VNormObs c => norm_obs_wrap c e | VNormRew g c => norm_rew_wrap g c e end.
Definition vstack (ws : list wrapper) (vws : list vwrapper) : venv :=
  fold_left (fun e w => apply_vwrapper w e) vws (vec (stack ws)).

Fixpoint vrun_from (e : venv) (v : vstate) (acts : list (list act)) : list vret :=
  match acts with [] => [] | a :: acts => let r := ve_step e v a in r :: vrun_from e (fst (fst (fst (fst (fst r))))) acts end.
Definition vrun (e : venv) (ks : list Rng) (acts : list (list act)) :=
  let r0 := ve_reset e ks in (r0, vrun_from e (fst (fst r0)) acts).
End Wrap.

Arguments g_core {A C IB Rng}. Arguments g_rng {A C IB Rng}. Arguments a_init {A C IB Rng}. Arguments a_log {A C IB Rng}.
Arguments a_sq {A C IB Rng}. Arguments i_base {A IB}. Arguments i_log {A IB}.
Arguments s_lo {A}. Arguments s_hi {A}. Arguments s_on {A}.
Arguments e_reset {A C IB Rng}. Arguments e_step {A C IB Rng}. Arguments e_space {A C IB Rng}.
Arguments set_core {A C IB Rng}. Arguments set_rng {A C IB Rng}. Arguments set_init {A C IB Rng}.
Arguments set_log {A C IB Rng}. Arguments set_sq {A C IB Rng}. Arguments with_aux_of {A C IB Rng}.
Arguments auto_fixed {A C IB Rng}. Arguments auto_fresh {A C IB Rng}. Arguments log_wrap {A} O {C IB Rng}.
Arguments squash_wrap {A} O {C IB Rng}. Arguments clip_wrap {A} O {C IB Rng}.
Arguments run_from {A C IB Rng}. Arguments run {A C IB Rng}.
Arguments r_gs {A C IB Rng}. Arguments r_obs {A C IB Rng}. Arguments r_rew {A C IB Rng}. Arguments r_te {A C IB Rng}.
Arguments r_tr {A C IB Rng}. Arguments r_info {A C IB Rng}.
Arguments v_envs {A C IB Rng}. Arguments a_nobs {A C IB Rng}. Arguments a_nrew {A C IB Rng}.
Arguments n_mom {A}. Arguments n_ret {A}.
Arguments ve_reset {A C IB Rng}. Arguments ve_step {A C IB Rng}.
Arguments vec {A C IB Rng}. Arguments set_nobs {A C IB Rng}. Arguments set_nrew {A C IB Rng}.
Arguments norm_obs_wrap {A} O {C IB Rng}. Arguments norm_rew_wrap {A} O {C IB Rng}.
Arguments vrun_from {A C IB Rng}. Arguments vrun {A C IB Rng}.
